(** C15 — lemmas about Model/C15_Bv.v *)
From Coq Require Import Qfield Setoid Morphisms.
From PV Require Import Lib.Common Model.C15_Bv.
Local Open Scope Q_scope.
Local Arguments Qred : simpl never.
Local Arguments Qplus : simpl never.
Local Arguments Qminus : simpl never.
Local Arguments Qmult : simpl never.
Local Arguments Qinv : simpl never.
Local Arguments Qdiv : simpl never.
Local Arguments Qopp : simpl never.
Local Arguments Qeq : simpl never.
Local Arguments Qle_bool : simpl never.
Local Arguments Qeq_bool : simpl never.
Local Arguments inject_Z : simpl never.

(** * equality of possibly-missing rationals, columns, raw states *)
Definition oeq (a b : oq) : Prop :=
  match a, b with Some x, Some y => x == y | None, None => True | _, _ => False end.
Definition coleq := Forall2 oeq.
Definition ooeq (a b : option oq) : Prop :=
  match a, b with Some x, Some y => oeq x y | None, None => True | _, _ => False end.

Lemma oeq_refl a : oeq a a.
Proof. destruct a; cbn; [reflexivity|exact I]. Qed.
Lemma oeq_sym a b : oeq a b -> oeq b a.
Proof. destruct a, b; cbn; auto. intros H; now symmetry. Qed.
Lemma oeq_trans a b c : oeq a b -> oeq b c -> oeq a c.
Proof. destruct a, b, c; cbn; auto; try tauto. intros H1 H2; now rewrite H1. Qed.
Lemma coleq_refl c : coleq c c.
Proof. induction c; constructor; auto using oeq_refl. Qed.
Lemma coleq_sym a b : coleq a b -> coleq b a.
Proof. induction 1; constructor; auto using oeq_sym. Qed.
Lemma coleq_trans a b c : coleq a b -> coleq b c -> coleq a c.
Proof.
  intros H; revert c; induction H as [|x y tx ty Hxy _ IH]; intros c H2; inversion H2; subst; constructor.
  - eapply oeq_trans; eassumption.
  - now apply IH.
Qed.

Lemma oeq_none_pattern a b : oeq a b -> is_none a = is_none b.
Proof. destruct a, b; cbn; tauto. Qed.

(** * the round trip  scale * ((1/scale) * (x - location)) + location = x *)
Lemma roundtrip_elem (x : oq) (l s : Q) : ~ s == 0 ->
  oeq (oadd (omul (Some s) (omul (oinv (Some s)) (osub x (Some l)))) (Some l)) x.
Proof.
  intros Hs. destruct x as [v|]; [|exact I].
  unfold oadd, omul, osub, oinv, olift2, oeq.
  rewrite !Qred_correct. field. exact Hs.
Qed.

Lemma unscale_from_numpy_some (raw : list oq) (l s : Q) : ~ s == 0 ->
  coleq (col_unscale (col_from_numpy raw (Some l) (Some s))) raw.
Proof.
  intros Hs. unfold col_unscale, col_from_numpy; cbn. rewrite map_map.
  induction raw as [|x t IH]; cbn; constructor; [apply roundtrip_elem; exact Hs | exact IH].
Qed.

Lemma somes_nil_all_none (raw : list oq) : somes raw = [] -> Forall (fun x => x = None) raw.
Proof. induction raw as [|[v|] t IH]; cbn; intros H; [constructor | discriminate | constructor; auto]. Qed.

Lemma unscale_from_numpy_allnone (raw : list oq) (l s : oq) : Forall (fun x => x = None) raw ->
  coleq (col_unscale (col_from_numpy raw l s)) raw.
Proof.
  intros H. unfold col_unscale, col_from_numpy; cbn. rewrite map_map.
  induction H as [|x t Hx _ IH]; cbn; constructor; [|exact IH].
  subst x. destruct l, s; cbn; exact I.
Qed.

Lemma Qlt_bool_pos_nz (s : Q) : Qlt_bool 0 s = true -> ~ s == 0.
Proof.
  unfold Qlt_bool. intros H E. apply negb_true_iff in H.
  assert (Qle_bool s 0 = true) by (apply Qle_bool_iff; rewrite E; apply Qle_refl). congruence.
Qed.
Lemma Qlt_bool_iff (a b : Q) : Qlt_bool a b = true <-> a < b.
Proof.
  unfold Qlt_bool. rewrite negb_true_iff. split.
  - intros H. apply Qnot_le_lt. intros L. apply Qle_bool_iff in L. congruence.
  - intros H. destruct (Qle_bool b a) eqn:E; [|reflexivity]. apply Qle_bool_iff in E. exfalso. exact (Qlt_not_le _ _ H E).
Qed.

(** parameters accepted by the run-time check: either nothing observed (and everything NaN) or location/scale present, scale non-zero *)
Lemma params_shape (raw : list oq) (l s : oq) : loc_ok raw l = true -> sc_ok raw s = true ->
  (Forall (fun x => x = None) raw /\ l = None /\ s = None) \/ (exists l' s', l = Some l' /\ s = Some s' /\ ~ s' == 0).
Proof.
  unfold loc_ok, sc_ok, nanmean, nanvar. destruct (somes raw) as [|v0 vt] eqn:E.
  - intros H1 H2. left. destruct l; [discriminate|]. destruct s; [discriminate|]. split; [now apply somes_nil_all_none|auto].
  - intros H1 H2. right. destruct l as [l'|]; [|discriminate]. destruct s as [s'|]; [|discriminate].
    exists l', s'. split; [reflexivity|]. split; [reflexivity|].
    destruct (Qeq_bool (var_q (v0 :: vt)) 0).
    + apply Qeq_bool_iff in H2. intros E0. rewrite E0 in H2. discriminate H2.
    + apply andb_prop in H2 as [H2 _]. now apply Qlt_bool_pos_nz.
Qed.

Lemma unscale_from_numpy_col (raw : list oq) (l s : oq) : loc_ok raw l = true -> sc_ok raw s = true ->
  coleq (col_unscale (col_from_numpy raw l s)) raw.
Proof.
  intros H1 H2. destruct (params_shape raw l s H1 H2) as [[Hn _]|[l' [s' [-> [-> Hs]]]]].
  - now apply unscale_from_numpy_allnone.
  - now apply unscale_from_numpy_some.
Qed.

(** missing stays missing, nothing else becomes missing *)
Lemma nan_isolated_col (raw : list oq) (l s : oq) : loc_ok raw l = true -> sc_ok raw s = true ->
  map is_none (col_unscale (col_from_numpy raw l s)) = map is_none raw.
Proof.
  intros H1 H2. pose proof (unscale_from_numpy_col raw l s H1 H2) as H. clear H1 H2.
  induction H as [|a b ta tb Hab _ IH]; cbn; [reflexivity|]. f_equal; [now apply oeq_none_pattern | exact IH].
Qed.
Lemma stored_nan_pattern (raw : list oq) (l s : Q) :
  map is_none (cdat (col_from_numpy raw (Some l) (Some s))) = map is_none raw.
Proof. cbn. rewrite map_map. apply map_ext. intros [v|]; reflexivity. Qed.

(** * statistics: the stored column is the image of the raw column under a strictly increasing affine map *)
Definition stf (l s x : Q) : Q := Qred (Qred (/ s) * Qred (x - l)).
Local Arguments stf : simpl never.
Lemma stf_eq l s x : stf l s x == (x - l) / s.
Proof. unfold stf. rewrite !Qred_correct. unfold Qdiv. ring. Qed.
Lemma stored_some (raw : list oq) (l s : Q) :
  cdat (col_from_numpy raw (Some l) (Some s)) = map (fun x => match x with Some v => Some (stf l s v) | None => None end) raw.
Proof. cbn. apply map_ext. intros [v|]; reflexivity. Qed.

Lemma stf_le l s x y : 0 < s -> (stf l s x <= stf l s y <-> x <= y).
Proof.
  intros Hs. rewrite !stf_eq. unfold Qdiv.
  assert (Hi : 0 < / s) by now apply Qinv_lt_0_compat.
  rewrite (Qmult_le_r _ _ _ Hi). split; intros H.
  - apply (Qplus_le_l _ _ (- l)). exact H.
  - apply (Qplus_le_l _ _ (- l)) in H. exact H.
Qed.
Lemma stf_lt_bool l s x y : 0 < s -> Qlt_bool (stf l s x) (stf l s y) = Qlt_bool x y.
Proof.
  intros Hs. unfold Qlt_bool. f_equal.
  destruct (Qle_bool y x) eqn:E.
  - apply Qle_bool_iff. apply stf_le; [exact Hs|]. now apply Qle_bool_iff.
  - destruct (Qle_bool (stf l s y) (stf l s x)) eqn:E2; [|reflexivity].
    apply Qle_bool_iff in E2. apply stf_le in E2; [|exact Hs]. apply Qle_bool_iff in E2. congruence.
Qed.

Section Monotone.
  Variable f : Q -> Q.
  Hypothesis f_lt : forall x y, Qlt_bool (f x) (f y) = Qlt_bool x y.
  Lemma qmax_l_map b v : qmax_l (f b) (map f v) = f (qmax_l b v).
  Proof. revert b; induction v as [|x t IH]; intros b; cbn; [reflexivity|]. rewrite f_lt. destruct (Qlt_bool b x); apply IH. Qed.
  Lemma qmin_l_map b v : qmin_l (f b) (map f v) = f (qmin_l b v).
  Proof. revert b; induction v as [|x t IH]; intros b; cbn; [reflexivity|]. rewrite f_lt. destruct (Qlt_bool x b); apply IH. Qed.
  Lemma argmax_l_map b bi i v : argmax_l (f b) bi i (map f v) = argmax_l b bi i v.
  Proof. revert b bi i; induction v as [|x t IH]; intros b bi i; cbn; [reflexivity|]. rewrite f_lt. destruct (Qlt_bool b x); apply IH. Qed.
  Lemma argmin_l_map b bi i v : argmin_l (f b) bi i (map f v) = argmin_l b bi i v.
  Proof. revert b bi i; induction v as [|x t IH]; intros b bi i; cbn; [reflexivity|]. rewrite f_lt. destruct (Qlt_bool x b); apply IH. Qed.
End Monotone.

Definition omapf (f : Q -> Q) (x : oq) : oq := match x with Some v => Some (f v) | None => None end.
Lemma allsome_map f c : allsome (map (omapf f) c) = omap (map f) (allsome c).
Proof. induction c as [|[v|] t IH]; cbn; [reflexivity| |reflexivity]. rewrite IH. destruct (allsome t); reflexivity. Qed.
Lemma first_none_map f i c : first_none i (map (omapf f) c) = first_none i c.
Proof. revert i; induction c as [|[v|] t IH]; intros i; cbn; auto. Qed.
Lemma somes_map f c : somes (map (omapf f) c) = map f (somes c).
Proof. induction c as [|[v|] t IH]; cbn; [reflexivity| |exact IH]. now rewrite IH. Qed.

Section MonotoneCol.
  Variable f : Q -> Q.
  Hypothesis f_lt : forall x y, Qlt_bool (f x) (f y) = Qlt_bool x y.
  Lemma st_max_map c : st_max (map (omapf f) c) = omap (omapf f) (st_max c).
  Proof.
    destruct c as [|r0 rt]; [reflexivity|]. unfold st_max.
    change (map (omapf f) (r0 :: rt)) with (omapf f r0 :: map (omapf f) rt) at 1. cbv iota.
    rewrite allsome_map. destruct (allsome (r0 :: rt)) as [[|x t]|]; cbn; try reflexivity.
    now rewrite (qmax_l_map f f_lt).
  Qed.
  Lemma st_min_map c : st_min (map (omapf f) c) = omap (omapf f) (st_min c).
  Proof.
    destruct c as [|r0 rt]; [reflexivity|]. unfold st_min.
    change (map (omapf f) (r0 :: rt)) with (omapf f r0 :: map (omapf f) rt) at 1. cbv iota.
    rewrite allsome_map. destruct (allsome (r0 :: rt)) as [[|x t]|]; cbn; try reflexivity.
    now rewrite (qmin_l_map f f_lt).
  Qed.
  Lemma st_argmax_map c : st_argmax (map (omapf f) c) = st_argmax c.
  Proof.
    destruct c as [|r0 rt]; [reflexivity|]. unfold st_argmax.
    change (map (omapf f) (r0 :: rt)) with (omapf f r0 :: map (omapf f) rt) at 1. cbv iota.
    rewrite first_none_map, allsome_map. destruct (first_none 0 (r0 :: rt)); [reflexivity|].
    destruct (allsome (r0 :: rt)) as [[|x t]|]; cbn; try reflexivity.
    now rewrite (argmax_l_map f f_lt).
  Qed.
  Lemma st_argmin_map c : st_argmin (map (omapf f) c) = st_argmin c.
  Proof.
    destruct c as [|r0 rt]; [reflexivity|]. unfold st_argmin.
    change (map (omapf f) (r0 :: rt)) with (omapf f r0 :: map (omapf f) rt) at 1. cbv iota.
    rewrite first_none_map, allsome_map. destruct (first_none 0 (r0 :: rt)); [reflexivity|].
    destruct (allsome (r0 :: rt)) as [[|x t]|]; cbn; try reflexivity.
    now rewrite (argmin_l_map f f_lt).
  Qed.
End MonotoneCol.

Lemma stored_omapf (raw : list oq) (l s : Q) : cdat (col_from_numpy raw (Some l) (Some s)) = map (omapf (stf l s)) raw.
Proof. apply stored_some. Qed.
Lemma pos_nz (s : Q) : 0 < s -> ~ s == 0.
Proof. intros Hs E. rewrite E in Hs. exact (Qlt_irrefl _ Hs). Qed.

(** maximum / minimum / range / arg-extrema on the original scale are those of the raw column
    (numpy semantics: raise on an empty column, NaN as soon as a value is missing, first NaN wins the arg-extrema) *)
Definition st_range (c : list oq) : option oq :=
  match st_max c, st_min c with Some mx, Some mn => Some (osub mx mn) | _, _ => None end.

Lemma tmax_commutes (raw : list oq) (l s : Q) : 0 < s -> ooeq (c_max true (col_from_numpy raw (Some l) (Some s))) (st_max raw).
Proof.
  intros Hs. unfold c_max. rewrite stored_omapf, (st_max_map _ (fun a b => stf_lt_bool l s a b Hs)).
  destruct (st_max raw) as [[m|]|]; try exact I.
  unfold omap, omapf, csc, cloc, col_from_numpy, oadd, omul, olift2, ooeq, oeq.
  rewrite !Qred_correct, stf_eq. field. now apply pos_nz.
Qed.
Lemma tmin_commutes (raw : list oq) (l s : Q) : 0 < s -> ooeq (c_min true (col_from_numpy raw (Some l) (Some s))) (st_min raw).
Proof.
  intros Hs. unfold c_min. rewrite stored_omapf, (st_min_map _ (fun a b => stf_lt_bool l s a b Hs)).
  destruct (st_min raw) as [[m|]|]; try exact I.
  unfold omap, omapf, csc, cloc, col_from_numpy, oadd, omul, olift2, ooeq, oeq.
  rewrite !Qred_correct, stf_eq. field. now apply pos_nz.
Qed.
Lemma trange_commutes (raw : list oq) (l s : Q) : 0 < s -> ooeq (c_range true (col_from_numpy raw (Some l) (Some s))) (st_range raw).
Proof.
  intros Hs. unfold c_range, st_range.
  rewrite stored_omapf, (st_max_map _ (fun a b => stf_lt_bool l s a b Hs)), (st_min_map _ (fun a b => stf_lt_bool l s a b Hs)).
  destruct (st_max raw) as [[mx|]|], (st_min raw) as [[mn|]|]; try exact I.
  unfold omap, omapf, csc, cloc, col_from_numpy, osub, omul, olift2, ooeq, oeq.
  rewrite !Qred_correct, !stf_eq. field. now apply pos_nz.
Qed.
Lemma targmax_commutes (raw : list oq) (l s : Q) : 0 < s -> c_argmax (col_from_numpy raw (Some l) (Some s)) = st_argmax raw.
Proof. intros Hs. unfold c_argmax. now rewrite stored_omapf, (st_argmax_map _ (fun a b => stf_lt_bool l s a b Hs)). Qed.
Lemma targmin_commutes (raw : list oq) (l s : Q) : 0 < s -> c_argmin (col_from_numpy raw (Some l) (Some s)) = st_argmin raw.
Proof. intros Hs. unfold c_argmin. now rewrite stored_omapf, (st_argmin_map _ (fun a b => stf_lt_bool l s a b Hs)). Qed.

(** * mean and variance under the standardising map *)
Lemma sumQr_eq v : sumQr v == sumQ v.
Proof. induction v as [|x t IH]; [reflexivity|]. unfold sumQr, sumQ in *. cbn [fold_right]. now rewrite Qred_correct, IH. Qed.
Lemma sumQ_cons x v : sumQ (x :: v) = x + sumQ v.
Proof. reflexivity. Qed.
Lemma sumQ_map_ext (g h : Q -> Q) v : (forall x, g x == h x) -> sumQ (map g v) == sumQ (map h v).
Proof. intros E. induction v as [|x t IH]; [reflexivity|]. cbn [map]. now rewrite !sumQ_cons, E, IH. Qed.
Lemma qlen_cons x v : qlen (x :: v) == 1 + qlen v.
Proof.
  unfold qlen. cbn [length]. rewrite Nat2Z.inj_succ. unfold Z.succ. rewrite inject_Z_plus. ring.
Qed.
Lemma qlen_nonneg v : 0 <= qlen v.
Proof. unfold qlen. change 0 with (inject_Z 0). rewrite <- Zle_Qle. apply Nat2Z.is_nonneg. Qed.
Lemma qlen_pos x v : 0 < qlen (x :: v).
Proof. rewrite qlen_cons. pose proof (qlen_nonneg v) as H. apply Qlt_le_trans with (1 + 0); [reflexivity|]. apply Qplus_le_r. exact H. Qed.
Lemma qlen_map (f : Q -> Q) v : qlen (map f v) = qlen v.
Proof. unfold qlen. now rewrite map_length. Qed.
Lemma sumQ_affine a b v : sumQ (map (fun x => a * x + b) v) == a * sumQ v + qlen v * b.
Proof.
  induction v as [|x t IH].
  - unfold qlen; cbn. ring.
  - cbn [map]. rewrite !sumQ_cons, IH, qlen_cons. ring.
Qed.
Lemma sumQ_scale c (g : Q -> Q) v : sumQ (map (fun x => c * g x) v) == c * sumQ (map g v).
Proof. induction v as [|x t IH]; [cbn; ring|]. cbn [map]. rewrite !sumQ_cons, IH. ring. Qed.

Lemma mean_q_eq v : mean_q v == sumQ v / qlen v.
Proof. unfold mean_q. now rewrite Qred_correct, sumQr_eq. Qed.
Lemma var_q_eq v : var_q v == sumQ (map (fun x => (x - mean_q v) * (x - mean_q v)) v) / qlen v.
Proof.
  unfold var_q. cbv zeta. rewrite Qred_correct, sumQr_eq.
  rewrite (sumQ_map_ext (fun x => Qred ((x - mean_q v) * (x - mean_q v))) (fun x => (x - mean_q v) * (x - mean_q v))); [reflexivity|].
  intros x. apply Qred_correct.
Qed.

Lemma mean_stf l s x v : ~ s == 0 -> mean_q (map (stf l s) (x :: v)) == (mean_q (x :: v) - l) / s.
Proof.
  intros Hs. rewrite !mean_q_eq, qlen_map.
  rewrite (sumQ_map_ext (stf l s) (fun y => (/ s) * y + (- (l / s)))).
  2:{ intros y. rewrite stf_eq. field. exact Hs. }
  rewrite sumQ_affine. pose proof (qlen_pos x v) as Hp. field. split; [now apply pos_nz|exact Hs].
Qed.
Lemma var_stf l s x v : ~ s == 0 -> var_q (map (stf l s) (x :: v)) == var_q (x :: v) / (s * s).
Proof.
  intros Hs. rewrite !var_q_eq, qlen_map, map_map.
  rewrite (sumQ_map_ext (fun y => (stf l s y - mean_q (map (stf l s) (x :: v))) * (stf l s y - mean_q (map (stf l s) (x :: v))))
                        (fun y => (/ (s * s)) * ((y - mean_q (x :: v)) * (y - mean_q (x :: v))))).
  2:{ intros y. rewrite stf_eq, mean_stf by exact Hs. field. exact Hs. }
  rewrite sumQ_scale. pose proof (qlen_pos x v) as Hp. field. split; [now apply pos_nz|exact Hs].
Qed.

Lemma allsome_somes c v : allsome c = Some v -> somes c = v.
Proof.
  revert v; induction c as [|[a|] t IH]; intros v; cbn.
  - now intros [= <-].
  - destruct (allsome t) as [w|]; [|discriminate]. intros [= <-]. now rewrite (IH w).
  - discriminate.
Qed.

(** variance (and the square of the standard deviation) on the original scale = variance of the raw column, for every
    non-zero scale and every location; in particular 0 for a constant trait, whatever scale it was given *)
Lemma tvar_commutes (raw : list oq) (l s : Q) : ~ s == 0 ->
  ooeq (c_var true (col_from_numpy raw (Some l) (Some s))) (Some (np_var raw)).
Proof.
  intros Hs. unfold c_var, np_var. rewrite stored_omapf, allsome_map.
  destruct (allsome raw) as [[|x t]|]; try exact I.
  unfold omap, csc, col_from_numpy, omul, olift2, ooeq, oeq. cbn [map].
  change (var_q (stf l s x :: map (stf l s) t)) with (var_q (map (stf l s) (x :: t))).
  rewrite !Qred_correct, var_stf by exact Hs. field. exact Hs.
Qed.
(** mean on the original scale = (numpy) mean of the raw column, for every location and every non-zero scale:
    NaN as soon as a value is missing or the column is empty, like every other summary *)
Lemma tmean_commutes (raw : list oq) (l s : Q) : ~ s == 0 ->
  ooeq (c_mean true (col_from_numpy raw (Some l) (Some s))) (Some (np_mean raw)).
Proof.
  intros Hs. unfold c_mean, np_mean. cbv zeta. rewrite stored_omapf, allsome_map.
  destruct (allsome raw) as [[|x t]|]; try exact I.
  unfold omap, csc, cloc, col_from_numpy, oadd, omul, olift2, ooeq, oeq. cbn [map].
  change (mean_q (stf l s x :: map (stf l s) t)) with (mean_q (map (stf l s) (x :: t))).
  rewrite !Qred_correct, mean_stf by exact Hs. field. exact Hs.
Qed.
(** in particular with a missing value: NaN, whatever location and scale *)
Lemma allsome_map_none (f : oq -> oq) c : f None = None -> allsome c = None -> allsome (map f c) = None.
Proof.
  intros Hf. induction c as [|[v|] t IH]; cbn [map allsome]; intros Ha.
  - discriminate.
  - destruct (allsome t); [discriminate|]. rewrite IH by reflexivity. destruct (f (Some v)); reflexivity.
  - now rewrite Hf.
Qed.
Lemma tmean_missing_nan (raw : list oq) (l s : oq) : allsome raw = None -> c_mean true (col_from_numpy raw l s) = Some None.
Proof.
  intros Ha. unfold c_mean, np_mean. cbv zeta. cbn [cdat col_from_numpy].
  rewrite (allsome_map_none (fun x => omul (oinv s) (osub x l)) raw); [reflexivity| |exact Ha].
  destruct (oinv s); reflexivity.
Qed.

(** the stored column is centred and has unit variance when location / scale are the exact mean / a square root of the variance *)
Lemma stored_centred (raw : list oq) (l s : Q) x t : somes raw = x :: t -> ~ s == 0 -> l == mean_q (x :: t) ->
  oeq (nanmean (cdat (col_from_numpy raw (Some l) (Some s)))) (Some 0).
Proof.
  intros Hv Hs Hl. rewrite stored_omapf. unfold nanmean. rewrite somes_map, Hv.
  cbn [map]. change (mean_q (stf l s x :: map (stf l s) t)) with (mean_q (map (stf l s) (x :: t))).
  unfold oeq. rewrite mean_stf by exact Hs. rewrite Hl. field. exact Hs.
Qed.
Lemma stored_unit_variance (raw : list oq) (l s : Q) x t : somes raw = x :: t -> ~ s == 0 -> s * s == var_q (x :: t) ->
  oeq (nanvar (cdat (col_from_numpy raw (Some l) (Some s)))) (Some 1).
Proof.
  intros Hv Hs Hl. rewrite stored_omapf. unfold nanvar. rewrite somes_map, Hv.
  cbn [map]. change (var_q (stf l s x :: map (stf l s) t)) with (var_q (map (stf l s) (x :: t))).
  unfold oeq. rewrite var_stf by exact Hs. rewrite <- Hl. field. exact Hs.
Qed.

(** * taxa-axis operations: the numpy list functions are natural in the element relation *)
Definition orel {A B} (R : A -> B -> Prop) (a : option A) (b : option B) : Prop :=
  match a, b with Some x, Some y => R x y | None, None => True | _, _ => False end.

Lemma F2_len {X Y} (P : X -> Y -> Prop) xs ys : Forall2 P xs ys -> length xs = length ys.
Proof. induction 1; cbn; congruence. Qed.

Section Natural.
  Context {A : Type} (R : A -> A -> Prop).
  Lemma F2_length xs ys : Forall2 R xs ys -> length xs = length ys.
  Proof. induction 1; cbn; congruence. Qed.
  Lemma F2_nth_error xs ys k : Forall2 R xs ys -> orel R (nth_error xs k) (nth_error ys k).
  Proof. intros H; revert k; induction H as [|x y tx ty Hxy _ IH]; intros [|k]; cbn; auto. Qed.
  Lemma take_nat_rel xs ys ks : Forall2 R xs ys -> orel (Forall2 R) (take_nat xs ks) (take_nat ys ks).
  Proof.
    intros H. induction ks as [|k t IH]; cbn; [constructor|].
    pose proof (F2_nth_error xs ys k H) as Hk.
    destruct (nth_error xs k), (nth_error ys k); cbn in Hk; try contradiction; [|exact I].
    destruct (take_nat xs t), (take_nat ys t); cbn in IH |- *; try contradiction; [|exact I]. now constructor.
  Qed.
  Lemma take_l_rel xs ys ix : Forall2 R xs ys -> orel (Forall2 R) (take_l xs ix) (take_l ys ix).
  Proof.
    intros H. unfold take_l. rewrite (F2_length _ _ H). destruct (norm_all (length ys) ix); [|exact I]. now apply take_nat_rel.
  Qed.
  Lemma drop_ix_rel i ks xs ys : Forall2 R xs ys -> Forall2 R (drop_ix i ks xs) (drop_ix i ks ys).
  Proof. intros H; revert i; induction H as [|x y tx ty Hxy _ IH]; intros i; cbn; [constructor|]. destruct (existsb (Nat.eqb i) ks); [apply IH|constructor; auto]. Qed.
  Lemma delete_l_rel xs ys ix : Forall2 R xs ys -> orel (Forall2 R) (delete_l xs ix) (delete_l ys ix).
  Proof.
    intros H. unfold delete_l. rewrite (F2_length _ _ H). destruct (norm_all (length ys) ix); [|exact I]. cbn. now apply drop_ix_rel.
  Qed.
  Lemma delete_any_rel xs ys o : Forall2 R xs ys -> orel (Forall2 R) (delete_any xs o) (delete_any ys o).
  Proof. intros H. destruct o; cbn; now apply delete_l_rel. Qed.
  Lemma F2_firstn k xs ys : Forall2 R xs ys -> Forall2 R (firstn k xs) (firstn k ys).
  Proof. intros H; revert k; induction H; intros [|k]; cbn; constructor; auto. Qed.
  Lemma F2_skipn k xs ys : Forall2 R xs ys -> Forall2 R (skipn k xs) (skipn k ys).
  Proof. intros H; revert k; induction H; intros [|k]; cbn; try constructor; auto. Qed.
  Lemma insert_at_rel xs ys i vs ws : Forall2 R xs ys -> Forall2 R vs ws -> orel (Forall2 R) (insert_at xs i vs) (insert_at ys i ws).
  Proof.
    intros H Hv. unfold insert_at. rewrite (F2_length _ _ H). destruct (norm_pos (length ys) i); [|exact I]. cbn.
    apply Forall2_app; [now apply F2_firstn|]. apply Forall2_app; [exact Hv | now apply F2_skipn].
  Qed.
  Lemma pick_at_rel p ks vs ws : Forall2 R vs ws -> Forall2 R (pick_at p ks vs) (pick_at p ks ws).
  Proof.
    intros H; revert ks; induction H as [|v w tv tw Hvw _ IH]; intros [|k kt]; cbn; try constructor.
    destruct (Nat.eqb k p); [constructor; auto|apply IH].
  Qed.
  Lemma merge_ins_rel p ks vs ws xs ys : Forall2 R vs ws -> Forall2 R xs ys -> Forall2 R (merge_ins p ks vs xs) (merge_ins p ks ws ys).
  Proof.
    intros Hv H; revert p; induction H as [|x y tx ty Hxy _ IH]; intros p; cbn; [now apply pick_at_rel|].
    apply Forall2_app; [now apply pick_at_rel|]. constructor; auto.
  Qed.
  Lemma insert_l_rel xs ys ix vs ws : Forall2 R xs ys -> Forall2 R vs ws -> orel (Forall2 R) (insert_l xs ix vs) (insert_l ys ix ws).
  Proof.
    intros H Hv. unfold insert_l. rewrite (F2_length _ _ H), (F2_length _ _ Hv).
    destruct (Nat.eqb (length ix) (length ws)); [|exact I].
    destruct (norm_pos_all (length ys) ix); [|exact I]. cbn. now apply merge_ins_rel.
  Qed.
  Lemma insert_any_rel xs ys o vs ws : Forall2 R xs ys -> Forall2 R vs ws -> orel (Forall2 R) (insert_any xs o vs) (insert_any ys o ws).
  Proof. intros H Hv. destruct o; cbn; [now apply insert_at_rel | now apply insert_l_rel]. Qed.
  Lemma app_opt_rel xs ys vs ws : Forall2 R xs ys -> Forall2 R vs ws -> orel (Forall2 R) (app_opt xs vs) (app_opt ys ws).
  Proof. intros H Hv. cbn. now apply Forall2_app. Qed.

  Lemma all_some_rel (l1 l2 : list (option (list A))) : Forall2 (orel (Forall2 R)) l1 l2 -> orel (Forall2 (Forall2 R)) (all_some l1) (all_some l2).
  Proof.
    induction 1 as [|a b ta tb Hab _ IH]; cbn; [constructor|].
    destruct a, b; cbn in Hab; try contradiction; [|exact I].
    destruct (all_some ta), (all_some tb); cbn in IH |- *; try contradiction; [|exact I]. now constructor.
  Qed.
  Lemma map_cols_rel (g : list A -> option (list A)) cs ds :
    (forall c d, Forall2 R c d -> orel (Forall2 R) (g c) (g d)) ->
    Forall2 (Forall2 R) cs ds -> orel (Forall2 (Forall2 R)) (map_cols g cs) (map_cols g ds).
  Proof.
    intros Hg H. unfold map_cols. apply all_some_rel. induction H; cbn; constructor; auto.
  Qed.
  Lemma map2_cols_rel (g : list A -> list A -> option (list A)) cs ds vs ws :
    (forall c d v w, Forall2 R c d -> Forall2 R v w -> orel (Forall2 R) (g c v) (g d w)) ->
    Forall2 (Forall2 R) cs ds -> Forall2 (Forall2 R) vs ws -> orel (Forall2 (Forall2 R)) (map2_cols g cs vs) (map2_cols g ds ws).
  Proof.
    intros Hg H Hv. unfold map2_cols.
    rewrite (F2_len _ _ _ H), (F2_len _ _ _ Hv). destruct (Nat.eqb (length ds) (length ws)); [|exact I].
    apply all_some_rel. revert vs ws Hv. induction H as [|c d tc td Hcd _ IH]; intros vs ws Hv; cbn; [constructor|].
    destruct Hv as [|v w tv tw Hvw Hv']; cbn; constructor; auto.
  Qed.
End Natural.

Definition cols_eq := Forall2 coleq.
Definition raw_equiv (a b : rawst) : Prop :=
  cols_eq (r_cols a) (r_cols b) /\ r_n a = r_n b /\ r_taxa a = r_taxa b /\ r_grp a = r_grp b.
Lemma cols_eq_refl c : cols_eq c c.
Proof. induction c; constructor; auto using coleq_refl. Qed.
Lemma cols_eq_sym a b : cols_eq a b -> cols_eq b a.
Proof. induction 1; constructor; auto using coleq_sym. Qed.
Lemma cols_eq_trans a b c : cols_eq a b -> cols_eq b c -> cols_eq a c.
Proof.
  intros H; revert c; induction H as [|x y tx ty Hxy _ IH]; intros c H2; inversion H2; subst; constructor.
  - eapply coleq_trans; eassumption.
  - now apply IH.
Qed.
Lemma raw_equiv_refl a : raw_equiv a a.
Proof. repeat split; apply cols_eq_refl. Qed.
Lemma raw_equiv_sym a b : raw_equiv a b -> raw_equiv b a.
Proof. intros (H1 & H2 & H3 & H4). repeat split; auto using cols_eq_sym. Qed.
Lemma raw_equiv_trans a b c : raw_equiv a b -> raw_equiv b c -> raw_equiv a c.
Proof. intros (H1 & H2 & H3 & H4) (G1 & G2 & G3 & G4). repeat split; try congruence. eapply cols_eq_trans; eassumption. Qed.

Lemma chk_rel a b : raw_equiv a b -> orel raw_equiv (chk a) (chk b).
Proof.
  intros (H1 & H2 & H3 & H4). unfold chk. rewrite H2, H3, H4.
  destruct (label_len_ok (r_n b) (r_taxa b) && label_len_ok (r_n b) (r_grp b)); [|exact I]. repeat split; assumption.
Qed.

(** concat_taxa is natural in the values of the matrices *)
Definition mrel (m1 m2 : cmat) : Prop :=
  cols_eq (fst (fst (fst m1))) (fst (fst (fst m2))) /\ snd (fst (fst m1)) = snd (fst (fst m2))
  /\ snd (fst m1) = snd (fst m2) /\ snd m1 = snd m2.
Lemma map2_app_rel (a1 a2 b1 b2 : list (list oq)) : cols_eq a1 a2 -> cols_eq b1 b2 -> cols_eq (map2 (@app oq) a1 b1) (map2 (@app oq) a2 b2).
Proof.
  intros Ha; revert b1 b2; induction Ha as [|x y tx ty Hxy _ IH]; intros b1 b2 Hb; cbn; [constructor|].
  destruct Hb as [|u v tu tv Huv Hb]; constructor; [now apply Forall2_app | now apply IH].
Qed.
Lemma concat_cols_rel t (ms1 ms2 : list cmat) : Forall2 mrel ms1 ms2 ->
  cols_eq (concat_cols t (map (fun m : cmat => fst (fst (fst m))) ms1)) (concat_cols t (map (fun m : cmat => fst (fst (fst m))) ms2)).
Proof.
  induction 1 as [|m1 m2 t1 t2 Hm _ IH]; cbn [map concat_cols]; [apply cols_eq_refl|].
  apply map2_app_rel; [exact (proj1 Hm) | exact IH].
Qed.
Lemma concat_raw_rel t (ms1 ms2 : list cmat) : Forall2 mrel ms1 ms2 -> orel raw_equiv (concat_raw t ms1) (concat_raw t ms2).
Proof.
  intros H. unfold concat_raw.
  assert (E1 : forallb (fun m : cmat => Nat.eqb (length (fst (fst (fst m)))) t) ms1 = forallb (fun m : cmat => Nat.eqb (length (fst (fst (fst m)))) t) ms2).
  { clear - H. induction H as [|m1 m2 t1 t2 Hm _ IH]; cbn; [reflexivity|]. rewrite IH, (F2_len _ _ _ (proj1 Hm)). reflexivity. }
  assert (E2 : map (fun m : cmat => (snd (fst (fst m)), snd (fst m))) ms1 = map (fun m : cmat => (snd (fst (fst m)), snd (fst m))) ms2).
  { clear - H. induction H as [|m1 m2 t1 t2 Hm _ IH]; cbn; [reflexivity|]. rewrite IH. destruct Hm as (_ & Hn & Ht & _). rewrite Hn, Ht. reflexivity. }
  assert (E3 : map (fun m : cmat => (snd (fst (fst m)), snd m)) ms1 = map (fun m : cmat => (snd (fst (fst m)), snd m)) ms2).
  { clear - H. induction H as [|m1 m2 t1 t2 Hm _ IH]; cbn; [reflexivity|]. rewrite IH. destruct Hm as (_ & Hn & _ & Hg). rewrite Hn, Hg. reflexivity. }
  assert (E4 : map (fun m : cmat => snd (fst (fst m))) ms1 = map (fun m : cmat => snd (fst (fst m))) ms2).
  { clear - H. induction H as [|m1 m2 t1 t2 Hm _ IH]; cbn; [reflexivity|]. rewrite IH. destruct Hm as (_ & Hn & _). rewrite Hn. reflexivity. }
  rewrite E1, E2, E3, E4. destruct (forallb _ ms2); [|exact I].
  destruct (concat_labels _ true) as [tx|]; [|exact I]. destruct (concat_labels _ false) as [gp|]; [|exact I].
  apply chk_rel. repeat split. cbn [r_cols]. now apply concat_cols_rel.
Qed.
Lemma F2_map_parts (pv1 pv2 : part -> list (list oq)) (l : list part) :
  (forall q, In q l -> cols_eq (pv1 q) (pv2 q)) ->
  Forall2 mrel (map (fun q => (pv1 q, p_n q, p_taxa q, p_grp q)) l) (map (fun q => (pv2 q, p_n q, p_taxa q, p_grp q)) l).
Proof.
  induction l as [|q t IH]; intros H; cbn; constructor.
  - repeat split. apply H. now left.
  - apply IH. intros q' Hq. apply H. now right.
Qed.

(** the raw-level step is natural in the raw values (of the state, of the operand, of the matrices given to concat_taxa) *)
Lemma raw_step_rel vals1 vals2 pv1 pv2 r1 r2 o : raw_equiv r1 r2 ->
  (forall v, op_operand o = Some v -> cols_eq (vals1 v) (vals2 v)) ->
  (forall q, In q (op_parts o) -> cols_eq (pv1 q) (pv2 q)) ->
  orel raw_equiv (raw_step vals1 pv1 r1 o) (raw_step vals2 pv2 r2 o).
Proof.
  intros (H1 & H2 & H3 & H4) Hv Hq. destruct o; cbn [raw_step]; rewrite ?H2, ?H3, ?H4.
  - (* select *)
    pose proof (map_cols_rel oeq (fun c => take_l c ix) _ _ (fun c d => take_l_rel oeq c d ix) H1) as Hm.
    destruct (map_cols (fun c => take_l c ix) (r_cols r1)), (map_cols (fun c => take_l c ix) (r_cols r2)); cbn in Hm; try contradiction; [|exact I].
    destruct (olabels _ (r_taxa r2)); [|exact I]. destruct (olabels _ (r_grp r2)); [|exact I].
    destruct (new_n _ (r_n r2)); [|exact I]. apply chk_rel. repeat split; assumption.
  - (* delete *)
    pose proof (map_cols_rel oeq (fun c => delete_any c o) _ _ (fun c d => delete_any_rel oeq c d o) H1) as Hm.
    destruct (map_cols (fun c => delete_any c o) (r_cols r1)), (map_cols (fun c => delete_any c o) (r_cols r2)); cbn in Hm; try contradiction; [|exact I].
    destruct (olabels _ (r_taxa r2)); [|exact I]. destruct (olabels _ (r_grp r2)); [|exact I].
    destruct (new_n _ (r_n r2)); [|exact I]. apply chk_rel. repeat split; assumption.
  - (* insert *)
    destruct (operand_usable v); [|exact I].
    pose proof (map2_cols_rel oeq (fun c x => insert_any c o x) _ _ _ _ (fun c d x y => insert_any_rel oeq c d o x y) H1 (Hv v eq_refl)) as Hm.
    destruct (map2_cols (fun c x => insert_any c o x) (r_cols r1) (vals1 v)), (map2_cols (fun c x => insert_any c o x) (r_cols r2) (vals2 v)); cbn in Hm; try contradiction; [|exact I].
    destruct (copy_labels (r_taxa r2) (r_grp r2) v _) as [[t g]|]; [|exact I].
    destruct (new_n _ (r_n r2)); [|exact I]. apply chk_rel. repeat split; assumption.
  - (* adjoin *)
    destruct (operand_usable v); [|exact I].
    pose proof (map2_cols_rel oeq app_opt _ _ _ _ (app_opt_rel oeq) H1 (Hv v eq_refl)) as Hm.
    destruct (map2_cols app_opt (r_cols r1) (vals1 v)), (map2_cols app_opt (r_cols r2) (vals2 v)); cbn in Hm; try contradiction; [|exact I].
    destruct (copy_labels (r_taxa r2) (r_grp r2) v app_opt) as [[t g]|]; [|exact I].
    apply chk_rel. repeat split; assumption.
  - (* remove (in place) *)
    pose proof (map_cols_rel oeq (fun c => delete_any c o) _ _ (fun c d => delete_any_rel oeq c d o) H1) as Hm.
    destruct (map_cols (fun c => delete_any c o) (r_cols r1)), (map_cols (fun c => delete_any c o) (r_cols r2)); cbn in Hm; try contradiction; [|exact I].
    destruct (olabels _ (r_taxa r2)); [|exact I]. destruct (olabels _ (r_grp r2)); [|exact I].
    destruct (new_n _ (r_n r2)); [|exact I]. apply chk_rel. repeat split; assumption.
  - (* append (in place) *)
    destruct (operand_usable v); [|exact I].
    pose proof (map2_cols_rel oeq app_opt _ _ _ _ (app_opt_rel oeq) H1 (Hv v eq_refl)) as Hm.
    destruct (map2_cols app_opt (r_cols r1) (vals1 v)), (map2_cols app_opt (r_cols r2) (vals2 v)); cbn in Hm; try contradiction; [|exact I].
    destruct (inplace_labels (r_taxa r2) (r_grp r2) v app_opt) as [[t g]|]; [|exact I].
    repeat split; assumption.
  - (* incorp (in place) *)
    destruct (operand_usable v); [|exact I].
    pose proof (map2_cols_rel oeq (fun c x => insert_any c o x) _ _ _ _ (fun c d x y => insert_any_rel oeq c d o x y) H1 (Hv v eq_refl)) as Hm.
    destruct (map2_cols (fun c x => insert_any c o x) (r_cols r1) (vals1 v)), (map2_cols (fun c x => insert_any c o x) (r_cols r2) (vals2 v)); cbn in Hm; try contradiction; [|exact I].
    destruct (inplace_labels (r_taxa r2) (r_grp r2) v _) as [[t g]|]; [|exact I].
    destruct (new_n _ (r_n r2)); [|exact I]. repeat split; assumption.
  - (* concat *)
    destruct all_inst; [|exact I]. rewrite (F2_len _ _ _ H1).
    apply concat_raw_rel. apply Forall2_app.
    + apply F2_map_parts. intros q Hin. apply Hq. cbn. apply in_or_app. now left.
    + constructor; [repeat split; assumption|].
      apply F2_map_parts. intros q Hin. apply Hq. cbn. apply in_or_app. now right.
Qed.

(** from_numpy followed by unscale gives back the raw columns when the parameters pass the run-time check *)
Lemma map2_from_numpy_unscale (cols : list (list oq)) (p : list prm) : params_ok cols p = true ->
  cols_eq (map col_unscale (map2 (fun c lp => col_from_numpy c (fst lp) (snd lp)) cols p)) cols.
Proof.
  unfold params_ok. intros H. apply andb_prop in H as [Hl H]. apply Nat.eqb_eq in Hl.
  revert p Hl H. induction cols as [|c tc IH]; intros [|lp tp] Hl H; cbn in *; try discriminate; [constructor|].
  apply andb_prop in H as [Hc H]. apply andb_prop in Hc as [Hc1 Hc2].
  constructor; [now apply unscale_from_numpy_col|]. apply IH; [congruence|exact H].
Qed.
Lemma from_numpy_unscale r p b : from_numpy r p = Some b -> params_ok (r_cols r) p = true -> raw_equiv (unscale b) r.
Proof.
  unfold from_numpy. destruct (_ && _); [|discriminate]. intros [= <-] Hp. unfold unscale; cbn.
  repeat split. now apply map2_from_numpy_unscale.
Qed.
Lemma restd_unscale r p b : restd r p = Some b -> params_ok (r_cols r) p = true -> raw_equiv (unscale b) r.
Proof.
  unfold restd. destruct (Nat.eqb _ _); [|discriminate]. intros [= <-] Hp. unfold unscale; cbn.
  repeat split. now apply map2_from_numpy_unscale.
Qed.
Lemma restd_some r p : params_ok (r_cols r) p = true -> exists b, restd r p = Some b.
Proof. intros Hp. unfold restd. unfold params_ok in Hp. apply andb_prop in Hp as [Hp _]. rewrite Hp. eauto. Qed.
Lemma opd_unscaled_raw v : opd_params_ok v = true -> cols_eq (opd_unscaled v) (opd_raw v).
Proof.
  unfold opd_params_ok, opd_unscaled, opd_raw, opd_cols. destruct (o_bv v) as [p|]; intros H; [|apply cols_eq_refl].
  now apply map2_from_numpy_unscale.
Qed.
Lemma part_unscaled_raw q : params_ok (p_cols q) (p_prm q) = true -> cols_eq (part_unscaled q) (p_cols q).
Proof. intros H. unfold part_unscaled, part_cols. now apply map2_from_numpy_unscale. Qed.

(** one step of ANY taxa-axis operation (copy-on-manipulation, in place, concat_taxa): the source (unscale, list operation,
    re-standardise) and the raw-level specification fail together or succeed together, and then the new matrix stands for
    the specified raw values and labels *)
Lemma step_sound b o p r : raw_equiv r (unscale b) -> step_ok b o p = true ->
  orel (fun r' b' => raw_equiv r' (unscale b')) (raw_step opd_raw p_cols r o) (step b o p).
Proof.
  intros He Hok. unfold step. unfold step_ok in Hok.
  apply andb_prop in Hok as [Hok Hp]. apply andb_prop in Hok as [Hov Hoq].
  assert (Hvals : forall v, op_operand o = Some v -> cols_eq (opd_raw v) (opd_unscaled v)).
  { intros v Hv. rewrite Hv in Hov. apply cols_eq_sym. now apply opd_unscaled_raw. }
  assert (Hparts : forall q, In q (op_parts o) -> cols_eq (p_cols q) (part_unscaled q)).
  { intros q Hq. apply cols_eq_sym. apply part_unscaled_raw. rewrite forallb_forall in Hoq. now apply Hoq. }
  pose proof (raw_step_rel opd_raw opd_unscaled p_cols part_unscaled r (unscale b) o He Hvals Hparts) as Hr.
  destruct (raw_step opd_raw p_cols r o) as [r1|] eqn:E1, (raw_step opd_unscaled part_unscaled (unscale b) o) as [r2|] eqn:E2; cbn in Hr; try contradiction; [|exact I].
  destruct (restd_some r2 p Hp) as [b' Hb']. rewrite Hb'. cbn.
  eapply raw_equiv_trans; [exact Hr|]. apply raw_equiv_sym. eapply restd_unscale; eassumption.
Qed.

(** every history of taxa-axis operations *)
Lemma ops_preserve_raw (ops : list (op * list prm)) : forall (b : bv) (r : rawst),
  raw_equiv r (unscale b) -> run_ok b ops = true ->
  raw_equiv (run_spec r (map fst ops)) (unscale (run b ops)).
Proof.
  induction ops as [|[o p] t IH]; intros b r He Hok; cbn in *; [exact He|].
  apply andb_prop in Hok as [Hok Hokt].
  pose proof (step_sound b o p r He Hok) as Hs. unfold run_spec in *. cbn [fold_left]. unfold spec_step at 2.
  destruct (raw_step opd_raw p_cols r o) as [r'|], (step b o p) as [b'|]; cbn in Hs; try contradiction; now apply IH.
Qed.

(** starting point of a history: the matrix built by from_numpy stands for its raw input *)
Lemma history_preserves_raw (r0 : rawst) (p0 : list prm) (b0 : bv) (ops : list (op * list prm)) :
  from_numpy r0 p0 = Some b0 -> params_ok (r_cols r0) p0 = true -> run_ok b0 ops = true ->
  raw_equiv (run_spec r0 (map fst ops)) (unscale (run b0 ops)).
Proof.
  intros Hb Hp Hok. apply ops_preserve_raw; auto. apply raw_equiv_sym. eapply from_numpy_unscale; eassumption.
Qed.

(** after every successful step the location / scale of the matrix are the ones accepted for the raw values it stands for
    (nothing is stale: the in-place operations and concat_taxa re-standardise like the copy-on-manipulation ones) *)
Lemma step_params_fresh b o p b' r : step b o p = Some b' -> raw_step opd_unscaled part_unscaled (unscale b) o = Some r ->
  map (fun c => (cloc c, csc c)) (bcols b') = firstn (length (r_cols r)) p /\ length (r_cols r) = length p.
Proof.
  unfold step. intros Hs Hr. rewrite Hr in Hs. unfold restd in Hs.
  destruct (Nat.eqb (length (r_cols r)) (length p)) eqn:El; [|discriminate]. apply Nat.eqb_eq in El.
  injection Hs as <-. cbn [bcols]. split; [|exact El].
  rewrite El, firstn_all. revert p El. generalize (r_cols r). intros cs.
  induction cs as [|c tc IH]; intros [|[l s] tp] El; cbn in *; try discriminate; [reflexivity|].
  f_equal. apply IH. congruence.
Qed.

(** * FORMER code ([old_step], [old_c_mean]): what was wrong before the repairs — regression witnesses *)
(** the former in-place remove_taxa kept the raw values of the retained taxa (but not the location: see below) *)
Lemma drop_ix_map {A B} (g : A -> B) i ks xs : drop_ix i ks (map g xs) = map g (drop_ix i ks xs).
Proof. revert i; induction xs as [|x t IH]; intros i; cbn; [reflexivity|]. destruct (existsb (Nat.eqb i) ks); cbn; now rewrite IH. Qed.
Lemma delete_any_map {A B} (g : A -> B) xs o : delete_any (map g xs) o = omap (map g) (delete_any xs o).
Proof.
  destruct o; cbn; unfold delete_l; rewrite map_length.
  - destruct (norm_all (length xs) [i]); cbn; [now rewrite drop_ix_map|reflexivity].
  - destruct (norm_all (length xs) l); cbn; [now rewrite drop_ix_map|reflexivity].
Qed.
Lemma remove_col (c : tcol) (ob : idx) (d' : list oq) : delete_any (cdat c) ob = Some d' ->
  delete_any (col_unscale c) ob = Some (col_unscale (mkcol d' (cloc c) (csc c))).
Proof. intros H. unfold col_unscale. rewrite delete_any_map, H. reflexivity. Qed.

Lemma all_some_F2 {A B} (f : A -> option B) (l : list A) (r : list B) : all_some (map f l) = Some r -> Forall2 (fun a b => f a = Some b) l r.
Proof.
  revert r; induction l as [|a t IH]; intros r; cbn; [intros [= <-]; constructor|].
  destruct (f a) eqn:E; [|discriminate]. destruct (all_some (map f t)) eqn:E2; cbn; [|discriminate]. intros [= <-]. constructor; auto.
Qed.
Lemma old_remove_preserves_raw (b b' : bv) (ob : idx) (p : list prm) : old_step b (ORemove ob) p = Some b' ->
  Forall2 (fun c c' => delete_any (col_unscale c) ob = Some (col_unscale c') /\ cloc c' = cloc c /\ csc c' = csc c) (bcols b) (bcols b')
  /\ olabels (fun l => delete_any l ob) (btaxa b) = Some (btaxa b') /\ olabels (fun l => delete_any l ob) (bgrp b) = Some (bgrp b').
Proof.
  cbn [old_step]. unfold map_cols. rewrite map_map.
  destruct (all_some (map (fun x => delete_any (cdat x) ob) (bcols b))) as [ds|] eqn:E; [|discriminate].
  destruct (olabels _ (btaxa b)) as [t|]; [|discriminate]. destruct (olabels _ (bgrp b)) as [g|]; [|discriminate].
  destruct (new_n _ (bn b)); [|discriminate]. intros [= <-]. cbn. split; [|split; reflexivity].
  apply all_some_F2 in E. induction E as [|c d tc td Hcd _ IH]; cbn; constructor; [|exact IH].
  split; [now apply remove_col|split; reflexivity].
Qed.

(** refutations by witness: the inherited in-place append_taxa / incorp_taxa and concat_taxa did not preserve raw values *)
Lemma coleq_eqb a b : coleq a b -> list_eqb oexact a b = true.
Proof.
  induction 1 as [|x y tx ty Hxy _ IH]; cbn; [reflexivity|]. rewrite IH, andb_true_r.
  destruct x, y; cbn in *; try contradiction; [now apply Qeq_bool_iff|reflexivity].
Qed.
Lemma cols_eq_eqb a b : cols_eq a b -> list_eqb (list_eqb oexact) a b = true.
Proof. induction 1 as [|x y tx ty Hxy _ IH]; cbn; [reflexivity|]. now rewrite IH, andb_true_r, (coleq_eqb _ _ Hxy). Qed.

Definition wit_raw : rawst := mkraw [[Some 0; Some 2; Some 2; Some 0]] 4 None None.
Definition wit_prm : list prm := [(Some 1, Some 1)].
Definition wit_nd : operand := mkopd [[Some 10]] 1 None true None None None None.

Lemma old_append_refuted : exists r p b v b' r',
  from_numpy r p = Some b /\ params_ok (r_cols r) p = true /\ old_step b (OAppend v) [] = Some b' /\
  raw_step opd_raw p_cols (unscale b) (OAppend v) = Some r' /\ ~ raw_equiv r' (unscale b').
Proof.
  exists wit_raw, wit_prm. eexists. exists wit_nd. eexists. eexists.
  split; [reflexivity|]. split; [vm_compute; reflexivity|]. split; [reflexivity|]. split; [reflexivity|].
  intros (H & _). apply cols_eq_eqb in H. vm_compute in H. discriminate H.
Qed.
Lemma old_incorp_refuted : exists r p b v b' r',
  from_numpy r p = Some b /\ params_ok (r_cols r) p = true /\ old_step b (OIncorp (IInt 0) v) [] = Some b' /\
  raw_step opd_raw p_cols (unscale b) (OIncorp (IInt 0) v) = Some r' /\ ~ raw_equiv r' (unscale b').
Proof.
  exists wit_raw, wit_prm. eexists. exists wit_nd. eexists. eexists.
  split; [reflexivity|]. split; [vm_compute; reflexivity|]. split; [reflexivity|]. split; [reflexivity|].
  intros (H & _). apply cols_eq_eqb in H. vm_compute in H. discriminate H.
Qed.
Definition wit_part : part := mkpart [[Some 10; Some 30]] 2 [(Some 20, Some 10)] None None.
Lemma old_concat_refuted : exists r p b q b' r',
  from_numpy r p = Some b /\ params_ok (r_cols r) p = true /\ params_ok (p_cols q) (p_prm q) = true /\
  old_step b (OConcat true [] [q]) [] = Some b' /\
  raw_step opd_raw p_cols (unscale b) (OConcat true [] [q]) = Some r' /\ ~ raw_equiv r' (unscale b').
Proof.
  exists wit_raw, wit_prm. eexists. exists wit_part. eexists. eexists.
  split; [reflexivity|]. split; [vm_compute; reflexivity|]. split; [vm_compute; reflexivity|]. split; [reflexivity|]. split; [reflexivity|].
  intros (H & _). apply cols_eq_eqb in H. vm_compute in H. discriminate H.
Qed.
(** the subclasses cannot concatenate at all *)
Lemma old_concat_subclass_fails b before after p : old_step b (OConcat false before after) p = None.
Proof. reflexivity. Qed.
(** after remove_taxa the location is no longer the mean of the raw values the matrix stands for *)
Lemma old_remove_stale_refuted : exists r p b b',
  from_numpy r p = Some b /\ params_ok (r_cols r) p = true /\ old_step b (ORemove (IInt 0)) [] = Some b' /\
  params_ok (r_cols (unscale b')) (map (fun c => (cloc c, csc c)) (bcols b')) = false.
Proof.
  exists wit_raw, wit_prm. eexists. eexists.
  split; [reflexivity|]. split; [vm_compute; reflexivity|]. split; [reflexivity|]. vm_compute. reflexivity.
Qed.
(** the former tmean(unscale=True) was the only NaN-aware summary: finite while maximum (and all others) of the same trait are NaN *)
Lemma old_tmean_nan_refuted : exists raw l s, loc_ok raw l = true /\ sc_ok raw s = true /\
  c_max true (col_from_numpy raw l s) = Some None /\ np_mean raw = None /\ old_c_mean true (col_from_numpy raw l s) = Some (Some 2).
Proof.
  exists [Some 1; None; Some 3], (Some 2), (Some 1). repeat split; vm_compute; reflexivity.
Qed.

(** ... and the repaired code on the same witnesses: the raw values are preserved (instances of [step_sound]) *)
Lemma new_witnesses_preserved :
  (exists b b' r', from_numpy wit_raw wit_prm = Some b /\ step b (OAppend wit_nd) [(Some (14 # 5), Some 4)] = Some b' /\
     raw_step opd_raw p_cols (unscale b) (OAppend wit_nd) = Some r' /\ raw_equiv r' (unscale b'))
  /\ (exists b b' r', from_numpy wit_raw wit_prm = Some b /\ step b (OConcat true [] [wit_part]) [(Some (22 # 3), Some 11)] = Some b' /\
     raw_step opd_raw p_cols (unscale b) (OConcat true [] [wit_part]) = Some r' /\ raw_equiv r' (unscale b'))
  /\ c_mean true (col_from_numpy [Some 1; None; Some 3] (Some 2) (Some 1)) = Some None.
Proof.
  split; [|split].
  - eexists. eexists. eexists. split; [reflexivity|]. split; [vm_compute; reflexivity|]. split; [vm_compute; reflexivity|].
    repeat split. cbn. constructor; [|constructor]. repeat constructor; vm_compute; reflexivity.
  - eexists. eexists. eexists. split; [reflexivity|]. split; [vm_compute; reflexivity|]. split; [vm_compute; reflexivity|].
    repeat split. cbn. constructor; [|constructor]. repeat constructor; vm_compute; reflexivity.
  - vm_compute. reflexivity.
Qed.

(** * DenseScaledMatrix *)
Lemma untransform_transform (c : tcol) (m : list oq) l s : cloc c = Some l -> csc c = Some s -> ~ s == 0 ->
  coleq (col_untransform c (col_transform c m)) m.
Proof.
  intros Hl Hs Hnz. unfold col_untransform, col_transform. rewrite map_map, Hl, Hs.
  induction m as [|[v|] t IH]; cbn [map]; constructor; auto.
  unfold oadd, omul, osub, oinv, olift2, oeq. rewrite !Qred_correct. field. exact Hnz. exact I.
Qed.
Definition col_raw (c : tcol) : list oq := col_untransform c (cdat c).
Lemma unscale_inplace_raw (c : tcol) : coleq (col_raw (col_unscale_ip c)) (col_raw c)
  /\ cloc (col_unscale_ip c) = Some 0 /\ csc (col_unscale_ip c) = Some 1.
Proof.
  split; [|split; reflexivity]. unfold col_raw, col_unscale_ip. cbn [cdat cloc csc].
  generalize (col_untransform c (cdat c)). intros r. unfold col_untransform. cbn [cloc csc].
  induction r as [|[v|] t IH]; cbn [map]; constructor; auto.
  unfold oadd, omul, olift2, oeq. rewrite !Qred_correct. ring. exact I.
Qed.
Lemma rescale_raw (c : tcol) (l s : oq) : loc_ok (col_raw c) l = true -> sc_ok (col_raw c) s = true ->
  coleq (col_raw (col_rescale c l s)) (col_raw c).
Proof.
  intros H1 H2. unfold col_raw at 1. unfold col_rescale. cbn [cdat cloc csc]. fold (col_raw c).
  destruct (params_shape _ l s H1 H2) as [[Hn [-> ->]]|[l' [s' [-> [-> Hs]]]]].
  - unfold col_untransform. cbn [cloc csc]. rewrite map_map. clear H1 H2. revert Hn. generalize (col_raw c). intros r Hn. induction Hn as [|x t Hx _ IH]; cbn [map]; [constructor|]. constructor; [subst x; exact I|exact IH].
  - unfold col_untransform. cbn [cloc csc]. rewrite map_map. generalize (col_raw c). intros r.
    induction r as [|[v|] t IH]; cbn [map]; constructor; auto.
    unfold oadd, omul, osub, oinv, olift2, oeq. rewrite !Qred_correct. field. exact Hs. exact I.
Qed.

(** * constant traits: the run-time check only accepts scale 1, and then the stored column is all zeros *)
Lemma Qsqr_nonneg a : 0 <= a * a.
Proof. unfold Qle, Qmult. cbn. rewrite Z.mul_1_r. apply Z.square_nonneg. Qed.
Lemma sumQ_sq_nonneg (m : Q) v : 0 <= sumQ (map (fun x => (x - m) * (x - m)) v).
Proof.
  induction v as [|x t IH]; [apply Qle_refl|]. cbn [map]. rewrite sumQ_cons.
  apply Qle_trans with (0 + 0); [apply Qle_refl|]. apply Qplus_le_compat; [apply Qsqr_nonneg|exact IH].
Qed.
Lemma sumQ_sq_zero (m : Q) v : sumQ (map (fun x => (x - m) * (x - m)) v) == 0 -> Forall (fun x => x == m) v.
Proof.
  induction v as [|x t IH]; [constructor|]. cbn [map]. rewrite sumQ_cons. intros H.
  pose proof (Qsqr_nonneg (x - m)) as Ha. pose proof (sumQ_sq_nonneg m t) as Hb.
  assert (Hx : (x - m) * (x - m) == 0).
  { apply Qle_antisym; [|exact Ha]. rewrite <- H. rewrite <- (Qplus_0_r ((x - m) * (x - m))) at 1. apply Qplus_le_r. exact Hb. }
  constructor.
  - apply Qmult_integral in Hx. assert (x - m == 0) by tauto. rewrite <- (Qplus_0_r m), <- H0. ring.
  - apply IH. rewrite Hx in H. rewrite Qplus_0_l in H. exact H.
Qed.
Lemma constant_trait (raw : list oq) (l s : Q) x t : somes raw = x :: t -> var_q (x :: t) == 0 ->
  sc_ok raw (Some s) = true -> l == mean_q (x :: t) ->
  s == 1 /\ Forall (fun m => match m with Some v => v == 0 | None => True end) (cdat (col_from_numpy raw (Some l) (Some s))).
Proof.
  intros Hv Hvar Hs Hl. unfold sc_ok, nanvar in Hs. rewrite Hv in Hs.
  assert (E : Qeq_bool (var_q (x :: t)) 0 = true) by now apply Qeq_bool_iff. rewrite E in Hs. apply Qeq_bool_iff in Hs.
  split; [exact Hs|].
  rewrite var_q_eq in Hvar. pose proof (qlen_pos x t) as Hp.
  assert (Hsum : sumQ (map (fun y => (y - mean_q (x :: t)) * (y - mean_q (x :: t))) (x :: t)) == 0).
  { assert (HS : forall a d : Q, ~ d == 0 -> a / d == 0 -> a == 0).
    { intros a d Hn H0. assert (HS : a == (a / d) * d) by (field; exact Hn). rewrite HS, H0. ring. }
    apply (HS _ (qlen (x :: t))); [now apply pos_nz | exact Hvar]. }
  apply sumQ_sq_zero in Hsum. set (m := mean_q (x :: t)) in *. rewrite <- Hv in Hsum.
  rewrite stored_omapf. clear Hv Hvar Hp E. clearbody m. induction raw as [|[v|] r IH]; cbn [map somes] in *; constructor.
  - inversion Hsum; subst. cbn [omapf]. rewrite stf_eq, Hs, Hl, H1. field.
  - apply IH. now inversion Hsum.
  - exact I.
  - now apply IH.
Qed.
