(** C13 — min_inbreeding = 1 / (1' G^-1 1) is the minimum of x'Gx over all contribution vectors with sum 1
    (G symmetric positive semidefinite, H a right inverse of G).  Vectors are handled as index functions. *)
From PV Require Import Lib.Common Model.C13_Coanc Proofs.C13_Coanc.
Local Open Scope Q_scope.

(** * finite sums over index lists *)
Lemma sumQ_map_ext {A} (f g : A -> Q) l : (forall i, In i l -> f i == g i) -> sumQ (map f l) == sumQ (map g l).
Proof.
  induction l as [|a l IH]; intros H; [reflexivity|]. cbn [map]. rewrite !sumQ_cons.
  rewrite (H a) by (left; reflexivity). rewrite IH by (intros; apply H; right; assumption). reflexivity.
Qed.

Lemma sumQ_map_add {A} (f g : A -> Q) l : sumQ (map (fun i => f i + g i) l) == sumQ (map f l) + sumQ (map g l).
Proof. induction l as [|a l IH]; [reflexivity|]. cbn [map]. rewrite !sumQ_cons, IH. ring. Qed.

Lemma sumQ_map_scale {A} (t : Q) (f : A -> Q) l : sumQ (map (fun i => t * f i) l) == t * sumQ (map f l).
Proof. induction l as [|a l IH]; [cbn; ring|]. cbn [map]. rewrite !sumQ_cons, IH. ring. Qed.

Lemma sumQ_map_zero {A} (l : list A) : sumQ (map (fun _ => 0) l) == 0.
Proof. induction l as [|a l IH]; [reflexivity|]. cbn [map]. rewrite sumQ_cons, IH. ring. Qed.

Lemma sumQ_swap {A B} (f : A -> B -> Q) l1 l2 :
  sumQ (map (fun i => sumQ (map (f i) l2)) l1) == sumQ (map (fun k => sumQ (map (fun i => f i k) l1)) l2).
Proof.
  induction l1 as [|a l1 IH].
  - cbn [map]. rewrite sumQ_map_zero. reflexivity.
  - cbn [map]. rewrite sumQ_cons, IH.
    rewrite <- sumQ_map_add. apply sumQ_map_ext. intros k _. rewrite sumQ_cons. reflexivity.
Qed.

Lemma sumQ_seq_shift (f : nat -> Q) n : sumQ (map f (seq 1 n)) = sumQ (map (fun k => f (S k)) (seq 0 n)).
Proof. rewrite <- seq_shift, map_map. reflexivity. Qed.

Lemma dotQ_idx a b n : length a = n -> length b = n ->
  dotQ a b == sumQ (map (fun k => nth k a 0 * nth k b 0) (seq 0 n)).
Proof.
  revert b n; induction a as [|x a IH]; intros b n La Lb.
  - cbn in La. subst n. reflexivity.
  - destruct n as [|n]; [discriminate La|]. destruct b as [|y b]; [discriminate Lb|].
    rewrite dotQ_cons. cbn [seq map]. rewrite sumQ_cons, sumQ_seq_shift. cbn [nth].
    rewrite (IH b n) by (cbn in *; congruence). reflexivity.
Qed.

Lemma sumQ_idx a n : length a = n -> sumQ a == sumQ (map (fun k => nth k a 0) (seq 0 n)).
Proof.
  revert n; induction a as [|x a IH]; intros n La.
  - cbn in La. subst n. reflexivity.
  - destruct n as [|n]; [discriminate La|]. cbn [seq map]. rewrite !sumQ_cons, sumQ_seq_shift. cbn [nth].
    rewrite (IH n) by (cbn in *; congruence). reflexivity.
Qed.

Lemma sum_delta (i n : nat) : (i < n)%nat -> sumQ (map (fun j => if Nat.eqb i j then 1 else 0) (seq 0 n)) == 1.
Proof.
  intros Hi.
  assert (G : forall len s, sumQ (map (fun j => if Nat.eqb i j then 1 else 0) (seq s len))
                            == if ((s <=? i) && (i <? s + len))%nat then 1 else 0).
  { induction len as [|len IH]; intros s.
    - cbn [seq map]. destruct (s <=? i)%nat eqn:E1; destruct (i <? s + 0)%nat eqn:E2; cbn; try reflexivity.
      apply Nat.leb_le in E1. apply Nat.ltb_lt in E2. lia.
    - cbn [seq map]. rewrite sumQ_cons, IH.
      destruct (Nat.eqb_spec i s) as [->|NE].
      + replace (S s <=? s)%nat with false by (symmetry; apply Nat.leb_gt; lia). cbn [andb].
        replace (s <=? s)%nat with true by (symmetry; apply Nat.leb_le; lia).
        replace (s <? s + S len)%nat with true by (symmetry; apply Nat.ltb_lt; lia). cbn. ring.
      + destruct (s <=? i)%nat eqn:E1; destruct (S s <=? i)%nat eqn:E1'; destruct (i <? S s + len)%nat eqn:E2;
          destruct (i <? s + S len)%nat eqn:E2'; cbn [andb]; try ring;
          repeat match goal with
                 | H : (_ <=? _)%nat = true |- _ => apply Nat.leb_le in H
                 | H : (_ <=? _)%nat = false |- _ => apply Nat.leb_gt in H
                 | H : (_ <? _)%nat = true |- _ => apply Nat.ltb_lt in H
                 | H : (_ <? _)%nat = false |- _ => apply Nat.ltb_ge in H
                 end; lia. }
  rewrite G. replace (0 <=? i)%nat with true by reflexivity.
  replace (i <? 0 + n)%nat with true by (symmetry; apply Nat.ltb_lt; lia). reflexivity.
Qed.

(** * matrices through their entries *)
Lemma Forall2_nth_P {A} (P : A -> A -> Prop) l1 l2 d1 d2 i : Forall2 P l1 l2 -> (i < length l1)%nat -> P (nth i l1 d1) (nth i l2 d2).
Proof.
  intros H; revert i; induction H as [|x y l1 l2 Hxy H IH]; intros i Hi; [cbn in Hi; lia|].
  destruct i; [exact Hxy|]. cbn [nth]. apply IH. cbn in Hi. lia.
Qed.

Lemma Forall2_length_P {A} (P : A -> A -> Prop) l1 l2 : Forall2 P l1 l2 -> length l1 = length l2.
Proof. induction 1; cbn; congruence. Qed.

Lemma ident_entry n i j : (i < n)%nat -> (j < n)%nat -> entry (ident n) i j = if Nat.eqb i j then 1 else 0.
Proof.
  intros Hi Hj. unfold entry, ident.
  rewrite (nth_indep _ [] (map (fun j0 => if Nat.eqb 0 j0 then 1 else 0) (seq 0 n))) by (rewrite map_length, seq_length; exact Hi).
  rewrite (map_nth (fun i0 => map (fun j0 => if Nat.eqb i0 j0 then 1 else 0) (seq 0 n)) (seq 0 n) 0%nat i), seq_nth by exact Hi.
  cbn [plus]. rewrite (nth_indep _ 0 (if Nat.eqb i 0 then 1 else 0)) by (rewrite map_length, seq_length; exact Hj).
  rewrite (map_nth (fun j0 => if Nat.eqb i j0 then 1 else 0) (seq 0 n) 0%nat j), seq_nth by exact Hj. reflexivity.
Qed.

Lemma ident_length n : length (ident n) = n.
Proof. unfold ident. now rewrite map_length, seq_length. Qed.

Section Optimal.
  Variables (n : nat) (G H : list (list Q)).
  Hypothesis LG : length G = n.
  Hypothesis RG : rows_len n G.
  Hypothesis LH : length H = n.
  Hypothesis RH : rows_len n H.
  Hypothesis Gsym : forall i j, entry G i j == entry G j i.
  Hypothesis Gpsd : forall y, length y = n -> 0 <= qform y G.
  Hypothesis GH : mat_eq (mmul G H) (ident n).

  Let N := seq 0 n.
  (** x' G y with vectors as index functions *)
  Definition Bf (f g : nat -> Q) : Q := sumQ (map (fun i => sumQ (map (fun k => f i * entry G i k * g k) N)) N).
  (** u = H 1 (row sums of the inverse) *)
  Definition u (k : nat) : Q := sumQ (map (fun j => entry H k j) N).

  Lemma row_len (M : list (list Q)) i : rows_len n M -> (i < length M)%nat -> length (nth i M []) = n.
  Proof. intros R Hi. unfold rows_len in R. rewrite Forall_forall in R. apply R, nth_In, Hi. Qed.

  Lemma in_N i : In i N -> (i < n)%nat.
  Proof. unfold N. intros Hi. apply in_seq in Hi. lia. Qed.

  Lemma qform_idx y : length y = n -> qform y G == Bf (fun i => nth i y 0) (fun i => nth i y 0).
  Proof.
    intros Ly. rewrite qform_unfold.
    assert (LM : length (map (dotQ y) G) = n) by (rewrite map_length; exact LG).
    rewrite (dotQ_idx y (map (dotQ y) G) n Ly LM).
    unfold Bf. fold N. apply sumQ_map_ext. intros i Hi. apply in_N in Hi.
    rewrite (nth_indep (map (dotQ y) G) 0 (dotQ y [])) by (rewrite LM; exact Hi).
    rewrite (map_nth (dotQ y) G [] i).
    rewrite (dotQ_idx y (nth i G []) n Ly) by (apply row_len; [exact RG | rewrite LG; exact Hi]).
    fold N. rewrite <- sumQ_map_scale. apply sumQ_map_ext. intros k _. unfold entry. ring.
  Qed.

  Lemma Bf_sym f g : Bf f g == Bf g f.
  Proof.
    unfold Bf. rewrite sumQ_swap. apply sumQ_map_ext. intros k _. apply sumQ_map_ext. intros i _.
    rewrite (Gsym i k). ring.
  Qed.

  Lemma Bf_lin_l a b c g : Bf (fun i => a i + c * b i) g == Bf a g + c * Bf b g.
  Proof.
    unfold Bf. rewrite <- sumQ_map_scale, <- sumQ_map_add. apply sumQ_map_ext. intros i _.
    rewrite <- sumQ_map_scale, <- sumQ_map_add. apply sumQ_map_ext. intros k _. ring.
  Qed.

  Lemma Bf_lin_r f a b c : Bf f (fun i => a i + c * b i) == Bf f a + c * Bf f b.
  Proof. rewrite Bf_sym, Bf_lin_l, (Bf_sym a f), (Bf_sym b f). reflexivity. Qed.

  Lemma mmul_entry i j : (i < n)%nat -> (j < n)%nat ->
    entry (mmul G H) i j == sumQ (map (fun k => entry G i k * entry H k j) N).
  Proof.
    intros Hi Hj. unfold entry at 1, mmul.
    assert (NC : match H with [] => O | r :: _ => length r end = n).
    { destruct H as [|r H']; [cbn in LH; lia|]. inversion RH; assumption. }
    rewrite NC.
    rewrite (nth_indep _ [] (map (fun j0 => dotQr [] (col 0 j0 H)) (seq 0 n))) by (rewrite map_length, LG; exact Hi).
    rewrite (map_nth (fun a => map (fun j0 => dotQr a (col 0 j0 H)) (seq 0 n)) G [] i).
    rewrite (nth_indep (map (fun j0 => dotQr (nth i G []) (col 0 j0 H)) (seq 0 n)) 0 (dotQr (nth i G []) (col 0 0 H))) by (rewrite map_length, seq_length; exact Hj).
    rewrite (map_nth (fun j0 => dotQr (nth i G []) (col 0 j0 H)) (seq 0 n) 0%nat j), seq_nth by exact Hj. cbn [plus].
    rewrite dotQr_eq.
    rewrite (dotQ_idx (nth i G []) (col 0 j H) n) by (try (apply row_len; [exact RG | rewrite LG; exact Hi]); unfold col; rewrite map_length; exact LH).
    fold N. apply sumQ_map_ext. intros k Hk. apply in_N in Hk. unfold entry, col.
    rewrite (nth_indep (map (fun r => nth j r 0) H) 0 (nth j [] 0)) by (rewrite map_length, LH; exact Hk).
    rewrite (map_nth (fun r => nth j r 0) H [] k). reflexivity.
  Qed.

  (** G u = 1 *)
  Lemma Gu_one i : (i < n)%nat -> sumQ (map (fun k => entry G i k * u k) N) == 1.
  Proof.
    intros Hi. unfold u.
    rewrite (sumQ_map_ext _ (fun k => sumQ (map (fun j => entry G i k * entry H k j) N)))
      by (intros k _; rewrite sumQ_map_scale; reflexivity).
    rewrite sumQ_swap.
    rewrite (sumQ_map_ext _ (fun j => if Nat.eqb i j then 1 else 0)).
    - apply sum_delta, Hi.
    - intros j Hj. apply in_N in Hj. rewrite <- (mmul_entry i j Hi Hj). rewrite <- (ident_entry n i j Hi Hj).
      unfold entry. apply Forall2_nth_P.
      + apply Forall2_nth_P; [exact GH|]. rewrite (Forall2_length_P _ _ _ GH), ident_length. exact Hi.
      + assert (length (nth i (mmul G H) []) = length (nth i (ident n) [])) as EL.
        { apply (Forall2_length_P Qeq). apply Forall2_nth_P; [exact GH|]. rewrite (Forall2_length_P _ _ _ GH), ident_length. exact Hi. }
        rewrite EL. unfold ident.
        rewrite (nth_indep _ [] (map (fun j0 => if Nat.eqb 0 j0 then 1 else 0) (seq 0 n))) by (rewrite map_length, seq_length; exact Hi).
        rewrite (map_nth (fun i0 => map (fun j0 => if Nat.eqb i0 j0 then 1 else 0) (seq 0 n)) (seq 0 n) 0%nat i).
        rewrite map_length, seq_length. exact Hj.
  Qed.

  Lemma Bf_u_r f : Bf f u == sumQ (map f N).
  Proof.
    unfold Bf. apply sumQ_map_ext. intros i Hi. apply in_N in Hi.
    rewrite (sumQ_map_ext _ (fun k => f i * (entry G i k * u k))) by (intros; ring).
    rewrite sumQ_map_scale, (Gu_one i Hi). ring.
  Qed.

  Definition s : Q := sumQ (map u N).

  Lemma s_concat : s == sumQ (concat H).
  Proof.
    unfold s.
    assert (C : forall M : list (list Q), sumQ (concat M) == sumQ (map sumQ M)).
    { induction M as [|r M IH]; [reflexivity|]. cbn [concat map]. rewrite sumQ_cons, <- IH.
      clear. induction r as [|x r IHr]; [cbn [app]; change (sumQ []) with 0; ring|]. cbn [app]. rewrite !sumQ_cons, IHr. ring. }
    rewrite C. rewrite (sumQ_idx (map sumQ H) n) by (rewrite map_length; exact LH). fold N.
    apply sumQ_map_ext. intros k Hk. apply in_N in Hk. unfold u.
    rewrite (nth_indep (map sumQ H) 0 (sumQ [])) by (rewrite map_length, LH; exact Hk).
    rewrite (map_nth sumQ H [] k). rewrite (sumQ_idx (nth k H []) n) by (apply row_len; [exact RH | rewrite LH; exact Hk]).
    reflexivity.
  Qed.

  (** the lower bound *)
  Theorem min_inbreeding_lower x : 0 < s -> length x = n -> sumQ x == 1 -> 1 / s <= qform x G.
  Proof.
    intros Hs Lx Sx.
    set (f := fun i => nth i x 0). set (t := - (1 / s)).
    set (y := map (fun i => f i + t * u i) N).
    assert (Ly : length y = n) by (subst y; unfold N; now rewrite map_length, seq_length).
    pose proof (Gpsd y Ly) as P. rewrite (qform_idx y Ly) in P.
    assert (E : Bf (fun i => nth i y 0) (fun i => nth i y 0) == Bf (fun i => f i + t * u i) (fun i => f i + t * u i)).
    { unfold Bf. apply sumQ_map_ext. intros i Hi. apply sumQ_map_ext. intros k Hk.
      assert (V : forall j, In j N -> nth j y 0 = f j + t * u j).
      { intros j Hj. apply in_N in Hj. subst y.
        rewrite (nth_indep _ 0 (f 0%nat + t * u 0%nat)) by (unfold N; rewrite map_length, seq_length; exact Hj).
        rewrite (map_nth (fun i0 => f i0 + t * u i0) N 0%nat j). unfold N. rewrite seq_nth by exact Hj. reflexivity. }
      rewrite (V i Hi), (V k Hk). reflexivity. }
    rewrite E in P. rewrite Bf_lin_l, !Bf_lin_r, !Bf_u_r in P.
    rewrite (Bf_sym u f), Bf_u_r in P. fold s in P.
    assert (Sf : sumQ (map f N) == 1) by (rewrite <- Sx; symmetry; apply (sumQ_idx x n Lx)).
    rewrite Sf in P. rewrite (qform_idx x Lx). fold f.
    assert (NZ : ~ s == 0) by (intros Z0; rewrite Z0 in Hs; discriminate Hs).
    setoid_replace (Bf f f + t * 1 + t * (1 + t * s)) with (Bf f f - 1 / s) in P by (subst t; field; exact NZ).
    apply (Qplus_le_compat _ _ (1 / s) (1 / s)) in P; [|apply Qle_refl].
    setoid_replace (0 + 1 / s) with (1 / s) in P by ring.
    setoid_replace (Bf f f - 1 / s + 1 / s) with (Bf f f) in P by ring. exact P.
  Qed.

  (** ... and it is attained by x* = u / s *)
  Theorem min_inbreeding_attained : 0 < s ->
    exists x, length x = n /\ sumQ x == 1 /\ qform x G == 1 / s.
  Proof.
    intros Hs. assert (NZ : ~ s == 0) by (intros Z0; rewrite Z0 in Hs; discriminate Hs).
    set (g := fun i => 0 + (1 / s) * u i).
    exists (map g N).
    assert (L : length (map g N) = n) by (unfold N; now rewrite map_length, seq_length).
    assert (V : forall j, In j N -> nth j (map g N) 0 = g j).
    { intros j Hj. apply in_N in Hj.
      rewrite (nth_indep _ 0 (g 0%nat)) by (unfold N; rewrite map_length, seq_length; exact Hj).
      rewrite (map_nth g N 0%nat j). unfold N. rewrite seq_nth by exact Hj. reflexivity. }
    split; [exact L|]. split.
    - unfold g. rewrite sumQ_map_add, sumQ_map_zero, sumQ_map_scale. fold s. field. exact NZ.
    - rewrite (qform_idx _ L).
      assert (E : Bf (fun i => nth i (map g N) 0) (fun i => nth i (map g N) 0) == Bf g g).
      { unfold Bf. apply sumQ_map_ext. intros i Hi. apply sumQ_map_ext. intros k Hk. rewrite (V i Hi), (V k Hk). reflexivity. }
      rewrite E. unfold g. rewrite Bf_lin_l, !Bf_lin_r, !Bf_u_r. fold s.
      rewrite (Bf_sym u (fun _ => 0)), Bf_u_r, sumQ_map_zero.
      assert (Z0 : Bf (fun _ => 0) (fun _ => 0) == 0).
      { unfold Bf. rewrite (sumQ_map_ext _ (fun _ => 0)); [apply sumQ_map_zero|].
        intros i _. rewrite (sumQ_map_ext _ (fun _ => 0)); [apply sumQ_map_zero|]. intros; ring. }
      rewrite Z0. field. exact NZ.
  Qed.
End Optimal.

(** statement on the model's functions *)
Theorem min_inbreeding_optimal (G H : list (list Q)) :
  rows_len (length G) G -> length H = length G -> rows_len (length G) H ->
  (forall i j, entry G i j == entry G j i) -> (forall y, length y = length G -> 0 <= qform y G) ->
  mat_eq (mmul G H) (ident (length G)) -> 0 < sumQ (concat H) ->
  (forall x, length x = length G -> sumQ x == 1 -> min_inbreeding_of Coancestry H <= qform x G) /\
  (exists x, length x = length G /\ sumQ x == 1 /\ qform x G == min_inbreeding_of Coancestry H) /\
  min_inbreeding_of Kinship H == (1 # 2) * min_inbreeding_of Coancestry H.
Proof.
  intros RG LH RH Gs Gp GHI Hs.
  pose proof (s_concat (length G) G H eq_refl LH RH) as SC.
  assert (Hs' : 0 < s (length G) H) by (rewrite SC; exact Hs).
  assert (EQ : min_inbreeding_of Coancestry H == 1 / s (length G) H).
  { unfold min_inbreeding_of. cbn [half]. rewrite sumQr_eq, SC. reflexivity. }
  split; [|split].
  - intros x Lx Sx. rewrite EQ. apply (min_inbreeding_lower (length G) G H eq_refl RG LH RH Gs Gp GHI x Hs' Lx Sx).
  - destruct (min_inbreeding_attained (length G) G H eq_refl RG LH RH Gs GHI Hs') as (x & Lx & Sx & Qx).
    exists x. split; [exact Lx|]. split; [exact Sx|]. rewrite Qx, EQ. reflexivity.
  - unfold min_inbreeding_of. cbn [half]. reflexivity.
Qed.

(** * inverse of the kinship matrix: inv(G/2) = 2 inv(G) *)
Lemma Forall2_map_same {A B} (P : B -> B -> Prop) (f g : A -> B) l :
  (forall a, In a l -> P (f a) (g a)) -> Forall2 P (map f l) (map g l).
Proof.
  induction l as [|a l IH]; intros Hf; [constructor|]. cbn [map]. constructor; [apply Hf; left; reflexivity|].
  apply IH. intros; apply Hf; right; assumption.
Qed.

Lemma nth_map_scale d r j : nth j (map (Qmult d) r) 0 == d * nth j r 0.
Proof.
  destruct (Nat.lt_ge_cases j (length r)) as [L|L].
  - rewrite (nth_indep _ 0 (d * 0)) by (rewrite map_length; exact L). rewrite (map_nth (Qmult d) r 0 j). reflexivity.
  - rewrite !nth_overflow by (rewrite ?map_length; exact L). ring.
Qed.

Lemma dotQ_scale_both c d a b' b : c * d == 1 -> Forall2 (fun x y => x == d * y) b' b ->
  dotQ (map (Qmult c) a) b' == dotQ a b.
Proof.
  intros Hcd H; revert a; induction H as [|x y b' b Hxy H IH]; intros a.
  - destruct a; reflexivity.
  - destruct a as [|ak a]; [reflexivity|]. cbn [map]. rewrite !dotQ_cons, IH, Hxy.
    setoid_replace (c * ak * (d * y)) with ((c * d) * (ak * y)) by ring. rewrite Hcd. ring.
Qed.

Lemma mat_eq_trans A B C : mat_eq A B -> mat_eq B C -> mat_eq A C.
Proof.
  unfold mat_eq. intros H1; revert C; induction H1 as [|a b A B Hab H1 IH]; intros C H2; inversion H2; subst; constructor.
  - clear - Hab H3. revert y H3. induction Hab as [|x y' a b Hxy Hab IHr]; intros c H3; inversion H3; subst; constructor.
    + rewrite Hxy. assumption.
    + apply IHr. assumption.
  - apply IH. assumption.
Qed.

Theorem inverse_scaled c d G H n : c * d == 1 -> mat_eq (mmul G H) (ident n) ->
  mat_eq (mmul (scale_mat c G) (scale_mat d H)) (ident n).
Proof.
  intros Hcd HI. eapply mat_eq_trans; [|exact HI]. unfold mat_eq, mmul, scale_mat.
  assert (NC : match map (map (Qmult d)) H with [] => O | r :: _ => length r end = match H with [] => O | r :: _ => length r end).
  { destruct H as [|r H']; [reflexivity|]. cbn [map]. apply map_length. }
  rewrite NC. rewrite map_map. apply Forall2_map_same. intros a _.
  apply Forall2_map_same. intros j _. rewrite !dotQr_eq. apply (dotQ_scale_both c d); [exact Hcd|].
  unfold col. rewrite map_map. apply Forall2_map_same. intros r _. apply nth_map_scale.
Qed.

(** the model's kinship inverse is a right inverse of the kinship matrix *)
Theorem inverse_kinship_sound G Hk : inverse_of Kinship G = Some Hk ->
  mat_eq (mmul (mat_asformat Kinship G) Hk) (ident (length G)).
Proof.
  unfold inverse_of. destruct (inv_checked G) as [H|] eqn:E; [|discriminate]. intros E'; injection E' as <-.
  destruct (inv_checked_sound G H E) as [HI _].
  change (mat_asformat Kinship G) with (scale_mat (1 # 2) G).
  apply (inverse_scaled (1 # 2) 2 G H (length G)); [reflexivity | exact HI].
Qed.

(** min_inbreeding of a relationship matrix produced by the estimators: whenever the (checked) inverse exists and
    1'H1 > 0, the value is the minimum of x'Gx over the simplex-sum constraint, and it is attained *)
Theorem min_inbreeding_of_estimator c pl m X G H : rows_len m X -> admissible c pl X ->
  from_gmat c pl m X = ROk G -> inv_checked G = Some H -> 0 < sumQ (concat H) ->
  min_inbreeding Coancestry G = Some (min_inbreeding_of Coancestry H) /\
  min_inbreeding Kinship G = Some (min_inbreeding_of Kinship H) /\
  (forall x, length x = length G -> sumQ x == 1 -> min_inbreeding_of Coancestry H <= qform x G) /\
  (exists x, length x = length G /\ sumQ x == 1 /\ qform x G == min_inbreeding_of Coancestry H) /\
  min_inbreeding_of Kinship H == (1 # 2) * min_inbreeding_of Coancestry H.
Proof.
  intros HX Ha E EI Hs. pose proof (from_gmat_is_gram c pl m X G HX Ha E) as IG.
  destruct (inv_checked_sound G H EI) as (GHI & _ & LH & RH).
  split; [unfold min_inbreeding; rewrite EI; reflexivity|]. split; [unfold min_inbreeding; rewrite EI; reflexivity|].
  apply (min_inbreeding_optimal G H); try assumption.
  - apply is_gram_length, IG.
  - intros i j. apply is_gram_sym, IG.
  - intros y _. apply is_gram_psd, IG.
Qed.
