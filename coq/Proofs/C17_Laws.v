(** C17 — further laws of the sampling model: a second outcross call is the identity (one pass), stochastic universal
    sampling is invariant under a common positive scaling of weights and offset. *)
From Coq Require Import Permutation Lqa Lia Qround QArith.
From PV Require Import Lib.Common Model.C17_Sampling Proofs.C17_Sampling.

Local Open Scope Z_scope.
(** ** a table at a 2-exchange local optimum is left alone after exactly one pass (so a second call changes nothing) *)
Lemma first_improving_none_intro m x best pairs :
  (forall i j, In (i, j) pairs -> best <= score m (swap i j x)) -> first_improving m x best pairs = None.
Proof.
  induction pairs as [|[i j] t IH]; intros H; [reflexivity|]. cbn [first_improving].
  destruct (Z.ltb_spec (score m (swap i j x)) best) as [L|G].
  - specialize (H i j (or_introl eq_refl)). lia.
  - apply IH. intros i' j' Hin. apply H. now right.
Qed.
Lemma swap_same i x : swap i i x = x.
Proof.
  unfold swap. transitivity (map (fun t => nth t x 0) (seq 0 (length x))); [|apply map_nth_seq].
  apply map_ext. intros t. destruct (Nat.eqb_spec t i); [subst; reflexivity|reflexivity].
Qed.
Lemma all_pairs_lt N i j : In (i, j) (all_pairs N) -> (i < j < N)%nat.
Proof.
  unfold all_pairs. intros H. apply in_flat_map in H as (i' & Hi & Hj). apply in_map_iff in Hj as (j' & E & Hj').
  injection E as <- <-. apply in_seq in Hi, Hj'. lia.
Qed.
Lemma permute_in {A} (d : A) pm l x : In x (permute d pm l) -> In x l \/ x = d.
Proof.
  unfold permute. intros H. apply in_map_iff in H as (t & E & _). subst.
  destruct (Nat.lt_ge_cases t (length l)); [left; now apply nth_In | right; now apply nth_overflow].
Qed.
Theorem outcross_fixed_point m x pm rest :
  (forall i j, (i < j < length x)%nat -> score m x <= score m (swap i j x)) ->
  outcross m x (pm :: rest) = Some (x, 1%nat).
Proof.
  intros H. unfold outcross. cbn [outcross_loop].
  rewrite first_improving_none_intro; [reflexivity|].
  intros i j Hin. apply permute_in in Hin as [Hin|E].
  - apply H. now apply all_pairs_lt.
  - injection E as -> ->. rewrite swap_same. lia.
Qed.
Theorem outcross_idempotent m x pms y n pm rest :
  Forall (fun pm => Permutation pm (seq 0 (length (all_pairs (length x))))) pms ->
  outcross m x pms = Some (y, n) -> outcross m y (pm :: rest) = Some (y, 1%nat).
Proof. intros Hp H. apply outcross_fixed_point. exact (outcross_local_optimum m x pms y n Hp H). Qed.

Local Open Scope Q_scope.
(** ** scale covariance: multiplying every weight and the offset by a positive factor changes nothing *)
Section Scale.
Variable c : Q.
Hypothesis Hc : 0 < c.
Definition scaled (a b : Q) : Prop := b == c * a.

Lemma scaled_le a b a' b' : scaled a a' -> scaled b b' -> Qle_bool a' b' = Qle_bool a b.
Proof.
  unfold scaled. intros Ha Hb. apply Bool.eq_iff_eq_true. rewrite !Qle_bool_iff, Ha, Hb. apply Qmult_le_l. exact Hc.
Qed.
Lemma advance_scaled cs cs' : Forall2 scaled cs cs' -> forall ix p p', scaled p p' ->
  snd (advance cs' ix p') = snd (advance cs ix p) /\ Forall2 scaled (fst (advance cs ix p)) (fst (advance cs' ix p')).
Proof.
  induction 1 as [|a a' l l' Ha Hl IH]; intros ix p p' Hp; [split; [reflexivity|constructor]|].
  destruct Hl as [|b b' l2 l2' Hb Hl2].
  - split; [reflexivity|]. cbn. constructor; [exact Ha|constructor].
  - rewrite !advance_cons2, (scaled_le a p a' p' Ha Hp).
    destruct (Qle_bool a p).
    + apply IH. exact Hp.
    + split; [reflexivity|]. cbn [fst]. constructor; [exact Ha|]. constructor; assumption.
Qed.
Lemma walk_scaled ptrs ptrs' : Forall2 scaled ptrs ptrs' -> forall cs cs' ix, Forall2 scaled cs cs' ->
  sus_walk cs' ix ptrs' = sus_walk cs ix ptrs.
Proof.
  induction 1 as [|p p' r r' Hp Hr IH]; intros cs cs' ix Hcs; [reflexivity|]. cbn [sus_walk].
  destruct (advance_scaled cs cs' Hcs ix p p' Hp) as [E F].
  destruct (advance cs ix p) as [cs1 ix1], (advance cs' ix p') as [cs1' ix1']. cbn [fst snd] in *. subst ix1'.
  f_equal. apply IH. exact F.
Qed.
Lemma cumsum_from_scaled l : forall acc acc', scaled acc acc' ->
  Forall2 scaled (cumsum_from acc l) (cumsum_from acc' (map (Qmult c) l)).
Proof.
  induction l as [|x l IH]; intros acc acc' Ha; [constructor|]. cbn [map cumsum_from].
  assert (H : scaled (acc + x) (acc' + c * x)) by (unfold scaled in *; rewrite Ha; ring).
  constructor; [exact H | apply IH, H].
Qed.
Lemma nth_scaled p i : scaled (nth i p 0) (nth i (map (Qmult c) p) 0).
Proof.
  destruct (Nat.lt_ge_cases i (length p)) as [L|G].
  - rewrite (nth_indep (map (Qmult c) p) 0 (c * 0)) by (now rewrite map_length). rewrite map_nth. unfold scaled. reflexivity.
  - rewrite !nth_overflow by (try rewrite map_length; exact G). unfold scaled. ring.
Qed.
Lemma npos_scaled p : npos (map (Qmult c) p) = npos p.
Proof.
  induction p as [|x p IH]; [reflexivity|]. cbn [map]. rewrite !npos_cons, IH.
  assert (E : Qle_bool (c * x) 0 = Qle_bool x 0).
  { apply Bool.eq_iff_eq_true. rewrite !Qle_bool_iff. setoid_replace 0 with (c * 0) at 1 by ring. apply Qmult_le_l. exact Hc. }
  now rewrite E.
Qed.
Lemma sumQ_scaled p : scaled (sumQ p) (sumQ (map (Qmult c) p)).
Proof.
  unfold scaled. induction p as [|x p IH]; [cbn; ring|]. cbn [map]. rewrite !sumQ_cons, IH. ring.
Qed.
Lemma Forall2_map_same {A} (f g : A -> Q) l : (forall i, scaled (f i) (g i)) -> Forall2 scaled (map f l) (map g l).
Proof. intros H. induction l; cbn; constructor; auto. Qed.

Theorem sus_q_scale p order k off perm :
  sus_q (map (Qmult c) p) order k (c * off) perm = sus_q p order k off perm.
Proof.
  unfold sus_q, sus_finish. destruct (Nat.eqb k 0); [reflexivity|]. rewrite npos_scaled.
  assert (Fc : Forall2 scaled (cumsum (gather 0 p order)) (cumsum (gather 0 (map (Qmult c) p) order))).
  { unfold cumsum.
    assert (G : forall acc acc', scaled acc acc' ->
      Forall2 scaled (cumsum_from acc (gather 0 p order)) (cumsum_from acc' (gather 0 (map (Qmult c) p) order))).
    { unfold gather. induction order as [|i order IH]; intros acc acc' Ha; [constructor|]. cbn [map cumsum_from].
      assert (H : scaled (acc + nth i p 0) (acc' + nth i (map (Qmult c) p) 0)).
      { pose proof (nth_scaled p i) as Hn. unfold scaled in *. rewrite Ha, Hn. ring. }
      constructor; [exact H | apply IH, H]. }
    apply G. unfold scaled. ring. }
  assert (Fp : Forall2 scaled (sus_ptrs_q (sumQ p) k off) (sus_ptrs_q (sumQ (map (Qmult c) p)) k (c * off))).
  { unfold sus_ptrs_q. apply Forall2_map_same. intros i. pose proof (sumQ_scaled p) as Hs. unfold scaled in *. unfold Qdiv. rewrite Hs. ring. }
  destruct Fc as [|a a' l l' Ha Hl]; [reflexivity|].
  do 3 f_equal. apply walk_scaled; [exact Fp|]. apply Forall2_firstn. constructor; assumption.
Qed.
End Scale.

