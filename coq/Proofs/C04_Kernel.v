(** C04 — the kernel expressions regenerated from the source (Gen/C04_Kernel.v) are the ones the hand model uses.
    Every [_model] / [_kernel] lemma is closed by [reflexivity] (after a case split on the class tag, or one rewriting with a
    class hypothesis; the genic-variance summand alone needs [ring], the source writing u^2 p (1 - p) where the model sums
    p (1 - p) u^2).  If an expression of the source changes (a sign test flipped, [>=] for [>], [facount] for [dacount], a rounded
    reciprocal instead of the quotient, [numpy.isclose] for the exact zero test, the blocks of a design concatenated in the other
    order, [<=] in the loop guard, [i:] for [i + 1:] in the coordinate update ...) the regenerated definition no longer unfolds to
    the model's, or the translator refuses it, and this file — hence Props/C04.vo — stops compiling.  The second half restates
    the property's lemmas about the generated definitions themselves. *)
From Coq Require Import Lqa.
From PV Require Import Lib.Common Model.C04_Gmod Model.C04_GS Proofs.C04_Counts Proofs.C04_Linear Proofs.C04_Var Proofs.C04_Sums
  Proofs.C04_Genic Proofs.C04_GS Proofs.C04_Ridge Gen.C04_Kernel.
Local Open Scope Q_scope.

(** ** allele tables *)
(** the source's three statements of facount / dacount, composed: where(mask, acount, maxfav - acount), then the reset *)
Definition kfa_A (u : Q) (c N : Z) : Z := if k_A_fa_reset u then k_A_fa_resetval else k_A_fa_where (k_A_fa_mask u) c N.
Definition kda_A (u : Q) (c N : Z) : Z := if k_A_da_reset u then k_A_da_resetval else k_A_da_where (k_A_da_mask u) c N.
Definition kfa_L (u : Q) (c N : Z) : Z := if k_L_fa_reset u then k_L_fa_resetval else k_L_fa_where (k_L_fa_mask u) c N.
Definition kda_L (u : Q) (c N : Z) : Z := if k_L_da_reset u then k_L_da_resetval else k_L_da_where (k_L_da_mask u) c N.

Lemma kfa_A_model u c N : fa1 u c N = kfa_A u c N. Proof. reflexivity. Qed.
Lemma kda_A_model u c N : da1 u c N = kda_A u c N. Proof. reflexivity. Qed.
Lemma kfa_L_model u c N : fa1 u c N = kfa_L u c N. Proof. reflexivity. Qed.
Lemma kda_L_model u c N : da1 u c N = kda_L u c N. Proof. reflexivity. Qed.

Lemma k_maxfav_model gt :
  maxfav gt = k_A_maxfav (eff_ploidy gt None) (gt_ntaxa gt) /\ maxfav gt = k_A_da_maxfav (eff_ploidy gt None) (gt_ntaxa gt) /\
  maxfav gt = k_L_maxfav (eff_ploidy gt None) (gt_ntaxa gt) /\ maxfav gt = k_L_da_maxfav (eff_ploidy gt None) (gt_ntaxa gt).
Proof. repeat split; reflexivity. Qed.

(** a table whose entry is computed by the class's own generated expression from (effect, allele count, ploidy, ntaxa) *)
Definition ktab {A} (g : gmodel) (gt : gtin) (fA fL : Q -> Z -> Z -> Z -> A) : list (list A) :=
  stat g gt (fun u c _ => match g_cls g with CL => fL u c (eff_ploidy gt None) (gt_ntaxa gt) | _ => fA u c (eff_ploidy gt None) (gt_ntaxa gt) end).
(** a flag table: the generated flag expression applied to the class's own generated counts *)
Definition kflag (g : gmodel) (gt : gtin) (fA fL : Z -> Z -> Z -> Z -> bool) : list (list bool) :=
  ktab g gt (fun u c pl n => fA (kfa_A u c (k_A_maxfav pl n)) (kda_A u c (k_A_da_maxfav pl n)) pl n)
            (fun u c pl n => fL (kfa_L u c (k_L_maxfav pl n)) (kda_L u c (k_L_da_maxfav pl n)) pl n).
Definition kfreq (g : gmodel) (gt : gtin) (fA fL : Q -> Q -> Q -> Q -> Q) : list (list Q) :=
  ktab g gt (fun u c pl n => fA (inject_Z (kfa_A u c (k_A_maxfav pl n))) (inject_Z (kda_A u c (k_A_da_maxfav pl n))) (inject_Z pl) (inject_Z n))
            (fun u c pl n => fL (inject_Z (kfa_L u c (k_L_maxfav pl n))) (inject_Z (kda_L u c (k_L_da_maxfav pl n))) (inject_Z pl) (inject_Z n)).

Lemma facount_kernel g gt : facount g gt = ktab g gt (fun u c pl n => kfa_A u c (k_A_maxfav pl n)) (fun u c pl n => kfa_L u c (k_L_maxfav pl n)).
Proof. unfold facount, ktab, stat. destruct (g_cls g); reflexivity. Qed.
Lemma dacount_kernel g gt : dacount g gt = ktab g gt (fun u c pl n => kda_A u c (k_A_da_maxfav pl n)) (fun u c pl n => kda_L u c (k_L_da_maxfav pl n)).
Proof. unfold dacount, ktab, stat. destruct (g_cls g); reflexivity. Qed.
Lemma faavail_kernel g gt : faavail g gt = kflag g gt k_A_faavail k_L_faavail.
Proof. unfold faavail, kflag, ktab, stat, avail_of. destruct (g_cls g); reflexivity. Qed.
Lemma daavail_kernel g gt : daavail g gt = kflag g gt k_A_daavail k_L_daavail.
Proof. unfold daavail, kflag, ktab, stat, avail_of. destruct (g_cls g); reflexivity. Qed.
Lemma fafixed_kernel g gt : fafixed g gt = kflag g gt k_A_fafixed k_L_fafixed.
Proof. unfold fafixed, kflag, ktab, stat. destruct (g_cls g); reflexivity. Qed.
Lemma dafixed_kernel g gt : dafixed g gt = kflag g gt k_A_dafixed k_L_dafixed.
Proof. unfold dafixed, kflag, ktab, stat. destruct (g_cls g); reflexivity. Qed.
(** (DenseLinearGenomicModel defines no fapoly / dapoly / nafixed / napoly: the additive class's expression for every class) *)
Lemma fapoly_kernel g gt : fapoly g gt = kflag g gt k_A_fapoly k_A_fapoly.
Proof. unfold fapoly, kflag, ktab, stat. destruct (g_cls g); reflexivity. Qed.
Lemma dapoly_kernel g gt : dapoly g gt = kflag g gt k_A_dapoly k_A_dapoly.
Proof. unfold dapoly, kflag, ktab, stat. destruct (g_cls g); reflexivity. Qed.
Lemma nafixed_kernel g gt : nafixed g gt = ktab g gt k_A_nafixed k_A_nafixed.
Proof. unfold nafixed, ktab, stat. destruct (g_cls g); reflexivity. Qed.
Lemma napoly_kernel g gt : napoly g gt = ktab g gt k_A_napoly k_A_napoly.
Proof. unfold napoly, ktab, stat. destruct (g_cls g); reflexivity. Qed.
Lemma fafreq_kernel g gt : fafreq g gt = kfreq g gt k_A_fafreq k_L_fafreq.
Proof. unfold fafreq, kfreq, ktab, stat. destruct (g_cls g); reflexivity. Qed.
Lemma dafreq_kernel g gt : dafreq g gt = kfreq g gt k_A_dafreq k_L_dafreq.
Proof. unfold dafreq, kfreq, ktab, stat. destruct (g_cls g); reflexivity. Qed.

(** the property's clauses about the counts, stated about the generated expressions of both classes *)
Lemma kernel_counts_by_sign (u : Q) (c N : Z) :
  ((0 < u) -> kfa_A u c N = c /\ kda_A u c N = (N - c)%Z /\ kfa_L u c N = c /\ kda_L u c N = (N - c)%Z) /\
  ((u < 0) -> kfa_A u c N = (N - c)%Z /\ kda_A u c N = c /\ kfa_L u c N = (N - c)%Z /\ kda_L u c N = c) /\
  ((u == 0) -> kfa_A u c N = 0%Z /\ kda_A u c N = 0%Z /\ kfa_L u c N = 0%Z /\ kda_L u c N = 0%Z) /\
  (~ (u == 0) -> (kfa_A u c N + kda_A u c N)%Z = N /\ (kfa_L u c N + kda_L u c N)%Z = N).
Proof.
  change (kfa_A u c N) with (fa1 u c N); change (kda_A u c N) with (da1 u c N);
  change (kfa_L u c N) with (fa1 u c N); change (kda_L u c N) with (da1 u c N).
  destruct (counts_by_sign u c N) as (P & M & Z0 & S).
  split; [intros H; destruct (P H); auto|]. split; [intros H; destruct (M H); auto|]. split; [intros H; destruct (Z0 H); auto|].
  intros H; split; apply S; exact H.
Qed.

Lemma kernel_flags_consistent (u : Q) (c pl n : Z) : (0 <= c <= pl * n)%Z -> (0 < pl * n)%Z ->
  let N := (pl * n)%Z in let fa := kfa_A u c (k_A_maxfav pl n) in let da := kda_A u c (k_A_da_maxfav pl n) in
  (k_A_fafixed fa da pl n = true <-> fa = N) /\ (k_A_faavail fa da pl n = true <-> (0 < fa)%Z) /\
  (k_A_dafixed fa da pl n = true <-> da = N) /\ (k_A_daavail fa da pl n = true <-> (0 < da)%Z) /\
  k_A_fapoly fa da pl n = k_A_faavail fa da pl n && negb (k_A_fafixed fa da pl n) /\
  k_A_dapoly fa da pl n = k_A_daavail fa da pl n && negb (k_A_dafixed fa da pl n) /\
  (~ (u == 0) -> k_A_fafixed fa da pl n = negb (k_A_daavail fa da pl n) /\ k_A_dafixed fa da pl n = negb (k_A_faavail fa da pl n)
                 /\ k_A_fapoly fa da pl n = k_A_dapoly fa da pl n) /\
  ((u == 0) -> k_A_nafixed u c pl n = negb (k_A_napoly u c pl n) /\ k_A_faavail fa da pl n = false /\ k_A_daavail fa da pl n = false) /\
  (~ (u == 0) -> k_A_nafixed u c pl n = false /\ k_A_napoly u c pl n = false).
Proof.
  intros Hc HN N fa da.
  destruct (flags_consistent u c N Hc HN) as (F1 & F2 & F3 & F4 & F5).
  destruct (flags_consistent u c N Hc HN) as (_ & _ & _ & _ & F5').
  destruct (neutral_consistent u c N Hc HN) as (N1 & N2 & _).
  assert (D1 : fixed1 (da1 u c N) N = true <-> da1 u c N = N) by apply Z.eqb_eq.
  assert (D2 : avail1 (da1 u c N) = true <-> (0 < da1 u c N)%Z) by apply Z.ltb_lt.
  repeat split; try (apply F1); try (apply F2); try (apply D1); try (apply D2); try exact F3; try exact F4;
    try match goal with [H : ~ u == 0 |- _] => first [apply (F5 H) | apply (N2 H)] end;
    try match goal with [H : u == 0 |- _] => apply (N1 H) end.
Qed.

(** ** dominance design *)
Lemma k_het_model (ploidy a : Z) :
  let h (f : Z -> Z -> bool) := if f a ploidy then 1%Z else 0%Z in
  het1 ploidy a = h k_AD_gegv_het_obj /\ het1 ploidy a = h k_AD_gegv_het_raw /\
  het1 ploidy a = h k_AD_predict_het_obj /\ het1 ploidy a = h k_AD_predict_het_raw /\
  het1 ploidy a = h k_AD_score_het_obj /\ het1 ploidy a = h k_AD_score_het_raw /\
  het1 ploidy a = h k_AD_var_G_het_obj /\ het1 ploidy a = h k_AD_var_G_het_raw.
Proof. repeat split; reflexivity. Qed.

(** a raw array without the ploidy keyword is read under the source's default, in every method that takes the keyword *)
Lemma k_default_ploidy_model (m : zmat) :
  eff_ploidy (GRaw m) None = k_AD_gegv_default_ploidy /\ eff_ploidy (GRaw m) None = k_AD_predict_default_ploidy /\
  eff_ploidy (GRaw m) None = k_AD_score_default_ploidy /\ eff_ploidy (GRaw m) None = k_AD_var_G_default_ploidy /\
  eff_ploidy (GRaw m) None = k_A_var_a_default_ploidy /\ eff_ploidy (GRaw m) None = k_A_bulmer_default_ploidy /\
  eff_ploidy (GRaw m) None = k_L_var_a_default_ploidy /\ eff_ploidy (GRaw m) None = k_L_bulmer_default_ploidy.
Proof. repeat split; reflexivity. Qed.

Lemma k_design_model g gt arg : g_cls g = CAD ->
  let A := dosage gt in let D := het gt arg in
  design g gt arg = k_AD_gegv_design_obj zmat hcat A D /\ design g gt arg = k_AD_gegv_design_raw zmat hcat A D /\
  design g gt arg = k_AD_predict_design_obj zmat hcat A D /\ design g gt arg = k_AD_predict_design_raw zmat hcat A D /\
  design g gt arg = k_AD_score_design_obj zmat hcat A D /\ design g gt arg = k_AD_score_design_raw zmat hcat A D /\
  design g gt arg = k_AD_var_G_design_obj zmat hcat A D /\ design g gt arg = k_AD_var_G_design_raw zmat hcat A D.
Proof. intros C. unfold design. rewrite C. repeat split; reflexivity. Qed.

(** the generated indicator is true exactly on the dosages strictly between 0 and the ploidy, in all eight places *)
Lemma kernel_het_spec (ploidy a : Z) : (0 <= a <= ploidy)%Z ->
  Forall (fun f : Z -> Z -> bool => f a ploidy = true <-> (0 < a < ploidy)%Z)
    [k_AD_gegv_het_obj; k_AD_gegv_het_raw; k_AD_predict_het_obj; k_AD_predict_het_raw;
     k_AD_score_het_obj; k_AD_score_het_raw; k_AD_var_G_het_obj; k_AD_var_G_het_raw].
Proof.
  intros H. destruct (het1_spec ploidy a H) as [S1 S0].
  assert (K : forall f : Z -> Z -> bool, het1 ploidy a = (if f a ploidy then 1%Z else 0%Z) -> (f a ploidy = true <-> (0 < a < ploidy)%Z)).
  { intros f E. rewrite <- S1, E. destruct (f a ploidy); split; intros; (reflexivity || discriminate). }
  destruct (k_het_model ploidy a) as (E1 & E2 & E3 & E4 & E5 & E6 & E7 & E8). cbv zeta in *.
  repeat (apply Forall_cons; [apply K; assumption|]). apply Forall_nil.
Qed.

(** ** effect blocks and predictions *)
Lemma k_AD_u_model g : g_u g = k_AD_u qmat (@app _) (g_umisc g) (g_ua g) (g_ud g).
Proof. reflexivity. Qed.
Lemma k_A_u_model g : g_ud g = [] -> g_u g = k_A_u qmat (@app _) (g_umisc g) (g_ua g).
Proof. unfold g_u, k_A_u. intros ->. now rewrite app_nil_r. Qed.
Lemma k_gv_effects_model g : g_cls g = CAD -> gv_effects g = k_AD_gv_effects qmat (@app _) (g_umisc g) (g_ua g) (g_ud g).
Proof. unfold gv_effects. intros ->. reflexivity. Qed.

(** the value gebv_numpy / gegv_numpy / predict_numpy return once the shape checks pass: the class's own generated product *)
Definition k_gebv_value (g : gmodel) (Z : zmat) : qmat :=
  match g_cls g with
  | CL => k_L_gebv_numpy qmat (matmul (g_t g)) madd [] (qz Z) (g_beta g) (g_u g) (g_umisc g) (g_ua g) (g_ud g)
  | _ => k_A_gebv_numpy qmat (matmul (g_t g)) madd [] (qz Z) (g_beta g) (g_u g) (g_umisc g) (g_ua g) (g_ud g) end.
Lemma gebv_numpy_kernel g Z : gebv_numpy g Z = if ncols_ok (length (bv_effects g)) Z then Some (k_gebv_value g Z) else None.
Proof. unfold gebv_numpy, k_gebv_value, bv_effects. destruct (g_cls g); reflexivity. Qed.
Lemma gegv_numpy_kernel g Z : g_cls g = CAD ->
  gegv_numpy g Z = if ncols_ok (length (gv_effects g)) Z
                   then Some (k_AD_gegv_numpy qmat (matmul (g_t g)) (qz Z) (k_AD_gv_effects qmat (@app _) (g_umisc g) (g_ua g) (g_ud g))) else None.
Proof. intros C. unfold gegv_numpy. rewrite (k_gv_effects_model g C). reflexivity. Qed.
Definition k_predict_value (g : gmodel) (X Z : qmat) : qmat :=
  match g_cls g with
  | CA => k_A_predict qmat (matmul (g_t g)) madd X Z (g_beta g) (g_u g) (g_umisc g) (g_ua g) (g_ud g)
  | CAD => k_AD_predict qmat (matmul (g_t g)) madd X Z (g_beta g) (g_u g) (g_umisc g) (g_ua g) (g_ud g)
  | CL => k_L_predict qmat (matmul (g_t g)) madd X Z (g_beta g) (g_u g) (g_umisc g) (g_ua g) (g_ud g) end.
Definition k_score_pred_value (g : gmodel) (X Z : qmat) : qmat :=
  match g_cls g with
  | CA => k_A_score_pred qmat (matmul (g_t g)) madd X Z (g_beta g) (g_u g) (g_umisc g) (g_ua g) (g_ud g)
  | CAD => k_AD_score_pred qmat (matmul (g_t g)) madd X Z (g_beta g) (g_u g) (g_umisc g) (g_ua g) (g_ud g)
  | CL => k_L_score_pred qmat (matmul (g_t g)) madd X Z (g_beta g) (g_u g) (g_umisc g) (g_ua g) (g_ud g) end.
Lemma predict_numpy_kernel g X Z :
  predict_numpy g X Z = if ncols_ok (nexplan_beta g) X && Nat.eqb (length Z) (length X) && ncols_ok (nexplan_u g) Z
                        then Some (k_predict_value g X Z) else None.
Proof. unfold predict_numpy, k_predict_value. destruct (g_cls g); reflexivity. Qed.
(** score_numpy scores the same prediction *)
Lemma score_pred_kernel g X Z : k_score_pred_value g X Z = k_predict_value g X Z.
Proof. unfold k_score_pred_value, k_predict_value. destruct (g_cls g); reflexivity. Qed.

(** the intercept row X* and the location *)
Lemma xstar_kernel (q : nat) :
  let n := inject_Z (Z.of_nat (S q)) in
  xstar (S q) = k_A_xstar0 :: repeat (k_A_xstar_rest n) q /\ xstar (S q) = k_AD_xstar0 :: repeat (k_AD_xstar_rest n) q /\
  xstar (S q) = k_L_xstar0 :: repeat (k_L_xstar_rest n) q.
Proof. repeat split; reflexivity. Qed.
Lemma location_kernel g :
  let xs := xstar (nexplan_beta g) in let mm := vecmat (g_t g) in
  location g = k_A_location (list Q) qmat mm xs (g_beta g) (g_u g) (g_umisc g) (g_ua g) (g_ud g) /\
  location g = k_AD_location (list Q) qmat mm xs (g_beta g) (g_u g) (g_umisc g) (g_ua g) (g_ud g) /\
  location g = k_L_location (list Q) qmat mm xs (g_beta g) (g_u g) (g_umisc g) (g_ua g) (g_ud g).
Proof. repeat split; reflexivity. Qed.

(** the intercept of trait k, through the generated X* entries (every class) *)
Lemma kernel_intercept g k b0 rest : g_beta g = b0 :: rest -> rows_len (g_t g) (g_beta g) -> (k < g_t g)%nat ->
  let n := inject_Z (Z.of_nat (S (length rest))) in
  nth k (location g) 0 == k_A_xstar0 * nth k b0 0 + k_A_xstar_rest n * sumQ (col 0 k rest) /\
  nth k (location g) 0 == k_AD_xstar0 * nth k b0 0 + k_AD_xstar_rest n * sumQ (col 0 k rest) /\
  nth k (location g) 0 == k_L_xstar0 * nth k b0 0 + k_L_xstar_rest n * sumQ (col 0 k rest).
Proof.
  intros Hb Hr Hk n. pose proof (location_entry g k b0 rest Hb Hr Hk) as E. fold n in E.
  unfold k_A_xstar0, k_AD_xstar0, k_L_xstar0, k_A_xstar_rest, k_AD_xstar_rest, k_L_xstar_rest.
  repeat split; rewrite E; ring.
Qed.

(** ** coefficient of determination *)
Lemma rsq_kernel y yhat :
  let r (sq : Q -> Q -> Q) (st : Q -> Q -> Q) (f : Q -> Q -> Q) :=
    let sse := sumQ (map2 sq y yhat) in let sst := sumQ (map (fun v => st v (qmean y)) y) in
    if Qeq_bool sst 0 then None else Some (f sse sst) in
  rsq y yhat = r k_A_sqerr k_A_sst_term k_A_rsq /\ rsq y yhat = r k_AD_sqerr k_AD_sst_term k_AD_rsq /\ rsq y yhat = r k_L_sqerr k_L_sst_term k_L_rsq.
Proof. repeat split; reflexivity. Qed.

(** ** genic variance and Bulmer ratio *)
Lemma var_a_term_model u p : k_A_var_a_term u p == (u * u) * (p * (1 - p)) /\ k_L_var_a_term u p == (u * u) * (p * (1 - p)).
Proof. unfold k_A_var_a_term, k_L_var_a_term. split; ring. Qed.
Lemma var_a_scale_model (ploidy : Z) S : k_A_var_a_scale (inject_Z ploidy) S == inject_Z (ploidy * ploidy) * S /\
  k_L_var_a_scale (inject_Z ploidy) S == inject_Z (ploidy * ploidy) * S.
Proof. unfold k_A_var_a_scale, k_L_var_a_scale. rewrite inject_Z_mult. split; ring. Qed.

(** var_a of trait k is the source's formula: scale (ploidy ** 2 * .) of the sum over markers of the generated summand *)
Lemma kernel_var_a_entry t (u : qmat) (fr : list Q) (ploidy : Z) k : rows_len t u -> length fr = length u -> (k < t)%nat ->
  nth k (var_a_of t u fr ploidy) 0 == k_A_var_a_scale (inject_Z ploidy) (bigsum (length u) (fun j => k_A_var_a_term (nth k (nth j u []) 0) (nth j fr 0))) /\
  nth k (var_a_of t u fr ploidy) 0 == k_L_var_a_scale (inject_Z ploidy) (bigsum (length u) (fun j => k_L_var_a_term (nth k (nth j u []) 0) (nth j fr 0))).
Proof.
  intros Hu Lf Hk. pose proof (var_a_of_entry t u fr ploidy k Hu Lf Hk) as E.
  destruct (var_a_scale_model ploidy (bigsum (length u) (fun j => k_A_var_a_term (nth k (nth j u []) 0) (nth j fr 0)))) as [SA _].
  destruct (var_a_scale_model ploidy (bigsum (length u) (fun j => k_L_var_a_term (nth k (nth j u []) 0) (nth j fr 0)))) as [_ SL].
  split.
  - rewrite SA, E. apply Qmult_comp; [reflexivity|]. apply bigsum_ext. intros j _. symmetry. apply var_a_term_model.
  - rewrite SL, E. apply Qmult_comp; [reflexivity|]. apply bigsum_ext. intros j _. symmetry. apply var_a_term_model.
Qed.

(** allele frequency of a raw dosage array: the count divided by ploidy * ntaxa (a quotient, in all four places) *)
Lemma afreq_raw_kernel gt p (ploidy : Z) :
  let fr (f : Q -> Q -> Q -> Q) := map (fun c => f (inject_Z c) (inject_Z ploidy) (inject_Z (gt_ntaxa gt))) (acount gt p) in
  afreq gt p ploidy = fr k_A_var_a_afreq_raw /\ afreq gt p ploidy = fr k_A_bulmer_afreq_raw /\
  afreq gt p ploidy = fr k_L_var_a_afreq_raw /\ afreq gt p ploidy = fr k_L_bulmer_afreq_raw.
Proof. repeat split; reflexivity. Qed.

Lemma bulmer_kernel g gt arg :
  let b (mask : Q -> bool) (ratio : Q -> Q -> Q) :=
    match var_A g gt with
    | Some vA => Some (map2 (fun a s => if mask s then None else Some (ratio a s)) vA (var_a g gt arg))
    | None => None end in
  bulmer g gt arg = b k_A_bulmer_mask k_A_bulmer_ratio /\ bulmer g gt arg = b k_L_bulmer_mask k_L_bulmer_ratio.
Proof. split; reflexivity. Qed.

(** the generated zero test of the genic variance is the EXACT one, and an entry of the Bulmer table is NaN exactly there *)
Lemma kernel_bulmer_entry g gt arg l vA k : var_A g gt = Some vA -> bulmer g gt arg = Some l ->
  (k < length vA)%nat -> (k < length (var_a g gt arg))%nat ->
  let s := nth k (var_a g gt arg) 0 in
  (k_A_bulmer_mask s = true <-> s == 0) /\ (k_L_bulmer_mask s = true <-> s == 0) /\
  nth k l None = (if k_A_bulmer_mask s then None else Some (k_A_bulmer_ratio (nth k vA 0) s)) /\
  nth k l None = (if k_L_bulmer_mask s then None else Some (k_L_bulmer_ratio (nth k vA 0) s)).
Proof.
  intros HA HB K1 K2 s. pose proof (bulmer_entry g gt arg l vA k HA HB K1 K2) as E. fold s in E.
  repeat split; try (apply Qeq_bool_iff); try exact E; apply Qeq_bool_iff.
Qed.

(** ** gauss_seidel and the non-numerical parts of rrBLUPModel0.fit_numpy *)
Lemma gs_coord_kernel i r bi x :
  gs_coord i r bi x = Qred (k_gs_coord bi (dotQ (firstn i r) (firstn i x)) (dotQ (skipn (S i) r) (skipn (S i) x)) (nth i r 0)).
Proof. reflexivity. Qed.
Lemma any_gt_kernel atol d : any_gt atol d = existsb (fun v => k_gs_moved v atol) d.
Proof. reflexivity. Qed.
(** adiff starts as the scalar 2 * atol: the first evaluation of the guard's first conjunct *)
Lemma gauss_seidel_kernel A b atol maxiter :
  gauss_seidel A b atol maxiter =
  if k_gs_moved (k_gs_adiff0 atol) atol && negb (Nat.eqb maxiter 0)
  then (if diag_ok A then Some (gs_loop maxiter A b atol true (repeat 0 (length b))) else None)
  else Some (repeat 0 (length b)).
Proof. reflexivity. Qed.
(** the loop guard of the source: with [fuel] sweeps left out of [maxiter], niter = maxiter - fuel *)
Lemma gs_loop_guard (maxiter fuel : nat) A b atol go x : (fuel <= maxiter)%nat ->
  gs_loop fuel A b atol go x =
  if k_gs_guard go (Z.of_nat (maxiter - fuel)) (Z.of_nat maxiter)
  then (let x' := gs_sweep A b x in gs_loop (pred fuel) A b atol (any_gt atol (adiff x' x)) x') else x.
Proof.
  intros H. unfold k_gs_guard. destruct fuel as [|k]; cbn [gs_loop pred].
  - rewrite Nat.sub_0_r, Z.ltb_irrefl, andb_false_r. reflexivity.
  - destruct go; cbn [andb]; [|reflexivity].
    assert (L : (Z.of_nat (maxiter - S k) <? Z.of_nat maxiter)%Z = true) by (apply Z.ltb_lt; lia). now rewrite L.
Qed.

Lemma poly_mask_kernel p r0 Z' :
  poly_mask p (r0 :: Z') = map (fun j => k_poly_col (forallb (fun r => k_poly_eq (nth j r 0%Z) (nth j r0 0%Z)) (r0 :: Z'))) (seq 0 p).
Proof. reflexivity. Qed.
Lemma center_kernel y : center y = map (fun v => k_center v (qmean y)) y.
Proof. reflexivity. Qed.
Lemma scatter_kernel mask uh j : nth j mask true = false -> nth j (scatter mask uh) k_mono_effect = k_mono_effect.
Proof. apply scatter_masked. Qed.

(** the fitted model through the generated expressions: a marker whose column test [k_poly_col (all k_poly_eq)] is false gets
    exactly the generated constant [k_mono_effect] = 0, and the intercept is the mean that [k_center] subtracts *)
Lemma kernel_rr_structure p r0 Z' y ridge atol maxiter beta u : rr_fit1 p (r0 :: Z') y ridge atol maxiter = Some (beta, u) ->
  beta = qmean y /\ length u = p /\
  (forall j, (j < p)%nat -> k_poly_col (forallb (fun r => k_poly_eq (nth j r 0%Z) (nth j r0 0%Z)) (r0 :: Z')) = false -> nth j u k_mono_effect = k_mono_effect) /\
  k_mono_effect == 0 /\ sumQ (map (fun v => k_center v (qmean y)) y) == sumQ (center y).
Proof.
  intros E. destruct (rr_fit1_structure p (r0 :: Z') y ridge atol maxiter beta u E) as (B & L & M).
  split; [exact B|]. split; [exact L|]. split; [|split; [reflexivity | now rewrite center_kernel]].
  intros j Hj Hc. apply M. rewrite poly_mask_kernel.
  rewrite (nth_map_in _ 0%nat true) by (now rewrite seq_length). rewrite seq_nth by exact Hj. exact Hc.
Qed.

(** the ridge parameter handed to the solver is the quotient of the variance components, positive whenever they are (the
    hypothesis [0 < ridge] of the criterion and normal-equation theorems) *)
Lemma k_ridge_model varE varU : k_ridge varE varU = varE / varU.
Proof. reflexivity. Qed.
Lemma kernel_ridge_positive varE varU : 0 < varE -> 0 < varU -> 0 < k_ridge varE varU.
Proof.
  intros HE HU. rewrite k_ridge_model. unfold Qdiv. apply Qmult_lt_0_compat; [exact HE|]. now apply Qinv_lt_0_compat.
Qed.

(** ** sessions: what a model object answers depends on its current coefficient arrays only *)
Lemma model_copy_id g : model_copy g = g.
Proof. destruct g; reflexivity. Qed.
Lemma session_state_only {A} (obs : gmodel -> A) g (a b c : qmat) :
  obs (set_ua (set_ua g a) b) = obs (set_ua g b) /\ obs (set_beta (set_beta g a) b) = obs (set_beta g b) /\
  obs (set_umisc (set_umisc g a) b) = obs (set_umisc g b) /\ obs (set_ud (set_ud g a) b) = obs (set_ud g b) /\
  obs (set_beta (set_ua g a) c) = obs (set_ua (set_beta g c) a) /\ obs (set_ud (set_umisc g a) c) = obs (set_umisc (set_ud g c) a) /\
  obs (model_copy g) = obs g /\ obs (set_ua (model_copy g) a) = obs (set_ua g a) /\
  (set_ua (set_beta (set_umisc (set_ud g (g_ud g)) (g_umisc g)) (g_beta g)) (g_ua g) = g).
Proof. destruct g; repeat split; reflexivity. Qed.
