(** C03 — checkers for the two tables regenerated from the pybrops sources on every run (Gen/C03_Dispatch.v,
    Gen/C03_MetaReset.v) against the model's class table. *)
From Coq Require Import String.
From PV Require Import Lib.Common Model.C03_LMat Proofs.C03_LMat Gen.C03_Dispatch Gen.C03_MetaReset.
Local Open Scope string_scope.

Definition cls_by_name (n : string) : option cls :=
  if String.eqb n "DenseTaxaMatrix" then Some cDenseTaxaMatrix
  else if String.eqb n "DenseVariantMatrix" then Some cDenseVariantMatrix
  else if String.eqb n "DenseTraitMatrix" then Some cDenseTraitMatrix
  else if String.eqb n "DensePhasedMatrix" then Some cDensePhasedMatrix
  else if String.eqb n "DenseTaxaVariantMatrix" then Some cDenseTaxaVariantMatrix
  else if String.eqb n "DensePhasedTaxaVariantMatrix" then Some cDensePhasedTaxaVariantMatrix
  else if String.eqb n "DenseTaxaTraitMatrix" then Some cDenseTaxaTraitMatrix
  else if String.eqb n "DenseSquareTaxaMatrix" then Some cDenseSquareTaxaMatrix
  else if String.eqb n "DenseSquareTaxaTraitMatrix" then Some cDenseSquareTaxaTraitMatrix
  else if String.eqb n "DenseGenotypeMatrix" then Some cDenseGenotypeMatrix
  else if String.eqb n "DensePhasedGenotypeMatrix" then Some cDensePhasedGenotypeMatrix
  else if String.eqb n "DenseBreedingValueMatrix" then Some cDenseBreedingValueMatrix
  else if String.eqb n "DenseCoancestryMatrix" then Some cDenseCoancestryMatrix
  else None.
Definition class_names : list string :=
  ["DenseTaxaMatrix"; "DenseVariantMatrix"; "DenseTraitMatrix"; "DensePhasedMatrix"; "DenseTaxaVariantMatrix";
   "DensePhasedTaxaVariantMatrix"; "DenseTaxaTraitMatrix"; "DenseSquareTaxaMatrix"; "DenseSquareTaxaTraitMatrix";
   "DenseGenotypeMatrix"; "DensePhasedGenotypeMatrix"; "DenseBreedingValueMatrix"; "DenseCoancestryMatrix"].
Definition generic_methods : list string :=
  ["adjoin"; "delete"; "insert"; "select"; "concat"; "append"; "remove"; "incorp"; "lexsort"; "reorder"; "sort"; "group";
   "ungroup"; "is_grouped"].

Definition akind_eqb (a b : akind) : bool :=
  match a, b with KTaxa, KTaxa | KVrnt, KVrnt | KTrait, KTrait | KPhase, KPhase => true | _, _ => false end.
Definition suffix (k : akind) : string := match k with KTaxa => "taxa" | KVrnt => "vrnt" | KTrait => "trait" | KPhase => "phase" end.
Definition mem (s : string) (l : list string) : bool := existsb (String.eqb s) l.

(** what the *model* does for a generic method reaching a kind: call the axis-specific operation, raise, or answer False *)
Inductive expect := ECall | ERaise | EFalse.
Definition expected (c : cls) (k : akind) (meth : string) : expect :=
  if mem meth ["group"; "ungroup"; "is_grouped"] && negb (has_group c) then ERaise      (* the class has no such method *)
  else if mem meth ["adjoin"; "delete"; "insert"; "select"; "concat"; "append"; "remove"; "incorp"] then ECall
  else if mem meth ["lexsort"; "reorder"; "sort"] then (if sortable (schema_of k) then ECall else ERaise)
  else if mem meth ["group"; "ungroup"] then (match grp (schema_of k) with Some _ => ECall | None => ERaise end)
  else (* is_grouped *) match k with KTaxa | KVrnt => ECall | KPhase => EFalse | KTrait => ERaise end.
Definition dact_eqb (a b : dact) : bool :=
  match a, b with DCall x, DCall y => String.eqb x y | DRaise, DRaise => true | DFalse, DFalse => true | _, _ => false end.
(** the non-raising branches of a generic method must be, in the order of the class' axes, exactly the kinds for which
    the model performs the operation, each calling <method>_<kind>; raising branches may only name other kinds *)
Definition row_ok (r : string * string * string * list (string * akind * dact)) : bool :=
  let '(cn, meth, _, branches) := r in
  match cls_by_name cn with
  | None => false
  | Some c =>
      let want := flat_map (fun kx => match expected c (fst kx) meth with
                                      | ECall => [(fst kx, DCall (meth ++ "_" ++ suffix (fst kx)))]
                                      | EFalse => [(fst kx, DFalse)]
                                      | ERaise => [] end) (axs c) in
      let live := filter (fun b => negb (dact_eqb (snd b) DRaise)) (map (fun b => (snd (fst b), snd b)) branches) in
      list_eqb (fun x y => akind_eqb (fst x) (fst y) && dact_eqb (snd x) (snd y)) live want
      && forallb (fun b => negb (dact_eqb (snd b) DRaise) || negb (existsb (fun w => akind_eqb (fst w) (snd (fst b))) want)) branches
  end.
(** every (class, generic method) pair for which the model performs something has a row *)
Definition coverage_ok : bool :=
  forallb (fun cn => match cls_by_name cn with None => false | Some c =>
    forallb (fun meth =>
      negb (existsb (fun kx => match expected c (fst kx) meth with ERaise => false | _ => true end) (axs c))
      || existsb (fun r => String.eqb (fst (fst (fst r))) cn && String.eqb (snd (fst (fst r))) meth) dispatch_rows) generic_methods end) class_names.
Definition dispatch_rows_ok : bool := forallb row_ok dispatch_rows && coverage_ok.

(** every in-place layout-changing method of every grouped axis assigns None to all four metadata fields, and the rows
    cover every class x grouped kind of the model x the six in-place methods *)
Definition inplace_methods : list string := ["append"; "remove"; "incorp"; "reorder"; "sort"; "ungroup"].
Definition mrow_ok (r : string * string * string * akind * list bool * list string) : bool :=
  let '(cn, meth, _, k, bits, _) := r in
  match cls_by_name cn with None => false | Some c =>
    existsb (fun kx => akind_eqb (fst kx) k) (axs c) && list_eqb Bool.eqb bits [true; true; true; true] end.
Definition mcoverage_ok : bool :=
  forallb (fun cn => match cls_by_name cn with None => false | Some c =>
    forallb (fun kx => match grp (schema_of (fst kx)) with None => true | Some _ =>
      forallb (fun m => existsb (fun r => let '(cn', meth, _, k, _, _) := r in
                                       String.eqb cn' cn && String.eqb meth (m ++ "_" ++ suffix (fst kx)) && akind_eqb k (fst kx)) metareset_rows)
              inplace_methods end) (axs c) end) class_names.
Definition metareset_rows_ok : bool := forallb mrow_ok metareset_rows && mcoverage_ok.

Lemma dispatch_rows_check : dispatch_rows_ok = true.
Proof. vm_compute. reflexivity. Qed.
Lemma metareset_rows_check : metareset_rows_ok = true.
Proof. vm_compute. reflexivity. Qed.
(** the model resets all four fields in the same operations *)
Lemma model_resets (s : st) (k : nat) (l : list (option larr)) :
  (k < length (axes s))%nat -> is_grouped (ax_of {| shape := shape s; data := data s; axes := set_axes s k l |} k) = false.
Proof. intros H. rewrite ax_of_set_axes by assumption. now rewrite Nat.eqb_refl. Qed.
