(** C10 — any number of phases / any ploidy.  The model's definitions ([nphase], [tacount_ph], [acount_ph], [usl_dosage] ...) are
    generic in the number of phases; the lemmas of Proofs/C10_Limits.v are about diploid phased populations ([wf]).  Here:
    (1) the three input routes (phased object, unphased object, raw dosage array + ploidy) agree for ANY number of phases;
    (2) envelope and tightness for a dosage matrix of ANY ploidy m >= 1 (entries in 0..m): this is what [gebv] sees —
        [mat_asformat] hands it the sum over ALL phases, so a dosage that drops phases is outside the statement's domain only
        if it still lies in 0..m, and then the count it implies is the one the limits must be computed from;
    (3) the dosage of a phased 0/1 matrix with m phases lies in 0..m (so (2) applies to the phased route through (1)). *)
From Coq Require Import PrimFloat Lqa.
From PV Require Import Lib.Common Lib.FloatK.
From PV Require Import Model.C01_Meiosis Model.C01_Mating Model.C09_Stats Model.C10_Limits.
From PV Require Import Proofs.C09_Stats Proofs.C10_Float Proofs.C10_Limits.
Local Open Scope Z_scope.

(** * 1. routes, any number of phases *)
Lemma freq_routes_any n p geno : phases_ok n p geno -> freq_dosage (nphase geno) n p geno = freq_phased n p geno.
Proof.
  intros Hp. destruct (tacount_ph_shape n p geno Hp) as [Ld _].
  unfold freq_dosage, freq_phased, afreq_f, afreq_ph_f, dosage in *. rewrite <- (acount_phased_eq_projection n p geno Hp).
  unfold ntaxa. now rewrite Ld.
Qed.
Lemma routes_any t n p u geno : phases_ok n p geno ->
  freq_dosage (nphase geno) n p geno = freq_phased n p geno /\
  usl_dosage t n p (nphase geno) u geno = usl t n p u geno /\ lsl_dosage t n p (nphase geno) u geno = lsl t n p u geno.
Proof. intros Hp. unfold usl_dosage, lsl_dosage, usl, lsl. rewrite (freq_routes_any n p geno Hp). repeat split; reflexivity. Qed.

(** * 2. a dosage matrix of ploidy m *)
Definition dos_ok (m : Z) (n p : nat) (D : list (list Z)) : Prop :=
  shape_ok n p D /\ Forall (Forall (fun d => 0 <= d <= m)) D /\ (0 < n)%nat /\ 0 < m /\ m * Z.of_nat n <= 2^53.
Definition dcnt (j : nat) (D : list (list Z)) : Z := sumZ (col 0 j D).
Definition dfixed (p : nat) (D : list (list Z)) : Prop := forall j, (j < p)%nat -> forall a b, In a (col 0 j D) -> In b (col 0 j D) -> a = b.

Lemma sum_bounded (m : Z) l : Forall (fun d => 0 <= d <= m) l ->
  0 <= sumZ l <= m * Z.of_nat (length l) /\ (sumZ l = 0 -> forall x, In x l -> x = 0) /\ (sumZ l = m * Z.of_nat (length l) -> forall x, In x l -> x = m).
Proof.
  induction 1 as [|x l Hx Hl (B & Z0 & ZM)]; cbn [sumZ fold_right length In]; [repeat split; try lia; intros _ ? []|]. fold (sumZ l).
  rewrite Nat2Z.inj_succ. repeat split; try lia.
  - intros E y [<-|Hy]; [lia | apply Z0; [lia | exact Hy]].
  - intros E y [<-|Hy]; [lia | apply ZM; [lia | exact Hy]].
Qed.

Lemma dcol_facts m n p D s j : dos_ok m n p D -> (s < n)%nat ->
  let d := nth j (nth s D []) 0 in
  0 <= dcnt j D <= m * Z.of_nat n /\ 0 <= d <= m /\ (dcnt j D = 0 -> d = 0) /\ (dcnt j D = m * Z.of_nat n -> d = m).
Proof.
  intros ([Ln Hr] & Hd & Hn & Hm & _) Hs d.
  assert (Hc : Forall (fun d => 0 <= d <= m) (col 0 j D)) by (apply col_Forall; [lia | exact Hd]).
  assert (Lc : length (col 0 j D) = n) by (unfold col; now rewrite map_length).
  assert (Id : In d (col 0 j D)) by (unfold col; apply (in_map (fun r => nth j r 0)), nth_In; lia).
  destruct (sum_bounded m _ Hc) as (B & Z0 & ZM). rewrite Lc in *. unfold dcnt.
  rewrite Forall_forall in Hc. repeat split; try lia; try (apply (Hc d Id)); intros E; [now apply Z0 | now apply ZM].
Qed.

(** per-locus envelope at ploidy m: the contribution d*u of an individual (0 <= d <= m) lies between the limit terms *)
Lemma term_bracket_m (m : Z) (u : Q) (c N d : Z) : 0 < m -> 0 < N -> 0 <= c <= N -> 0 <= d <= m -> (c = 0 -> d = 0) -> (c = N -> d = m) ->
  (inject_Z m * u * b2q (lsl_cnt u c N) <= inject_Z d * u)%Q /\ (inject_Z d * u <= inject_Z m * u * b2q (usl_cnt u c N))%Q.
Proof.
  intros Hm HN Hc Hd H0 HM. unfold lsl_cnt, usl_cnt.
  assert (Q0 : (0 <= inject_Z d)%Q) by (unfold Qle, inject_Z; cbn [Qnum Qden]; lia).
  assert (QM : (inject_Z d <= inject_Z m)%Q) by (unfold Qle, inject_Z; cbn [Qnum Qden]; lia).
  destruct (Qpos u) eqn:P; [apply Qpos_true in P | apply Qpos_false in P].
  - assert (A : (0 <= inject_Z d * u)%Q) by (apply Qmult_le_0_compat; [exact Q0 | now apply Qlt_le_weak]).
    assert (B : (inject_Z d * u <= inject_Z m * u)%Q) by (apply Qmult_le_compat_r; [exact QM | now apply Qlt_le_weak]).
    destruct (Z.eqb_spec c N) as [E|E]; destruct (Z.ltb_spec 0 c) as [L|L]; cbn [b2q]; try lia.
    + rewrite (HM E). split; lra.
    + split; lra.
    + assert (Hz : c = 0) by lia. rewrite (H0 Hz). change (inject_Z 0) with 0%Q. split; lra.
  - assert (A : (inject_Z d * u <= 0)%Q).
    { setoid_replace (inject_Z d * u)%Q with (- (inject_Z d * - u))%Q by ring.
      assert (0 <= inject_Z d * - u)%Q by (apply Qmult_le_0_compat; [exact Q0 | lra]). lra. }
    assert (B : (inject_Z m * u <= inject_Z d * u)%Q).
    { assert (inject_Z d * - u <= inject_Z m * - u)%Q by (apply Qmult_le_compat_r; [exact QM | lra]). lra. }
    destruct (Z.eqb_spec c N) as [E|E]; destruct (Z.ltb_spec 0 c) as [L|L]; cbn [b2q]; try lia.
    + rewrite (HM E). split; lra.
    + split; lra.
    + assert (Hz : c = 0) by lia. rewrite (H0 Hz). change (inject_Z 0) with 0%Q. split; lra.
Qed.

Lemma term_fixed_m (m : Z) (u : Q) (c N d : Z) : 0 < N -> (c = 0 \/ c = N) -> (c = 0 -> d = 0) -> (c = N -> d = m) ->
  (inject_Z m * u * b2q (lsl_cnt u c N) == inject_Z d * u)%Q /\ (inject_Z m * u * b2q (usl_cnt u c N) == inject_Z d * u)%Q.
Proof.
  intros HN Hc H0 HM. unfold lsl_cnt, usl_cnt. destruct Hc as [E|E].
  - rewrite (H0 E). subst c. destruct (Z.eqb_spec 0 N); [lia|]. change (0 <? 0) with false. destruct (Qpos u); cbn [b2q]; change (inject_Z 0) with 0%Q; split; lra.
  - rewrite (HM E). subst c. rewrite Z.eqb_refl. destruct (Z.ltb_spec 0 N); [|lia]. destruct (Qpos u); cbn [b2q]; split; lra.
Qed.

Lemma dfreq_len m n p D : dos_ok m n p D -> length (afreq_f m p D) = p.
Proof. intros ([_ Hr] & _). unfold afreq_f, acount. rewrite map_length. now apply colsumsZ_length. Qed.
Lemma dfreq_nth m n p D j : dos_ok m n p D -> (j < p)%nat -> nth j (afreq_f m p D) 0%float = afreq_f1 (dcnt j D) (m * Z.of_nat n).
Proof.
  intros H Hj. pose proof (dfreq_len m n p D H) as Lf. destruct H as ([Ln Hr] & _). unfold afreq_f, acount in *. rewrite map_length in Lf.
  rewrite (nth_map' _ 0) by lia. rewrite (nth_colsumsZ p j D Hr). unfold ntaxa, dcnt. now rewrite Ln.
Qed.

Definition usl_spec_m (m : Z) (n p : nat) (u : list (list Q)) D (k : nat) : Q :=
  sumQ (map (fun j => (inject_Z m * ujk u j k * b2q (usl_cnt (ujk u j k) (dcnt j D) (m * Z.of_nat n)))%Q) (seq 0 p)).
Definition lsl_spec_m (m : Z) (n p : nat) (u : list (list Q)) D (k : nat) : Q :=
  sumQ (map (fun j => (inject_Z m * ujk u j k * b2q (lsl_cnt (ujk u j k) (dcnt j D) (m * Z.of_nat n)))%Q) (seq 0 p)).

Lemma limits_are_counts_m t m n p u D k : dos_ok m n p D -> model_ok p t u -> (k < t)%nat ->
  nth k (usl_numpy t m u (afreq_f m p D)) 0%Q = usl_spec_m m n p u D k /\ nth k (lsl_numpy t m u (afreq_f m p D)) 0%Q = lsl_spec_m m n p u D k.
Proof.
  intros H Hu Hk. unfold usl_numpy, lsl_numpy, usl_spec_m, lsl_spec_m. rewrite !(limit_numpy_nth _ t _ u _ p k Hu (dfreq_len m n p D H) Hk).
  split; apply f_equal; apply map_ext_in; intros j Hj; apply in_seq in Hj; rewrite (dfreq_nth m n p) by (assumption || lia);
    pose proof H as (_ & _ & Hn & Hm & Hb); assert (S0 : (0 < n)%nat) by exact Hn;
    destruct (dcol_facts m n p D 0 j H S0) as (B & _); [rewrite usl_ind_cnt by lia | rewrite lsl_ind_cnt by lia]; reflexivity.
Qed.

Lemma gebv_nth_m t m n p u D s k : dos_ok m n p D -> model_ok p t u -> (s < n)%nat -> (k < t)%nat ->
  nth k (nth s (gebv_numpy t u D) []) 0%Q = sumQ (map (fun j => (inject_Z (nth j (nth s D []) 0%Z) * ujk u j k)%Q) (seq 0 p)).
Proof.
  intros ([Ln Hr] & _) Hu Hs Hk. rewrite Forall_forall in Hr. unfold gebv_numpy. rewrite (nth_map' _ []) by lia.
  apply (gebv_row_nth t u _ p k Hu); [apply Hr, nth_In; lia | exact Hk].
Qed.

(** ENVELOPE at any ploidy *)
Lemma brackets_m t m n p u D s k : dos_ok m n p D -> model_ok p t u -> (s < n)%nat -> (k < t)%nat ->
  (nth k (lsl_numpy t m u (afreq_f m p D)) 0 <= nth k (nth s (gebv_numpy t u D) []) 0)%Q /\
  (nth k (nth s (gebv_numpy t u D) []) 0 <= nth k (usl_numpy t m u (afreq_f m p D)) 0)%Q.
Proof.
  intros H Hu Hs Hk. destruct (limits_are_counts_m t m n p u D k H Hu Hk) as [-> ->]. rewrite (gebv_nth_m t m n p) by assumption.
  unfold usl_spec_m, lsl_spec_m. pose proof H as (_ & _ & Hn & Hm & _).
  split; apply sumQ_map_le; intros j _; destruct (dcol_facts m n p D s j H Hs) as (B & D1 & D2 & D3);
    destruct (term_bracket_m m (ujk u j k) (dcnt j D) (m * Z.of_nat n) (nth j (nth s D []) 0) Hm ltac:(lia) B D1 D2 D3) as [T1 T2]; assumption.
Qed.

Lemma sumQ_map_eq {A} (f g : A -> Q) l : (forall x, In x l -> (f x == g x)%Q) -> (sumQ (map f l) == sumQ (map g l))%Q.
Proof.
  induction l as [|a l IH]; intros H; cbn [map sumQ fold_right]; [reflexivity|].
  fold (sumQ (map f l)) (sumQ (map g l)). rewrite (H a) by now left. rewrite IH; [reflexivity | intros x Hx; apply H; now right].
Qed.

Lemma dfixed_cnt m n p D j : dos_ok m n p D -> (forall a b, In a (col 0 j D) -> In b (col 0 j D) -> a = b) ->
  Forall (fun d => d = 0 \/ d = m) (col 0 j D) -> dcnt j D = 0 \/ dcnt j D = m * Z.of_nat n.
Proof.
  intros ([Ln _] & _ & Hn & _) Hsame H0m. unfold dcnt.
  assert (Lc : length (col 0 j D) = n) by (unfold col; now rewrite map_length). rewrite <- Lc. clear Lc Ln Hn.
  induction (col 0 j D) as [|x l IH]; [left; reflexivity|].
  assert (Hall : forall y, In y l -> y = x) by (intros y Hy; apply Hsame; [now right | now left]).
  assert (E : sumZ l = x * Z.of_nat (length l)).
  { clear IH H0m Hsame. induction l as [|y l IH]; cbn [sumZ fold_right length]; [lia|]. fold (sumZ l). rewrite Nat2Z.inj_succ.
    rewrite IH by (intros z Hz; apply Hall; now right). rewrite (Hall y) by now left. lia. }
  cbn [sumZ fold_right length]. fold (sumZ l). rewrite Nat2Z.inj_succ, E. apply Forall_inv in H0m. destruct H0m as [-> | ->]; [left|right]; lia.
Qed.

(** TIGHT at any ploidy: every locus monomorphic AND homozygous in every individual (dosage 0 or m) -> both limits are the common value *)
Lemma fixed_tight_m t m n p u D s k : dos_ok m n p D -> model_ok p t u -> dfixed p D ->
  (forall j, (j < p)%nat -> Forall (fun d => d = 0 \/ d = m) (col 0 j D)) -> (s < n)%nat -> (k < t)%nat ->
  (nth k (lsl_numpy t m u (afreq_f m p D)) 0 == nth k (nth s (gebv_numpy t u D) []) 0)%Q /\
  (nth k (usl_numpy t m u (afreq_f m p D)) 0 == nth k (nth s (gebv_numpy t u D) []) 0)%Q.
Proof.
  intros H Hu Hf Hh Hs Hk. destruct (limits_are_counts_m t m n p u D k H Hu Hk) as [-> ->]. rewrite (gebv_nth_m t m n p) by assumption.
  unfold usl_spec_m, lsl_spec_m. pose proof H as (_ & _ & Hn & Hm & _).
  split; apply sumQ_map_eq; intros j Hj; apply in_seq in Hj; destruct (dcol_facts m n p D s j H Hs) as (B & D1 & D2 & D3);
    pose proof (dfixed_cnt m n p D j H (Hf j ltac:(lia)) (Hh j ltac:(lia))) as Hc;
    destruct (term_fixed_m m (ujk u j k) (dcnt j D) (m * Z.of_nat n) (nth j (nth s D []) 0) ltac:(lia) Hc D2 D3) as [T1 T2]; assumption.
Qed.

(** * 3. the dosage of a phased 0/1 matrix with m phases lies in 0..m *)
Lemma row_add_range (a b : Z) : forall r s : list Z, Forall (fun d => 0 <= d <= a) r -> Forall (fun d => 0 <= d <= b) s ->
  Forall (fun d => 0 <= d <= a + b) (map2 Z.add r s).
Proof.
  induction r as [|v r IH]; intros [|w s] Hr Hs; cbn [map2]; try constructor.
  - apply Forall_inv in Hr. apply Forall_inv in Hs. lia.
  - apply IH; [now apply Forall_inv_tail in Hr | now apply Forall_inv_tail in Hs].
Qed.
Lemma madd_range (a b : Z) : forall x y : list (list Z),
  Forall (Forall (fun d => 0 <= d <= a)) x -> Forall (Forall (fun d => 0 <= d <= b)) y -> Forall (Forall (fun d => 0 <= d <= a + b)) (madd x y).
Proof.
  unfold madd. induction x as [|r x IH]; intros [|s y] Hx Hy; cbn [map2]; try constructor.
  - apply row_add_range; [now apply Forall_inv in Hx | now apply Forall_inv in Hy].
  - apply IH; [now apply Forall_inv_tail in Hx | now apply Forall_inv_tail in Hy].
Qed.

Lemma dosage_range n p geno : phases_ok n p geno -> alleles01 geno -> Forall (Forall (fun d => 0 <= d <= nphase geno)) (dosage n p geno).
Proof.
  unfold dosage, nphase. intros Hp Ha. induction Hp as [|P ph HP Hph IH]; cbn [tacount_ph fold_right length].
  - unfold zeros. apply Forall_forall. intros r Hr. apply repeat_spec in Hr. subst r. apply Forall_forall. intros x Hx. apply repeat_spec in Hx. cbn. lia.
  - inversion Ha as [|? ? HaP Haph]; subst. rewrite Nat2Z.inj_succ. replace (Z.succ (Z.of_nat (length ph))) with (1 + Z.of_nat (length ph)) by lia.
    apply madd_range; [| apply IH; exact Haph].
    eapply Forall_impl; [|exact HaP]. intros r Hr. eapply Forall_impl; [|exact Hr]. cbn. intros x [-> | ->]; lia.
Qed.

Lemma dosage_dos_ok n p geno : phases_ok n p geno -> alleles01 geno -> (0 < n)%nat -> 0 < nphase geno -> nphase geno * Z.of_nat n <= 2^53 ->
  dos_ok (nphase geno) n p (dosage n p geno).
Proof. intros Hp Ha Hn Hm Hb. repeat split; try assumption; [apply (tacount_ph_shape n p geno Hp) | apply (tacount_ph_shape n p geno Hp) | now apply dosage_range]. Qed.

(** the property for a phased object of any number of phases: usl / lsl of the object (ploidy read from the object) bracket the breeding
    values computed from the sum over ALL of its phases *)
Lemma pop_brackets_any t n p u geno s k : phases_ok n p geno -> alleles01 geno -> (0 < n)%nat -> 0 < nphase geno -> nphase geno * Z.of_nat n <= 2^53 ->
  model_ok p t u -> (s < n)%nat -> (k < t)%nat ->
  (nth k (lsl t n p u geno) 0 <= nth k (nth s (gebv_numpy t u (dosage n p geno)) []) 0)%Q /\
  (nth k (nth s (gebv_numpy t u (dosage n p geno)) []) 0 <= nth k (usl t n p u geno) 0)%Q.
Proof.
  intros Hp Ha Hn Hm Hb Hu Hs Hk. destruct (routes_any t n p u geno Hp) as (_ & <- & <-).
  exact (brackets_m t (nphase geno) n p u (dosage n p geno) s k (dosage_dos_ok n p geno Hp Ha Hn Hm Hb) Hu Hs Hk).
Qed.

(** a tetraploid example: 2 individuals, 3 loci, 4 phases (the phases 2 and 3 carry alleles the first two do not) *)
Definition ex4_geno : list (list (list Z)) := [[[0; 0; 1]; [0; 1; 1]]; [[0; 0; 1]; [0; 0; 1]]; [[1; 0; 1]; [1; 0; 1]]; [[1; 1; 1]; [0; 0; 1]]].
Lemma ex4_ok : phases_ok 2 3 ex4_geno /\ alleles01 ex4_geno /\ (0 < 2)%nat /\ 0 < nphase ex4_geno /\ nphase ex4_geno * Z.of_nat 2 <= 2^53 /\
  dos_ok 4 2 3 (dosage 2 3 ex4_geno) /\ dosage 2 3 ex4_geno = [[2; 1; 4]; [1; 1; 4]].
Proof.
  assert (P : phases_ok 2 3 ex4_geno) by (unfold phases_ok, shape_ok, ex4_geno; repeat (apply Forall_cons || apply Forall_nil || split); reflexivity).
  assert (A : alleles01 ex4_geno) by (unfold alleles01, ex4_geno; repeat (apply Forall_cons || apply Forall_nil); lia).
  assert (M : nphase ex4_geno = 4) by reflexivity.
  assert (B : nphase ex4_geno * Z.of_nat 2 <= 2^53) by (rewrite M; change (Z.of_nat 2) with 2; lia).
  split; [exact P|]. split; [exact A|]. split; [lia|]. split; [rewrite M; lia|]. split; [exact B|]. split; [|reflexivity].
  change 4 with (nphase ex4_geno). apply dosage_dos_ok; [exact P | exact A | lia | rewrite M; lia | exact B].
Qed.

(** ... and a tetraploid population fixed at all three loci *)
Definition ex4_fixed : list (list Z) := [[4; 0; 4]; [4; 0; 4]].
Lemma ex4_fixed_ok : dos_ok 4 2 3 ex4_fixed /\ dfixed 3 ex4_fixed /\ (forall j, (j < 3)%nat -> Forall (fun d => d = 0 \/ d = 4) (col 0 j ex4_fixed)).
Proof.
  split; [|split].
  - unfold dos_ok, shape_ok, ex4_fixed. split; [split; [reflexivity | repeat (apply Forall_cons || apply Forall_nil); reflexivity]|].
    split; [repeat (apply Forall_cons || apply Forall_nil); lia|]. split; [lia|]. split; [lia|]. change (Z.of_nat 2) with 2. lia.
  - intros j Hj a b. destruct j as [|[|[|j]]]; [| | |lia]; cbn; intros [<-|[<-|[]]] [<-|[<-|[]]]; reflexivity.
  - intros j Hj. destruct j as [|[|[|j]]]; [| | |lia]; cbn; repeat (apply Forall_cons || apply Forall_nil); lia.
Qed.
