(** C02 — the pair rate over the reals and the Haldane composition law: if the stored crossover probabilities are the
    Haldane function of the gaps, independent adjacent crossovers compose to the Haldane function of the summed distance. *)
From Coq Require Import Reals Lra Qreals.
From PV Require Import Lib.Common Model.C01_Meiosis Model.C02_Dist Model.C11_MapFn Proofs.C02_Bern.
Local Open Scope R_scope.

Lemma ER_ext_len ps : forall f g, (forall l, length l = length ps -> f l = g l) -> ER ps f = ER ps g.
Proof.
  induction ps as [|p ps IH]; intros f g H; cbn [ER].
  - apply H. reflexivity.
  - rewrite (IH (fun l => f (true :: l)) (fun l => g (true :: l))), (IH (fun l => f (false :: l)) (fun l => g (false :: l)));
      [reflexivity| |]; intros l Hl; apply H; cbn; now rewrite Hl.
Qed.
Lemma ER_const ps c : ER ps (fun _ => c) = c.
Proof. induction ps as [|p ps IH]; cbn [ER]; [reflexivity|]. rewrite !IH. ring. Qed.
Lemma ER_compl ps : forall f, ER ps (fun l => 1 - f l) = 1 - ER ps f.
Proof. induction ps as [|p ps IH]; intros f; cbn [ER]; [reflexivity|]. rewrite !IH. ring. Qed.

(** the rational and the real expectation agree *)
Lemma ER_of_Q ps : forall f, ER (map Q2R ps) (fun l => Q2R (f l)) = Q2R (E ps f).
Proof.
  induction ps as [|p ps IH]; intros f; cbn [map ER E]; [reflexivity|].
  rewrite !IH, Q2R_plus, !Q2R_mult, Q2R_minus. replace (Q2R 1) with 1 by (unfold Q2R; cbn; lra). reflexivity.
Qed.

Lemma indR_negb b : indR (negb b) = 1 - indR b.
Proof. destruct b; cbn; ring. Qed.

Theorem one_rate_R : forall j ps, (j < length ps)%nat ->
  ER ps (fun xo => indR (src_at j xo)) = (1 - prod12R (firstn (S j) ps)) / 2.
Proof.
  induction j as [|j IH]; intros [|p ps] H; cbn in H; try lia.
  - cbn [ER]. rewrite (ER_ext_len ps _ (fun _ => 1)) by (intros l _; now rewrite src_at_0).
    rewrite (ER_ext_len ps (fun l => indR (src_at 0 (false :: l))) (fun _ => 0)) by (intros l _; now rewrite src_at_0).
    rewrite !ER_const. cbn. destruct ps; cbn; field.
  - cbn [ER].
    rewrite (ER_ext_len ps _ (fun l => 1 - indR (src_at j l))) by (intros l Hl; rewrite src_at_S by lia; cbn [xorb]; apply indR_negb).
    rewrite (ER_ext_len ps (fun l => indR (src_at (S j) (false :: l))) (fun l => indR (src_at j l)))
      by (intros l Hl; rewrite src_at_S by lia; now rewrite xorb_false_l).
    rewrite ER_compl, IH by lia. change (firstn (S (S j)) (p :: ps)) with (p :: firstn (S j) ps).
    unfold prod12R. cbn [fold_right]. field.
Qed.

Theorem pair_rate_R : forall i j ps, (i < j)%nat -> (j < length ps)%nat ->
  ER ps (fun xo => indR (recomb i j xo)) = (1 - prod12R (between i j ps)) / 2.
Proof.
  induction i as [|i IH]; intros j [|p ps] Hij H; cbn in H; try lia; destruct j as [|j]; try lia; cbn [ER].
  - assert (A : forall x, ER ps (fun l => indR (recomb 0 (S j) (x :: l))) = ER ps (fun l => indR (src_at j l))).
    { intros x. apply ER_ext_len. intros l Hl. unfold recomb. rewrite src_at_0, src_at_S by lia.
      now destruct x, (src_at j l). }
    rewrite !A, one_rate_R by lia. unfold between. cbn [skipn]. replace (S j - 0)%nat with (S j) by lia. field.
  - assert (A : forall x, ER ps (fun l => indR (recomb (S i) (S j) (x :: l))) = ER ps (fun l => indR (recomb i j l))).
    { intros x. apply ER_ext_len. intros l Hl. unfold recomb. rewrite !src_at_S by lia.
      now destruct x, (src_at i l), (src_at j l). }
    rewrite !A, IH by lia. unfold between. cbn [skipn]. replace (S j - S i)%nat with (j - i)%nat by lia. field.
Qed.

(** ** Haldane *)
Lemma haldane_factor d : 1 - 2 * haldane d = exp (- 2 * d).
Proof. unfold haldane. field. Qed.

Lemma prod12R_haldane ds : prod12R (map haldane ds) = exp (- 2 * sumR ds).
Proof.
  induction ds as [|d ds IH]; unfold prod12R, sumR in *; cbn [map fold_right].
  - replace (- 2 * 0) with 0 by ring. now rewrite exp_0.
  - rewrite IH, haldane_factor, <- exp_plus. f_equal. ring.
Qed.

Lemma between_map {A B} (f : A -> B) i j l : between i j (map f l) = map f (between i j l).
Proof.
  unfold between. generalize (j - i)%nat as n. generalize (S i) as k. intros k n. revert l n.
  induction k as [|k IH]; intros l n.
  - cbn [skipn]. revert l. induction n as [|n IHn]; intros [|a l]; cbn; try reflexivity. now rewrite IHn.
  - destruct l as [|a l]; cbn [map skipn]; [now destruct n|]. apply IH.
Qed.

(** HALDANE COMPOSITION: crossover probabilities that are the Haldane function of the (arbitrary real) gaps d_k give, for
    markers i < j, the Haldane function of the genetic distance sum_{i<k<=j} d_k between them *)
Theorem haldane_compose ds i j : (i < j)%nat -> (j < length ds)%nat ->
  ER (map haldane ds) (fun xo => indR (recomb i j xo)) = haldane (sumR (between i j ds)).
Proof.
  intros Hij H. rewrite pair_rate_R by (exact Hij || now rewrite map_length).
  rewrite between_map, prod12R_haldane. reflexivity.
Qed.

(** the real value of the rational pair rate (link between the two developments) *)
Theorem pair_rate_Q2R ps i j : (i < j)%nat -> (j < length ps)%nat ->
  Q2R (Pr ps (recomb i j)) = (1 - prod12R (between i j (map Q2R ps))) / 2.
Proof.
  intros Hij H. unfold Pr. rewrite <- ER_of_Q.
  rewrite (ER_ext_len (map Q2R ps) _ (fun xo => indR (recomb i j xo))).
  - apply pair_rate_R; [exact Hij|now rewrite map_length].
  - intros l _. destruct (recomb i j l); unfold ind, indR, Q2R; cbn; lra.
Qed.
