(** C11 — the kernel expressions and call shapes regenerated from the source (Gen/C11_Kernel.v) are the ones the hand model uses.
    Wherever the two terms are convertible the lemma is closed by [reflexivity]: if an expression of the source changes
    ([<] for [<=] in congruence(), swapped operands of the sequential difference, another default sort key order,
    [assume_sorted = True], the KeyError branch writing something else than NaN, exchanged slice bounds, a query sliced before
    interpolation, ...) the regenerated definition no longer unfolds to the model's and this file — hence Props/C11.vo — stops
    compiling.  The real-valued map functions are linked by [field]/[ring] identities (an altered constant breaks them). *)
From Coq Require Import Reals QArith Lra PrimFloat.
From PV Require Import Lib.Common Lib.FloatK Model.C11_Map Model.C11_MapFn Model.C11_Check Proofs.C11_Map Proofs.C11_MapFn Proofs.C11_Xo
  Gen.C11_Kernel.
Local Open Scope Z_scope.

(** * map functions (bodies of mapfn / invmapfn of both classes) *)
Lemma k_haldane_model d : k_haldane d = haldane d.
Proof. unfold k_haldane, haldane. replace (IZR (-2) * d)%R with (- 2 * d)%R by ring. field. Qed.
Lemma k_haldane_inv_model r : k_haldane_inv r = haldane_inv r.
Proof. unfold k_haldane_inv, haldane_inv. field. Qed.
Lemma k_kosambi_model d : k_kosambi d = kosambi d.
Proof. unfold k_kosambi, kosambi. field. Qed.
Lemma k_kosambi_inv_model r : k_kosambi_inv r = kosambi_inv r.
Proof. unfold k_kosambi_inv, kosambi_inv, np_arctanh. field. Qed.

Definition k_mapfn (k : mapkind) : R -> R := match k with Haldane => k_haldane | Kosambi => k_kosambi end.
Definition k_invmapfn (k : mapkind) : R -> R := match k with Haldane => k_haldane_inv | Kosambi => k_kosambi_inv end.
Lemma k_mapfn_model k d : k_mapfn k d = mapfn k d.
Proof. destruct k; [apply k_haldane_model | apply k_kosambi_model]. Qed.
Lemma k_invmapfn_model k r : k_invmapfn k r = invmapfn k r.
Proof. destruct k; [apply k_haldane_inv_model | apply k_kosambi_inv_model]. Qed.

(** the defining laws, about the generated bodies themselves *)
Lemma kernel_mapfn_laws : forall k : mapkind,
  (k_mapfn k 0 = 0 /\
  (forall d, 0 <= d -> 0 <= k_mapfn k d < 1 / 2) /\
  (forall d1 d2, d1 < d2 -> k_mapfn k d1 < k_mapfn k d2) /\
  (forall eps, 0 < eps -> exists D, 0 <= D /\ forall d, D <= d -> 1 / 2 - eps < k_mapfn k d < 1 / 2) /\
  (forall d, k_invmapfn k (k_mapfn k d) = d) /\
  (forall r, 0 <= r < 1 / 2 -> k_mapfn k (k_invmapfn k r) = r /\ 0 <= k_invmapfn k r))%R.
Proof.
  intros k. destruct (mapfn_laws k) as (L0 & L1 & L2 & L3 & L4 & L5).
  repeat split; intros; rewrite ?k_mapfn_model, ?k_invmapfn_model, ?k_mapfn_model.
  - exact L0.
  - apply L1; assumption.
  - apply L1; assumption.
  - apply L2; assumption.
  - destruct (L3 eps H) as (D & HD & HL). exists D. split; [exact HD|]. intros d Hd. rewrite k_mapfn_model. apply HL; exact Hd.
  - apply L4.
  - apply L5; assumption.
  - apply L5; assumption.
Qed.

(** * centiMorgan conversion (util.cM2d and the vrnt_genpos setters) *)
Lemma k_cM2d_model x : k_cM2d x = cM2d_f x.                                       Proof. reflexivity. Qed.
Lemma k_std_genpos_cM_model x : k_std_genpos_cM x = stored_gen_f true x.          Proof. reflexivity. Qed.
Lemma k_ext_genpos_cM_model x : k_ext_genpos_cM x = stored_gen_f true x.          Proof. reflexivity. Qed.

(** * constructor: sort key and group metadata *)
Lemma k_std_key_leb_model a b : key_leb a b = k_std_key_leb (r_chr a) (r_phy a) (r_gen a) (r_chr b) (r_phy b) (r_gen b).
Proof. reflexivity. Qed.
Lemma k_ext_key_leb_model a b : key_leb a b = k_ext_key_leb (r_chr a) (r_phy a) (r_gen a) (r_chr b) (r_phy b) (r_gen b).
Proof. reflexivity. Qed.

Lemma k_map2_model {A B C} (f : A -> B -> C) l1 l2 : k_map2 f l1 l2 = map2 f l1 l2.
Proof. reflexivity. Qed.
(** numpy.unique(sorted labels, return_index, return_counts) = (run labels, run starts, run lengths) *)
Lemma k_std_group_meta_model chrs :
  group_meta chrs = k_std_group_meta (map fst (runs chrs)) (starts 0 (map snd (runs chrs))) (map snd (runs chrs)).
Proof. reflexivity. Qed.
Lemma k_ext_group_meta_model chrs :
  group_meta chrs = k_ext_group_meta (map fst (runs chrs)) (starts 0 (map snd (runs chrs))) (map snd (runs chrs)).
Proof. reflexivity. Qed.

(** * congruence() *)
Lemma k_std_congr_model prev r t :
  congruence_from prev (r :: t) =
  (match prev with
   | Some p => if r_chr p =? r_chr r then k_std_congr (r_gen p) (r_gen r) else k_std_congr_first
   | None => k_std_congr_first
   end) :: congruence_from (Some r) t.
Proof. reflexivity. Qed.
Lemma k_ext_congr_model prev r t :
  congruence_from prev (r :: t) =
  (match prev with
   | Some p => if r_chr p =? r_chr r then k_ext_congr (r_gen p) (r_gen r) else k_ext_congr_first
   | None => k_ext_congr_first
   end) :: congruence_from (Some r) t.
Proof. reflexivity. Qed.

(** * build_spline() *)
Lemma k_std_knots_model rows c :
  knots rows c = map (fun r => k_std_spline_knot (r_phy r) (r_gen r)) (filter (fun r => k_std_spline_mask (r_chr r) c) rows).
Proof. reflexivity. Qed.
Lemma k_ext_knots_model rows c :
  knots rows c = map (fun r => k_ext_spline_knot (r_phy r) (r_gen r)) (filter (fun r => k_ext_spline_mask (r_chr r) c) rows).
Proof. reflexivity. Qed.
(** interp1d(assume_sorted = False) sorts the knots by x *)
Lemma k_std_spline_knots_model rows c :
  spline_knots rows c = if k_std_spline_assume_sorted then knots rows c else sort_knots (knots rows c).
Proof. reflexivity. Qed.
Lemma k_ext_spline_knots_model rows c :
  spline_knots rows c = if k_ext_spline_assume_sorted then knots rows c else sort_knots (knots rows c).
Proof. reflexivity. Qed.

(** * interp_genpos(): the spline dictionary has one entry per chromosome of the map; a missing key gives NaN *)
Definition spline_dict (rows : list row) (c : Z) : option (Z -> ext) :=
  if has_chr rows c then Some (fun x => Fin (interp1 (spline_knots rows c) x)) else None.
Lemma k_std_interp_pos_model rows c x : interp_pos rows (c, x) = k_std_interp_pos ext (spline_dict rows) NaN PInf c x.
Proof. unfold interp_pos, k_std_interp_pos, spline_dict. destruct (has_chr rows c); reflexivity. Qed.
Lemma k_ext_interp_pos_model rows c x : interp_pos rows (c, x) = k_ext_interp_pos ext (spline_dict rows) NaN PInf c x.
Proof. unfold interp_pos, k_ext_interp_pos, spline_dict. destruct (has_chr rows c); reflexivity. Qed.

(** * gdist1g(): first difference current - previous inside a run, +inf at a run start (exact and binary64) *)
Lemma k_std_gdist1_q_model pc pg c g ct gt :
  gdist1g_from (Some (pc, Fin pg)) (c :: ct) (Fin g :: gt) =
  (if pc =? c then Fin (k_std_gdist1_q g pg) else k_std_gdist1_start ext PInf NaN) :: gdist1g_from (Some (c, Fin g)) ct gt.
Proof. reflexivity. Qed.
Lemma k_ext_gdist1_q_model pc pg c g ct gt :
  gdist1g_from (Some (pc, Fin pg)) (c :: ct) (Fin g :: gt) =
  (if pc =? c then Fin (k_ext_gdist1_q g pg) else k_ext_gdist1_start ext PInf NaN) :: gdist1g_from (Some (c, Fin g)) ct gt.
Proof. reflexivity. Qed.
Lemma k_std_gdist1_first_model c g ct gt :
  gdist1g_from None (c :: ct) (g :: gt) = k_std_gdist1_start ext PInf NaN :: gdist1g_from (Some (c, g)) ct gt.
Proof. reflexivity. Qed.
Lemma k_ext_gdist1_first_model c g ct gt :
  gdist1g_from None (c :: ct) (g :: gt) = k_ext_gdist1_start ext PInf NaN :: gdist1g_from (Some (c, g)) ct gt.
Proof. reflexivity. Qed.
Lemma k_std_gdist1_f_model pc pg c g ct gt :
  gdist1g_from_f (Some (pc, pg)) (c :: ct) (g :: gt) =
  (if pc =? c then k_std_gdist1_f g pg else k_std_gdist1_start float PrimFloat.infinity PrimFloat.nan) :: gdist1g_from_f (Some (c, g)) ct gt.
Proof. reflexivity. Qed.
Lemma k_ext_gdist1_f_model pc pg c g ct gt :
  gdist1g_from_f (Some (pc, pg)) (c :: ct) (g :: gt) =
  (if pc =? c then k_ext_gdist1_f g pg else k_ext_gdist1_start float PrimFloat.infinity PrimFloat.nan) :: gdist1g_from_f (Some (c, g)) ct gt.
Proof. reflexivity. Qed.

(** * gdist2g(): |gi - gj|, +inf where the chromosome labels differ; rows are [rst:rsp], columns [cst:csp] *)
Lemma np_abs_q_model x : np_abs_q x = Qabs' x.                                     Proof. reflexivity. Qed.
Lemma k_std_gdist2_model ci gi cj gj :
  gdist2 ci (Fin gi) cj (Fin gj) = if k_std_gdist2_across ci cj then PInf else Fin (k_std_gdist2_q gi gj).
Proof. unfold gdist2, k_std_gdist2_across. destruct (ci =? cj); reflexivity. Qed.
Lemma k_ext_gdist2_model ci gi cj gj :
  gdist2 ci (Fin gi) cj (Fin gj) = if k_ext_gdist2_across ci cj then PInf else Fin (k_ext_gdist2_q gi gj).
Proof. unfold gdist2, k_ext_gdist2_across. destruct (ci =? cj); reflexivity. Qed.
Definition gdist2g_sliced (rc : (option Z * option Z) * (option Z * option Z)) (chrs : list Z) (gens : list ext) : list (list ext) :=
  let '((rst, rsp), (cst, csp)) := rc in
  let rows := combine (pyslice rst rsp chrs) (pyslice rst rsp gens) in
  let cols := combine (pyslice cst csp chrs) (pyslice cst csp gens) in
  map (fun r => map (fun c => gdist2 (fst r) (snd r) (fst c) (snd c)) cols) rows.
Lemma k_std_gdist2g_slices_model chrs gens rst rsp cst csp :
  gdist2g chrs gens rst rsp cst csp = gdist2g_sliced (k_std_gdist2_rows rst rsp cst csp, k_std_gdist2_cols rst rsp cst csp) chrs gens.
Proof. reflexivity. Qed.
Lemma k_ext_gdist2g_slices_model chrs gens rst rsp cst csp :
  gdist2g chrs gens rst rsp cst csp = gdist2g_sliced (k_ext_gdist2_rows rst rsp cst csp, k_ext_gdist2_cols rst rsp cst csp) chrs gens.
Proof. reflexivity. Qed.
Definition gdist2g_f_sliced (f : float -> float -> float) (across : Z -> Z -> bool) (rc : (option Z * option Z) * (option Z * option Z))
    (chrs : list Z) (gens : list float) : list (list float) :=
  let '((rst, rsp), (cst, csp)) := rc in
  let rows := combine (pyslice rst rsp chrs) (pyslice rst rsp gens) in
  let cols := combine (pyslice cst csp chrs) (pyslice cst csp gens) in
  map (fun r => map (fun c => if across (fst r) (fst c) then PrimFloat.infinity else f (snd r) (snd c)) cols) rows.
Lemma if_negb {A} (b : bool) (x y : A) : (if negb b then x else y) = if b then y else x.
Proof. destruct b; reflexivity. Qed.
Lemma k_std_gdist2g_f_model chrs gens rst rsp cst csp :
  gdist2g_f chrs gens rst rsp cst csp =
  gdist2g_f_sliced k_std_gdist2_f k_std_gdist2_across (k_std_gdist2_rows rst rsp cst csp, k_std_gdist2_cols rst rsp cst csp) chrs gens.
Proof.
  unfold gdist2g_f, gdist2g_f_sliced, k_std_gdist2_rows, k_std_gdist2_cols, k_std_gdist2_across.
  apply map_ext; intros r. apply map_ext; intros c. now rewrite if_negb.
Qed.
Lemma k_ext_gdist2g_f_model chrs gens rst rsp cst csp :
  gdist2g_f chrs gens rst rsp cst csp =
  gdist2g_f_sliced k_ext_gdist2_f k_ext_gdist2_across (k_ext_gdist2_rows rst rsp cst csp, k_ext_gdist2_cols rst rsp cst csp) chrs gens.
Proof.
  unfold gdist2g_f, gdist2g_f_sliced, k_ext_gdist2_rows, k_ext_gdist2_cols, k_ext_gdist2_across.
  apply map_ext; intros r. apply map_ext; intros c. now rewrite if_negb.
Qed.

(** * gdist1p / gdist2p: ALL query markers are interpolated, then the genetic-position method receives the label array, the
      interpolated positions and the slice bounds in the order given (the code has two parallel arrays where the model has a
      list of (chromosome, position) pairs) *)
Lemma combine_fst_snd {A B} (l : list (A * B)) : combine (map fst l) (map snd l) = l.
Proof. induction l as [|[a b] t IH]; simpl; [reflexivity | now rewrite IH]. Qed.
Definition interp_arrays (rows : list row) (chrgrp phypos : list Z) : list ext := interp_genpos rows (combine chrgrp phypos).
Lemma k_std_gdist1p_model rows query ast asp :
  gdist1p rows query ast asp = k_std_gdist1p _ _ _ _ (interp_arrays rows) gdist1g (map fst query) (map snd query) ast asp.
Proof. unfold k_std_gdist1p, interp_arrays, gdist1p. now rewrite combine_fst_snd. Qed.
Lemma k_ext_gdist1p_model rows query ast asp :
  gdist1p rows query ast asp = k_ext_gdist1p _ _ _ _ (interp_arrays rows) gdist1g (map fst query) (map snd query) ast asp.
Proof. unfold k_ext_gdist1p, interp_arrays, gdist1p. now rewrite combine_fst_snd. Qed.
Lemma k_std_gdist2p_model rows query rst rsp cst csp :
  gdist2p rows query rst rsp cst csp = k_std_gdist2p _ _ _ _ (interp_arrays rows) gdist2g (map fst query) (map snd query) rst rsp cst csp.
Proof. unfold k_std_gdist2p, interp_arrays, gdist2p. now rewrite combine_fst_snd. Qed.
Lemma k_ext_gdist2p_model rows query rst rsp cst csp :
  gdist2p rows query rst rsp cst csp = k_ext_gdist2p _ _ _ _ (interp_arrays rows) gdist2g (map fst query) (map snd query) rst rsp cst csp.
Proof. unfold k_ext_gdist2p, interp_arrays, gdist2p. now rewrite combine_fst_snd. Qed.

(** * crossover probabilities: interp_xoprob = (interpolated positions, rprob1g of them), rprob1g = mapfn of gdist1g *)
Section Xo.
  Variable k : mapkind.
  Variable rows : list row.
  (** the four distance methods of the map, as functions of the two arrays handed over *)
  Let g1g (c : list Z) (g : list ext) : list ext := gdist1g c g None None.
  Let g2g (c : list Z) (g : list ext) : list ext := concat (gdist2g c g None None None None).
  (** the methods taking physical positions are not reachable from interp_xoprob; typed placeholders for the unused slots *)
  Let unused (c : list Z) (g : list ext) : list ext := [].
  Definition rprob1g_of (kind : mapkind) : list Z -> list ext -> list xreal :=
    match kind with
    | Haldane => k_haldane_rprob1g _ _ _ _ (map (mapfn_ext Haldane)) g1g g2g unused unused
    | Kosambi => k_kosambi_rprob1g _ _ _ _ (map (mapfn_ext Kosambi)) g1g g2g unused unused
    end.
  Lemma k_interp_xoprob_model variants :
    let sv := sort_pairs variants in
    k_gmat_interp_xoprob _ _ _ _ (interp_arrays rows) (rprob1g_of k) (map fst sv) (map snd sv)
    = (gmat_genpos rows variants, xoprob k rows variants).
  Proof.
    intros sv. unfold k_gmat_interp_xoprob, interp_arrays, gmat_genpos, xoprob, gmat_gaps, rprob1g_of. fold sv.
    rewrite combine_fst_snd. destruct k; reflexivity.
  Qed.
End Xo.

(** the other three recombination-probability methods: the map function of the distance method of the same name *)
Lemma k_rprob_shapes : forall (C X Dst Pr : Type) (mf : Dst -> Pr) (d1g d2g d1p d2p : C -> X -> Dst) c x,
  (k_haldane_rprob1g C X Dst Pr mf d1g d2g d1p d2p c x = mf (d1g c x) /\ k_haldane_rprob2g C X Dst Pr mf d1g d2g d1p d2p c x = mf (d2g c x) /\
   k_haldane_rprob1p C X Dst Pr mf d1g d2g d1p d2p c x = mf (d1p c x) /\ k_haldane_rprob2p C X Dst Pr mf d1g d2g d1p d2p c x = mf (d2p c x)) /\
  (k_kosambi_rprob1g C X Dst Pr mf d1g d2g d1p d2p c x = mf (d1g c x) /\ k_kosambi_rprob2g C X Dst Pr mf d1g d2g d1p d2p c x = mf (d2g c x) /\
   k_kosambi_rprob1p C X Dst Pr mf d1g d2g d1p d2p c x = mf (d1p c x) /\ k_kosambi_rprob2p C X Dst Pr mf d1g d2g d1p d2p c x = mf (d2p c x)).
Proof. intros. repeat split; reflexivity. Qed.

(** * the generated kernels are the model: one statement for Props/C11.v *)
Lemma kernel_is_model :
  (forall a b, key_leb a b = k_std_key_leb (r_chr a) (r_phy a) (r_gen a) (r_chr b) (r_phy b) (r_gen b)
            /\ key_leb a b = k_ext_key_leb (r_chr a) (r_phy a) (r_gen a) (r_chr b) (r_phy b) (r_gen b)) /\
  (forall chrs, let u := (map fst (runs chrs), starts 0 (map snd (runs chrs)), map snd (runs chrs)) in
     group_meta chrs = k_std_group_meta (fst (fst u)) (snd (fst u)) (snd u) /\ group_meta chrs = k_ext_group_meta (fst (fst u)) (snd (fst u)) (snd u)) /\
  (forall p r t, congruence_from (Some p) (r :: t) = (if r_chr p =? r_chr r then k_std_congr (r_gen p) (r_gen r) else k_std_congr_first) :: congruence_from (Some r) t
              /\ congruence_from (Some p) (r :: t) = (if r_chr p =? r_chr r then k_ext_congr (r_gen p) (r_gen r) else k_ext_congr_first) :: congruence_from (Some r) t) /\
  (forall rows c, spline_knots rows c = (if k_std_spline_assume_sorted then (fun l => l) else sort_knots)
                                          (map (fun r => k_std_spline_knot (r_phy r) (r_gen r)) (filter (fun r => k_std_spline_mask (r_chr r) c) rows))
               /\ spline_knots rows c = (if k_ext_spline_assume_sorted then (fun l => l) else sort_knots)
                                          (map (fun r => k_ext_spline_knot (r_phy r) (r_gen r)) (filter (fun r => k_ext_spline_mask (r_chr r) c) rows))) /\
  (forall rows c x, interp_pos rows (c, x) = k_std_interp_pos ext (spline_dict rows) NaN PInf c x
                 /\ interp_pos rows (c, x) = k_ext_interp_pos ext (spline_dict rows) NaN PInf c x) /\
  (forall pc pg c g ct gt,
     gdist1g_from (Some (pc, Fin pg)) (c :: ct) (Fin g :: gt)
       = (if pc =? c then Fin (k_std_gdist1_q g pg) else k_std_gdist1_start ext PInf NaN) :: gdist1g_from (Some (c, Fin g)) ct gt
  /\ gdist1g_from (Some (pc, Fin pg)) (c :: ct) (Fin g :: gt)
       = (if pc =? c then Fin (k_ext_gdist1_q g pg) else k_ext_gdist1_start ext PInf NaN) :: gdist1g_from (Some (c, Fin g)) ct gt) /\
  (forall ci gi cj gj, gdist2 ci (Fin gi) cj (Fin gj) = (if k_std_gdist2_across ci cj then PInf else Fin (k_std_gdist2_q gi gj))
                    /\ gdist2 ci (Fin gi) cj (Fin gj) = (if k_ext_gdist2_across ci cj then PInf else Fin (k_ext_gdist2_q gi gj))) /\
  (forall chrs gens rst rsp cst csp,
     gdist2g chrs gens rst rsp cst csp = gdist2g_sliced (k_std_gdist2_rows rst rsp cst csp, k_std_gdist2_cols rst rsp cst csp) chrs gens
  /\ gdist2g chrs gens rst rsp cst csp = gdist2g_sliced (k_ext_gdist2_rows rst rsp cst csp, k_ext_gdist2_cols rst rsp cst csp) chrs gens) /\
  (forall rows query ast asp,
     gdist1p rows query ast asp = k_std_gdist1p _ _ _ _ (interp_arrays rows) gdist1g (map fst query) (map snd query) ast asp
  /\ gdist1p rows query ast asp = k_ext_gdist1p _ _ _ _ (interp_arrays rows) gdist1g (map fst query) (map snd query) ast asp) /\
  (forall rows query rst rsp cst csp,
     gdist2p rows query rst rsp cst csp = k_std_gdist2p _ _ _ _ (interp_arrays rows) gdist2g (map fst query) (map snd query) rst rsp cst csp
  /\ gdist2p rows query rst rsp cst csp = k_ext_gdist2p _ _ _ _ (interp_arrays rows) gdist2g (map fst query) (map snd query) rst rsp cst csp) /\
  (forall k rows variants, let sv := sort_pairs variants in
     k_gmat_interp_xoprob _ _ _ _ (interp_arrays rows) (rprob1g_of k) (map fst sv) (map snd sv) = (gmat_genpos rows variants, xoprob k rows variants)) /\
  (forall x, k_cM2d x = cM2d_f x /\ k_std_genpos_cM x = stored_gen_f true x /\ k_ext_genpos_cM x = stored_gen_f true x).
Proof.
  repeat split; intros;
    first [ reflexivity
          | apply k_std_interp_pos_model | apply k_ext_interp_pos_model
          | apply k_std_gdist2_model | apply k_ext_gdist2_model
          | apply k_std_gdist1p_model | apply k_ext_gdist1p_model
          | apply k_std_gdist2p_model | apply k_ext_gdist2p_model
          | apply k_interp_xoprob_model ].
Qed.

(** * laws restated about the generated kernels *)
(** congruence flag of a marker = generated comparison of its predecessor's and its own position; hence on a map flagged
    congruent, consecutive markers of one chromosome are ordered by the generated [<=] *)
Lemma kernel_congruent_pairs : forall l p r, is_congruent (p :: r :: l) = true -> r_chr p = r_chr r ->
  k_std_congr (r_gen p) (r_gen r) = true /\ k_ext_congr (r_gen p) (r_gen r) = true.
Proof.
  intros l p r H E. unfold is_congruent, congruence in H. simpl in H.
  rewrite E, Z.eqb_refl in H. apply andb_prop in H. destruct H as [H _]. split; exact H.
Qed.

(** pairwise distance through the generated kernels: symmetric, zero on the diagonal, infinite across chromosomes *)
Lemma kernel_gdist2_laws : forall ci gi cj gj,
  let d a x b y := if k_std_gdist2_across a b then PInf else Fin (k_std_gdist2_q x y) in
  ext_equiv (d ci gi cj gj) (d cj gj ci gi) /\ ext_equiv (d ci gi ci gi) (Fin 0) /\ (ci <> cj -> d ci gi cj gj = PInf).
Proof.
  intros ci gi cj gj d. unfold d. rewrite <- !k_std_gdist2_model. repeat split.
  - apply gdist2_sym; discriminate.
  - apply gdist2_diag.
  - apply gdist2_across.
Qed.

(** sequential distance through the generated kernel equals the pairwise generated kernel when the positions are ordered *)
Lemma kernel_gdist1_is_gdist2 : forall g pg, (pg <= g)%Q -> (k_std_gdist1_q g pg == k_std_gdist2_q pg g)%Q /\ (k_ext_gdist1_q g pg == k_ext_gdist2_q pg g)%Q.
Proof.
  intros g pg H. unfold k_std_gdist1_q, k_std_gdist2_q, k_ext_gdist1_q, k_ext_gdist2_q. rewrite np_abs_q_model.
  split; symmetry; apply Qabs'_le; exact H.
Qed.
