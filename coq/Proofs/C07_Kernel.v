(** C07 — the programs assembled from the kernel expressions regenerated from the source (Model/C07_KernelProg.v over
    Gen/C07_Kernel.v) ARE the hand model (Model/C07_Config.v).  Every lemma [*_model] below is closed by unfolding the generated
    definitions and arithmetic-free rewriting ([Nat2Z.id], [Z.ltb_antisym], [Nat2Z.inj_div]): if an expression of the source
    changes (replace = <condition>, size = (nparent, ncross), another axis, `(start + noption*j) // noption`, argmin,
    soln_decn[0] in the multi-objective branch, check_is_gteq, a swapped ncross/nparent handed to the configuration,
    l[-1] instead of l[-1]+1, ix[1:ndecn]) the regenerated definition no longer unfolds to the model's and this file — hence
    Props/C07.vo — stops compiling.  The second half restates the property theorems about the assembled programs. *)
From Coq Require Import Permutation Sorting.Sorted Qround PrimFloat.
From PV Require Import Lib.Common Lib.FloatK Model.C17_Sampling Proofs.C17_Sampling Model.C07_Config
  Proofs.C07_LocalOpt Proofs.C07_Tail Proofs.C07_Xmap Proofs.C07_Sort Proofs.C07_Tiled Proofs.C07_RealMateMo Proofs.C07_Integer Proofs.C07_MateExt
  Gen.C07_Kernel Model.C07_KernelProg.
Local Open Scope nat_scope.

(** * 1. the checks *)
Lemma k_gt0 v : negb (k_check_is_gt_raises v 0) = (0 <? v)%Z.
Proof. unfold k_check_is_gt_raises. now rewrite Z.ltb_antisym. Qed.
Lemma k_all_gt0 v : negb (k_check_all_gt_raises v 0) = (0 <? v)%Z.
Proof. unfold k_check_all_gt_raises. now rewrite Z.ltb_antisym. Qed.
Lemma k_len_eq a nc : negb (k_check_len_eq_raises (Z.of_nat a) (zn nc)) = Nat.eqb a nc.
Proof.
  unfold k_check_len_eq_raises, zn. rewrite negb_involutive.
  destruct (Nat.eqb_spec a nc) as [->|N]; [apply Z.eqb_refl|]. apply Z.eqb_neq. lia.
Qed.
Lemma zn_pos n : (0 <? zn n)%Z = negb (Nat.eqb n 0).
Proof. destruct n; reflexivity. Qed.

Lemma kcfg_shape_ok_model nc np : kcfg_shape_ok nc np = shape_ok nc np.
Proof. unfold kcfg_shape_ok, k_cfg_ncross_ok, k_cfg_nparent_ok, shape_ok. now rewrite !andb_true_r, !k_gt0, !zn_pos. Qed.
Lemma kproto_shape_ok_model nc np : kproto_shape_ok nc np = shape_ok nc np.
Proof. unfold kproto_shape_ok, k_proto_ncross_ok, k_proto_nparent_ok, shape_ok. now rewrite !andb_true_r, !k_gt0, !zn_pos. Qed.

Lemma forallb_ext' {A} (f g : A -> bool) l : (forall x, f x = g x) -> forallb f l = forallb g l.
Proof. intros E. induction l as [|x t IH]; cbn; [reflexivity|]. now rewrite E, IH. Qed.
Lemma forallb_repeat {A} (f : A -> bool) v n : forallb f (repeat v n) = (Nat.eqb n 0 || f v).
Proof. induction n as [|n IH]; cbn; [reflexivity|]. rewrite IH. destruct (f v), (Nat.eqb n 0); reflexivity. Qed.

Definition pos_array (nc : nat) (a : list Z) : bool := Nat.eqb (length a) nc && forallb (fun v => (0 <? v)%Z) a.
Lemma k_proto_nmating_array_model nc a : k_proto_nmating_array_ok (zn nc) a = pos_array nc a.
Proof. unfold k_proto_nmating_array_ok, pos_array. rewrite k_len_eq, andb_true_r. f_equal. apply forallb_ext'. exact k_all_gt0. Qed.
Lemma k_proto_nprogeny_array_model nc a : k_proto_nprogeny_array_ok (zn nc) a = pos_array nc a.
Proof. unfold k_proto_nprogeny_array_ok, pos_array. rewrite k_len_eq, andb_true_r. f_equal. apply forallb_ext'. exact k_all_gt0. Qed.
Lemma k_cfg_nmating_array_model nc a : k_cfg_nmating_array_ok (zn nc) a = pos_array nc a.
Proof. unfold k_cfg_nmating_array_ok, pos_array. rewrite k_len_eq, andb_true_r. f_equal. apply forallb_ext'. exact k_all_gt0. Qed.
Lemma k_cfg_nprogeny_array_model nc a : k_cfg_nprogeny_array_ok (zn nc) a = pos_array nc a.
Proof. unfold k_cfg_nprogeny_array_ok, pos_array. rewrite k_len_eq, andb_true_r. f_equal. apply forallb_ext'. exact k_all_gt0. Qed.
Lemma k_scalar_model : (forall v, k_proto_nmating_scalar_ok v = (0 <? v)%Z) /\ (forall v, k_proto_nprogeny_scalar_ok v = (0 <? v)%Z) /\
  (forall v, k_cfg_nmating_scalar_ok v = (0 <? v)%Z) /\ (forall v, k_cfg_nprogeny_scalar_ok v = (0 <? v)%Z).
Proof.
  repeat split; intros v; unfold k_proto_nmating_scalar_ok, k_proto_nprogeny_scalar_ok, k_cfg_nmating_scalar_ok, k_cfg_nprogeny_scalar_ok;
    now rewrite andb_true_r, k_gt0.
Qed.

Lemma kmatpar_model scalar array nc m :
  (forall v, scalar v = (0 <? v)%Z) -> (forall a, array (zn nc) a = pos_array nc a) ->
  kmatpar_ok scalar array nc m = matpar_proto_ok nc m.
Proof.
  intros Hs Ha. destruct m as [v|a]; cbn [kmatpar_ok matpar_proto_ok]; [|exact (Ha a)].
  rewrite Hs, Ha. unfold pos_array. rewrite repeat_length, Nat.eqb_refl, forallb_repeat.
  destruct (0 <? v)%Z; cbn; [now rewrite orb_true_r | reflexivity].
Qed.
Lemma matpar_cfg_proto nc m : matpar_cfg_ok nc m = matpar_proto_ok nc m.
Proof. reflexivity. Qed.

Lemma kproto_args_ok_model nc np nm npg : kproto_args_ok nc np nm npg = proto_args_ok nc np nm npg.
Proof.
  unfold kproto_args_ok, proto_args_ok. destruct k_scalar_model as (S1 & S2 & _ & _).
  rewrite kproto_shape_ok_model, (kmatpar_model _ _ nc nm S1 (k_proto_nmating_array_model nc)),
    (kmatpar_model _ _ nc npg S2 (k_proto_nprogeny_array_model nc)). reflexivity.
Qed.
Lemma kcfg_args_ok_model nc np nm npg : kcfg_args_ok nc np nm npg = cfg_args_ok nc np nm npg.
Proof.
  unfold kcfg_args_ok, cfg_args_ok. destruct k_scalar_model as (_ & _ & S3 & S4).
  rewrite kcfg_shape_ok_model, (kmatpar_model _ _ nc nm S3 (k_cfg_nmating_array_model nc)),
    (kmatpar_model _ _ nc npg S4 (k_cfg_nprogeny_array_model nc)). reflexivity.
Qed.

(** * 2. shape and tail *)
Lemma to_nat_zn n : Z.to_nat (zn n) = n.
Proof. apply Nat2Z.id. Qed.
Lemma size2_zn nc np : size2 (zn nc, zn np) = nc * np.
Proof. unfold size2. cbn [fst snd]. now rewrite !to_nat_zn. Qed.
Lemma kxc_tail_model nc np x pms : kxc_tail (zn nc, zn np) 0%Z x pms = xc_tail nc np x pms.
Proof. unfold kxc_tail, xc_tail. cbn [fst snd]. now rewrite !to_nat_zn. Qed.

(** * 3. the configurations *)
Lemma kcfg_subset_model nc np decn choice perm pms : kcfg_subset nc np decn choice perm pms = cfg_subset nc np decn choice perm pms.
Proof.
  unfold kcfg_subset, cfg_subset, k_subset_size, k_subset_replace, k_subset_axis. cbv zeta.
  rewrite kcfg_shape_ok_model, size2_zn. destruct (shape_ok nc np); [|reflexivity].
  destruct (tiled_choice decn (nc * np) false choice perm); [apply kxc_tail_model | reflexivity].
Qed.
Lemma kcfg_binary_model nc np decn choice perm pms : kcfg_binary nc np decn choice perm pms = cfg_binary nc np decn choice perm pms.
Proof.
  unfold kcfg_binary, cfg_binary, cfg_repeat_tiled, k_binary_size, k_binary_replace, k_binary_axis. cbv zeta.
  rewrite kcfg_shape_ok_model, size2_zn. destruct (is_binary decn); [|reflexivity]. destruct (shape_ok nc np); [|reflexivity].
  destruct (rep_options decn) as [opts|]; [|reflexivity].
  destruct (tiled_choice opts (nc * np) false choice perm); [apply kxc_tail_model | reflexivity].
Qed.

Lemma ksys_ix_int_model n t start : ksys_ix k_int_ptr n t start = sys_ix n t start.
Proof.
  unfold ksys_ix, sys_ix. apply map_ext. intros j. unfold k_int_ptr, zn.
  now rewrite <- Nat2Z.inj_mul, <- Nat2Z.inj_add, <- Nat2Z.inj_div, Nat2Z.id.
Qed.
Lemma ksys_ix_imate_model n t start : ksys_ix k_imate_ptr n t start = sys_ix n t start.
Proof.
  unfold ksys_ix, sys_ix. apply map_ext. intros j. unfold k_imate_ptr, zn.
  now rewrite <- Nat2Z.inj_mul, <- Nat2Z.inj_add, <- Nat2Z.inj_div, Nat2Z.id.
Qed.
Lemma k_int_nsample_model nc np : Z.to_nat (k_int_nsample (zn nc) (zn np)) = nc * np.
Proof. unfold k_int_nsample, zn. now rewrite <- Nat2Z.inj_mul, Nat2Z.id. Qed.

Lemma kcfg_integer_model nc np decn start perm pms : kcfg_integer nc np decn start perm pms = cfg_integer nc np decn start perm pms.
Proof.
  unfold kcfg_integer, cfg_integer, cfg_integer_sample, sys_choice, k_int_shape, k_int_axis. cbv zeta.
  rewrite kcfg_shape_ok_model, k_int_nsample_model. destruct (shape_ok nc np); [|reflexivity].
  destruct (rep_options decn) as [opts|]; [|reflexivity]. rewrite ksys_ix_int_model.
  destruct (Nat.ltb start (length opts)); [|reflexivity].
  destruct (Nat.eqb (length perm) (nc * np)); [apply kxc_tail_model | reflexivity].
Qed.

Lemma kcfg_real_f_model nc np decn order off perm pms : kcfg_real_f nc np decn order off perm pms = cfg_real_f nc np decn order off perm pms.
Proof.
  unfold kcfg_real_f, cfg_real_f, k_real_size, k_real_args, k_real_axis. cbv zeta. cbn [snd].
  rewrite kcfg_shape_ok_model, size2_zn. destruct (shape_ok nc np); [|reflexivity].
  destruct (sus_f decn order (nc * np) off perm); [apply kxc_tail_model | reflexivity].
Qed.
Lemma kcfg_real_q_model nc np decn order off perm pms : kcfg_real_q nc np decn order off perm pms = cfg_real_q nc np decn order off perm pms.
Proof.
  unfold kcfg_real_q, cfg_real_q, k_real_size, k_real_args, k_real_axis. cbv zeta. cbn [snd].
  rewrite kcfg_shape_ok_model, size2_zn. destruct (shape_ok nc np); [|reflexivity].
  destruct (sus_q decn order (nc * np) off perm); [apply kxc_tail_model | reflexivity].
Qed.

Lemma kcfg_mate_model nc np decn xmap choice perm perm2 :
  kcfg_mate nc np decn xmap choice perm perm2 = cfg_mate nc np decn xmap choice perm perm2.
Proof.
  unfold kcfg_mate, cfg_mate, k_mate_size, k_mate_replace, k_mate_lookup. cbv zeta.
  now rewrite kcfg_shape_ok_model, to_nat_zn.
Qed.
Lemma kcfg_integer_mate_model nc np decn xmap start perm :
  kcfg_integer_mate nc np decn xmap start perm = cfg_integer_mate nc np decn xmap start perm.
Proof.
  unfold kcfg_integer_mate, cfg_integer_mate, sys_choice, k_imate_lookup.
  rewrite kcfg_shape_ok_model. destruct (shape_ok nc np && xmap_ok np xmap); [|reflexivity].
  destruct (rep_options decn) as [opts|]; [|reflexivity]. rewrite ksys_ix_imate_model.
  destruct (Nat.ltb start (length opts)); reflexivity.
Qed.

Lemma kcfg_binary_mate_model nc np decn xmap choice perm perm2 :
  kcfg_binary_mate nc np decn xmap choice perm perm2 = cfg_binary_mate nc np decn xmap choice perm perm2.
Proof.
  unfold kcfg_binary_mate, cfg_binary_mate, old_cfg_integer_mate, k_bmate_size, k_bmate_replace, k_bmate_lookup. cbv zeta.
  now rewrite kcfg_shape_ok_model, to_nat_zn.
Qed.
Lemma kcfg_real_mate_f_model nc np decn xmap order off perm perm2 :
  kcfg_real_mate_f nc np decn xmap order off perm perm2 = cfg_real_mate_f nc np decn xmap order off perm perm2.
Proof.
  unfold kcfg_real_mate_f, cfg_real_mate_f, k_rmate_size, k_rmate_args, k_rmate_lookup. cbv zeta. cbn [snd].
  now rewrite kcfg_shape_ok_model, to_nat_zn.
Qed.
Lemma kcfg_real_mate_q_model nc np decn xmap order off perm perm2 :
  kcfg_real_mate_q nc np decn xmap order off perm perm2 = cfg_real_mate_q nc np decn xmap order off perm perm2.
Proof.
  unfold kcfg_real_mate_q, cfg_real_mate_q, k_rmate_size, k_rmate_args, k_rmate_lookup. cbv zeta. cbn [snd].
  now rewrite kcfg_shape_ok_model, to_nat_zn.
Qed.

(** * 4. the multi-objective choice and the arguments handed to the configuration, for the eight protocol bases *)
Ltac mo_model pick score row :=
  intros; unfold kselect_mo, select_mo, mo_choice;
  change (kmo_index pick score ?wt ?trans ?front) with (mo_index wt trans front);
  match goal with |- context [mo_index ?wt ?trans ?front] => destruct (mo_index wt trans front) as [ix|]; [|reflexivity] end;
  unfold row; rewrite to_nat_zn; reflexivity.

Lemma kselect_mo_subset_model {D C} wt trans front (decns : list D) (cfg : D -> option C) :
  kselect_mo (@k_sel_subset_pick _) k_sel_subset_score k_sel_subset_mo_row wt trans front decns cfg = select_mo wt trans front decns cfg.
Proof. mo_model (@k_sel_subset_pick (option nat)) k_sel_subset_score k_sel_subset_mo_row. Qed.
Lemma kselect_mo_real_model {D C} wt trans front (decns : list D) (cfg : D -> option C) :
  kselect_mo (@k_sel_real_pick _) k_sel_real_score k_sel_real_mo_row wt trans front decns cfg = select_mo wt trans front decns cfg.
Proof. mo_model (@k_sel_real_pick (option nat)) k_sel_real_score k_sel_real_mo_row. Qed.
Lemma kselect_mo_integer_model {D C} wt trans front (decns : list D) (cfg : D -> option C) :
  kselect_mo (@k_sel_integer_pick _) k_sel_integer_score k_sel_integer_mo_row wt trans front decns cfg = select_mo wt trans front decns cfg.
Proof. mo_model (@k_sel_integer_pick (option nat)) k_sel_integer_score k_sel_integer_mo_row. Qed.
Lemma kselect_mo_binary_model {D C} wt trans front (decns : list D) (cfg : D -> option C) :
  kselect_mo (@k_sel_binary_pick _) k_sel_binary_score k_sel_binary_mo_row wt trans front decns cfg = select_mo wt trans front decns cfg.
Proof. mo_model (@k_sel_binary_pick (option nat)) k_sel_binary_score k_sel_binary_mo_row. Qed.
Lemma kselect_mo_mate_model {D C} wt trans front (decns : list D) (cfg : D -> option C) :
  kselect_mo (@k_sel_mate_pick _) k_sel_mate_score k_sel_mate_mo_row wt trans front decns cfg = select_mo wt trans front decns cfg.
Proof. mo_model (@k_sel_mate_pick (option nat)) k_sel_mate_score k_sel_mate_mo_row. Qed.
Lemma kselect_mo_imate_model {D C} wt trans front (decns : list D) (cfg : D -> option C) :
  kselect_mo (@k_sel_imate_pick _) k_sel_imate_score k_sel_imate_mo_row wt trans front decns cfg = select_mo wt trans front decns cfg.
Proof. mo_model (@k_sel_imate_pick (option nat)) k_sel_imate_score k_sel_imate_mo_row. Qed.

Lemma kselect_mo_bmate_model {D C} wt trans front (decns : list D) (cfg : D -> option C) :
  kselect_mo (@k_sel_bmate_pick _) k_sel_bmate_score k_sel_bmate_mo_row wt trans front decns cfg = select_mo wt trans front decns cfg.
Proof. mo_model (@k_sel_bmate_pick (option nat)) k_sel_bmate_score k_sel_bmate_mo_row. Qed.
Lemma kselect_mo_rmate_model {D C} wt trans front (decns : list D) (cfg : D -> option C) :
  kselect_mo (@k_sel_rmate_pick _) k_sel_rmate_score k_sel_rmate_mo_row wt trans front decns cfg = select_mo wt trans front decns cfg.
Proof. mo_model (@k_sel_rmate_pick (option nat)) k_sel_rmate_score k_sel_rmate_mo_row. Qed.

(** one objective: the configuration is built from the FIRST row of the solution, whatever the encoding *)
Definition select_so {D C} (decns : list D) (cfg : D -> option C) : option (D * C) :=
  match decns with
  | [] => None
  | d :: _ => match cfg d with None => None | Some c => Some (d, c) end
  end.
Lemma kselect_so_model {D C} (decns : list D) (cfg : D -> option C) :
  kselect_so k_sel_subset_so_row decns cfg = select_so decns cfg /\ kselect_so k_sel_real_so_row decns cfg = select_so decns cfg /\
  kselect_so k_sel_integer_so_row decns cfg = select_so decns cfg /\ kselect_so k_sel_binary_so_row decns cfg = select_so decns cfg /\
  kselect_so k_sel_mate_so_row decns cfg = select_so decns cfg /\ kselect_so k_sel_imate_so_row decns cfg = select_so decns cfg /\
  kselect_so k_sel_bmate_so_row decns cfg = select_so decns cfg /\ kselect_so k_sel_rmate_so_row decns cfg = select_so decns cfg.
Proof. repeat split; destruct decns; reflexivity. Qed.

(** the dispatch on the number of objectives and the cross-design attributes handed to the configuration *)
Lemma k_sel_dispatch_args (nobj : Z) (a b : nat) (c d : list Z) :
  let so := (nobj =? 1)%Z in let mo := (1 <? nobj)%Z in let args := (a, b, c, d) in
  (k_sel_subset_is_so nobj = so /\ k_sel_subset_is_mo nobj = mo /\ k_sel_subset_so_args a b c d = args /\ k_sel_subset_mo_args a b c d = args) /\
  (k_sel_real_is_so nobj = so /\ k_sel_real_is_mo nobj = mo /\ k_sel_real_so_args a b c d = args /\ k_sel_real_mo_args a b c d = args) /\
  (k_sel_integer_is_so nobj = so /\ k_sel_integer_is_mo nobj = mo /\ k_sel_integer_so_args a b c d = args /\ k_sel_integer_mo_args a b c d = args) /\
  (k_sel_binary_is_so nobj = so /\ k_sel_binary_is_mo nobj = mo /\ k_sel_binary_so_args a b c d = args /\ k_sel_binary_mo_args a b c d = args) /\
  (k_sel_mate_is_so nobj = so /\ k_sel_mate_is_mo nobj = mo /\ k_sel_mate_so_args a b c d = args /\ k_sel_mate_mo_args a b c d = args) /\
  (k_sel_imate_is_so nobj = so /\ k_sel_imate_is_mo nobj = mo /\ k_sel_imate_so_args a b c d = args /\ k_sel_imate_mo_args a b c d = args) /\
  (k_sel_bmate_is_so nobj = so /\ k_sel_bmate_is_mo nobj = mo /\ k_sel_bmate_so_args a b c d = args /\ k_sel_bmate_mo_args a b c d = args) /\
  (k_sel_rmate_is_so nobj = so /\ k_sel_rmate_is_mo nobj = mo /\ k_sel_rmate_so_args a b c d = args /\ k_sel_rmate_mo_args a b c d = args).
Proof. cbv zeta. repeat split. Qed.

(** * 5. the sorting optimiser *)
Lemma ksort_select_model crit k : ksort_select crit k = sort_select crit k.
Proof.
  unfold ksort_select, sort_select, k_sort_hi, k_sort_lo. rewrite to_nat_zn. cbn [Z.to_nat skipn]. now rewrite Nat.sub_0_r.
Qed.

(** * 6. the cross-map index generators *)
Lemma fold_tri {X} (f : nat -> option (list (list X))) (g : nat -> list (list X)) (h : nat -> list X -> list X) range :
  (forall i, In i range -> f i = Some (g i)) ->
  fold_right (fun i acc => match f i, acc with Some sub, Some rest => Some (map (h i) sub ++ rest) | _, _ => None end) (Some []) range
  = Some (flat_map (fun i => map (h i) (g i)) range).
Proof.
  induction range as [|i t IH]; intros H; cbn [fold_right flat_map]; [reflexivity|].
  rewrite (H i (or_introl eq_refl)), IH; [reflexivity|]. intros j Hj. apply H. now right.
Qed.

Lemma ktri_rec_model (strict : bool) (st : bool -> Z -> Z) (leaf : Z -> Z -> bool) (lo hi : Z -> Z -> Z) (n k : nat) :
  (forall (b : bool) (last : Z), st b last = if b then (if strict then last + 1 else last)%Z else 0%Z) ->
  (forall a b : Z, leaf a b = (a =? b - 1)%Z) -> (forall a b : Z, lo a b = a) -> (forall a b : Z, hi a b = b) ->
  forall k1 len_l prev, len_l + k1 + 1 = k ->
    ktri_rec st leaf lo hi (S k1) (zn n) (zn k) len_l (zn prev)
    = Some (tri_rec strict n k1 (if Nat.eqb len_l 0 then 0 else if strict then S prev else prev)).
Proof.
  intros Hst Hleaf Hlo Hhi. induction k1 as [|k1 IH]; intros len_l prev Hk.
  - cbn [ktri_rec tri_rec]. rewrite Hleaf, Hlo, Hhi, Hst.
    replace (zn len_l =? zn k - 1)%Z with true by (symmetry; apply Z.eqb_eq; unfold zn; lia).
    destruct (Nat.eqb len_l 0); cbn [negb]; [now rewrite to_nat_zn|].
    destruct strict; [|now rewrite !to_nat_zn].
    replace (Z.to_nat (zn prev + 1)) with (S prev) by (unfold zn; lia). now rewrite to_nat_zn.
  - cbn [ktri_rec tri_rec]. rewrite Hleaf, Hlo, Hhi, Hst.
    replace (zn len_l =? zn k - 1)%Z with false by (symmetry; apply Z.eqb_neq; unfold zn; lia).
    set (s := if Nat.eqb len_l 0 then 0 else if strict then S prev else prev).
    assert (Es : Z.to_nat (if negb (Nat.eqb len_l 0) then (if strict then zn prev + 1 else zn prev)%Z else 0%Z) = s).
    { unfold s. destruct (Nat.eqb len_l 0); cbn [negb]; [reflexivity|]. destruct strict; [unfold zn; lia | apply to_nat_zn]. }
    rewrite Es, to_nat_zn.
    apply (fold_tri (fun i => ktri_rec st leaf lo hi (S k1) (zn n) (zn k) (S len_l) (zn i))
                    (fun i => tri_rec strict n k1 (if strict then S i else i)) (fun i => cons i)).
    intros i _. rewrite (IH (S len_l) i) by lia. reflexivity.
Qed.

Lemma ktriudix_model n k : 0 < k -> ktriudix n k = triudix n k.
Proof.
  intros Hk. destruct k as [|k1]; [lia|]. unfold ktriudix, triudix. change 0%Z with (zn 0).
  rewrite (ktri_rec_model true k_triudix_st k_triudix_leaf k_triudix_lo k_triudix_hi n (S k1)); try reflexivity; try lia.
Qed.
Lemma ktriuix_model n k : 0 < k -> ktriuix n k = triuix n k.
Proof.
  intros Hk. destruct k as [|k1]; [lia|]. unfold ktriuix, triuix. change 0%Z with (zn 0).
  rewrite (ktri_rec_model false k_triuix_st k_triuix_leaf k_triuix_lo k_triuix_hi n (S k1)); try reflexivity; try lia.
Qed.
Lemma kxmapix_model n k u : 0 < k -> kxmapix n k u = xmapix n k u.
Proof. intros Hk. unfold kxmapix, k_xmapix, xmapix. destruct u; [now apply ktriudix_model | now apply ktriuix_model]. Qed.

(** * 7. the property theorems about the assembled programs *)
Theorem kcfg_subset_spec : forall nc np decn choice perm pms r,
  0 < length decn -> NoDup decn ->
  NoDup choice -> Forall (fun p => p < length decn) choice -> length choice = (nc * np) mod length decn ->
  Permutation perm (seq 0 (nc * np)) ->
  (forall x, cfg_subset_sample nc np decn choice perm = Some x -> draws_ok np x pms) ->
  kcfg_subset nc np decn choice perm pms = Some r ->
  length r = nc * np /\ (forall v, In v r -> In v decn) /\
  (forall i, i < length decn ->
      count_z (nth i decn 0%Z) r = (nc * np) / length decn + count_nat i choice /\ count_nat i choice <= 1) /\
  local_opt np r.
Proof. intros nc np decn choice perm pms r. rewrite kcfg_subset_model. apply cfg_subset_spec. Qed.

Theorem kcfg_binary_spec : forall nc np x choice perm pms r,
  let opts := rep_from 0 x in let t := nc * np in
  0 < length opts -> NoDup choice -> Forall (fun p => p < length opts) choice -> length choice = t mod length opts ->
  Permutation perm (seq 0 t) ->
  (forall s, tiled_choice opts t false choice perm = Some s -> draws_ok np s pms) ->
  kcfg_binary nc np x choice perm pms = Some r ->
  (forall i, i < length x -> nth i x 0%Z = 1%Z -> t / length opts <= count_z (Z.of_nat i) r <= t / length opts + 1) /\
  (forall i, i < length x -> nth i x 0%Z = 0%Z -> count_z (Z.of_nat i) r = 0) /\ length r = t /\ local_opt np r.
Proof. intros nc np x choice perm pms r. rewrite kcfg_binary_model. apply cfg_binary_spec. Qed.

Theorem kcfg_integer_spec : forall nc np x start perm pms r,
  let n := length (rep_from 0 x) in let t := nc * np in
  Permutation perm (seq 0 t) ->
  (forall s, cfg_integer_sample nc np x start perm = Some s -> draws_ok np s pms) ->
  kcfg_integer nc np x start perm pms = Some r ->
  length r = t /\
  (forall v, In v r -> exists i, v = Z.of_nat i /\ i < length x /\ (0 < nth i x 0)%Z) /\
  (forall i, i < length x ->
     Z.to_nat (nth i x 0%Z) * t / n <= count_z (Z.of_nat i) r <= (Z.to_nat (nth i x 0%Z) * t + n - 1) / n) /\
  local_opt np r.
Proof. intros nc np x start perm pms r. rewrite kcfg_integer_model. apply cfg_integer_spec. Qed.

Theorem kcfg_integer_mate_spec : forall nc np x xmap start perm rows,
  let n := length (rep_from 0 x) in
  Permutation perm (seq 0 nc) ->
  kcfg_integer_mate nc np x xmap start perm = Some rows ->
  exists ds, xmap_rows xmap ds = Some rows /\ length rows = nc /\ length ds = nc /\
    Forall (fun r => length r = np) rows /\
    (forall d, In d ds -> exists i, d = Z.of_nat i /\ i < length x /\ (0 < nth i x 0)%Z) /\
    (forall i, i < length x ->
       Z.to_nat (nth i x 0%Z) * nc / n <= count_z (Z.of_nat i) ds <= (Z.to_nat (nth i x 0%Z) * nc + n - 1) / n).
Proof. intros nc np x xmap start perm rows. rewrite kcfg_integer_mate_model. apply cfg_integer_mate_spec. Qed.

Theorem kcfg_mate_spec : forall nc np decn xmap choice perm perm2 rows,
  0 < length decn -> NoDup decn ->
  NoDup choice -> Forall (fun p => p < length decn) choice -> length choice = nc mod length decn ->
  Permutation perm (seq 0 nc) -> Permutation perm2 (seq 0 nc) ->
  kcfg_mate nc np decn xmap choice perm perm2 = Some rows ->
  exists ds, xmap_rows xmap ds = Some rows /\ length rows = nc /\ length ds = nc /\
    Forall (fun r => length r = np) rows /\
    (forall d, In d ds -> In d decn) /\
    (forall r, In r rows -> exists d, In d decn /\ xmap_row xmap d = Some r) /\
    (forall i, i < length decn ->
       count_z (nth i decn 0%Z) ds = nc / length decn + count_nat i choice /\ count_nat i choice <= 1).
Proof. intros nc np decn xmap choice perm perm2 rows. rewrite kcfg_mate_model. apply cfg_mate_spec. Qed.

Theorem kcfg_real_q_spec : forall nc np (p : list Q) order off perm pms r,
  let k := nc * np in
  Forall (fun x => 0 <= x)%Q p -> (0 < sumQ p)%Q -> Permutation order (seq 0 (length p)) ->
  nonincr (gather 0%Q p order) = true ->
  (0 <= off)%Q -> (off < sumQ p / inject_Z (Z.of_nat k))%Q -> Permutation perm (seq 0 k) ->
  (forall sel, sus_q p order k off perm = Some sel -> draws_ok np (zs sel) pms) ->
  kcfg_real_q nc np p order off perm pms = Some r ->
  length r = k /\
  (forall v, In v r -> exists i, v = Z.of_nat i /\ i < length p /\ ~ (nth i p 0 == 0)%Q) /\
  (forall i, i < length p ->
     (Qfloor (nth i p 0 * inject_Z (Z.of_nat k) / sumQ p)%Q <= Z.of_nat (count_z (Z.of_nat i) r)
      <= Qceiling (nth i p 0 * inject_Z (Z.of_nat k) / sumQ p)%Q)%Z) /\
  local_opt np r.
Proof. intros nc np p order off perm pms r. rewrite kcfg_real_q_model. apply cfg_real_q_spec. Qed.

Theorem kcfg_binary_mate_spec : forall nc np x xmap choice perm perm2 rows,
  let opts := rep_from 0 x in
  is_binary x = true -> 0 < length opts ->
  NoDup choice -> Forall (fun p => p < length opts) choice -> length choice = nc mod length opts ->
  Permutation perm (seq 0 nc) -> Permutation perm2 (seq 0 nc) ->
  kcfg_binary_mate nc np x xmap choice perm perm2 = Some rows ->
  exists ds, xmap_rows xmap ds = Some rows /\ length rows = nc /\ length ds = nc /\
    Forall (fun r => length r = np) rows /\
    (forall d, In d ds -> exists i, d = Z.of_nat i /\ i < length x /\ nth i x 0%Z = 1%Z) /\
    (forall i, i < length x -> nth i x 0%Z = 1%Z -> nc / length opts <= count_z (Z.of_nat i) ds <= nc / length opts + 1) /\
    (forall i, i < length x -> nth i x 0%Z = 0%Z -> count_z (Z.of_nat i) ds = 0).
Proof. intros nc np x xmap choice perm perm2 rows. rewrite kcfg_binary_mate_model. apply cfg_binary_mate_spec. Qed.

Theorem kcfg_real_mate_q_spec : forall nc np (p : list Q) xmap order off perm perm2 rows,
  Forall (fun x => 0 <= x)%Q p -> (0 < sumQ p)%Q -> Permutation order (seq 0 (length p)) ->
  nonincr (gather 0%Q p order) = true ->
  (0 <= off)%Q -> (off < sumQ p / inject_Z (Z.of_nat nc))%Q -> Permutation perm (seq 0 nc) -> Permutation perm2 (seq 0 nc) ->
  kcfg_real_mate_q nc np p xmap order off perm perm2 = Some rows ->
  exists ds, xmap_rows xmap ds = Some rows /\ length rows = nc /\ length ds = nc /\
    Forall (fun r => length r = np) rows /\
    (forall d, In d ds -> exists i, d = Z.of_nat i /\ i < length p /\ ~ (nth i p 0 == 0)%Q) /\
    (forall i, i < length p ->
       (Qfloor (nth i p 0 * inject_Z (Z.of_nat nc) / sumQ p)%Q <= Z.of_nat (count_z (Z.of_nat i) ds)
        <= Qceiling (nth i p 0 * inject_Z (Z.of_nat nc) / sumQ p)%Q)%Z).
Proof. intros nc np p xmap order off perm perm2 rows. rewrite kcfg_real_mate_q_model. apply cfg_real_mate_q_spec. Qed.

(** what the protocol accepts at construction, the configuration built by select() accepts — stated about the setters' checks
    as the source has them now *)
Theorem kproto_args_accepted_by_cfg : forall nc np nm npg,
  kproto_args_ok nc np nm npg = true ->
  kcfg_args_ok nc np nm npg = true /\ length (matpar_value nc nm) = nc /\ length (matpar_value nc npg) = nc /\
  Forall (fun v => (0 < v)%Z) (matpar_value nc nm) /\ Forall (fun v => (0 < v)%Z) (matpar_value nc npg).
Proof. intros nc np nm npg. rewrite kproto_args_ok_model, kcfg_args_ok_model. apply proto_args_accepted_by_cfg. Qed.

(** the multi-objective choice of every protocol base: the configuration is built by [cfg] from the decision at the FIRST
    maximiser of ndset_wt * ndset_trans(front) *)
Definition mo_choice_post {D C} (wt : Q) (trans : list (list Q) -> list Q) (front : list (list Q)) (decns : list D)
    (cfg : D -> option C) (d : D) (c : C) : Prop :=
  cfg d = Some c /\
  exists ix, nth_error decns ix = Some d /\ ix < length (trans front) /\
    (forall j, j < length (trans front) -> (wt * nth j (trans front) 0 <= wt * nth ix (trans front) 0)%Q) /\
    (forall j, j < ix -> (wt * nth j (trans front) 0 < wt * nth ix (trans front) 0)%Q).
Theorem kselect_mo_spec : forall D C wt trans front (decns : list D) (cfg : D -> option C) d c,
  (kselect_mo (@k_sel_subset_pick _) k_sel_subset_score k_sel_subset_mo_row wt trans front decns cfg = Some (d, c) -> mo_choice_post wt trans front decns cfg d c) /\
  (kselect_mo (@k_sel_real_pick _) k_sel_real_score k_sel_real_mo_row wt trans front decns cfg = Some (d, c) -> mo_choice_post wt trans front decns cfg d c) /\
  (kselect_mo (@k_sel_integer_pick _) k_sel_integer_score k_sel_integer_mo_row wt trans front decns cfg = Some (d, c) -> mo_choice_post wt trans front decns cfg d c) /\
  (kselect_mo (@k_sel_binary_pick _) k_sel_binary_score k_sel_binary_mo_row wt trans front decns cfg = Some (d, c) -> mo_choice_post wt trans front decns cfg d c) /\
  (kselect_mo (@k_sel_mate_pick _) k_sel_mate_score k_sel_mate_mo_row wt trans front decns cfg = Some (d, c) -> mo_choice_post wt trans front decns cfg d c) /\
  (kselect_mo (@k_sel_imate_pick _) k_sel_imate_score k_sel_imate_mo_row wt trans front decns cfg = Some (d, c) -> mo_choice_post wt trans front decns cfg d c) /\
  (kselect_mo (@k_sel_bmate_pick _) k_sel_bmate_score k_sel_bmate_mo_row wt trans front decns cfg = Some (d, c) -> mo_choice_post wt trans front decns cfg d c) /\
  (kselect_mo (@k_sel_rmate_pick _) k_sel_rmate_score k_sel_rmate_mo_row wt trans front decns cfg = Some (d, c) -> mo_choice_post wt trans front decns cfg d c).
Proof.
  intros D C wt trans front decns cfg d c.
  rewrite kselect_mo_subset_model, kselect_mo_real_model, kselect_mo_integer_model, kselect_mo_binary_model, kselect_mo_mate_model, kselect_mo_imate_model,
    kselect_mo_bmate_model, kselect_mo_rmate_model.
  repeat apply conj; intros Hsel; apply (select_mo_spec D C wt trans front decns cfg d c Hsel).
Qed.

Theorem ksort_select_topk : forall crit k sel, ksort_select crit k = Some sel ->
  length sel = k /\ NoDup sel /\ Forall (fun i => i < length crit) sel /\
  (forall i j, In i sel -> j < length crit -> ~ In j sel -> (nth i crit 0 <= nth j crit 0)%Z) /\
  is_topk crit sel k = true.
Proof. intros crit k sel. rewrite ksort_select_model. apply sort_select_topk. Qed.

Theorem kxmapix_spec : forall n k, 0 < k ->
  (forall u, exists L, kxmapix n k u = Some L) /\
  (forall L, kxmapix n k true = Some L ->
     (forall t, In t L <-> (length t = k /\ StronglySorted lt t /\ Forall (fun i => i < n) t)) /\ NoDup L /\ StronglySorted lexlt L) /\
  (forall L, kxmapix n k false = Some L ->
     (forall t, In t L <-> (length t = k /\ StronglySorted le t /\ Forall (fun i => i < n) t)) /\ NoDup L /\ StronglySorted lexlt L).
Proof.
  intros n k Hk. split; [|split].
  - intros u. rewrite (kxmapix_model n k u Hk). now apply xmapix_total.
  - intros L. rewrite (kxmapix_model n k true Hk). cbn [xmapix]. now apply triudix_enumerates.
  - intros L. rewrite (kxmapix_model n k false Hk). cbn [xmapix]. now apply triuix_enumerates.
Qed.

(** * 8. the hypotheses are satisfiable / the assembled programs compute *)
Example C07_kernel_computes :
  kcfg_integer 3 1 [3;3;0]%Z 4 [2;0;1] [[0;1;2]; [0]; [0]; [0]] = Some [1;0;1]%Z /\
  kcfg_integer_mate 3 2 [3;3;0]%Z [[0;1];[0;2];[1;2]]%Z 4 [2;0;1] = Some [[0;2];[0;1];[0;2]]%Z /\
  kproto_args_ok 3 2 (MScalar 2%Z) (MArray [1;4;2]%Z) = true /\ kproto_args_ok 3 2 (MScalar 0%Z) (MScalar 1%Z) = false /\
  kxmapix 4 2 true = Some [[0;1];[0;2];[0;3];[1;2];[1;3];[2;3]] /\ kxmapix 2 2 false = Some [[0;0];[0;1];[1;1]] /\
  ksort_select [3; -1; 4; 1; 5; -9; 2; 6]%Z 3 = Some [5; 1; 3] /\
  kselect_mo (@k_sel_subset_pick _) k_sel_subset_score k_sel_subset_mo_row (-1 # 1)%Q (map (fun r => nth 0 r 0%Q)) [[3#1];[1#1];[1#1]]%Q [10;11;12] (fun d => Some (d + 1))
    = Some (11, 12).
Proof. repeat split; vm_compute; reflexivity. Qed.

(** * the bounds of the UC integer decision space *)
Lemma kuc_int_bounds_model nc np nm nx : kuc_int_bounds nc np nm nx = uc_int_bounds nc np nm nx.
Proof. reflexivity. Qed.
Theorem kuc_int_bounds_spec : forall nc np nm npg nx,
  proto_args_ok nc np (MArray nm) npg = true ->
  exists b, kuc_int_bounds nc np nm nx = Some b /\
    b = (repeat 0%Z nx, repeat (Z.of_nat np * sumZ nm)%Z nx) /\ length (fst b) = nx /\ length (snd b) = nx /\
    (Z.of_nat nc <= Z.of_nat np * sumZ nm)%Z /\ (0 < Z.of_nat np * sumZ nm)%Z /\
    (forall x, length x = nx -> Forall (fun v => 0 <= v)%Z x -> (sumZ x <= sumZ nm)%Z -> in_bounds b x = true).
Proof.
  intros nc np nm npg nx H. rewrite kuc_int_bounds_model.
  destruct (uc_int_upper_covers_design nc np nm npg H) as (H1 & H2 & H3 & Hnp & Hnm). unfold uc_int_upper in H2, H3.
  eexists. split; [apply uc_int_bounds_total|]. split; [reflexivity|]. cbn [fst snd]. rewrite !repeat_length.
  split; [reflexivity|]. split; [reflexivity|]. split; [lia|]. split; [exact H3|].
  intros x Lx Hx Hs. exact (uc_int_bounds_admit_every_allocation nc np nm nx _ x Hnp Hnm (uc_int_bounds_total nc np nm nx) Lx Hx Hs).
Qed.

Print Assumptions kcfg_integer_spec.
Print Assumptions kuc_int_bounds_spec.
Print Assumptions kselect_mo_spec.
Print Assumptions kxmapix_spec.
Print Assumptions kproto_args_accepted_by_cfg.
