(** C19 — change of unit: expressing objective k of every point in another unit (column k times c_k > 0, e.g. 2^-40) changes
    none of the distances returned by the three transformations.  (The min-max scaling divides the unit out exactly; a
    tolerance in the zero-range guard would break this law for small units.) *)
From Coq Require Import Lqa Lia Setoid Morphisms.
From PV Require Import Lib.Common Model.C19_Pareto Proofs.C19_Pareto Proofs.C19_Order Proofs.C19_Dist.
Local Open Scope Q_scope.

Definition mulc (c r : list Q) : list Q := map2 Qmult r c.

Lemma Qmin'_scale x y c : 0 < c -> Qmin' (x * c) (y * c) == Qmin' x y * c.
Proof.
  intros Hc. unfold Qmin'. assert (E : Qle_bool (x * c) (y * c) = Qle_bool x y).
  { destruct (Qle_bool (x * c) (y * c)) eqn:A, (Qle_bool x y) eqn:B; try reflexivity.
    - apply Qle_bool_iff in A. apply Qle_bool_false in B. exfalso.
      assert (y * c < x * c) by (apply Qmult_lt_compat_r; assumption). lra.
    - apply Qle_bool_iff in B. apply Qle_bool_false in A. exfalso.
      assert (x * c <= y * c) by (apply Qmult_le_compat_r; lra). lra. }
  rewrite E. destruct (Qle_bool x y); reflexivity.
Qed.
Lemma Qmax'_scale x y c : 0 < c -> Qmax' (x * c) (y * c) == Qmax' x y * c.
Proof.
  intros Hc. unfold Qmax'. assert (E : Qle_bool (x * c) (y * c) = Qle_bool x y).
  { destruct (Qle_bool (x * c) (y * c)) eqn:A, (Qle_bool x y) eqn:B; try reflexivity.
    - apply Qle_bool_iff in A. apply Qle_bool_false in B. exfalso.
      assert (y * c < x * c) by (apply Qmult_lt_compat_r; assumption). lra.
    - apply Qle_bool_iff in B. apply Qle_bool_false in A. exfalso.
      assert (x * c <= y * c) by (apply Qmult_le_compat_r; lra). lra. }
  rewrite E. destruct (Qle_bool x y); reflexivity.
Qed.

Lemma map2_f_scale (f : Q -> Q -> Q) : (forall x y c, 0 < c -> f (x * c) (y * c) == f x y * c) ->
  forall a b c, length a = length c -> length b = length c -> Forall (fun t => 0 < t) c ->
  veq (map2 f (mulc c a) (mulc c b)) (mulc c (map2 f a b)).
Proof.
  intros Hf. unfold mulc. induction a as [|x a IH]; intros [|y b] [|w c] L1 L2 Hc; cbn in L1, L2; try discriminate; [constructor|].
  cbn [map2]. inversion Hc; subst. constructor; [now apply Hf | apply IH; [lia | lia | assumption]].
Qed.

Lemma mulc_length c r : length r = length c -> length (mulc c r) = length c.
Proof. intros H. unfold mulc. rewrite map2_length, H. apply Nat.min_id. Qed.

Lemma fold_scale (f : Q -> Q -> Q) : (forall x x' y y', x == x' -> y == y' -> f x y == f x' y') ->
  (forall x y c, 0 < c -> f (x * c) (y * c) == f x y * c) ->
  forall (c : list Q), Forall (fun t => 0 < t) c ->
  forall rest r0, length r0 = length c -> Forall (fun r => length r = length c) rest ->
  veq (fold_left (map2 f) (map (mulc c) rest) (mulc c r0)) (mulc c (fold_left (map2 f) rest r0)).
Proof.
  intros Hcomp Hf c Hc. induction rest as [|r1 rest IH]; intros r0 L0 HR; cbn [map fold_left]; [apply veq_refl|].
  inversion HR as [|? ? L1 HR']; subst.
  eapply veq_trans.
  - apply foldl_compat; [exact Hcomp | apply meq_refl | apply (map2_f_scale f Hf); assumption].
  - apply IH; [rewrite map2_length, L0, L1; apply Nat.min_id | exact HR'].
Qed.

Lemma colmin_scale c : Forall (fun t => 0 < t) c -> forall rest r0, length r0 = length c -> Forall (fun r => length r = length c) rest ->
  veq (colmin (mulc c r0) (map (mulc c) rest)) (mulc c (colmin r0 rest)).
Proof. intros Hc. unfold colmin. apply fold_scale; [apply Qmin'_compat | apply Qmin'_scale | exact Hc]. Qed.
Lemma colmax_scale c : Forall (fun t => 0 < t) c -> forall rest r0, length r0 = length c -> Forall (fun r => length r = length c) rest ->
  veq (colmax (mulc c r0) (map (mulc c) rest)) (mulc c (colmax r0 rest)).
Proof. intros Hc. unfold colmax. apply fold_scale; [apply Qmax'_compat | apply Qmax'_scale | exact Hc]. Qed.

Lemma sub_scale : forall r mn c, length r = length c -> length mn = length c ->
  veq (map2 Qminus (mulc c r) (mulc c mn)) (mulc c (map2 Qminus r mn)).
Proof.
  unfold mulc. induction r as [|x r IH]; intros [|y mn] [|w c] L1 L2; cbn in L1, L2; try discriminate; [constructor|].
  cbn [map2]. constructor; [ring | apply IH; lia].
Qed.

Lemma shifted_scale c A : Forall (fun t => 0 < t) c -> Forall (fun r => length r = length c) A ->
  meq (shifted (map (mulc c) A)) (map (mulc c) (shifted A)).
Proof.
  intros Hc HR. destruct A as [|r0 rest]; [constructor|]. inversion HR as [|? ? L0 HR']; subst.
  change (shifted (map (mulc c) (r0 :: rest)))
    with (map (fun r => map2 Qminus r (colmin (mulc c r0) (map (mulc c) rest))) (map (mulc c) (r0 :: rest))).
  change (shifted (r0 :: rest)) with (map (fun r => map2 Qminus r (colmin r0 rest)) (r0 :: rest)).
  rewrite !map_map.
  apply (Forall_map2_gen (fun r => length r = length c)); [|exact HR].
  intros r Lr. eapply veq_trans.
  - apply map2_compat; [apply Qminus_compat | apply veq_refl | apply colmin_scale; assumption].
  - apply sub_scale; [exact Lr | now apply colmin_length].
Qed.

Definition gscale (m : Q) : Q := if Qeq_bool m 0 then 0 else / m.
Lemma gscale_compat m m' : m == m' -> gscale m == gscale m'.
Proof. intros E. unfold gscale. rewrite (Qeq_bool_compat0 m m' E). destruct (Qeq_bool m' 0); [reflexivity | now rewrite E]. Qed.

Lemma norm_row_scale : forall mx r c, length mx = length c -> length r = length c -> Forall (fun t => 0 < t) c ->
  veq (map2 Qmult (map gscale (mulc c mx)) (mulc c r)) (map2 Qmult (map gscale mx) r).
Proof.
  unfold mulc. induction mx as [|m mx IH]; intros [|x r] [|w c] L1 L2 Hc; cbn in L1, L2; try discriminate; [constructor|].
  cbn [map2 map]. inversion Hc as [|? ? Hw Hc']; subst. constructor; [|apply IH; [lia | lia | assumption]].
  unfold gscale. destruct (Qeq_bool m 0) eqn:E.
  - apply Qeq_bool_iff in E. assert (E' : Qeq_bool (m * w) 0 = true) by (apply Qeq_bool_iff; rewrite E; ring). rewrite E'. ring.
  - assert (Hm : ~ m == 0) by (now apply Qeq_bool_neq).
    assert (E' : Qeq_bool (m * w) 0 = false).
    { destruct (Qeq_bool (m * w) 0) eqn:F; [|reflexivity]. apply Qeq_bool_iff in F.
      destruct (Qmult_integral _ _ F) as [G|G]; [contradiction | lra]. }
    rewrite E'. field. split; first [exact Hm | intro; lra].
Qed.

Lemma tail_guarded M lin : tail_body true M lin =
  match M with
  | [] => TRaised
  | s0 :: srest => match inv_opt (dotQ lin lin) with
                   | None => TNonFinite
                   | Some linv => TFinite (map (residual2 lin linv) (map (fun r => map2 Qmult (map gscale (colmax s0 srest)) r) (s0 :: srest)))
                   end
  end.
Proof. destruct M as [|s0 srest]; [reflexivity|]. unfold tail_body. rewrite sequence_guarded. reflexivity. Qed.

Lemma tail_scale c S lin : Forall (fun t => 0 < t) c -> Forall (fun r => length r = length c) S ->
  tres_eq (tail_body true (map (mulc c) S) lin) (tail_body true S lin).
Proof.
  intros Hc HR. rewrite !tail_guarded. destruct S as [|s0 srest]; [exact I|].
  change (map (mulc c) (s0 :: srest)) with (mulc c s0 :: map (mulc c) srest). cbv iota beta.
  destruct (inv_opt (dotQ lin lin)) as [linv|]; [|exact I]. cbn [tres_eq].
  inversion HR as [|? ? L0 HR']; subst.
  apply (Forall2_map_gen (Forall2 Qeq) Qeq); [intros p p' Hp; now apply residual2_compat|].
  change (mulc c s0 :: map (mulc c) srest) with (map (mulc c) (s0 :: srest)). rewrite map_map.
  apply (Forall_map2_gen (fun r => length r = length c)); [|exact HR].
  intros r Lr. eapply veq_trans.
  - apply map2_compat; [apply Qmult_compat | | apply veq_refl].
    apply (Forall2_map_gen Qeq Qeq); [apply gscale_compat | apply colmax_scale; assumption].
  - apply norm_row_scale; [|exact Lr | exact Hc].
    unfold colmax. apply (fold_map2_length Qmax' (length c)); assumption.
Qed.

Lemma row_unit : forall r c w, length r = length c -> length c = length w ->
  veq (map2 Qmult (map2 Qmult r c) w) (mulc c (map2 Qmult r w)).
Proof.
  unfold mulc. induction r as [|x r IH]; intros [|y c] [|z w] L1 L2; cbn in L1, L2; try discriminate; [constructor|].
  cbn [map2]. constructor; [ring | apply IH; lia].
Qed.

(** the distances do not depend on the unit an objective is measured in *)
Lemma unit_invariant_lemma m mat c mulv lin : rectm m mat -> length c = m -> length mulv = m -> Forall (fun a => 0 < a) c ->
  tres_eq (trans_body true (map (fun r => map2 Qmult r c) mat) mulv lin) (trans_body true mat mulv lin).
Proof.
  intros HR Lc Lw Hc. rewrite !trans_body_split. rewrite map_map.
  set (A := map (fun r => map2 Qmult r mulv) mat).
  assert (HA : Forall (fun r => length r = length c) A).
  { unfold A. rewrite Forall_map. eapply Forall_impl; [|exact HR]. cbv beta. intros r Lr. rewrite map2_length, Lr, Lw, Lc. apply Nat.min_id. }
  assert (T1 : tres_eq (tail_body true (shifted (map (fun r => map2 Qmult (map2 Qmult r c) mulv) mat)) lin)
                       (tail_body true (map (mulc c) (shifted A)) lin)).
  { apply tail_compat. apply meq_trans with (shifted (map (mulc c) A)).
    - apply shifted_compat. unfold A. rewrite map_map. apply (Forall_map2_gen (fun r => length r = m)); [|exact HR].
      intros r Lr. apply row_unit; congruence.
    - now apply shifted_scale. }
  assert (T2 : tres_eq (tail_body true (map (mulc c) (shifted A)) lin) (tail_body true (shifted A) lin)).
  { apply tail_scale; [exact Hc|]. destruct A as [|r0 rest]; [constructor|]. inversion HA as [|? ? L0 HA']; subst.
    change (shifted (r0 :: rest)) with (map (fun r => map2 Qminus r (colmin r0 rest)) (r0 :: rest)).
    rewrite Forall_map. eapply Forall_impl; [|exact HA]. cbv beta. intros r Lr.
    rewrite map2_length, Lr, (colmin_length c rest r0 L0 HA'). apply Nat.min_id. }
  revert T1 T2. generalize (tail_body true (shifted (map (fun r => map2 Qmult (map2 Qmult r c) mulv) mat)) lin)
                           (tail_body true (map (mulc c) (shifted A)) lin) (tail_body true (shifted A) lin).
  intros x y z. destruct x, y, z; cbn; try tauto. intros H1 H2. eapply veq_trans; eassumption.
Qed.

Lemma unit_invariant_all m mat c sign pref : rectm m mat -> length c = m -> length sign = m -> Forall (fun a => 0 < a) c ->
  tres_eq (trans_core (map (fun r => map2 Qmult r c) mat) sign pref) (trans_core mat sign pref) /\
  tres_eq (trans_sel_prob (map (fun r => map2 Qmult r c) mat) sign pref) (trans_sel_prob mat sign pref) /\
  tres_eq (trans_sel_fn (map (fun r => map2 Qmult r c) mat) sign pref) (trans_sel_fn mat sign pref).
Proof.
  intros HR Lc Ls Hc. split; [|split]; try now apply (unit_invariant_lemma m).
  unfold trans_core. destruct (negb (forallb (Qle_bool 0) pref)); [exact I|]. destruct (negb (existsb (Qlt_bool 0) pref)); [exact I|].
  destruct (negb (Qlt_bool 0 (dotQ pref pref))); [exact I|]. now apply (unit_invariant_lemma m).
Qed.
