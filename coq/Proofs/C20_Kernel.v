(** C20 — the attribute layer regenerated from the source (Gen/C20_Kernel.v) IS the table the programme model assumes:
    [gen_props = model_props] and [gen_ctor = model_ctor] by [reflexivity] — a getter returning another attribute, a setter
    writing another attribute, a dropped / added `is not None` guard, another type check, a constructor argument stored under
    another name or a clock starting elsewhere changes the generated table and this file, hence Props/C20.vo, stops compiling.
    On top: what the constructor establishes, the set/get laws, and the agreement of the session model's setter commands with
    the generated tables. *)
From PV Require Import Lib.Common Model.C20_Loop Model.C20_Session Model.C20_Object Gen.C20_Kernel.
Local Open Scope nat_scope.

Lemma gen_props_is_model : gen_props = model_props.  Proof. reflexivity. Qed.
Lemma gen_ctor_is_model : gen_ctor = model_ctor.     Proof. reflexivity. Qed.
Lemma gen_guards_is_model : gen_guards = seq 0 5.    Proof. reflexivity. Qed.

Definition start_value (v : value) : bool := match v with XNone | XDict _ => true | _ => false end.

(** the constructor: with operators of the right classes, an integer t_max and start containers that are dicts or None, every
    argument ends up under its own name, the clock is 0 and no working container exists *)
Lemma kernel_constructor tmax s0 s1 s2 s3 s4 :
  start_value s0 = true -> start_value s1 = true -> start_value s2 = true -> start_value s3 = true -> start_value s4 = true ->
  exists a,
    construct gen_props gen_ctor [XOp 0; XOp 1; XOp 2; XOp 3; XOp 4; XInt tmax; s0; s1; s2; s3; s4] no_attrs = (a, true) /\
    length a = 17 /\
    abs_start a = map (fun v => dict_slot (Some v)) [s0; s1; s2; s3; s4] /\
    abs_work a = [None; None; None; None; None] /\
    (forall j, 5 <= j < 10 -> nth j a None = None) /\
    abs_int a 15 = Some 0%Z /\ abs_int a 16 = Some tmax /\
    (forall k, k < 5 -> abs_op a k = Some k).
Proof.
  intros H0 H1 H2 H3 H4.
  destruct s0; try discriminate H0; destruct s1; try discriminate H1; destruct s2; try discriminate H2;
  destruct s3; try discriminate H3; destruct s4; try discriminate H4;
  (eexists; split; [reflexivity|]; split; [reflexivity|]; split; [reflexivity|]; split; [reflexivity|];
   split; [intros j Hj; do 10 (destruct j as [|j]; [try reflexivity; lia|]); lia|];
   split; [reflexivity|]; split; [reflexivity|];
   intros k Hk; do 5 (destruct k as [|k]; [reflexivity|]); lia).
Qed.

(** ... and it accepts nothing else: a successful construction means the eleven arguments have exactly these types *)
Lemma kernel_constructor_only params a :
  length params = 11 ->
  construct gen_props gen_ctor params no_attrs = (a, true) ->
  exists tmax s0 s1 s2 s3 s4,
    params = [XOp 0; XOp 1; XOp 2; XOp 3; XOp 4; XInt tmax; s0; s1; s2; s3; s4] /\
    start_value s0 = true /\ start_value s1 = true /\ start_value s2 = true /\ start_value s3 = true /\ start_value s4 = true.
Proof.
  intros L H.
  destruct params as [|p0 [|p1 [|p2 [|p3 [|p4 [|p5 [|p6 [|p7 [|p8 [|p9 [|p10 [|x t]]]]]]]]]]]]; try discriminate L.
  cbn in H.
  destruct p0 as [| | |k0|]; cbn in H; try discriminate H. destruct k0 as [|k0]; cbn in H; try discriminate H.
  destruct p1 as [| | |k1|]; cbn in H; try discriminate H. destruct k1 as [|[|k1]]; cbn in H; try discriminate H.
  destruct p2 as [| | |k2|]; cbn in H; try discriminate H. destruct k2 as [|[|[|k2]]]; cbn in H; try discriminate H.
  destruct p3 as [| | |k3|]; cbn in H; try discriminate H. destruct k3 as [|[|[|[|k3]]]]; cbn in H; try discriminate H.
  destruct p4 as [| | |k4|]; cbn in H; try discriminate H. destruct k4 as [|[|[|[|[|k4]]]]]; cbn in H; try discriminate H.
  destruct p5 as [| |z| |]; cbn in H; try discriminate H.
  destruct p6; cbn in H; try discriminate H;
  destruct p7; cbn in H; try discriminate H;
  destruct p8; cbn in H; try discriminate H;
  destruct p9; cbn in H; try discriminate H;
  destruct p10; cbn in H; try discriminate H;
  (do 6 eexists; split; [reflexivity|]; repeat split).
Qed.

(** every row of the generated table reads and writes the attribute of its own number *)
Lemma gen_props_rows p : p < 17 -> exists c, nth_error gen_props p = Some (p, p, c).
Proof. intros H. do 17 (destruct p as [|p]; [eexists; reflexivity|]). lia. Qed.

Lemma nth_set_nth_same {X} (l : list X) n x d : n < length l -> nth n (set_nth n x l) d = x.
Proof. revert n; induction l as [|y l IH]; intros [|n] H; cbn in *; try lia; auto. apply IH; lia. Qed.
Lemma nth_set_nth_other {X} (l : list X) n m x d : n <> m -> nth m (set_nth n x l) d = nth m l d.
Proof. revert n m; induction l as [|y l IH]; intros [|n] [|m] H; cbn; try reflexivity; try congruence. apply IH; congruence. Qed.
Lemma set_nth_len {X} n (x : X) l : length (set_nth n x l) = length l.
Proof. revert n; induction l as [|y l IH]; intros [|n]; cbn; auto. Qed.

(** set / get laws of the generated property table: a setter that accepts its value makes its own getter return exactly that
    value (the same object) and leaves every other property alone; a setter that rejects changes nothing *)
Lemma kernel_set_get a p v :
  length a = 17 -> p < 17 ->
  match prop_set gen_props a p v with
  | (a', true) => length a' = 17 /\ prop_get gen_props a' p = Some v /\
                  forall q, q < 17 -> q <> p -> prop_get gen_props a' q = prop_get gen_props a q
  | (a', false) => a' = a
  end.
Proof.
  intros L Hp. destruct (gen_props_rows p Hp) as (c & E). unfold prop_set. rewrite E.
  destruct (chk_ok c v); [|reflexivity].
  split; [now rewrite set_nth_len|]. split.
  - unfold prop_get. rewrite E. apply nth_set_nth_same. lia.
  - intros q Hq Hne. destruct (gen_props_rows q Hq) as (c' & E'). unfold prop_get. rewrite E'. apply nth_set_nth_other. congruence.
Qed.

(** the session model's setter commands are the generated setters seen through the abstraction:
    start_X accepts a dict or None, X (working container) a dict only, t_cur / t_max an int only *)
Lemma abs_start_set a j v : length a = 17 -> j < 5 ->
  abs_start (set_nth j (Some v) a) = set_nth j (dict_slot (Some v)) (abs_start a) /\ abs_work (set_nth j (Some v) a) = abs_work a.
Proof.
  intros L Hj.
  destruct a as [|a0 [|a1 [|a2 [|a3 [|a4 [|a5 [|a6 [|a7 [|a8 [|a9 [|a10 [|a11 [|a12 [|a13 [|a14 [|a15 [|a16 [|x t]]]]]]]]]]]]]]]]]]; try discriminate L.
  do 5 (destruct j as [|j]; [split; reflexivity|]). lia.
Qed.
Lemma abs_work_set a j v : length a = 17 -> j < 5 ->
  abs_work (set_nth (5 + j) (Some v) a) = set_nth j (dict_slot (Some v)) (abs_work a) /\ abs_start (set_nth (5 + j) (Some v) a) = abs_start a.
Proof.
  intros L Hj.
  destruct a as [|a0 [|a1 [|a2 [|a3 [|a4 [|a5 [|a6 [|a7 [|a8 [|a9 [|a10 [|a11 [|a12 [|a13 [|a14 [|a15 [|a16 [|x t]]]]]]]]]]]]]]]]]]; try discriminate L.
  do 5 (destruct j as [|j]; [split; reflexivity|]). lia.
Qed.

Definition start_after (v : setv) (j : nat) (s : list (option loc)) : list (option loc) * bool :=
  match v with VNone => (set_nth j None s, true) | VLoc l => (set_nth j (Some l) s, true) | VBad => (s, false) end.
Definition work_after (v : setv) (j : nat) (w : list (option loc)) : list (option loc) * bool :=
  match v with VLoc l => (set_nth j (Some l) w, true) | _ => (w, false) end.

Lemma kernel_start_setter a j v : length a = 17 -> j < 5 ->
  let '(a', ok) := prop_set gen_props a j (setv_value v) in
  (abs_start a', ok) = start_after v j (abs_start a) /\ abs_work a' = abs_work a.
Proof.
  intros L Hj. assert (Hp : j < 17) by lia. destruct (gen_props_rows j Hp) as (c & E).
  assert (Ec : c = ChkDictOrNone) by (revert E; do 5 (destruct j as [|j]; [cbn; congruence|]); lia).
  unfold prop_set. rewrite E, Ec. destruct v as [|l|]; cbn [setv_value chk_ok start_after].
  - destruct (abs_start_set a j XNone L Hj) as (H1 & H2). now rewrite H1, H2.
  - destruct (abs_start_set a j (XDict l) L Hj) as (H1 & H2). now rewrite H1, H2.
  - split; reflexivity.
Qed.
Lemma kernel_work_setter a j v : length a = 17 -> j < 5 ->
  let '(a', ok) := prop_set gen_props a (5 + j) (setv_value v) in
  (abs_work a', ok) = work_after v j (abs_work a) /\ abs_start a' = abs_start a.
Proof.
  intros L Hj. assert (Hp : 5 + j < 17) by lia. destruct (gen_props_rows (5 + j) Hp) as (c & E).
  assert (Ec : c = ChkDict) by (revert E; do 5 (destruct j as [|j]; [cbn; congruence|]); lia).
  unfold prop_set. rewrite E, Ec. destruct v as [|l|]; cbn [setv_value chk_ok work_after].
  - split; reflexivity.
  - destruct (abs_work_set a j (XDict l) L Hj) as (H1 & H2). now rewrite H1, H2.
  - split; reflexivity.
Qed.
Lemma kernel_clock_setters a v : length a = 17 ->
  (forall z, v = XInt z -> exists a1 a2, prop_set gen_props a 15 v = (a1, true) /\ abs_int a1 15 = Some z /\ abs_int a1 16 = abs_int a 16 /\
                                         prop_set gen_props a 16 v = (a2, true) /\ abs_int a2 16 = Some z /\ abs_int a2 15 = abs_int a 15) /\
  ((forall z, v <> XInt z) -> prop_set gen_props a 15 v = (a, false) /\ prop_set gen_props a 16 v = (a, false)).
Proof.
  intros L.
  destruct a as [|a0 [|a1 [|a2 [|a3 [|a4 [|a5 [|a6 [|a7 [|a8 [|a9 [|a10 [|a11 [|a12 [|a13 [|a14 [|a15 [|a16 [|x t]]]]]]]]]]]]]]]]]]; try discriminate L.
  split.
  - intros z ->. do 2 eexists. repeat split.
  - intros H. destruct v; try (split; reflexivity). exfalso. now apply (H z).
Qed.

(** the state a session starts from ([init_state]) is the abstraction of what the generated constructor builds *)
Lemma kernel_init_state leaves dicts start tmax rep0 (s : list (option loc)) :
  length start = 5 -> s = map (dict_loc (length leaves)) start ->
  exists a, construct gen_props gen_ctor
              ([XOp 0; XOp 1; XOp 2; XOp 3; XOp 4; XInt tmax] ++ map (fun o => match o with Some l => XDict l | None => XNone end) s) no_attrs = (a, true) /\
            abs_start a = p_start (init_state leaves dicts start tmax rep0) /\
            abs_work a = p_work (init_state leaves dicts start tmax rep0) /\
            abs_int a 15 = Some (p_t (init_state leaves dicts start tmax rep0)) /\
            abs_int a 16 = Some (p_tmax (init_state leaves dicts start tmax rep0)).
Proof.
  intros L ->. destruct start as [|b0 [|b1 [|b2 [|b3 [|b4 [|x t]]]]]]; try discriminate L.
  destruct b0, b1, b2, b3, b4; (eexists; split; [reflexivity|]; repeat split).
Qed.
