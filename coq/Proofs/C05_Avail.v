(** C05 — allele availability (PAU / MOGS): the binary64 tests  pfreq < 1.0, pfreq > 0.0, pfreq <= 0.0, pfreq >= 1.0  on the
    frequency  count / (ploidy*k)  (one correctly rounded division, Lib/FloatDivProof.v) are tests on the integer allele
    count, for every selection of up to 2^53 chromosome copies; hence the coded availability flags equal the definition.
    The FORMER code (rounded reciprocal; tmajor computed with the tminor test) is refuted on its own, clearly named,
    definitions [old_pfreq_of_count] / [old_pau_unavail_code] as a regression witness. *)
From Coq Require Import PrimFloat Reals Lra.
From Flocq Require Import Core IEEE754.BinarySingleNaN IEEE754.PrimFloat.
From PV Require Import Lib.Common Lib.FloatK Lib.FloatDivProof Model.C05_Latent Proofs.C05_Latent.
Local Open Scope Z_scope.

Lemma bool_iff (a b : bool) : (a = true <-> b = true) -> a = b.
Proof. destruct a, b; intros [H1 H2]; try reflexivity; [symmetry; now apply H1 | now apply H2]. Qed.

(** * the four float tests of the source are count tests *)
Lemma fdivZ_ge1 (c N : Z) : 0 <= c <= N -> 0 < N <= 2^53 -> (PrimFloat.leb 1%float (fdivZ c N) = true <-> c = N).
Proof.
  intros Hc HN. destruct (fdivZ_exact c N Hc HN) as [Rq Fq]. destruct B2R_one as [R1 F1].
  destruct (fdivZ_boundary c N Hc HN) as (_ & _ & _ & _ & _ & L).
  rewrite ltb_equiv, Bltb_correct in L by assumption. rewrite leb_equiv, Bleb_correct by assumption.
  rewrite Rlt_bool_iff in L. rewrite Rle_bool_iff. rewrite R1 in *.
  split.
  - intro H. destruct (Z.eq_dec c N) as [E|E]; [exact E|]. assert (H0 : c < N) by lia. apply L in H0. lra.
  - intros ->. destruct (Rlt_dec (B2R (Prim2B (fdivZ N N))) 1) as [r|r]; [apply L in r; lia | lra].
Qed.
Lemma fdivZ_le0 (c N : Z) : 0 <= c <= N -> 0 < N <= 2^53 -> (PrimFloat.leb (fdivZ c N) 0%float = true <-> c = 0).
Proof.
  intros Hc HN. destruct (fdivZ_exact c N Hc HN) as [Rq Fq]. destruct B2R_zero as [R0 F0].
  destruct (fdivZ_boundary c N Hc HN) as (_ & _ & _ & _ & L & _).
  rewrite ltb_equiv, Bltb_correct in L by assumption. rewrite leb_equiv, Bleb_correct by assumption.
  rewrite Rlt_bool_iff in L. rewrite Rle_bool_iff. rewrite R0 in *.
  split.
  - intro H. destruct (Z.eq_dec c 0) as [E|E]; [exact E|]. assert (H0 : 0 < c) by lia. apply L in H0. lra.
  - intros ->. destruct (Rlt_dec 0 (B2R (Prim2B (fdivZ 0 N)))) as [r|r]; [apply L in r; lia | lra].
Qed.

Lemma pfreq_tests (c N : Z) : 0 <= c <= N -> 0 < N <= 2^53 ->
  PrimFloat.ltb (pfreq_of_count c N) 1%float = (c <? N) /\ PrimFloat.ltb 0%float (pfreq_of_count c N) = (0 <? c) /\
  PrimFloat.leb (pfreq_of_count c N) 0%float = (c =? 0) /\ PrimFloat.leb 1%float (pfreq_of_count c N) = (c =? N).
Proof.
  intros Hc HN. unfold pfreq_of_count. destruct (fdivZ_boundary c N Hc HN) as (_ & _ & _ & _ & P0 & P1).
  pose proof (fdivZ_ge1 c N Hc HN) as G1. pose proof (fdivZ_le0 c N Hc HN) as G0.
  repeat split; apply bool_iff; [rewrite P1, Z.ltb_lt | rewrite P0, Z.ltb_lt | rewrite G0, Z.eqb_eq | rewrite G1, Z.eqb_eq]; tauto.
Qed.
(** the frequency is exactly 1.0 / 0.0 iff the locus is fixed in the selection *)
Lemma pfreq_fixed_iff (c N : Z) : 0 <= c <= N -> 0 < N <= 2^53 ->
  (PrimFloat.eqb (pfreq_of_count c N) 1%float = true <-> c = N) /\ (PrimFloat.eqb (pfreq_of_count c N) 0%float = true <-> c = 0).
Proof. intros Hc HN. unfold pfreq_of_count. destruct (fdivZ_boundary c N Hc HN) as (A & B & _). split; assumption. Qed.

(** * MOGS: the coded test equals the definition on the counts, for every target frequency *)
Lemma mogs_flag_exact (c N : Z) (tfv : Q) : 0 <= c <= N -> 0 < N <= 2^53 ->
  mogs_unavail_code (pfreq_of_count c N) tfv = unavail_def c N tfv.
Proof.
  intros Hc HN. destruct (pfreq_tests c N Hc HN) as (_ & _ & F3 & F4).
  unfold mogs_unavail_code, unavail_def. rewrite F3, F4.
  assert (X : Qle_bool tfv 0 = true -> Qle_bool 1 tfv = true -> False).
  { intros A B. apply Qle_bool_iff in A, B. pose proof (Qle_trans _ _ _ B A) as K. unfold Qle in K; cbn in K; lia. }
  destruct (Qle_bool tfv 0) eqn:T0, (Qle_bool 1 tfv) eqn:T1; [exfalso; now apply X | | |]; cbn [negb orb andb];
    destruct (Z.eqb_spec c N), (Z.eqb_spec c 0); cbn; try reflexivity; try lia.
Qed.

(** * PAU: the coded test equals the definition for every target that is a frequency (0 <= tfreq <= 1) *)
Definition t_unit (x : Q) : bool := Qle_bool 0 x && Qle_bool x 1.
Lemma pau_flag_exact (c N : Z) (tfv : Q) : 0 <= c <= N -> 0 < N <= 2^53 -> t_unit tfv = true ->
  pau_unavail_code (pfreq_of_count c N) tfv = unavail_def c N tfv.
Proof.
  intros Hc HN Ht. destruct (pfreq_tests c N Hc HN) as (F1 & F2 & _ & _).
  unfold pau_unavail_code, pau_unavail_gen, unavail_def. cbv zeta. rewrite F1, F2.
  unfold t_unit in Ht. apply andb_prop in Ht as [L0 L1]. apply Qle_bool_iff in L0, L1.
  unfold t_minor, t_major, t_het.
  destruct (Qle_bool tfv 0) eqn:T0.
  - (* target 0 *)
    apply Qle_bool_iff in T0. assert (E0 : (tfv == 0)%Q) by (apply Qle_antisym; assumption).
    assert (Em : Qeq_bool tfv 0 = true) by (apply Qeq_bool_iff; exact E0).
    assert (EM : Qeq_bool tfv 1 = false).
    { destruct (Qeq_bool tfv 1) eqn:E; [|reflexivity]. apply Qeq_bool_iff in E. rewrite E0 in E. discriminate. }
    rewrite Em, EM. cbn [negb andb orb].
    destruct (Z.ltb_spec c N), (Z.ltb_spec 0 c), (Z.eqb_spec c N); cbn; try reflexivity; try lia.
  - assert (Em : Qeq_bool tfv 0 = false).
    { destruct (Qeq_bool tfv 0) eqn:E; [|reflexivity]. apply Qeq_bool_iff in E.
      assert (L : (tfv <= 0)%Q) by (rewrite E; apply Qle_refl). apply Qle_bool_iff in L. congruence. }
    rewrite Em. destruct (Qle_bool 1 tfv) eqn:T1.
    + (* target 1 *)
      apply Qle_bool_iff in T1. assert (E1 : (tfv == 1)%Q) by (apply Qle_antisym; assumption).
      assert (EM : Qeq_bool tfv 1 = true) by (apply Qeq_bool_iff; exact E1).
      rewrite EM. cbn [negb andb orb].
      destruct (Z.ltb_spec c N), (Z.ltb_spec 0 c), (Z.eqb_spec c 0); cbn; try reflexivity; try lia.
    + (* strictly between *)
      assert (EM : Qeq_bool tfv 1 = false).
      { destruct (Qeq_bool tfv 1) eqn:E; [|reflexivity]. apply Qeq_bool_iff in E.
        assert (L : (1 <= tfv)%Q) by (rewrite E; apply Qle_refl). apply Qle_bool_iff in L. congruence. }
      rewrite EM. cbn [negb andb orb].
      destruct (Z.ltb_spec c N), (Z.ltb_spec 0 c), (Z.eqb_spec c N), (Z.eqb_spec c 0); cbn; try reflexivity; try lia.
Qed.

(** * whole-vector statements *)
Lemma wsum_flags_ext w p t f g : (forall j q, (j < p)%nat -> (q < t)%nat -> f j q = g j q) -> wsum_flags w p t f = wsum_flags w p t g.
Proof.
  intros H. unfold wsum_flags. apply map_ext_in. intros q Hq. apply in_seq in Hq. unfold sumf. f_equal. apply map_ext_in. intros j Hj. apply in_seq in Hj. rewrite H by lia. reflexivity.
Qed.
Definition geno_ok (ploidy : Z) (G : list (list Z)) (s : list nat) (p : nat) : Prop :=
  forall j, (j < p)%nat -> 0 <= acount G s j <= popsize ploidy s.
Lemma mogs_pau_exact pl G w tf p t s : 0 < popsize pl s <= 2^53 -> geno_ok pl G s p ->
  mogs_pau_code pl G w tf p t s = pau_def pl G w tf p t s.
Proof.
  intros HN Hg. unfold mogs_pau_code, pau_def. apply wsum_flags_ext. intros j q Hj Hq. unfold pfreq_f.
  apply mogs_flag_exact; [apply Hg, Hj | exact HN].
Qed.
Definition targets_unit (tf : list (list Q)) (p t : nat) : Prop := forall j q, (j < p)%nat -> (q < t)%nat -> t_unit (mget tf j q) = true.
Lemma pau_exact pl G w tf p t s : 0 < popsize pl s <= 2^53 -> geno_ok pl G s p -> targets_unit tf p t ->
  pau_code pl G w tf p t s = pau_def pl G w tf p t s.
Proof.
  intros HN Hg Ht. unfold pau_code, pau_def. apply wsum_flags_ext. intros j q Hj Hq. unfold pfreq_f.
  apply pau_flag_exact; [apply Hg, Hj | exact HN | apply Ht; assumption].
Qed.
(** genotypes in {0..ploidy} give counts in range: the hypothesis [geno_ok] is what a genotype matrix satisfies *)
Lemma geno_ok_of_entries pl G s p : 0 <= pl -> (forall i j, In i s -> (j < p)%nat -> 0 <= zget G i j <= pl) -> geno_ok pl G s p.
Proof.
  intros Hpl H j Hj. unfold acount, popsize, sumZ. induction s as [|a s IH]; cbn [map fold_right length].
  - rewrite Z.mul_0_r. lia.
  - assert (A : 0 <= zget G a j <= pl) by (apply H; [now left | exact Hj]).
    assert (B : 0 <= fold_right Z.add 0 (map (fun i => zget G i j) s) <= pl * Z.of_nat (length s)) by (apply IH; intros i j' Hi Hj'; apply H; [now right | exact Hj']).
    rewrite Nat2Z.inj_succ. lia.
Qed.

(** * regression witnesses about the FORMER code *)
(** the sizes at which the rounded reciprocal was harmless: fl(fl(1/N) * N) = 1 *)
Definition old_size_ok (N : Z) : bool := PrimFloat.eqb (old_pfreq_of_count N N) 1%float.
(** the rounded reciprocal at a size that is not [old_size_ok]: 49 copies, all carrying the allele, target 1/2 *)
Lemma old_pfreq_reciprocal_refuted : exists c N tfv, 1 <= N <= 1024 /\ 0 <= c <= N /\ t_het tfv = true /\
  mogs_unavail_code (old_pfreq_of_count c N) tfv <> unavail_def c N tfv /\ pau_unavail_code (old_pfreq_of_count c N) tfv <> unavail_def c N tfv.
Proof. exists 49, 49, (1 # 2)%Q. repeat split; try lia; vm_compute; discriminate. Qed.
Lemma old_bad_sizes_256 : filter (fun N => negb (old_size_ok (Z.of_nat N))) (seq 1 256) = [49; 98; 103; 107; 161; 187; 196; 197; 206; 214; 237; 239; 249; 253]%nat.
Proof. vm_compute. reflexivity. Qed.
(** tmajor computed with the tminor test: two diploids fixed for the wanted allele (target 1) were reported as lacking it,
    with the exact frequency 4/4 = 1.0 *)
Lemma old_pau_tmajor_refuted : exists c N tfv, 1 <= N <= 1024 /\ 0 <= c <= N /\ t_unit tfv = true /\
  old_pau_unavail_code (pfreq_of_count c N) tfv <> unavail_def c N tfv.
Proof. exists 4, 4, 1%Q. repeat split; try lia. vm_compute. discriminate. Qed.
Local Close Scope Z_scope.
