(** C20 — proofs, part 6: every replicate begins with a reset whose copies did not exist before the replicate
    (fresh with respect to the start state, earlier replicates' working sets and the operators' memory alike) and
    carry the start contents — this needs no assumption on the operators at all: it only depends on the state in
    which the replicate is entered. *)
From PV Require Import Lib.Common Model.C20_Loop Proofs.C20_Heap Proofs.C20_Indep.
Local Open Scope nat_scope.
Arguments hget : simpl never.

Section Fresh.
Variable h0 : heap.
Variable start : list (option loc).
Hypothesis Hwf : start_wf h0 start.
Hypothesis Hlen5 : length start = 5.

(** the property of a replicate's first two events, relative to the heap [h] at its entry *)
Definition starts_fresh (h : heap) (evs : list event) (ok : bool) : Prop :=
  exists r tl, evs = r :: tl /\ e_tag r = T_RESET /\ e_hin r = h /\
    match tl with
    | [] => ok = false
    | e :: _ => e_tag e = T_EVAL /\ e_t e = 0%Z /\
                map (map (fun x : Z * loc * list Z => (fst (fst x), snd x))) (e_dat e) = start_contents h0 start /\
                (forall l, In l (ev_locs e) -> length h <= l) /\
                (forall l, In l (ev_locs e) -> ~ SR h0 start l)
    end.

Lemma reset_eval_fresh op tail mv lo st :
  inv h0 start mv lo st ->
  match andthen reset (andthen (call_op T_EVAL op false false) tail) st with
  | (st', evs, ok) => starts_fresh (p_heap st) evs ok
  end.
Proof.
  intros Hi. pose proof Hi as (S & W & T & L & H & A & C & B & D & I1 & I2 & I3).
  unfold andthen at 1. unfold reset.
  destruct (reset_slots (p_heap st) (p_start st) (p_work st)) as [[h' w'] ok] eqn:Er. rewrite S in Er.
  destruct (reset_slots_spec h0 start Hwf Hlen5 start (p_work st) (p_heap st) h' w' ok H L (fun d Hd => Hd) Er)
    as ((ext & ->) & Hfc & Hlw & Hinw & Hok).
  destruct ok.
  2:{ eexists; exists []. repeat split. }
  set (st1 := mkSt (p_heap st ++ ext) (p_stash st) (p_start st) w' 0 (p_tmax st) (p_rep st) (p_mcfg st) (p_misc st)).
  unfold andthen. pose proof (call_op_events T_EVAL op false false st1) as H2.
  destruct (call_op T_EVAL op false false st1) as [[st2 evs2] ok2].
  destruct (Hok eq_refl ltac:(lia)) as (ds' & Hf & HF2).
  rewrite firstn_all_eq in Hf by lia.
  destruct H2 as [[-> ->]|(e & ws & -> & E1 & E2 & E3 & E4 & E5)].
  { eexists; exists []. repeat split. }
  assert (Hshape : forall evs3 ok3, starts_fresh (p_heap st) (mkEv T_RESET 0 (p_tmax st) (p_rep st) [] [] [] w' 0 [] (p_heap st) (p_heap st ++ ext) :: [e] ++ evs3) ok3).
  { intros evs3 ok3. eexists; eexists. split; [reflexivity|]. split; [reflexivity|]. split; [reflexivity|]. cbn [app].
    unfold st1 in E2, E3, E4, E5; cbn in E2, E3, E4, E5.
    rewrite Hf, somes_map_Some in E3. injection E3 as <-. rewrite E4 in E5.
    split; [exact E1|]. split; [exact E2|]. split; [rewrite E5, snap_contents; eapply contents_of_copies; eauto|].
    assert (Hds : forall d', In d' ds' -> length (p_heap st) <= d' < length (p_heap st ++ ext)).
    { intros d' Hd'. destruct (Forall2_in_r _ _ _ _ HF2 Hd') as (o & _ & (d & _ & Hr & _)). exact Hr. }
    assert (Hall : forall l, In l (ev_locs e) -> length (p_heap st) <= l < length (p_heap st ++ ext)).
    { intros l Hin. unfold ev_locs in Hin. rewrite E4, E5 in Hin. apply in_app_or in Hin.
      destruct Hin as [Hin|Hin]; [now apply Hds|].
      apply in_concat in Hin. destruct Hin as (row & Hrow & Hl). apply in_map_iff in Hrow.
      destruct Hrow as (sn & <- & Hsn). unfold snap in Hsn. apply in_map_iff in Hsn. destruct Hsn as (d' & <- & Hd').
      apply in_map_iff in Hl. destruct Hl as (x & <- & Hx). unfold snap1 in Hx.
      destruct (hget (p_heap st ++ ext) d') as [[kvs|xs]|] eqn:Eg; try (now destruct Hx).
      apply in_map_iff in Hx. destruct Hx as ([k l1] & <- & Hk). cbn.
      exact (Hfc d' kvs k l1 (Hds _ Hd') Eg Hk). }
    split; intros l Hin; apply Hall in Hin; [lia|]. intros Hs. apply (SR_below h0 start Hwf) in Hs. lia. }
  destruct ok2.
  - destruct (tail st2) as [[st3 evs3] ok3]. cbn [app]. apply (Hshape evs3 ok3).
  - cbn [app]. specialize (Hshape [] false). now rewrite app_nil_r in Hshape.
Qed.

Theorem replicate_starts_fresh ops ngen li mv lo st :
  inv h0 start mv lo st ->
  match replicate ops ngen li st with (st', evs, ok) => starts_fresh (p_heap st) evs ok end.
Proof.
  intros Hi. unfold replicate. unfold andthen at 1. cbn [bump_rep].
  set (stb := mkSt (p_heap st) (p_stash st) (p_start st) (p_work st) (p_t st) (p_tmax st) (p_rep st + 1)%Z (p_mcfg st) (p_misc st)).
  assert (Hib : inv h0 start mv lo stb).
  { destruct Hi as (S & W & T & L & H & A & R). unfold inv, stb; cbn. repeat split; auto. exists A. exact R. }
  pose proof (reset_eval_fresh (o_eval ops)
                (andthen (if li then call_log L_INIT (l_init ops) false else ret_ok) (andthen tick (advance ops ngen))) mv lo stb Hib) as HF.
  change (p_heap stb) with (p_heap st) in HF.
  destruct (andthen reset _ stb) as [[st' evs] ok]. exact HF.
Qed.
End Fresh.

(** all replicates of an evolve call are entered in states satisfying the invariant, so the statement holds for each *)
Section Each.
Variable h0 : heap.
Variable start : list (option loc).
Hypothesis Hwf : start_wf h0 start.
Hypothesis Hlen5 : length start = 5.
Variable ops : opset.
Hypothesis Hops : ops_wb ops.

(** the trace of [n] replicates is the concatenation of [n] per-replicate traces, each starting fresh w.r.t. the heap
    at ITS entry *)
Inductive rep_traces : heap -> nat -> list event -> Prop :=
| RT_done h n : rep_traces h n []
| RT_last h n evs : starts_fresh h0 start h evs false -> rep_traces h (S n) evs
| RT_more h n evs h1 evs' : starts_fresh h0 start h evs true -> rep_traces h1 n evs' -> rep_traces h (S n) (evs ++ evs').

Theorem replicates_each_fresh ngen li n lo st : (lo <= 1)%Z ->
  inv h0 start false lo st ->
  rep_traces (p_heap st) n (snd (fst (iter n (replicate ops ngen li) st))).
Proof.
  intros Hlo. revert st. induction n as [|n IH]; intros st Hi; cbn [iter]; [constructor|].
  unfold andthen.
  pose proof (replicate_starts_fresh h0 start Hwf Hlen5 ops ngen li false lo st Hi) as HF.
  pose proof (ispec_replicate h0 start Hwf Hlen5 ops Hops ngen li lo st Hi) as HI.
  destruct (replicate ops ngen li st) as [[st1 ev1] ok1]. destruct ok1.
  - destruct HI as (I1 & _). specialize (I1 eq_refl).
    assert (I1' : inv h0 start false lo st1) by exact (inv_lo h0 start Hlen5 false 1%Z lo st1 Hlo I1).
    specialize (IH st1 I1'). destruct (iter n (replicate ops ngen li) st1) as [[st2 ev2] ok2]. cbn [fst snd] in *.
    eapply RT_more; eauto.
  - cbn [fst snd]. now apply RT_last.
Qed.
End Each.
