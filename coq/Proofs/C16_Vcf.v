(** C16 — lemmas about Model/C16_Vcf.v: the record built from a VCF data line through the generated attribute selectors is
    (CHROM, the coordinate of the POS column itself, ID or "None", the calls) — closed by [reflexivity] up to
    (pos - 1) + 1 = pos, so an importer that reads another attribute (variant.end, variant.start, the 32-bit variant.POS, ...)
    makes this file, hence Props/C16.vo, stop compiling.  The FORMER importers (variant.POS) are kept as [old_rec_of_line] /
    [old_vcf_text_import] with their refutation. *)
From Coq Require Import String PrimFloat Permutation Sorted Lia.
From PV Require Import Lib.Common Lib.FloatK Model.C16_Store Model.C16_Codec Gen.C16_Kernel Model.C16_Vcf Proofs.C16_Codec.
Local Open Scope Z_scope.

Definition id_text (l : vline) : str := match l_id l with Some s => s | None => none_str end.

Lemma rec_of_line_model ph l : rec_of_line ph l = mkV (l_chrom l) (l_pos l) (Some (id_text l)) (l_gt l).
Proof.
  assert (E : l_pos l - 1 + 1 = l_pos l) by lia.
  destruct ph; unfold rec_of_line, id_text, k_vcf_pgm_phypos, k_vcf_gm_phypos, a_start; rewrite E; destruct (l_id l); reflexivity.
Qed.
(** the former importers read the 32-bit attribute *)
Lemma old_rec_of_line_model l : old_rec_of_line l = mkV (l_chrom l) (wrap32 (l_pos l)) (Some (id_text l)) (l_gt l).
Proof. reflexivity. Qed.

Lemma layout_current : layout_ok true = true /\ layout_ok false = true.
Proof. split; reflexivity. Qed.

Definition in_range32 (l : vline) : Prop := 0 <= l_pos l < 2147483648.
Lemma wrap32_id z : 0 <= z < 2147483648 -> wrap32 z = z.
Proof. intro H. unfold wrap32. rewrite Z.mod_small by lia. lia. Qed.

Definition dline : vline := mkL 0 0 None [] [] [].

(** without grouping every array is the file text, line by line: CHROM, POS, ID ('.' read as "None"), the GT calls — whatever
    REF and ALT are (deletions, insertions, MNPs, several ALT alleles), for EVERY coordinate (no 32-bit caveat: the position is
    variant.start + 1, a 64-bit attribute) *)
Theorem vcf_text_import_exact (phased : bool) (n : nat) (lines : list vline) :
  let o := vcf_text_import phased n lines false in
  vo_chr o = map l_chrom lines /\ vo_pos o = map l_pos lines /\ vo_name o = map id_text lines /\ vo_meta o = None
  /\ (forall i j, (i < n)%nat -> (j < length lines)%nat ->
        let g := nth i (l_gt (nth j lines dline)) (0, 0) in
        if phased then nth j (nth i (nth 0 (vo_mat o) []) []) 0 = fst g /\ nth j (nth i (nth 1 (vo_mat o) []) []) 0 = snd g
        else nth j (nth i (nth 0 (vo_mat o) []) []) 0 = fst g + snd g).
Proof.
  cbn zeta. unfold vcf_text_import.
  destruct (vcf_import_exact phased n (map (rec_of_line phased) lines)) as (Hc & Hp & Hn & Hm & Hg).
  rewrite Hc, Hp, Hn, Hm, !map_map. repeat split.
  - apply map_ext. intro l. rewrite rec_of_line_model. reflexivity.
  - apply map_ext. intro l. rewrite rec_of_line_model. reflexivity.
  - apply map_ext. intro l. rewrite rec_of_line_model. reflexivity.
  - intros i j Hi Hj. specialize (Hg i j Hi). rewrite map_length in Hg. specialize (Hg Hj). cbn zeta in Hg.
    assert (E : vgt (nth j (map (rec_of_line phased) lines) (mkV 0 0 None [])) = l_gt (nth j lines dline)).
    { rewrite (nth_indep _ _ (rec_of_line phased dline)) by (rewrite map_length; exact Hj). rewrite map_nth, rec_of_line_model. reflexivity. }
    rewrite E in Hg. exact Hg.
Qed.

(** with grouping: the import of the text is the import of its records stably sorted by (chromosome, position as read) *)
Theorem vcf_text_import_grouped (phased : bool) (n : nat) (lines : list vline) :
  let recs := map (rec_of_line phased) lines in
  let rs := isort vkey_leb recs in
  Permutation rs recs /\ StronglySorted (fun a b => vkey_leb a b = true) rs
  /\ vo_mat (vcf_text_import phased n lines true) = vo_mat (vcf_import phased n rs false)
  /\ vo_chr (vcf_text_import phased n lines true) = map vchrom rs /\ vo_pos (vcf_text_import phased n lines true) = map vpos rs
  /\ vo_name (vcf_text_import phased n lines true) = vo_name (vcf_import phased n rs false)
  /\ vo_meta (vcf_text_import phased n lines true) = Some (grp_meta (map vchrom rs)).
Proof. exact (vcf_import_grouped phased n (map (rec_of_line phased) lines)). Qed.

(** REF and ALT play no part: two files that agree in CHROM, POS, ID and the calls import to the same object, for both importers and
    both values of auto_group_vrnt (a position taken from [variant.end] moves with the length of REF) *)
Definition line_core (l : vline) : Z * Z * option str * list (Z * Z) := (l_chrom l, l_pos l, l_id l, l_gt l).
Theorem vcf_text_import_ref_alt_irrelevant (phased : bool) (n : nat) (auto_group : bool) (ls ls' : list vline) :
  map line_core ls = map line_core ls' -> vcf_text_import phased n ls auto_group = vcf_text_import phased n ls' auto_group.
Proof.
  intro H. unfold vcf_text_import.
  set (F := fun c : Z * Z * option str * list (Z * Z) =>
              mkV (fst (fst (fst c))) (snd (fst (fst c))) (Some (match snd (fst c) with Some s => s | None => none_str end)) (snd c)).
  assert (E : forall l, rec_of_line phased l = F (line_core l)) by (intro l; rewrite rec_of_line_model; reflexivity).
  rewrite (map_ext _ _ E ls), (map_ext _ _ E ls'), <- !(map_map line_core F), H. reflexivity.
Qed.

(** regression witness, about the FORMER importers ([old_vcf_text_import]: vrnt_phypos.append(variant.POS), cyvcf2's 32-bit field):
    a coordinate beyond 2^31 - 1 was NOT reproduced (finding C16-vcf-pos-int32-wrap, repaired); the same line imports exactly now *)
Definition w_big : vline := mkL 1 2147483648 None [65] [67] [(0, 1)].
Theorem old_vcf_text_pos_refuted :
  exists l : vline, l_pos l = 2147483648 /\ (forall ph ag, vo_pos (old_vcf_text_import ph 1 [l] ag) = [-2147483648])
                    /\ (forall ph ag, vo_pos (vcf_text_import ph 1 [l] ag) = [2147483648]).
Proof. exists w_big. split; [reflexivity | split; intros [] []; vm_compute; reflexivity]. Qed.
(** ... and with grouping the former importers ordered the variants by the wrapped values *)
Lemma old_vcf_text_order_refuted :
  let ls := [mkL 1 5000000000 None [65] [67] [(0, 1)]; mkL 1 2147483647 None [65] [67] [(1, 1)]] in
  forall ph, vo_pos (old_vcf_text_import ph 1 ls true) = [705032704; 2147483647] /\ vo_pos (vcf_text_import ph 1 ls true) = [2147483647; 5000000000].
Proof. intros ls []; split; vm_compute; reflexivity. Qed.
(** the former importers agree with the current ones on every coordinate a 32-bit field holds *)
Lemma old_vcf_text_import_in_range ph n lines ag :
  Forall in_range32 lines -> old_vcf_text_import ph n lines ag = vcf_text_import ph n lines ag.
Proof.
  intro Hr. unfold old_vcf_text_import, vcf_text_import. f_equal. apply map_ext_in. intros l Hl.
  rewrite old_rec_of_line_model, rec_of_line_model, wrap32_id; [reflexivity | rewrite Forall_forall in Hr; exact (Hr l Hl)].
Qed.

(** concrete non-trivial value: a deletion, an insertion without identifier, an MNP at the largest 32-bit coordinate, a SNP beyond 2^32 *)
Definition w_lines : list vline :=
  [mkL 3 100 (Some [114; 115; 49]) [65; 67; 71; 84] [65] [(0, 1); (1, 0)]; mkL 1 50 None [65] [65; 67; 67] [(1, 1); (0, 0)];
   mkL 1 2147483647 (Some [109]) [65; 67] [71; 84] [(0, 0); (1, 0)]; mkL 1 5000000000 None [65] [67] [(1, 0); (0, 1)]].
Lemma w_lines_result : vo_pos (vcf_text_import true 2 w_lines false) = [100; 50; 2147483647; 5000000000]
                       /\ vo_pos (vcf_text_import false 2 w_lines true) = [50; 2147483647; 5000000000; 100].
Proof. split; vm_compute; reflexivity. Qed.
Lemma w_lines_prefix_in_range : Forall in_range32 (firstn 3 w_lines).
Proof. repeat constructor; unfold in_range32; cbn; lia. Qed.
