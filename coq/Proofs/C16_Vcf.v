(** C16 — lemmas about Model/C16_Vcf.v: the record built from a VCF data line through the generated attribute selectors is
    (CHROM, POS as cyvcf2 gives it, ID or "None", the calls) — closed by [reflexivity], so an importer that reads another
    attribute (variant.end, variant.start, ...) makes this file, hence Props/C16.vo, stop compiling. *)
From Coq Require Import String PrimFloat Permutation Sorted Lia.
From PV Require Import Lib.Common Lib.FloatK Model.C16_Store Model.C16_Codec Gen.C16_Kernel Model.C16_Vcf Proofs.C16_Codec.
Local Open Scope Z_scope.

Definition id_text (l : vline) : str := match l_id l with Some s => s | None => none_str end.

Lemma rec_of_line_model ph l : rec_of_line ph l = mkV (l_chrom l) (wrap32 (l_pos l)) (Some (id_text l)) (l_gt l).
Proof. destruct ph; unfold rec_of_line, id_text; destruct (l_id l); reflexivity. Qed.

Lemma layout_current : layout_ok true = true /\ layout_ok false = true.
Proof. split; reflexivity. Qed.

Definition in_range32 (l : vline) : Prop := 0 <= l_pos l < 2147483648.
Lemma wrap32_id z : 0 <= z < 2147483648 -> wrap32 z = z.
Proof. intro H. unfold wrap32. rewrite Z.mod_small by lia. lia. Qed.

Definition dline : vline := mkL 0 0 None [] [] [].

(** without grouping every array is the file text, line by line: CHROM, POS, ID ('.' read as "None"), the GT calls — whatever
    REF and ALT are (deletions, insertions, MNPs, several ALT alleles), for coordinates a 32-bit POS holds *)
Theorem vcf_text_import_exact (phased : bool) (n : nat) (lines : list vline) :
  Forall in_range32 lines ->
  let o := vcf_text_import phased n lines false in
  vo_chr o = map l_chrom lines /\ vo_pos o = map l_pos lines /\ vo_name o = map id_text lines /\ vo_meta o = None
  /\ (forall i j, (i < n)%nat -> (j < length lines)%nat ->
        let g := nth i (l_gt (nth j lines dline)) (0, 0) in
        if phased then nth j (nth i (nth 0 (vo_mat o) []) []) 0 = fst g /\ nth j (nth i (nth 1 (vo_mat o) []) []) 0 = snd g
        else nth j (nth i (nth 0 (vo_mat o) []) []) 0 = fst g + snd g).
Proof.
  intros Hr. cbn zeta. unfold vcf_text_import.
  destruct (vcf_import_exact phased n (map (rec_of_line phased) lines)) as (Hc & Hp & Hn & Hm & Hg).
  rewrite Hc, Hp, Hn, Hm, !map_map. repeat split.
  - apply map_ext. intro l. rewrite rec_of_line_model. reflexivity.
  - apply map_ext_in. intros l Hl. rewrite rec_of_line_model. cbn. apply wrap32_id. rewrite Forall_forall in Hr. exact (Hr l Hl).
  - apply map_ext. intro l. rewrite rec_of_line_model. reflexivity.
  - intros i j Hi Hj. specialize (Hg i j Hi). rewrite map_length in Hg. specialize (Hg Hj). cbn zeta in Hg.
    assert (E : vgt (nth j (map (rec_of_line phased) lines) (mkV 0 0 None [])) = l_gt (nth j lines dline)).
    { rewrite (nth_indep _ _ (rec_of_line phased dline)) by (rewrite map_length; exact Hj). rewrite map_nth, rec_of_line_model. reflexivity. }
    rewrite E in Hg. exact Hg.
Qed.

(** with grouping: the import of the text is the import of its records stably sorted by (chromosome, position as read) *)
Theorem vcf_text_import_grouped (phased : bool) (n : nat) (lines : list vline) :
  let recs := map (rec_of_line phased) lines in
  let rs := isort vkey_leb recs in
  Permutation rs recs /\ StronglySorted (fun a b => vkey_leb a b = true) rs
  /\ vo_mat (vcf_text_import phased n lines true) = vo_mat (vcf_import phased n rs false)
  /\ vo_chr (vcf_text_import phased n lines true) = map vchrom rs /\ vo_pos (vcf_text_import phased n lines true) = map vpos rs
  /\ vo_name (vcf_text_import phased n lines true) = vo_name (vcf_import phased n rs false)
  /\ vo_meta (vcf_text_import phased n lines true) = Some (grp_meta (map vchrom rs)).
Proof. exact (vcf_import_grouped phased n (map (rec_of_line phased) lines)). Qed.

(** REF and ALT play no part: two files that agree in CHROM, POS, ID and the calls import to the same object, for both importers and
    both values of auto_group_vrnt (a position taken from [variant.end] moves with the length of REF) *)
Definition line_core (l : vline) : Z * Z * option str * list (Z * Z) := (l_chrom l, l_pos l, l_id l, l_gt l).
Theorem vcf_text_import_ref_alt_irrelevant (phased : bool) (n : nat) (auto_group : bool) (ls ls' : list vline) :
  map line_core ls = map line_core ls' -> vcf_text_import phased n ls auto_group = vcf_text_import phased n ls' auto_group.
Proof.
  intro H. unfold vcf_text_import.
  set (F := fun c : Z * Z * option str * list (Z * Z) =>
              mkV (fst (fst (fst c))) (wrap32 (snd (fst (fst c)))) (Some (match snd (fst c) with Some s => s | None => none_str end)) (snd c)).
  assert (E : forall l, rec_of_line phased l = F (line_core l)) by (intro l; rewrite rec_of_line_model; reflexivity).
  rewrite (map_ext _ _ E ls), (map_ext _ _ E ls'), <- !(map_map line_core F), H. reflexivity.
Qed.

(** a coordinate beyond 2^31 - 1 is NOT reproduced (cyvcf2's POS is a 32-bit field; the importers read it) *)
Definition w_big : vline := mkL 1 2147483648 None [65] [67] [(0, 1)].
Theorem vcf_text_pos_refuted :
  exists l : vline, l_pos l = 2147483648 /\ forall ph ag, vo_pos (vcf_text_import ph 1 [l] ag) = [-2147483648].
Proof. exists w_big. split; [reflexivity | intros [] []; vm_compute; reflexivity]. Qed.

(** witness for the hypotheses: a deletion, an insertion without identifier, an MNP at the largest 32-bit coordinate *)
Definition w_lines : list vline :=
  [mkL 3 100 (Some [114; 115; 49]) [65; 67; 71; 84] [65] [(0, 1); (1, 0)]; mkL 1 50 None [65] [65; 67; 67] [(1, 1); (0, 0)];
   mkL 1 2147483647 (Some [109]) [65; 67] [71; 84] [(0, 0); (1, 0)]].
Lemma w_lines_in_range : Forall in_range32 w_lines.
Proof. repeat constructor; unfold in_range32; cbn; lia. Qed.
Lemma w_lines_result : vo_pos (vcf_text_import true 2 w_lines false) = [100; 50; 2147483647]
                       /\ vo_pos (vcf_text_import false 2 w_lines true) = [50; 2147483647; 100].
Proof. split; vm_compute; reflexivity. Qed.
