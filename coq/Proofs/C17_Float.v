(** C17 — the binary64 comparisons of the source (as regenerated in Gen/C17_Kernel.v: [k_sus_guard_f], [k_sus_positive_f])
    are, on finite doubles, the exact-value comparisons the model and the assembled program use ([f2q] then [Qle_bool]);
    through Flocq's bridge between PrimFloat and its IEEE-754 formalisation. *)
From Coq Require Import ZArith QArith Qreals Reals Lra Lia PrimFloat FloatOps SpecFloat Qpower.
From Flocq Require Import Core IEEE754.BinarySingleNaN IEEE754.PrimFloat.
From PV Require Import Lib.Common Model.C17_Sampling Gen.C17_Kernel.

(** ** binary64 comparisons of finite doubles are the comparisons of their exact values *)
Lemma Q2R_inject_Z z : Q2R (inject_Z z) = IZR z.
Proof. unfold Q2R, inject_Z. cbn. field. Qed.
Lemma f2q_R x : Q2R (f2q x) = B2R (Prim2B x).
Proof.
  rewrite <- SF2R_B2SF, B2SF_Prim2B. unfold f2q. destruct (Prim2SF x) as [s|s| |s m e]; cbn [SF2R]; try (unfold Q2R; cbn; lra).
  assert (E : Q2R (inject_Z (Z.pos m) * 2 ^ e) = (IZR (Z.pos m) * bpow radix2 e)%R).
  { rewrite Q2R_mult, Q2R_inject_Z, RMicromega.Q2RpowerRZ by (left; discriminate). rewrite bpow_powerRZ.
    replace (Q2R 2) with (IZR radix2) by (unfold Q2R; cbn; lra). reflexivity. }
  unfold F2R. cbn [Fnum Fexp]. destruct s; cbn [cond_Zopp].
  - rewrite Q2R_opp, E. rewrite opp_IZR. lra.
  - exact E.
Qed.
Lemma f_finite_is_finite x : f_finite x = true -> is_finite (Prim2B x) = true.
Proof. intros H. rewrite <- is_finite_SF_B2SF, B2SF_Prim2B. exact H. Qed.
Lemma leb_f2q x y : f_finite x = true -> f_finite y = true -> PrimFloat.leb x y = Qle_bool (f2q x) (f2q y).
Proof.
  intros Hx Hy. rewrite leb_equiv, Bleb_correct by (apply f_finite_is_finite; assumption). rewrite <- !f2q_R.
  destruct (Rle_bool_spec (Q2R (f2q x)) (Q2R (f2q y))) as [H|H]; symmetry.
  - apply Qle_bool_iff, Rle_Qle, H.
  - apply Bool.not_true_is_false. intros H'. apply Qle_bool_iff, Qle_Rle in H'. lra.
Qed.
Lemma ltb_f2q x y : f_finite x = true -> f_finite y = true -> PrimFloat.ltb x y = negb (Qle_bool (f2q y) (f2q x)).
Proof.
  intros Hx Hy. rewrite ltb_equiv, Bltb_correct by (apply f_finite_is_finite; assumption). rewrite <- !f2q_R.
  destruct (Rlt_bool_spec (Q2R (f2q x)) (Q2R (f2q y))) as [H|H]; symmetry.
  - apply Bool.negb_true_iff, Bool.not_true_is_false. intros H'. apply Qle_bool_iff, Qle_Rle in H'. lra.
  - apply Bool.negb_false_iff. apply Qle_bool_iff, Rle_Qle, H.
Qed.
(** the generated binary64 guard and positivity mask are the exact-value ones the model (and the assembled program) uses *)
Lemma k_sus_guard_f_model ix last c ptr : f_finite c = true -> f_finite ptr = true ->
  k_sus_guard_f ix last c ptr = k_sus_guard ix last (f2q c) (f2q ptr).
Proof. intros Hc Hp. unfold k_sus_guard_f, k_sus_guard. now rewrite leb_f2q. Qed.
Lemma k_sus_positive_f_model x : f_finite x = true -> k_sus_positive_f x = k_sus_positive (f2q x).
Proof. intros Hx. unfold k_sus_positive_f, k_sus_positive. rewrite ltb_f2q by (exact Hx || reflexivity). reflexivity. Qed.
Lemma kernel_float_comparisons ix last c ptr x : f_finite c = true -> f_finite ptr = true -> f_finite x = true ->
  k_sus_guard_f ix last c ptr = k_sus_guard ix last (f2q c) (f2q ptr) /\ k_sus_positive_f x = k_sus_positive (f2q x).
Proof. intros Hc Hp Hx. split; [now apply k_sus_guard_f_model | now apply k_sus_positive_f_model]. Qed.
