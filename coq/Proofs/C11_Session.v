(** C11 — sessions on one variant matrix: what a call stores is a function of the map and the map function given to THAT call
    and of the matrix's chromosome / position arrays; the state left by the constructor or by earlier calls does not enter. *)
From Coq Require Import List.
From PV Require Import Lib.Common Model.C11_Map Model.C11_MapFn Model.C11_Check Model.C11_Session Proofs.C11_Map Proofs.C11_MapFn Proofs.C11_Xo
  Gen.C11_Kernel Proofs.C11_Kernel.
Import ListNotations.

Lemma gm_run_snoc variants s pre c : gm_run variants s (pre ++ [c]) = gm_step variants (gm_run variants s pre) c.
Proof. unfold gm_run. now rewrite fold_left_app. Qed.

(** interp_xoprob as the last call: both stored arrays are the generated kernel expression of the source evaluated on the map and
    map function of that call, whatever the matrix carried before ([s]) and whatever was called before ([pre]) *)
Lemma session_xoprob_last variants s pre rows k :
  let sv := sort_pairs variants in
  let st := gm_run variants s (pre ++ [CallXoprob rows k]) in
  (gs_genpos st, gs_xoprob st)
    = (let gp := k_gmat_interp_xoprob _ _ _ _ (interp_arrays rows) (rprob1g_of k) (map fst sv) (map snd sv) in (Some (fst gp), Some (snd gp)))
  /\ st = mkGm (Some (gmat_genpos rows variants)) (Some (xoprob k rows variants)).
Proof.
  cbv zeta. rewrite gm_run_snoc. cbn [gm_step gs_genpos gs_xoprob]. split; [|reflexivity].
  now rewrite (k_interp_xoprob_model k rows variants).
Qed.

Lemma session_xoprob_independent variants s s' pre pre' rows k :
  gm_run variants s (pre ++ [CallXoprob rows k]) = gm_run variants s' (pre' ++ [CallXoprob rows k]).
Proof. now rewrite !gm_run_snoc. Qed.

(** interp_genpos as the last call: the positions are those of the map of that call; the crossover probabilities are not touched *)
Lemma session_genpos_last variants s pre rows :
  let st := gm_run variants s (pre ++ [CallGenpos rows]) in
  gs_genpos st = Some (gmat_genpos rows variants) /\ gs_xoprob st = gs_xoprob (gm_run variants s pre).
Proof. cbv zeta. rewrite gm_run_snoc. split; reflexivity. Qed.

(** every intermediate state of a session: after the i-th call the positions are those of the map of the i-th call *)
Lemma session_every_call variants s calls i c : nth_error calls i = Some c ->
  gs_genpos (gm_run variants s (firstn (S i) calls)) =
    Some (gmat_genpos (match c with CallGenpos rows => rows | CallXoprob rows _ => rows end) variants)
  /\ (forall rows k, c = CallXoprob rows k -> gs_xoprob (gm_run variants s (firstn (S i) calls)) = Some (xoprob k rows variants)).
Proof.
  intros H.
  assert (E : firstn (S i) calls = firstn i calls ++ [c]).
  { revert calls H. induction i as [|i IH]; intros [|a t] H; try discriminate.
    - injection H as ->. reflexivity.
    - cbn [nth_error] in H. change (firstn (S (S i)) (a :: t)) with (a :: firstn (S i) t). rewrite (IH t H). reflexivity. }
  rewrite E, gm_run_snoc. split.
  - destruct c; reflexivity.
  - intros rows k ->. reflexivity.
Qed.
