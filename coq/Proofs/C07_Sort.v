(** C07 — the sorting optimiser (SortingSubsetOptimizationAlgorithm.minimize) = truncation selection:
    argsort is a sorted permutation, the first k form a top-k set, a top-k set minimises an additive criterion
    over all k-subsets, and the selection is equivariant under relabelling of the candidates. *)
From Coq Require Import Permutation Sorting.Sorted.
From PV Require Import Lib.Common Model.C17_Sampling Proofs.C17_Sampling Model.C07_Config.
Local Open Scope nat_scope.

(** * 1. argsort: insertion keeps permutation and order *)
Definition cle (crit : list Z) (i j : nat) : Prop := (nth i crit 0 <= nth j crit 0)%Z.

Lemma ins_by_perm crit i l : Permutation (ins_by crit i l) (i :: l).
Proof.
  induction l as [|j t IH]; cbn [ins_by]; [reflexivity|].
  destruct (nth i crit 0 <=? nth j crit 0)%Z; [reflexivity|].
  eapply perm_trans; [apply perm_skip, IH | apply perm_swap].
Qed.

Lemma sortby_perm crit l : Permutation (fold_right (ins_by crit) [] l) l.
Proof.
  induction l as [|i t IH]; cbn [fold_right]; [constructor|].
  eapply perm_trans; [apply ins_by_perm | now apply perm_skip].
Qed.

Theorem argsort_perm : forall crit, Permutation (argsort crit) (seq 0 (length crit)).
Proof. intros crit. apply sortby_perm. Qed.

Lemma ins_by_sorted crit i l : StronglySorted (cle crit) l -> StronglySorted (cle crit) (ins_by crit i l).
Proof.
  intros H. induction H as [|j t Ht IH Hf]; cbn [ins_by]; [repeat constructor|].
  destruct (Z.leb_spec (nth i crit 0%Z) (nth j crit 0%Z)) as [Hle|Hgt].
  - constructor; [now constructor|]. constructor; [exact Hle|].
    eapply Forall_impl; [|exact Hf]. unfold cle. intros x Hx. lia.
  - constructor; [exact IH|].
    eapply Permutation_Forall; [symmetry; apply ins_by_perm|].
    constructor; [unfold cle; lia | exact Hf].
Qed.

Lemma sortby_sorted crit l : StronglySorted (cle crit) (fold_right (ins_by crit) [] l).
Proof. induction l as [|i t IH]; cbn [fold_right]; [constructor | now apply ins_by_sorted]. Qed.

Theorem argsort_sorted : forall crit,
  StronglySorted (fun i j => (nth i crit 0 <= nth j crit 0)%Z) (argsort crit).
Proof. intros crit. exact (sortby_sorted crit (seq 0 (length crit))). Qed.

Lemma argsort_length crit : length (argsort crit) = length crit.
Proof. rewrite (Permutation_length (argsort_perm crit)). apply seq_length. Qed.

Lemma argsort_NoDup crit : NoDup (argsort crit).
Proof. eapply Permutation_NoDup; [symmetry; apply argsort_perm | apply seq_NoDup]. Qed.

Lemma argsort_In crit i : In i (argsort crit) <-> i < length crit.
Proof.
  split; intros H.
  - apply (Permutation_in _ (argsort_perm crit)) in H. apply in_seq in H. lia.
  - apply (Permutation_in _ (Permutation_sym (argsort_perm crit))). apply in_seq. lia.
Qed.

(** * 2. the top-k property and its boolean check *)
Definition topk_spec (crit : list Z) (sel : list nat) (k : nat) : Prop :=
  length sel = k /\ NoDup sel /\ Forall (fun i => i < length crit) sel /\
  (forall i j, In i sel -> j < length crit -> ~ In j sel -> (nth i crit 0 <= nth j crit 0)%Z).

Lemma existsb_eqb_In x l : existsb (Nat.eqb x) l = true <-> In x l.
Proof.
  rewrite existsb_exists. split.
  - intros (y & Hy & E). apply Nat.eqb_eq in E. now subst.
  - intros H. exists x. split; [exact H | apply Nat.eqb_refl].
Qed.

Lemma nodupb_NoDup l : nodupb l = true <-> NoDup l.
Proof.
  induction l as [|x t IH]; cbn [nodupb]; [split; [constructor | reflexivity]|].
  rewrite andb_true_iff, negb_true_iff, IH. split.
  - intros [H1 H2]. constructor; [|exact H2]. intros Hin. apply existsb_eqb_In in Hin. congruence.
  - intros H. inversion H as [|? ? Hn Ht]; subst. split; [|exact Ht].
    destruct (existsb (Nat.eqb x) t) eqn:E; [|reflexivity]. apply existsb_eqb_In in E. contradiction.
Qed.

Lemma is_topk_iff crit sel k : is_topk crit sel k = true <-> topk_spec crit sel k.
Proof.
  unfold is_topk, topk_spec. rewrite !andb_true_iff, Nat.eqb_eq, nodupb_NoDup, Forall_forall. split.
  - intros [[[H1 H2] H3] H4]. rewrite forallb_forall in H3, H4.
    split; [exact H1|]. split; [exact H2|]. split.
    + intros x Hx. apply Nat.ltb_lt. now apply H3.
    + intros i j Hi Hj Hnj. assert (Hs : In j (seq 0 (length crit))) by (apply in_seq; lia).
      specialize (H4 j Hs). apply orb_true_iff in H4 as [H4|H4].
      * apply existsb_eqb_In in H4. contradiction.
      * rewrite forallb_forall in H4. apply Z.leb_le. now apply H4.
  - intros (H1 & H2 & H3 & H4). split; [split; [split; [exact H1 | exact H2]|]|].
    + apply forallb_forall. intros x Hx. apply Nat.ltb_lt. now apply H3.
    + apply forallb_forall. intros j Hj. apply in_seq in Hj. apply orb_true_iff.
      destruct (existsb (Nat.eqb j) sel) eqn:E; [now left | right].
      apply forallb_forall. intros i Hi. apply Z.leb_le. apply H4; [exact Hi | lia |].
      intros Hin. apply existsb_eqb_In in Hin. congruence.
Qed.

Theorem is_topk_sound : forall crit sel k, is_topk crit sel k = true ->
  length sel = k /\ NoDup sel /\ Forall (fun i => i < length crit) sel /\
  (forall i j, In i sel -> j < length crit -> ~ In j sel -> (nth i crit 0 <= nth j crit 0)%Z).
Proof. intros crit sel k H. now apply is_topk_iff in H. Qed.

Lemma SS_app_inv {A} (R : A -> A -> Prop) l1 l2 : StronglySorted R (l1 ++ l2) ->
  forall a b, In a l1 -> In b l2 -> R a b.
Proof.
  induction l1 as [|x l1 IH]; cbn [app]; intros H a b Ha Hb; [destruct Ha|].
  inversion H as [|? ? Hs Hf]; subst. destruct Ha as [<-|Ha].
  - rewrite Forall_forall in Hf. apply Hf. apply in_or_app. now right.
  - now apply IH.
Qed.

Lemma NoDup_app_l {A} (l1 l2 : list A) : NoDup (l1 ++ l2) -> NoDup l1.
Proof.
  induction l1 as [|x l1 IH]; cbn [app]; intros H; [constructor|].
  inversion H as [|? ? Hn Ht]; subst. constructor; [|now apply IH].
  intros Hin. apply Hn. apply in_or_app. now left.
Qed.

Lemma sort_select_some crit k sel : sort_select crit k = Some sel ->
  k <= length crit /\ sel = firstn k (argsort crit).
Proof.
  unfold sort_select. destruct (Nat.leb_spec k (length crit)) as [Hk|Hk]; [|discriminate].
  intros H. injection H as <-. now split.
Qed.

Lemma sort_select_spec crit k sel : sort_select crit k = Some sel -> topk_spec crit sel k.
Proof.
  intros H. apply sort_select_some in H as (Hk & ->).
  pose proof (firstn_skipn k (argsort crit)) as Hsplit.
  pose proof (argsort_NoDup crit) as Hnd. pose proof (argsort_sorted crit) as Hss.
  rewrite <- Hsplit in Hnd, Hss.
  split; [|split; [|split]].
  - rewrite firstn_length, argsort_length. lia.
  - exact (NoDup_app_l _ _ Hnd).
  - apply Forall_forall. intros i Hi. apply argsort_In. rewrite <- Hsplit. apply in_or_app. now left.
  - intros i j Hi Hj Hnj. apply argsort_In in Hj. rewrite <- Hsplit in Hj. apply in_app_or in Hj as [Hj|Hj]; [contradiction|].
    exact (SS_app_inv _ _ _ Hss i j Hi Hj).
Qed.

Theorem sort_select_topk : forall crit k sel, sort_select crit k = Some sel ->
  length sel = k /\ NoDup sel /\ Forall (fun i => i < length crit) sel /\
  (forall i j, In i sel -> j < length crit -> ~ In j sel -> (nth i crit 0 <= nth j crit 0)%Z) /\
  is_topk crit sel k = true.
Proof.
  intros crit k sel H. pose proof (sort_select_spec crit k sel H) as Hs.
  pose proof (proj2 (is_topk_iff crit sel k) Hs) as Hb. destruct Hs as (H1 & H2 & H3 & H4).
  repeat (split; [assumption|]). exact Hb.
Qed.

(** * 3. optimality for an additive criterion: exchange argument *)
Lemma sumZ_map_Permutation (f : nat -> Z) l l' : Permutation l l' -> sumZ (map f l) = sumZ (map f l').
Proof.
  intros H. induction H as [|x l l' H IH|x y l|l l' l'' H1 IH1 H2 IH2]; cbn [map sumZ fold_right] in *.
  - reflexivity.
  - unfold sumZ in IH. now rewrite IH.
  - lia.
  - congruence.
Qed.

Lemma sumZ_map_remove (f : nat -> Z) l1 a l2 :
  sumZ (map f (l1 ++ a :: l2)) = (f a + sumZ (map f (l1 ++ l2)))%Z.
Proof. rewrite <- (sumZ_map_Permutation f _ _ (Permutation_middle l1 l2 a)). reflexivity. Qed.

Lemma pigeon (sel sel' : list nat) j : NoDup sel -> length sel = length sel' -> In j sel' -> ~ In j sel ->
  exists i, In i sel /\ ~ In i sel'.
Proof.
  intros Hnd Hlen Hj Hnj.
  destruct (Exists_dec (fun i => ~ In i sel') sel) as [E|E].
  - intros x. destruct (in_dec Nat.eq_dec x sel') as [Hx|Hx]; [right; tauto | now left].
  - apply Exists_exists in E. exact E.
  - exfalso. apply Hnj. assert (Hincl : incl sel sel').
    { intros x Hx. destruct (in_dec Nat.eq_dec x sel') as [Hx'|Hx']; [exact Hx'|].
      exfalso. apply E. apply Exists_exists. now exists x. }
    refine (NoDup_length_incl Hnd _ Hincl j Hj). lia.
Qed.

Lemma sum_exchange (f : nat -> Z) : forall sel' sel, NoDup sel -> NoDup sel' -> length sel = length sel' ->
  (forall i j, In i sel -> In j sel' -> ~ In j sel -> (f i <= f j)%Z) ->
  (sumZ (map f sel) <= sumZ (map f sel'))%Z.
Proof.
  induction sel' as [|j s' IH]; intros sel Hnd Hnd' Hlen H.
  - destruct sel; [cbn; lia | discriminate Hlen].
  - inversion Hnd' as [|? ? Hjs Hnds]; subst.
    assert (Hstep : forall l1 i l2, sel = l1 ++ i :: l2 -> (i = j \/ ~ In i (j :: s')) -> (f i <= f j)%Z ->
              (sumZ (map f sel) <= sumZ (map f (j :: s')))%Z).
    { intros l1 i l2 -> Hi Hle. rewrite sumZ_map_remove. cbn [map sumZ fold_right].
      apply NoDup_remove in Hnd as (Hnd1 & Hni).
      assert (Hrest : (sumZ (map f (l1 ++ l2)) <= sumZ (map f s'))%Z).
      { apply IH; [exact Hnd1 | exact Hnds | rewrite app_length in *; cbn [length] in Hlen; lia |].
        intros i' j' Hi' Hj' Hnj'. apply H.
        - apply in_app_or in Hi'. apply in_or_app. destruct Hi'; [now left | right; now right].
        - now right.
        - intros Hin. apply in_app_or in Hin as [Hin|[Hin|Hin]].
          + apply Hnj'. apply in_or_app. now left.
          + subst j'. destruct Hi as [->|Hi]; [contradiction | apply Hi; now right].
          + apply Hnj'. apply in_or_app. now right. }
      unfold sumZ in *. lia. }
    destruct (in_dec Nat.eq_dec j sel) as [Hj|Hj].
    + apply in_split in Hj as (l1 & l2 & E). apply (Hstep l1 j l2 E); [now left | lia].
    + destruct (pigeon sel (j :: s') j Hnd Hlen (or_introl eq_refl) Hj) as (i & Hi & Hni).
      pose proof Hi as Hi2. apply in_split in Hi2 as (l1 & l2 & E).
      apply (Hstep l1 i l2 E); [now right|]. apply H; [exact Hi | now left | exact Hj].
Qed.

(** a top-k set minimises the summed criterion over all k-subsets: truncation selection is exactly optimal for
    an additive criterion *)
Theorem topk_optimal : forall crit sel sel' k,
  length sel = k -> NoDup sel -> Forall (fun i => i < length crit) sel ->
  (forall i j, In i sel -> j < length crit -> ~ In j sel -> (nth i crit 0 <= nth j crit 0)%Z) ->
  length sel' = k -> NoDup sel' -> Forall (fun i => i < length crit) sel' ->
  (sumZ (map (fun i => nth i crit 0%Z) sel) <= sumZ (map (fun i => nth i crit 0%Z) sel'))%Z.
Proof.
  intros crit sel sel' k Hl Hnd Hb Htop Hl' Hnd' Hb'.
  apply sum_exchange; [exact Hnd | exact Hnd' | lia |].
  intros i j Hi Hj Hnj. apply Htop; [exact Hi | | exact Hnj].
  rewrite Forall_forall in Hb'. now apply Hb'.
Qed.

Corollary sort_select_optimal : forall crit k sel sel', sort_select crit k = Some sel ->
  length sel' = k -> NoDup sel' -> Forall (fun i => i < length crit) sel' ->
  (sumZ (map (fun i => nth i crit 0%Z) sel) <= sumZ (map (fun i => nth i crit 0%Z) sel'))%Z.
Proof.
  intros crit k sel sel' H Hl' Hnd' Hb'. destruct (sort_select_spec crit k sel H) as (H1 & H2 & H3 & H4).
  now apply (topk_optimal crit sel sel' k).
Qed.

(** * 4. relabelling *)
Lemma SS_map {A B} (R : B -> B -> Prop) (f : A -> B) l :
  StronglySorted (fun a b => R (f a) (f b)) l -> StronglySorted R (map f l).
Proof.
  intros H. induction H as [|a l Hl IH Hf]; cbn [map]; constructor; [exact IH|].
  rewrite Forall_forall in *. intros y Hy. apply in_map_iff in Hy as (x & <- & Hx). now apply Hf.
Qed.

Lemma sorted_perm_eq : forall l l' : list Z, StronglySorted Z.le l -> StronglySorted Z.le l' ->
  Permutation l l' -> l = l'.
Proof.
  induction l as [|a t IH]; intros l' Hs Hs' Hp.
  - apply Permutation_nil in Hp. now subst.
  - destruct l' as [|b t']; [symmetry in Hp; apply Permutation_nil in Hp; discriminate|].
    inversion Hs as [|? ? Hst Hfa]; subst. inversion Hs' as [|? ? Hst' Hfb]; subst.
    rewrite Forall_forall in Hfa, Hfb.
    assert (Hba : (b <= a)%Z).
    { assert (Hin : In a (b :: t')) by (apply (Permutation_in _ Hp); now left).
      destruct Hin as [->|Hin]; [lia | now apply Hfb]. }
    assert (Hab : (a <= b)%Z).
    { assert (Hin : In b (a :: t)) by (apply (Permutation_in _ (Permutation_sym Hp)); now left).
      destruct Hin as [->|Hin]; [lia | now apply Hfa]. }
    assert (a = b) by lia. subst b. f_equal. apply IH; [exact Hst | exact Hst' |].
    now apply Permutation_cons_inv in Hp.
Qed.

(** the sorted criterion values *)
Definition sorted_vals (crit : list Z) : list Z := map (fun i => nth i crit 0%Z) (argsort crit).

Lemma sorted_vals_sorted crit : StronglySorted Z.le (sorted_vals crit).
Proof. apply SS_map. exact (argsort_sorted crit). Qed.

Lemma sorted_vals_perm crit : Permutation (sorted_vals crit) crit.
Proof.
  unfold sorted_vals. eapply perm_trans; [apply Permutation_map, argsort_perm|]. now rewrite map_nth_seq.
Qed.

Lemma sorted_vals_relabel crit pi : Permutation pi (seq 0 (length crit)) ->
  sorted_vals (permute 0%Z pi crit) = sorted_vals crit.
Proof.
  intros Hpi. apply sorted_perm_eq; [apply sorted_vals_sorted | apply sorted_vals_sorted |].
  eapply perm_trans; [apply sorted_vals_perm|]. eapply perm_trans; [apply permute_Permutation, Hpi|].
  symmetry. apply sorted_vals_perm.
Qed.

Lemma permute_nth (crit : list Z) pi i : i < length pi ->
  nth i (permute 0%Z pi crit) 0%Z = nth (nth i pi 0) crit 0%Z.
Proof.
  intros Hi. unfold permute.
  rewrite (nth_indep _ 0%Z (nth 0 crit 0%Z)) by (now rewrite map_length).
  exact (map_nth (fun j => nth j crit 0%Z) pi 0 i).
Qed.

(** with ties only the set of criterion values is determined *)
Theorem relabel_values : forall crit pi k sel sel',
  Permutation pi (seq 0 (length crit)) ->
  sort_select crit k = Some sel -> sort_select (permute 0%Z pi crit) k = Some sel' ->
  map (fun i => nth i (permute 0%Z pi crit) 0%Z) sel' = map (fun i => nth i crit 0%Z) sel.
Proof.
  intros crit pi k sel sel' Hpi H H'.
  apply sort_select_some in H as (_ & ->). apply sort_select_some in H' as (_ & ->).
  rewrite <- !firstn_map. f_equal. exact (sorted_vals_relabel crit pi Hpi).
Qed.

Lemma map_nth_inj (crit : list Z) : NoDup crit -> forall l l',
  Forall (fun i => i < length crit) l -> Forall (fun i => i < length crit) l' ->
  map (fun i => nth i crit 0%Z) l = map (fun i => nth i crit 0%Z) l' -> l = l'.
Proof.
  intros Hnd. induction l as [|a t IH]; intros [|b t'] Hf Hf' E; cbn [map] in E; try discriminate E; [reflexivity|].
  injection E as Ea Et. inversion Hf as [|? ? Ha Hft]; subst. inversion Hf' as [|? ? Hb Hft']; subst.
  f_equal; [|now apply IH].
  exact (proj1 (NoDup_nth crit 0%Z) Hnd a b Ha Hb Ea).
Qed.

(** relabelling: candidate i of the relabelled population is candidate pi[i] of the original one *)
Theorem relabel_equivariant : forall crit pi k sel sel',
  NoDup crit -> Permutation pi (seq 0 (length crit)) ->
  sort_select crit k = Some sel -> sort_select (permute 0%Z pi crit) k = Some sel' ->
  map (fun i => nth i pi 0%nat) sel' = sel.
Proof.
  intros crit pi k sel sel' Hnd Hpi H H'.
  pose proof (Permutation_length Hpi) as Hlen. rewrite seq_length in Hlen.
  apply sort_select_some in H as (_ & ->). apply sort_select_some in H' as (_ & ->).
  rewrite <- firstn_map. f_equal.
  set (crit' := permute 0%Z pi crit).
  assert (Hlen' : length crit' = length crit) by (unfold crit'; now rewrite permute_length).
  apply (map_nth_inj crit Hnd).
  - apply Forall_forall. intros y Hy. apply in_map_iff in Hy as (i & <- & Hi). apply argsort_In in Hi.
    assert (Hin : In (nth i pi 0) pi) by (apply nth_In; lia).
    apply (Permutation_in _ Hpi) in Hin. apply in_seq in Hin. lia.
  - apply Forall_forall. intros y Hy. now apply argsort_In in Hy.
  - rewrite map_map. transitivity (sorted_vals crit'); [|exact (sorted_vals_relabel crit pi Hpi)].
    unfold sorted_vals. apply map_ext_in. intros i Hi. apply argsort_In in Hi.
    symmetry. apply permute_nth. lia.
Qed.

(** * 5. concrete instances: the hypotheses are satisfiable *)
Example sort_select_ex : sort_select [3;-1;4;-1;5;-9;2;6]%Z 3 = Some [5;1;3].
Proof. reflexivity. Qed.
Example is_topk_ex : is_topk [3;-1;4;-1;5;-9;2;6]%Z [5;1;3] 3 = true.
Proof. reflexivity. Qed.
(** a different tie order is also a top-k set *)
Example is_topk_ex_tie : is_topk [3;-1;4;-1;5;-9;2;6]%Z [3;5;1] 3 = true.
Proof. reflexivity. Qed.
Example is_topk_ex_neg : is_topk [3;-1;4;-1;5;-9;2;6]%Z [5;1;6] 3 = false.
Proof. reflexivity. Qed.
Example sort_select_too_many : sort_select [3;-1;4]%Z 4 = None.
Proof. reflexivity. Qed.

Example relabel_ex :
  let crit := [3;-1;4;1;5;-9;2;6]%Z in
  let pi := [7;6;5;4;3;2;1;0] in
  NoDup crit /\ Permutation pi (seq 0 (length crit)) /\
  permute 0%Z pi crit = [6;2;-9;5;1;4;-1;3]%Z /\
  sort_select crit 3 = Some [5;1;3] /\
  sort_select (permute 0%Z pi crit) 3 = Some [2;6;4] /\
  map (fun i => nth i pi 0) [2;6;4] = [5;1;3].
Proof.
  cbv zeta. split; [|split; [|repeat split]].
  - repeat (constructor; [cbn [In]; intros Hin; repeat (destruct Hin as [Hin|Hin]; [discriminate Hin|]); exact Hin|]).
    constructor.
  - apply is_perm_sound. reflexivity.
Qed.

(** with ties the relabelled selection need not be the image of the original one; only the values agree *)
Example relabel_tie_ex :
  let crit := [3;-1;4;-1;5;-9;2;6]%Z in
  let pi := [7;6;5;4;3;2;1;0] in
  sort_select crit 2 = Some [5;1] /\
  sort_select (permute 0%Z pi crit) 2 = Some [2;4] /\
  map (fun i => nth i pi 0) [2;4] = [5;3].
Proof. cbv zeta. repeat split. Qed.

Print Assumptions argsort_perm.
Print Assumptions argsort_sorted.
Print Assumptions sort_select_topk.
Print Assumptions is_topk_sound.
Print Assumptions topk_optimal.
Print Assumptions sort_select_optimal.
Print Assumptions relabel_equivariant.
Print Assumptions relabel_values.
