(** C18 — scale covariance over exact rationals: the block labels and the apportionment are invariant under every positive
    affine map x |-> c*x + d (c > 0) of the genetic positions (change of unit cM <-> Morgan, shifted origin).  Companion of the
    scaled layouts (2^-40 .. 2^20) that the correspondence generates: for binary64 the same holds for powers of two because such a
    scaling commutes with every operation of the code. *)
From PV Require Import Lib.Common Model.C18_Haplo Proofs.C18_Haplo.
From Coq Require Import Lia Arith QArith Setoid Morphisms.
Local Open Scope Q_scope.

Lemma Forall2_map_same {A B} (R : B -> B -> Prop) (f g : A -> B) (l : list A) :
  (forall j, In j l -> R (f j) (g j)) -> Forall2 R (map f l) (map g l).
Proof. induction l as [|a l IH]; intros H; cbn; constructor; [apply H; now left | apply IH; intros j Hj; apply H; now right]. Qed.
Lemma map2_map_l {A A' B C} (f : A' -> B -> C) (g : A -> A') : forall (l : list A) (r : list B),
  map2 f (map g l) r = map2 (fun a b => f (g a) b) l r.
Proof. induction l as [|a l IH]; intros [|b r]; cbn; try reflexivity. now rewrite IH. Qed.
Lemma map2_ext_in {A B C} (f g : A -> B -> C) : forall (l : list A) (r : list B),
  (forall a b, In a l -> f a b = g a b) -> map2 f l r = map2 g l r.
Proof. induction l as [|a l IH]; intros [|b r] H; cbn; try reflexivity. rewrite H by now left. f_equal. apply IH. intros; apply H; now right. Qed.
Lemma slice_map {A B} (f : A -> B) st sp (l : list A) : slice st sp (map f l) = map f (slice st sp l).
Proof. unfold slice. now rewrite skipn_map, firstn_map. Qed.

Section Affine.
Variables (c d : Q).
Hypothesis cpos : 0 < c.
Definition aff (x : Q) : Q := c * x + d.
Notation rel := (fun h h' : Q => h' == aff h).

Lemma aff_le x y : Qle_bool (aff x) (aff y) = Qle_bool x y.
Proof. apply Bool.eq_iff_eq_true. rewrite !Qle_bool_iff. unfold aff. rewrite Qplus_le_l. apply Qmult_le_l. exact cpos. Qed.
Lemma c_nz : ~ c == 0.
Proof. intros H. rewrite H in cpos. discriminate. Qed.

(** ** bins *)
Lemma bin_label_aff : forall hb hb' x k acc, Forall2 rel hb hb' -> bin_label qops hb' (aff x) k acc = bin_label qops hb x k acc.
Proof.
  induction hb as [|lo tl IH]; intros hb' x k acc H; inversion H as [|? lo' ? tl' Hlo Htl]; subst; [reflexivity|].
  destruct tl as [|hi tl2]; inversion Htl as [|? hi' ? tl2' Hhi Htl2]; subst; [reflexivity|].
  rewrite !bin_label_step. rewrite (IH (hi' :: tl2')) by (constructor; assumption). f_equal.
  cbn [o_leb qops]. rewrite Hlo, Hhi, !aff_le. reflexivity.
Qed.
Lemma linspace_aff lo hi n : Forall2 rel (linspace qops lo hi n) (linspace qops (aff lo) (aff hi) n).
Proof.
  unfold linspace. cbn [o_eq0 o_sub o_div o_add o_mul o_ofn qops]. apply Forall2_app; [|constructor; [reflexivity|constructor]].
  set (N := inject_Z (Z.of_nat n)).
  assert (Hs : (aff hi - aff lo) / N == c * ((hi - lo) / N)) by (unfold aff, Qdiv; ring).
  assert (Hz : Qeq_bool ((aff hi - aff lo) / N) 0 = Qeq_bool ((hi - lo) / N) 0).
  { rewrite Hs. destruct (Qeq_bool ((hi - lo) / N) 0) eqn:E.
    - apply Qeq_bool_iff in E. apply Qeq_bool_iff. rewrite E. ring.
    - apply Qeq_bool_neq in E. destruct (Qeq_bool (c * ((hi - lo) / N)) 0) eqn:E2; [|reflexivity].
      apply Qeq_bool_iff in E2. apply Qmult_integral in E2 as [E2|E2]; [now apply c_nz in E2 | contradiction]. }
  apply Forall2_map_same. intros j _. rewrite Hz. destruct (Qeq_bool ((hi - lo) / N) 0).
  - unfold aff, Qdiv. ring.
  - rewrite Hs. unfold aff. ring.
Qed.

(** ** haplobin *)
Definition in_range (p : nat) (ch : nat * (nat * nat)) : Prop := (fst (snd ch) < p /\ 1 <= snd (snd ch) <= p)%nat.
Lemma nth_aff (gp : list Q) i : (i < length gp)%nat -> nth i (map aff gp) 0 = aff (nth i gp 0).
Proof. intros H. rewrite (nth_indep (map aff gp) 0 (aff 0)) by now rewrite map_length. apply map_nth. Qed.
Lemma haplobin_loop_aff (gp : list Q) : forall chroms k out, Forall (in_range (length gp)) chroms ->
  haplobin_loop qops (map aff gp) chroms k out = haplobin_loop qops gp chroms k out.
Proof.
  induction chroms as [|[nhap [st sp]] rest IH]; intros k out H; [reflexivity|]. apply Forall_cons_iff in H as [[H1 H2] H]. cbn in H1, H2.
  cbn [haplobin_loop]. cbv zeta. cbn [o_ofn qops]. change (inject_Z (Z.of_nat 0)) with 0.
  rewrite !nth_aff by lia. rewrite IH by exact H. f_equal. f_equal. f_equal.
  rewrite slice_map, map2_map_l. apply map2_ext_in. intros x cur _. apply bin_label_aff. apply linspace_aff.
Qed.
Lemma haplobin_aff (nblk : list nat) (gp : list Q) (stix spix : list nat) :
  Forall (in_range (length gp)) (combine nblk (combine stix spix)) ->
  haplobin qops nblk (map aff gp) stix spix = haplobin qops nblk gp stix spix.
Proof. intros H. unfold haplobin. rewrite map_length. now apply haplobin_loop_aff. Qed.

(** ** apportionment *)
Lemma argmin_loop_ext : forall (l l' : list Q) i bi bv bv', Forall2 Qeq l l' -> bv == bv' ->
  argmin_loop qops l i bi bv = argmin_loop qops l' i bi bv'.
Proof.
  induction l as [|x l IH]; intros l' i bi bv bv' H Hb; inversion H as [|? x' ? l2 Hx Hl]; subst; [reflexivity|].
  cbn [argmin_loop o_isnan o_ltb qops orb]. rewrite Hx, Hb. destruct (negb (Qle_bool bv' x')); apply IH; assumption.
Qed.
Lemma argmin_ext (l l' : list Q) : Forall2 Qeq l l' -> argmin qops l = argmin qops l'.
Proof. intros H. destruct H as [|x x' l l' Hx Hl]; [reflexivity|]. cbn [argmin]. now apply argmin_loop_ext. Qed.
Lemma diff_ext (cur : list nat) : forall idl idl', Forall2 Qeq idl idl' ->
  Forall2 Qeq (map2 (fun c0 i => o_sub qops (o_ofn qops c0) i) cur idl) (map2 (fun c0 i => o_sub qops (o_ofn qops c0) i) cur idl').
Proof.
  induction cur as [|a cur IH]; intros idl idl' H; [constructor|]. destruct H as [|i i' idl idl' Hi H]; [constructor|].
  cbn [map2]. constructor; [cbn [o_sub o_ofn qops]; now rewrite Hi | now apply IH].
Qed.
Lemma apportion_loop_ext fuel : forall idl idl' cur, Forall2 Qeq idl idl' ->
  apportion_loop qops fuel idl cur = apportion_loop qops fuel idl' cur.
Proof.
  induction fuel as [|f IH]; intros idl idl' cur H; [reflexivity|]. cbn [apportion_loop]. cbv zeta.
  rewrite (argmin_ext _ _ (diff_ext cur idl idl' H)). now apply IH.
Qed.
Lemma fold_plus_scaled : forall (l l' : list Q) a a', Forall2 (fun g g' => g' == c * g) l l' -> a' == c * a ->
  fold_left Qplus l' a' == c * fold_left Qplus l a.
Proof.
  induction l as [|g l IH]; intros l' a a' H Ha; inversion H as [|? g' ? l2 Hg Hl]; subst; [exact Ha|].
  cbn [fold_left]. apply IH; [assumption|]. rewrite Ha, Hg. ring.
Qed.
Lemma genlen_aff (gp : list Q) : forall stix spix, Forall (fun st => (st < length gp)%nat) stix -> Forall (fun sp => (1 <= sp <= length gp)%nat) spix ->
  Forall2 (fun g g' => g' == c * g) (genlen qops gp stix spix) (genlen qops (map aff gp) stix spix).
Proof.
  unfold genlen. induction stix as [|st stix IH]; intros [|sp spix] H1 H2; cbn [map2]; try constructor.
  - apply Forall_cons_iff in H1 as [H1 _]. apply Forall_cons_iff in H2 as [H2 _]. cbn [o_sub o_ofn qops]. change (inject_Z (Z.of_nat 0)) with 0.
    rewrite !nth_aff by lia. unfold aff. ring.
  - apply IH; [now apply Forall_cons_iff in H1 | now apply Forall_cons_iff in H2].
Qed.
Lemma scaled_share (N T T' : Q) : T' == c * T -> forall l l', Forall2 (fun g g' => g' == c * g) l l' ->
  Forall2 Qeq (map (fun g => N / T * g) l) (map (fun g => N / T' * g) l').
Proof.
  intros HT. induction 1 as [|g g' l l' Hg Hl IH]; cbn [map]; constructor; [|exact IH].
  rewrite Hg, HT. destruct (Qeq_dec T 0) as [E|E].
  - rewrite E. unfold Qdiv. setoid_replace (c * 0) with 0 by ring. change (/ 0) with 0. ring.
  - field. split; [exact E | exact c_nz].
Qed.
Lemma ideal_aff (nhap : nat) (gl gl' : list Q) : Forall2 (fun g g' => g' == c * g) gl gl' ->
  Forall2 Qeq (ideal qops nhap gl) (ideal qops nhap gl').
Proof.
  intros H. unfold ideal, tsum. cbv zeta. cbn [o_div o_mul o_add o_ofn qops]. change (inject_Z (Z.of_nat 0)) with 0.
  apply scaled_share; [|exact H]. apply fold_plus_scaled; [exact H | ring].
Qed.
Lemma nhaploblk_chrom_aff (nhap : nat) (gp : list Q) (stix spix : list nat) :
  Forall (fun st => (st < length gp)%nat) stix -> Forall (fun sp => (1 <= sp <= length gp)%nat) spix ->
  nhaploblk_chrom qops nhap (map aff gp) stix spix = nhaploblk_chrom qops nhap gp stix spix.
Proof.
  intros H1 H2. unfold nhaploblk_chrom. cbv zeta. destruct (length stix <=? nhap)%nat eqn:E; destruct (nhap <? length stix)%nat; try reflexivity;
  f_equal; symmetry; apply apportion_loop_ext, ideal_aff, genlen_aff; assumption.
Qed.
Lemma in_range_combine (p : nat) : forall (nblk stix spix : list nat),
  Forall (fun st => (st < p)%nat) stix -> Forall (fun sp => (1 <= sp <= p)%nat) spix -> Forall (in_range p) (combine nblk (combine stix spix)).
Proof.
  induction nblk as [|n nblk IH]; intros [|st stix] [|sp spix] H1 H2; cbn [combine]; try constructor.
  - split; cbn; [now apply Forall_cons_iff in H1 | now apply Forall_cons_iff in H2].
  - apply IH; [now apply Forall_cons_iff in H1 | now apply Forall_cons_iff in H2].
Qed.
(** the whole haplotype matrix (hence every OHV / OPV / genotype-builder value derived from it) is unchanged *)
Lemma calc_haplomat_aff e1 e2 nhap geno (gp : list Q) stix spix clen u nt :
  Forall (fun st => (st < length gp)%nat) stix -> Forall (fun sp => (1 <= sp <= length gp)%nat) spix ->
  calc_haplomat qops e1 e2 nhap geno (map aff gp) stix spix clen u nt = calc_haplomat qops e1 e2 nhap geno gp stix spix clen u nt
  /\ calc_bounds qops nhap (map aff gp) stix spix = calc_bounds qops nhap gp stix spix.
Proof.
  intros H1 H2. unfold calc_haplomat, calc_bounds. rewrite (nhaploblk_chrom_aff nhap gp stix spix H1 H2).
  destruct (nhaploblk_chrom qops nhap gp stix spix) as [nblk|e]; [|split; reflexivity].
  rewrite (haplobin_aff nblk gp stix spix (in_range_combine (length gp) nblk stix spix H1 H2)). split; reflexivity.
Qed.
End Affine.

(** ** effects: block values are linear in the marker effects (scaling all effects by s scales every block value, hence every
    OHV / OPV value, by s) *)
Lemma dotZQ_scale (s : Q) : forall (g : list Z) (u : list Q), dotZQ g (map (Qmult s) u) == s * dotZQ g u.
Proof.
  unfold dotZQ. induction g as [|a g IH]; intros [|b u]; cbn [map map2 sumQ fold_right]; try ring.
  fold (sumQ (map2 (fun a0 b0 => inject_Z a0 * b0) g (map (Qmult s) u))). fold (sumQ (map2 (fun a0 b0 => inject_Z a0 * b0) g u)).
  rewrite IH. ring.
Qed.
Lemma block_val_scale (s : Q) (g : list Z) (ucol : list Q) (st sp : nat) :
  block_val g (map (Qmult s) ucol) st sp == s * block_val g ucol st sp.
Proof. unfold block_val. rewrite slice_map. apply dotZQ_scale. Qed.
