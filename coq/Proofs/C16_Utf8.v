(** C16 — UTF-8: decoding what was encoded gives the string back, for every string of unicode scalar values. *)
From Coq Require Import String Ascii.
From PV Require Import Lib.Common Lib.C16_Spec Model.C16_Store.
Local Open Scope Z_scope.

(** a unicode scalar value: 0..0x10FFFF without the surrogate range *)
Definition scalar (c : Z) : Prop := 0 <= c < 1114112 /\ ~ (55296 <= c < 57344).
Definition scalar_b (c : Z) : bool := (0 <=? c) && (c <? 1114112) && negb ((55296 <=? c) && (c <? 57344)).
Lemma scalar_b_spec c : scalar_b c = true <-> scalar c.
Proof. unfold scalar_b, scalar. split.
  - intro H. apply andb_prop in H as [H1 H3]. apply andb_prop in H1 as [H1 H2]. apply negb_true_iff in H3.
    apply andb_false_iff in H3. lia.
  - intros [H1 H2]. apply andb_true_intro; split; [apply andb_true_intro; split; lia|].
    apply negb_true_iff, andb_false_iff. lia.
Qed.

Lemma utf8_enc1_total c : scalar c -> exists b, utf8_enc1 c = Some b.
Proof.
  intros [H1 H2]. unfold utf8_enc1.
  destruct (Z.ltb_spec c 0); [lia|].
  destruct (Z.ltb_spec c 128); [eauto|].
  destruct (Z.ltb_spec c 2048); [eauto|].
  destruct (Z.ltb_spec c 65536).
  - destruct ((55296 <=? c) && (c <? 57344)) eqn:E; [apply andb_prop in E; lia | eauto].
  - destruct (Z.ltb_spec c 1114112); [eauto | lia].
Qed.

Ltac btrue := repeat match goal with
  | |- context [(?a <=? ?b)] => let H := fresh in destruct (Z.leb_spec a b) as [H|H]; [|try lia]
  | |- context [(?a <? ?b)] => let H := fresh in destruct (Z.ltb_spec a b) as [H|H]; [|try lia]
  end.

Local Opaque Z.add Z.mul Z.sub Z.div Z.modulo Z.leb Z.ltb.
Lemma utf8_dec_enc1 c b rest : utf8_enc1 c = Some b -> utf8_dec (b ++ rest) = option_map (cons c) (utf8_dec rest).
Proof.
  unfold utf8_enc1.
  destruct (Z.ltb_spec c 0); [discriminate|].
  destruct (Z.ltb_spec c 128) as [L1|L1].
  { intros E; injection E as <-. cbn [app utf8_dec].
    destruct (Z.leb_spec 0 c); [|lia]. destruct (Z.ltb_spec c 128); [|lia]. reflexivity. }
  destruct (Z.ltb_spec c 2048) as [L2|L2].
  { intros E; injection E as <-. cbn [app utf8_dec].
    pose proof (Z.div_mod c 64 ltac:(lia)) as DM. pose proof (Z.mod_pos_bound c 64 ltac:(lia)) as MB.
    assert (2 <= c / 64 < 32) by (split; [apply Z.div_le_lower_bound; lia | apply Z.div_lt_upper_bound; lia]).
    set (q := c / 64) in *. set (r := c mod 64) in *.
    replace ((0 <=? 192 + q) && (192 + q <? 128)) with false by (symmetry; apply andb_false_iff; right; apply Z.ltb_ge; lia).
    replace ((194 <=? 192 + q) && (192 + q <? 224)) with true by (symmetry; apply andb_true_intro; split; [apply Z.leb_le|apply Z.ltb_lt]; lia).
    unfold cont. replace ((128 <=? 128 + r) && (128 + r <? 192)) with true by (symmetry; apply andb_true_intro; split; [apply Z.leb_le|apply Z.ltb_lt]; lia).
    replace ((192 + q - 192) * 64 + (128 + r - 128)) with c by lia. reflexivity. }
  destruct (Z.ltb_spec c 65536) as [L3|L3].
  { destruct ((55296 <=? c) && (c <? 57344)) eqn:SUR; [discriminate|].
    intros E; injection E as <-. cbn [app utf8_dec].
    pose proof (Z.div_mod c 4096 ltac:(lia)) as DM1. pose proof (Z.mod_pos_bound c 4096 ltac:(lia)) as MB1.
    pose proof (Z.div_mod c 64 ltac:(lia)) as DM2. pose proof (Z.mod_pos_bound c 64 ltac:(lia)) as MB2.
    pose proof (Z.mod_pos_bound (c / 64) 64 ltac:(lia)) as MB3.
    pose proof (Z.div_mod (c / 64) 64 ltac:(lia)) as DM3.
    assert (E4096 : c / 64 / 64 = c / 4096) by (rewrite Z.div_div by lia; reflexivity).
    assert (0 <= c / 4096 < 16) by (split; [apply Z.div_pos; lia | apply Z.div_lt_upper_bound; lia]).
    set (q := c / 4096) in *. set (m := (c / 64) mod 64) in *. set (r := c mod 64) in *.
    assert (CE : c = q * 4096 + m * 64 + r) by lia.
    replace ((0 <=? 224 + q) && (224 + q <? 128)) with false by (symmetry; apply andb_false_iff; right; apply Z.ltb_ge; lia).
    replace ((194 <=? 224 + q) && (224 + q <? 224)) with false by (symmetry; apply andb_false_iff; right; apply Z.ltb_ge; lia).
    replace ((224 <=? 224 + q) && (224 + q <? 240)) with true by (symmetry; apply andb_true_intro; split; [apply Z.leb_le|apply Z.ltb_lt]; lia).
    unfold cont.
    replace ((128 <=? 128 + m) && (128 + m <? 192)) with true by (symmetry; apply andb_true_intro; split; [apply Z.leb_le|apply Z.ltb_lt]; lia).
    replace ((128 <=? 128 + r) && (128 + r <? 192)) with true by (symmetry; apply andb_true_intro; split; [apply Z.leb_le|apply Z.ltb_lt]; lia).
    replace ((224 + q - 224) * 4096 + (128 + m - 128) * 64 + (128 + r - 128)) with c by lia.
    rewrite SUR. replace (2048 <=? c) with true by (symmetry; apply Z.leb_le; lia). reflexivity. }
  destruct (Z.ltb_spec c 1114112) as [L4|L4]; [|discriminate].
  intros E; injection E as <-. cbn [app utf8_dec].
  pose proof (Z.div_mod c 64 ltac:(lia)) as DM2. pose proof (Z.mod_pos_bound c 64 ltac:(lia)) as MB2.
  pose proof (Z.mod_pos_bound (c / 64) 64 ltac:(lia)) as MB3. pose proof (Z.div_mod (c / 64) 64 ltac:(lia)) as DM3.
  pose proof (Z.mod_pos_bound (c / 4096) 64 ltac:(lia)) as MB4. pose proof (Z.div_mod (c / 4096) 64 ltac:(lia)) as DM4.
  assert (E4096 : c / 64 / 64 = c / 4096) by (rewrite Z.div_div by lia; reflexivity).
  assert (E262 : c / 4096 / 64 = c / 262144) by (rewrite Z.div_div by lia; reflexivity).
  assert (0 <= c / 262144 < 5) by (split; [apply Z.div_pos; lia | apply Z.div_lt_upper_bound; lia]).
  set (q := c / 262144) in *. set (m1 := (c / 4096) mod 64) in *. set (m2 := (c / 64) mod 64) in *. set (r := c mod 64) in *.
  assert (CE : c = q * 262144 + m1 * 4096 + m2 * 64 + r) by lia.
  replace ((0 <=? 240 + q) && (240 + q <? 128)) with false by (symmetry; apply andb_false_iff; right; apply Z.ltb_ge; lia).
  replace ((194 <=? 240 + q) && (240 + q <? 224)) with false by (symmetry; apply andb_false_iff; right; apply Z.ltb_ge; lia).
  replace ((224 <=? 240 + q) && (240 + q <? 240)) with false by (symmetry; apply andb_false_iff; right; apply Z.ltb_ge; lia).
  replace ((240 <=? 240 + q) && (240 + q <? 245)) with true by (symmetry; apply andb_true_intro; split; [apply Z.leb_le|apply Z.ltb_lt]; lia).
  unfold cont.
  replace ((128 <=? 128 + m1) && (128 + m1 <? 192)) with true by (symmetry; apply andb_true_intro; split; [apply Z.leb_le|apply Z.ltb_lt]; lia).
  replace ((128 <=? 128 + m2) && (128 + m2 <? 192)) with true by (symmetry; apply andb_true_intro; split; [apply Z.leb_le|apply Z.ltb_lt]; lia).
  replace ((128 <=? 128 + r) && (128 + r <? 192)) with true by (symmetry; apply andb_true_intro; split; [apply Z.leb_le|apply Z.ltb_lt]; lia).
  replace ((240 + q - 240) * 262144 + (128 + m1 - 128) * 4096 + (128 + m2 - 128) * 64 + (128 + r - 128)) with c by lia.
  replace (65536 <=? c) with true by (symmetry; apply Z.leb_le; lia).
  replace (c <? 1114112) with true by (symmetry; apply Z.ltb_lt; lia). reflexivity.
Qed.

Local Transparent Z.add Z.mul Z.sub Z.div Z.modulo Z.leb Z.ltb.
Theorem utf8_roundtrip (s : str) : Forall scalar s -> exists b, utf8_enc s = Some b /\ utf8_dec b = Some s.
Proof.
  induction 1 as [|c t Hc Ht IH]; [exists []; split; reflexivity|].
  destruct IH as [bt [E D]]. destruct (utf8_enc1_total c Hc) as [bc Ec].
  exists (bc ++ bt). split; [cbn [utf8_enc]; rewrite Ec, E; reflexivity|].
  rewrite (utf8_dec_enc1 c bc bt Ec), D. reflexivity.
Qed.

(** an encoding exists only for strings of scalar values *)
Lemma utf8_enc_scalar (s : str) b : utf8_enc s = Some b -> Forall scalar s.
Proof.
  revert b; induction s as [|c t IH]; intros b E; [constructor|].
  cbn [utf8_enc] in E. destruct (utf8_enc1 c) eqn:E1; [|discriminate]. destruct (utf8_enc t) eqn:E2; [|discriminate].
  constructor; [|eapply IH; reflexivity].
  unfold utf8_enc1 in E1. unfold scalar.
  destruct (Z.ltb_spec c 0); [discriminate|].
  destruct (Z.ltb_spec c 128); [lia|]. destruct (Z.ltb_spec c 2048); [lia|].
  destruct (Z.ltb_spec c 65536).
  - destruct ((55296 <=? c) && (c <? 57344)) eqn:S; [discriminate|]. apply andb_false_iff in S. lia.
  - destruct (Z.ltb_spec c 1114112); [lia|discriminate].
Qed.

Corollary utf8_dec_enc (s : str) b : utf8_enc s = Some b -> utf8_dec b = Some s.
Proof. intro E. destruct (utf8_roundtrip s (utf8_enc_scalar s b E)) as [b' [E' D]]. congruence. Qed.

Lemma opt_all_map_dec_enc (l : list str) bs : opt_all (map utf8_enc l) = Some bs -> opt_all (map utf8_dec bs) = Some l.
Proof.
  revert bs; induction l as [|s t IH]; intros bs E; cbn in E.
  - inversion E; reflexivity.
  - destruct (utf8_enc s) eqn:Es; [|discriminate]. destruct (opt_all (map utf8_enc t)) eqn:Et; [|discriminate].
    cbn in E. inversion E; subst. cbn. rewrite (utf8_dec_enc s l Es), (IH l0 eq_refl). reflexivity.
Qed.
