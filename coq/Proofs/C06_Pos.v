(** C06 — position-dependent problems: soundness of the truthfulness clause of the result monitor, and the fact that
    a slot-weighted evaluation separates a decision from a re-ordering of it (so that "decision re-ordered, values of
    the original row reported" cannot pass the monitor). *)
From Coq Require Import Qround Lia.
From PV Require Import Lib.Common Model.C06_Opt.
Local Open Scope Z_scope.

Lemma zl_eqb_eq a b : zl_eqb a b = true -> a = b.
Proof. apply list_eqb_eq. intros x y H. now apply Z.eqb_eq. Qed.

Lemma evalT_eqb_eq (a b : evalT) : evalT_eqb a b = true -> a = b.
Proof.
  destruct a as [[a1 a2] a3], b as [[b1 b2] b3]. unfold evalT_eqb, e_obj, e_ineq, e_eq. cbn [fst snd].
  intros H. apply andb_prop in H as [H H3]. apply andb_prop in H as [H1 H2].
  apply zl_eqb_eq in H1, H2, H3. now subst.
Qed.

(** the monitor clause accepts exactly the reports that are the evaluations of the reported decisions, row by row *)
Lemma truthful_b_sound ev X R : truthful_b ev X R = true -> R = map ev X.
Proof. unfold truthful_b. intros H. symmetry. revert H. apply list_eqb_eq. exact evalT_eqb_eq. Qed.

Lemma truthful_b_complete ev X : truthful_b ev X (map ev X) = true.
Proof.
  unfold truthful_b. apply list_eqb_refl. intros [[a b] c]. unfold evalT_eqb, e_obj, e_ineq, e_eq. cbn [fst snd].
  assert (R : forall l, zl_eqb l l = true) by (apply list_eqb_refl; apply Z.eqb_refl).
  now rewrite !R.
Qed.

Lemma slin_app sp s t xp x : length sp = length xp -> slin (sp ++ s) t (xp ++ x) = slin sp t xp + slin s t x.
Proof.
  unfold slin. revert xp. induction sp as [|w sp IH]; intros [|e xp] L; try discriminate.
  - reflexivity.
  - injection L as L. specialize (IH xp L). cbn [app map2]. unfold sumZ in *. cbn [fold_right]. rewrite IH. lia.
Qed.

(** exchanging two neighbouring members changes the slot-weighted sum whenever the two slots weigh differently and the
    two members have different table values: the difference is (s1 - s2) * (t[a] - t[b]) *)
Lemma slin_transposition sp s1 s2 ss t xp a b r : length sp = length xp -> s1 <> s2 -> look t a <> look t b ->
  slin (sp ++ s1 :: s2 :: ss) t (xp ++ a :: b :: r) <> slin (sp ++ s1 :: s2 :: ss) t (xp ++ b :: a :: r).
Proof.
  intros L Hs Ht. rewrite !slin_app by exact L. unfold slin. cbn [map2 sumZ fold_right].
  set (rest := fold_right Z.add 0 (map2 (fun w e => w * look t e) ss r)).
  intros H. assert (E : (s1 - s2) * (look t a - look t b) = 0) by lia.
  apply Z.mul_eq_0 in E. lia.
Qed.

(** ... hence for a one-objective slot-weighted table problem (non-zero objective weight) the monitor REJECTS the report
    "decision with two neighbouring members exchanged, values of the original row" *)
Lemma truthful_b_rejects_reordered t w clip sp s1 s2 ss xp a b r :
  length sp = length xp -> s1 <> s2 -> look t a <> look t b -> w <> 0 ->
  let ev := tps_eval (mkTP [t] [] [w] [] [] clip [] [] [] []) [sp ++ s1 :: s2 :: ss] [] [] in
  truthful_b ev [xp ++ b :: a :: r] [ev (xp ++ a :: b :: r)] = false.
Proof.
  intros L Hs Ht Hw ev. destruct (truthful_b ev [xp ++ b :: a :: r] [ev (xp ++ a :: b :: r)]) eqn:E; [|reflexivity].
  exfalso. apply truthful_b_sound in E. cbn [map] in E.
  assert (P0 : forall x, pairsum [] x = 0).
  { induction x as [|e x IH]; [reflexivity|]. cbn [pairsum]. rewrite IH.
    assert (Z0 : forall l, sumZ (map (look (nth (Z.to_nat e) [] [])) l) = 0).
    { induction l as [|y l IHl]; [reflexivity|]. cbn [map]. unfold sumZ in *. cbn [fold_right]. rewrite IHl.
      unfold look. destruct (Z.to_nat e); destruct (Z.to_nat y); reflexivity. }
    rewrite Z0. reflexivity. }
  assert (O : forall x, e_obj (ev x) = [w * (slin (sp ++ s1 :: s2 :: ss) t x + 0)]).
  { intros x. unfold ev, tps_eval, e_obj. cbn [tW tP towt tC tD length seq map2 nth Nat.eqb fst]. now rewrite P0. }
  assert (E' : e_obj (ev (xp ++ a :: b :: r)) = e_obj (ev (xp ++ b :: a :: r))) by (f_equal; congruence).
  rewrite !O in E'. injection E' as E'.
  apply (slin_transposition sp s1 s2 ss t xp a b r L Hs Ht). apply (Z.mul_reg_l _ _ w Hw). lia.
Qed.

(** with every slot weighing 1 the slot-weighted lookup is the plain one of [tp_eval] *)
Lemma slin_ones t x : slin (repeat 1 (length x)) t x = lin t x.
Proof.
  unfold slin, lin. induction x as [|e x IH]; [reflexivity|]. cbn [length repeat map2 map sumZ fold_right].
  unfold sumZ in IH. rewrite IH. lia.
Qed.

(** quantisation is the identity on integers (integer and binary encodings are evaluated as they are) *)
Lemma quantQ_integer (qn z : Z) : 0 < qn -> (quantQ qn (inject_Z z) == inject_Z z)%Q.
Proof.
  intros Hq. unfold quantQ.
  assert (E : Qfloor (inject_Z z * inject_Z qn) = z * qn).
  { rewrite <- (Qfloor_Z (z * qn)). apply Qfloor_comp. now rewrite inject_Z_mult. }
  rewrite E, inject_Z_mult. field. intros H. apply (inject_Z_injective qn 0) in H. lia.
Qed.

(** quantisation never moves a value up, nor down by 1/qn or more *)
Lemma quantQ_floor (qn : Z) (v : Q) : 0 < qn ->
  (quantQ qn v <= v)%Q /\ (v < quantQ qn v + 1 / inject_Z qn)%Q.
Proof.
  intros Hq. unfold quantQ.
  assert (Q0 : (0 < inject_Z qn)%Q) by (change 0%Q with (inject_Z 0); rewrite <- Zlt_Qlt; exact Hq).
  assert (N0 : ~ (inject_Z qn == 0)%Q) by (intros H; rewrite H in Q0; now apply Qlt_irrefl in Q0).
  pose proof (Qfloor_le (v * inject_Z qn)) as Lo. pose proof (Qlt_floor (v * inject_Z qn)) as Hi.
  split.
  - apply Qle_shift_div_r; assumption.
  - setoid_replace (inject_Z (Qfloor (v * inject_Z qn)) / inject_Z qn + 1 / inject_Z qn)%Q
      with (inject_Z (Qfloor (v * inject_Z qn) + 1) / inject_Z qn)%Q by (rewrite inject_Z_plus; field; exact N0).
    apply Qlt_shift_div_l; assumption.
Qed.
