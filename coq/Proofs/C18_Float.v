(** C18 — the binary64 instance [fops]: on finite floats PrimFloat.leb is a total preorder (through Flocq's
    Prim2B bridge it is <= on the real values), hence the ordering theorems of Proofs/C18_Haplo.v apply to the
    executed instance whenever the boundaries computed by the binary64 linspace are finite and start at or below
    the first marker — a decidable condition ([lin_hyp_f]) that every correspondence shard evaluates. *)
From Coq Require Import ZArith Reals Lra Lia PrimFloat Sorted.
From Flocq Require Import Core IEEE754.BinarySingleNaN IEEE754.PrimFloat.
From PV Require Import Lib.Common Model.C18_Haplo Proofs.C18_Haplo.

Definition okf (x : PrimFloat.float) : Prop := PrimFloat.is_finite x = true.
Definition FR (x : PrimFloat.float) : R := B2R (Prim2B x).

Lemma f_leb_R x y : okf x -> okf y -> PrimFloat.leb x y = Rle_bool (FR x) (FR y).
Proof. intros Hx Hy. rewrite leb_equiv. apply Bleb_correct; rewrite <- is_finite_equiv; assumption. Qed.

Lemma f_leb_total x y : okf x -> okf y -> o_leb fops x y = true \/ o_leb fops y x = true.
Proof.
  intros Hx Hy. cbn [o_leb fops]. rewrite (f_leb_R x y Hx Hy), (f_leb_R y x Hy Hx).
  destruct (Rle_bool_spec (FR x) (FR y)); [now left|]. right. apply Rle_bool_true. lra.
Qed.
Lemma f_leb_trans x y z : okf x -> okf y -> okf z -> o_leb fops x y = true -> o_leb fops y z = true -> o_leb fops x z = true.
Proof.
  intros Hx Hy Hz. cbn [o_leb fops]. rewrite (f_leb_R x y Hx Hy), (f_leb_R y z Hy Hz), (f_leb_R x z Hx Hz).
  destruct (Rle_bool_spec (FR x) (FR y)); [|discriminate]. destruct (Rle_bool_spec (FR y) (FR z)); [|discriminate].
  intros _ _. apply Rle_bool_true. lra.
Qed.

(** the decidable forms of the hypotheses ([lin_hyp_f], Model/C18_Haplo.v) imply the propositional ones *)
Lemma sortedb_ss (l : list PrimFloat.float) : Forall okf l -> sortedb l = true -> StronglySorted (fun x y => o_leb fops x y = true) l.
Proof.
  induction l as [|x r IH]; intros Hok H; [constructor|]. apply Forall_cons_iff in Hok as [Hx Hr].
  destruct r as [|y r']; [repeat constructor|]. cbn [sortedb] in H. apply andb_prop in H as [Hxy Hs].
  specialize (IH Hr Hs). constructor; [exact IH|].
  inversion IH as [|? ? _ Fy]; subst. pose proof Hr as Hr0. apply Forall_cons_iff in Hr as [Hy Hr'].
  constructor; [exact Hxy|]. rewrite Forall_forall in *. intros w Hw.
  apply (f_leb_trans x y w Hx Hy); [apply Hr'; exact Hw | exact Hxy | apply Fy; exact Hw].
Qed.

Lemma forallb_finite (l : list PrimFloat.float) : forallb PrimFloat.is_finite l = true -> Forall okf l.
Proof. intros H. apply Forall_forall. intros x Hx. rewrite forallb_forall in H. now apply H. Qed.

Lemma lin_hyp_f_sound : forall (nblk : list nat) (chrs : list (list PrimFloat.float)), lin_hyp_f nblk chrs = true ->
  Forall (fun n => (1 <= n)%nat) nblk /\ Forall (chrom_ok fops okf) chrs /\ Forall2 (bounds_ok fops okf) nblk chrs.
Proof.
  induction nblk as [|n nb IH]; intros [|c cs] H; cbn [lin_hyp_f] in H; try discriminate; [repeat constructor|].
  apply andb_prop in H as [H Hrest]. apply andb_prop in H as [H Hb]. apply andb_prop in H as [Hn Hc].
  destruct (IH cs Hrest) as (A & B & C). split; [|split].
  - constructor; [now apply Nat.leb_le | exact A].
  - constructor; [|exact B]. unfold chrom_ok_b in Hc. destruct c as [|x c']; [discriminate|].
    apply andb_prop in Hc as [Hf Hs]. apply forallb_finite in Hf. split; [discriminate|]. split; [exact Hf | now apply sortedb_ss].
  - constructor; [|exact C]. unfold bounds_ok_b in Hb. apply andb_prop in Hb as [Hf Hl]. split; [now apply forallb_finite | exact Hl].
Qed.

(** the executed (binary64) instance: cover / within-chromosome / monotone under the decidable hypothesis *)
Lemma f_haplobin_spec (chrs : list (list PrimFloat.float)) (nblk : list nat) : lin_hyp_f nblk chrs = true ->
  exists labs : list (list nat),
    haplobin fops nblk (concat chrs) (starts_from 0 (map (@length PrimFloat.float) chrs)) (stops_from 0 (map (@length PrimFloat.float) chrs)) = map Some (concat labs)
    /\ Forall2 (fun c l => length l = length c) chrs labs
    /\ (forall c l, nth_error labs c = Some l -> Forall (fun j => (offset nblk c <= j < offset nblk (S c))%nat) l)
    /\ StronglySorted Nat.le (concat labs)
    /\ (Forall2 (fun n c => (n <= length c)%nat) nblk chrs -> forall j, (j < list_sum nblk)%nat -> In j (concat labs)).
Proof.
  intros H. destruct (lin_hyp_f_sound nblk chrs H) as (A & B & C).
  exact (haplobin_spec fops okf f_leb_total f_leb_trans chrs nblk A B C).
Qed.

(** the executed instance of haplomat / _calc_haplomat succeeds on every valid input that meets the decidable hypothesis *)
Lemma f_haplomat_succeeds (chrs : list (list PrimFloat.float)) (nblk : list nat) e1 e2 nhap geno u nt :
  chrs <> [] -> (length chrs <= nhap)%nat ->
  nhaploblk_chrom fops nhap (concat chrs) (starts_from 0 (map (@length PrimFloat.float) chrs)) (stops_from 0 (map (@length PrimFloat.float) chrs)) = Ok nblk ->
  lin_hyp_f nblk chrs = true -> Forall2 (fun n c => (n <= length c)%nat) nblk chrs ->
  exists hm, calc_haplomat fops e1 e2 nhap geno (concat chrs) (starts_from 0 (map (@length PrimFloat.float) chrs))
               (stops_from 0 (map (@length PrimFloat.float) chrs)) (map (@length PrimFloat.float) chrs) u nt = Ok hm.
Proof.
  intros Hne Hn E1 H Hlen. destruct (lin_hyp_f_sound nblk chrs H) as (A & B & C).
  exact (haplomat_succeeds fops okf f_leb_total f_leb_trans chrs nblk e1 e2 nhap geno u nt Hne B Hn E1 C Hlen).
Qed.

(** the repair pass leaves the equal-width labels as they are whenever every equal-width bin holds a marker *)
Lemma f_equal_width_kept (chrs : list (list PrimFloat.float)) (nblk : list nat) : lin_hyp_f nblk chrs = true ->
  (forall j, (j < list_sum nblk)%nat ->
     In (Some j) (old_haplobin fops nblk (concat chrs) (starts_from 0 (map (@length PrimFloat.float) chrs)) (stops_from 0 (map (@length PrimFloat.float) chrs)))) ->
  haplobin fops nblk (concat chrs) (starts_from 0 (map (@length PrimFloat.float) chrs)) (stops_from 0 (map (@length PrimFloat.float) chrs))
  = old_haplobin fops nblk (concat chrs) (starts_from 0 (map (@length PrimFloat.float) chrs)) (stops_from 0 (map (@length PrimFloat.float) chrs)).
Proof.
  intros H. destruct (lin_hyp_f_sound nblk chrs H) as (A & B & C).
  exact (equal_width_kept fops okf f_leb_total f_leb_trans chrs nblk A B C).
Qed.
