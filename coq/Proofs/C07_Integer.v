(** C07 — the integer configurations after their repair (commits e5bdc2c0, 35c78bef): stochastic universal sampling in
    integer arithmetic over options = repeat(arange(len x), x):
        out = options[(start + noption*arange(t)) // t];  rng.shuffle(out)
    For EVERY count vector x, EVERY start < noption and EVERY shuffle: individual (candidate cross) i is used the floor or
    the ceiling of its proportional share t*x_i/sum(x) — the clause that was refuted for the former code
    ([old_cfg_integer_share_refuted] in Proofs/C07_Tiled.v) now holds without any guard on x.
    Also: the nmating / nprogeny checks of the selection protocols agree with those of the configurations. *)
From Coq Require Import Permutation Sorting.Sorted.
From PV Require Import Lib.Common Model.C17_Sampling Proofs.C17_Sampling Model.C07_Config Proofs.C07_LocalOpt Proofs.C07_Tail
  Proofs.C07_Sort Proofs.C07_Tiled Proofs.C07_RealMateMo.
Local Open Scope nat_scope.

(** * 1. arithmetic of equally spaced integer pointers *)

(** pointer j lies below position c  <->  j is one of the first N(c) pointers, N(c) = (c*t + (n-1-o)) / n *)
Lemma sys_lt_iff n t o j c : 0 < n -> 0 < t -> o < n ->
  ((o + n * j) / t < c <-> j < (c * t + (n - 1 - o)) / n).
Proof.
  intros Hn Ht Ho.
  assert (A : (o + n * j) / t < c <-> o + n * j < t * c).
  { split; intros H.
    - destruct (Nat.lt_ge_cases (o + n * j) (t * c)) as [L|G]; [exact L|]. exfalso.
      apply Nat.div_le_lower_bound in G; [|lia]. set (d := (o + n * j) / t) in *. lia.
    - apply Nat.div_lt_upper_bound; [lia | exact H]. }
  assert (B : j < (c * t + (n - 1 - o)) / n <-> n * S j <= c * t + (n - 1 - o)).
  { split; intros H.
    - destruct (Nat.lt_ge_cases (c * t + (n - 1 - o)) (n * S j)) as [L|G]; [|exact G]. exfalso.
      apply Nat.div_lt_upper_bound in L; [|lia]. set (d := (c * t + (n - 1 - o)) / n) in *. lia.
    - apply Nat.div_le_lower_bound in H; [|lia]. set (d := (c * t + (n - 1 - o)) / n) in *. lia. }
  rewrite A, B. nia.
Qed.

Lemma sys_N_le n t o c : 0 < n -> o < n -> c <= n -> (c * t + (n - 1 - o)) / n <= t.
Proof.
  intros Hn Ho Hc.
  assert (H : (c * t + (n - 1 - o)) / n < S t); [|lia].
  apply Nat.div_lt_upper_bound; [lia | nia].
Qed.

Lemma sys_N_mono n t o a b : 0 < n -> a <= b -> (a * t + (n - 1 - o)) / n <= (b * t + (n - 1 - o)) / n.
Proof. intros Hn Hab. apply Nat.div_le_mono; [lia | nia]. Qed.

(** the number of pointers in a block of x positions is the floor or the ceiling of x*t/n *)
Lemma block_bounds n U V : 0 < n ->
  V / n <= (U + V) / n - U / n <= (V + n - 1) / n.
Proof.
  intros Hn.
  pose proof (Nat.div_mod U n ltac:(lia)) as EU. pose proof (Nat.mod_upper_bound U n ltac:(lia)) as BU.
  pose proof (Nat.div_mod V n ltac:(lia)) as EV. pose proof (Nat.mod_upper_bound V n ltac:(lia)) as BV.
  set (u := U / n) in *. set (ru := U mod n) in *. set (v := V / n) in *. set (rv := V mod n) in *.
  assert (L : u + v <= (U + V) / n) by (apply Nat.div_le_lower_bound; [lia | nia]).
  assert (R : (U + V) / n < u + v + 2) by (apply Nat.div_lt_upper_bound; [lia | nia]).
  destruct (Nat.eq_dec rv 0) as [Z0|NZ].
  - assert (R' : (U + V) / n < u + v + 1) by (apply Nat.div_lt_upper_bound; [lia | nia]).
    assert (C : v <= (V + n - 1) / n) by (apply Nat.div_le_lower_bound; [lia | nia]).
    lia.
  - assert (C : v + 1 <= (V + n - 1) / n) by (apply Nat.div_le_lower_bound; [lia | nia]).
    lia.
Qed.

(** * 2. list toolkit *)
Lemma filter_map_length {A B} (f : A -> B) (P : B -> bool) l :
  length (filter P (map f l)) = length (filter (fun a => P (f a)) l).
Proof. induction l as [|a l IH]; [reflexivity|]. cbn [map filter]. destruct (P (f a)); cbn [length]; now rewrite IH. Qed.

Lemma filter_range_length lo hi t :
  length (filter (fun j => (lo <=? j) && (j <? hi)) (seq 0 t)) = Nat.min hi t - Nat.min lo t.
Proof.
  induction t as [|t IH]; [cbn; lia|].
  rewrite seq_S, filter_app, app_length, IH. cbn [Nat.add filter].
  destruct (Nat.leb_spec lo t) as [L|L], (Nat.ltb_spec t hi) as [H|H]; cbn [andb length]; lia.
Qed.

(** * 3. pointers of the integer sampling *)
Lemma sys_ix_length n t o : length (sys_ix n t o) = t.
Proof. unfold sys_ix. now rewrite map_length, seq_length. Qed.

Lemma sys_ix_bound n t o : 0 < n -> o < n -> Forall (fun p => p < n) (sys_ix n t o).
Proof.
  intros Hn Ho. unfold sys_ix. apply Forall_forall. intros p Hp. apply in_map_iff in Hp as (j & <- & Hj).
  apply in_seq in Hj. apply Nat.div_lt_upper_bound; [lia | nia].
Qed.

(** number of pointers inside the block [A, B) of positions *)
Lemma sys_block_count n t o A B : 0 < n -> 0 < t -> o < n -> A <= B -> B <= n ->
  length (filter (fun p => (A <=? p) && (p <? B)) (sys_ix n t o))
  = (B * t + (n - 1 - o)) / n - (A * t + (n - 1 - o)) / n.
Proof.
  intros Hn Ht Ho HAB HB. unfold sys_ix. rewrite filter_map_length.
  set (N := fun c => (c * t + (n - 1 - o)) / n).
  rewrite (filter_ext _ (fun j => (N A <=? j) && (j <? N B))).
  - rewrite filter_range_length.
    pose proof (sys_N_le n t o B Hn Ho HB) as LB. pose proof (sys_N_mono n t o A B Hn HAB) as LAB.
    fold (N A) (N B) in *. lia.
  - intros j. pose proof (sys_lt_iff n t o j A Hn Ht Ho) as IA. pose proof (sys_lt_iff n t o j B Hn Ht Ho) as IB.
    fold (N A) in IA. fold (N B) in IB.
    destruct (Nat.leb_spec A ((o + n * j) / t)), (Nat.ltb_spec ((o + n * j) / t) B),
             (Nat.leb_spec (N A) j), (Nat.ltb_spec j (N B)); cbn [andb]; try reflexivity; exfalso; lia.
Qed.

(** * 4. blocks of the repeated option array *)
Lemma rep_from_split : forall x s i, i < length x ->
  rep_from s x = rep_from s (firstn i x) ++ repeat (Z.of_nat (s + i)) (Z.to_nat (nth i x 0%Z)) ++ rep_from (s + S i) (skipn (S i) x).
Proof.
  induction x as [|c x IH]; intros s i Hi; [cbn in Hi; lia|].
  destruct i as [|i].
  - cbn [firstn rep_from nth skipn app]. now rewrite Nat.add_0_r, Nat.add_1_r.
  - cbn [firstn rep_from nth skipn]. cbn [length] in Hi. rewrite (IH (S s) i) by lia.
    replace (S s + i) with (s + S i) by lia. replace (S s + S i) with (s + S (S i)) by lia.
    now rewrite <- app_assoc.
Qed.

Lemma nth_repeat_lt {A} (a d : A) k p : p < k -> nth p (repeat a k) d = a.
Proof. intros H. apply (repeat_spec k a). apply nth_In. now rewrite repeat_length. Qed.

(** the entry at position p is individual i exactly when p lies in i's block *)
Lemma rep_from_nth_block x i p : i < length x -> p < length (rep_from 0 x) ->
  Z.eqb (nth p (rep_from 0 x) 0%Z) (Z.of_nat i)
  = (length (rep_from 0 (firstn i x)) <=? p) && (p <? length (rep_from 0 (firstn i x)) + Z.to_nat (nth i x 0%Z)).
Proof.
  intros Hi Hp. rewrite (rep_from_split x 0 i Hi) in Hp |- *. cbn [Nat.add] in *.
  set (P1 := rep_from 0 (firstn i x)) in *. set (k := Z.to_nat (nth i x 0%Z)) in *.
  set (P3 := rep_from (S i) (skipn (S i) x)) in *.
  rewrite !app_length, repeat_length in Hp.
  destruct (Nat.leb_spec (length P1) p) as [L1|L1]; cbn [andb].
  - rewrite app_nth2 by lia. destruct (Nat.ltb_spec p (length P1 + k)) as [L2|L2].
    + rewrite app_nth1 by (rewrite repeat_length; lia). rewrite nth_repeat_lt by lia. apply Z.eqb_refl.
    + rewrite app_nth2 by (rewrite repeat_length; lia). rewrite repeat_length.
      apply Z.eqb_neq. intros E.
      assert (Hin : In (Z.of_nat i) P3) by (rewrite <- E; apply nth_In; lia).
      apply rep_from_In_gen in Hin as (i' & E' & _). lia.
  - rewrite app_nth1 by lia. apply Z.eqb_neq. intros E.
    assert (Hin : In (Z.of_nat i) P1) by (rewrite <- E; apply nth_In; lia).
    apply rep_from_In_gen in Hin as (i' & E' & Hi' & _). rewrite firstn_length in Hi'. lia.
Qed.

Lemma rep_from_block_le x i : i < length x ->
  length (rep_from 0 (firstn i x)) + Z.to_nat (nth i x 0%Z) <= length (rep_from 0 x).
Proof.
  intros Hi. rewrite (rep_from_split x 0 i Hi) at 1. cbn [Nat.add]. rewrite !app_length, repeat_length. lia.
Qed.

(** labels gathered at positions [pos]: individual i is counted once per position inside its block *)
Lemma count_gather_block x i pos : i < length x -> Forall (fun p => p < length (rep_from 0 x)) pos ->
  count_z (Z.of_nat i) (take_labels (rep_from 0 x) pos)
  = length (filter (fun p => (length (rep_from 0 (firstn i x)) <=? p)
                             && (p <? length (rep_from 0 (firstn i x)) + Z.to_nat (nth i x 0%Z))) pos).
Proof.
  intros Hi Hpos. unfold take_labels, gather. rewrite count_z_map_filter. f_equal.
  apply filter_ext_in. intros p Hp. rewrite Forall_forall in Hpos. now apply rep_from_nth_block; [|apply Hpos].
Qed.

(** * 5. the integer sampling: every individual the floor or the ceiling of its share *)
Lemma sys_choice_counts x t o s : 0 < t -> sys_choice (rep_from 0 x) t o = Some s ->
  let n := length (rep_from 0 x) in
  o < n /\ length s = t /\ (forall v, In v s -> In v (rep_from 0 x)) /\
  forall i, i < length x ->
    Z.to_nat (nth i x 0%Z) * t / n <= count_z (Z.of_nat i) s <= (Z.to_nat (nth i x 0%Z) * t + n - 1) / n.
Proof.
  intros Ht H. cbv zeta. unfold sys_choice in H.
  destruct (Nat.ltb_spec o (length (rep_from 0 x))) as [Ho|Ho]; [|discriminate]. injection H as <-.
  set (n := length (rep_from 0 x)) in *. assert (Hn : 0 < n) by lia.
  pose proof (sys_ix_bound n t o Hn Ho) as Hb.
  split; [exact Ho|]. split; [|split].
  - unfold take_labels, gather. now rewrite map_length, sys_ix_length.
  - intros v Hv. unfold take_labels, gather in Hv. apply in_map_iff in Hv as (p & <- & Hp). apply nth_In.
    rewrite Forall_forall in Hb. now apply Hb.
  - intros i Hi. rewrite (count_gather_block x i _ Hi Hb).
    pose proof (rep_from_block_le x i Hi) as HB. fold n in HB.
    set (A := length (rep_from 0 (firstn i x))) in *. set (k := Z.to_nat (nth i x 0%Z)) in *.
    rewrite (sys_block_count n t o A (A + k) Hn Ht Ho ltac:(lia) HB).
    replace ((A + k) * t + (n - 1 - o)) with ((A * t + (n - 1 - o)) + k * t) by lia.
    apply block_bounds. exact Hn.
Qed.

(** * 6. IntegerSelectionConfiguration *)
Lemma cfg_integer_inv nc np x start perm pms r : cfg_integer nc np x start perm pms = Some r ->
  0 < nc * np /\ (forall c, In c x -> (0 <= c)%Z) /\
  exists s, sys_choice (rep_from 0 x) (nc * np) start = Some s /\ length perm = nc * np /\
            cfg_integer_sample nc np x start perm = Some (permute 0%Z perm s) /\
            xc_tail nc np (permute 0%Z perm s) pms = Some r.
Proof.
  unfold cfg_integer. destruct (shape_ok nc np) eqn:Hs; [|discriminate].
  destruct (shape_ok_pos _ _ Hs) as (_ & _ & Hk).
  destruct (cfg_integer_sample nc np x start perm) as [y|] eqn:Ey; [|discriminate].
  intros H. unfold cfg_integer_sample in Ey.
  destruct (rep_options x) as [opts|] eqn:Eo; [|discriminate].
  destruct (rep_options_some _ _ Eo) as [Eopts Hnn]. rewrite Eopts in Ey.
  destruct (sys_choice (rep_from 0 x) (nc * np) start) as [s|] eqn:Es; [|discriminate].
  destruct (Nat.eqb_spec (length perm) (nc * np)) as [Lp|]; [|discriminate]. injection Ey as <-.
  split; [exact Hk|]. split; [exact Hnn|]. exists s. repeat split; assumption.
Qed.

(** FULL STRENGTH: no condition on the count vector (any sum, dividing the number of slots or not), any start the
    generator can return, any shuffle, any exchange orders of the descent *)
Theorem cfg_integer_spec : forall nc np x start perm pms r,
  let n := length (rep_from 0 x) in let t := nc * np in
  Permutation perm (seq 0 t) ->
  (forall s, cfg_integer_sample nc np x start perm = Some s -> draws_ok np s pms) ->
  cfg_integer nc np x start perm pms = Some r ->
  length r = t /\
  (forall v, In v r -> exists i, v = Z.of_nat i /\ i < length x /\ (0 < nth i x 0)%Z) /\
  (forall i, i < length x ->
     Z.to_nat (nth i x 0%Z) * t / n <= count_z (Z.of_nat i) r <= (Z.to_nat (nth i x 0%Z) * t + n - 1) / n) /\
  local_opt np r.
Proof.
  intros nc np x start perm pms r. cbv zeta. intros Hperm Hd H.
  destruct (cfg_integer_inv _ _ _ _ _ _ _ H) as (Hk & Hnn & s & Hs & Lp & Hsam & Ht).
  destruct (sys_choice_counts x (nc * np) start s Hk Hs) as (Ho & Ls & Ins & Cs).
  assert (Ps : Permutation (permute 0%Z perm s) s) by (apply permute_Permutation; rewrite Ls; exact Hperm).
  assert (Ly : length (permute 0%Z perm s) = nc * np) by (rewrite permute_length; exact Lp).
  destruct (xc_tail_spec nc np _ pms r Ly (Hd _ Hsam) Ht) as (Lr & Pr & _ & Or).
  split; [exact Lr|]. split; [|split; [|exact Or]].
  - intros v Hv. apply rep_from_In. apply Ins. eapply Permutation_in; [exact Ps|]. eapply Permutation_in; [exact Pr | exact Hv].
  - intros i Hi. rewrite (count_z_Permutation _ _ _ Pr), (count_z_Permutation _ _ _ Ps). now apply Cs.
Qed.

(** the clause of the property ('within one of the proportional share'), in the form whose negation was proved for the
    former code: | count_i * sum(x) - t * x_i | < sum(x) *)
Theorem cfg_integer_share : forall nc np x start perm pms r,
  let n := length (rep_from 0 x) in let t := nc * np in
  Permutation perm (seq 0 t) ->
  (forall s, cfg_integer_sample nc np x start perm = Some s -> draws_ok np s pms) ->
  cfg_integer nc np x start perm pms = Some r ->
  forall i, i < length x ->
    (Z.abs (Z.of_nat (count_z (Z.of_nat i) r) * Z.of_nat n - Z.of_nat t * nth i x 0%Z) < Z.of_nat n)%Z.
Proof.
  intros nc np x start perm pms r. cbv zeta. intros Hperm Hd H i Hi.
  destruct (cfg_integer_spec nc np x start perm pms r Hperm Hd H) as (_ & _ & Cr & _).
  destruct (cfg_integer_inv _ _ _ _ _ _ _ H) as (_ & Hnn & s & Hs & _).
  unfold sys_choice in Hs. destruct (Nat.ltb_spec start (length (rep_from 0 x))) as [Ho|]; [|discriminate].
  specialize (Cr i Hi). set (n := length (rep_from 0 x)) in *. set (c := count_z (Z.of_nat i) r) in *.
  assert (Hx : (0 <= nth i x 0)%Z) by (apply Hnn; now apply nth_In).
  set (k := Z.to_nat (nth i x 0%Z)) in *. replace (nth i x 0%Z) with (Z.of_nat k) by (unfold k; lia).
  assert (Hn : 0 < n) by lia. destruct Cr as [C1 C2].
  assert (L : k * (nc * np) < n * (c + 1)).
  { destruct (Nat.lt_ge_cases (k * (nc * np)) (n * (c + 1))) as [L|G]; [exact L|].
    apply Nat.div_le_lower_bound in G; [|lia]. set (d := k * (nc * np) / n) in *. lia. }
  assert (U : n * c < k * (nc * np) + n).
  { destruct (Nat.lt_ge_cases (n * c) (k * (nc * np) + n)) as [L'|G]; [exact L'|].
    assert (G' : k * (nc * np) + n - 1 < n * c) by lia.
    apply Nat.div_lt_upper_bound in G'; [|lia]. set (d := (k * (nc * np) + n - 1) / n) in *. lia. }
  apply Z.abs_lt. nia.
Qed.

(** the sum divides the number of slots: exactly the share *)
Theorem cfg_integer_exact : forall nc np x start perm pms r,
  let n := length (rep_from 0 x) in let t := nc * np in
  Permutation perm (seq 0 t) ->
  (forall s, cfg_integer_sample nc np x start perm = Some s -> draws_ok np s pms) ->
  cfg_integer nc np x start perm pms = Some r ->
  t mod n = 0 ->
  forall i, i < length x -> count_z (Z.of_nat i) r = Z.to_nat (nth i x 0%Z) * (t / n).
Proof.
  intros nc np x start perm pms r. cbv zeta. intros Hperm Hd H Hm i Hi.
  destruct (cfg_integer_spec nc np x start perm pms r Hperm Hd H) as (_ & _ & Cr & _).
  destruct (cfg_integer_inv _ _ _ _ _ _ _ H) as (_ & _ & s & Hs & _).
  unfold sys_choice in Hs. destruct (Nat.ltb_spec start (length (rep_from 0 x))) as [Ho|]; [|discriminate].
  specialize (Cr i Hi). set (n := length (rep_from 0 x)) in *. set (k := Z.to_nat (nth i x 0%Z)) in *.
  assert (Hn : n <> 0) by lia.
  pose proof (Nat.div_mod (nc * np) n Hn) as E. rewrite Hm, Nat.add_0_r in E. set (q := nc * np / n) in *.
  rewrite E in Cr. replace (k * (n * q)) with (k * q * n) in Cr by lia.
  rewrite Nat.div_mul in Cr by exact Hn.
  replace (k * q * n + n - 1) with ((n - 1) + k * q * n) in Cr by lia.
  rewrite Nat.div_add, Nat.div_small in Cr by lia. lia.
Qed.

(** * 7. IntegerMateSelectionConfiguration: the same sampling over the indices of the candidate crosses *)
Theorem cfg_integer_mate_spec : forall nc np x xmap start perm rows,
  let n := length (rep_from 0 x) in
  Permutation perm (seq 0 nc) ->
  cfg_integer_mate nc np x xmap start perm = Some rows ->
  exists ds, xmap_rows xmap ds = Some rows /\ length rows = nc /\ length ds = nc /\
    Forall (fun r => length r = np) rows /\
    (forall d, In d ds -> exists i, d = Z.of_nat i /\ i < length x /\ (0 < nth i x 0)%Z) /\
    (forall i, i < length x ->
       Z.to_nat (nth i x 0%Z) * nc / n <= count_z (Z.of_nat i) ds <= (Z.to_nat (nth i x 0%Z) * nc + n - 1) / n).
Proof.
  intros nc np x xmap start perm rows. cbv zeta. intros Hperm H.
  unfold cfg_integer_mate in H. destruct (shape_ok nc np && xmap_ok np xmap) eqn:Hs; [|discriminate].
  apply andb_prop in Hs as [Hshape Hxm]. destruct (shape_ok_pos _ _ Hshape) as (Hnc & _ & _).
  destruct (rep_options x) as [opts|] eqn:Eo; [|discriminate].
  destruct (rep_options_some _ _ Eo) as [Eopts Hnn]. rewrite Eopts in H.
  destruct (sys_choice (rep_from 0 x) nc start) as [s|] eqn:Es; [|discriminate].
  destruct (Nat.eqb_spec (length perm) nc) as [Lp|]; [|discriminate].
  destruct (sys_choice_counts x nc start s Hnc Es) as (Ho & Ls & Ins & Cs).
  assert (Ps : Permutation (permute 0%Z perm s) s) by (apply permute_Permutation; rewrite Ls; exact Hperm).
  destruct (xmap_rows_spec _ _ _ H) as [Lrows Irows].
  exists (permute 0%Z perm s). split; [exact H|]. rewrite permute_length in Lrows.
  split; [lia|]. split; [now rewrite permute_length|]. split; [|split].
  - apply Forall_forall. intros r Hr. destruct (Irows r Hr) as (d & _ & Ed). apply xmap_row_In in Ed.
    unfold xmap_ok in Hxm. rewrite forallb_forall in Hxm. apply Nat.eqb_eq. now apply Hxm.
  - intros d Hd. apply rep_from_In. apply Ins. eapply Permutation_in; [exact Ps | exact Hd].
  - intros i Hi. rewrite (count_z_Permutation _ _ _ Ps). now apply Cs.
Qed.

(** the former code (tiled_choice over the repeated cross indices): one candidate cross could take every slot *)
Theorem old_cfg_integer_mate_share_refuted : exists nc np x xmap choice perm perm2 ds rows i,
  let opts := rep_from 0 x in
  NoDup choice /\ Forall (fun p => p < length opts) choice /\ length choice = nc mod length opts /\
  Permutation perm (seq 0 nc) /\ Permutation perm2 (seq 0 nc) /\
  old_cfg_integer_mate nc np x xmap choice perm perm2 = Some rows /\ xmap_rows xmap ds = Some rows /\ i < length x /\
  (Z.of_nat (length opts) < Z.abs (Z.of_nat (count_z (Z.of_nat i) ds) * Z.of_nat (length opts) - Z.of_nat nc * nth i x 0%Z))%Z.
Proof.
  exists 3, 2, [3;3;0]%Z, [[0;1];[0;2];[1;2]]%Z, [0;1;2], [0;1;2], [0;1;2], [0;0;0]%Z, [[0;1];[0;1];[0;1]]%Z, 0. cbv zeta.
  assert (L : length (rep_from 0 [3;3;0]%Z) = 6) by reflexivity. rewrite L.
  split; [apply nodupb_NoDup; reflexivity|].
  split; [repeat (apply Forall_cons; [lia|]); apply Forall_nil|].
  split; [reflexivity|].
  split; [apply is_perm_sound; reflexivity|].
  split; [apply is_perm_sound; reflexivity|].
  split; [reflexivity|]. split; [reflexivity|]. split; [cbn [length]; lia | vm_compute; reflexivity].
Qed.

(** * 8. nmating / nprogeny: what a selection protocol accepts, the configuration it builds accepts *)
Theorem proto_args_accepted_by_cfg : forall nc np nm npg,
  proto_args_ok nc np nm npg = true ->
  cfg_args_ok nc np nm npg = true /\ length (matpar_value nc nm) = nc /\ length (matpar_value nc npg) = nc /\
  Forall (fun v => (0 < v)%Z) (matpar_value nc nm) /\ Forall (fun v => (0 < v)%Z) (matpar_value nc npg).
Proof.
  intros nc np nm npg H. split; [exact H|].
  unfold proto_args_ok in H. apply andb_prop in H as [H Hp]. apply andb_prop in H as [_ Hm].
  assert (A : forall m, matpar_proto_ok nc m = true ->
                length (matpar_value nc m) = nc /\ Forall (fun v => (0 < v)%Z) (matpar_value nc m)).
  { intros [v|a] Hok; cbn [matpar_proto_ok matpar_value] in *.
    - split; [apply repeat_length|]. apply Forall_forall. intros u Hu. apply repeat_spec in Hu. subst u. now apply Z.ltb_lt.
    - apply andb_prop in Hok as [Hl Ha]. split; [now apply Nat.eqb_eq|].
      apply Forall_forall. intros u Hu. rewrite forallb_forall in Ha. apply Z.ltb_lt. now apply Ha. }
  destruct (A nm Hm) as [L1 F1]. destruct (A npg Hp) as [L2 F2]. repeat split; assumption.
Qed.

(** before commits fcb030f4 / 8be05ab5 the protocol accepted requests which the configuration refuses (zero matings;
    an array that does not have one entry per cross): select() failed after the whole optimisation *)
Theorem old_proto_mating_refuted :
  (exists nc m, old_matpar_proto_ok nc m = true /\ matpar_cfg_ok nc m = false /\ m = MScalar 0%Z) /\
  (exists nc m, old_matpar_proto_ok nc m = true /\ matpar_cfg_ok nc m = false /\ m = MArray [1;1;1]%Z /\ nc = 2).
Proof. split; [exists 2, (MScalar 0%Z) | exists 2, (MArray [1;1;1]%Z)]; repeat split. Qed.

(** * 9. the hypotheses are satisfiable: counts [3;3;0] for 3 one-parent crosses (the former witness), start 4 *)
Example C07_integer_hyps_satisfiable :
  let x := [3;3;0]%Z in let perm := [2;0;1] in let pms := [[0;1;2]; [0]; [0]; [0]] in
  Permutation perm (seq 0 (3 * 1)) /\
  (forall s, cfg_integer_sample 3 1 x 4 perm = Some s -> draws_ok 1 s pms) /\
  cfg_integer_sample 3 1 x 4 perm = Some [1;0;1]%Z /\
  cfg_integer 3 1 x 4 perm pms = Some [1;0;1]%Z /\
  cfg_integer_mate 3 2 x [[0;1];[0;2];[1;2]]%Z 4 perm = Some [[0;2];[0;1];[0;2]]%Z /\
  proto_args_ok 3 2 (MScalar 2%Z) (MArray [1;4;2]%Z) = true.
Proof.
  cbv zeta. split; [apply is_perm_sound; reflexivity|]. split.
  - intros s Hs. vm_compute in Hs. injection Hs as <-. intros y n Ho. vm_compute in Ho. injection Ho as <- <-.
    cbn [firstn skipn]. split; repeat (apply Forall_cons; [apply is_perm_sound; reflexivity|]); apply Forall_nil.
  - repeat split; vm_compute; reflexivity.
Qed.

Print Assumptions cfg_integer_spec.
Print Assumptions cfg_integer_share.
Print Assumptions cfg_integer_exact.
Print Assumptions cfg_integer_mate_spec.
Print Assumptions old_cfg_integer_mate_share_refuted.
Print Assumptions proto_args_accepted_by_cfg.
Print Assumptions old_proto_mating_refuted.
Print Assumptions C07_integer_hyps_satisfiable.
