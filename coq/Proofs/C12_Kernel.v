(** C12 — the kernel expressions regenerated from the source (Gen/C12_Kernel.v) are the ones the hand model uses, and every
    matrix entry RE-ASSEMBLED FROM THE GENERATED DEFINITIONS ALONE (group / chunk loops, D tables, visited index tuples,
    partial sums, their combination, the scaling, the mirror assignment) is the model's entry, hence equals the enumeration.
    Linking lemmas are closed by [reflexivity] or by case analysis on comparisons: if an expression of the source changes
    (a D table or a parent exchanged in a partial sum, [range(0,female)] for [range(0,female+1)], a dropped [+ step], [0.5] for
    [0.25], [k <= inf], a coefficient of the combination) the regenerated definition no longer unfolds to the model's and this
    file — hence Props/C12.vo — stops compiling. *)
From Coq Require Import String.
From Coq Require Import Lia Lqa.
From PV Require Import Lib.Common Model.C12_Var Model.C12_Enum Model.C12_KernelBase Gen.C12_Kernel
  Proofs.C12_Sums Proofs.C12_Chunks Proofs.C12_Var Proofs.C12_Selfing Proofs.C12_Meiosis Proofs.C12_Exact Proofs.C12_Genic Proofs.C12_Findings.
Local Open Scope Q_scope.

Ltac nb := repeat match goal with
  | |- context[(?a <=? ?b)%nat] => destruct (Nat.leb_spec a b)
  | |- context[(?a <? ?b)%nat] => destruct (Nat.ltb_spec a b)
  | |- context[(?a =? ?b)%nat] => destruct (Nat.eqb_spec a b)
  end; simpl; try reflexivity; try lia.

(** * vmat/util.py and srange *)
Lemma k_rprob_filial_model r k : k_rprob_filial r k = rprob_filial r k.          Proof. reflexivity. Qed.
Lemma d_add_1 d : d_add d 1 = dsucc d.                                            Proof. destruct d; simpl; [rewrite Nat.add_1_r|]; reflexivity. Qed.
Lemma k_cov_D1s_model r d : k_cov_D1s r d = cov_D1s r d.
Proof. unfold k_cov_D1s, k_D1s_pos. rewrite d_add_1. destruct d as [[|k]|]; reflexivity. Qed.
Lemma k_cov_D2s_model r d : k_cov_D2s r d = cov_D2s r d.
Proof. unfold k_cov_D2s, k_D2s_pos. rewrite d_add_1. destruct d as [[|k]|]; reflexivity. Qed.
(** the `else: raise` branch of cov_D1s / cov_D2s is unreachable for a generation number >= 0 *)
Lemma d_tests_total d : d_eqb d 0 || d_gtb d 0 = true.                            Proof. destruct d as [[|k]|]; reflexivity. Qed.
Lemma k_srange_model a b c : k_srange a b c = srange a b c.                        Proof. reflexivity. Qed.
Lemma k_uc_model mean si y : k_uc mean si y = mean + si * y.                       Proof. reflexivity. Qed.
Lemma k_uc_pmean_model epgc (bvf : nat -> nat -> Q) c (tr : nat) : k_uc_pmean epgc (fun k => bvf k tr) c = pmean epgc (map (fun k => bvf k tr) c).  Proof. reflexivity. Qed.

(** * generic facts about the loop shapes *)
Lemma blocked_gen_model chroms mem f step rch cch :
  (forall a b, step a b = chunk_step mem a b) -> (forall a b c, rch a b c = chunks a b c) -> (forall a b c, cch a b c = chunks a b c) ->
  blocked_gen chroms step rch cch f = blocked chroms mem f.
Proof.
  intros H1 H2 H3. unfold blocked_gen, blocked. f_equal. apply map_ext. intros c. cbv zeta. rewrite H1, H2. f_equal. apply map_ext. intros rc.
  rewrite H3. reflexivity.
Qed.

Section LoopEntry.
Variables (n : nat) (visit mvisit : nat -> nat -> bool) (dst src : nat -> nat -> nat * nat) (low : nat -> nat -> Q).
Hypothesis Hm : forall a b, (a < n)%nat -> (b < n)%nat -> mvisit a b = (b <? a)%nat.
Hypothesis Hd : forall a b, dst a b = (b, a).
Hypothesis Hs : forall a b, src a b = (a, b).

Lemma loop_entry_cases i j : (i < n)%nat -> (j < n)%nat ->
  loop_entry n visit mvisit dst src low i j =
  if (i <? j)%nat then (if visit j i then low j i else 0) else (if visit i j then low i j else 0).
Proof.
  intros Hi Hj. unfold loop_entry.
  destruct (find _ _) as [[a b]|] eqn:E.
  - apply find_some in E. destruct E as [Hin Hp]. apply in_prod_iff in Hin. destruct Hin as [Ha Hb].
    apply in_seq in Ha. apply in_seq in Hb. simpl in Hp. apply andb_prop in Hp. destruct Hp as [P1 P2].
    rewrite Hm in P1 by lia. rewrite Hd in P2. unfold pair_eqb in P2. simpl in P2. apply andb_prop in P2. destruct P2 as [P2 P3].
    apply Nat.eqb_eq in P2. apply Nat.eqb_eq in P3. apply Nat.ltb_lt in P1. subst a b.
    simpl. rewrite Hs. simpl. destruct (Nat.ltb_spec i j); [reflexivity | lia].
  - destruct (Nat.ltb_spec i j) as [L|G]; [|reflexivity].
    exfalso. pose proof (find_none _ _ E (j, i)) as F. simpl in F.
    rewrite Hm, Hd in F by lia. unfold pair_eqb in F. simpl in F. rewrite !Nat.eqb_refl in F.
    assert ((i <? j)%nat = true) as T by (apply Nat.ltb_lt; exact L). rewrite T in F. simpl in F.
    assert (In (j, i) (list_prod (seq 0 n) (seq 0 n))) as I by (apply in_prod_iff; split; apply in_seq; lia).
    specialize (F I). discriminate.
Qed.
(** accumulation over male <= female (diagonal included): the model's [mirror_incl] *)
Lemma loop_entry_incl i j : (forall a b, (a < n)%nat -> (b < n)%nat -> visit a b = (b <=? a)%nat) -> (i < n)%nat -> (j < n)%nat ->
  loop_entry n visit mvisit dst src low i j = mirror_incl i j low.
Proof. intros Hv Hi Hj. rewrite loop_entry_cases by assumption. rewrite !Hv by assumption. unfold mirror_incl. nb. Qed.
(** accumulation over male < female only: the diagonal keeps the 0 of numpy.zeros — the model's [mirror] *)
Lemma loop_entry_strict i j : (forall a b, (a < n)%nat -> (b < n)%nat -> visit a b = (b <? a)%nat) -> (i < n)%nat -> (j < n)%nat ->
  loop_entry n visit mvisit dst src low i j = mirror i j low.
Proof. intros Hv Hi Hj. rewrite loop_entry_cases by assumption. rewrite !Hv by assumption. unfold mirror. nb. Qed.
End LoopEntry.

(** tables stated with the D helpers a class actually calls *)
Definition gen_tables (d1 d2 : Q -> depth -> Q) (S : setup) (R : nat -> nat -> Q) (k : nat) : Prop :=
  forall c i j, In c (s_chroms S) -> In i (ixs c) -> In j (ixs c) ->
    0 <= R i j /\ s_D1 S i j == d1 (R i j) (Some k) /\ s_D2 S i j == d2 (R i j) (Some k).
Lemma gen_tables_D d1 d2 S R k : (forall r d, d1 r d = cov_D1s r d) -> (forall r d, d2 r d = cov_D2s r d) -> gen_tables d1 d2 S R k -> D_tables S R k.
Proof. intros H1 H2 H c i j A B C. specialize (H c i j A B C). rewrite H1, H2 in H. exact H. Qed.

(** haplotype readers: the two-, three- and four-way classes read phase 0 only (inbred parents); the dihybrid classes read both *)
Definition g_inbred (geno : list (list Z)) (ph a : nat) : list Z := row geno a.
Definition g_phased (geno geno1 : list (list Z)) (ph a : nat) : list Z := match ph with O => row geno a | _ => row geno1 a end.
Definition gform (S : setup) (t1 t2 : nat) (rb cb : list nat) (D : nat -> nat -> Q) (ga gb : list Z) : Q := qf S D t1 t2 ga gb rb cb.
Definition expected_ctor_tail : list (string * string) :=
  [("taxa"%string, "pgmat.taxa"%string); ("taxa_grp"%string, "pgmat.taxa_grp"%string); ("trait"%string, "algmod.trait"%string)].

(** * two-way genetic variance class (tag two) *)
Lemma k_two_step_model mem a b : k_two_step mem a b = chunk_step mem a b.           Proof. reflexivity. Qed.
Lemma k_two_rchunks_model a b c : k_two_rchunks a b c = chunks a b c.                Proof. reflexivity. Qed.
Lemma k_two_cchunks_model a b c : k_two_cchunks a b c = chunks a b c.                Proof. reflexivity. Qed.
Lemma k_two_groups_model c : k_two_groups (map fst c) (map snd c) = c.
Proof. unfold k_two_groups. induction c as [|[a b] c IH]; simpl; [|rewrite IH]; reflexivity. Qed.
Lemma k_two_D1_model r d : k_two_D1 r d = cov_D1s r d.                                Proof. apply k_cov_D1s_model. Qed.
Lemma k_two_visit_model n f m : (f < n)%nat -> (m < n)%nat -> k_two_visit n f m = (m <? f)%nat.
Proof. intros. unfold k_two_visit. nb. Qed.
Lemma k_two_mvisit_model n f m : (f < n)%nat -> (m < n)%nat -> k_two_mvisit n f m = (m <? f)%nat.
Proof. intros. unfold k_two_mvisit. nb. Qed.
Lemma k_two_layout n t f m : k_two_shape n t = [n; n; t]%nat /\ k_two_acc_ix f m = [f; m] /\
  map (fun a => nth a (k_two_acc_ix f m) O) k_two_maxes = [f; m] /\ k_two_mdst f m = (m, f) /\ k_two_msrc f m = (f, m) /\
  tl k_two_ctor = expected_ctor_tail /\ k_two_epgc = uc_epgc 2.
Proof. repeat split. Qed.
Definition gen_two_low (S : setup) (t1 t2 : nat) (G : nat -> nat -> list Z) (female male : nat) : Q :=
  blocked_gen (s_chroms S) (k_two_step (s_mem S)) k_two_rchunks k_two_cchunks
    (fun rb cb => k_two_comb (k_two_p (gform S t1 t2 rb cb) (s_D1 S) G female male)).
Lemma gen_two_low_model S t1 t2 geno f m : gen_two_low S t1 t2 (g_inbred geno) f m = twoway_low S t1 t2 (row geno f) (row geno m).
Proof. reflexivity. Qed.
Definition gen_two_entry (n : nat) (S : setup) (geno : list (list Z)) (t1 t2 f m : nat) : Q :=
  loop_entry n (k_two_visit n) (k_two_mvisit n) k_two_mdst k_two_msrc (gen_two_low S t1 t2 (g_inbred geno)) f m.
Lemma gen_two_entry_model n S geno t1 t2 f m : (f < n)%nat -> (m < n)%nat ->
  gen_two_entry n S geno t1 t2 f m = twoway_entry S geno t1 t2 f m.
Proof.
  intros Hf Hm. unfold gen_two_entry, twoway_entry.
  rewrite (loop_entry_strict n _ _ _ _ _ (k_two_mvisit_model n) (fun a b => eq_refl) (fun a b => eq_refl) f m (k_two_visit_model n) Hf Hm).
  reflexivity.
Qed.
Theorem kernel_two_exact n S R k geno t1 t2 f m : (f < n)%nat -> (m < n)%nat -> mem_ok (s_mem S) ->
  gen_tables k_two_D1 k_cov_D2s S R k -> gen_two_entry n S geno t1 t2 f m == two_truth S R k geno t1 t2 f m.
Proof.
  intros Hf Hm Hmem HT. rewrite gen_two_entry_model by assumption. apply twoway_entry_exact; [exact Hmem|].
  exact (gen_tables_D _ _ S R k k_two_D1_model k_cov_D2s_model HT).
Qed.

(** * three-way genetic variance class (tag three) *)
Lemma k_three_step_model mem a b : k_three_step mem a b = chunk_step mem a b.       Proof. reflexivity. Qed.
Lemma k_three_rchunks_model a b c : k_three_rchunks a b c = chunks a b c.            Proof. reflexivity. Qed.
Lemma k_three_cchunks_model a b c : k_three_cchunks a b c = chunks a b c.            Proof. reflexivity. Qed.
Lemma k_three_groups_model c : k_three_groups (map fst c) (map snd c) = c.
Proof. unfold k_three_groups. induction c as [|[a b] c IH]; simpl; [|rewrite IH]; reflexivity. Qed.
Lemma k_three_D1_model r d : k_three_D1 r d = cov_D1s r d.                            Proof. apply k_cov_D1s_model. Qed.
Lemma k_three_D2_model r d : k_three_D2 r d = cov_D2s r d.                            Proof. apply k_cov_D2s_model. Qed.
Lemma k_three_visit_model n r f m : (r < n)%nat -> (f < n)%nat -> (m < n)%nat -> k_three_visit n r f m = (m <=? f)%nat.
Proof. intros. unfold k_three_visit. nb. Qed.
Lemma k_three_mvisit_model n f m : (f < n)%nat -> (m < n)%nat -> k_three_mvisit n f m = (m <? f)%nat.
Proof. intros. unfold k_three_mvisit. nb. Qed.
Lemma k_three_layout n t r f m : k_three_shape n t = [n; n; n; t]%nat /\ k_three_acc_ix r f m = [r; f; m] /\
  map (fun a => nth a (k_three_acc_ix r f m) O) k_three_maxes = [f; m] /\ k_three_mdst f m = (m, f) /\ k_three_msrc f m = (f, m) /\
  tl k_three_ctor = expected_ctor_tail /\ k_three_epgc = uc_epgc 3 /\ k_three_scale = 1#4.
Proof. repeat split. Qed.
Definition gen_three_low (S : setup) (t1 t2 : nat) (G : nat -> nat -> list Z) (recurr female male : nat) : Q :=
  k_three_scale * blocked_gen (s_chroms S) (k_three_step (s_mem S)) k_three_rchunks k_three_cchunks
    (fun rb cb => let F := gform S t1 t2 rb cb in
       k_three_comb (k_three_p21 F (s_D1 S) (s_D2 S) G recurr female male) (k_three_p31 F (s_D1 S) (s_D2 S) G recurr female male)
                    (k_three_p23 F (s_D1 S) (s_D2 S) G recurr female male)).
Lemma gen_three_low_model S t1 t2 geno r f m :
  gen_three_low S t1 t2 (g_inbred geno) r f m = threeway_low S t1 t2 (row geno r) (row geno f) (row geno m).
Proof. reflexivity. Qed.
Definition gen_three_entry (n : nat) (S : setup) (geno : list (list Z)) (t1 t2 r f m : nat) : Q :=
  loop_entry n (k_three_visit n r) (k_three_mvisit n) k_three_mdst k_three_msrc (gen_three_low S t1 t2 (g_inbred geno) r) f m.
Lemma gen_three_entry_model n S geno t1 t2 r f m : (r < n)%nat -> (f < n)%nat -> (m < n)%nat ->
  gen_three_entry n S geno t1 t2 r f m = threeway_entry S geno t1 t2 r f m.
Proof.
  intros Hr Hf Hm. unfold gen_three_entry, threeway_entry.
  rewrite (loop_entry_incl n _ _ _ _ _ (k_three_mvisit_model n) (fun a b => eq_refl) (fun a b => eq_refl) f m
             (fun a b Ha Hb => k_three_visit_model n r a b Hr Ha Hb) Hf Hm).
  reflexivity.
Qed.
Theorem kernel_three_exact n S R k geno t1 t2 r f m : (r < n)%nat -> (f < n)%nat -> (m < n)%nat -> mem_ok (s_mem S) ->
  gen_tables k_three_D1 k_three_D2 S R k -> gen_three_entry n S geno t1 t2 r f m == three_truth S R k geno t1 t2 r f m.
Proof.
  intros Hr Hf Hm Hmem HT. rewrite gen_three_entry_model by assumption. apply threeway_entry_exact; [exact Hmem|].
  exact (gen_tables_D _ _ S R k k_three_D1_model k_three_D2_model HT).
Qed.

(** * four-way genetic variance class (tag four) *)
Lemma k_four_step_model mem a b : k_four_step mem a b = chunk_step mem a b.         Proof. reflexivity. Qed.
Lemma k_four_rchunks_model a b c : k_four_rchunks a b c = chunks a b c.              Proof. reflexivity. Qed.
Lemma k_four_cchunks_model a b c : k_four_cchunks a b c = chunks a b c.              Proof. reflexivity. Qed.
Lemma k_four_groups_model c : k_four_groups (map fst c) (map snd c) = c.
Proof. unfold k_four_groups. induction c as [|[a b] c IH]; simpl; [|rewrite IH]; reflexivity. Qed.
Lemma k_four_D1_model r d : k_four_D1 r d = cov_D1s r d.                              Proof. apply k_cov_D1s_model. Qed.
Lemma k_four_D2_model r d : k_four_D2 r d = cov_D2s r d.                              Proof. apply k_cov_D2s_model. Qed.
Lemma k_four_visit_model n f2 m2 f m : (f2 < n)%nat -> (m2 < n)%nat -> (f < n)%nat -> (m < n)%nat -> k_four_visit n f2 m2 f m = (m <=? f)%nat.
Proof. intros. unfold k_four_visit. nb. Qed.
Lemma k_four_mvisit_model n f m : (f < n)%nat -> (m < n)%nat -> k_four_mvisit n f m = (m <? f)%nat.
Proof. intros. unfold k_four_mvisit. nb. Qed.
Lemma k_four_layout n t f2 m2 f m : k_four_shape n t = [n; n; n; n; t]%nat /\ k_four_acc_ix f2 m2 f m = [f2; m2; f; m] /\
  map (fun a => nth a (k_four_acc_ix f2 m2 f m) O) k_four_maxes = [f; m] /\ k_four_mdst f m = (m, f) /\ k_four_msrc f m = (f, m) /\
  tl k_four_ctor = expected_ctor_tail /\ k_four_epgc = uc_epgc 4 /\ k_four_scale = 1#4.
Proof. repeat split. Qed.
Definition gen_four_low (S : setup) (t1 t2 : nat) (G : nat -> nat -> list Z) (female2 male2 female1 male1 : nat) : Q :=
  k_four_scale * blocked_gen (s_chroms S) (k_four_step (s_mem S)) k_four_rchunks k_four_cchunks
    (fun rb cb => let F := gform S t1 t2 rb cb in
       k_four_comb (k_four_p21 F (s_D1 S) (s_D2 S) G female2 male2 female1 male1) (k_four_p31 F (s_D1 S) (s_D2 S) G female2 male2 female1 male1)
                   (k_four_p32 F (s_D1 S) (s_D2 S) G female2 male2 female1 male1) (k_four_p41 F (s_D1 S) (s_D2 S) G female2 male2 female1 male1)
                   (k_four_p42 F (s_D1 S) (s_D2 S) G female2 male2 female1 male1) (k_four_p43 F (s_D1 S) (s_D2 S) G female2 male2 female1 male1)).
Lemma gen_four_low_model S t1 t2 geno f2 m2 f m :
  gen_four_low S t1 t2 (g_inbred geno) f2 m2 f m = quad_low S t1 t2 (row geno f2) (row geno m2) (row geno f) (row geno m).
Proof. reflexivity. Qed.
Definition gen_four_entry (n : nat) (S : setup) (geno : list (list Z)) (t1 t2 f2 m2 f m : nat) : Q :=
  loop_entry n (k_four_visit n f2 m2) (k_four_mvisit n) k_four_mdst k_four_msrc (gen_four_low S t1 t2 (g_inbred geno) f2 m2) f m.
Lemma gen_four_entry_model n S geno t1 t2 f2 m2 f m : (f2 < n)%nat -> (m2 < n)%nat -> (f < n)%nat -> (m < n)%nat ->
  gen_four_entry n S geno t1 t2 f2 m2 f m = fourway_entry S geno t1 t2 f2 m2 f m.
Proof.
  intros H1 H2 Hf Hm. unfold gen_four_entry, fourway_entry.
  rewrite (loop_entry_incl n _ _ _ _ _ (k_four_mvisit_model n) (fun a b => eq_refl) (fun a b => eq_refl) f m
             (fun a b Ha Hb => k_four_visit_model n f2 m2 a b H1 H2 Ha Hb) Hf Hm).
  reflexivity.
Qed.
Theorem kernel_four_exact n S R k geno t1 t2 f2 m2 f m : (f2 < n)%nat -> (m2 < n)%nat -> (f < n)%nat -> (m < n)%nat -> mem_ok (s_mem S) ->
  gen_tables k_four_D1 k_four_D2 S R k ->
  gen_four_entry n S geno t1 t2 f2 m2 f m == four_truth S R k (row geno f2) (row geno m2) (row geno f) (row geno m) t1 t2.
Proof.
  intros H1 H2 Hf Hm Hmem HT. rewrite gen_four_entry_model by assumption. apply fourway_entry_exact; [exact Hmem|].
  exact (gen_tables_D _ _ S R k k_four_D1_model k_four_D2_model HT).
Qed.

(** * dihybrid genetic variance class (tag di) *)
Lemma k_di_step_model mem a b : k_di_step mem a b = chunk_step mem a b.             Proof. reflexivity. Qed.
Lemma k_di_rchunks_model a b c : k_di_rchunks a b c = chunks a b c.                  Proof. reflexivity. Qed.
Lemma k_di_cchunks_model a b c : k_di_cchunks a b c = chunks a b c.                  Proof. reflexivity. Qed.
Lemma k_di_groups_model c : k_di_groups (map fst c) (map snd c) = c.
Proof. unfold k_di_groups. induction c as [|[a b] c IH]; simpl; [|rewrite IH]; reflexivity. Qed.
Lemma k_di_D1_model r d : k_di_D1 r d = cov_D1s r d.                                  Proof. apply k_cov_D1s_model. Qed.
Lemma k_di_D2_model r d : k_di_D2 r d = cov_D2s r d.                                  Proof. apply k_cov_D2s_model. Qed.
Lemma k_di_visit_model n f m : (f < n)%nat -> (m < n)%nat -> k_di_visit n f m = (m <=? f)%nat.
Proof. intros. unfold k_di_visit. nb. Qed.
Lemma k_di_mvisit_model n f m : (f < n)%nat -> (m < n)%nat -> k_di_mvisit n f m = (m <? f)%nat.
Proof. intros. unfold k_di_mvisit. nb. Qed.
Lemma k_di_layout n t f m : k_di_shape n t = [n; n; t]%nat /\ k_di_acc_ix f m = [f; m] /\
  map (fun a => nth a (k_di_acc_ix f m) O) k_di_maxes = [f; m] /\ k_di_mdst f m = (m, f) /\ k_di_msrc f m = (f, m) /\
  tl k_di_ctor = expected_ctor_tail /\ k_di_epgc = uc_epgc 0 /\ k_di_scale = 1#4.
Proof. repeat split. Qed.
Definition gen_di_low (S : setup) (t1 t2 : nat) (G : nat -> nat -> list Z) (female male : nat) : Q :=
  k_di_scale * blocked_gen (s_chroms S) (k_di_step (s_mem S)) k_di_rchunks k_di_cchunks
    (fun rb cb => let F := gform S t1 t2 rb cb in
       k_di_comb (k_di_p21 F (s_D1 S) (s_D2 S) G female male) (k_di_p31 F (s_D1 S) (s_D2 S) G female male)
                 (k_di_p32 F (s_D1 S) (s_D2 S) G female male) (k_di_p41 F (s_D1 S) (s_D2 S) G female male)
                 (k_di_p42 F (s_D1 S) (s_D2 S) G female male) (k_di_p43 F (s_D1 S) (s_D2 S) G female male)).
Lemma gen_di_low_model S t1 t2 geno geno1 f m :
  gen_di_low S t1 t2 (g_phased geno geno1) f m = quad_low S t1 t2 (row geno1 f) (row geno f) (row geno1 m) (row geno m).
Proof. reflexivity. Qed.
Definition gen_di_entry (n : nat) (S : setup) (geno geno1 : list (list Z)) (t1 t2 f m : nat) : Q :=
  loop_entry n (k_di_visit n) (k_di_mvisit n) k_di_mdst k_di_msrc (gen_di_low S t1 t2 (g_phased geno geno1)) f m.
Lemma gen_di_entry_model n S geno geno1 t1 t2 f m : (f < n)%nat -> (m < n)%nat ->
  gen_di_entry n S geno geno1 t1 t2 f m = dihybrid_entry S geno geno1 t1 t2 f m.
Proof.
  intros Hf Hm. unfold gen_di_entry, dihybrid_entry.
  rewrite (loop_entry_incl n _ _ _ _ _ (k_di_mvisit_model n) (fun a b => eq_refl) (fun a b => eq_refl) f m (k_di_visit_model n) Hf Hm).
  reflexivity.
Qed.
Theorem kernel_di_exact n S R k geno geno1 t1 t2 f m : (f < n)%nat -> (m < n)%nat -> mem_ok (s_mem S) ->
  gen_tables k_di_D1 k_di_D2 S R k ->
  gen_di_entry n S geno geno1 t1 t2 f m == four_truth S R k (row geno1 f) (row geno f) (row geno1 m) (row geno m) t1 t2.
Proof.
  intros Hf Hm Hmem HT. rewrite gen_di_entry_model by assumption. apply dihybrid_entry_exact; [exact Hmem|].
  exact (gen_tables_D _ _ S R k k_di_D1_model k_di_D2_model HT).
Qed.

(** * two-way progeny covariance class (tag twoc) *)
Lemma k_twoc_step_model mem a b : k_twoc_step mem a b = chunk_step mem a b.           Proof. reflexivity. Qed.
Lemma k_twoc_rchunks_model a b c : k_twoc_rchunks a b c = chunks a b c.                Proof. reflexivity. Qed.
Lemma k_twoc_cchunks_model a b c : k_twoc_cchunks a b c = chunks a b c.                Proof. reflexivity. Qed.
Lemma k_twoc_groups_model c : k_twoc_groups (map fst c) (map snd c) = c.
Proof. unfold k_twoc_groups. induction c as [|[a b] c IH]; simpl; [|rewrite IH]; reflexivity. Qed.
Lemma k_twoc_D1_model r d : k_twoc_D1 r d = cov_D1s r d.                                Proof. apply k_cov_D1s_model. Qed.
Lemma k_twoc_visit_model n f m : (f < n)%nat -> (m < n)%nat -> k_twoc_visit n f m = (m <? f)%nat.
Proof. intros. unfold k_twoc_visit. nb. Qed.
Lemma k_twoc_mvisit_model n f m : (f < n)%nat -> (m < n)%nat -> k_twoc_mvisit n f m = (m <? f)%nat.
Proof. intros. unfold k_twoc_mvisit. nb. Qed.
Lemma k_twoc_layout n t f m : k_twoc_shape n t = [n; n; t; t]%nat /\ k_twoc_acc_ix f m = [f; m] /\
  map (fun a => nth a (k_twoc_acc_ix f m) O) k_twoc_maxes = [f; m] /\ k_twoc_mdst f m = (m, f) /\ k_twoc_msrc f m = (f, m) /\
  tl k_twoc_ctor = expected_ctor_tail /\ k_twoc_epgc = uc_epgc 2.
Proof. repeat split. Qed.
Definition gen_twoc_low (S : setup) (t1 t2 : nat) (G : nat -> nat -> list Z) (female male : nat) : Q :=
  blocked_gen (s_chroms S) (k_twoc_step (s_mem S)) k_twoc_rchunks k_twoc_cchunks
    (fun rb cb => k_twoc_comb (k_twoc_p (gform S t1 t2 rb cb) (s_D1 S) G female male)).
Lemma gen_twoc_low_model S t1 t2 geno f m : gen_twoc_low S t1 t2 (g_inbred geno) f m = twoway_low S t1 t2 (row geno f) (row geno m).
Proof. reflexivity. Qed.
Definition gen_twoc_entry (n : nat) (S : setup) (geno : list (list Z)) (t1 t2 f m : nat) : Q :=
  loop_entry n (k_twoc_visit n) (k_twoc_mvisit n) k_twoc_mdst k_twoc_msrc (gen_twoc_low S t1 t2 (g_inbred geno)) f m.
Lemma gen_twoc_entry_model n S geno t1 t2 f m : (f < n)%nat -> (m < n)%nat ->
  gen_twoc_entry n S geno t1 t2 f m = twoway_entry S geno t1 t2 f m.
Proof.
  intros Hf Hm. unfold gen_twoc_entry, twoway_entry.
  rewrite (loop_entry_strict n _ _ _ _ _ (k_twoc_mvisit_model n) (fun a b => eq_refl) (fun a b => eq_refl) f m (k_twoc_visit_model n) Hf Hm).
  reflexivity.
Qed.
Theorem kernel_twoc_exact n S R k geno t1 t2 f m : (f < n)%nat -> (m < n)%nat -> mem_ok (s_mem S) ->
  gen_tables k_twoc_D1 k_cov_D2s S R k -> gen_twoc_entry n S geno t1 t2 f m == two_truth S R k geno t1 t2 f m.
Proof.
  intros Hf Hm Hmem HT. rewrite gen_twoc_entry_model by assumption. apply twoway_entry_exact; [exact Hmem|].
  exact (gen_tables_D _ _ S R k k_twoc_D1_model k_cov_D2s_model HT).
Qed.

(** * three-way progeny covariance class (tag threec) *)
Lemma k_threec_step_model mem a b : k_threec_step mem a b = chunk_step mem a b.       Proof. reflexivity. Qed.
Lemma k_threec_rchunks_model a b c : k_threec_rchunks a b c = chunks a b c.            Proof. reflexivity. Qed.
Lemma k_threec_cchunks_model a b c : k_threec_cchunks a b c = chunks a b c.            Proof. reflexivity. Qed.
Lemma k_threec_groups_model c : k_threec_groups (map fst c) (map snd c) = c.
Proof. unfold k_threec_groups. induction c as [|[a b] c IH]; simpl; [|rewrite IH]; reflexivity. Qed.
Lemma k_threec_D1_model r d : k_threec_D1 r d = cov_D1s r d.                            Proof. apply k_cov_D1s_model. Qed.
Lemma k_threec_D2_model r d : k_threec_D2 r d = cov_D2s r d.                            Proof. apply k_cov_D2s_model. Qed.
Lemma k_threec_visit_model n r f m : (r < n)%nat -> (f < n)%nat -> (m < n)%nat -> k_threec_visit n r f m = (m <=? f)%nat.
Proof. intros. unfold k_threec_visit. nb. Qed.
Lemma k_threec_mvisit_model n f m : (f < n)%nat -> (m < n)%nat -> k_threec_mvisit n f m = (m <? f)%nat.
Proof. intros. unfold k_threec_mvisit. nb. Qed.
Lemma k_threec_layout n t r f m : k_threec_shape n t = [n; n; n; t; t]%nat /\ k_threec_acc_ix r f m = [r; f; m] /\
  map (fun a => nth a (k_threec_acc_ix r f m) O) k_threec_maxes = [f; m] /\ k_threec_mdst f m = (m, f) /\ k_threec_msrc f m = (f, m) /\
  tl k_threec_ctor = expected_ctor_tail /\ k_threec_epgc = uc_epgc 3 /\ k_threec_scale = 1#4.
Proof. repeat split. Qed.
Definition gen_threec_low (S : setup) (t1 t2 : nat) (G : nat -> nat -> list Z) (recurr female male : nat) : Q :=
  k_threec_scale * blocked_gen (s_chroms S) (k_threec_step (s_mem S)) k_threec_rchunks k_threec_cchunks
    (fun rb cb => let F := gform S t1 t2 rb cb in
       k_threec_comb (k_threec_p21 F (s_D1 S) (s_D2 S) G recurr female male) (k_threec_p31 F (s_D1 S) (s_D2 S) G recurr female male)
                    (k_threec_p23 F (s_D1 S) (s_D2 S) G recurr female male)).
Lemma gen_threec_low_model S t1 t2 geno r f m :
  gen_threec_low S t1 t2 (g_inbred geno) r f m = threeway_low S t1 t2 (row geno r) (row geno f) (row geno m).
Proof. reflexivity. Qed.
Definition gen_threec_entry (n : nat) (S : setup) (geno : list (list Z)) (t1 t2 r f m : nat) : Q :=
  loop_entry n (k_threec_visit n r) (k_threec_mvisit n) k_threec_mdst k_threec_msrc (gen_threec_low S t1 t2 (g_inbred geno) r) f m.
Lemma gen_threec_entry_model n S geno t1 t2 r f m : (r < n)%nat -> (f < n)%nat -> (m < n)%nat ->
  gen_threec_entry n S geno t1 t2 r f m = threeway_entry S geno t1 t2 r f m.
Proof.
  intros Hr Hf Hm. unfold gen_threec_entry, threeway_entry.
  rewrite (loop_entry_incl n _ _ _ _ _ (k_threec_mvisit_model n) (fun a b => eq_refl) (fun a b => eq_refl) f m
             (fun a b Ha Hb => k_threec_visit_model n r a b Hr Ha Hb) Hf Hm).
  reflexivity.
Qed.
Theorem kernel_threec_exact n S R k geno t1 t2 r f m : (r < n)%nat -> (f < n)%nat -> (m < n)%nat -> mem_ok (s_mem S) ->
  gen_tables k_threec_D1 k_threec_D2 S R k -> gen_threec_entry n S geno t1 t2 r f m == three_truth S R k geno t1 t2 r f m.
Proof.
  intros Hr Hf Hm Hmem HT. rewrite gen_threec_entry_model by assumption. apply threeway_entry_exact; [exact Hmem|].
  exact (gen_tables_D _ _ S R k k_threec_D1_model k_threec_D2_model HT).
Qed.

(** * four-way progeny covariance class (tag fourc) *)
Lemma k_fourc_step_model mem a b : k_fourc_step mem a b = chunk_step mem a b.         Proof. reflexivity. Qed.
Lemma k_fourc_rchunks_model a b c : k_fourc_rchunks a b c = chunks a b c.              Proof. reflexivity. Qed.
Lemma k_fourc_cchunks_model a b c : k_fourc_cchunks a b c = chunks a b c.              Proof. reflexivity. Qed.
Lemma k_fourc_groups_model c : k_fourc_groups (map fst c) (map snd c) = c.
Proof. unfold k_fourc_groups. induction c as [|[a b] c IH]; simpl; [|rewrite IH]; reflexivity. Qed.
Lemma k_fourc_D1_model r d : k_fourc_D1 r d = cov_D1s r d.                              Proof. apply k_cov_D1s_model. Qed.
Lemma k_fourc_D2_model r d : k_fourc_D2 r d = cov_D2s r d.                              Proof. apply k_cov_D2s_model. Qed.
Lemma k_fourc_visit_model n f2 m2 f m : (f2 < n)%nat -> (m2 < n)%nat -> (f < n)%nat -> (m < n)%nat -> k_fourc_visit n f2 m2 f m = (m <=? f)%nat.
Proof. intros. unfold k_fourc_visit. nb. Qed.
Lemma k_fourc_mvisit_model n f m : (f < n)%nat -> (m < n)%nat -> k_fourc_mvisit n f m = (m <? f)%nat.
Proof. intros. unfold k_fourc_mvisit. nb. Qed.
Lemma k_fourc_layout n t f2 m2 f m : k_fourc_shape n t = [n; n; n; n; t; t]%nat /\ k_fourc_acc_ix f2 m2 f m = [f2; m2; f; m] /\
  map (fun a => nth a (k_fourc_acc_ix f2 m2 f m) O) k_fourc_maxes = [f; m] /\ k_fourc_mdst f m = (m, f) /\ k_fourc_msrc f m = (f, m) /\
  tl k_fourc_ctor = expected_ctor_tail /\ k_fourc_epgc = uc_epgc 4 /\ k_fourc_scale = 1#4.
Proof. repeat split. Qed.
Definition gen_fourc_low (S : setup) (t1 t2 : nat) (G : nat -> nat -> list Z) (female2 male2 female1 male1 : nat) : Q :=
  k_fourc_scale * blocked_gen (s_chroms S) (k_fourc_step (s_mem S)) k_fourc_rchunks k_fourc_cchunks
    (fun rb cb => let F := gform S t1 t2 rb cb in
       k_fourc_comb (k_fourc_p21 F (s_D1 S) (s_D2 S) G female2 male2 female1 male1) (k_fourc_p31 F (s_D1 S) (s_D2 S) G female2 male2 female1 male1)
                   (k_fourc_p32 F (s_D1 S) (s_D2 S) G female2 male2 female1 male1) (k_fourc_p41 F (s_D1 S) (s_D2 S) G female2 male2 female1 male1)
                   (k_fourc_p42 F (s_D1 S) (s_D2 S) G female2 male2 female1 male1) (k_fourc_p43 F (s_D1 S) (s_D2 S) G female2 male2 female1 male1)).
Lemma gen_fourc_low_model S t1 t2 geno f2 m2 f m :
  gen_fourc_low S t1 t2 (g_inbred geno) f2 m2 f m = quad_low S t1 t2 (row geno f2) (row geno m2) (row geno f) (row geno m).
Proof. reflexivity. Qed.
Definition gen_fourc_entry (n : nat) (S : setup) (geno : list (list Z)) (t1 t2 f2 m2 f m : nat) : Q :=
  loop_entry n (k_fourc_visit n f2 m2) (k_fourc_mvisit n) k_fourc_mdst k_fourc_msrc (gen_fourc_low S t1 t2 (g_inbred geno) f2 m2) f m.
Lemma gen_fourc_entry_model n S geno t1 t2 f2 m2 f m : (f2 < n)%nat -> (m2 < n)%nat -> (f < n)%nat -> (m < n)%nat ->
  gen_fourc_entry n S geno t1 t2 f2 m2 f m = fourway_entry S geno t1 t2 f2 m2 f m.
Proof.
  intros H1 H2 Hf Hm. unfold gen_fourc_entry, fourway_entry.
  rewrite (loop_entry_incl n _ _ _ _ _ (k_fourc_mvisit_model n) (fun a b => eq_refl) (fun a b => eq_refl) f m
             (fun a b Ha Hb => k_fourc_visit_model n f2 m2 a b H1 H2 Ha Hb) Hf Hm).
  reflexivity.
Qed.
Theorem kernel_fourc_exact n S R k geno t1 t2 f2 m2 f m : (f2 < n)%nat -> (m2 < n)%nat -> (f < n)%nat -> (m < n)%nat -> mem_ok (s_mem S) ->
  gen_tables k_fourc_D1 k_fourc_D2 S R k ->
  gen_fourc_entry n S geno t1 t2 f2 m2 f m == four_truth S R k (row geno f2) (row geno m2) (row geno f) (row geno m) t1 t2.
Proof.
  intros H1 H2 Hf Hm Hmem HT. rewrite gen_fourc_entry_model by assumption. apply fourway_entry_exact; [exact Hmem|].
  exact (gen_tables_D _ _ S R k k_fourc_D1_model k_fourc_D2_model HT).
Qed.

(** * dihybrid progeny covariance class (tag dic) *)
Lemma k_dic_step_model mem a b : k_dic_step mem a b = chunk_step mem a b.             Proof. reflexivity. Qed.
Lemma k_dic_rchunks_model a b c : k_dic_rchunks a b c = chunks a b c.                  Proof. reflexivity. Qed.
Lemma k_dic_cchunks_model a b c : k_dic_cchunks a b c = chunks a b c.                  Proof. reflexivity. Qed.
Lemma k_dic_groups_model c : k_dic_groups (map fst c) (map snd c) = c.
Proof. unfold k_dic_groups. induction c as [|[a b] c IH]; simpl; [|rewrite IH]; reflexivity. Qed.
Lemma k_dic_D1_model r d : k_dic_D1 r d = cov_D1s r d.                                  Proof. apply k_cov_D1s_model. Qed.
Lemma k_dic_D2_model r d : k_dic_D2 r d = cov_D2s r d.                                  Proof. apply k_cov_D2s_model. Qed.
Lemma k_dic_visit_model n f m : (f < n)%nat -> (m < n)%nat -> k_dic_visit n f m = (m <=? f)%nat.
Proof. intros. unfold k_dic_visit. nb. Qed.
Lemma k_dic_mvisit_model n f m : (f < n)%nat -> (m < n)%nat -> k_dic_mvisit n f m = (m <? f)%nat.
Proof. intros. unfold k_dic_mvisit. nb. Qed.
Lemma k_dic_layout n t f m : k_dic_shape n t = [n; n; t; t]%nat /\ k_dic_acc_ix f m = [f; m] /\
  map (fun a => nth a (k_dic_acc_ix f m) O) k_dic_maxes = [f; m] /\ k_dic_mdst f m = (m, f) /\ k_dic_msrc f m = (f, m) /\
  tl k_dic_ctor = expected_ctor_tail /\ k_dic_epgc = uc_epgc 0 /\ k_dic_scale = 1#4.
Proof. repeat split. Qed.
Definition gen_dic_low (S : setup) (t1 t2 : nat) (G : nat -> nat -> list Z) (female male : nat) : Q :=
  k_dic_scale * blocked_gen (s_chroms S) (k_dic_step (s_mem S)) k_dic_rchunks k_dic_cchunks
    (fun rb cb => let F := gform S t1 t2 rb cb in
       k_dic_comb (k_dic_p21 F (s_D1 S) (s_D2 S) G female male) (k_dic_p31 F (s_D1 S) (s_D2 S) G female male)
                 (k_dic_p32 F (s_D1 S) (s_D2 S) G female male) (k_dic_p41 F (s_D1 S) (s_D2 S) G female male)
                 (k_dic_p42 F (s_D1 S) (s_D2 S) G female male) (k_dic_p43 F (s_D1 S) (s_D2 S) G female male)).
Lemma gen_dic_low_model S t1 t2 geno geno1 f m :
  gen_dic_low S t1 t2 (g_phased geno geno1) f m = quad_low S t1 t2 (row geno1 f) (row geno f) (row geno1 m) (row geno m).
Proof. reflexivity. Qed.
Definition gen_dic_entry (n : nat) (S : setup) (geno geno1 : list (list Z)) (t1 t2 f m : nat) : Q :=
  loop_entry n (k_dic_visit n) (k_dic_mvisit n) k_dic_mdst k_dic_msrc (gen_dic_low S t1 t2 (g_phased geno geno1)) f m.
Lemma gen_dic_entry_model n S geno geno1 t1 t2 f m : (f < n)%nat -> (m < n)%nat ->
  gen_dic_entry n S geno geno1 t1 t2 f m = dihybrid_entry S geno geno1 t1 t2 f m.
Proof.
  intros Hf Hm. unfold gen_dic_entry, dihybrid_entry.
  rewrite (loop_entry_incl n _ _ _ _ _ (k_dic_mvisit_model n) (fun a b => eq_refl) (fun a b => eq_refl) f m (k_dic_visit_model n) Hf Hm).
  reflexivity.
Qed.
Theorem kernel_dic_exact n S R k geno geno1 t1 t2 f m : (f < n)%nat -> (m < n)%nat -> mem_ok (s_mem S) ->
  gen_tables k_dic_D1 k_dic_D2 S R k ->
  gen_dic_entry n S geno geno1 t1 t2 f m == four_truth S R k (row geno1 f) (row geno f) (row geno1 m) (row geno m) t1 t2.
Proof.
  intros Hf Hm Hmem HT. rewrite gen_dic_entry_model by assumption. apply dihybrid_entry_exact; [exact Hmem|].
  exact (gen_tables_D _ _ S R k k_dic_D1_model k_dic_D2_model HT).
Qed.

(** * chunk loops of all eight classes tile every linkage group *)
Definition all_chunk_fns : list (nat -> nat -> nat -> list (nat * nat)) :=
  [k_two_rchunks; k_two_cchunks; k_three_rchunks; k_three_cchunks; k_four_rchunks; k_four_cchunks; k_di_rchunks; k_di_cchunks;
   k_twoc_rchunks; k_twoc_cchunks; k_threec_rchunks; k_threec_cchunks; k_fourc_rchunks; k_fourc_cchunks; k_dic_rchunks; k_dic_cchunks].
Theorem kernel_chunks_partition : forall ch, In ch all_chunk_fns -> forall lst lsp step : nat, (1 <= step)%nat ->
  concat (map ixs (ch lst lsp step)) = seq lst (lsp - lst).
Proof.
  intros ch H lst lsp step Hs. assert (ch = chunks) as ->; [|apply chunks_partition; exact Hs].
  simpl in H. repeat (destruct H as [<-|H]; [reflexivity|]). destruct H.
Qed.

(** * selfing: the generated rprob_filial / cov_D1s / cov_D2s are the closed forms derived from the enumeration *)
Theorem kernel_selfing_closed_form r k i : 0 <= r ->
  Egen r k i (fun g => fst g * snd g) == (1 - k_rprob_filial r (Some (S k))) * cis i + k_rprob_filial r (Some (S k)) * trans i.
Proof. rewrite k_rprob_filial_model. apply selfing_closed_form. Qed.
Theorem kernel_twoway_selfing_exact r k (A B : hap) : 0 <= r ->
  dhcov (E_two r k A B) == (fst A - fst B) * k_cov_D1s r (Some k) * (snd A - snd B).
Proof. rewrite k_cov_D1s_model. apply twoway_selfing_exact. Qed.
Theorem kernel_threeway_selfing_exact r k (R F M : hap) : 0 <= r ->
  dhcov (E_three r k R F M) ==
  k_three_scale * k_three_comb ((fst F - fst R) * k_cov_D1s r (Some k) * (snd F - snd R)) ((fst M - fst R) * k_cov_D1s r (Some k) * (snd M - snd R))
                               ((fst F - fst M) * k_cov_D2s r (Some k) * (snd F - snd M)).
Proof. rewrite k_cov_D1s_model, k_cov_D2s_model. apply threeway_selfing_exact. Qed.
Theorem kernel_fourway_selfing_exact r k (P1 P2 P3 P4 : hap) : 0 <= r ->
  dhcov (E_four r k P1 P2 P3 P4) ==
  k_four_scale * k_four_comb ((fst P2 - fst P1) * k_cov_D2s r (Some k) * (snd P2 - snd P1)) ((fst P3 - fst P1) * k_cov_D1s r (Some k) * (snd P3 - snd P1))
         ((fst P3 - fst P2) * k_cov_D1s r (Some k) * (snd P3 - snd P2)) ((fst P4 - fst P1) * k_cov_D1s r (Some k) * (snd P4 - snd P1))
         ((fst P4 - fst P2) * k_cov_D1s r (Some k) * (snd P4 - snd P2)) ((fst P4 - fst P3) * k_cov_D2s r (Some k) * (snd P4 - snd P3)).
Proof. rewrite k_cov_D1s_model, k_cov_D2s_model. apply fourway_selfing_exact. Qed.
Theorem kernel_selfing_limit r k : 0 <= r -> r <= 1#2 ->
  0 <= k_cov_D1s r (Some k) - k_cov_D1s r None /\ k_cov_D1s r (Some k) - k_cov_D1s r None <= qpow (1#2) (S k).
Proof. rewrite !k_cov_D1s_model. apply D1_limit. Qed.
Theorem kernel_uc_def si mean var x y : 0 <= si -> 0 <= x - mean -> (x - mean) * (x - mean) == si * si * var ->
  0 <= y -> y * y == var -> x == k_uc mean si y.
Proof. rewrite k_uc_model. apply uc_def. Qed.

(** * genic variance classes: the generated per-marker term, parental weights, visited tuples and written positions *)
Fixpoint dotl (acc : Q) (l : list (Q * Q)) : Q := match l with [] => acc | x :: t => dotl (acc + fst x * snd x) t end.
Definition dot1 (l : list (Q * Q)) : Q := match l with [] => 0 | x :: t => dotl (fst x * snd x) t end.
Definition gen_genic (term : Q -> Q -> Q) (varcoef : Q -> Q -> Q) (epgc : list Q) (u : list (list Q)) (p tr : nat) (tafs : nat -> nat -> Q) (parents : list nat) : Q :=
  qsum (map (fun i => term (varcoef 2 (nth tr (nth i u []) 0)) (dot1 (combine epgc (map (fun a => tafs a i) parents)))) (ix p)).
Lemma gen_gtwo_model u p tr geno geno1 f m :
  gen_genic k_gtwo_term k_gtwo_varcoef k_gtwo_epgc_local u p tr (taf geno geno1) (k_gtwo_freq_ix f m) = genic_pair u p tr (taf geno geno1 f) (taf geno geno1 m).
Proof. reflexivity. Qed.
Lemma gen_gdi_model u p tr geno geno1 f m :
  gen_genic k_gdi_term k_gdi_varcoef k_gdi_epgc_local u p tr (taf geno geno1) (k_gdi_freq_ix f m) = genic_pair u p tr (taf geno geno1 f) (taf geno geno1 m).
Proof. reflexivity. Qed.
Lemma gen_gthree_model u p tr geno geno1 r f m :
  gen_genic k_gthree_term k_gthree_varcoef k_gthree_epgc_local u p tr (taf geno geno1) (k_gthree_freq_ix r f m) =
  genic_tri u p tr (taf geno geno1 r) (taf geno geno1 f) (taf geno geno1 m).
Proof. reflexivity. Qed.
Lemma gen_gfour_model u p tr geno geno1 f2 m2 f m :
  gen_genic k_gfour_term k_gfour_varcoef k_gfour_epgc_local u p tr (taf geno geno1) (k_gfour_freq_ix f2 m2 f m) =
  genic_quad u p tr (taf geno geno1 f2) (taf geno geno1 m2) (taf geno geno1 f) (taf geno geno1 m).
Proof. reflexivity. Qed.
Lemma k_genic_layout n r f2 m2 f m : (r < n)%nat -> (f2 < n)%nat -> (m2 < n)%nat -> (f < n)%nat -> (m < n)%nat ->
  k_gtwo_visit n f m = (m <=? f)%nat /\ k_gdi_visit n f m = (m <=? f)%nat /\ k_gthree_visit n r f m = (m <=? f)%nat /\
  k_gfour_visit n f2 m2 f m = (m <=? f)%nat /\
  k_gtwo_writes f m = [[f; m]; [m; f]] /\ k_gdi_writes f m = [[f; m]; [m; f]] /\ k_gthree_writes r f m = [[r; f; m]; [r; m; f]] /\
  k_gfour_writes f2 m2 f m = [[f2; m2; f; m]; [f2; m2; m; f]] /\
  k_gtwo_epgc = k_gtwo_epgc_local /\ k_gdi_epgc = k_gdi_epgc_local /\ k_gthree_epgc = k_gthree_epgc_local /\ k_gfour_epgc = k_gfour_epgc_local /\
  k_gtwo_epgc = k_two_epgc /\ k_gdi_epgc = k_di_epgc /\ k_gthree_epgc = k_three_epgc /\ k_gfour_epgc = k_four_epgc /\
  tl k_gtwo_ctor = expected_ctor_tail /\ tl k_gdi_ctor = expected_ctor_tail /\ tl k_gthree_ctor = expected_ctor_tail /\ tl k_gfour_ctor = expected_ctor_tail.
Proof.
  intros. repeat split; try reflexivity.
  - unfold k_gtwo_visit. nb.
  - unfold k_gdi_visit. nb.
  - unfold k_gthree_visit. nb.
  - unfold k_gfour_visit. nb.
Qed.
(** every visited tuple writes [v] to its own position and to the position with the last two parents exchanged; the value is the
    linkage-free part of the genetic block (genic_* theorems of Proofs/C12_Genic.v), restated on the generated expressions *)
Theorem kernel_genic_exact u p tr geno :
  (forall f m, allele01 (row geno f) -> allele01 (row geno m) ->
     gen_genic k_gtwo_term k_gtwo_varcoef k_gtwo_epgc_local u p tr (taf geno geno) (k_gtwo_freq_ix f m) ==
     sumQ (map (fun i => eff u tr (row geno f) (row geno m) i * k_cov_D1s 0 (Some 0%nat) * eff u tr (row geno f) (row geno m) i) (ix p))) /\
  (forall r f m, allele01 (row geno r) -> allele01 (row geno f) -> allele01 (row geno m) ->
     gen_genic k_gthree_term k_gthree_varcoef k_gthree_epgc_local u p tr (taf geno geno) (k_gthree_freq_ix r f m) ==
     sumQ (map (fun i => let gR := row geno r in let gF := row geno f in let gM := row geno m in
       k_three_scale * k_three_comb (eff u tr gF gR i * eff u tr gF gR i) (eff u tr gM gR i * eff u tr gM gR i) (eff u tr gF gM i * eff u tr gF gM i)) (ix p))) /\
  (forall f2 m2 f m, allele01 (row geno f2) -> allele01 (row geno m2) -> allele01 (row geno f) -> allele01 (row geno m) ->
     gen_genic k_gfour_term k_gfour_varcoef k_gfour_epgc_local u p tr (taf geno geno) (k_gfour_freq_ix f2 m2 f m) ==
     sumQ (map (fun i => let g1 := row geno f2 in let g2 := row geno m2 in let g3 := row geno f in let g4 := row geno m in
       k_four_scale * k_four_comb (eff u tr g2 g1 i * eff u tr g2 g1 i) (eff u tr g3 g1 i * eff u tr g3 g1 i) (eff u tr g3 g2 i * eff u tr g3 g2 i)
                                  (eff u tr g4 g1 i * eff u tr g4 g1 i) (eff u tr g4 g2 i * eff u tr g4 g2 i) (eff u tr g4 g3 i * eff u tr g4 g3 i)) (ix p))).
Proof.
  split; [|split].
  - intros f m Hf Hm. rewrite gen_gtwo_model, k_cov_D1s_model. apply genic_twoway; assumption.
  - intros r f m Hr Hf Hm. rewrite gen_gthree_model. apply genic_threeway; assumption.
  - intros f2 m2 f m H1 H2 H3 H4. rewrite gen_gfour_model. apply genic_fourway; assumption.
Qed.

(** * summary statements used by Props/C12.v *)
Theorem kernel_is_model :
  (forall r k, k_rprob_filial r k = rprob_filial r k) /\ (forall r d, k_cov_D1s r d = cov_D1s r d) /\ (forall r d, k_cov_D2s r d = cov_D2s r d) /\
  (forall a b c, k_srange a b c = srange a b c) /\
  (forall S t1 t2 geno f m, gen_two_low S t1 t2 (g_inbred geno) f m = twoway_low S t1 t2 (row geno f) (row geno m)) /\
  (forall S t1 t2 geno r f m, gen_three_low S t1 t2 (g_inbred geno) r f m = threeway_low S t1 t2 (row geno r) (row geno f) (row geno m)) /\
  (forall S t1 t2 geno f2 m2 f m, gen_four_low S t1 t2 (g_inbred geno) f2 m2 f m = quad_low S t1 t2 (row geno f2) (row geno m2) (row geno f) (row geno m)) /\
  (forall S t1 t2 geno geno1 f m, gen_di_low S t1 t2 (g_phased geno geno1) f m = quad_low S t1 t2 (row geno1 f) (row geno f) (row geno1 m) (row geno m)) /\
  (forall S t1 t2 geno f m, gen_twoc_low S t1 t2 (g_inbred geno) f m = twoway_low S t1 t2 (row geno f) (row geno m)) /\
  (forall S t1 t2 geno r f m, gen_threec_low S t1 t2 (g_inbred geno) r f m = threeway_low S t1 t2 (row geno r) (row geno f) (row geno m)) /\
  (forall S t1 t2 geno f2 m2 f m, gen_fourc_low S t1 t2 (g_inbred geno) f2 m2 f m = quad_low S t1 t2 (row geno f2) (row geno m2) (row geno f) (row geno m)) /\
  (forall S t1 t2 geno geno1 f m, gen_dic_low S t1 t2 (g_phased geno geno1) f m = quad_low S t1 t2 (row geno1 f) (row geno f) (row geno1 m) (row geno m)) /\
  (forall mean si y, k_uc mean si y = mean + si * y) /\
  (forall epgc (bvf : nat -> nat -> Q) c (tr : nat), k_uc_pmean epgc (fun k => bvf k tr) c = pmean epgc (map (fun k => bvf k tr) c)).
Proof.
  repeat split; intros; try reflexivity; [apply k_cov_D1s_model | apply k_cov_D2s_model].
Qed.
Theorem kernel_entries_are_model n S geno geno1 t1 t2 :
  (forall f m, (f < n)%nat -> (m < n)%nat -> gen_two_entry n S geno t1 t2 f m = twoway_entry S geno t1 t2 f m /\
                                               gen_twoc_entry n S geno t1 t2 f m = twoway_entry S geno t1 t2 f m) /\
  (forall r f m, (r < n)%nat -> (f < n)%nat -> (m < n)%nat -> gen_three_entry n S geno t1 t2 r f m = threeway_entry S geno t1 t2 r f m /\
                                                                gen_threec_entry n S geno t1 t2 r f m = threeway_entry S geno t1 t2 r f m) /\
  (forall f2 m2 f m, (f2 < n)%nat -> (m2 < n)%nat -> (f < n)%nat -> (m < n)%nat ->
     gen_four_entry n S geno t1 t2 f2 m2 f m = fourway_entry S geno t1 t2 f2 m2 f m /\
     gen_fourc_entry n S geno t1 t2 f2 m2 f m = fourway_entry S geno t1 t2 f2 m2 f m) /\
  (forall f m, (f < n)%nat -> (m < n)%nat -> gen_di_entry n S geno geno1 t1 t2 f m = dihybrid_entry S geno geno1 t1 t2 f m /\
                                               gen_dic_entry n S geno geno1 t1 t2 f m = dihybrid_entry S geno geno1 t1 t2 f m).
Proof.
  repeat split; intros.
  - now apply gen_two_entry_model. - now apply gen_twoc_entry_model. - now apply gen_three_entry_model. - now apply gen_threec_entry_model.
  - now apply gen_four_entry_model. - now apply gen_fourc_entry_model. - now apply gen_di_entry_model. - now apply gen_dic_entry_model.
Qed.
Theorem kernel_twoway_exact n S R k geno t1 t2 f m : (f < n)%nat -> (m < n)%nat -> mem_ok (s_mem S) ->
  (gen_tables k_two_D1 k_cov_D2s S R k -> gen_two_entry n S geno t1 t2 f m == two_truth S R k geno t1 t2 f m) /\
  (gen_tables k_twoc_D1 k_cov_D2s S R k -> gen_twoc_entry n S geno t1 t2 f m == two_truth S R k geno t1 t2 f m).
Proof. intros. split; intros; [now apply kernel_two_exact | now apply kernel_twoc_exact]. Qed.
Theorem kernel_threeway_exact n S R k geno t1 t2 r f m : (r < n)%nat -> (f < n)%nat -> (m < n)%nat -> mem_ok (s_mem S) ->
  (gen_tables k_three_D1 k_three_D2 S R k -> gen_three_entry n S geno t1 t2 r f m == three_truth S R k geno t1 t2 r f m) /\
  (gen_tables k_threec_D1 k_threec_D2 S R k -> gen_threec_entry n S geno t1 t2 r f m == three_truth S R k geno t1 t2 r f m).
Proof. intros. split; intros; [now apply kernel_three_exact | now apply kernel_threec_exact]. Qed.
Theorem kernel_fourway_exact n S R k geno t1 t2 f2 m2 f m : (f2 < n)%nat -> (m2 < n)%nat -> (f < n)%nat -> (m < n)%nat -> mem_ok (s_mem S) ->
  (gen_tables k_four_D1 k_four_D2 S R k ->
   gen_four_entry n S geno t1 t2 f2 m2 f m == four_truth S R k (row geno f2) (row geno m2) (row geno f) (row geno m) t1 t2) /\
  (gen_tables k_fourc_D1 k_fourc_D2 S R k ->
   gen_fourc_entry n S geno t1 t2 f2 m2 f m == four_truth S R k (row geno f2) (row geno m2) (row geno f) (row geno m) t1 t2).
Proof. intros. split; intros; [now apply kernel_four_exact | now apply kernel_fourc_exact]. Qed.
Theorem kernel_dihybrid_exact n S R k geno geno1 t1 t2 f m : (f < n)%nat -> (m < n)%nat -> mem_ok (s_mem S) ->
  (gen_tables k_di_D1 k_di_D2 S R k ->
   gen_di_entry n S geno geno1 t1 t2 f m == four_truth S R k (row geno1 f) (row geno f) (row geno1 m) (row geno m) t1 t2) /\
  (gen_tables k_dic_D1 k_dic_D2 S R k ->
   gen_dic_entry n S geno geno1 t1 t2 f m == four_truth S R k (row geno1 f) (row geno f) (row geno1 m) (row geno m) t1 t2).
Proof. intros. split; intros; [now apply kernel_di_exact | now apply kernel_dic_exact]. Qed.
(** what the allocated shape, the accumulation index, the mirrored axes, the constructor call and epgc say, for all twelve classes *)
Theorem kernel_layout n t r f2 m2 f m :
  (k_two_shape n t = [n; n; t]%nat /\ k_two_acc_ix f m = [f; m] /\ tl k_two_ctor = expected_ctor_tail /\ k_two_epgc = uc_epgc 2) /\
  (k_three_shape n t = [n; n; n; t]%nat /\ k_three_acc_ix r f m = [r; f; m] /\ tl k_three_ctor = expected_ctor_tail /\ k_three_epgc = uc_epgc 3) /\
  (k_four_shape n t = [n; n; n; n; t]%nat /\ k_four_acc_ix f2 m2 f m = [f2; m2; f; m] /\ tl k_four_ctor = expected_ctor_tail /\ k_four_epgc = uc_epgc 4) /\
  (k_di_shape n t = [n; n; t]%nat /\ k_di_acc_ix f m = [f; m] /\ tl k_di_ctor = expected_ctor_tail /\ k_di_epgc = uc_epgc 0) /\
  (k_twoc_shape n t = [n; n; t; t]%nat /\ k_twoc_acc_ix f m = [f; m] /\ tl k_twoc_ctor = expected_ctor_tail /\ k_twoc_epgc = uc_epgc 2) /\
  (k_threec_shape n t = [n; n; n; t; t]%nat /\ k_threec_acc_ix r f m = [r; f; m] /\ tl k_threec_ctor = expected_ctor_tail /\ k_threec_epgc = uc_epgc 3) /\
  (k_fourc_shape n t = [n; n; n; n; t; t]%nat /\ k_fourc_acc_ix f2 m2 f m = [f2; m2; f; m] /\ tl k_fourc_ctor = expected_ctor_tail /\ k_fourc_epgc = uc_epgc 4) /\
  (k_dic_shape n t = [n; n; t; t]%nat /\ k_dic_acc_ix f m = [f; m] /\ tl k_dic_ctor = expected_ctor_tail /\ k_dic_epgc = uc_epgc 0) /\
  (k_gtwo_epgc = uc_epgc 2 /\ k_gthree_epgc = uc_epgc 3 /\ k_gfour_epgc = uc_epgc 4 /\ k_gdi_epgc = uc_epgc 0 /\
   tl k_gtwo_ctor = expected_ctor_tail /\ tl k_gthree_ctor = expected_ctor_tail /\ tl k_gfour_ctor = expected_ctor_tail /\ tl k_gdi_ctor = expected_ctor_tail).
Proof. repeat split. Qed.

(** satisfiability of the hypotheses of the kernel exactness theorems, with a non-zero entry on the repeated-parent diagonal *)
Lemma gen_tables_of_D d1 d2 S R k : (forall r d, d1 r d = cov_D1s r d) -> (forall r d, d2 r d = cov_D2s r d) -> D_tables S R k -> gen_tables d1 d2 S R k.
Proof. intros H1 H2 H c i j A B C. specialize (H c i j A B C). rewrite H1, H2. exact H. Qed.
Lemma kernel_hyps_example : mem_ok (s_mem wS) /\ gen_tables k_three_D1 k_three_D2 wS wR 0 /\ gen_tables k_two_D1 k_cov_D2s wS wR 0 /\
  ~ gen_three_entry 2 wS [[0%Z]; [1%Z]] 0 0 0 1 1 == 0.
Proof.
  split; [exact I|]. split; [|split].
  - apply gen_tables_of_D; [exact k_three_D1_model | exact k_three_D2_model | exact wS_tables].
  - apply gen_tables_of_D; [exact k_two_D1_model | exact k_cov_D2s_model | exact wS_tables].
  - intro H. vm_compute in H. discriminate.
Qed.
