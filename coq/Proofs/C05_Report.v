(** C05 — the reporting path: [SelectionProblem._evaluate] stores, in BOTH branches, element 0 / 1 / 2 of the evalfn triple
    (objectives / inequality / equality constraint violations) under "F" / "G" / "H", and stores a key exactly when its width
    is positive.  The tables, the branch test and the filters are the generated definitions (Gen/C05_Kernel.v); the lemmas
    closed by [reflexivity] stop compiling when the source pairs a key with another element, renames a key, changes a filter
    or the branch test. *)
From Coq Require Import String.
From Coq Require Import ZArith QArith Bool List Lia.
From PV Require Import Lib.Common Gen.C05_Kernel Model.C05_Latent Model.C05_Report Proofs.C05_Latent.
Import ListNotations.
Local Open Scope Q_scope.

Definition fgh_table : list (string * nat) := [("F"%string, 0%nat); ("G"%string, 1%nat); ("H"%string, 2%nat)].

Lemma k_evaluate_tables : k_evaluate_vec_table = fgh_table /\ k_evaluate_mat_table = fgh_table.
Proof. split; reflexivity. Qed.
Lemma k_evaluate_tests :
  (forall nd, k_evaluate_is_vec nd = (nd =? 1)%Z) /\ (forall n, k_evaluate_vec_keep n = (0 <? n)%Z) /\
  (forall r c, k_evaluate_mat_keep r c = (0 <? c)%Z).
Proof. repeat split; reflexivity. Qed.

Lemma pos_of_nat n : (0 <? Z.of_nat n)%Z = (0 <? n)%nat.
Proof. destruct n; reflexivity. Qed.

Lemma report_vec_spec ev :
  report_vec ev = present_vec "F" (fst (fst ev)) ++ present_vec "G" (snd (fst ev)) ++ present_vec "H" (snd ev).
Proof.
  unfold report_vec, report_vec_t, present_vec. rewrite (proj1 k_evaluate_tables). cbn [flat_map fgh_table fst snd el].
  rewrite !(proj1 (proj2 k_evaluate_tests)), !pos_of_nat, app_nil_r. reflexivity.
Qed.
Lemma report_mat_spec evs :
  report_mat evs = present_mat "F" (map (fun e : triple => fst (fst e)) evs) ++ present_mat "G" (map (fun e : triple => snd (fst e)) evs) ++
                   present_mat "H" (map (fun e : triple => snd e) evs).
Proof.
  unfold report_mat, report_mat_t, present_mat. rewrite (proj2 k_evaluate_tables). cbn [flat_map fgh_table fst snd].
  rewrite !(proj2 (proj2 k_evaluate_tests)), !pos_of_nat, app_nil_r. reflexivity.
Qed.

(** [_evaluate] of a problem whose evalfn is the generated [k_evalfn] on a latent function [lat]: every reported row is the
    declared weights times the declared transformations of the latent vector OF THAT ROW; F / G / H are the objectives, the
    inequality and the equality constraint violations, for a single vector and for a matrix of candidates alike *)
Lemma evaluate_reports_evalfn To Ti Te wo wi we (lat : list Q -> list Q) :
  let f := fun x => k_evalfn To Ti Te wo wi we x (lat x) in
  (forall x, evaluate f (X1 x) = Some (present_vec "F" (map2 Qmult wo (To x (lat x))) ++ present_vec "G" (map2 Qmult wi (Ti x (lat x))) ++
                                      present_vec "H" (map2 Qmult we (Te x (lat x))))) /\
  (forall X, X <> [] -> evaluate f (X2 X) = Some (present_mat "F" (map (fun x => map2 Qmult wo (To x (lat x))) X) ++
                                                  present_mat "G" (map (fun x => map2 Qmult wi (Ti x (lat x))) X) ++
                                                  present_mat "H" (map (fun x => map2 Qmult we (Te x (lat x))) X))).
Proof.
  intro f. split.
  - intro x. unfold evaluate. rewrite (proj1 k_evaluate_tests). cbn [ndim Z.eqb Pos.eqb]. rewrite report_vec_spec. reflexivity.
  - intros X HX. unfold evaluate. rewrite (proj1 k_evaluate_tests). cbn [ndim Z.eqb Pos.eqb].
    destruct X as [|x0 X']; [contradiction|]. rewrite report_mat_spec, !map_map. reflexivity.
Qed.

(** a single row through the matrix branch reports the same numbers as the vector branch (one row each) *)
Lemma report_row_is_vec ev :
  report_mat [ev] = flat_map (fun kv : string * outv => match snd kv with OV v => [(fst kv, OM [v])] | OM _ => [] end) (report_vec ev).
Proof.
  rewrite report_mat_spec, report_vec_spec. unfold present_mat, present_vec. cbn [map width].
  destruct (0 <? length (fst (fst ev)))%nat, (0 <? length (snd (fst ev)))%nat, (0 <? length (snd ev))%nat; reflexivity.
Qed.

(** which keys are present: exactly those whose declared count (the width of the rows) is positive, in the order F, G, H *)
Definition keys_of (no ni ne : nat) : list string :=
  (if (0 <? no)%nat then ["F"%string] else []) ++ (if (0 <? ni)%nat then ["G"%string] else []) ++ (if (0 <? ne)%nat then ["H"%string] else []).
Lemma report_keys (e : triple) evs :
  map fst (report_mat (e :: evs)) = keys_of (length (fst (fst e))) (length (snd (fst e))) (length (snd e)) /\
  map fst (report_vec e) = keys_of (length (fst (fst e))) (length (snd (fst e))) (length (snd e)).
Proof.
  rewrite report_mat_spec, report_vec_spec. unfold present_mat, present_vec, keys_of. cbn [map width].
  destruct (0 <? length (fst (fst e)))%nat, (0 <? length (snd (fst e)))%nat, (0 <? length (snd e))%nat; split; reflexivity.
Qed.
(** every stored matrix has one row per candidate *)
Lemma report_mat_rows evs key m : In (key, OM m) (report_mat evs) -> length m = length evs.
Proof.
  rewrite report_mat_spec. unfold present_mat. intro H.
  repeat (apply in_app_or in H; destruct H as [H|H]);
    match type of H with In _ (if ?c then _ else _) => destruct c; [destruct H as [H|[]]; inversion H; subst; apply map_length | destruct H] end.
Qed.

(** regression witness (seeded change): a matrix branch that takes "H" from element 1 (the inequality column) reports the
    inequality violations as equality violations — and drops "H" altogether when there is no inequality constraint *)
Definition h_from_ineq_table : list (string * nat) := [("F"%string, 0%nat); ("G"%string, 1%nat); ("H"%string, 1%nat)].
Lemma h_from_ineq_differs :
  report_mat_t h_from_ineq_table [([1], [2], [3; 4])] <> report_mat [([1], [2], [3; 4])] /\
  map fst (report_mat_t h_from_ineq_table [([1], [], [3])]) = ["F"%string] /\ map fst (report_mat [([1], [], [3])]) = ["F"%string; "H"%string].
Proof. split; [intro H; vm_compute in H; discriminate | split; reflexivity]. Qed.
