(** C14 — the kernel expressions regenerated from the source (Gen/C14_Kernel.v, written by harness/translate/c14_kernel.py on
    every run) are the ones the hand model is built from.  Wherever the terms coincide the lemma is closed by [reflexivity];
    the others have short proofs that depend on the generated term (a changed operator, operand order, attribute or loop
    header makes this file — hence Props/C14.vo — stop compiling, whatever the random cases exercise).  The second half
    restates the cell, calibration, re-broadcast and alignment statements about the generated definitions themselves. *)
From Coq Require Import String Lqa Lia.
From PV Require Import Lib.Common Model.C14_Pheno Proofs.C14_Pheno Model.C14_Session Model.C14_Alias Proofs.C14_Alias Gen.C14_Kernel.
Local Open Scope Q_scope.

(** * G_E_Phenotyping.phenotype *)

(** entrywise application of the generated record formula to four vectors (numpy broadcasting of (n,t)+(1,t)+(1,t)+(n,t), one row) *)
Fixpoint zip4 {A} (f : A -> A -> A -> A -> A) (a b c d : list A) : list A :=
  match a, b, c, d with
  | x :: a', y :: b', z :: c', w :: d' => f x y z w :: zip4 f a' b' c' d'
  | _, _, _, _ => []
  end.

Lemma k_value_model m e r x : k_value m e r x = m + e + r + x.                    Proof. reflexivity. Qed.
Lemma add_effects_kernel : forall v e r x, add_effects v e r x = zip4 k_value v e r x.
Proof.
  unfold add_effects. induction v as [|a v IH]; intros [|b e] [|c r] [|d x]; simpl; try reflexivity.
  rewrite IH. reflexivity.
Qed.

(** the loop headers: environment e is visited with the e-th stored replicate count, for the first [nenv] entries only *)
Lemma combine_seq_snd : forall (nenv s : nat) (nrep : list nat), map snd (combine (seq s nenv) nrep) = firstn nenv nrep.
Proof. induction nenv as [|k IH]; intros s [|h l]; simpl; try reflexivity. rewrite IH. reflexivity. Qed.
Lemma combine_seq_fst : forall (nenv s : nat) (nrep : list nat), map fst (combine (seq s nenv) nrep) = seq s (Nat.min nenv (length nrep)).
Proof. induction nenv as [|k IH]; intros s [|h l]; simpl; try reflexivity. rewrite IH. reflexivity. Qed.
Lemma k_env_loop_counts nenv nrep : map snd (k_env_loop nenv nrep) = firstn nenv nrep.
Proof. apply combine_seq_snd. Qed.
Lemma k_env_loop_indices nenv nrep : map fst (k_env_loop nenv nrep) = seq 0 (Nat.min nenv (length nrep)).
Proof. apply combine_seq_fst. Qed.
Lemma k_rep_loop_model k : k_rep_loop k = seq 0 k.                                 Proof. reflexivity. Qed.
Lemma k_rep_loop_In k r : In r (k_rep_loop k) <-> (r < k)%nat.
Proof. unfold k_rep_loop. rewrite in_seq. lia. Qed.

(** labels of a block: the loop variables count from 0, the labels from 1 *)
Lemma k_env_label_model (ei : nat) : k_env_label (Z.of_nat ei) = (1 + Z.of_nat ei)%Z. Proof. unfold k_env_label. lia. Qed.
Lemma k_rep_label_model (ri : nat) : k_rep_label (Z.of_nat ri) = (1 + Z.of_nat ri)%Z. Proof. unfold k_rep_label. lia. Qed.

(** the refusal test with the argument order of the call *)
Lemma k_nrep_short_model (attr : list nat) (nenv : nat) :
  k_nrep_short (Z.of_nat (length attr)) (Z.of_nat nenv) = (length attr <? nenv)%nat.
Proof. unfold k_nrep_short. destruct (Nat.ltb_spec (length attr) nenv), (Z.ltb_spec (Z.of_nat (length attr)) (Z.of_nat nenv)); try reflexivity; lia. Qed.
Lemma phenotype_guard_kernel n t taxa grp gvm nenv attr sde sdr sdx flat :
  phenotype n t taxa grp gvm nenv attr sde sdr sdx flat =
  if k_nrep_short (Z.of_nat (length attr)) (Z.of_nat nenv) then None
  else match parse_envs (map snd (k_env_loop nenv attr)) n t flat with
       | Some (ds, []) => Some (env_blocks (labels_or_auto "Taxon"%string n taxa) (grp_col n grp) gvm sde sdr sdx (k_env_label 0) ds)
       | _ => None
       end.
Proof. rewrite k_nrep_short_model, k_env_loop_counts. reflexivity. Qed.

(** which variance parameter scales which effect; the label columns *)
Lemma k_effect_sd_model A (a b c : A) : k_effect_sd A a b c = (a, b, c).          Proof. reflexivity. Qed.
Lemma k_label_cols_model tn : pheno_cols tn = (k_label_cols ++ tn)%list.           Proof. reflexivity. Qed.

(** generated TaxonNN / TraitN names *)
Definition gen_labels (prefix : str) (width index : Z -> Z) (n : nat) : list str :=
  map (fun i => String.append prefix (zfill (Z.to_nat (width (Z.of_nat (clog10 n)))) (dec (Z.to_nat (index (Z.of_nat i)))))) (seq 0 n).
Lemma gen_labels_auto prefix n : gen_labels prefix (fun c => Z.add c 1) (fun i => Z.add i 1) n = auto_labels prefix n.
Proof.
  unfold gen_labels, auto_labels. apply map_ext. intro i.
  replace (Z.to_nat (Z.of_nat (clog10 n) + 1)) with (clog10 n + 1)%nat by lia.
  replace (Z.to_nat (Z.of_nat i + 1)) with (S i) by lia. reflexivity.
Qed.
Lemma k_ge_taxa_labels n : gen_labels k_ge_taxa_prefix k_ge_taxa_width k_ge_taxa_index n = labels_or_auto "Taxon"%string n None.
Proof. exact (gen_labels_auto "Taxon"%string n). Qed.
Lemma k_ge_trait_labels n : gen_labels k_ge_trait_prefix k_ge_trait_width k_ge_trait_index n = labels_or_auto "Trait"%string n None.
Proof. exact (gen_labels_auto "Trait"%string n). Qed.
Lemma k_tp_taxa_labels n : gen_labels k_tp_taxa_prefix k_tp_taxa_width k_tp_taxa_index n = labels_or_auto "Taxon"%string n None.
Proof. exact (gen_labels_auto "Taxon"%string n). Qed.
Lemma k_tp_trait_labels n : gen_labels k_tp_trait_prefix k_tp_trait_width k_tp_trait_index n = labels_or_auto "Trait"%string n None.
Proof. exact (gen_labels_auto "Trait"%string n). Qed.

(** * set_h2 / set_H2 and the parameter setters *)
Lemma k_h2_err_model h v : k_h2_err h v = h2_err h v.                              Proof. reflexivity. Qed.
Lemma k_H2_err_model h v : k_H2_err h v = h2_err h v.                              Proof. reflexivity. Qed.

Lemma set_nenv_kernel (nenv' : nat) (attr : list nat) : attr <> [] ->
  set_nenv nenv' attr =
  if k_nenv_rebroadcast true (Z.of_nat (length attr)) (Z.of_nat nenv') (uniform attr) then k_nenv_full nenv' (hd 0%nat attr) else attr.
Proof.
  intro NE. unfold set_nenv, k_nenv_rebroadcast, k_nenv_full.
  destruct (Nat.eqb_spec (length attr) nenv') as [E|E].
  - rewrite (proj2 (Z.eqb_eq _ _)) by lia. reflexivity.
  - rewrite (proj2 (Z.eqb_neq _ _)) by lia. destruct attr as [|h l]; [congruence|]. cbn [negb andb hd].
    destruct (uniform (h :: l)); reflexivity.
Qed.
Lemma k_nrep_full_model nenv k : k_nrep_full nenv k = nrep_vec nenv (NScalar k).   Proof. reflexivity. Qed.
Lemma step_set_nrep_kernel (s : state) (k : nat) : k <> 0%nat ->
  s_nrep (fst (step s (OSetNrep (NScalar k)))) = k_nrep_full (s_nenv s) k.
Proof. intro H. cbn. destruct (Nat.eqb_spec k 0); [contradiction | reflexivity]. Qed.
Lemma k_var_none_model t : var_vec t VNone = k_var_env_none t /\ var_vec t VNone = k_var_rep_none t /\ var_vec t VNone = k_var_err_none t.
Proof. repeat split; reflexivity. Qed.
Lemma k_var_scalar_model t q :
  var_vec t (VScalar q) = k_var_env_scalar t q /\ var_vec t (VScalar q) = k_var_rep_scalar t q /\ var_vec t (VScalar q) = k_var_err_scalar t q.
Proof. repeat split; reflexivity. Qed.

(** * TruePhenotyping.phenotype / TrueBreedingValue.estimate *)
Definition is_none {A} (o : option A) : bool := match o with None => true | Some _ => false end.
Lemma k_tp_cols_model (grp : option (list Z)) tn :
  true_cols grp tn = ("taxa"%string :: (if k_tp_has_grp_col (is_none grp) then ["taxa_grp"%string] else []) ++ tn)%list.
Proof. destruct grp; reflexivity. Qed.
Lemma k_true_bv_arg_model A (ptobj gtobj : A) : k_true_bv_arg A ptobj gtobj = gtobj. Proof. reflexivity. Qed.
(** the taxa column of the TruePhenotyping table, built from the generated definitions: explicit labels are handed to pandas as
    a fresh copy iff [k_tp_taxa_copied] (the source reads `numpy.array(gvmat.taxa)`), otherwise as the population's own array;
    generated labels with the generated prefix / width / index.  It is the hand model — which needs [k_tp_taxa_copied = true]:
    a source that hands over `gvmat.taxa` itself regenerates [false] and this file stops compiling. *)
Definition k_tp_taxa_column (h : heap) (n : nat) (taxa : option nat) : heap * nat :=
  match taxa with
  | Some l => if k_tp_taxa_copied then halloc h (hread h l) else (h, l)
  | None => halloc h (gen_labels k_tp_taxa_prefix k_tp_taxa_width k_tp_taxa_index n)
  end.
Lemma k_tp_taxa_copied_model : k_tp_taxa_copied = true. Proof. reflexivity. Qed.
Lemma k_tp_taxa_column_model h n taxa : k_tp_taxa_column h n taxa = tp_taxa_column h n taxa.
Proof.
  unfold k_tp_taxa_column, tp_taxa_column. destruct taxa as [l|]; [rewrite k_tp_taxa_copied_model; reflexivity|].
  now rewrite k_tp_taxa_labels.
Qed.
(** restated about the generated definitions: a write into the taxa column of the TruePhenotyping table never reaches an array that
    existed before the call, whether the labels are explicit or generated *)
Lemma k_tp_column_isolated (h : heap) (n : nat) (taxa : option nat) (i : nat) (v : str) (l : nat) : (l < length h)%nat ->
  let '(h', c) := k_tp_taxa_column h n taxa in hread (hwrite h' c i v) l = hread h l.
Proof. rewrite k_tp_taxa_column_model. apply tp_column_isolated. Qed.

(** * MeanPhenotypicBreedingValue.estimate *)
Lemma k_groupby_model : k_dropna = false /\ k_as_index = false /\ k_agg = "mean"%string.
Proof. repeat split; reflexivity. Qed.
(** group-by keys: the group column is a key only without a genotype matrix *)
Lemma k_by_grp_model ug : k_by_grp ug true = ug /\ k_by_grp ug false = false.
Proof. destruct ug; split; reflexivity. Qed.

(** the whole function assembled from the generated kernels *)
Lemma estimate_nogt_kernel ug hg tcols names rows :
  estimate ug hg tcols names rows None =
  match resolve tcols names with
  | None => None
  | Some sel =>
    if ug && negb hg then None else
    let a := agg (k_by_grp ug true) sel rows in
    Some (k_est_nogt_out _ _ _ _ (map (fun kv => fst (fst kv)) a) (if ug then Some (map (fun kv => grp_code (snd (fst kv))) a) else None) tcols
                         (map (fun kv => Some (snd kv)) a))
  end.
Proof. destruct ug; reflexivity. Qed.
Lemma estimate_gt_kernel ug hg tcols names rows gtx gtg :
  estimate ug hg tcols names rows (Some (Some gtx, gtg)) =
  match resolve tcols names with
  | None => None
  | Some sel => if ug && negb hg then None else Some (k_est_gt_out _ _ _ _ gtx gtg tcols (join gtx (agg (k_by_grp ug false) sel rows)))
  end.
Proof. reflexivity. Qed.

(** the hash join: dict(zip(keys, range(len(keys)))) keeps the LAST index of a label; row [k_join_dst i ix] of the output is row
    [k_join_src i ix] of the table of means, where ix is the index found for [k_join_key i taxon] *)
Fixpoint last_index (x : str) (ks : list str) : option nat :=
  match ks with
  | [] => None
  | k :: t => match last_index x t with Some j => Some (S j) | None => if String.eqb x k then Some O else None end
  end.
Lemma last_index_lt (x : str) : forall ks j, last_index x ks = Some j -> (j < length ks)%nat.
Proof.
  induction ks as [|k ks IH]; cbn [last_index length]; intros j H; [discriminate|].
  destruct (last_index x ks) as [j'|].
  - inversion H; subst. specialize (IH j' eq_refl). lia.
  - destruct (String.eqb x k); inversion H. lia.
Qed.
Lemma lookup_last_index (i : nat) (x : str) : forall (a : list (key * list Q)),
  lookup_last x a = match last_index x (map (fun kv => fst (fst kv)) a) with
                    | Some ix => nth_error (map snd a) (Z.to_nat (k_join_src (Z.of_nat i) (Z.of_nat ix)))
                    | None => None
                    end.
Proof.
  unfold k_join_src. induction a as [|[k v] a IH]; [reflexivity|]. cbn [lookup_last map last_index fst snd]. rewrite IH.
  destruct (last_index x (map (fun kv => fst (fst kv)) a)) as [j|] eqn:L.
  - rewrite !Nat2Z.id. cbn [nth_error]. destruct (nth_error (map snd a) j) eqn:N; [reflexivity|].
    apply nth_error_None in N. apply last_index_lt in L. rewrite map_length in N, L. exfalso. apply (Nat.lt_irrefl j). eapply Nat.lt_le_trans; eassumption.
  - destruct (String.eqb x (fst k)); reflexivity.
Qed.

(** * the property statements restated about the generated definitions *)

(** one record per (environment, replicate, taxon) cell of the loops of the source, labelled by the label expressions of the
    source, valued by the record formula of the source with each effect scaled by the variance parameter the source uses *)
Lemma kernel_cells n t taxa grp gvm nenv nrep sde sdr sdx flat recs :
  phenotype n t taxa grp gvm nenv nrep sde sdr sdx flat = Some recs ->
  labels_ok n taxa grp -> length gvm = n ->
  let tx := labels_or_auto "Taxon"%string n taxa in
  let tg := grp_col n grp in
  let nreps := map snd (k_env_loop nenv nrep) in
  let sds := k_effect_sd _ sde sdr sdx in
  k_nrep_short (Z.of_nat (length nrep)) (Z.of_nat nenv) = false /\
  map fst (k_env_loop nenv nrep) = seq 0 nenv /\
  exists ds, parse_envs nreps n t flat = Some (ds, []) /\ map (fun ed : envdraw => length (snd ed)) ds = nreps /\
    length recs = (n * list_sum nreps)%nat /\
    (forall ei zenv rs ri zr ze, nth_error ds ei = Some (zenv, rs) -> nth_error rs ri = Some (zr, ze) ->
       In ri (k_rep_loop (length rs)) /\
       let cell := filter (cell_is (k_env_label (Z.of_nat ei)) (k_rep_label (Z.of_nat ri))) recs in
       length cell = n /\
       forall i x g v er, nth_error tx i = Some x -> nth_error tg i = Some g -> nth_error gvm i = Some v -> nth_error ze i = Some er ->
         nth_error cell i = Some (x, g, k_env_label (Z.of_nat ei), k_rep_label (Z.of_nat ri),
                                  zip4 k_value v (scale (fst (fst sds)) zenv) (scale (snd (fst sds)) zr) (scale (snd sds) er))).
Proof.
  intros H LO Lg. cbv zeta.
  pose proof (phenotype_nrep_len _ _ _ _ _ _ _ _ _ _ _ _ H) as Len.
  split. { rewrite k_nrep_short_model. apply Nat.ltb_ge. exact Len. }
  split. { rewrite k_env_loop_indices. f_equal. lia. }
  pose proof (phenotype_cells _ _ _ _ _ _ _ _ _ _ _ _ H LO Lg) as PC. cbv zeta in PC.
  destruct PC as (ds & P & M & L & C & _). exists ds. rewrite k_env_loop_counts.
  split; [exact P|]. split; [exact M|]. split; [exact L|].
  intros ei zenv rs ri zr ze H1 H2. split.
  { apply k_rep_loop_In. apply nth_error_Some. congruence. }
  rewrite k_env_label_model, k_rep_label_model. destruct (C ei zenv rs ri zr ze H1 H2) as [Lc Cv]. split; [exact Lc|].
  intros i x g v er A1 A2 A3 A4. rewrite <- add_effects_kernel. cbn [k_effect_sd fst snd]. apply Cv; assumption.
Qed.

(** the error variance written by set_h2 / set_H2 (the generated formulas) calibrates the heritability *)
Lemma kernel_h2_calibration (v h : Q) : 0 < v -> 0 < h -> h <= 1 ->
  heritability v (k_h2_err h v) == h /\ heritability v (k_H2_err h v) == h.
Proof. intros. split; apply h2_calibration; assumption. Qed.

(** an integer nrep (stored by the nrep setter's expression) is re-broadcast by the nenv setter's expressions *)
Lemma kernel_nenv_rebroadcast (nenv0 k nenv' : nat) : (0 < nenv0)%nat ->
  let attr := k_nrep_full nenv0 k in
  (if k_nenv_rebroadcast true (Z.of_nat (length attr)) (Z.of_nat nenv') (uniform attr) then k_nenv_full nenv' (hd 0%nat attr) else attr)
  = k_nrep_full nenv' k.
Proof.
  intros H attr. assert (NE : attr <> []) by (unfold attr, k_nrep_full; destruct nenv0; [lia | discriminate]).
  rewrite <- (set_nenv_kernel nenv' attr NE). exact (nrep_attr_scalar nenv0 k nenv' H).
Qed.

(** alignment: the output carries the genotype matrix' labels; row [k_join_dst i ix] is the row of means found for the i-th label *)
Lemma kernel_estimate_alignment ug hg tcols names rows gtx gtg o :
  estimate ug hg tcols names rows (Some (Some gtx, gtg)) = Some o ->
  exists sel, resolve tcols names = Some sel /\
    let a := agg (k_by_grp ug false) sel rows in
    exists m, o = k_est_gt_out _ _ _ _ gtx gtg tcols m /\ length m = length gtx /\
    map fst a = keys_of false rows /\
    forall i x, nth_error gtx i = Some x -> forall ix,
      nth_error m (Z.to_nat (k_join_dst (Z.of_nat i) ix)) =
      Some (match last_index (k_join_key i x) (map (fun kv => fst (fst kv)) a) with
            | Some j => nth_error (map snd a) (Z.to_nat (k_join_src (Z.of_nat i) (Z.of_nat j)))
            | None => None
            end).
Proof.
  rewrite estimate_gt_kernel. destruct (resolve tcols names) as [sel|]; [|discriminate].
  destruct (ug && negb hg); [discriminate|]. intro H. inversion H. exists sel. split; [reflexivity|]. cbv zeta.
  exists (join gtx (agg (k_by_grp ug false) sel rows)). split; [reflexivity|]. split; [apply map_length|].
  split. { rewrite (proj2 (k_by_grp_model ug)). apply agg_keys. }
  intros i x Hx ix. unfold k_join_dst, k_join_key. rewrite Nat2Z.id. unfold join. erewrite map_nth_error by exact Hx.
  f_equal. apply lookup_last_index.
Qed.

(** without a genotype matrix the group column is a key exactly when it was asked for *)
Lemma kernel_estimate_groups ug hg tcols names rows o :
  estimate ug hg tcols names rows None = Some o ->
  exists sel, resolve tcols names = Some sel /\
    let a := agg (k_by_grp ug true) sel rows in
    map fst a = keys_of ug rows /\
    o = k_est_nogt_out _ _ _ _ (map (fun kv => fst (fst kv)) a) (if ug then Some (map (fun kv => grp_code (snd (fst kv))) a) else None) tcols
                       (map (fun kv => Some (snd kv)) a).
Proof.
  rewrite estimate_nogt_kernel. destruct (resolve tcols names) as [sel|]; [|discriminate].
  destruct (ug && negb hg); [discriminate|]. intro H. inversion H. exists sel. split; [reflexivity|]. cbv zeta.
  split; [|reflexivity]. rewrite (proj1 (k_by_grp_model ug)). apply agg_keys.
Qed.

(** * scale covariance of the generated formulas: a trial whose true values and effects are multiplied by [c] has its records
    multiplied by [c]; the error variance fixed by a heritability target is proportional to the genetic variance (so the
    calibration does not depend on the scale of the trait) *)
Lemma kernel_scale_covariance (c m e r x h v : Q) : ~ h == 0 ->
  k_value (c * m) (c * e) (c * r) (c * x) == c * k_value m e r x /\
  k_h2_err h (c * v) == c * k_h2_err h v /\ k_H2_err h (c * v) == c * k_H2_err h v.
Proof. intro H. unfold k_value, k_h2_err, k_H2_err. repeat split; try ring; field; exact H. Qed.

Lemma zip4_scale (c : Q) : forall v e r x,
  qlist_eq (zip4 k_value (map (Qmult c) v) (map (Qmult c) e) (map (Qmult c) r) (map (Qmult c) x)) (map (Qmult c) (zip4 k_value v e r x)).
Proof.
  induction v as [|a v IH]; intros [|b e] [|d r] [|f x]; cbn; try constructor.
  - unfold k_value. ring.
  - apply IH.
Qed.

Lemma scale_scale (c : Q) : forall sd z, qlist_eq (scale (map (Qmult c) sd) z) (map (Qmult c) (scale sd z)).
Proof.
  unfold scale. intros sd z. revert sd. induction z as [|a z IH]; intros [|s sd]; cbn; try constructor.
  - ring.
  - apply IH.
Qed.

Lemma zip4_compat : forall a a', qlist_eq a a' -> forall b b', qlist_eq b b' -> forall c c', qlist_eq c c' -> forall d d', qlist_eq d d' ->
  qlist_eq (zip4 k_value a b c d) (zip4 k_value a' b' c' d').
Proof.
  induction 1 as [|x x' a a' Hx Ha IH]; intros b b' Hb c c' Hc d d' Hd; [cbn; constructor|].
  destruct Hb as [|y y' b b' Hy Hb]; [cbn; constructor|]. destruct Hc as [|z z' c c' Hz Hc]; [cbn; constructor|].
  destruct Hd as [|w w' d d' Hw Hd]; [cbn; constructor|]. cbn. constructor.
  - unfold k_value. apply Qplus_comp; [apply Qplus_comp; [apply Qplus_comp|]|]; assumption.
  - apply IH; assumption.
Qed.

(** the value vector of a record when true value and the three standard-deviation vectors are multiplied by [c] (same draws) *)
Lemma record_scale (c : Q) (v sde sdr sdx ze zr zx : list Q) :
  qlist_eq (add_effects (map (Qmult c) v) (scale (map (Qmult c) sde) ze) (scale (map (Qmult c) sdr) zr) (scale (map (Qmult c) sdx) zx))
           (map (Qmult c) (add_effects v (scale sde ze) (scale sdr zr) (scale sdx zx))).
Proof.
  rewrite !add_effects_kernel. eapply qlist_eq_trans; [|apply zip4_scale].
  apply zip4_compat; [apply qlist_eq_refl | apply scale_scale | apply scale_scale | apply scale_scale].
Qed.
