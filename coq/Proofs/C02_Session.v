(** C02 — (1) the result of the k-th meiosis call of a session is a function of the state at that call and of its own matrix
    of draws, whatever the earlier calls were (no stale state in the model); (2) crossover probabilities outside [0,1]
    act as 0 / 1, and the effective probability is monotone in the stored one (nothing is clipped in between). *)
From Coq Require Import Lqa.
From PV Require Import Lib.Common Model.C01_Meiosis Model.C02_Dist Model.C02_Session Proofs.C02_Uniform.
Local Open Scope Q_scope.

Lemma run_session_nth : forall cs r k, (k < length cs)%nat ->
  nth k (run_session cs r) [] =
  meiosis_rows (c_geno (nth k cs call0)) (c_sel (nth k cs call0)) (nth k (pending r) []) (c_xoprob (nth k cs call0)).
Proof.
  induction cs as [|c t IH]; intros r k Hk; cbn in Hk; [lia|].
  destruct k as [|k']; cbn [run_session nth].
  - unfold mat_meiosis. cbn [fst]. now destruct (pending r).
  - rewrite IH by lia. unfold mat_meiosis. cbn [snd pending]. now destruct (pending r) as [|a l]; [destruct k'|].
Qed.

Theorem session_call_independent cs draws k : (k < length cs)%nat ->
  nth k (run_session cs (rng0 draws)) [] =
  meiosis_rows (c_geno (nth k cs call0)) (c_sel (nth k cs call0)) (nth k draws []) (c_xoprob (nth k cs call0)).
Proof. intros Hk. now rewrite run_session_nth. Qed.

(** two sessions that agree on call k and on its matrix of draws agree on its result: earlier calls (other crossover
    probabilities, other parents) leave no trace *)
Theorem session_no_stale_state cs cs' draws draws' k : (k < length cs)%nat -> (k < length cs')%nat ->
  nth k cs call0 = nth k cs' call0 -> nth k draws [] = nth k draws' [] ->
  nth k (run_session cs (rng0 draws)) [] = nth k (run_session cs' (rng0 draws')) [].
Proof. intros H1 H2 Hc Hd. rewrite !session_call_independent by assumption. now rewrite Hc, Hd. Qed.

(** ** probabilities outside [0,1], monotonicity *)
Lemma cntZ_ge1 N p : (0 < N)%Z -> 1 <= p -> cntZ N p = N.
Proof.
  intros HN Hp. unfold cntZ. destruct p as [a b]. unfold Qle in Hp. cbn [Qnum Qden] in *.
  assert (D := Z.div_mod (- (a * N)) (Zpos b) ltac:(lia)). assert (M := Z.mod_pos_bound (- (a * N)) (Zpos b) ltac:(lia)).
  set (q := (- (a * N) / Zpos b)%Z) in *. assert (N <= - q)%Z by nia. lia.
Qed.
Lemma cntZ_le0 N p : (0 < N)%Z -> p <= 0 -> cntZ N p = 0%Z.
Proof.
  intros HN Hp. unfold cntZ. destruct p as [a b]. unfold Qle in Hp. cbn [Qnum Qden] in *.
  assert (D := Z.div_mod (- (a * N)) (Zpos b) ltac:(lia)). assert (M := Z.mod_pos_bound (- (a * N)) (Zpos b) ltac:(lia)).
  set (q := (- (a * N) / Zpos b)%Z) in *. assert (- q <= 0)%Z by nia. lia.
Qed.
Lemma cntZ_mono N p q : (0 < N)%Z -> p <= q -> (cntZ N p <= cntZ N q)%Z.
Proof.
  intros HN Hpq. unfold cntZ. destruct p as [a b], q as [c d]. unfold Qle in Hpq. cbn [Qnum Qden] in *.
  assert (D1 := Z.div_mod (- (a * N)) (Zpos b) ltac:(lia)). assert (M1 := Z.mod_pos_bound (- (a * N)) (Zpos b) ltac:(lia)).
  assert (D2 := Z.div_mod (- (c * N)) (Zpos d) ltac:(lia)). assert (M2 := Z.mod_pos_bound (- (c * N)) (Zpos d) ltac:(lia)).
  set (q1 := (- (a * N) / Zpos b)%Z) in *. set (q2 := (- (c * N) / Zpos d)%Z) in *.
  assert (- q1 <= - q2)%Z; [|lia].
  (* -q1 = ceil(aN/b), -q2 = ceil(cN/d), aN/b <= cN/d *)
  destruct (Z_le_gt_dec (- q1) (- q2)) as [L|G]; [exact L|exfalso].
  assert (- q2 + 1 <= - q1)%Z by lia.
  (* b (-q1 - 1) < a N,  c N <= d (-q2),  a N d <= c N b,  -q2 <= -q1 - 1 *)
  assert (H1 : (Zpos b * (- q1 - 1) < a * N)%Z) by lia.
  assert (H2 : (c * N <= Zpos d * (- q2))%Z) by lia.
  assert (H3 : (a * N * Zpos d <= c * N * Zpos b)%Z).
  { replace (a * N * Zpos d)%Z with (a * Zpos d * N)%Z by ring. replace (c * N * Zpos b)%Z with (c * Zpos b * N)%Z by ring.
    apply Z.mul_le_mono_nonneg_r; lia. }
  assert (H4 : (Zpos b * (- q2) <= Zpos b * (- q1 - 1))%Z) by (apply Z.mul_le_mono_nonneg_l; lia).
  assert (H5 : (Zpos d * (Zpos b * (- q2)) < Zpos d * (a * N))%Z) by (apply Z.mul_lt_mono_pos_l; lia).
  assert (H6 : (Zpos b * (c * N) <= Zpos b * (Zpos d * (- q2)))%Z) by (apply Z.mul_le_mono_nonneg_l; lia).
  lia.
Qed.

Theorem bern_outside N p : (0 < N)%nat -> (1 <= p -> bern N p == 1) /\ (p <= 0 -> bern N p == 0).
Proof.
  intros HN. unfold bern. split; intros Hp.
  - rewrite cntZ_ge1 by (assumption || lia). unfold Qeq. cbn [Qnum Qden]. rewrite (of_nat_pos N HN). lia.
  - rewrite cntZ_le0 by (assumption || lia). reflexivity.
Qed.
Theorem bern_mono N p q : (0 < N)%nat -> p <= q -> bern N p <= bern N q.
Proof. intros HN Hpq. unfold bern, Qle. cbn [Qnum Qden]. apply Z.mul_le_mono_nonneg_r; [lia|]. apply cntZ_mono; [lia|exact Hpq]. Qed.
(** in particular a stored probability above one half keeps an effective probability of at least one half (on even grids exactly
    1/2 is reproduced, see [bern_half]) — nothing clips crossover probabilities at 1/2 *)
Theorem bern_above_half N p : (0 < N)%nat -> 1 # 2 <= p -> 1 # 2 <= bern (2 * N) p.
Proof. intros HN Hp. rewrite <- (bern_half N HN). apply bern_mono; [lia|exact Hp]. Qed.
