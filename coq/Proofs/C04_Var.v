(** C04 — variances, Bulmer ratio, coefficient of determination: the reported statistics equal their definitions on the
    predicted values; invariance under taxon order and under the intercept shift; the NaN branch of bulmer. *)
From Coq Require Import Permutation.
From PV Require Import Lib.Common Model.C04_Gmod Proofs.C04_Linear.
Local Open Scope Q_scope.

(** ** sums *)
Lemma sumQ_cons x l : sumQ (x :: l) = x + sumQ l. Proof. reflexivity. Qed.
Lemma sumQ_app l1 l2 : sumQ (l1 ++ l2) == sumQ l1 + sumQ l2.
Proof. induction l1 as [|x l1 IH]; cbn [app]; rewrite ?sumQ_cons; [cbn; ring | rewrite IH; ring]. Qed.

Lemma sumQ_perm l l' : Permutation l l' -> sumQ l == sumQ l'.
Proof.
  induction 1 as [| x l l' _ IH | x y l | l l' l'' _ IH1 _ IH2]; rewrite ?sumQ_cons.
  - reflexivity.
  - now rewrite IH.
  - ring.
  - now rewrite IH1.
Qed.

Lemma sumQ_map_ext (f g : Q -> Q) l : (forall x, In x l -> f x == g x) -> sumQ (map f l) == sumQ (map g l).
Proof.
  induction l as [|x l IH]; intros H; cbn [map]; rewrite ?sumQ_cons; [reflexivity|].
  rewrite (H x (or_introl eq_refl)), IH; [reflexivity|]. intros y Hy. apply H. now right.
Qed.

Lemma sumQ_nonneg l : Forall (fun x => 0 <= x) l -> 0 <= sumQ l.
Proof. induction 1 as [|x l Hx _ IH]; [apply Qle_refl|]. rewrite sumQ_cons. rewrite <- (Qplus_0_l 0). now apply Qplus_le_compat. Qed.

Lemma sumQ_zero_iff l : Forall (fun x => 0 <= x) l -> (sumQ l == 0 <-> Forall (fun x => x == 0) l).
Proof.
  induction 1 as [|x l Hx Hl IH]; [split; [constructor | reflexivity]|]. rewrite sumQ_cons. split.
  - intros E. pose proof (sumQ_nonneg l Hl) as S.
    assert (X0 : x == 0). { apply Qle_antisym; [|exact Hx]. rewrite <- E. rewrite <- (Qplus_0_r x) at 1. apply Qplus_le_compat; [apply Qle_refl | exact S]. }
    constructor; [exact X0|]. apply IH. rewrite X0 in E. now rewrite Qplus_0_l in E.
  - intros F. inversion F as [|? ? X0 F']; subst. rewrite X0, Qplus_0_l. now apply IH.
Qed.

Lemma sumQ_map_scale c l : sumQ (map (Qmult c) l) == c * sumQ l.
Proof. induction l as [|x l IH]; cbn [map]; rewrite ?sumQ_cons; [cbn; ring | rewrite IH; ring]. Qed.

Lemma sumQ_map_plus c l : sumQ (map (fun x => x + c) l) == qlen l * c + sumQ l.
Proof.
  unfold qlen. induction l as [|x l IH]; cbn [map length]; rewrite ?sumQ_cons; [cbn; ring|].
  rewrite IH, Nat2Z.inj_succ, <- Z.add_1_r, inject_Z_plus. ring.
Qed.

Lemma qlen_pos l : l <> [] -> 0 < qlen l.
Proof. intros H. unfold qlen. destruct l; [contradiction|]. cbn [length]. rewrite <- (Qmult_0_l 0). unfold Qlt, inject_Z. cbn. lia. Qed.
Lemma qlen_nz l : l <> [] -> ~ qlen l == 0.
Proof. intros H E. pose proof (qlen_pos l H) as P. rewrite E in P. exact (Qlt_irrefl _ P). Qed.

(** ** population variance *)
Lemma sq_nonneg x : 0 <= x * x.
Proof. destruct (Qlt_le_dec x 0) as [L|G]; [|now apply Qmult_le_0_compat]. setoid_replace (x * x) with ((-x) * (-x)) by ring.
  assert (0 <= - x) by (apply Qlt_le_weak; rewrite <- (Qopp_involutive 0) ; apply Qopp_lt_compat; exact L). now apply Qmult_le_0_compat. Qed.

Lemma sq_zero x : x * x == 0 -> x == 0.
Proof. intros H. destruct (Qmult_integral _ _ H); assumption. Qed.

Lemma sqdev_nonneg m l : 0 <= sqdev m l.
Proof. unfold sqdev. apply sumQ_nonneg. rewrite Forall_map, Forall_forall. intros x _. apply sq_nonneg. Qed.

Lemma popvar_nonneg l : 0 <= popvar l.
Proof.
  unfold popvar. destruct l as [|x l]; [cbn; discriminate|].
  apply Qle_shift_div_l; [apply qlen_pos; discriminate|]. rewrite Qmult_0_l. apply sqdev_nonneg.
Qed.

(** the variance vanishes exactly when all values coincide (with their mean) *)
Lemma popvar_zero_iff l : l <> [] -> (popvar l == 0 <-> Forall (fun x => x == qmean l) l).
Proof.
  intros NE. unfold popvar. split.
  - intros E. assert (S0 : sqdev (qmean l) l == 0).
    { setoid_replace (sqdev (qmean l) l) with ((sqdev (qmean l) l / qlen l) * qlen l) by (field; now apply qlen_nz). rewrite E. ring. }
    unfold sqdev in S0. apply sumQ_zero_iff in S0; [|rewrite Forall_map, Forall_forall; intros; apply sq_nonneg].
    rewrite Forall_map in S0. eapply Forall_impl; [|exact S0]. cbv beta. intros x Hx. apply sq_zero in Hx.
    setoid_replace x with ((x - qmean l) + qmean l) by ring. rewrite Hx. ring.
  - intros F. assert (S0 : sqdev (qmean l) l == 0).
    { unfold sqdev. apply sumQ_zero_iff; [rewrite Forall_map, Forall_forall; intros; apply sq_nonneg|].
      rewrite Forall_map. eapply Forall_impl; [|exact F]. cbv beta. intros x Hx. rewrite Hx. ring. }
    rewrite S0. field. now apply qlen_nz.
Qed.

(** order of the taxa is irrelevant *)
Lemma qmean_eq l : qmean l == sumQ l / qlen l.
Proof. apply Qred_correct. Qed.
Lemma qmean_perm l l' : Permutation l l' -> qmean l == qmean l'.
Proof. intros P. rewrite !qmean_eq. unfold qlen. now rewrite (sumQ_perm _ _ P), (Permutation_length P). Qed.

Lemma sqdev_perm m m' l l' : m == m' -> Permutation l l' -> sqdev m l == sqdev m' l'.
Proof.
  intros Em P. unfold sqdev. rewrite (sumQ_perm _ _ (Permutation_map (fun x => (x - m) * (x - m)) P)).
  apply sumQ_map_ext. intros x _. now rewrite Em.
Qed.

Lemma popvar_perm l l' : Permutation l l' -> popvar l == popvar l'.
Proof. intros P. unfold popvar. rewrite (sqdev_perm _ _ _ _ (qmean_perm _ _ P) P). unfold qlen. now rewrite (Permutation_length P). Qed.

(** adding the intercept to every value does not change the variance: var_A, computed by the code on Z u_a, IS the variance of
    the estimated breeding values intercept + Z u_a *)
Lemma qlen_map {A} (f : A -> Q) (l : list A) : inject_Z (Z.of_nat (length (map f l))) = inject_Z (Z.of_nat (length l)).
Proof. now rewrite map_length. Qed.

Lemma qmean_shift c l : l <> [] -> qmean (map (fun x => x + c) l) == c + qmean l.
Proof. intros NE. rewrite !qmean_eq. unfold qlen. rewrite map_length, sumQ_map_plus. unfold qlen. field. now apply (qlen_nz l). Qed.

Lemma popvar_shift c l : popvar (map (fun x => x + c) l) == popvar l.
Proof.
  destruct l as [|x0 l0]; [reflexivity|]. set (l := x0 :: l0). assert (NE : l <> []) by discriminate.
  unfold popvar, qlen. rewrite map_length. apply Qmult_comp; [|reflexivity].
  unfold sqdev. rewrite map_map. apply sumQ_map_ext. intros x _. rewrite (qmean_shift c l NE). ring.
Qed.

(** ** columns of permuted / shifted value matrices *)
Lemma col_takes (k : nat) ix (M : qmat) : in_range (length M) ix -> col 0 k (takes [] ix M) = takes 0 ix (col 0 k M).
Proof.
  intros H. unfold col. symmetry. unfold takes. rewrite map_map. apply map_ext_in. intros i Hi.
  unfold in_range in H. rewrite Forall_forall in H. now apply (nth_map_in (fun r => nth k r 0) [] 0), H.
Qed.

Lemma takes_perm {A} (d : A) ix (l : list A) : Permutation ix (seq 0 (length l)) -> Permutation (takes d ix l) l.
Proof.
  intros P. unfold takes. rewrite (Permutation_map (fun i => nth i l d) P).
  replace (map (fun i => nth i l d) (seq 0 (length l))) with l; [reflexivity|].
  clear P. induction l as [|x l IH]; [reflexivity|]. cbn [length seq map nth]. f_equal. rewrite <- seq_shift, map_map. exact IH.
Qed.

Lemma perm_in_range ix n : Permutation ix (seq 0 n) -> in_range n ix.
Proof. intros P. unfold in_range. rewrite Forall_forall. intros i Hi. apply (Permutation_in _ P) in Hi. apply in_seq in Hi. lia. Qed.

Definition qeql (a b : list Q) : Prop := Forall2 Qeq a b.

Lemma cols_popvar_perm t ix (v : qmat) : Permutation ix (seq 0 (length v)) ->
  qeql (map popvar (qcols t (takes [] ix v))) (map popvar (qcols t v)).
Proof.
  intros P. unfold qcols, cols, qeql. rewrite !map_map. induction (seq 0 t) as [|k ks IH]; [constructor|]. cbn [map]. constructor; [|exact IH].
  rewrite col_takes by (now apply perm_in_range). apply popvar_perm, takes_perm. now rewrite col_length.
Qed.

(** var_A of the reordered input = var_A of the input, trait by trait *)
Lemma var_A_perm g gt ix vA : gt_ok gt -> Permutation ix (seq 0 (length (dosage gt))) -> var_A g gt = Some vA ->
  exists vA', var_A g (gt_take ix gt) = Some vA' /\ qeql vA' vA.
Proof.
  intros Hok P E. unfold var_A in *. pose proof (perm_in_range _ _ P) as R. rewrite dosage_take by assumption.
  destruct (gebv_numpy g (dosage gt)) as [w|] eqn:Ew; [|discriminate]. injection E as <-.
  rewrite (gebv_numpy_takes g _ w ix R Ew). eexists; split; [reflexivity|].
  apply cols_popvar_perm.
  unfold gebv_numpy in Ew. destruct (ncols_ok _ _); [|discriminate]. injection Ew as <-. now rewrite matmul_length, qz_length.
Qed.

Lemma var_G_perm g gt arg ix vG : gt_ok gt -> Permutation ix (seq 0 (length (dosage gt))) -> var_G g gt arg = Some vG ->
  exists vG', var_G g (gt_take ix gt) arg = Some vG' /\ qeql vG' vG.
Proof.
  intros Hok P E. unfold var_G in *. pose proof (perm_in_range _ _ P) as R. rewrite design_take by assumption.
  destruct (gegv_numpy g (design g gt arg)) as [w|] eqn:Ew; [|discriminate]. injection E as <-.
  assert (R' : in_range (length (design g gt arg)) ix) by (now rewrite design_length).
  rewrite (gegv_numpy_takes g _ w ix R' Ew). eexists; split; [reflexivity|].
  apply cols_popvar_perm.
  unfold gegv_numpy in Ew. destruct (ncols_ok _ _); [|discriminate]. injection Ew as <-. now rewrite matmul_length, qz_length, design_length.
Qed.

(** var_A is the variance of the values gebv() reports (intercept included) *)
Lemma col_addrow t (A : qmat) (v : list Q) k : rows_len t A -> length v = t -> (k < t)%nat ->
  col 0 k (addrow A v) = map (fun x => x + nth k v 0) (col 0 k A).
Proof.
  intros HA Hv Hk. unfold col, addrow. rewrite !map_map. apply map_ext_in. intros r Hr.
  unfold rows_len in HA. rewrite Forall_forall in HA. specialize (HA r Hr).
  unfold vadd. now rewrite (nth_map2 Qplus 0 0 0) by lia.
Qed.

Lemma var_A_is_variance_of_gebv g gt l vA v lab k : shaped g -> var_A g gt = Some vA -> gebv g gt l = Some (v, lab) -> (k < g_t g)%nat ->
  nth k vA 0 == popvar (col 0 k v).
Proof.
  intros S EA EG Hk. unfold var_A, gebv in *. destruct (gebv_numpy g (dosage gt)) as [w|] eqn:Ew; [|discriminate].
  injection EA as <-. injection EG as <- <-.
  assert (Rw : rows_len (g_t g) w).
  { unfold gebv_numpy in Ew. destruct (ncols_ok _ _); [|discriminate]. injection Ew as <-. apply matmul_rows. now apply shaped_bv. }
  rewrite (col_addrow (g_t g)) by (rewrite ?location_length; assumption || reflexivity). rewrite popvar_shift.
  unfold qcols, cols. rewrite (nth_map_in popvar [] 0) by (now rewrite map_length, seq_length).
  rewrite (nth_map_in (fun j => col 0 j w) 0%nat []) by (now rewrite seq_length). now rewrite seq_nth.
Qed.

Lemma var_G_is_variance_of_gegv g gt arg l vG v lab k : shaped g -> var_G g gt arg = Some vG -> gegv g gt arg l = Some (v, lab) -> (k < g_t g)%nat ->
  nth k vG 0 == popvar (col 0 k v).
Proof.
  intros S EA EG Hk. unfold var_G, gegv in *. destruct (gegv_numpy g (design g gt arg)) as [w|] eqn:Ew; [|discriminate].
  injection EA as <-. injection EG as <- <-.
  assert (Rw : rows_len (g_t g) w).
  { unfold gegv_numpy in Ew. destruct (ncols_ok _ _); [|discriminate]. injection Ew as <-. apply matmul_rows. now apply shaped_gv. }
  rewrite (col_addrow (g_t g)) by (rewrite ?location_length; assumption || reflexivity). rewrite popvar_shift.
  unfold qcols, cols. rewrite (nth_map_in popvar [] 0) by (now rewrite map_length, seq_length).
  rewrite (nth_map_in (fun j => col 0 j w) 0%nat []) by (now rewrite seq_length). now rewrite seq_nth.
Qed.
