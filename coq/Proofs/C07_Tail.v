(** C07 — the tail shared by the individual-based configurations (outcross descent, then within-cross shuffles):
    hypotheses on the scripted draws and the resulting specification. *)
From Coq Require Import Permutation Sorting.Sorted.
From PV Require Import Lib.Common Model.C17_Sampling Proofs.C17_Sampling Model.C07_Config Proofs.C07_LocalOpt.
Local Open Scope nat_scope.

(** every permutation served to rng.shuffle is a permutation of the requested length: the passes consumed by the
    descent permute the exchange list, the remaining ones permute one cross each *)
Definition draws_ok (nparent : nat) (x : list Z) (pms : list (list nat)) : Prop :=
  forall y n, outcross nparent x pms = Some (y, n) ->
    Forall (fun pm => Permutation pm (seq 0 (length (all_pairs (length x))))) (firstn n pms) /\
    Forall (fun pm => Permutation pm (seq 0 nparent)) (skipn n pms).

(** 2-exchange local optimum of the number of repeated individuals within crosses *)
Definition local_opt (nparent : nat) (r : list Z) : Prop :=
  forall i j, i < j < length r -> (score nparent r <= score nparent (swap i j r))%Z.

Theorem xc_tail_spec : forall ncross nparent x pms r,
  length x = ncross * nparent -> draws_ok nparent x pms ->
  xc_tail ncross nparent x pms = Some r ->
  length r = ncross * nparent /\ Permutation r x /\ (score nparent r <= score nparent x)%Z /\ local_opt nparent r.
Proof.
  intros nc m x pms r Hlen Hd Hx.
  destruct (xc_tail_some_inv _ _ _ _ _ Hx) as (y & n & Ho & _).
  destruct (Hd y n Ho) as [H1 H2].
  destruct (xc_tail_local_optimum nc m x pms y n r Hlen Ho H1 H2 Hx) as (L & P & S & _ & O).
  repeat split; auto. congruence.
Qed.

Lemma count_z_Permutation v l l' : Permutation l l' -> count_z v l = count_z v l'.
Proof. intros P. unfold count_z. now apply Permutation_count_occ. Qed.

Lemma In_Permutation_iff {A} (l l' : list A) : Permutation l l' -> forall v, In v l <-> In v l'.
Proof. intros P v; split; intro H; [eapply Permutation_in; eauto | eapply Permutation_in; [apply Permutation_sym|]; eauto]. Qed.
