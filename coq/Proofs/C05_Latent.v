(** C05 — lemmas about Model/C05_Latent.v: sums over index lists, the contribution vector of the four decision
    encodings, the criterion families in subset form and in contribution-vector form, order and scale invariance,
    the Gram identity, the declared number of latent values.  (The binary64 allele-availability thresholds: Proofs/C05_Avail.v.) *)
From Coq Require Import PrimFloat Permutation Setoid Morphisms.
From PV Require Import Lib.Common Lib.FloatK Model.C05_Latent.
Local Open Scope Q_scope.

(** * pointwise equality of rational vectors *)
Notation qleq := (Forall2 Qeq).
Lemma qleq_refl l : qleq l l.
Proof. induction l; constructor; [reflexivity | assumption]. Qed.
Lemma qleq_sym a b : qleq a b -> qleq b a.
Proof. induction 1; constructor; [symmetry; assumption | assumption]. Qed.
Lemma qleq_trans a b c : qleq a b -> qleq b c -> qleq a c.
Proof. intros H; revert c; induction H; intros c Hc; inversion Hc; subst; constructor; [etransitivity; eassumption | auto]. Qed.
Lemma qleq_app a b c d : qleq a b -> qleq c d -> qleq (a ++ c) (b ++ d).
Proof. induction 1; cbn; [auto | constructor; auto]. Qed.
Lemma qleq_map_seq (f g : nat -> Q) s n : (forall i, (s <= i < s + n)%nat -> f i == g i) -> qleq (map f (seq s n)) (map g (seq s n)).
Proof.
  revert s; induction n as [|n IH]; intros s H; cbn; constructor; [apply H; lia | apply IH; intros i Hi; apply H; lia].
Qed.
Lemma qleq_map {A} (f g : A -> Q) l : (forall x, In x l -> f x == g x) -> qleq (map f l) (map g l).
Proof. induction l as [|x l IH]; intros H; cbn; constructor; [apply H; now left | apply IH; intros; apply H; now right]. Qed.
Lemma qleq_nth a b : qleq a b -> forall i, nth i a 0 == nth i b 0.
Proof. induction 1; intros [|i]; cbn; try reflexivity; auto. Qed.
Lemma nth_map_seq (f : nat -> Q) n i : (i < n)%nat -> nth i (map f (seq 0 n)) 0 = f i.
Proof.
  intros H. rewrite (nth_indep _ 0 (f 0%nat)) by (now rewrite map_length, seq_length).
  rewrite (map_nth f). now rewrite seq_nth by exact H.
Qed.

(** * sums *)
Lemma qsum_cons x l : qsum (x :: l) == x + qsum l.
Proof. unfold qsum. cbn [fold_right]. apply Qred_correct. Qed.
Lemma qsum_sumQ l : qsum l == sumQ l.
Proof. induction l as [|x l IH]; [reflexivity|]. rewrite qsum_cons, IH. reflexivity. Qed.
Lemma qsum_ext a b : qleq a b -> qsum a == qsum b.
Proof. induction 1 as [|x y a b Hxy _ IH]; [reflexivity|]. rewrite !qsum_cons, Hxy, IH. reflexivity. Qed.
Lemma qsum_app a b : qsum (a ++ b) == qsum a + qsum b.
Proof. induction a as [|x a IH]; cbn [app]; [cbn; ring|]. rewrite !qsum_cons, IH. ring. Qed.

(** sums of a function over a list of indices of any type *)
Definition sumg {A} (f : A -> Q) (l : list A) : Q := qsum (map f l).
Lemma sumf_sumg f l : sumf f l = sumg f l. Proof. reflexivity. Qed.
Lemma sumg_nil {A} (f : A -> Q) : sumg f [] == 0. Proof. reflexivity. Qed.
Lemma sumg_cons {A} (f : A -> Q) x l : sumg f (x :: l) == f x + sumg f l.
Proof. unfold sumg; cbn [map]. apply qsum_cons. Qed.
Lemma sumg_ext {A} (f g : A -> Q) l : (forall x, In x l -> f x == g x) -> sumg f l == sumg g l.
Proof. intros H. apply qsum_ext, qleq_map, H. Qed.
Lemma sumg_scale {A} a (f : A -> Q) l : sumg (fun i => a * f i) l == a * sumg f l.
Proof. induction l as [|x l IH]; [cbn; ring|]. rewrite !sumg_cons, IH. ring. Qed.
Lemma sumg_add {A} (f g : A -> Q) l : sumg (fun i => f i + g i) l == sumg f l + sumg g l.
Proof. induction l as [|x l IH]; [cbn; ring|]. rewrite !sumg_cons, IH. ring. Qed.
Lemma sumg_zero {A} (l : list A) : sumg (fun _ => 0) l == 0.
Proof. induction l as [|x l IH]; [reflexivity|]. rewrite sumg_cons, IH. ring. Qed.
Lemma sumg_app {A} (f : A -> Q) a b : sumg f (a ++ b) == sumg f a + sumg f b.
Proof. unfold sumg. rewrite map_app. apply qsum_app. Qed.
Lemma sumg_perm {A} (f : A -> Q) l l' : Permutation l l' -> sumg f l == sumg f l'.
Proof.
  induction 1 as [| x l l' _ IH | x y l | l l' l'' _ IH1 _ IH2]; [reflexivity | | | etransitivity; eassumption].
  - rewrite !sumg_cons, IH. reflexivity.
  - rewrite !sumg_cons. ring.
Qed.
Lemma sumg_swap {A B} (f : A -> B -> Q) (la : list A) (lb : list B) :
  sumg (fun a => sumg (fun b => f a b) lb) la == sumg (fun b => sumg (fun a => f a b) la) lb.
Proof.
  induction la as [|a la IH].
  - cbn. symmetry. apply sumg_zero.
  - rewrite sumg_cons, IH. rewrite <- sumg_add. apply sumg_ext. intros b _. rewrite sumg_cons. reflexivity.
Qed.
Lemma sumg_mul {A B} (f : A -> Q) (g : B -> Q) la lb :
  sumg f la * sumg g lb == sumg (fun a => sumg (fun b => f a * g b) lb) la.
Proof.
  induction la as [|a la IH]; [cbn; ring|]. rewrite !sumg_cons, <- IH, sumg_scale. ring.
Qed.

(** a one-hot selector picks one term *)
Lemma sumg_onehot (f : nat -> Q) a s n : (s <= a < s + n)%nat ->
  sumg (fun i => (if Nat.eqb a i then 1 else 0) * f i) (seq s n) == f a.
Proof.
  revert s; induction n as [|n IH]; intros s H; [lia|]. cbn [seq]. rewrite sumg_cons.
  destruct (Nat.eqb_spec a s) as [->|NE].
  - rewrite (sumg_ext _ (fun _ => 0)), sumg_zero; [ring|]. intros i Hi. apply in_seq in Hi.
    destruct (Nat.eqb_spec s i); [lia | ring].
  - rewrite IH by lia. ring.
Qed.

Lemma nq_S k : nq (S k) == 1 + nq k.
Proof. unfold nq. rewrite Nat2Z.inj_succ, <- Z.add_1_l, inject_Z_plus. reflexivity. Qed.
Lemma nq_add a b : nq (a + b) == nq a + nq b.
Proof. unfold nq. rewrite Nat2Z.inj_add, inject_Z_plus. reflexivity. Qed.
Lemma nq_nonneg k : 0 <= nq k.
Proof. unfold nq. change 0 with (inject_Z 0). rewrite <- Zle_Qle. lia. Qed.
Lemma nq_pos k : (0 < k)%nat -> 1 <= nq k.
Proof. intros H. unfold nq. change 1 with (inject_Z 1). rewrite <- Zle_Qle. lia. Qed.

(** summing over the listed members = summing multiplicity * value over all candidates *)
Lemma sumg_count (f : nat -> Q) s n : (forall i, In i s -> (i < n)%nat) ->
  sumg f s == sumg (fun i => nq (cnt i s) * f i) (seq 0 n).
Proof.
  induction s as [|a s IH]; intros H.
  - cbn [cnt]. rewrite (sumg_ext (fun i => nq 0 * f i) (fun _ => 0)); [rewrite sumg_zero; reflexivity|]. intros i _. unfold nq; cbn. ring.
  - rewrite sumg_cons, IH by (intros i Hi; apply H; now right).
    rewrite <- (sumg_onehot f a 0 n) by (split; [lia | apply H; now left]).
    rewrite <- sumg_add. apply sumg_ext. intros i _. cbn [cnt]. rewrite nq_add.
    destruct (Nat.eqb a i); unfold nq; cbn; ring.
Qed.
Lemma sumg_const_len {A} (l : list A) : sumg (fun _ => 1) l == nq (length l).
Proof. induction l as [|x l IH]; [reflexivity|]. rewrite sumg_cons, IH. cbn [length]. rewrite nq_S. reflexivity. Qed.

(** * the contribution vector of the encodings *)
Definition in_range (n : nat) (s : list nat) : Prop := forall i, In i s -> (i < n)%nat.

Lemma counts_total n s : in_range n s -> qsum (counts n s) == nq (length s).
Proof.
  intros H. unfold counts. change (qsum (map (fun i => nq (cnt i s)) (seq 0 n))) with (sumg (fun i => nq (cnt i s)) (seq 0 n)).
  rewrite <- sumg_const_len. rewrite (sumg_count (fun _ => 1) s n H). apply sumg_ext. intros; ring.
Qed.

Lemma Qabs'_nonneg_id t : 0 <= t -> Qabs' t = t.
Proof. intros H. unfold Qabs'. apply Qle_bool_iff in H. now rewrite H. Qed.
Lemma Qabs'_eq (x y : Q) : x == y -> Qabs' x == Qabs' y.
Proof.
  intros H. unfold Qabs'. destruct (Qle_bool 0 x) eqn:Ex, (Qle_bool 0 y) eqn:Ey; try (rewrite H; reflexivity).
  - apply Qle_bool_iff in Ex. rewrite H in Ex. apply Qle_bool_iff in Ex. congruence.
  - apply Qle_bool_iff in Ey. rewrite <- H in Ey. apply Qle_bool_iff in Ey. congruence.
Qed.
Lemma Qabs'_opp_nonneg x : 0 <= Qabs' x.
Proof.
  unfold Qabs'. destruct (Qle_bool 0 x) eqn:E; [now apply Qle_bool_iff|].
  assert (~ 0 <= x) by (intro H; apply Qle_bool_iff in H; congruence). apply Qnot_le_lt in H. apply Qlt_le_weak in H.
  apply Qopp_le_compat in H. exact H.
Qed.
Lemma guard_eps_le_1 : guard_eps <= 1. Proof. unfold guard_eps, Qle; cbn. lia. Qed.

(** outside the guard the sum is used as it is *)
Lemma guard_sum_outside t : guard_eps <= Qabs' t -> guard_sum t = t.
Proof. intros H. unfold guard_sum. apply Qle_bool_iff in H. now rewrite H. Qed.
Lemma guard_sum_ge1 t : 1 <= t -> guard_sum t = t.
Proof.
  intros H. apply guard_sum_outside. rewrite Qabs'_nonneg_id by (eapply Qle_trans; [|exact H]; discriminate).
  eapply Qle_trans; [apply guard_eps_le_1 | exact H].
Qed.

(** integer counts normalise to multiplicity / k — for any non-empty multiset of candidates *)
Lemma contrib_counts n s : s <> [] -> in_range n s -> qleq (contrib_guard (counts n s)) (contrib_subset n s).
Proof.
  intros Hne Hr. unfold contrib_guard, contrib_subset, counts. rewrite map_map.
  assert (Hk : 1 <= nq (length s)) by (apply nq_pos; destruct s; [congruence | cbn; lia]).
  pose proof (counts_total n s Hr) as Ht. unfold counts in Ht.
  rewrite guard_sum_ge1 by (rewrite Ht; exact Hk).
  apply qleq_map_seq. intros i _. rewrite Ht. reflexivity.
Qed.

Lemma mem_In i s : mem i s = true <-> In i s.
Proof. unfold mem. rewrite existsb_exists. split; [intros (x & Hx & E); apply Nat.eqb_eq in E; now subst | intros H; exists i; split; [exact H | apply Nat.eqb_refl]]. Qed.
Lemma cnt_notin i s : ~ In i s -> cnt i s = 0%nat.
Proof. induction s as [|a s IH]; intros H; cbn; [reflexivity|]. destruct (Nat.eqb_spec a i); [exfalso; apply H; now left | apply IH; intro; apply H; now right]. Qed.
Lemma cnt_nodup i s : NoDup s -> In i s -> cnt i s = 1%nat.
Proof.
  induction 1 as [|a s Ha Hs IH]; intros Hi; [inversion Hi|]. cbn. destruct (Nat.eqb_spec a i) as [->|NE].
  - now rewrite cnt_notin.
  - destruct Hi; [congruence | now rewrite IH].
Qed.
(** a binary indicator is the count vector of a duplicate-free subset *)
Lemma indicator_counts n s : NoDup s -> indicator n s = counts n s.
Proof.
  intros H. unfold indicator, counts. apply map_ext. intros i. destruct (mem i s) eqn:E.
  - apply mem_In in E. now rewrite cnt_nodup.
  - rewrite cnt_notin; [reflexivity|]. intro Hi. apply mem_In in Hi. congruence.
Qed.

(** * linear family: the subset formula is the contribution-vector formula at multiplicity / k *)
Lemma contrib_subset_nth n s i : (i < n)%nat -> nth i (contrib_subset n s) 0 = (1 / nq (length s)) * nq (cnt i s).
Proof. intros H. unfold contrib_subset. now rewrite nth_map_seq. Qed.

Lemma weighted_sum_subset (g : nat -> Q) n s : in_range n s ->
  sumf (fun i => nth i (contrib_subset n s) 0 * g i) (seq 0 n) == (1 / nq (length s)) * sumf g s.
Proof.
  intros Hr. rewrite !sumf_sumg. rewrite (sumg_count g s n Hr), <- sumg_scale.
  apply sumg_ext. intros i Hi. apply in_seq in Hi. rewrite contrib_subset_nth by lia. ring.
Qed.

Lemma lin_subset_as_vec n t M s : in_range n s -> qleq (lin_subset t M s) (lin_vec n t M (contrib_subset n s)).
Proof.
  intros Hr. unfold lin_subset, lin_vec. apply qleq_map_seq. intros j _.
  rewrite (weighted_sum_subset (fun i => mget M i j) n s Hr). ring.
Qed.

(** the vector form only depends on the contributions up to equality of rationals *)
Definition veq (n : nat) (c c' : list Q) : Prop := forall i, (i < n)%nat -> nth i c 0 == nth i c' 0.
Lemma qleq_veq n c c' : qleq c c' -> veq n c c'.
Proof. intros H i _. now apply qleq_nth. Qed.
Lemma lin_vec_proper n t M c c' : veq n c c' -> qleq (lin_vec n t M c) (lin_vec n t M c').
Proof.
  intros H. unfold lin_vec. apply qleq_map_seq. intros j _. apply Qopp_comp. rewrite !sumf_sumg. apply sumg_ext.
  intros i Hi. apply in_seq in Hi. rewrite (H i) by lia. reflexivity.
Qed.

(** * quadratic and L1 families *)
Lemma cx_subset_as_vec n C s : in_range n s -> qleq (cx_subset C s) (cx_vec n C (contrib_subset n s)).
Proof.
  intros Hr. unfold cx_subset, cx_vec. apply qleq_map. intros r _.
  rewrite <- (weighted_sum_subset (fun i => nth i r 0) n s Hr). rewrite !sumf_sumg. apply sumg_ext. intros; ring.
Qed.
Lemma cx_vec_proper n C c c' : veq n c c' -> qleq (cx_vec n C c) (cx_vec n C c').
Proof.
  intros H. unfold cx_vec. apply qleq_map. intros r _. rewrite !sumf_sumg. apply sumg_ext.
  intros i Hi. apply in_seq in Hi. rewrite (H i) by lia. reflexivity.
Qed.
Lemma qleq_map2 (f : Q -> Q) a b : (forall x y, x == y -> f x == f y) -> qleq a b -> qleq (map f a) (map f b).
Proof. intros Hf. induction 1; cbn; constructor; auto. Qed.
Lemma normsq_proper a b : qleq a b -> normsq a == normsq b.
Proof. intros H. unfold normsq. apply qsum_ext, qleq_map2; [|exact H]. intros x y E. now rewrite E. Qed.
Lemma l1_proper a b : qleq a b -> l1 a == l1 b.
Proof. intros H. unfold l1. apply qsum_ext, qleq_map2; [|exact H]. apply Qabs'_eq. Qed.

Lemma normsq_subset_as_vec n C s : in_range n s -> normsq_subset C s == normsq_vec n C (contrib_subset n s).
Proof. intros Hr. apply normsq_proper, cx_subset_as_vec, Hr. Qed.
Lemma l1_subset_as_vec n V s : in_range n s -> l1_subset V s == l1_vec n V (contrib_subset n s).
Proof. intros Hr. apply l1_proper, cx_subset_as_vec, Hr. Qed.
Lemma normsq_vec_proper n C c c' : veq n c c' -> normsq_vec n C c == normsq_vec n C c'.
Proof. intros H. apply normsq_proper, cx_vec_proper, H. Qed.
Lemma l1_vec_proper n V c c' : veq n c c' -> l1_vec n V c == l1_vec n V c'.
Proof. intros H. apply l1_proper, cx_vec_proper, H. Qed.

(** ||C c||^2 = c' (C'C) c : the factor and the kinship matrix it was taken from give the same value *)
Lemma sumg_sq {A} (f : A -> Q) l : sumg f l * sumg f l == sumg (fun a => sumg (fun b => f a * f b) l) l.
Proof. apply sumg_mul. Qed.
Lemma gram_term (i j : nat) (c : list Q) (C : list (list Q)) :
  sumg (fun r => (nth i r 0 * nth i c 0) * (nth j r 0 * nth j c 0)) C == nth i c 0 * (sumg (fun r => nth i r 0 * nth j r 0) C * nth j c 0).
Proof.
  rewrite (sumg_ext _ (fun r => (nth i c 0 * nth j c 0) * (nth i r 0 * nth j r 0))) by (intros; ring).
  rewrite sumg_scale. ring.
Qed.
Lemma quad_is_cKc n C c : normsq_vec n C c == qform n (gram n C) c.
Proof.
  unfold normsq_vec, normsq, cx_vec, qform, gram. rewrite map_map.
  change (qsum (map (fun r => sumf (fun i => nth i r 0 * nth i c 0) (seq 0 n) * sumf (fun i => nth i r 0 * nth i c 0) (seq 0 n)) C))
    with (sumg (fun r => sumg (fun i => nth i r 0 * nth i c 0) (seq 0 n) * sumg (fun i => nth i r 0 * nth i c 0) (seq 0 n)) C).
  rewrite (sumg_ext _ (fun r => sumg (fun i => sumg (fun j => (nth i r 0 * nth i c 0) * (nth j r 0 * nth j c 0)) (seq 0 n)) (seq 0 n)))
    by (intros r _; apply sumg_mul).
  rewrite (sumg_swap (fun r i => sumg (fun j => (nth i r 0 * nth i c 0) * (nth j r 0 * nth j c 0)) (seq 0 n)) C (seq 0 n)).
  change sumf with (@sumg nat). apply sumg_ext. intros i _.
  rewrite (sumg_swap (fun r j => (nth i r 0 * nth i c 0) * (nth j r 0 * nth j c 0)) C (seq 0 n)).
  apply sumg_ext. intros j _.
  apply gram_term.
Qed.

(** * family criterion *)
Lemma bincount_proper nf ix w w' : qleq w w' -> qleq (bincount nf ix w) (bincount nf ix w').
Proof.
  intros H. unfold bincount. apply qleq_map. intros f _. apply qsum_ext. clear -H. revert ix.
  induction H as [|x y w w' Hxy _ IH]; intros [|i ix]; cbn; constructor; [destruct (Nat.eqb i f); [exact Hxy | reflexivity] | apply IH].
Qed.
Lemma famwt_subset_nodup n s : NoDup s -> qleq (famwt_subset n s) (contrib_subset n s).
Proof.
  intros Hd. unfold famwt_subset, contrib_subset. apply qleq_map_seq. intros i _. destruct (mem i s) eqn:E.
  - apply mem_In in E. rewrite cnt_nodup by assumption. change (nq 1) with 1. ring.
  - rewrite cnt_notin by (intro Hi; apply mem_In in Hi; congruence). change (nq 0) with 0. ring.
Qed.
Lemma qleq_mapopp a b : qleq a b -> qleq (map Qopp a) (map Qopp b).
Proof. apply qleq_map2. intros x y E. now rewrite E. Qed.
Lemma fam_subset_as_vec n t M ids s : NoDup s -> in_range n s ->
  qleq (fam_subset n t M ids s) (fam_vec n t M ids (contrib_subset n s)).
Proof.
  intros Hd Hr. unfold fam_subset, fam_vec. apply qleq_app; [now apply lin_subset_as_vec|].
  apply qleq_mapopp, bincount_proper, famwt_subset_nodup, Hd.
Qed.
Lemma fam_vec_proper n t M ids c c' : qleq c c' -> qleq (fam_vec n t M ids c) (fam_vec n t M ids c').
Proof.
  intros H. unfold fam_vec. apply qleq_app; [apply lin_vec_proper, (qleq_veq n), H | apply qleq_mapopp, bincount_proper, H].
Qed.
(** with a repeated member the subset class assigns 1/k once instead of accumulating: it no longer matches the
    integer-count reading (such a listing is outside the subset decision space) *)
Lemma fam_subset_repeat_differs :
  ~ qleq (fam_subset 2 1 [[1]; [1]] [0%Z; 1%Z] [0%nat; 0%nat]) (fam_vec 2 1 [[1]; [1]] [0%Z; 1%Z] (contrib_subset 2 [0%nat; 0%nat])).
Proof. intro H. apply qleq_nth with (i := 1%nat) in H. vm_compute in H. discriminate. Qed.

(** * equality of latent results *)
Definition lv_eq (a b : lv) : Prop :=
  match a, b with Ex x, Ex y => x == y | Sq x, Sq y => x == y | OneMinus x, OneMinus y => x == y | _, _ => False end.
Definition res_eq (a b : option (list lv)) : Prop :=
  match a, b with Some x, Some y => Forall2 lv_eq x y | None, None => True | _, _ => False end.
Lemma lveq_Ex a b : qleq a b -> Forall2 lv_eq (map Ex a) (map Ex b).
Proof. induction 1; cbn; constructor; auto. Qed.
Lemma lv_eq_refl a : lv_eq a a. Proof. destruct a; cbn; reflexivity. Qed.
Lemma lv_eq_sym a b : lv_eq a b -> lv_eq b a. Proof. destruct a, b; cbn; auto; intros; symmetry; assumption. Qed.
Lemma lv_eq_trans a b c : lv_eq a b -> lv_eq b c -> lv_eq a c.
Proof. destruct a, b, c; cbn; try tauto; intros; etransitivity; eassumption. Qed.
Lemma res_eq_refl r : res_eq r r.
Proof. destruct r as [l|]; cbn; [|exact I]. induction l; constructor; [apply lv_eq_refl | assumption]. Qed.
Lemma res_eq_sym a b : res_eq a b -> res_eq b a.
Proof. destruct a as [x|], b as [y|]; cbn; try tauto. induction 1; constructor; [now apply lv_eq_sym | assumption]. Qed.
Lemma res_eq_trans a b c : res_eq a b -> res_eq b c -> res_eq a c.
Proof.
  destruct a as [x|], b as [y|], c as [z|]; cbn; try tauto. intros H; revert z. induction H; intros z Hz; inversion Hz; subst; constructor.
  - eapply lv_eq_trans; eassumption.
  - auto.
Qed.
Lemma lveq_map_Sq {A} (f g : A -> Q) l : (forall x, In x l -> f x == g x) -> Forall2 lv_eq (map (fun x => Sq (f x)) l) (map (fun x => Sq (g x)) l).
Proof. induction l as [|x l IH]; intros H; cbn; constructor; [apply H; now left | apply IH; intros; apply H; now right]. Qed.
Lemma lveq_map_Ex {A} (f g : A -> Q) l : (forall x, In x l -> f x == g x) -> Forall2 lv_eq (map (fun x => Ex (f x)) l) (map (fun x => Ex (g x)) l).
Proof. induction l as [|x l IH]; intros H; cbn; constructor; [apply H; now left | apply IH; intros; apply H; now right]. Qed.

(** * order invariance: the value of a subset does not depend on the order in which it is listed *)
Lemma perm_len (s s' : list nat) : Permutation s s' -> length s = length s'. Proof. apply Permutation_length. Qed.
Lemma lin_subset_perm t M s s' : Permutation s s' -> qleq (lin_subset t M s) (lin_subset t M s').
Proof.
  intros H. unfold lin_subset. rewrite (perm_len _ _ H). apply qleq_map_seq. intros j _.
  change sumf with (@sumg nat). rewrite (sumg_perm _ _ _ H). reflexivity.
Qed.
Lemma cx_subset_perm C s s' : Permutation s s' -> qleq (cx_subset C s) (cx_subset C s').
Proof.
  intros H. unfold cx_subset. rewrite (perm_len _ _ H). apply qleq_map. intros r _.
  change sumf with (@sumg nat). rewrite (sumg_perm _ _ _ H). reflexivity.
Qed.
Lemma mem_perm i s s' : Permutation s s' -> mem i s = mem i s'.
Proof.
  intros H. destruct (mem i s) eqn:E, (mem i s') eqn:E'; try reflexivity.
  - apply mem_In in E. apply (Permutation_in _ H) in E. apply mem_In in E. congruence.
  - apply mem_In in E'. apply (Permutation_in _ (Permutation_sym H)) in E'. apply mem_In in E'. congruence.
Qed.
Lemma fam_subset_perm n t M ids s s' : Permutation s s' -> qleq (fam_subset n t M ids s) (fam_subset n t M ids s').
Proof.
  intros H. unfold fam_subset. apply qleq_app; [now apply lin_subset_perm|].
  replace (famwt_subset n s') with (famwt_subset n s); [apply qleq_refl|].
  unfold famwt_subset. rewrite (perm_len _ _ H). apply map_ext. intros i. now rewrite (mem_perm i s s' H).
Qed.
Lemma sumZ_perm (l l' : list Z) : Permutation l l' -> sumZ l = sumZ l'.
Proof. induction 1; cbn [sumZ fold_right]; try lia. fold (sumZ l) (sumZ l'). lia. Qed.
Lemma acount_perm G s s' j : Permutation s s' -> acount G s j = acount G s' j.
Proof. intros H. unfold acount. apply sumZ_perm, Permutation_map, H. Qed.
Lemma popsize_perm pl (s s' : list nat) : Permutation s s' -> popsize pl s = popsize pl s'.
Proof. intros H. unfold popsize. now rewrite (perm_len _ _ H). Qed.
Lemma pafd_perm pl G w tf p t s s' : Permutation s s' -> pafd pl G w tf p t s = pafd pl G w tf p t s'.
Proof.
  intros H. unfold pafd. apply map_ext. intros q. unfold sumf. f_equal. apply map_ext. intros j.
  unfold pfreq_q. now rewrite (acount_perm G s s' j H), (popsize_perm pl s s' H).
Qed.
Lemma pfreq_f_perm pl G s s' j : Permutation s s' -> pfreq_f pl G s j = pfreq_f pl G s' j.
Proof. intros H. unfold pfreq_f. now rewrite (acount_perm G s s' j H), (popsize_perm pl s s' H). Qed.
Lemma pau_code_perm pl G w tf p t s s' : Permutation s s' -> pau_code pl G w tf p t s = pau_code pl G w tf p t s'.
Proof.
  intros H. unfold pau_code, wsum_flags. apply map_ext. intros q. unfold sumf. f_equal. apply map_ext. intros j.
  now rewrite (pfreq_f_perm pl G s s' j H).
Qed.
Lemma mogs_pau_code_perm pl G w tf p t s s' : Permutation s s' -> mogs_pau_code pl G w tf p t s = mogs_pau_code pl G w tf p t s'.
Proof.
  intros H. unfold mogs_pau_code, wsum_flags. apply map_ext. intros q. unfold sumf. f_equal. apply map_ext. intros j.
  now rewrite (pfreq_f_perm pl G s s' j H).
Qed.

(** maximum of a list: least upper bound, hence independent of the order *)
Lemma Qmax'_lub x y z : Qmax' x y <= z <-> x <= z /\ y <= z.
Proof.
  unfold Qmax'. destruct (Qle_bool x y) eqn:E.
  - apply Qle_bool_iff in E. split; [intros H; split; [eapply Qle_trans; eassumption | exact H] | tauto].
  - assert (L : y <= x). { apply Qlt_le_weak, Qnot_le_lt. intro H. apply Qle_bool_iff in H. congruence. }
    split; [intros H; split; [exact H | eapply Qle_trans; eassumption] | tauto].
Qed.
Lemma fold_max_lub r : forall x z, fold_left Qmax' r x <= z <-> x <= z /\ Forall (fun y => y <= z) r.
Proof.
  induction r as [|y r IH]; intros x z; cbn [fold_left].
  - split; [intros H; split; [exact H | constructor] | tauto].
  - rewrite IH, Qmax'_lub. split.
    + intros [[H1 H2] H3]. split; [exact H1 | constructor; assumption].
    + intros [H1 H2]. inversion H2; subst. tauto.
Qed.
Lemma maxl_lub l z : l <> [] -> (maxl l <= z <-> Forall (fun y => y <= z) l).
Proof.
  destruct l as [|x r]; [congruence|]. intros _. unfold maxl. rewrite fold_max_lub. split.
  - intros [H1 H2]. constructor; assumption.
  - intros H. inversion H; subst. tauto.
Qed.
Lemma maxl_perm l l' : Permutation l l' -> maxl l == maxl l'.
Proof.
  intros H. destruct l as [|x r].
  - apply Permutation_nil in H. subst. reflexivity.
  - assert (N1 : x :: r <> []) by congruence.
    assert (N2 : l' <> []) by (intro E; subst; apply Permutation_sym, Permutation_nil in H; congruence).
    apply Qle_antisym.
    + apply (maxl_lub _ _ N1). eapply Permutation_Forall; [apply Permutation_sym, H|]. apply (maxl_lub _ _ N2). apply Qle_refl.
    + apply (maxl_lub _ _ N2). eapply Permutation_Forall; [exact H|]. apply (maxl_lub _ _ N1). apply Qle_refl.
Qed.
Lemma flat_map_perm_inner {A B} (g : A -> nat -> B) (H : list A) s s' : Permutation s s' ->
  Permutation (flat_map (fun a => map (g a) s) H) (flat_map (fun a => map (g a) s') H).
Proof.
  intros P. induction H as [|a H IH]; cbn [flat_map]; [constructor|]. apply Permutation_app; [now apply Permutation_map | exact IH].
Qed.
Lemma opv_subset_perm H nb nt s s' : Permutation s s' -> qleq (opv_subset H nb nt s) (opv_subset H nb nt s').
Proof.
  intros P. unfold opv_subset. apply qleq_map_seq. intros q _. change sumf with (@sumg nat).
  rewrite (sumg_ext _ (fun b => maxl (flat_map (fun Hp => map (fun i => hget Hp i b q) s') H))); [reflexivity|].
  intros b _. apply maxl_perm. apply (flat_map_perm_inner (fun Hp i => hget Hp i b q) H s s' P).
Qed.

(** * genotype builder: sorting makes the value independent of the listing order *)
Lemma Qle_bool_false_lt x y : Qle_bool x y = false -> y < x.
Proof. intros H. apply Qnot_le_lt. intro L. apply Qle_bool_iff in L. congruence. Qed.
Lemma Qle_bool_comp x x' y y' : x == x' -> y == y' -> Qle_bool x y = Qle_bool x' y'.
Proof.
  intros Ex Ey. destruct (Qle_bool x y) eqn:A, (Qle_bool x' y') eqn:B; try reflexivity.
  - apply Qle_bool_iff in A. rewrite Ex, Ey in A. apply Qle_bool_iff in A. congruence.
  - apply Qle_bool_iff in B. rewrite <- Ex, <- Ey in B. apply Qle_bool_iff in B. congruence.
Qed.
Lemma insQ_proper x a b : qleq a b -> qleq (insQ x a) (insQ x b).
Proof.
  induction 1 as [|y z a b Hyz Hab IH]; cbn [insQ]; [apply qleq_refl|].
  rewrite (Qle_bool_comp x x y z (Qeq_refl x) Hyz). destruct (Qle_bool x z).
  - constructor; [reflexivity | constructor; assumption].
  - constructor; assumption.
Qed.
Lemma insQ_comm x y l : qleq (insQ x (insQ y l)) (insQ y (insQ x l)).
Proof.
  induction l as [|z r IH]; cbn [insQ].
  - destruct (Qle_bool x y) eqn:A, (Qle_bool y x) eqn:B; cbn [insQ]; rewrite ?A, ?B; try apply qleq_refl.
    + apply Qle_bool_iff in A, B. assert (E : x == y) by (now apply Qle_antisym). repeat constructor; [exact E | symmetry; exact E].
    + apply Qle_bool_false_lt in A, B. exfalso. apply (Qlt_irrefl x). eapply Qlt_trans; eassumption.
  - destruct (Qle_bool y z) eqn:Yz, (Qle_bool x z) eqn:Xz; cbn [insQ].
    + destruct (Qle_bool x y) eqn:A, (Qle_bool y x) eqn:B; rewrite ?Xz, ?Yz; try apply qleq_refl.
      * apply Qle_bool_iff in A, B. assert (E : x == y) by (now apply Qle_antisym).
        constructor; [exact E|]. constructor; [symmetry; exact E | apply qleq_refl].
      * apply Qle_bool_false_lt in A, B. exfalso. apply (Qlt_irrefl x). eapply Qlt_trans; eassumption.
    + (* y <= z < x *)
      assert (A : Qle_bool x y = false).
      { destruct (Qle_bool x y) eqn:A; [|reflexivity]. apply Qle_bool_iff in A, Yz. apply Qle_bool_false_lt in Xz.
        exfalso. apply (Qlt_irrefl x). eapply Qle_lt_trans; [eapply Qle_trans; eassumption | exact Xz]. }
      rewrite A, Xz, Yz. apply qleq_refl.
    + (* x <= z < y *)
      assert (B : Qle_bool y x = false).
      { destruct (Qle_bool y x) eqn:B; [|reflexivity]. apply Qle_bool_iff in B, Xz. apply Qle_bool_false_lt in Yz.
        exfalso. apply (Qlt_irrefl y). eapply Qle_lt_trans; [eapply Qle_trans; eassumption | exact Yz]. }
      rewrite B, Xz, Yz. apply qleq_refl.
    + rewrite Xz, Yz. constructor; [reflexivity | exact IH].
Qed.
Lemma sortQ_perm l l' : Permutation l l' -> qleq (sortQ l) (sortQ l').
Proof.
  induction 1 as [| x l l' _ IH | x y l | l l' l'' _ IH1 _ IH2]; cbn [sortQ fold_right].
  - constructor.
  - apply insQ_proper, IH.
  - apply insQ_comm.
  - eapply qleq_trans; eassumption.
Qed.
Lemma qleq_length a b : qleq a b -> length a = length b.
Proof. induction 1; cbn; congruence. Qed.
Lemma qleq_skipn k a b : qleq a b -> qleq (skipn k a) (skipn k b).
Proof. intros H; revert k. induction H; intros [|k]; cbn; try constructor; auto. Qed.
Lemma lastn_proper k a b : qleq a b -> qleq (lastn k a) (lastn k b).
Proof. intros H. unfold lastn. rewrite (qleq_length _ _ H). now apply qleq_skipn. Qed.
Lemma gb_subset_perm H nb nt nbest s s' : Permutation s s' -> qleq (gb_subset H nb nt nbest s) (gb_subset H nb nt nbest s').
Proof.
  intros P. unfold gb_subset. apply qleq_map_seq. intros q _. change sumf with (@sumg nat).
  rewrite (sumg_ext _ (fun b => qsum (lastn nbest (sortQ (map (fun i => maxl (map (fun Hp => hget Hp i b q) H)) s'))))); [reflexivity|].
  intros b _. apply qsum_ext, lastn_proper, sortQ_perm, Permutation_map, P.
Qed.

Lemma is_nil_perm (s s' : list nat) : Permutation s s' -> is_nil s = is_nil s'.
Proof. intros H. apply perm_len in H. destruct s, s'; cbn in *; congruence. Qed.

Lemma latent_order_invariant n fd s s' : Permutation s s' -> res_eq (latent n fd (DSub s)) (latent n fd (DSub s')).
Proof.
  intros P. unfold latent. rewrite <- (is_nil_perm s s' P). destruct (is_nil s); [exact I|]. cbn [res_eq].
  destruct fd as [g t M | t M C | C | C | Cs | Vs | t M ids | pl G w tf p t | pl G w tf p t | pl G w tf p t | H nb nt | H nb nt nbest].
  - apply lveq_Ex, lin_subset_perm, P.
  - constructor; [cbn; apply normsq_proper, cx_subset_perm, P | apply lveq_Ex, lin_subset_perm, P].
  - constructor; [cbn; apply normsq_proper, cx_subset_perm, P | constructor].
  - constructor; [cbn; apply normsq_proper, cx_subset_perm, P | constructor].
  - apply lveq_map_Sq. intros C _. apply normsq_proper, cx_subset_perm, P.
  - apply lveq_map_Ex. intros V _. apply l1_proper, cx_subset_perm, P.
  - apply lveq_Ex, fam_subset_perm, P.
  - rewrite (pafd_perm pl G w tf p t s s' P). apply lveq_Ex, qleq_refl.
  - rewrite (pau_code_perm pl G w tf p t s s' P). apply lveq_Ex, qleq_refl.
  - rewrite (mogs_pau_code_perm pl G w tf p t s s' P), (pafd_perm pl G w tf p t s s' P). apply lveq_Ex, qleq_refl.
  - apply lveq_Ex, opv_subset_perm, P.
  - apply lveq_Ex, gb_subset_perm, P.
Qed.

(** * scale invariance of the normalisation, outside the guard *)
Lemma guard_eps_pos : 0 < guard_eps. Proof. unfold guard_eps, Qlt; cbn. lia. Qed.
Lemma qsum_scale a x : qsum (map (Qmult a) x) == a * qsum x.
Proof. change (qsum (map (Qmult a) x)) with (sumg (fun v => a * v) x). rewrite sumg_scale. unfold sumg. now rewrite map_id. Qed.
Lemma Qabs'_pos_nonzero t : guard_eps <= Qabs' t -> ~ t == 0.
Proof.
  intros H E. rewrite (Qabs'_eq t 0 E) in H. change (Qabs' 0) with 0 in H.
  apply (Qlt_irrefl 0). eapply Qlt_le_trans; [apply guard_eps_pos | exact H].
Qed.
Lemma contrib_guard_scale a x : ~ a == 0 -> guard_eps <= Qabs' (qsum x) -> guard_eps <= Qabs' (qsum (map (Qmult a) x)) ->
  qleq (contrib_guard (map (Qmult a) x)) (contrib_guard x).
Proof.
  intros Ha H1 H2. unfold contrib_guard. rewrite !guard_sum_outside by assumption. rewrite map_map.
  apply qleq_map. intros v _. rewrite qsum_scale. pose proof (Qabs'_pos_nonzero _ H1) as Hs. field. split; assumption.
Qed.
Lemma contrib_raw_scale a x : ~ a == 0 -> ~ qsum x == 0 -> qleq (contrib_raw (map (Qmult a) x)) (contrib_raw x).
Proof.
  intros Ha Hs. unfold contrib_raw. rewrite map_map. apply qleq_map. intros v _. rewrite qsum_scale. field. split; assumption.
Qed.
(** inside the guard the vector is divided by 1 instead: scaling changes the contributions (witness) *)
Lemma contrib_guard_inside_not_invariant :
  exists a x, 0 < a /\ 0 < qsum x /\ Qabs' (qsum x) < guard_eps /\ ~ qleq (contrib_guard (map (Qmult a) x)) (contrib_guard x).
Proof.
  exists 2, [1 # 1099511627776]. repeat split; try reflexivity. intro H. inversion H; subst. vm_compute in H3. discriminate.
Qed.

Lemma contrib_of_scale g a x : 0 < a -> guard_eps <= Qabs' (qsum x) -> guard_eps <= Qabs' (qsum (map (Qmult a) x)) ->
  exists c c', contrib_of g (map (Qmult a) x) = Some c /\ contrib_of g x = Some c' /\ qleq c c'.
Proof.
  intros Ha H1 H2. assert (Na : ~ a == 0) by (intro E; rewrite E in Ha; discriminate).
  unfold contrib_of. destruct g.
  - eexists _, _. split; [reflexivity|]. split; [reflexivity|]. now apply contrib_guard_scale.
  - pose proof (Qabs'_pos_nonzero _ H1) as N1. pose proof (Qabs'_pos_nonzero _ H2) as N2.
    destruct (Qeq_bool (qsum (map (Qmult a) x)) 0) eqn:E1; [apply Qeq_bool_iff in E1; contradiction|].
    destruct (Qeq_bool (qsum x) 0) eqn:E2; [apply Qeq_bool_iff in E2; contradiction|].
    eexists _, _. split; [reflexivity|]. split; [reflexivity|]. now apply contrib_raw_scale.
Qed.

(** all vector-form families depend on the contributions only up to equality *)
Definition vec_form (n : nat) (fd : fdata) (c : list Q) : option (list lv) :=
  match fd with
  | FLin g t M => Some (map Ex (lin_vec n t M c))
  | FOcs t M C => Some (Sq (normsq_vec n C c) :: map Ex (lin_vec n t M c))
  | FMgr C => Some [Sq (normsq_vec n C c)]
  | FMeh C => Some [OneMinus (normsq_vec n C c)]
  | FL2 Cs => Some (map (fun C => Sq (normsq_vec n C c)) Cs)
  | FL1 Vs => Some (map (fun V => Ex (l1_vec n V c)) Vs)
  | FFam t M ids => Some (map Ex (fam_vec n t M ids c))
  | _ => None
  end.
Definition guarded_of (fd : fdata) : bool :=
  match fd with FLin g _ _ => g | FOcs _ _ _ | FMgr _ | FMeh _ => true | _ => false end.
Definition has_vec (fd : fdata) : bool :=
  match fd with FLin _ _ _ | FOcs _ _ _ | FMgr _ | FMeh _ | FL2 _ | FL1 _ | FFam _ _ _ => true | _ => false end.
(** the entry point is: normalise (with or without the guard), then apply the vector form *)
Lemma latent_vec n fd x : has_vec fd = true ->
  latent n fd (DVec x) = match contrib_of (guarded_of fd) x with Some c => vec_form n fd c | None => None end.
Proof.
  destruct fd; cbn [has_vec]; try discriminate; intros _; unfold latent, omap, guarded_of, vec_form;
    match goal with |- context [contrib_of ?g x] => destruct (contrib_of g x) end; reflexivity.
Qed.
Lemma vec_form_proper n fd c c' : qleq c c' -> res_eq (vec_form n fd c) (vec_form n fd c').
Proof.
  intros H. pose proof (qleq_veq n c c' H) as V.
  destruct fd as [g t M | t M C | C | C | Cs | Vs | t M ids | pl G w tf p t | pl G w tf p t | pl G w tf p t | Hh nb nt | Hh nb nt nbest]; cbn; try exact I.
  - apply lveq_Ex, lin_vec_proper, V.
  - constructor; [cbn; apply normsq_vec_proper, V | apply lveq_Ex, lin_vec_proper, V].
  - constructor; [cbn; apply normsq_vec_proper, V | constructor].
  - constructor; [cbn; apply normsq_vec_proper, V | constructor].
  - apply lveq_map_Sq. intros C _. apply normsq_vec_proper, V.
  - apply lveq_map_Ex. intros W _. apply l1_vec_proper, V.
  - apply lveq_Ex, fam_vec_proper, H.
Qed.

Lemma latent_scale_invariant n fd a x : 0 < a -> guard_eps <= Qabs' (qsum x) -> guard_eps <= Qabs' (qsum (map (Qmult a) x)) ->
  res_eq (latent n fd (DVec (map (Qmult a) x))) (latent n fd (DVec x)).
Proof.
  intros Ha H1 H2. destruct (has_vec fd) eqn:Hv.
  - rewrite !latent_vec by exact Hv. destruct (contrib_of_scale (guarded_of fd) a x Ha H1 H2) as (c & c' & E1 & E2 & Hc).
    rewrite E1, E2. now apply vec_form_proper.
  - destruct fd; cbn in Hv; try discriminate; exact I.
Qed.

(** * the four encodings of the same parental contributions give the same latent vector *)
Definition fam_ok (fd : fdata) (s : list nat) : Prop := match fd with FFam _ _ _ => NoDup s | _ => True end.

Lemma subset_is_vec_form n fd s : has_vec fd = true -> s <> [] -> in_range n s -> fam_ok fd s ->
  res_eq (latent n fd (DSub s)) (vec_form n fd (contrib_subset n s)).
Proof.
  intros Hv Hne Hr Hf. unfold latent. destruct s as [|a s0]; [congruence|]. cbn [is_nil]. set (s := a :: s0) in *.
  destruct fd as [g t M | t M C | C | C | Cs | Vs | t M ids | pl G w tf p t | pl G w tf p t | pl G w tf p t | Hh nb nt | Hh nb nt nbest]; cbn in Hv; try discriminate; cbn [vec_form res_eq].
  - apply lveq_Ex, lin_subset_as_vec, Hr.
  - constructor; [cbn; apply normsq_subset_as_vec, Hr | apply lveq_Ex, lin_subset_as_vec, Hr].
  - constructor; [cbn; apply normsq_subset_as_vec, Hr | constructor].
  - constructor; [cbn; apply normsq_subset_as_vec, Hr | constructor].
  - apply lveq_map_Sq. intros C _. apply normsq_subset_as_vec, Hr.
  - apply lveq_map_Ex. intros V _. apply l1_subset_as_vec, Hr.
  - apply lveq_Ex, fam_subset_as_vec; [exact Hf | exact Hr].
Qed.

Lemma len_pos (s : list nat) : s <> [] -> 1 <= nq (length s).
Proof. intros H. apply nq_pos. destruct s; [congruence | cbn; lia]. Qed.
Lemma ge1_nonzero t : 1 <= t -> ~ t == 0.
Proof. intros H E. rewrite E in H. unfold Qle in H; cbn in H; lia. Qed.

Lemma contrib_of_counts g n s : s <> [] -> in_range n s ->
  exists c, contrib_of g (counts n s) = Some c /\ qleq c (contrib_subset n s).
Proof.
  intros Hne Hr. unfold contrib_of. destruct g.
  - eexists. split; [reflexivity | now apply contrib_counts].
  - pose proof (counts_total n s Hr) as Ht. pose proof (len_pos s Hne) as Hk.
    destruct (Qeq_bool (qsum (counts n s)) 0) eqn:E.
    + apply Qeq_bool_iff in E. rewrite Ht in E. exfalso. exact (ge1_nonzero _ Hk E).
    + eexists. split; [reflexivity|]. unfold contrib_raw, contrib_subset, counts in *. rewrite map_map.
      apply qleq_map_seq. intros i _. rewrite Ht. reflexivity.
Qed.

Lemma contrib_subset_total n s : s <> [] -> in_range n s -> qsum (contrib_subset n s) == 1.
Proof.
  intros Hne Hr. unfold contrib_subset.
  change (qsum (map (fun i => 1 / nq (length s) * nq (cnt i s)) (seq 0 n))) with (sumg (fun i => 1 / nq (length s) * nq (cnt i s)) (seq 0 n)).
  rewrite sumg_scale. pose proof (counts_total n s Hr) as Ht. unfold counts in Ht.
  change (sumg (fun i => nq (cnt i s)) (seq 0 n)) with (qsum (map (fun i => nq (cnt i s)) (seq 0 n))). rewrite Ht.
  field. apply ge1_nonzero, len_pos, Hne.
Qed.
Lemma contrib_of_real g n s : s <> [] -> in_range n s ->
  exists c, contrib_of g (contrib_subset n s) = Some c /\ qleq c (contrib_subset n s).
Proof.
  intros Hne Hr. pose proof (contrib_subset_total n s Hne Hr) as Ht. unfold contrib_of. destruct g.
  - eexists. split; [reflexivity|]. unfold contrib_guard. rewrite guard_sum_ge1 by (rewrite Ht; apply Qle_refl).
    rewrite <- (map_id (contrib_subset n s)) at 3. apply qleq_map. intros v _. rewrite Ht. field.
  - destruct (Qeq_bool (qsum (contrib_subset n s)) 0) eqn:E.
    + apply Qeq_bool_iff in E. rewrite Ht in E. unfold Qeq in E; cbn in E; lia.
    + eexists. split; [reflexivity|]. unfold contrib_raw. rewrite <- (map_id (contrib_subset n s)) at 3.
      apply qleq_map. intros v _. rewrite Ht. field.
Qed.

Lemma latent_encodings_agree n fd s : has_vec fd = true -> s <> [] -> in_range n s -> fam_ok fd s ->
  res_eq (latent n fd (DVec (counts n s))) (latent n fd (DSub s)) /\
  res_eq (latent n fd (DVec (contrib_subset n s))) (latent n fd (DSub s)) /\
  (NoDup s -> res_eq (latent n fd (DVec (indicator n s))) (latent n fd (DSub s))).
Proof.
  intros Hv Hne Hr Hf. pose proof (subset_is_vec_form n fd s Hv Hne Hr Hf) as Hs.
  assert (A : res_eq (latent n fd (DVec (counts n s))) (latent n fd (DSub s))).
  { rewrite latent_vec by exact Hv. destruct (contrib_of_counts (guarded_of fd) n s Hne Hr) as (c & E & Hc). rewrite E.
    eapply res_eq_trans; [apply vec_form_proper, Hc | apply res_eq_sym, Hs]. }
  split; [exact A|]. split.
  - rewrite latent_vec by exact Hv. destruct (contrib_of_real (guarded_of fd) n s Hne Hr) as (c & E & Hc). rewrite E.
    eapply res_eq_trans; [apply vec_form_proper, Hc | apply res_eq_sym, Hs].
  - intros Hd. rewrite (indicator_counts n s Hd). exact A.
Qed.

(** * evalfn *)
Lemma evalfn_def To Ti Te wo wi we x l :
  evalfn To Ti Te wo wi we x l = (map2 Qmult wo (To x l), map2 Qmult wi (Ti x l), map2 Qmult we (Te x l)).
Proof. reflexivity. Qed.
Lemma map2_nth (w v : list Q) j : (j < length w)%nat -> (j < length v)%nat -> nth j (map2 Qmult w v) 0 = nth j w 0 * nth j v 0.
Proof. revert v j. induction w as [|a w IH]; intros [|b v] [|j] H1 H2; cbn in *; try lia; try reflexivity. apply IH; lia. Qed.
Lemma map2_len (w v : list Q) : length w = length v -> length (map2 Qmult w v) = length v.
Proof. intros H. rewrite map2_length, H. apply Nat.min_id. Qed.

(** * the declared number of latent values is the length of the latent vector, for every family, encoding and input *)
Lemma latent_length n fd d v : latent n fd d = Some v -> length v = nlatent_of fd.
Proof.
  unfold latent. destruct d as [s|x].
  - destruct (is_nil s); [discriminate|]. intros E. injection E as <-.
    destruct fd; cbn [nlatent_of length]; unfold fam_subset, lin_subset, pafd, pau_code, mogs_pau_code, wsum_flags, opv_subset, gb_subset, bincount;
      cbn [length]; repeat (progress (rewrite ?map_length, ?app_length, ?seq_length)); cbn [length]; try reflexivity.
  - destruct fd; cbn [nlatent_of]; try discriminate;
      match goal with |- context [contrib_of ?g x] => destruct (contrib_of g x) end; cbn [omap]; try discriminate;
      intros E; injection E as <-; unfold fam_vec, lin_vec, bincount;
      cbn [length]; repeat (progress (rewrite ?map_length, ?app_length, ?seq_length)); cbn [length]; try reflexivity.
Qed.
