(** C08 — proofs: (1) footprint machinery (post-fixed points are sound for reachability), the table
    obligations decided by computation and lifted to the reachability relation; (2) the world-model
    theorems: reproducibility after seeding, isolation of explicit generators; (3) the concrete seed/spawn
    model as an instance. *)
From Coq Require Import List ZArith NArith PArith Bool Lia FMapPositive.
From Coq Require String.
From PV Require Import Lib.Common Gen.C08_Entropy Model.C08_World.
Import ListNotations String.StringSyntax.
Delimit Scope string_scope with string.

(* ================================================================================================ *)
(** * 1. Footprints *)
Module FPP.
Import FP.
Local Open Scope N_scope.

Lemma sub_refl a : sub a a = true.
Proof. unfold sub. rewrite N.lor_diag. apply N.eqb_refl. Qed.

Lemma sub_trans a b c : sub a b = true -> sub b c = true -> sub a c = true.
Proof.
  unfold sub. rewrite !N.eqb_eq. intros H1 H2.
  rewrite <- H2 at 1. rewrite N.lor_assoc, H1. exact H2.
Qed.

Lemma sub_zero a : sub 0 a = true.
Proof. unfold sub. rewrite N.lor_0_l. apply N.eqb_refl. Qed.

(** single bits: membership is monotone along [sub] *)
Lemma sub_testbit a b k : sub a b = true -> N.testbit a k = true -> N.testbit b k = true.
Proof.
  unfold sub. rewrite N.eqb_eq. intros H Ha. rewrite <- H, N.lor_spec, Ha. reflexivity.
Qed.

Lemma has_OS_testbit m : has OS m = N.testbit m 5.
Proof.
  unfold has, OS. change 32 with (2 ^ 5).
  destruct (N.testbit m 5) eqn:E.
  - apply negb_true_iff, N.eqb_neq. intro H.
    assert (N.testbit (N.land m (2 ^ 5)) 5 = true) by (rewrite N.land_spec, E, N.pow2_bits_true; reflexivity).
    rewrite H in H0. rewrite N.bits_0 in H0. discriminate.
  - apply negb_false_iff, N.eqb_eq. apply N.bits_inj. intro k. rewrite N.land_spec, N.bits_0.
    destruct (N.eq_dec k 5) as [->|Hk]; [now rewrite E|].
    rewrite N.pow2_bits_false by congruence. apply andb_false_r.
Qed.

Lemma sub_has_OS a b : sub a b = true -> has OS a = true -> has OS b = true.
Proof. rewrite !has_OS_testbit. apply sub_testbit. Qed.

Lemma pmem_In x l : pmem x l = true <-> In x l.
Proof.
  unfold pmem. rewrite existsb_exists. split.
  - intros [y [Hy E]]. apply Pos.eqb_eq in E. now subst.
  - intros H. exists x. split; [exact H | apply Pos.eqb_refl].
Qed.

(** ** a post-fixed point over-approximates what is reachable *)
Section Sound.
  Variable dir : positive -> N -> N.
  Variable t : table.
  Variable fp : fpmap.
  Hypothesis Hpost : postfix dir t fp = true.

  Lemma postfix_node n d s : PositiveMap.find n t = Some (d, s) ->
    sub (dir n d) (fget fp n) = true /\ forall m, In m s -> sub (fget fp m) (fget fp n) = true.
  Proof.
    intros Hf. apply PositiveMap.elements_correct in Hf.
    unfold postfix in Hpost. rewrite forallb_forall in Hpost. specialize (Hpost _ Hf). cbn in Hpost.
    apply andb_prop in Hpost as [H1 H2]. split; [exact H1|].
    rewrite forallb_forall in H2. exact H2.
  Qed.

  Lemma postfix_sound n k : reach t n k ->
    sub (match PositiveMap.find k t with Some (d, _) => dir k d | None => 0 end) (fget fp n) = true.
  Proof.
    induction 1 as [n | n m k Hin Hr IH].
    - destruct (PositiveMap.find n t) as [[d s]|] eqn:E; [|apply sub_zero].
      now destruct (postfix_node _ _ _ E).
    - unfold succs in Hin. destruct (PositiveMap.find n t) as [[d s]|] eqn:E; [|contradiction].
      destruct (postfix_node _ _ _ E) as [_ H2]. eapply sub_trans; [exact IH | now apply H2].
  Qed.
End Sound.

(** every entry of a footprint map satisfies a boolean test -> every lookup does (absent = 0) *)
Lemma fget_all (P : N -> bool) (fp : fpmap) : P 0 = true ->
  forallb (fun e => P (snd e)) (PositiveMap.elements fp) = true -> forall n, P (fget fp n) = true.
Proof.
  intros H0 H n. unfold fget. destruct (PositiveMap.find n fp) eqn:E; [|exact H0].
  apply PositiveMap.elements_correct in E. rewrite forallb_forall in H. exact (H _ E).
Qed.

(** names resolve consistently *)
Lemma ids_of_cons s t : ids_of (s :: t) = match id_of s, ids_of t with Some p, Some r => Some (p :: r) | _, _ => None end.
Proof. reflexivity. Qed.
Lemma ids_of_In l : forall ids, ids_of l = Some ids -> forall nm p, In nm l -> id_of nm = Some p -> In p ids.
Proof.
  induction l as [|s t IH]; intros ids H nm p Hin Hid; [contradiction|].
  rewrite ids_of_cons in H. destruct (id_of s) as [q|] eqn:Es; [|discriminate]. destruct (ids_of t) as [r|] eqn:Et; [|discriminate].
  inversion H; subst. destruct Hin as [->|Hin].
  - rewrite Es in Hid. inversion Hid. now left.
  - right. eapply IH; eauto.
Qed.

(** ** obligations decided on the regenerated table *)
Lemma table_wellformed : PositiveMap.cardinal tbl = length nodes /\ N.of_nat (length nodes) = node_count.
Proof. split; vm_compute; reflexivity. Qed.

Lemma roots_resolved : ids_of root_names = Some root_ids /\ True
  /\ ids_of must_be_explicit = Some must_ids /\ ids_of global_by_design = Some global_ids.
Proof. repeat split; vm_compute; reflexivity. Qed.
Lemma repaired_resolved : ids_of repaired = Some repaired_ids.
Proof. vm_compute; reflexivity. Qed.

Lemma post_full : postfix dir_full tbl fp_full = true. Proof. vm_compute. reflexivity. Qed.
Lemma post_excl : postfix dir_excl tbl fp_excl = true. Proof. vm_compute. reflexivity. Qed.

(** anchored components: explicit-only, and they do use a generator.  The hill climber calls back into the
    problem object (any [evalfn] of the package is linked): for it the named root causes are blanked. *)
Definition via_callback : list String.string :=
  ["opt.algo.SteepestDescentSubsetHillClimber.SteepestDescentSubsetHillClimber.minimize"%string;
   "opt.algo.BinaryGeneticAlgorithm.BinaryGeneticAlgorithm.minimize"%string;
   "opt.algo.IntegerGeneticAlgorithm.IntegerGeneticAlgorithm.minimize"%string;
   "opt.algo.RealGeneticAlgorithm.RealGeneticAlgorithm.minimize"%string;
   "opt.algo.NSGA2BinaryGeneticAlgorithm.NSGA2BinaryGeneticAlgorithm.minimize"%string;
   "opt.algo.NSGA2IntegerGeneticAlgorithm.NSGA2IntegerGeneticAlgorithm.minimize"%string;
   "opt.algo.NSGA2RealGeneticAlgorithm.NSGA2RealGeneticAlgorithm.minimize"%string;
   "opt.algo.SubsetGeneticAlgorithm.SubsetGeneticAlgorithm.minimize"%string;
   "opt.algo.NSGA2SubsetGeneticAlgorithm.NSGA2SubsetGeneticAlgorithm.minimize"%string;
   "opt.algo.NSGA3SubsetGeneticAlgorithm.NSGA3SubsetGeneticAlgorithm.minimize"%string;
   "opt.algo.NSGA2MemeticSubsetGeneticAlgorithm.NSGA2MutatorASubsetGeneticAlgorithm.minimize"%string;
   "opt.algo.NSGA2MemeticSubsetGeneticAlgorithm.NSGA2MutatorBSubsetGeneticAlgorithm.minimize"%string;
   "opt.algo.NSGA2MemeticSubsetGeneticAlgorithm.NSGA2SteepestDescentSubsetGeneticAlgorithm.minimize"%string;
   "opt.algo.NSGA2MemeticSubsetGeneticAlgorithm.NSGA2StochasticDescentSubsetGeneticAlgorithm.minimize"%string;
   (* a memetic operator that evaluates the problem object through problem._evaluate (any _evaluate of the package is linked) *)
   "opt.algo.pymoo_addon.MultiObjectiveStochasticHillClimberMutation.hillclimb"%string;
   "opt.algo.pymoo_addon.MultiObjectiveStochasticHillClimberMutation._do"%string;
   (* selection protocols: select() solves an arbitrary problem object with an arbitrary optimiser *)
   "breed.prot.sel.BinaryMateSelectionProtocol.BinaryMateSelectionProtocol.select"%string;
   "breed.prot.sel.BinarySelectionProtocol.BinarySelectionProtocol.select"%string;
   "breed.prot.sel.IntegerMateSelectionProtocol.IntegerMateSelectionProtocol.select"%string;
   "breed.prot.sel.IntegerSelectionProtocol.IntegerSelectionProtocol.select"%string;
   "breed.prot.sel.RealMateSelectionProtocol.RealMateSelectionProtocol.select"%string;
   "breed.prot.sel.RealSelectionProtocol.RealSelectionProtocol.select"%string;
   "breed.prot.sel.SubsetMateSelectionProtocol.SubsetMateSelectionProtocol.select"%string;
   "breed.prot.sel.SubsetSelectionProtocol.SubsetSelectionProtocol.select"%string;
   "breed.prot.sel.UnconstrainedGeneralized1NormGenomicSelection.Generalized1NormGenomicSelection.select"%string].
Definition via_callback_ids : list positive := Eval vm_compute in opt_list (ids_of via_callback).

Lemma must_check : forallb (fun p => (if pmem p via_callback_ids then sub (fget fp_excl p) EXPLICIT_OK else sub (fget fp_full p) EXPLICIT_OK)
                                      && negb (fget fp_excl p =? 0)) must_ids = true.
Proof. vm_compute. reflexivity. Qed.

Lemma rng_components_check : forallb (fun p => sub (fget fp_excl p) EXPLICIT_OK) rng_components = true.
Proof. vm_compute. reflexivity. Qed.

Lemma dunder_check : forallb (fun p => sub (fget fp_excl p) EXPLICIT_OK) dunder_nodes = true.
Proof. vm_compute. reflexivity. Qed.

Lemma os_check : forallb (fun e => negb (has OS (snd e))) (PositiveMap.elements fp_full) = true.
Proof. vm_compute. reflexivity. Qed.

Lemma roots_real : forallb (fun p => negb (sub (direct tbl p) EXPLICIT_OK)) root_ids = true.
Proof. vm_compute. reflexivity. Qed.

Lemma global_design_check : forallb (fun p => negb (has OS (fget fp_full p)) && negb (fget fp_full p =? 0)) global_ids = true.
Proof. vm_compute. reflexivity. Qed.

Lemma rng_functions_nonempty : (100 <= length rng_functions)%nat /\ (100 <= length rng_components)%nat /\ (40 <= length must_ids)%nat.
Proof. vm_compute. repeat split; lia. Qed.

(** ** lifted to reachability in the reference graph *)
Lemma direct_find k : direct tbl k = match PositiveMap.find k tbl with Some (d, _) => d | None => 0 end.
Proof. reflexivity. Qed.

(** NO function of the package reaches OS entropy (full closure, no exception) *)
Theorem no_os_entropy : forall n k, reach tbl n k -> has OS (direct tbl k) = false.
Proof.
  intros n k Hr.
  pose proof (postfix_sound dir_full tbl fp_full post_full n k Hr) as Hs.
  assert (Hn : negb (has OS (fget fp_full n)) = true)
    by (apply (fget_all (fun x => negb (has OS x))); [reflexivity | exact os_check]).
  rewrite direct_find. destruct (PositiveMap.find k tbl) as [[d s]|]; [|reflexivity].
  unfold dir_full in Hs. destruct (has OS d) eqn:E; [|reflexivity].
  rewrite (sub_has_OS _ _ Hs E) in Hn. discriminate.
Qed.

Theorem rng_components_explicit : forall c k, In c rng_components -> reach tbl c k ->
  In k root_ids \/ sub (direct tbl k) EXPLICIT_OK = true.
Proof.
  intros c k Hc Hr.
  pose proof (postfix_sound dir_excl tbl fp_excl post_excl c k Hr) as Hs.
  pose proof rng_components_check as Hall. rewrite forallb_forall in Hall. specialize (Hall _ Hc).
  destruct (pmem k root_ids) eqn:Em; [left; now apply pmem_In|]. right.
  rewrite direct_find. destruct (PositiveMap.find k tbl) as [[d s]|]; [|apply sub_zero].
  unfold dir_excl in Hs. rewrite Em in Hs. eapply sub_trans; eauto.
Qed.

Theorem anchored_explicit : forall nm p, In nm must_be_explicit -> id_of nm = Some p ->
  fget fp_excl p <> 0 /\
  forall k, reach tbl p k -> (In nm via_callback /\ In k root_ids) \/ sub (direct tbl k) EXPLICIT_OK = true.
Proof.
  intros nm p Hin Hid.
  destruct roots_resolved as (_ & _ & Hm & _).
  pose proof (ids_of_In _ _ Hm _ _ Hin Hid) as Hp.
  pose proof must_check as Hall. rewrite forallb_forall in Hall. specialize (Hall _ Hp).
  apply andb_prop in Hall as [H1 H2]. split.
  - intro E. rewrite E in H2. discriminate.
  - intros k Hr. destruct (pmem p via_callback_ids) eqn:Ev.
    + pose proof (postfix_sound dir_excl tbl fp_excl post_excl p k Hr) as Hs.
      destruct (pmem k root_ids) eqn:Em.
      * left. split; [|now apply pmem_In].
        (* p is the id of the single callback component, and names resolve injectively on this list *)
        apply pmem_In in Ev. revert Ev Hid Hin. clear.
        intros Ev Hid Hin.
        assert (Hv : ids_of via_callback = Some via_callback_ids) by (vm_compute; reflexivity).
        (* every name of must_be_explicit that resolves to an id in via_callback_ids is in via_callback *)
        assert (Hall : forallb (fun s => match id_of s with
                                         | Some q => implb (pmem q via_callback_ids) (existsb (String.eqb s) via_callback)
                                         | None => true end) must_be_explicit = true) by (vm_compute; reflexivity).
        rewrite forallb_forall in Hall. specialize (Hall _ Hin). rewrite Hid in Hall.
        assert (Hq : pmem p via_callback_ids = true) by now apply pmem_In.
        rewrite Hq in Hall. unfold implb in Hall. apply existsb_exists in Hall as [y [Hy E]].
        apply String.eqb_eq in E. now subst.
      * right. rewrite direct_find. destruct (PositiveMap.find k tbl) as [[d s]|]; [|apply sub_zero].
        unfold dir_excl in Hs. rewrite Em in Hs. eapply sub_trans; eauto.
    + right. pose proof (postfix_sound dir_full tbl fp_full post_full p k Hr) as Hs.
      rewrite direct_find. destruct (PositiveMap.find k tbl) as [[d s]|]; [|apply sub_zero].
      unfold dir_full in Hs. eapply sub_trans; eauto.
Qed.

Theorem global_by_design_os_free : forall nm p, In nm global_by_design -> id_of nm = Some p ->
  forall k, reach tbl p k -> has OS (direct tbl k) = false.
Proof.
  intros nm p Hin Hid k Hr.
  destruct roots_resolved as (_ & _ & _ & Hg).
  pose proof (ids_of_In _ _ Hg _ _ Hin Hid) as Hp.
  pose proof global_design_check as Hall. rewrite forallb_forall in Hall. specialize (Hall _ Hp).
  apply andb_prop in Hall as [H1 _]. apply negb_true_iff in H1.
  pose proof (postfix_sound dir_full tbl fp_full post_full p k Hr) as Hs.
  rewrite direct_find. destruct (PositiveMap.find k tbl) as [[d s]|]; [|reflexivity].
  unfold dir_full in Hs. destruct (has OS d) eqn:E; [|reflexivity].
  rewrite (sub_has_OS _ _ Hs E) in H1. discriminate.
Qed.

(** the known findings are real: the listed root causes do carry a forbidden source in their own body *)
Theorem roots_carry_forbidden_source : forall k, In k root_ids -> sub (direct tbl k) EXPLICIT_OK = false.
Proof.
  intros k Hk. pose proof roots_real as H. rewrite forallb_forall in H. specialize (H _ Hk).
  now apply negb_true_iff in H.
Qed.

(** ** the repaired findings: at every formerly failing site the body references explicit sources only (in particular it no
    longer passes rng = None on, no longer names numpy.random / random), it does reference a generator, and it is not on the
    exception list — full strength, no guard *)
Lemma repaired_check : forallb (fun p => sub (direct tbl p) EXPLICIT_OK && negb (direct tbl p =? 0) && negb (pmem p root_ids)
                                          && sub (fget fp_excl p) EXPLICIT_OK) repaired_ids = true.
Proof. vm_compute. reflexivity. Qed.

Lemma repaired_nonempty : (49 <= length repaired_ids)%nat.
Proof. vm_compute. lia. Qed.

Theorem repaired_sites_explicit : forall nm p, In nm repaired -> id_of nm = Some p ->
  sub (direct tbl p) EXPLICIT_OK = true /\ direct tbl p <> 0 /\ ~ In p root_ids /\
  forall k, reach tbl p k -> In k root_ids \/ sub (direct tbl k) EXPLICIT_OK = true.
Proof.
  intros nm p Hin Hid.
  pose proof (ids_of_In _ _ repaired_resolved _ _ Hin Hid) as Hp.
  pose proof repaired_check as Hall. rewrite forallb_forall in Hall. specialize (Hall _ Hp).
  apply andb_prop in Hall as [Hall H4]. apply andb_prop in Hall as [Hall H3]. apply andb_prop in Hall as [H1 H2].
  split; [exact H1|]. split.
  - intro E. rewrite E in H2. discriminate.
  - split.
    + intro Hr. apply pmem_In in Hr. rewrite Hr in H3. discriminate.
    + intros k Hr.
      pose proof (postfix_sound dir_excl tbl fp_excl post_excl p k Hr) as Hs.
      destruct (pmem k root_ids) eqn:Em; [left; now apply pmem_In|]. right.
      rewrite direct_find. destruct (PositiveMap.find k tbl) as [[d s]|]; [|apply sub_zero].
      unfold dir_excl in Hs. rewrite Em in Hs. eapply sub_trans; eauto.
Qed.

(** regression witnesses about the FORMER code: the masks the repaired sites had are not explicit-only, and with an explicit
    generator they let a global stream be touched *)
Theorem old_masks_refuted :
  sub old_selcfg_mask EXPLICIT_OK = false /\ may_touch_np true old_selcfg_mask = true /\
  sub old_global_draw_mask EXPLICIT_OK = false /\ may_touch_np true old_global_draw_mask = true /\
  sub old_setga_mask EXPLICIT_OK = false /\ may_touch_py old_setga_mask = true.
Proof. repeat split. Qed.

(** the table does distinguish a seeded from an unseeded pymoo call: the pre-repair mask of a minimize() method (OS bit set)
    is not explicit-only and would violate [os_check] — documentation of the repaired finding C08-ga-os-entropy *)
Theorem unseeded_minimize_mask_refuted : exists m, has OS m = true /\ sub m EXPLICIT_OK = false /\ m = N.lor SELF OS.
Proof. exists 34. repeat split. Qed.

Theorem dunder_explicit : forall d k, In d dunder_nodes -> reach tbl d k -> In k root_ids \/ sub (direct tbl k) EXPLICIT_OK = true.
Proof.
  intros d k Hd Hr.
  pose proof (postfix_sound dir_excl tbl fp_excl post_excl d k Hr) as Hs.
  pose proof dunder_check as Hall. rewrite forallb_forall in Hall. specialize (Hall _ Hd).
  destruct (pmem k root_ids) eqn:Em; [left; now apply pmem_In|]. right.
  rewrite direct_find. destruct (PositiveMap.find k tbl) as [[d0 s]|]; [|apply sub_zero].
  unfold dir_excl in Hs. rewrite Em in Hs. eapply sub_trans; eauto.
Qed.

(** the computed footprint of an anchored component (callback component excepted) is explicit-only *)
Lemma anchored_fp_full : forall nm p, In nm must_be_explicit -> id_of nm = Some p -> pmem p via_callback_ids = false ->
  sub (fget fp_full p) EXPLICIT_OK = true.
Proof.
  intros nm p Hin Hid Hv.
  destruct roots_resolved as (_ & _ & Hm & _).
  pose proof (ids_of_In _ _ Hm _ _ Hin Hid) as Hp.
  pose proof must_check as Hall. rewrite forallb_forall in Hall. specialize (Hall _ Hp).
  apply andb_prop in Hall as [H1 _]. now rewrite Hv in H1.
Qed.

(** with rng = None: the computed footprint of every anchored component and of every global-by-design component avoids the OS *)
Lemma anchored_os_check : forallb (fun p => negb (has OS (fget fp_full p))) (must_ids ++ global_ids) = true.
Proof. vm_compute. reflexivity. Qed.
Lemma anchored_os_free : forall nm p, In nm (must_be_explicit ++ global_by_design) -> id_of nm = Some p -> has OS (fget fp_full p) = false.
Proof.
  intros nm p Hin Hid. destruct roots_resolved as (_ & _ & Hm & Hg).
  assert (Hp : In p (must_ids ++ global_ids)).
  { apply in_or_app. apply in_app_or in Hin as [H|H]; [left; eapply ids_of_In; eauto | right; eapply ids_of_In; eauto]. }
  pose proof anchored_os_check as Hall. rewrite forallb_forall in Hall. specialize (Hall _ Hp). now apply negb_true_iff in Hall.
Qed.
End FPP.

(* ================================================================================================ *)
(** * 2. Worlds *)
Module WP.
Import W.

Lemma loc_eqb_eq a b : loc_eqb a b = true <-> a = b.
Proof.
  destruct a, b; cbn; try (split; [discriminate | intro H; discriminate]); try (split; reflexivity).
  rewrite Nat.eqb_eq. split; [intros ->; reflexivity | intros H; now inversion H].
Qed.

Lemma loc_dec (a b : loc) : {a = b} + {a <> b}.
Proof. decide equality. apply Nat.eq_dec. Qed.

Section Theorems.
  Variable G O : Type.
  Notation world := (world G).
  Notation call := (call G O).

  Lemma upd_same (w : world) l g : upd w l g l = g.
  Proof. unfold upd. assert (loc_eqb l l = true) by now apply loc_eqb_eq. now rewrite H. Qed.
  Lemma upd_other (w : world) l l' g : l <> l' -> upd w l g l' = w l'.
  Proof. unfold upd. intros H. destruct (loc_eqb l l') eqn:E; [apply loc_eqb_eq in E; contradiction | reflexivity]. Qed.

  Lemma agree_incl A B (w1 w2 : world) : incl A B -> agree B w1 w2 -> agree A w1 w2.
  Proof. intros Hi Ha l Hl. apply Ha, Hi, Hl. Qed.

  (** one step preserves agreement on the known locations and adds the written ones *)
  Lemma step_agree (c : call) A (w1 w2 : world) : respects c -> incl (reads c) A -> agree A w1 w2 ->
    fst (run c w1) = fst (run c w2) /\ agree (A ++ writes c) (snd (run c w1)) (snd (run c w2)).
  Proof.
    intros [Hframe Hdet] Hinc Hag.
    destruct (Hdet w1 w2 (agree_incl _ _ _ _ Hinc Hag)) as [Ho Hw]. split; [exact Ho|].
    intros l Hl. destruct (in_dec loc_dec l (writes c)) as [Hin|Hnin]; [now apply Hw|].
    rewrite !Hframe by assumption. apply in_app_or in Hl as [Hl|Hl]; [now apply Hag | contradiction].
  Qed.

  Lemma prog_agree : forall (p : list call) A (w1 w2 : world), Forall (respects) p -> scoped A p -> agree A w1 w2 ->
    fst (run_prog p w1) = fst (run_prog p w2) /\
    agree (known_after A p) (snd (run_prog p w1)) (snd (run_prog p w2)).
  Proof.
    induction p as [|c t IH]; intros A w1 w2 HF Hsc Hag; cbn.
    - split; [reflexivity | exact Hag].
    - inversion HF as [|? ? Hc Ht]; subst. cbn in Hsc. destruct Hsc as (Hinc & _ & _ & Hsc).
      destruct (step_agree c A w1 w2 Hc Hinc Hag) as [Ho Hw].
      destruct (run c w1) as [o1 w1'] eqn:E1. destruct (run c w2) as [o2 w2'] eqn:E2. cbn in Ho, Hw. subst o2.
      specialize (IH (A ++ writes c) w1' w2' Ht Hsc Hw). destruct IH as [IHo IHw].
      destruct (run_prog t w1') as [os1 w1'']. destruct (run_prog t w2') as [os2 w2'']. cbn in *.
      split; [now f_equal | exact IHw].
  Qed.

  Variable py_of_seed np_of_seed : Z -> G.
  Variable out_unit : O.
  Notation seed_call := (seed_call py_of_seed np_of_seed out_unit).

  Lemma seed_respects s : respects (seed_call s).
  Proof.
    split.
    - intros w l Hl. cbn in *. rewrite !upd_other; [reflexivity| |]; intro E; subst; apply Hl; cbn; auto.
    - intros w1 w2 _. split; [reflexivity|]. intros l Hl. cbn in *.
      destruct Hl as [<-|[<-|[]]].
      + rewrite !upd_other by discriminate. now rewrite !upd_same.
      + now rewrite !upd_same.
  Qed.

  (** SEEDED RUNS ARE REPRODUCIBLE: after seed(s), the outputs of any program whose footprints stay inside what
      the seed (and the program itself) determined — in particular avoid the OS — and the final state of every
      location the program knows about, do not depend on the world before seeding. *)
  Theorem seeded_reproducible : forall (p : list call) (s : Z) (w1 w2 : world),
    Forall (respects) p -> scoped [LPy; LNp] p ->
    fst (run_prog (seed_call s :: p) w1) = fst (run_prog (seed_call s :: p) w2) /\
    agree (known_after [LPy; LNp] p) (snd (run_prog (seed_call s :: p) w1)) (snd (run_prog (seed_call s :: p) w2)).
  Proof.
    intros p s w1 w2 HF Hsc.
    assert (Hres : Forall (respects) (seed_call s :: p)) by (constructor; [apply seed_respects | exact HF]).
    assert (Hs : scoped [] (seed_call s :: p)).
    { cbn. split; [intros ? []|]. split; [intros []|]. split; [intros [H|[H|[]]]; discriminate|]. exact Hsc. }
    destruct (prog_agree (seed_call s :: p) [] w1 w2 Hres Hs) as [H1 H2]; [intros l []|].
    split; [exact H1 | exact H2].
  Qed.

  (** EXPLICIT GENERATORS ARE ISOLATED *)
  Theorem explicit_isolated : forall (c : call) (i : nat), respects c ->
    incl (reads c) [LEx i] -> incl (writes c) [LEx i] -> isolated c i.
  Proof.
    intros c i [Hframe Hdet] Hr Hw w. repeat split.
    - apply Hframe. intro H. apply Hw in H. destruct H as [H|[]]; discriminate.
    - apply Hframe. intro H. apply Hw in H. destruct H as [H|[]]; discriminate.
    - assert (Hag : agree (reads c) w' w).
      { intros l Hl. apply Hr in Hl. destruct Hl as [<-|[]]. exact H. }
      now destruct (Hdet w' w Hag).
    - assert (Hag : agree (reads c) w' w).
      { intros l Hl. apply Hr in Hl. destruct Hl as [<-|[]]. exact H. }
      destruct (Hdet w' w Hag) as [_ Hwr].
      destruct (in_dec loc_dec (LEx i) (writes c)) as [Hin|Hnin]; [now apply Hwr|].
      rewrite !Hframe by assumption. exact H.
  Qed.
End Theorems.

(** the static footprint of an explicit-only component, handed generator i, is at most {generator i} *)
Lemma locs_explicit m i : FP.sub m FP.EXPLICIT_OK = true -> incl (locs_of (Some i) m) [LEx i].
Proof.
  intros H.
  assert (Hbits : FP.has FP.PY m = false /\ FP.has FP.NP m = false /\ FP.has FP.OS m = false /\ FP.has FP.DROPS m = false).
  { unfold FP.sub, FP.EXPLICIT_OK in H. apply N.eqb_eq in H.
    assert (Hb : forall k, (3 <= k)%N -> N.testbit m k = false).
    { intros k Hk. assert (E : N.testbit (N.lor m 7) k = N.testbit 7 k) by now rewrite H.
      rewrite N.lor_spec in E. replace (N.testbit 7 k) with false in E; [now apply orb_false_iff in E|].
      symmetry. apply N.bits_above_log2. change (N.log2 7) with 2%N. lia. }
    assert (Hbit : forall k, (3 <= k)%N -> FP.has (2 ^ k) m = false).
    { intros k Hk. unfold FP.has. apply negb_false_iff, N.eqb_eq, N.bits_inj. intro j. rewrite N.land_spec, N.bits_0.
      destruct (N.eq_dec j k) as [->|Hj]; [now rewrite Hb|]. rewrite N.pow2_bits_false by congruence. apply andb_false_r. }
    repeat split; [apply (Hbit 4%N) | apply (Hbit 3%N) | apply (Hbit 5%N) | apply (Hbit 6%N)]; lia. }
  destruct Hbits as (Hpy & Hnp & Hos & Hdr).
  unfold locs_of, FP.may_touch_np. rewrite Hpy, Hnp, Hos, Hdr. cbn.
  unfold FP.may_touch_ex. cbn. destruct (FP.has FP.PARAM m || FP.has FP.SELF m); cbn; intros l Hl; [exact Hl | contradiction].
Qed.

(** OS entropy does break reproducibility: a call that reads the OS location (as pymoo's default_rng(None) does)
    can answer differently after the same seed *)
Definition os_call : call Z Z := mkcall [LOs] [LOs] (fun w => (w LOs, upd w LOs (w LOs + 1)%Z)).
Lemma os_call_respects : respects os_call.
Proof.
  split.
  - intros w l Hl. cbn in *. unfold upd. destruct (loc_eqb LOs l) eqn:E; [|reflexivity].
    apply loc_eqb_eq in E. subst. exfalso. apply Hl. now left.
  - intros w1 w2 Hag. assert (E : w1 LOs = w2 LOs) by (apply Hag; now left). cbn. split; [exact E|].
    intros l [<-|[]]. unfold upd. cbn. now rewrite E.
Qed.
Theorem os_entropy_not_reproducible : exists (c : call Z Z) (w1 w2 : world Z) (s : Z), respects c /\
  fst (run_prog (seed_call (fun s => s) (fun s => s) 0%Z s :: [c]) w1) <>
  fst (run_prog (seed_call (fun s => s) (fun s => s) 0%Z s :: [c]) w2).
Proof.
  exists os_call, (fun _ => 0%Z), (fun l => match l with LOs => 1%Z | _ => 0%Z end), 7%Z.
  split; [exact os_call_respects|]. cbn. intro H. discriminate.
Qed.

(** the FORMER behaviour of the repaired components (explicit generator AND the global numpy stream) respects its footprint
    {generator i, numpy} but is NOT isolated: it advances the global stream, and its output depends on it *)
Lemma old_global_draw_respects {G O} (next : G -> G) (pairO : G -> G -> O) i : respects (old_global_draw_call next pairO i).
Proof.
  split.
  - intros w l Hl. cbn in *.
    assert (H1 : LEx i <> l) by (intro E; apply Hl; now left).
    assert (H2 : LNp <> l) by (intro E; apply Hl; right; now left).
    rewrite !upd_other by assumption. reflexivity.
  - intros w1 w2 Hag.
    assert (E1 : w1 (LEx i) = w2 (LEx i)) by (apply Hag; now left).
    assert (E2 : w1 LNp = w2 LNp) by (apply Hag; right; now left).
    cbn. rewrite E1, E2. split; [reflexivity|].
    intros l [<-|[<-|[]]].
    + rewrite (upd_other _ (upd w1 (LEx i) _) LNp (LEx i)), (upd_other _ (upd w2 (LEx i) _) LNp (LEx i)) by discriminate.
      now rewrite !upd_same.
    + now rewrite !upd_same.
Qed.
Theorem old_global_draw_not_isolated : exists (c : call Z Z) (i : nat), respects c /\ ~ isolated c i.
Proof.
  exists (old_global_draw_call (fun g => g + 1)%Z (fun a b => a + 2 * b)%Z 0), 0%nat.
  split; [apply old_global_draw_respects|].
  intro H. destruct (H (fun _ => 0%Z)) as (_ & Hnp & _). cbn in Hnp. discriminate.
Qed.

(** ** the concrete seeding interface is an instance *)
Definition mt_py (s : Z) : option MT.st := match MT.prng_seed s with Some (py, _) => Some py | None => None end.
Definition mt_np (s : Z) : option MT.st := match MT.prng_seed s with Some (_, np) => Some np | None => None end.

(** spawn(): one new stream, seeded from the python stream, stored at explicit slot i.
    Output = the integer handed to the bit generator; the new generator state is represented by that integer. *)
Definition spawn_call (sbits : Z) (i : nat) : call (option MT.st) (option Z) :=
  mkcall [LPy] [LPy; LEx i]
    (fun w => match w LPy with
              | Some py => match MT.randint 0 (2 ^ sbits - 1) py with
                           | Some (x, py1) => (Some x, upd (upd w LPy (Some py1)) (LEx i) (Some (MT.mk [x] 0)))
                           | None => (None, upd (upd w LPy None) (LEx i) None)
                           end
              | None => (None, upd (upd w LPy None) (LEx i) None)
              end).
Lemma spawn_respects sbits i : respects (spawn_call sbits i).
Proof.
  split.
  - intros w l Hl. cbn in *.
    assert (H1 : LPy <> l) by (intro E; apply Hl; now left).
    assert (H2 : LEx i <> l) by (intro E; apply Hl; right; now left).
    destruct (w LPy) as [py|]; [destruct (MT.randint 0 (2 ^ sbits - 1) py) as [[x py1]|]|]; cbn;
      rewrite !upd_other by assumption; reflexivity.
  - intros w1 w2 Hag. assert (E : w1 LPy = w2 LPy) by (apply Hag; now left). cbn. rewrite E.
    destruct (w2 LPy) as [py|]; [destruct (MT.randint 0 (2 ^ sbits - 1) py) as [[x py1]|]|]; cbn; (split; [reflexivity|]);
      intros l [<-|[<-|[]]]; try (rewrite !upd_other by discriminate); rewrite ?upd_same; try reflexivity;
      rewrite !upd_other by discriminate; now rewrite !upd_same.
Qed.

(** a stochastic component handed generator i (any semantics [f] on that generator's state) *)
Definition explicit_call {G O} (i : nat) (f : G -> O * G) : call G O :=
  mkcall [LEx i] [LEx i] (fun w => let '(o, g) := f (w (LEx i)) in (o, upd w (LEx i) g)).
Lemma explicit_call_respects {G O} i (f : G -> O * G) : respects (explicit_call i f).
Proof.
  split.
  - intros w l Hl. cbn in *. destruct (f (w (LEx i))) as [o g]. cbn. apply upd_other. intro E. apply Hl. now left.
  - intros w1 w2 Hag. assert (E : w1 (LEx i) = w2 (LEx i)) by (apply Hag; now left). cbn. rewrite E.
    destruct (f (w2 (LEx i))) as [o g]. cbn. split; [reflexivity|]. intros l [<-|[]]. now rewrite !upd_same.
Qed.
(** a component run with rng = None: reads and advances numpy's global stream *)
Definition global_call {G O} (f : G -> O * G) : call G O :=
  mkcall [LNp] [LNp] (fun w => let '(o, g) := f (w LNp) in (o, upd w LNp g)).
Lemma global_call_respects {G O} (f : G -> O * G) : respects (global_call f).
Proof.
  split.
  - intros w l Hl. cbn in *. destruct (f (w LNp)) as [o g]. cbn. apply upd_other. intro E. apply Hl. now left.
  - intros w1 w2 Hag. assert (E : w1 LNp = w2 LNp) by (apply Hag; now left). cbn. rewrite E.
    destruct (f (w2 LNp)) as [o g]. cbn. split; [reflexivity|]. intros l [<-|[]]. now rewrite !upd_same.
Qed.

(** anchored component + any semantics that respects its computed footprint  =>  isolated *)
Theorem anchored_isolated : forall nm p, In nm FP.must_be_explicit -> FP.id_of nm = Some p -> FP.pmem p FPP.via_callback_ids = false ->
  forall (G O : Type) (i : nat) (c : call G O), respects c ->
    incl (reads c) (locs_of (Some i) (FP.fget FP.fp_full p)) -> incl (writes c) (locs_of (Some i) (FP.fget FP.fp_full p)) ->
    isolated c i.
Proof.
  intros nm p Hin Hid Hv G O i c Hres Hr Hw.
  pose proof (locs_explicit _ i (FPP.anchored_fp_full nm p Hin Hid Hv)) as Hl.
  apply explicit_isolated; [exact Hres | |]; eapply incl_tran; eauto.
Qed.

(** a well-scoped example program: spawn a stream, hand it to a component, then run a component on the global stream *)
Lemma example_program (f g : option MT.st -> option Z * option MT.st) :
  let p := [spawn_call 64 0; explicit_call 0 f; global_call g] in
  Forall respects p /\ scoped [LPy; LNp] p.
Proof.
  cbn. split.
  - constructor; [apply spawn_respects|]. constructor; [apply explicit_call_respects|]. constructor; [apply global_call_respects|]. constructor.
  - cbn. repeat split; try (intros [H|H]; [discriminate | destruct H as [H|H]; [discriminate | contradiction]]);
      try (intros [H|[]]; discriminate); intros l [<-|[]]; cbn; auto.
Qed.

(** *** programs of OS-free components run with rng = None *)
(** with rng = None a footprint without the OS bit touches at most the two global streams *)
Lemma locs_default_os_free m : FP.has FP.OS m = false -> incl (locs_of None m) [LPy; LNp].
Proof.
  intros H. unfold locs_of. rewrite H. cbn.
  destruct (FP.has FP.PY m); destruct (FP.may_touch_np false m); cbn; intros l Hl; cbn in *; intuition.
Qed.

Definition global_only {G O} (c : call G O) : Prop := incl (reads c) [LPy; LNp] /\ incl (writes c) [LPy; LNp].

Lemma global_only_scoped {G O} : forall (p : list (call G O)) A, incl [LPy; LNp] A -> Forall global_only p -> scoped A p.
Proof.
  induction p as [|c t IH]; intros A HA HF; cbn; [exact I|].
  inversion HF as [|? ? [Hr Hw] Ht]; subst.
  split; [eapply incl_tran; eauto|]. split; [intro H; apply Hr in H; destruct H as [H|[H|[]]]; discriminate|].
  split; [intro H; apply Hw in H; destruct H as [H|[H|[]]]; discriminate|].
  apply IH; [|exact Ht]. intros l Hl. apply in_or_app. left. now apply HA.
Qed.

(** the statically derived footprint of an OS-free component, with rng = None *)
Definition os_free_default {G O} (c : call G O) : Prop :=
  exists m, FP.has FP.OS m = false /\ incl (reads c) (locs_of None m) /\ incl (writes c) (locs_of None m).

Theorem os_free_programs_reproducible : forall (G O : Type) (py_of_seed np_of_seed : Z -> G) (out_unit : O)
    (p : list (call G O)) (s : Z) (w1 w2 : world G),
  Forall respects p -> Forall os_free_default p ->
  fst (run_prog (seed_call py_of_seed np_of_seed out_unit s :: p) w1) = fst (run_prog (seed_call py_of_seed np_of_seed out_unit s :: p) w2).
Proof.
  intros G O py np u p s w1 w2 HF HO.
  apply (seeded_reproducible G O py np u p s w1 w2 HF).
  apply global_only_scoped; [apply incl_refl|].
  eapply Forall_impl; [|exact HO]. intros c (m & Hm & Hr & Hw).
  pose proof (locs_default_os_free m Hm) as Hl. split; eapply incl_tran; eauto.
Qed.

(** spawn(): every stream seed lies in [0, 2^sbits - 1] and one is produced per requested stream *)
Lemma randbelow_loop_range fuel n k s r s' : MT.randbelow_loop fuel n k s = Some (r, s') -> (r < n)%Z.
Proof.
  revert s. induction fuel as [|f IH]; intros s H; cbn in H; [discriminate|].
  destruct (MT.getrandbits k s) as [x s1]. destruct (x <? n)%Z eqn:E; [|now apply IH in H].
  inversion H; subst. now apply Z.ltb_lt.
Qed.
Lemma spawn_ints_spec : forall n sbits py l py', MT.spawn_ints n sbits py = Some (l, py') ->
  length l = n /\ Forall (fun x => (x <= 2 ^ sbits - 1)%Z) l.
Proof.
  induction n as [|n IH]; intros sbits py l py' H; cbn in H.
  - inversion H; subst. split; [reflexivity | constructor].
  - unfold MT.randint, MT.randbelow in H.
    destruct (MT.randbelow_loop 200 (2 ^ sbits - 1 - 0 + 1) (MT.bit_length (2 ^ sbits - 1 - 0 + 1)) py) as [[r py1]|] eqn:E; [|discriminate].
    destruct (MT.spawn_ints n sbits py1) as [[l' py2]|] eqn:E2; [|discriminate].
    inversion H; subst. destruct (IH _ _ _ _ E2) as [Hlen Hall]. split; [cbn; now rewrite Hlen|].
    constructor; [|exact Hall]. apply randbelow_loop_range in E. lia.
Qed.

(** a call that is some anchored / global-by-design component run with rng = None, with any semantics inside its computed footprint *)
Definition library_default_call {G O} (c : call G O) : Prop :=
  exists nm p, In nm (FP.must_be_explicit ++ FP.global_by_design) /\ FP.id_of nm = Some p /\
    incl (reads c) (locs_of None (FP.fget FP.fp_full p)) /\ incl (writes c) (locs_of None (FP.fget FP.fp_full p)).

Theorem library_programs_reproducible : forall (G O : Type) (py_of_seed np_of_seed : Z -> G) (out_unit : O)
    (p : list (call G O)) (s : Z) (w1 w2 : world G),
  Forall respects p -> Forall library_default_call p ->
  fst (run_prog (seed_call py_of_seed np_of_seed out_unit s :: p) w1) = fst (run_prog (seed_call py_of_seed np_of_seed out_unit s :: p) w2).
Proof.
  intros G O py np u p s w1 w2 HF HL. apply os_free_programs_reproducible; [exact HF|].
  eapply Forall_impl; [|exact HL]. intros c (nm & pid & Hin & Hid & Hr & Hw).
  exists (FP.fget FP.fp_full pid). split; [now apply (FPP.anchored_os_free nm)|]. split; assumption.
Qed.

Lemma example_library_call {G O} (g : G -> O * G) : library_default_call (global_call g).
Proof.
  exists "core.random.sampling.tiled_choice"%string. eexists. split; [apply in_or_app; left|].
  - unfold FP.must_be_explicit. repeat (try (left; reflexivity); right).
  - split; [vm_compute; reflexivity|]. split; vm_compute; intros l H; exact H.
Qed.
End WP.
