(** C05 — lemmas about Model/C05_Factory.v: factory data follow the population's taxon order (equivariance under
    a re-ordering of the taxa), the optimal haploid value of a cross is the optimal population value of its parents. *)
From Coq Require Import Permutation Setoid Morphisms.
From PV Require Import Lib.Common Model.C05_Latent Model.C05_Factory Proofs.C05_Latent.
Local Open Scope Q_scope.

(** the population with its taxa re-ordered: new taxon i is old taxon (nth i pi) *)
Definition reorder_taxa (pi : list nat) (hap : list (list (list Z))) : list (list (list Z)) :=
  map (fun Hm => map (fun k => nth k Hm []) pi) hap.

Lemma nth_map_default {A B} (f : A -> B) (l : list A) (d : A) (e : B) i : (i < length l)%nat -> nth i (map f l) e = f (nth i l d).
Proof. revert i; induction l as [|a l IH]; intros [|i] H; cbn in *; try lia; [reflexivity | apply IH; lia]. Qed.

Lemma hapget_reorder pi Hm i j : (i < length pi)%nat -> hapget (map (fun k => nth k Hm []) pi) i j = hapget Hm (nth i pi 0%nat) j.
Proof. intros H. unfold hapget. now rewrite (nth_map_default (fun k => nth k Hm []) pi 0%nat [] i H). Qed.

Lemma dosage_reorder pi hap i j : (i < length pi)%nat -> dosage (reorder_taxa pi hap) i j = dosage hap (nth i pi 0%nat) j.
Proof.
  intros H. unfold dosage, reorder_taxa. rewrite map_map. f_equal. apply map_ext. intros Hm. now apply hapget_reorder.
Qed.

Lemma nth_map_seq_list {A} (f : nat -> A) (d : A) n i : (i < n)%nat -> nth i (map f (seq 0 n)) d = f i.
Proof.
  intros H. rewrite (nth_indep _ d (f 0%nat)) by (now rewrite map_length, seq_length).
  rewrite (map_nth f). now rewrite seq_nth by exact H.
Qed.

(** breeding values computed for a re-ordered population are the re-ordered breeding values *)
Lemma gebv_reorder pi hap u beta n p t : (forall i, In i pi -> (i < n)%nat) ->
  gebv_def (reorder_taxa pi hap) u beta (length pi) p t = map (fun k => nth k (gebv_def hap u beta n p t) []) pi.
Proof.
  intros Hr. unfold gebv_def at 1.
  transitivity (map (fun i => nth (nth i pi 0%nat) (gebv_def hap u beta n p t) []) (seq 0 (length pi))).
  - apply map_ext_in. intros i Hi. apply in_seq in Hi. unfold gebv_def.
    rewrite nth_map_seq_list by (apply Hr, nth_In; lia).
    apply map_ext. intros q. f_equal. unfold sumf. f_equal. apply map_ext. intros j. now rewrite dosage_reorder by lia.
  - clear Hr. induction pi as [|a pi IH]; [reflexivity|]. cbn [length seq map nth]. f_equal. rewrite <- seq_shift, map_map. exact IH.
Qed.

(** haplotype block values likewise *)
Lemma haploval_reorder pi hap u bounds n t : (forall i, In i pi -> (i < n)%nat) ->
  haploval (reorder_taxa pi hap) u bounds (length pi) t = map (fun Hp => map (fun k => nth k Hp []) pi) (haploval hap u bounds n t).
Proof.
  intros Hr. unfold haploval, reorder_taxa. rewrite !map_map. apply map_ext. intros Hm.
  transitivity (map (fun i => nth (nth i pi 0%nat) (map (fun i0 => map (fun ab => map (fun q => sumf (fun j => zq (hapget Hm i0 j) * mget u j q) (seq (fst ab) (snd ab - fst ab))) (seq 0 t)) bounds) (seq 0 n)) []) (seq 0 (length pi))).
  - apply map_ext_in. intros i Hi. apply in_seq in Hi. rewrite nth_map_seq_list by (apply Hr, nth_In; lia).
    apply map_ext. intros ab. apply map_ext. intros q. unfold sumf. f_equal. apply map_ext. intros j. now rewrite hapget_reorder by lia.
  - clear Hr. induction pi as [|a pi IH]; [reflexivity|]. cbn [length seq map nth]. f_equal. rewrite <- seq_shift, map_map. exact IH.
Qed.

(** the optimal haploid value of a cross is the optimal population value (sign flipped, as a latent value) of its parents *)
Lemma ohv_is_opv H nb nt parents : Forall2 Qeq (map Qopp (ohv_row H nb nt parents)) (opv_subset H nb nt parents).
Proof.
  unfold ohv_row, opv_subset. rewrite map_map. apply qleq_map_seq. intros q _. ring.
Qed.

(** cross maps: every unordered pair once (with / without the selfs), in lexicographic order *)
Lemma pairs_unique_spec n a b : In [a; b] (pairs_unique n) <-> (a < b < n)%nat.
Proof.
  unfold pairs_unique. rewrite in_flat_map. split.
  - intros (i & Hi & Hin). apply in_map_iff in Hin as (j & E & Hj). inversion E; subst. apply in_seq in Hi, Hj. lia.
  - intros H. exists a. split; [apply in_seq; lia|]. apply in_map_iff. exists b. split; [reflexivity | apply in_seq; lia].
Qed.
Lemma pairs_any_spec n a b : In [a; b] (pairs_any n) <-> (a <= b < n)%nat.
Proof.
  unfold pairs_any. rewrite in_flat_map. split.
  - intros (i & Hi & Hin). apply in_map_iff in Hin as (j & E & Hj). inversion E; subst. apply in_seq in Hi, Hj. lia.
  - intros H. exists a. split; [apply in_seq; lia|]. apply in_map_iff. exists b. split; [reflexivity | apply in_seq; lia].
Qed.
Lemma cross_map_pairs n a b : (In [a; b] (pairs_unique n) <-> (a < b < n)%nat) /\ (In [a; b] (pairs_any n) <-> (a <= b < n)%nat).
Proof. split; [apply pairs_unique_spec | apply pairs_any_spec]. Qed.

(** * usefulness criterion: the progeny mean is the contribution-weighted mean of the parents' breeding values *)
Lemma uc_mean_nil_l bv parents q : uc_mean bv [] parents q == 0. Proof. reflexivity. Qed.
Lemma uc_mean_cons bv e epgc i parents q : uc_mean bv (e :: epgc) (i :: parents) q == e * mget bv i q + uc_mean bv epgc parents q.
Proof. unfold uc_mean. cbn [map2]. apply qsum_cons. Qed.

(** translation: adding c to every parent's breeding value adds c * (sum of the contributions) ... *)
Lemma uc_mean_shift bv bv' epgc parents q c : length epgc = length parents ->
  (forall i, In i parents -> mget bv' i q == mget bv i q + c) ->
  uc_mean bv' epgc parents q == uc_mean bv epgc parents q + c * qsum epgc.
Proof.
  revert parents. induction epgc as [|e epgc IH]; intros [|i parents] HL H; cbn in HL; try discriminate.
  - rewrite !uc_mean_nil_l. change (qsum []) with 0. ring.
  - rewrite !uc_mean_cons, qsum_cons. rewrite (H i) by (now left).
    rewrite (IH parents) by (try (injection HL as HL; exact HL); intros j Hj; apply H; now right). ring.
Qed.
(** ... so for contributions summing to one the progeny mean is a mean: it moves with the breeding values *)
Lemma uc_mean_is_mean bv bv' epgc parents q c : length epgc = length parents -> qsum epgc == 1 ->
  (forall i, In i parents -> mget bv' i q == mget bv i q + c) ->
  uc_mean bv' epgc parents q == uc_mean bv epgc parents q + c.
Proof. intros HL H1 H. rewrite (uc_mean_shift bv bv' epgc parents q c HL H), H1. ring. Qed.
(** parents with one common breeding value b: the progeny mean is b *)
Lemma uc_mean_const bv epgc parents q b : length epgc = length parents -> qsum epgc == 1 ->
  (forall i, In i parents -> mget bv i q == b) -> uc_mean bv epgc parents q == b.
Proof.
  intros HL H1 H. revert parents HL H. 
  assert (G : forall ep ps, length ep = length ps -> (forall i, In i ps -> mget bv i q == b) -> uc_mean bv ep ps q == b * qsum ep).
  { induction ep as [|e ep IH]; intros [|i ps] HL H; cbn in HL; try discriminate.
    - rewrite uc_mean_nil_l. change (qsum []) with 0. ring.
    - rewrite uc_mean_cons, qsum_cons, (H i) by (now left). rewrite (IH ps) by (try (injection HL as HL; exact HL); intros j Hj; apply H; now right). ring. }
  intros parents HL H. rewrite (G epgc parents HL H), H1. ring.
Qed.

(** uniform contributions 1/m: the plain mean *)
Lemma uc_mean_repeat bv a parents q : uc_mean bv (repeat a (length parents)) parents q == a * qsum (map (fun i => mget bv i q) parents).
Proof.
  induction parents as [|i parents IH]; cbn [length repeat map].
  - rewrite uc_mean_nil_l. change (qsum []) with 0. ring.
  - rewrite uc_mean_cons, qsum_cons, IH. ring.
Qed.
Lemma uc_mean_uniform bv parents q : parents <> [] -> uc_mean bv (uniform (length parents)) parents q == plain_mean bv parents q.
Proof.
  intros Hne. unfold uniform, plain_mean. rewrite uc_mean_repeat.
  assert (Hk : ~ nq (length parents) == 0) by (apply ge1_nonzero, len_pos, Hne). field. exact Hk.
Qed.
Lemma uniform_total m : (0 < m)%nat -> qsum (uniform m) == 1.
Proof.
  intros Hm. unfold uniform.
  assert (G : forall a k, qsum (repeat a k) == a * nq k).
  { intros a k. induction k as [|k IH]; [change (qsum (repeat a 0)) with 0; unfold nq; cbn; ring|].
    cbn [repeat]. rewrite qsum_cons, IH. unfold nq. rewrite Nat2Z.inj_succ, <- Z.add_1_r, inject_Z_plus. ring. }
  rewrite G. field. apply ge1_nonzero, nq_pos, Hm.
Qed.
(** non-uniform contributions are NOT the plain mean: three-way cross (recurrent, female, male) = (1/2, 1/4, 1/4) *)
Lemma uc_weighted_is_not_plain : ~ uc_mean [[4]; [0]; [0]] [1#2; 1#4; 1#4] [0; 1; 2]%nat 0 == plain_mean [[4]; [0]; [0]] [0; 1; 2]%nat 0.
Proof. vm_compute. discriminate. Qed.

(** the table entry and the latent vector of a usefulness-criterion problem *)
Lemma nth_map2 {A B C} (f : A -> B -> C) (la : list A) (lb : list B) (da : A) (db : B) (dc : C) x :
  (x < length la)%nat -> (x < length lb)%nat -> nth x (map2 f la lb) dc = f (nth x la da) (nth x lb db).
Proof. revert lb x. induction la as [|a la IH]; intros [|b lb] [|x] H1 H2; cbn in *; try lia; [reflexivity | apply IH; lia]. Qed.
Lemma ucmat_entry bv epgc si sigmas t xmap x q : (x < length xmap)%nat -> length sigmas = length xmap -> (q < t)%nat ->
  mget (ucmat_of bv epgc si sigmas t xmap) x q = uc_mean bv epgc (nth x xmap []) q + si * nth q (nth x sigmas []) 0.
Proof.
  intros Hx HL Hq. unfold mget, ucmat_of. rewrite (nth_map2 _ xmap sigmas [] [] []) by lia. unfold uc_row. now rewrite nth_map_seq.
Qed.
(** UC latent vector of a selection s of crosses (subset encoding):  -(1/k) sum_{x in s} (weighted mean of cross x + i * sigma_x),
    for ANY contribution vector *)
Definition uc_latent_def (bv : list (list Q)) (epgc : list Q) (si : Q) (sigmas : list (list Q)) (t : nat) (xmap : list (list nat)) (s : list nat) : list Q :=
  map (fun q => - (1 / nq (length s)) * sumf (fun x => uc_mean bv epgc (nth x xmap []) q + si * nth q (nth x sigmas []) 0) s) (seq 0 t).
Lemma uc_latent_subset bv epgc si sigmas t xmap s : length sigmas = length xmap -> in_range (length xmap) s -> s <> [] ->
  res_eq (latent (length xmap) (FLin false t (ucmat_of bv epgc si sigmas t xmap)) (DSub s)) (Some (map Ex (uc_latent_def bv epgc si sigmas t xmap s))).
Proof.
  intros HL Hr Hne. unfold latent. destruct s as [|a s0]; [congruence|]. cbn [is_nil res_eq]. set (s := a :: s0) in *.
  apply lveq_Ex. unfold lin_subset, uc_latent_def. apply qleq_map_seq. intros q Hq.
  apply Qmult_comp; [reflexivity|]. rewrite !sumf_sumg. apply sumg_ext. intros x Hx.
  rewrite ucmat_entry by (try apply Hr; try exact HL; try exact Hx; lia). reflexivity.
Qed.
(** every encoding of the same contributions gives that vector *)
Lemma uc_latent_encodings bv epgc si sigmas t xmap s : length sigmas = length xmap -> in_range (length xmap) s -> s <> [] ->
  let fd := FLin false t (ucmat_of bv epgc si sigmas t xmap) in let n := length xmap in let want := Some (map Ex (uc_latent_def bv epgc si sigmas t xmap s)) in
  res_eq (latent n fd (DSub s)) want /\ res_eq (latent n fd (DVec (counts n s))) want /\ res_eq (latent n fd (DVec (contrib_subset n s))) want /\
  (NoDup s -> res_eq (latent n fd (DVec (indicator n s))) want).
Proof.
  intros HL Hr Hne fd n want. pose proof (uc_latent_subset bv epgc si sigmas t xmap s HL Hr Hne) as S.
  destruct (latent_encodings_agree n fd s eq_refl Hne Hr I) as (A & B & C).
  split; [exact S|]. split; [eapply res_eq_trans; [exact A | exact S]|]. split; [eapply res_eq_trans; [exact B | exact S]|].
  intros Hd. eapply res_eq_trans; [exact (C Hd) | exact S].
Qed.
(** corollary: uniform contributions (two-way, dihybrid, four-way) — the plain mean of the parents *)
Lemma uc_latent_uniform bv m si sigmas t xmap s : length sigmas = length xmap -> in_range (length xmap) s -> s <> [] -> (0 < m)%nat ->
  (forall x, In x s -> length (nth x xmap []) = m) ->
  res_eq (latent (length xmap) (FLin false t (ucmat_of bv (uniform m) si sigmas t xmap)) (DSub s))
         (Some (map Ex (map (fun q => - (1 / nq (length s)) * sumf (fun x => plain_mean bv (nth x xmap []) q + si * nth q (nth x sigmas []) 0) s) (seq 0 t)))).
Proof.
  intros HL Hr Hne Hm Hlen. eapply res_eq_trans; [apply uc_latent_subset; assumption|]. cbn [res_eq]. apply lveq_Ex.
  unfold uc_latent_def. apply qleq_map_seq. intros q Hq. apply Qmult_comp; [reflexivity|]. rewrite !sumf_sumg. apply sumg_ext. intros x Hx.
  pose proof (Hlen x Hx) as E. rewrite <- E. rewrite uc_mean_uniform; [reflexivity|]. intro Z. rewrite Z in E. cbn in E. lia.
Qed.

(** * cross maps and OHV tables for any number of parents *)
Lemma xmap_from_spec unique n k : forall lo l,
  In l (xmap_from unique n k lo) <-> (length l = k /\ chain unique lo l /\ Forall (fun i => (i < n)%nat) l).
Proof.
  induction k as [|k IH]; intros lo l; cbn [xmap_from].
  - split.
    + intros [E|[]]. subst l. repeat split; constructor.
    + intros (HL & _ & _). destruct l; [now left | discriminate].
  - rewrite in_flat_map. split.
    + intros (i & Hi & Hin). apply in_map_iff in Hin as (r & E & Hr). subst l. apply in_seq in Hi. apply IH in Hr as (HL & HC & HF).
      cbn [length chain]. repeat split; [now rewrite HL | lia | exact HC | constructor; [lia | exact HF]].
    + intros (HL & HC & HF). destruct l as [|i r]; [discriminate|]. cbn [length chain] in HL, HC. destruct HC as [Hlo HC]. inversion HF; subst.
      exists i. split; [apply in_seq; lia|]. apply in_map_iff. exists r. split; [reflexivity|]. apply IH. repeat split; [lia | exact HC | assumption].
Qed.
(** the cross map of k parents lists exactly the index tuples of length k below n that increase strictly (unique parents) /
    do not decrease *)
Lemma xmap_def_spec unique n k l : In l (xmap_def unique n k) <-> (length l = k /\ chain unique 0 l /\ Forall (fun i => (i < n)%nat) l).
Proof. apply xmap_from_spec. Qed.

Lemma flat_map_singletons i (l : list nat) : map (cons i) (flat_map (fun j => map (cons j) [[]]) l) = map (fun j => [i; j]) l.
Proof. induction l as [|j l IH]; cbn; [reflexivity | now rewrite <- IH]. Qed.
Lemma flat_map_ext' {A B} (f g : A -> list B) l : (forall a, f a = g a) -> flat_map f l = flat_map g l.
Proof. intros H. induction l as [|a l IH]; cbn; [reflexivity | now rewrite H, IH]. Qed.
(** for two parents it is the pair map of the two-parent model *)
Lemma xmap_def_two n : xmap_def true n 2 = pairs_unique n /\ xmap_def false n 2 = pairs_any n.
Proof.
  unfold xmap_def, pairs_unique, pairs_any. cbn [xmap_from]. rewrite Nat.sub_0_r.
  split; apply flat_map_ext'; intros i; apply flat_map_singletons.
Qed.
Lemma ohvmat_defk_two hap u bounds n t unique : ohvmat_defk hap u bounds n t 2 unique = ohvmat_def hap u bounds n t unique.
Proof.
  unfold ohvmat_defk, ohvmat_on, ohvmat_def. destruct (xmap_def_two n) as [E1 E2]. destruct unique; [now rewrite E1 | now rewrite E2].
Qed.

(** every parent of the cross counts: an entry of the OHV row is at least ploidy * (sum over blocks of the block value) of
    ANY single phase of ANY parent in the list, and it is attained blockwise by some (phase, parent) of the list *)
Lemma qsum_le_pointwise {A} (f g : A -> Q) l : (forall a, In a l -> f a <= g a) -> qsum (map f l) <= qsum (map g l).
Proof.
  induction l as [|a l IH]; intros H; [apply Qle_refl|]. cbn [map]. rewrite !qsum_cons.
  apply Qplus_le_compat; [apply H; now left | apply IH; intros; apply H; now right].
Qed.
Lemma ohv_row_dominates H nb nt parents Hp i q : In Hp H -> In i parents -> (q < nt)%nat ->
  nq (length H) * sumf (fun b => hget Hp i b q) (seq 0 nb) <= nth q (ohv_row H nb nt parents) 0.
Proof.
  intros HH Hi Hq. unfold ohv_row.
  rewrite (nth_map_seq_list (fun q => nq (length H) * sumf (fun b => maxl (flat_map (fun Hp => map (fun i => hget Hp i b q) parents) H)) (seq 0 nb)) 0 nt q Hq).
  rewrite !(Qmult_comm (nq (length H))).
  apply Qmult_le_compat_r; [|unfold nq; change 0 with (inject_Z 0); rewrite <- Zle_Qle; lia].
  unfold sumf. apply qsum_le_pointwise. intros b _.
  set (L := flat_map (fun Hp => map (fun i => hget Hp i b q) parents) H).
  assert (IN : In (hget Hp i b q) L) by (apply in_flat_map; exists Hp; split; [exact HH | apply in_map_iff; exists i; now split]).
  assert (NE : L <> []) by (intros E; rewrite E in IN; exact IN).
  pose proof (proj1 (maxl_lub L (maxl L) NE) (Qle_refl _)) as F. rewrite Forall_forall in F. now apply F.
Qed.
