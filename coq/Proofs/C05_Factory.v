(** C05 — lemmas about Model/C05_Factory.v: factory data follow the population's taxon order (equivariance under
    a re-ordering of the taxa), the optimal haploid value of a cross is the optimal population value of its parents. *)
From Coq Require Import Permutation Setoid Morphisms.
From PV Require Import Lib.Common Model.C05_Latent Model.C05_Factory Proofs.C05_Latent.
Local Open Scope Q_scope.

(** the population with its taxa re-ordered: new taxon i is old taxon (nth i pi) *)
Definition reorder_taxa (pi : list nat) (hap : list (list (list Z))) : list (list (list Z)) :=
  map (fun Hm => map (fun k => nth k Hm []) pi) hap.

Lemma nth_map_default {A B} (f : A -> B) (l : list A) (d : A) (e : B) i : (i < length l)%nat -> nth i (map f l) e = f (nth i l d).
Proof. revert i; induction l as [|a l IH]; intros [|i] H; cbn in *; try lia; [reflexivity | apply IH; lia]. Qed.

Lemma hapget_reorder pi Hm i j : (i < length pi)%nat -> hapget (map (fun k => nth k Hm []) pi) i j = hapget Hm (nth i pi 0%nat) j.
Proof. intros H. unfold hapget. now rewrite (nth_map_default (fun k => nth k Hm []) pi 0%nat [] i H). Qed.

Lemma dosage_reorder pi hap i j : (i < length pi)%nat -> dosage (reorder_taxa pi hap) i j = dosage hap (nth i pi 0%nat) j.
Proof.
  intros H. unfold dosage, reorder_taxa. rewrite map_map. f_equal. apply map_ext. intros Hm. now apply hapget_reorder.
Qed.

Lemma nth_map_seq_list {A} (f : nat -> A) (d : A) n i : (i < n)%nat -> nth i (map f (seq 0 n)) d = f i.
Proof.
  intros H. rewrite (nth_indep _ d (f 0%nat)) by (now rewrite map_length, seq_length).
  rewrite (map_nth f). now rewrite seq_nth by exact H.
Qed.

(** breeding values computed for a re-ordered population are the re-ordered breeding values *)
Lemma gebv_reorder pi hap u beta n p t : (forall i, In i pi -> (i < n)%nat) ->
  gebv_def (reorder_taxa pi hap) u beta (length pi) p t = map (fun k => nth k (gebv_def hap u beta n p t) []) pi.
Proof.
  intros Hr. unfold gebv_def at 1.
  transitivity (map (fun i => nth (nth i pi 0%nat) (gebv_def hap u beta n p t) []) (seq 0 (length pi))).
  - apply map_ext_in. intros i Hi. apply in_seq in Hi. unfold gebv_def.
    rewrite nth_map_seq_list by (apply Hr, nth_In; lia).
    apply map_ext. intros q. f_equal. unfold sumf. f_equal. apply map_ext. intros j. now rewrite dosage_reorder by lia.
  - clear Hr. induction pi as [|a pi IH]; [reflexivity|]. cbn [length seq map nth]. f_equal. rewrite <- seq_shift, map_map. exact IH.
Qed.

(** haplotype block values likewise *)
Lemma haploval_reorder pi hap u bounds n t : (forall i, In i pi -> (i < n)%nat) ->
  haploval (reorder_taxa pi hap) u bounds (length pi) t = map (fun Hp => map (fun k => nth k Hp []) pi) (haploval hap u bounds n t).
Proof.
  intros Hr. unfold haploval, reorder_taxa. rewrite !map_map. apply map_ext. intros Hm.
  transitivity (map (fun i => nth (nth i pi 0%nat) (map (fun i0 => map (fun ab => map (fun q => sumf (fun j => zq (hapget Hm i0 j) * mget u j q) (seq (fst ab) (snd ab - fst ab))) (seq 0 t)) bounds) (seq 0 n)) []) (seq 0 (length pi))).
  - apply map_ext_in. intros i Hi. apply in_seq in Hi. rewrite nth_map_seq_list by (apply Hr, nth_In; lia).
    apply map_ext. intros ab. apply map_ext. intros q. unfold sumf. f_equal. apply map_ext. intros j. now rewrite hapget_reorder by lia.
  - clear Hr. induction pi as [|a pi IH]; [reflexivity|]. cbn [length seq map nth]. f_equal. rewrite <- seq_shift, map_map. exact IH.
Qed.

(** the optimal haploid value of a cross is the optimal population value (sign flipped, as a latent value) of its parents *)
Lemma ohv_is_opv H nb nt parents : Forall2 Qeq (map Qopp (ohv_row H nb nt parents)) (opv_subset H nb nt parents).
Proof.
  unfold ohv_row, opv_subset. rewrite map_map. apply qleq_map_seq. intros q _. ring.
Qed.

(** cross maps: every unordered pair once (with / without the selfs), in lexicographic order *)
Lemma pairs_unique_spec n a b : In [a; b] (pairs_unique n) <-> (a < b < n)%nat.
Proof.
  unfold pairs_unique. rewrite in_flat_map. split.
  - intros (i & Hi & Hin). apply in_map_iff in Hin as (j & E & Hj). inversion E; subst. apply in_seq in Hi, Hj. lia.
  - intros H. exists a. split; [apply in_seq; lia|]. apply in_map_iff. exists b. split; [reflexivity | apply in_seq; lia].
Qed.
Lemma pairs_any_spec n a b : In [a; b] (pairs_any n) <-> (a <= b < n)%nat.
Proof.
  unfold pairs_any. rewrite in_flat_map. split.
  - intros (i & Hi & Hin). apply in_map_iff in Hin as (j & E & Hj). inversion E; subst. apply in_seq in Hi, Hj. lia.
  - intros H. exists a. split; [apply in_seq; lia|]. apply in_map_iff. exists b. split; [reflexivity | apply in_seq; lia].
Qed.
Lemma cross_map_pairs n a b : (In [a; b] (pairs_unique n) <-> (a < b < n)%nat) /\ (In [a; b] (pairs_any n) <-> (a <= b < n)%nat).
Proof. split; [apply pairs_unique_spec | apply pairs_any_spec]. Qed.
