(** C04 — scale covariance of the variance statistics: multiplying the effects of one trait by c multiplies its breeding
    values by c, var_A and var_a by c^2, and leaves the Bulmer ratio (NaN branch included) unchanged for c <> 0.  No statistic
    may therefore depend on the absolute size of the effects: "exactly zero" is the only special value. *)
From Coq Require Import Lqa.
From PV Require Import Lib.Common Model.C04_Gmod Proofs.C04_Counts Proofs.C04_Linear Proofs.C04_Var Proofs.C04_Sums Proofs.C04_Genic.
Local Open Scope Q_scope.

(** ** pointwise-equal lists *)
Lemma sumQ_ext l l' : qeql l l' -> sumQ l == sumQ l'.
Proof. induction 1 as [|x y l l' E _ IH]; [reflexivity|]. rewrite !sumQ_cons. now rewrite E, IH. Qed.

Lemma qeql_length l l' : qeql l l' -> length l = length l'.
Proof. induction 1; cbn; congruence. Qed.

Lemma qeql_nth l l' : length l = length l' -> (forall i, (i < length l)%nat -> nth i l 0 == nth i l' 0) -> qeql l l'.
Proof.
  revert l'. induction l as [|x l IH]; intros [|y l'] L H; cbn in L; try discriminate; constructor.
  - apply (H 0%nat). cbn; lia.
  - apply IH; [lia|]. intros i Hi. apply (H (S i)). cbn; lia.
Qed.

Lemma qmean_ext l l' : qeql l l' -> qmean l == qmean l'.
Proof. intros E. rewrite !qmean_eq. unfold qlen. now rewrite (sumQ_ext _ _ E), (qeql_length _ _ E). Qed.

Lemma sqdev_ext m m' l l' : m == m' -> qeql l l' -> sqdev m l == sqdev m' l'.
Proof.
  intros Em E. unfold sqdev. apply sumQ_ext. induction E as [|x y l l' Exy _ IH]; cbn [map]; constructor; [|exact IH].
  now rewrite Exy, Em.
Qed.

Lemma popvar_ext l l' : qeql l l' -> popvar l == popvar l'.
Proof. intros E. unfold popvar. rewrite (sqdev_ext _ _ _ _ (qmean_ext _ _ E) E). unfold qlen. now rewrite (qeql_length _ _ E). Qed.

(** ** the variance of c * values is c^2 * variance *)
Lemma qmean_scale c l : l <> [] -> qmean (map (Qmult c) l) == c * qmean l.
Proof. intros NE. rewrite !qmean_eq. unfold qlen. rewrite map_length, sumQ_map_scale. field. now apply (qlen_nz l). Qed.

Lemma popvar_scale c l : popvar (map (Qmult c) l) == c * c * popvar l.
Proof.
  destruct l as [|x0 l0]; [cbn [map]; assert (E : popvar [] == 0) by (vm_compute; reflexivity); rewrite E; ring|].
  set (l := x0 :: l0). assert (NE : l <> []) by discriminate.
  unfold popvar, qlen. rewrite map_length. fold (qlen l).
  assert (S : sqdev (qmean (map (Qmult c) l)) (map (Qmult c) l) == c * c * sqdev (qmean l) l).
  { unfold sqdev. rewrite map_map. rewrite <- sumQ_map_scale. rewrite map_map. apply sumQ_map_ext. intros x _.
    rewrite (qmean_scale c l NE). ring. }
  rewrite S. field. now apply qlen_nz.
Qed.

(** ** trait k of U' is c times trait k of U *)
Definition col_scaled (k : nat) (c : Q) (U' U : qmat) : Prop :=
  length U' = length U /\ forall j, (j < length U)%nat -> nth k (nth j U' []) 0 == c * nth k (nth j U []) 0.

Lemma col_nth k (U : qmat) j : (j < length U)%nat -> nth j (col 0 k U) 0 = nth k (nth j U []) 0.
Proof. intros H. unfold col. now rewrite (nth_map_in (fun r => nth k r 0) [] 0). Qed.

Lemma dotQ_col_scaled k c U' U (r : list Q) : col_scaled k c U' U -> length r = length U ->
  dotQ r (col 0 k U') == c * dotQ r (col 0 k U).
Proof.
  intros [L H] Lr.
  rewrite (dotQ_bigsum r (col 0 k U') (length U)) by (rewrite ?col_length; congruence).
  rewrite (dotQ_bigsum r (col 0 k U) (length U)) by (rewrite ?col_length; congruence).
  rewrite <- bigsum_scale. apply bigsum_ext. intros j Hj.
  rewrite !col_nth by (rewrite ?L; exact Hj). rewrite (H j Hj). ring.
Qed.

(** the value matrices: column k of Z U' is c times column k of Z U *)
Lemma ncols_rows {A} p (Z : list (list A)) : ncols_ok p Z = true -> Forall (fun r => length r = p) Z.
Proof. unfold ncols_ok. rewrite forallb_forall, Forall_forall. intros H r Hr. now apply Nat.eqb_eq, H. Qed.

Lemma gebv_col_scaled g g' Z v v' k c : rows_len (g_t g) (bv_effects g) -> rows_len (g_t g') (bv_effects g') -> g_t g' = g_t g ->
  (k < g_t g)%nat -> col_scaled k c (bv_effects g') (bv_effects g) ->
  gebv_numpy g Z = Some v -> gebv_numpy g' Z = Some v' ->
  qeql (col 0 k v') (map (Qmult c) (col 0 k v)).
Proof.
  intros W W' T Hk CS E E'.
  assert (Lv : length v = length Z) by (unfold gebv_numpy in E; destruct (ncols_ok _ Z); [|discriminate]; injection E as <-; now rewrite matmul_length, qz_length).
  assert (Lv' : length v' = length Z) by (unfold gebv_numpy in E'; destruct (ncols_ok _ Z); [|discriminate]; injection E' as <-; now rewrite matmul_length, qz_length).
  assert (RZ : Forall (fun r => length r = length (bv_effects g)) Z).
  { unfold gebv_numpy in E. destruct (ncols_ok _ Z) eqn:C; [|discriminate]. now apply ncols_rows. }
  apply qeql_nth; [rewrite map_length, !col_length; congruence|]. intros i Hi. rewrite col_length, Lv' in Hi.
  rewrite (nth_map_in (Qmult c) 0 0) by (rewrite col_length; congruence).
  rewrite !col_nth by congruence.
  rewrite (gebv_numpy_entry g' Z v' i k W' E' Hi) by (rewrite T; exact Hk).
  rewrite (gebv_numpy_entry g Z v i k W E Hi Hk).
  apply dotQ_col_scaled; [exact CS|]. rewrite map_length. rewrite Forall_forall in RZ. apply RZ, nth_In, Hi.
Qed.

(** ** var_A, var_a and the Bulmer ratio of a scaled trait *)
Lemma var_A_nth g gt vA v k : (k < g_t g)%nat -> gebv_numpy g (dosage gt) = Some v -> var_A g gt = Some vA ->
  nth k vA 0 = popvar (col 0 k v) /\ length vA = g_t g.
Proof.
  intros Hk Ev EA. unfold var_A in EA. rewrite Ev in EA. injection EA as <-. split.
  - unfold qcols, cols. rewrite (nth_map_in popvar [] 0) by (now rewrite map_length, seq_length).
    rewrite (nth_map_in (fun j => col 0 j v) 0%nat []) by (now rewrite seq_length). now rewrite seq_nth.
  - unfold qcols, cols. now rewrite !map_length, seq_length.
Qed.

Lemma var_A_scaled g g' gt vA vA' k c : shaped g -> shaped g' -> g_t g' = g_t g -> (k < g_t g)%nat ->
  col_scaled k c (bv_effects g') (bv_effects g) -> var_A g gt = Some vA -> var_A g' gt = Some vA' ->
  nth k vA' 0 == c * c * nth k vA 0.
Proof.
  intros S S' T Hk CS EA EA'.
  destruct (gebv_numpy g (dosage gt)) as [v|] eqn:Ev; [|unfold var_A in EA; rewrite Ev in EA; discriminate].
  destruct (gebv_numpy g' (dosage gt)) as [v'|] eqn:Ev'; [|unfold var_A in EA'; rewrite Ev' in EA'; discriminate].
  destruct (var_A_nth g gt vA v k Hk Ev EA) as [-> _].
  assert (Hk' : (k < g_t g')%nat) by (now rewrite T).
  destruct (var_A_nth g' gt vA' v' k Hk' Ev' EA') as [-> _].
  rewrite (popvar_ext _ _ (gebv_col_scaled g g' (dosage gt) v v' k c (shaped_bv g S) (shaped_bv g' S') T Hk CS Ev Ev')).
  apply popvar_scale.
Qed.

Lemma sq_rows t (u : qmat) : rows_len t u -> rows_len t (map (map (fun x => x * x)) u).
Proof. unfold rows_len. rewrite Forall_map. intros H. eapply Forall_impl; [|exact H]. cbv beta. intros r Hr. now rewrite map_length. Qed.

Lemma var_a_length g gt arg : rows_len (g_t g) (bv_effects g) -> length (var_a g gt arg) = g_t g.
Proof. intros W. unfold var_a, var_a_of. rewrite map_length. apply vecmat_length. now apply sq_rows. Qed.

Lemma var_a_scaled g g' gt arg k c : shaped g -> shaped g' -> g_t g' = g_t g -> (k < g_t g)%nat ->
  col_scaled k c (bv_effects g') (bv_effects g) -> Forall (fun r => length r = length (bv_effects g)) (dosage gt) ->
  nth k (var_a g' gt arg) 0 == c * c * nth k (var_a g gt arg) 0.
Proof.
  intros S S' T Hk CS RZ. pose proof CS as [L H]. unfold var_a. rewrite L, T.
  set (p := length (bv_effects g)) in *. set (pl := eff_ploidy gt arg). set (fr := afreq gt p pl).
  assert (Lf : length fr = p) by (unfold fr, afreq, acount; rewrite map_length; now apply colsumsZ_len).
  rewrite (var_a_of_entry (g_t g) (bv_effects g') fr pl k) by (rewrite <- ?T, ?L; (apply shaped_bv; exact S') || assumption || (rewrite T; exact Hk)).
  rewrite (var_a_of_entry (g_t g) (bv_effects g) fr pl k) by ((apply shaped_bv; exact S) || assumption).
  rewrite L. fold p.
  setoid_replace (c * c * (inject_Z (pl * pl) * bigsum p (fun j => nth k (nth j (bv_effects g) []) 0 * nth k (nth j (bv_effects g) []) 0 * (nth j fr 0 * (1 - nth j fr 0)))))
    with (inject_Z (pl * pl) * (c * c * bigsum p (fun j => nth k (nth j (bv_effects g) []) 0 * nth k (nth j (bv_effects g) []) 0 * (nth j fr 0 * (1 - nth j fr 0))))) by ring.
  apply Qmult_comp; [reflexivity|]. rewrite <- bigsum_scale. apply bigsum_ext. intros j Hj. rewrite (H j Hj). ring.
Qed.

(** NaN (None) against NaN, a ratio against an equal ratio *)
Definition opt_qeq (a b : option Q) : Prop :=
  match a, b with Some x, Some y => x == y | None, None => True | _, _ => False end.

Lemma Qeq_bool_scale c x y : ~ c == 0 -> y == c * c * x -> Qeq_bool y 0 = Qeq_bool x 0.
Proof.
  intros Hc E. destruct (Qeq_bool x 0) eqn:B.
  - apply Qeq_bool_iff in B. apply Qeq_bool_iff. rewrite E, B. ring.
  - destruct (Qeq_bool y 0) eqn:B'; [|reflexivity]. apply Qeq_bool_iff in B'. rewrite E in B'.
    destruct (Qmult_integral _ _ B') as [X|X]; [destruct (Qmult_integral _ _ X); contradiction|].
    apply Qeq_bool_iff in X. congruence.
Qed.

Lemma bulmer_scaled g g' gt arg k c b b' : shaped g -> shaped g' -> g_t g' = g_t g -> (k < g_t g)%nat ->
  col_scaled k c (bv_effects g') (bv_effects g) -> ~ c == 0 ->
  bulmer g gt arg = Some b -> bulmer g' gt arg = Some b' -> opt_qeq (nth k b' None) (nth k b None).
Proof.
  intros S S' T Hk CS Hc EB EB'.
  destruct (var_A g gt) as [vA|] eqn:EA; [|unfold bulmer in EB; rewrite EA in EB; discriminate].
  destruct (var_A g' gt) as [vA'|] eqn:EA'; [|unfold bulmer in EB'; rewrite EA' in EB'; discriminate].
  assert (Hk' : (k < g_t g')%nat) by (now rewrite T).
  destruct (gebv_numpy g (dosage gt)) as [v|] eqn:Ev; [|unfold var_A in EA; rewrite Ev in EA; discriminate].
  destruct (gebv_numpy g' (dosage gt)) as [v'|] eqn:Ev'; [|unfold var_A in EA'; rewrite Ev' in EA'; discriminate].
  assert (RZ : Forall (fun r => length r = length (bv_effects g)) (dosage gt)).
  { unfold gebv_numpy in Ev. destruct (ncols_ok _ (dosage gt)) eqn:C; [|discriminate]. now apply ncols_rows. }
  destruct (var_A_nth g gt vA v k Hk Ev EA) as [_ LA]. destruct (var_A_nth g' gt vA' v' k Hk' Ev' EA') as [_ LA'].
  rewrite (bulmer_entry g gt arg b vA k EA EB) by (rewrite ?LA, ?var_a_length; (apply shaped_bv; exact S) || exact Hk).
  rewrite (bulmer_entry g' gt arg b' vA' k EA' EB') by (rewrite ?LA', ?var_a_length; (apply shaped_bv; exact S') || exact Hk').
  pose proof (var_A_scaled g g' gt vA vA' k c S S' T Hk CS EA EA') as VA.
  pose proof (var_a_scaled g g' gt arg k c S S' T Hk CS RZ) as Va.
  rewrite (Qeq_bool_scale c _ _ Hc Va).
  destruct (Qeq_bool (nth k (var_a g gt arg) 0) 0) eqn:B; cbn [opt_qeq]; [exact I|].
  rewrite VA, Va. field. split; [|exact Hc]. intro X. apply Qeq_bool_iff in X. congruence.
Qed.

(** the hypotheses are met: doubling the only trait of a one-marker model *)
Example col_scaled_example : col_scaled 0 2 [[2]] [[1]].
Proof. split; [reflexivity|]. intros [|j] Hj; cbn in *; [reflexivity | lia]. Qed.

Lemma variance_scaled g g' gt arg k c vA vA' : shaped g -> shaped g' -> g_t g' = g_t g -> (k < g_t g)%nat ->
  col_scaled k c (bv_effects g') (bv_effects g) -> var_A g gt = Some vA -> var_A g' gt = Some vA' ->
  nth k vA' 0 == c * c * nth k vA 0 /\ nth k (var_a g' gt arg) 0 == c * c * nth k (var_a g gt arg) 0.
Proof.
  intros S S' T Hk CS EA EA'. split; [now apply (var_A_scaled g g' gt)|].
  apply var_a_scaled; try assumption.
  destruct (gebv_numpy g (dosage gt)) as [v|] eqn:Ev; [|unfold var_A in EA; rewrite Ev in EA; discriminate].
  unfold gebv_numpy in Ev. destruct (ncols_ok _ (dosage gt)) eqn:C; [|discriminate]. now apply ncols_rows.
Qed.
