(** C02 — what a [true] answer of the map check of the correspondence shards means. *)
From Coq Require Import Reals Qreals.
From PV Require Import Lib.Common Model.C01_Meiosis Model.C02_Dist Model.C02_Check Model.C11_MapFn Proofs.C11_MapFn.

(** crossover probabilities assigned from genetic positions: exactly 1/2 at the first marker and wherever the chromosome
    label changes, within 2^-45 (1 + |x|) of the real map function of the gap elsewhere *)
Fixpoint xo_map_spec (k : mapkind) (prev : option (Z * Q)) (chr : list Z) (gen xo : list Q) : Prop :=
  match chr, gen, xo with
  | [], [], [] => True
  | c :: tc, g :: tg, x :: tx =>
      (match prev with
       | Some (c0, g0) => if (c0 =? c)%Z then (Rabs (mapfn k (Q2R (g - g0)) - Q2R x) <= Q2R (tol45 * (1 + Qabs_ x)))%R else x == 1 # 2
       | None => x == 1 # 2
       end) /\ xo_map_spec k (Some (c, g)) tc tg tx
  | _, _, _ => False
  end.

Lemma xo_map_ok_sound k : forall chr gen xo prev, xo_map_ok k prev chr gen xo = true -> xo_map_spec k prev chr gen xo.
Proof.
  induction chr as [|c tc IH]; intros [|g tg] [|x tx] prev H; cbn in H; try discriminate; cbn [xo_map_spec]; [exact I|].
  apply andb_prop in H as [H1 H2]. split; [|now apply IH].
  destruct prev as [[c0 g0]|].
  - destruct (c0 =? c)%Z; [now apply mapfn_ok_sound|now apply Qeq_bool_iff in H1].
  - now apply Qeq_bool_iff in H1.
Qed.

Theorem check_map_sound k chr gen xo : check_map k chr gen xo = true -> xo_map_spec k None chr gen xo.
Proof. apply xo_map_ok_sound. Qed.
