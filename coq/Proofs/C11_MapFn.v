(** C11 — the map functions obey their defining laws (over R), and the interval evaluator of
    Model/C11_MapFn.v encloses them (soundness of the point checks used by the correspondence shards). *)
From Coq Require Import Reals ZArith QArith Qreals Lra Lia.
From PV Require Import Model.C11_MapFn.
From Interval Require Import Specific_bigint Specific_ops Float_full Interval Xreal Basic.
Local Open Scope R_scope.

(** * Part 1: real analysis *)

(** ** Haldane *)
Lemma haldane_0 : haldane 0 = 0.
Proof. unfold haldane. rewrite Rmult_0_r, exp_0. lra. Qed.

Lemma exp_neg_le1 x : 0 <= x -> 0 < exp (- x) <= 1.
Proof.
  intros Hx. split; [apply exp_pos|]. destruct Hx as [Hx| <-]; [|rewrite Ropp_0, exp_0; lra].
  left. rewrite <- exp_0. apply exp_increasing. lra.
Qed.

Lemma haldane_range d : 0 <= d -> 0 <= haldane d < 1 / 2.
Proof. intros Hd. unfold haldane. replace (- 2 * d) with (- (2 * d)) by ring. pose proof (exp_neg_le1 (2 * d)). lra. Qed.

Lemma haldane_lt_half d : haldane d < 1 / 2.
Proof. unfold haldane. pose proof (exp_pos (- 2 * d)). lra. Qed.

Lemma haldane_incr d1 d2 : d1 < d2 -> haldane d1 < haldane d2.
Proof. intros H. unfold haldane. assert (exp (- 2 * d2) < exp (- 2 * d1)) by (apply exp_increasing; lra). lra. Qed.

Lemma haldane_limit eps : 0 < eps -> exists D, 0 <= D /\ forall d, D <= d -> 1 / 2 - eps < haldane d < 1 / 2.
Proof.
  intros He. exists (Rmax 0 (1 - ln (2 * eps) / 2)). split; [apply Rmax_l|]. intros d Hd. split; [|apply haldane_lt_half].
  pose proof (Rmax_r 0 (1 - ln (2 * eps) / 2)) as H1.
  assert (H2 : exp (- 2 * d) < 2 * eps).
  { apply Rlt_le_trans with (exp (ln (2 * eps))); [apply exp_increasing; lra | right; apply exp_ln; lra]. }
  unfold haldane. lra.
Qed.

Lemma haldane_inv_left d : haldane_inv (haldane d) = d.
Proof. unfold haldane_inv, haldane. replace (1 - 2 * ((1 - exp (- 2 * d)) / 2)) with (exp (- 2 * d)) by field. rewrite ln_exp. field. Qed.

Lemma haldane_inv_right r : r < 1 / 2 -> haldane (haldane_inv r) = r.
Proof.
  intros Hr. unfold haldane_inv, haldane. replace (- 2 * (- ln (1 - 2 * r) / 2)) with (ln (1 - 2 * r)) by field.
  rewrite exp_ln by lra. field.
Qed.

Lemma haldane_inv_nonneg r : 0 <= r < 1 / 2 -> 0 <= haldane_inv r.
Proof.
  intros [H0 H1]. unfold haldane_inv. assert (ln (1 - 2 * r) <= 0); [|lra].
  rewrite <- ln_1. destruct H0 as [H0| <-]; [left; apply ln_increasing; lra | right; f_equal; lra].
Qed.

(** ** Kosambi *)
Lemma tanh_exp x : tanh x = (1 - exp (- 2 * x)) / (1 + exp (- 2 * x)).
Proof.
  unfold tanh, sinh, cosh. replace (- 2 * x) with (- x + - x) by ring. rewrite exp_plus.
  pose proof (exp_pos x) as P. pose proof (exp_pos (- x)) as N.
  assert (E : exp x * exp (- x) = 1) by (rewrite <- exp_plus, Rplus_opp_r; apply exp_0).
  apply Rmult_eq_reg_r with (exp x + exp (- x)); [|lra]. apply Rmult_eq_reg_r with (1 + exp (- x) * exp (- x)); [|nra].
  field_simplify; [|nra|nra]. nra.
Qed.

Definition kos_e (d : R) : R := exp (- 4 * d).
Lemma kosambi_exp d : kosambi d = (1 - kos_e d) / (1 + kos_e d) / 2.
Proof. unfold kosambi, kos_e. rewrite tanh_exp. replace (- 2 * (2 * d)) with (- 4 * d) by ring. reflexivity. Qed.

Lemma frac_decr e1 e2 : 0 < e1 -> e1 < e2 -> (1 - e2) / (1 + e2) < (1 - e1) / (1 + e1).
Proof.
  intros H1 H2. apply Rmult_lt_reg_r with ((1 + e1) * (1 + e2)); [nra|]. field_simplify; [|lra|lra]. nra.
Qed.

Lemma kosambi_0 : kosambi 0 = 0.
Proof. rewrite kosambi_exp. unfold kos_e. rewrite Rmult_0_r, exp_0. lra. Qed.

Lemma kosambi_lt_half d : kosambi d < 1 / 2.
Proof.
  rewrite kosambi_exp. pose proof (exp_pos (- 4 * d)) as P. fold (kos_e d) in P.
  assert ((1 - kos_e d) / (1 + kos_e d) < 1); [|lra]. apply Rmult_lt_reg_r with (1 + kos_e d); [lra|]. field_simplify; lra.
Qed.

Lemma kosambi_range d : 0 <= d -> 0 <= kosambi d < 1 / 2.
Proof.
  intros Hd. split; [|apply kosambi_lt_half]. rewrite kosambi_exp.
  assert (P : 0 < kos_e d <= 1) by (unfold kos_e; replace (- 4 * d) with (- (4 * d)) by ring; apply exp_neg_le1; lra).
  assert (0 <= (1 - kos_e d) / (1 + kos_e d)); [|lra]. apply Rmult_le_reg_r with (1 + kos_e d); [lra|]. field_simplify; lra.
Qed.

Lemma kosambi_incr d1 d2 : d1 < d2 -> kosambi d1 < kosambi d2.
Proof.
  intros H. rewrite !kosambi_exp. assert (kos_e d2 < kos_e d1) by (apply exp_increasing; lra).
  pose proof (exp_pos (- 4 * d2)) as P. fold (kos_e d2) in P. pose proof (frac_decr _ _ P H0). lra.
Qed.

Lemma kosambi_limit eps : 0 < eps -> exists D, 0 <= D /\ forall d, D <= d -> 1 / 2 - eps < kosambi d < 1 / 2.
Proof.
  intros He. exists (Rmax 0 (1 - ln eps / 4)). split; [apply Rmax_l|]. intros d Hd. split; [|apply kosambi_lt_half].
  pose proof (Rmax_r 0 (1 - ln eps / 4)) as H1.
  assert (H2 : kos_e d < eps).
  { unfold kos_e. apply Rlt_le_trans with (exp (ln eps)); [apply exp_increasing; lra | right; apply exp_ln; lra]. }
  pose proof (exp_pos (- 4 * d)) as P. fold (kos_e d) in P. rewrite kosambi_exp.
  assert (1 - 2 * eps < (1 - kos_e d) / (1 + kos_e d)); [|lra].
  apply Rmult_lt_reg_r with (1 + kos_e d); [lra|]. field_simplify; [|lra]. nra.
Qed.

Lemma kosambi_inv_left d : kosambi_inv (kosambi d) = d.
Proof.
  unfold kosambi_inv. rewrite kosambi_exp. pose proof (exp_pos (- 4 * d)) as P. fold (kos_e d) in P.
  replace ((1 + 2 * ((1 - kos_e d) / (1 + kos_e d) / 2)) / (1 - 2 * ((1 - kos_e d) / (1 + kos_e d) / 2))) with (/ kos_e d) by (field; lra).
  rewrite ln_Rinv by exact P. unfold kos_e. rewrite ln_exp. field.
Qed.

Lemma kosambi_inv_right r : - (1 / 2) < r < 1 / 2 -> kosambi (kosambi_inv r) = r.
Proof.
  intros [H0 H1]. rewrite kosambi_exp. unfold kos_e, kosambi_inv.
  set (q := (1 + 2 * r) / (1 - 2 * r)). assert (Q : 0 < q) by (unfold q; apply Rdiv_lt_0_compat; lra).
  replace (- 4 * (ln q / 4)) with (- ln q) by field. rewrite exp_Ropp, exp_ln by exact Q.
  unfold q. field. split; [lra|]. split; lra.
Qed.

Lemma kosambi_inv_nonneg r : 0 <= r < 1 / 2 -> 0 <= kosambi_inv r.
Proof.
  intros [H0 H1]. unfold kosambi_inv. assert (0 <= ln ((1 + 2 * r) / (1 - 2 * r))); [|lra].
  rewrite <- ln_1. assert (1 <= (1 + 2 * r) / (1 - 2 * r)).
  { apply Rmult_le_reg_r with (1 - 2 * r); [lra|]. field_simplify; lra. }
  destruct H as [H|H]; [left; apply ln_increasing; lra | right; now rewrite <- H].
Qed.

(** ** both functions at once *)
Lemma mapfn_laws k :
  mapfn k 0 = 0 /\
  (forall d, 0 <= d -> 0 <= mapfn k d < 1 / 2) /\
  (forall d1 d2, d1 < d2 -> mapfn k d1 < mapfn k d2) /\
  (forall eps, 0 < eps -> exists D, 0 <= D /\ forall d, D <= d -> 1 / 2 - eps < mapfn k d < 1 / 2) /\
  (forall d, invmapfn k (mapfn k d) = d) /\
  (forall r, 0 <= r < 1 / 2 -> mapfn k (invmapfn k r) = r /\ 0 <= invmapfn k r).
Proof.
  destruct k; cbn [mapfn invmapfn].
  - split; [exact haldane_0|]. split; [exact haldane_range|]. split; [exact haldane_incr|]. split; [exact haldane_limit|].
    split; [exact haldane_inv_left|]. intros r Hr. split; [apply haldane_inv_right; lra | now apply haldane_inv_nonneg].
  - split; [exact kosambi_0|]. split; [exact kosambi_range|]. split; [exact kosambi_incr|]. split; [exact kosambi_limit|].
    split; [exact kosambi_inv_left|]. intros r Hr. split; [apply kosambi_inv_right; lra | now apply kosambi_inv_nonneg].
Qed.

(** * Part 2: the interval evaluator encloses the real functions *)
Notation cont xi x := (contains (I.convert xi) (Xreal x)).

Lemma Iz_ok z : cont (Iz z) (IZR z).
Proof. apply I.fromZ_correct. Qed.
Lemma Xdiv_real a b : b <> 0 -> Xdiv (Xreal a) (Xreal b) = Xreal (a / b).
Proof. intros H. simpl. unfold Xdiv'. now rewrite is_zero_false. Qed.
Lemma div_ok xi yi x y : y <> 0 -> cont xi x -> cont yi y -> cont (I.div prec xi yi) (x / y).
Proof. intros Hy Hx Hyi. pose proof (I.div_correct prec _ _ _ _ Hx Hyi) as C. now rewrite Xdiv_real in C. Qed.
Lemma Iq_ok q : cont (Iq q) (Q2R q).
Proof. unfold Iq, Q2R. apply div_ok; [apply not_0_IZR; discriminate | apply Iz_ok | apply Iz_ok]. Qed.
Lemma sub_ok xi yi x y : cont xi x -> cont yi y -> cont (I.sub prec xi yi) (x - y).
Proof. intros Hx Hy. exact (I.sub_correct prec _ _ _ _ Hx Hy). Qed.
Lemma add_ok xi yi x y : cont xi x -> cont yi y -> cont (I.add prec xi yi) (x + y).
Proof. intros Hx Hy. exact (I.add_correct prec _ _ _ _ Hx Hy). Qed.
Lemma mul_ok xi yi x y : cont xi x -> cont yi y -> cont (I.mul prec xi yi) (x * y).
Proof. intros Hx Hy. exact (I.mul_correct prec _ _ _ _ Hx Hy). Qed.
Lemma neg_ok xi x : cont xi x -> cont (I.neg xi) (- x).
Proof. intros Hx. exact (I.neg_correct _ _ Hx). Qed.
Lemma exp_ok xi x : cont xi x -> cont (I.exp prec xi) (exp x).
Proof. intros Hx. exact (I.exp_correct prec _ _ Hx). Qed.
Lemma ln_ok xi x : 0 < x -> cont xi x -> cont (I.ln prec xi) (ln x).
Proof.
  intros Hp Hx. pose proof (I.ln_correct prec _ _ Hx) as C. simpl in C. unfold Xln' in C.
  destruct (is_positive_spec x) as [_|H]; [exact C | lra].
Qed.

Lemma fromZ_valid_lb n : I.valid_lb (F.fromZ n).
Proof. apply I.valid_lb_real. rewrite F.fromZ_correct'. reflexivity. Qed.
Lemma fromZ_valid_ub n : I.valid_ub (F.fromZ n).
Proof. apply I.valid_ub_real. rewrite F.fromZ_correct'. reflexivity. Qed.

Lemma within_sound xi x v tol : cont xi x -> within xi v tol = true -> Rabs (x - Q2R v) <= Q2R tol.
Proof.
  intros Hx W. unfold within in W.
  pose proof (mul_ok _ _ _ _ (Iz_ok (Z.pos (Qden tol))) (sub_ok _ _ _ _ Hx (Iq_ok v))) as C.
  pose proof (I.subset_correct _ _ _ C W) as S.
  rewrite I.bnd_correct in S by (apply fromZ_valid_lb || apply fromZ_valid_ub).
  rewrite !F.fromZ_correct' in S. simpl in S. destruct S as [S1 S2].
  assert (Hd : 0 < IZR (Z.pos (Qden tol))) by (apply IZR_lt; reflexivity).
  unfold Q2R at 2. rewrite opp_IZR in S1.
  apply Rabs_le. split.
  - apply Rmult_le_reg_l with (1 := Hd). field_simplify; [|lra]. lra.
  - apply Rmult_le_reg_l with (1 := Hd). field_simplify; [|lra]. lra.
Qed.

Lemma two_ne0 : IZR 2 <> 0. Proof. lra. Qed.
Lemma four_ne0 : IZR 4 <> 0. Proof. lra. Qed.

Lemma haldane_I_ok d : cont (haldane_I d) (haldane (Q2R d)).
Proof.
  unfold haldane_I, haldane. apply div_ok; [lra| |apply Iz_ok]. apply (sub_ok _ _ 1); [apply Iz_ok|].
  replace (- 2 * Q2R d) with (IZR (-2) * Q2R d) by lra. apply exp_ok, mul_ok; [apply Iz_ok | apply Iq_ok].
Qed.

Lemma kosambi_I_ok d : cont (kosambi_I d) (kosambi (Q2R d)).
Proof.
  unfold kosambi_I. rewrite kosambi_exp. unfold kos_e. cbv zeta.
  assert (E : cont (I.exp prec (I.mul prec (Iz (-4)) (Iq d))) (exp (- 4 * Q2R d))).
  { replace (- 4 * Q2R d) with (IZR (-4) * Q2R d) by lra. apply exp_ok, mul_ok; [apply Iz_ok | apply Iq_ok]. }
  pose proof (exp_pos (- 4 * Q2R d)) as P.
  apply div_ok; [lra| |apply Iz_ok]. apply div_ok; [lra| |].
  - apply (sub_ok _ _ 1); [apply Iz_ok | exact E].
  - apply (add_ok _ _ 1); [apply Iz_ok | exact E].
Qed.

Lemma haldane_inv_I_ok r : Q2R r < 1 / 2 -> cont (haldane_inv_I r) (haldane_inv (Q2R r)).
Proof.
  intros Hr. unfold haldane_inv_I, haldane_inv. apply div_ok; [lra| |apply Iz_ok]. apply neg_ok, ln_ok; [lra|].
  apply (sub_ok _ _ 1); [apply Iz_ok|]. apply (mul_ok _ _ 2); [apply Iz_ok | apply Iq_ok].
Qed.

Lemma kosambi_inv_I_ok r : - (1 / 2) < Q2R r < 1 / 2 -> cont (kosambi_inv_I r) (kosambi_inv (Q2R r)).
Proof.
  intros Hr. unfold kosambi_inv_I, kosambi_inv. cbv zeta.
  assert (T : cont (I.mul prec (Iz 2) (Iq r)) (2 * Q2R r)) by (apply (mul_ok _ _ 2); [apply Iz_ok | apply Iq_ok]).
  apply div_ok; [lra| |apply Iz_ok]. apply ln_ok; [apply Rdiv_lt_0_compat; lra|].
  apply div_ok; [lra| |].
  - apply (add_ok _ _ 1); [apply Iz_ok | exact T].
  - apply (sub_ok _ _ 1); [apply Iz_ok | exact T].
Qed.

(** the checks the shards evaluate are sound: a [true] answer bounds the distance between the implementation's
    value and the real-valued map function *)
Lemma mapfn_ok_sound k d r : mapfn_ok k d r = true -> Rabs (mapfn k (Q2R d) - Q2R r) <= Q2R (tol45 * (1 + Qabs_ r)).
Proof. unfold mapfn_ok. apply within_sound. destruct k; [apply haldane_I_ok | apply kosambi_I_ok]. Qed.

Lemma mapfn_near_sound k d r : mapfn_near k d r = true ->
  Rabs (mapfn k (Q2R d) - Q2R r) <= Q2R (tol_near d r).
Proof. unfold mapfn_near. apply within_sound. destruct k; [apply haldane_I_ok | apply kosambi_I_ok]. Qed.

Lemma invmapfn_ok_sound k r d : - (1 / 2) < Q2R r < 1 / 2 -> invmapfn_ok k r d = true ->
  Rabs (invmapfn k (Q2R r) - Q2R d) <= Q2R (tol45 * (1 + Qabs_ d)).
Proof. intros Hr. unfold invmapfn_ok. apply within_sound. destruct k; [apply haldane_inv_I_ok; lra | now apply kosambi_inv_I_ok]. Qed.
