(** C20 — proofs, part 2: every call receives exactly what its predecessor returned (containers, mating
    configuration, miscout, and the heap itself: nothing touches the state between two calls) — for ARBITRARY
    operators and logbooks, whether or not the run fails. *)
From PV Require Import Lib.Common Model.C20_Loop.
Local Open Scope nat_scope.

(** what the programme holds between two calls: heap, the five working slots, mcfg and misc of advance() *)
Definition view := (heap * list (option loc) * loc * list (Z * Z))%type.
Definition view_of (st : pstate) : view := (p_heap st, p_work st, p_mcfg st, p_misc st).

Definition uses_mcfg (tag : Z) : bool := Z.eqb tag T_MATE || Z.eqb tag L_PSEL || Z.eqb tag L_MATE.
Definition is_log (tag : Z) : bool := Z.leb 10 tag && Z.ltb tag 20.
Definition is_mark (tag : Z) : bool := Z.eqb tag T_RESET || Z.eqb tag T_INIT.

(** the view after an event *)
Definition chain_step (v : view) (e : event) : view :=
  match v with (h, w, mc, ms) =>
    if Z.eqb (e_tag e) T_RESET then (e_hout e, e_ret e, mc, ms)
    else if Z.eqb (e_tag e) T_INIT then v
    else if is_log (e_tag e) then (e_hout e, w, mc, ms)
    else (e_hout e, fst (assign w (e_ret e)), (if Z.eqb (e_tag e) T_PSEL then e_rmcfg e else mc), e_rmisc e)
  end.
(** what a call must look like when the programme holds [v] *)
Definition chain_ok1 (v : view) (e : event) : Prop :=
  match v with (h, w, mc, ms) =>
    e_hin e = h /\
    (is_mark (e_tag e) = false ->
       (exists ws, somes w = Some ws /\ e_roots e = (if uses_mcfg (e_tag e) then ws ++ [mc] else ws))
       /\ e_dat e = snap h (e_roots e)
       /\ e_misc e = (if is_log (e_tag e) then ms else []))
  end.
Fixpoint chained (v : view) (evs : list event) : Prop :=
  match evs with [] => True | e :: t => chain_ok1 v e /\ chained (chain_step v e) t end.
Definition chain_end (v : view) (evs : list event) : view := fold_left chain_step evs v.

Lemma chained_app v a b : chained v a -> chained (chain_end v a) b -> chained v (a ++ b).
Proof.
  revert v; induction a as [|e a IH]; intros v Ha Hb; cbn in *; [exact Hb|].
  destruct Ha as [H1 H2]. split; [exact H1|]. now apply IH.
Qed.
Lemma chain_end_app v a b : chain_end v (a ++ b) = chain_end (chain_end v a) b.
Proof. unfold chain_end. now rewrite fold_left_app. Qed.

Definition cspec (f : step) : Prop :=
  forall st, match f st with
             | (st', evs, ok) => chained (view_of st) evs /\ (ok = true -> chain_end (view_of st) evs = view_of st')
             end.

Lemma cspec_ret : cspec ret_ok.
Proof. intros st; cbn. auto. Qed.
Lemma cspec_andthen f g : cspec f -> cspec g -> cspec (andthen f g).
Proof.
  intros Hf Hg st. unfold andthen. specialize (Hf st). destruct (f st) as [[st1 ev1] ok1]. destruct Hf as [C1 E1].
  destruct ok1.
  - specialize (Hg st1). destruct (g st1) as [[st2 ev2] ok2]. destruct Hg as [C2 E2]. specialize (E1 eq_refl). split.
    + apply chained_app; [exact C1|]. now rewrite E1.
    + intros Hok. rewrite chain_end_app, E1. now apply E2.
  - split; [exact C1 | discriminate].
Qed.
Lemma cspec_iter f n : cspec f -> cspec (iter n f).
Proof. intros Hf; induction n as [|n IH]; cbn [iter]; [apply cspec_ret | now apply cspec_andthen]. Qed.

Lemma cspec_tick : cspec tick.
Proof. intros st; cbn. auto. Qed.
Lemma cspec_bump : cspec bump_rep.
Proof. intros st; cbn. auto. Qed.

Lemma cspec_reset : cspec reset.
Proof.
  intros st. unfold reset. destruct (reset_slots _ _ _) as [[h' w'] ok]. cbn. unfold view_of; cbn.
  repeat split; try reflexivity. discriminate.
Qed.

Lemma cspec_initialize strict res : cspec (initialize strict res).
Proof.
  intros st. unfold initialize.
  destruct (Nat.eqb (length res) 5); cbn; unfold view_of; cbn; repeat split; try reflexivity; try discriminate.
Qed.

(** an operator call site whose flags match its tag *)
Lemma cspec_call_op tag op :
  is_mark tag = false -> is_log tag = false ->
  cspec (call_op tag op (uses_mcfg tag) (Z.eqb tag T_PSEL)).
Proof.
  intros Hm Hl st. unfold call_op. destruct (somes (p_work st)) as [ws|] eqn:Ew; [|cbn; auto].
  set (args := if uses_mcfg tag then ws ++ [p_mcfg st] else ws).
  set (r := op (p_heap st) (p_stash st) args (p_t st) (p_tmax st)).
  assert (Hr : Z.eqb tag T_RESET = false /\ Z.eqb tag T_INIT = false).
  { unfold is_mark in Hm. apply orb_false_iff in Hm. exact Hm. }
  destruct Hr as [Hr Hi].
  assert (C : chain_ok1 (view_of st)
                (mkEv tag (p_t st) (p_tmax st) 0 args (snap (p_heap st) args) [] (r_roots r) (r_mcfg r) (r_misc r) (p_heap st) (r_heap r))).
  { unfold chain_ok1, view_of; cbn. split; [reflexivity|]. intros _. rewrite Hl. repeat split.
    exists ws. split; [exact Ew | reflexivity]. }
  destruct (r_ok r).
  - destruct (assign (p_work st) (r_roots r)) as [w' ok] eqn:Ea. cbn [chained]. split; [split; [exact C | exact I]|].
    intros _. unfold chain_end, view_of; cbn. rewrite Hr, Hi, Hl, Ea. reflexivity.
  - cbn [chained]. split; [split; [exact C | exact I] | discriminate].
Qed.

Lemma cspec_call_log tag lg :
  is_mark tag = false -> is_log tag = true ->
  cspec (call_log tag lg (uses_mcfg tag)).
Proof.
  intros Hm Hl st. unfold call_log. destruct (somes (p_work st)) as [ws|] eqn:Ew; [|cbn; auto].
  destruct (misc_collides _ _); [cbn; auto|].
  set (args := if uses_mcfg tag then ws ++ [p_mcfg st] else ws).
  destruct (lg _ _ _ _ _ _ _) as [[h' s'] ok].
  assert (Hr : Z.eqb tag T_RESET = false /\ Z.eqb tag T_INIT = false).
  { unfold is_mark in Hm. apply orb_false_iff in Hm. exact Hm. }
  destruct Hr as [Hr Hi].
  cbn [chained]. split.
  - split; [|exact I]. unfold chain_ok1, view_of; cbn. split; [reflexivity|]. intros _. rewrite Hl. repeat split.
    exists ws. split; [exact Ew | reflexivity].
  - intros _. unfold chain_end, view_of; cbn. rewrite Hr, Hi, Hl. reflexivity.
Qed.

Lemma cspec_generation ops : cspec (generation ops).
Proof.
  unfold generation.
  repeat (apply cspec_andthen;
          [first [ exact (cspec_call_op T_PSEL _ eq_refl eq_refl) | exact (cspec_call_op T_MATE _ eq_refl eq_refl)
                 | exact (cspec_call_op T_EVAL _ eq_refl eq_refl) | exact (cspec_call_op T_SSEL _ eq_refl eq_refl)
                 | exact (cspec_call_log L_PSEL _ eq_refl eq_refl) | exact (cspec_call_log L_MATE _ eq_refl eq_refl)
                 | exact (cspec_call_log L_EVAL _ eq_refl eq_refl) | exact (cspec_call_log L_SSEL _ eq_refl eq_refl) ]|]).
  apply cspec_tick.
Qed.

Lemma cspec_replicate ops ngen li : cspec (replicate ops ngen li).
Proof.
  unfold replicate, advance.
  apply cspec_andthen; [apply cspec_bump|]. apply cspec_andthen; [apply cspec_reset|].
  apply cspec_andthen; [exact (cspec_call_op T_EVAL _ eq_refl eq_refl)|].
  apply cspec_andthen; [destruct li; [exact (cspec_call_log L_INIT _ eq_refl eq_refl) | apply cspec_ret]|].
  apply cspec_andthen; [apply cspec_tick|]. apply cspec_iter, cspec_generation.
Qed.

Lemma cspec_evolve ops strict initres nrep ngen li : cspec (evolve ops strict initres nrep ngen li).
Proof.
  unfold evolve. apply cspec_andthen.
  - intros st. destruct (is_initialized st); [apply cspec_ret | apply cspec_initialize].
  - apply cspec_iter, cspec_replicate.
Qed.

Lemma cspec_evolve_calls ops strict initres calls : cspec (evolve_calls ops strict initres calls).
Proof.
  induction calls as [|[[nrep ngen] li] t IH]; cbn [evolve_calls]; [apply cspec_ret|].
  apply cspec_andthen; [apply cspec_evolve | exact IH].
Qed.

Theorem calls_chained : forall ops strict initres calls st,
  chained (view_of st) (snd (fst (evolve_calls ops strict initres calls st))).
Proof.
  intros. pose proof (cspec_evolve_calls ops strict initres calls st) as H.
  destruct (evolve_calls _ _ _ _ st) as [[st' evs] ok]. exact (proj1 H).
Qed.
