(** C10 — the kernel expressions regenerated from the source (Gen/C10_Kernel.v, rewritten by harness/translate/c10_kernel.py on
    every run) are the ones the hand model is built from.  Wherever the two are convertible the lemma is closed by [reflexivity],
    so ANY change of the expression in the source (a [>=] for a [>], the branches of [numpy.where] exchanged, a rounded reciprocal for
    the quotient, another contrast, another attribute for the ploidy, another callee or argument order, another slice in the meiosis
    copy) makes this file — hence Props/C10.vo — stop compiling.  The boundary, envelope and closure statements are restated about the
    generated definitions themselves ([kernel_tests_are_counts], [kernel_brackets], [kernel_brackets_unscaled], [kernel_gamete]). *)
From Coq Require Import PrimFloat.
From PV Require Import Lib.Common Lib.FloatK Lib.FloatDivProof Model.C01_Meiosis Model.C01_Mating Model.C09_Stats Model.C10_Limits.
From PV Require Import Proofs.C01_Meiosis Proofs.C09_Stats Proofs.C10_Float Proofs.C10_Limits Gen.C10_Kernel.
Local Open Scope Z_scope.

(** * 1. availability tests and summands of usl_numpy / lsl_numpy *)
Lemma k_usl_geno_model u f : k_usl_geno u f = usl_ind u f.   Proof. reflexivity. Qed.
Lemma k_lsl_geno_model u f : k_lsl_geno u f = lsl_ind u f.   Proof. reflexivity. Qed.
Lemma k_usl_term_model ploidy x g : k_usl_term ploidy x g = (inject_Z ploidy * x * g)%Q.   Proof. reflexivity. Qed.
Lemma k_lsl_term_model ploidy x g : k_lsl_term ploidy x g = (inject_Z ploidy * x * g)%Q.   Proof. reflexivity. Qed.
(** the sum runs over axis 0 = loci (the model's [colsumsQ] over the rows of the (p x t) matrix) *)
Lemma k_sum_axis_model : k_usl_sum_axis = 0 /\ k_lsl_sum_axis = 0.   Proof. split; reflexivity. Qed.

(** the whole limit formula of the source, as generated: sum over loci of term(ploidy, u, geno(u, p)) *)
Definition gen_limit (term : Z -> Q -> Q -> Q) (geno : Q -> float -> bool) (axis : Z) (t : nat) (ploidy : Z) (u : list (list Q)) (freq : list float) : list Q :=
  if axis =? 0 then colsumsQ t (map2 (fun urow f => map (fun x => term ploidy x (b2q (geno x f))) urow) u freq)
  else map (fun urow => sumQ urow) (map2 (fun urow f => map (fun x => term ploidy x (b2q (geno x f))) urow) u freq).
Definition gen_usl_numpy := gen_limit k_usl_term k_usl_geno k_usl_sum_axis.
Definition gen_lsl_numpy := gen_limit k_lsl_term k_lsl_geno k_lsl_sum_axis.
Lemma gen_usl_numpy_model t ploidy u freq : gen_usl_numpy t ploidy u freq = usl_numpy t ploidy u freq.   Proof. reflexivity. Qed.
Lemma gen_lsl_numpy_model t ploidy u freq : gen_lsl_numpy t ploidy u freq = lsl_numpy t ploidy u freq.   Proof. reflexivity. Qed.

(** * 2. the contrast: Xstar = [1, 1/q, ..., 1/q] with q = number of rows of beta, the same in usl_numpy, lsl_numpy and gebv *)
Lemma k_nfixed_model q t : k_usl_nfixed q t = q /\ k_lsl_nfixed q t = q /\ k_gebv_nfixed q t = q.   Proof. repeat split. Qed.
Lemma k_xstar0_model : k_usl_xstar0 = 1%Q /\ k_lsl_xstar0 = 1%Q /\ k_gebv_xstar0 = 1%Q.            Proof. repeat split. Qed.
Lemma k_usl_xstar_rest_model q' : k_usl_xstar_rest (Z.of_nat (S q')) = (1 # Pos.of_nat (S q'))%Q.
Proof. unfold k_usl_xstar_rest. cbn. now rewrite Pos.of_nat_succ. Qed.
Lemma k_lsl_xstar_rest_model q' : k_lsl_xstar_rest (Z.of_nat (S q')) = (1 # Pos.of_nat (S q'))%Q.
Proof. unfold k_lsl_xstar_rest. cbn. now rewrite Pos.of_nat_succ. Qed.
Lemma k_gebv_xstar_rest_model q' : k_gebv_xstar_rest (Z.of_nat (S q')) = (1 # Pos.of_nat (S q'))%Q.
Proof. unfold k_gebv_xstar_rest. cbn. now rewrite Pos.of_nat_succ. Qed.
(** the limits and the breeding values use one and the same contrast (whatever it is) *)
Lemma k_contrast_shared : k_usl_xstar_rest = k_gebv_xstar_rest /\ k_lsl_xstar_rest = k_gebv_xstar_rest /\
  k_usl_xstar0 = k_gebv_xstar0 /\ k_lsl_xstar0 = k_gebv_xstar0 /\ k_usl_nfixed = k_gebv_nfixed /\ k_lsl_nfixed = k_gebv_nfixed.
Proof. repeat split. Qed.

Definition gen_xstar (x0 : Q) (rest : Z -> Q) (nfixed : Z -> Z -> Z) (t : nat) (beta : list (list Q)) : list Q :=
  match length beta with O => [] | S q' => x0 :: repeat (rest (nfixed (Z.of_nat (length beta)) (Z.of_nat t))) q' end.
(** (1,q) @ (q,t) *)
Definition rowmat (t : nat) (w : list Q) (beta : list (list Q)) : list Q := colsumsQ t (map2 (fun w row => map (Qmult w) row) w beta).
Definition gen_location_usl (t : nat) beta := k_usl_location _ _ _ (rowmat t) (gen_xstar k_usl_xstar0 k_usl_xstar_rest k_usl_nfixed t beta) beta.
Definition gen_location_lsl (t : nat) beta := k_lsl_location _ _ _ (rowmat t) (gen_xstar k_lsl_xstar0 k_lsl_xstar_rest k_lsl_nfixed t beta) beta.
Definition gen_location_gebv (t : nat) beta := k_gebv_location _ _ _ (rowmat t) (gen_xstar k_gebv_xstar0 k_gebv_xstar_rest k_gebv_nfixed t beta) beta.
Lemma gen_xstar_model x0 rest nfixed t beta : x0 = 1%Q -> (forall q', rest (Z.of_nat (S q')) = (1 # Pos.of_nat (S q'))%Q) ->
  (forall q t, nfixed q t = q) -> gen_xstar x0 rest nfixed t beta = xstar (length beta).
Proof.
  intros -> Hr Hn. unfold gen_xstar, xstar. destruct (length beta) as [|q'] eqn:E; [reflexivity|]. now rewrite Hn, Hr.
Qed.
Lemma gen_location_usl_model t beta : gen_location_usl t beta = location t beta.
Proof. unfold gen_location_usl, k_usl_location, rowmat, location. now rewrite (gen_xstar_model k_usl_xstar0 k_usl_xstar_rest k_usl_nfixed t beta eq_refl k_usl_xstar_rest_model (fun q t => eq_refl)). Qed.
Lemma gen_location_lsl_model t beta : gen_location_lsl t beta = location t beta.
Proof. unfold gen_location_lsl, k_lsl_location, rowmat, location. now rewrite (gen_xstar_model k_lsl_xstar0 k_lsl_xstar_rest k_lsl_nfixed t beta eq_refl k_lsl_xstar_rest_model (fun q t => eq_refl)). Qed.
Lemma gen_location_gebv_model t beta : gen_location_gebv t beta = location t beta.
Proof. unfold gen_location_gebv, k_gebv_location, rowmat, location. now rewrite (gen_xstar_model k_gebv_xstar0 k_gebv_xstar_rest k_gebv_nfixed t beta eq_refl k_gebv_xstar_rest_model (fun q t => eq_refl)). Qed.

(** * 3. usl_numpy / lsl_numpy with their [unscale] switch, and the dispatch of usl / lsl *)
Definition gen_usl_numpy_full (t : nat) u beta (freq : list float) (ploidy : Z) (unscale : bool) : list Q :=
  if k_usl_guard unscale then map2 k_usl_add_location (gen_usl_numpy t ploidy u freq) (gen_location_usl t beta) else gen_usl_numpy t ploidy u freq.
Definition gen_lsl_numpy_full (t : nat) u beta (freq : list float) (ploidy : Z) (unscale : bool) : list Q :=
  if k_lsl_guard unscale then map2 k_lsl_add_location (gen_lsl_numpy t ploidy u freq) (gen_location_lsl t beta) else gen_lsl_numpy t ploidy u freq.

(** frequencies by the three routes, as generated *)
Definition gen_freq_pgmat (n p : nat) (geno : list (list (list Z))) : list float :=
  map (fun c => k_pgmat_afreq (f_of_Z c) (f_of_Z (k_pgmat_denom (k_pgmat_ploidy (nphase geno) (Z.of_nat n) (Z.of_nat p)) (Z.of_nat n)))) (acount_ph p geno).
Definition gen_freq_gmat (ploidy : Z) (p : nat) (mat : list (list Z)) : list float :=
  map (fun c => k_gmat_afreq (f_of_Z c) (f_of_Z (k_gmat_denom ploidy (ntaxa mat)))) (acount p mat).
Definition gen_freq_arr (afreq : float -> float -> float) (denom : Z -> Z -> Z) (ploidy : Z) (p : nat) (mat : list (list Z)) : list float :=
  map (fun c => afreq (f_of_Z c) (f_of_Z (denom ploidy (ntaxa mat)))) (acount p mat).
Lemma gen_freq_pgmat_model n p geno : gen_freq_pgmat n p geno = freq_phased n p geno.             Proof. reflexivity. Qed.
Lemma gen_freq_gmat_model ploidy n p geno : gen_freq_gmat ploidy p (dosage n p geno) = freq_dosage ploidy n p geno.   Proof. reflexivity. Qed.
Lemma gen_freq_arr_usl_model ploidy n p geno : gen_freq_arr k_usl_arr_afreq k_usl_arr_denom ploidy p (dosage n p geno) = freq_dosage ploidy n p geno.
Proof. reflexivity. Qed.
Lemma gen_freq_arr_lsl_model ploidy n p geno : gen_freq_arr k_lsl_arr_afreq k_lsl_arr_denom ploidy p (dosage n p geno) = freq_dosage ploidy n p geno.
Proof. reflexivity. Qed.
Lemma k_ploidy_model ploidy nph n p : k_usl_obj_ploidy ploidy nph = ploidy /\ k_lsl_obj_ploidy ploidy nph = ploidy /\
  k_usl_default_ploidy = 2 /\ k_lsl_default_ploidy = 2 /\ k_pgmat_ploidy nph n p = nph /\ k_gmat_select_ploidy ploidy nph = ploidy.
Proof. repeat split. Qed.

(** usl(phased object), usl(unphased object of ploidy [ploidy]), usl(raw array, ploidy given or defaulted): callee, argument order,
    the attribute the ploidy is read from, the frequency formula — all as generated *)
Definition gen_usl_obj (t n p : nat) u beta geno (unscale : bool) : list Q :=
  k_usl_call _ _ (gen_usl_numpy_full t u beta) (gen_lsl_numpy_full t u beta) (gen_freq_pgmat n p geno)
             (k_usl_obj_ploidy (k_pgmat_ploidy (nphase geno) (Z.of_nat n) (Z.of_nat p)) (nphase geno)) unscale.
Definition gen_lsl_obj (t n p : nat) u beta geno (unscale : bool) : list Q :=
  k_lsl_call _ _ (gen_usl_numpy_full t u beta) (gen_lsl_numpy_full t u beta) (gen_freq_pgmat n p geno)
             (k_lsl_obj_ploidy (k_pgmat_ploidy (nphase geno) (Z.of_nat n) (Z.of_nat p)) (nphase geno)) unscale.
Definition gen_usl_gmat (t n p : nat) (ploidy : Z) u beta geno (unscale : bool) : list Q :=
  k_usl_call _ _ (gen_usl_numpy_full t u beta) (gen_lsl_numpy_full t u beta) (gen_freq_gmat ploidy p (dosage n p geno)) (k_usl_obj_ploidy ploidy 0) unscale.
Definition gen_lsl_gmat (t n p : nat) (ploidy : Z) u beta geno (unscale : bool) : list Q :=
  k_lsl_call _ _ (gen_usl_numpy_full t u beta) (gen_lsl_numpy_full t u beta) (gen_freq_gmat ploidy p (dosage n p geno)) (k_lsl_obj_ploidy ploidy 0) unscale.
Definition gen_usl_arr (t n p : nat) (ploidy : option Z) u beta geno (unscale : bool) : list Q :=
  let pl := match ploidy with Some x => x | None => k_usl_default_ploidy end in
  k_usl_call _ _ (gen_usl_numpy_full t u beta) (gen_lsl_numpy_full t u beta) (gen_freq_arr k_usl_arr_afreq k_usl_arr_denom pl p (dosage n p geno)) pl unscale.
Definition gen_lsl_arr (t n p : nat) (ploidy : option Z) u beta geno (unscale : bool) : list Q :=
  let pl := match ploidy with Some x => x | None => k_lsl_default_ploidy end in
  k_lsl_call _ _ (gen_usl_numpy_full t u beta) (gen_lsl_numpy_full t u beta) (gen_freq_arr k_lsl_arr_afreq k_lsl_arr_denom pl p (dosage n p geno)) pl unscale.

Lemma gen_usl_obj_model t n p u beta geno : gen_usl_obj t n p u beta geno false = usl t n p u geno.   Proof. reflexivity. Qed.
Lemma gen_lsl_obj_model t n p u beta geno : gen_lsl_obj t n p u beta geno false = lsl t n p u geno.   Proof. reflexivity. Qed.
Lemma gen_usl_obj_unscaled_model t n p u beta geno : gen_usl_obj t n p u beta geno true = usl_unscaled t n p u beta geno.
Proof. unfold gen_usl_obj, k_usl_call, gen_usl_numpy_full, k_usl_guard. rewrite gen_location_usl_model. reflexivity. Qed.
Lemma gen_lsl_obj_unscaled_model t n p u beta geno : gen_lsl_obj t n p u beta geno true = lsl_unscaled t n p u beta geno.
Proof. unfold gen_lsl_obj, k_lsl_call, gen_lsl_numpy_full, k_lsl_guard. rewrite gen_location_lsl_model. reflexivity. Qed.
Lemma gen_usl_gmat_model t n p ploidy u beta geno : gen_usl_gmat t n p ploidy u beta geno false = usl_dosage t n p ploidy u geno.   Proof. reflexivity. Qed.
Lemma gen_lsl_gmat_model t n p ploidy u beta geno : gen_lsl_gmat t n p ploidy u beta geno false = lsl_dosage t n p ploidy u geno.   Proof. reflexivity. Qed.
Lemma gen_usl_arr_model t n p ploidy u beta geno : gen_usl_arr t n p (Some ploidy) u beta geno false = usl_dosage t n p ploidy u geno.   Proof. reflexivity. Qed.
Lemma gen_lsl_arr_model t n p ploidy u beta geno : gen_lsl_arr t n p (Some ploidy) u beta geno false = lsl_dosage t n p ploidy u geno.   Proof. reflexivity. Qed.
Lemma gen_usl_arr_default_model t n p u beta geno : gen_usl_arr t n p None u beta geno false = usl_dosage t n p 2 u geno.   Proof. reflexivity. Qed.
Lemma gen_lsl_arr_default_model t n p u beta geno : gen_lsl_arr t n p None u beta geno false = lsl_dosage t n p 2 u geno.   Proof. reflexivity. Qed.

(** * 4. breeding values: Z @ u_a, then the intercept *)
Definition gen_gebv_numpy (t : nat) (u : list (list Q)) (dos : list (list Z)) : list (list Q) :=
  k_gebv_matmul _ _ _ (fun Zm um => map (gebv_row t um) Zm) dos u.
Definition gen_gebv (t : nat) (u beta : list (list Q)) (dos : list (list Z)) : list (list Q) :=
  map (fun r => map2 k_gebv_add_location r (gen_location_gebv t beta)) (gen_gebv_numpy t u dos).
Lemma gen_gebv_numpy_model t u dos : gen_gebv_numpy t u dos = gebv_numpy t u dos.   Proof. reflexivity. Qed.
Lemma gen_gebv_model t u beta dos : gen_gebv t u beta dos = gebv_unscaled t u beta dos.
Proof. unfold gen_gebv. rewrite gen_location_gebv_model. reflexivity. Qed.

(** * 5. the theorems restated about the generated definitions *)
(** boundary: the generated availability tests applied to the generated frequency quotient (any of the four frequency expressions of
    the source) are tests on the integer allele count, for every total count up to 2^53 *)
Lemma kernel_tests_are_counts (u : Q) (c ploidy n : Z) : 0 <= c <= ploidy * n -> 0 < ploidy * n <= 2^53 ->
  (k_usl_geno u (k_pgmat_afreq (f_of_Z c) (f_of_Z (k_pgmat_denom ploidy n))) = usl_cnt u c (ploidy * n) /\
   k_lsl_geno u (k_pgmat_afreq (f_of_Z c) (f_of_Z (k_pgmat_denom ploidy n))) = lsl_cnt u c (ploidy * n)) /\
  (k_usl_geno u (k_gmat_afreq (f_of_Z c) (f_of_Z (k_gmat_denom ploidy n))) = usl_cnt u c (ploidy * n) /\
   k_lsl_geno u (k_gmat_afreq (f_of_Z c) (f_of_Z (k_gmat_denom ploidy n))) = lsl_cnt u c (ploidy * n)) /\
  (k_usl_geno u (k_usl_arr_afreq (f_of_Z c) (f_of_Z (k_usl_arr_denom ploidy n))) = usl_cnt u c (ploidy * n) /\
   k_lsl_geno u (k_lsl_arr_afreq (f_of_Z c) (f_of_Z (k_lsl_arr_denom ploidy n))) = lsl_cnt u c (ploidy * n)).
Proof.
  intros Hc HN.
  change (k_pgmat_afreq (f_of_Z c) (f_of_Z (k_pgmat_denom ploidy n))) with (afreq_f1 c (ploidy * n)).
  change (k_gmat_afreq (f_of_Z c) (f_of_Z (k_gmat_denom ploidy n))) with (afreq_f1 c (ploidy * n)).
  change (k_usl_arr_afreq (f_of_Z c) (f_of_Z (k_usl_arr_denom ploidy n))) with (afreq_f1 c (ploidy * n)).
  change (k_lsl_arr_afreq (f_of_Z c) (f_of_Z (k_lsl_arr_denom ploidy n))) with (afreq_f1 c (ploidy * n)).
  rewrite !k_usl_geno_model, !k_lsl_geno_model, (usl_ind_cnt u c _ Hc HN), (lsl_ind_cnt u c _ Hc HN). repeat split.
Qed.

(** envelope: the generated lsl / usl of a phased population bracket the generated breeding value of every member *)
Lemma kernel_brackets t n p u beta geno s k : wf n p geno -> model_ok p t u -> (s < n)%nat -> (k < t)%nat ->
  (nth k (gen_lsl_obj t n p u beta geno false) 0 <= nth k (nth s (gen_gebv_numpy t u (dosage n p geno)) []) 0)%Q /\
  (nth k (nth s (gen_gebv_numpy t u (dosage n p geno)) []) 0 <= nth k (gen_usl_obj t n p u beta geno false) 0)%Q.
Proof. rewrite gen_lsl_obj_model, gen_usl_obj_model, gen_gebv_numpy_model. apply pop_brackets. Qed.

(** ... and with the intercept on both sides: usl/lsl(unscale=True) against gebv(), each with ITS OWN generated contrast *)
Lemma kernel_brackets_unscaled t n p u beta geno s k : wf n p geno -> model_ok p t u -> Forall (fun r => length r = t) beta ->
  (s < n)%nat -> (k < t)%nat ->
  (nth k (gen_lsl_obj t n p u beta geno true) 0 <= nth k (nth s (gen_gebv t u beta (dosage n p geno)) []) 0)%Q /\
  (nth k (nth s (gen_gebv t u beta (dosage n p geno)) []) 0 <= nth k (gen_usl_obj t n p u beta geno true) 0)%Q.
Proof. rewrite gen_lsl_obj_unscaled_model, gen_usl_obj_unscaled_model, gen_gebv_model. apply pop_brackets_unscaled. Qed.

(** tightness and the count reading of the generated limits *)
Lemma kernel_fixed_tight t n p u beta geno s k : wf n p geno -> model_ok p t u -> fixed_all p geno -> (s < n)%nat -> (k < t)%nat ->
  (nth k (gen_lsl_obj t n p u beta geno false) 0 == nth k (nth s (gen_gebv_numpy t u (dosage n p geno)) []) 0)%Q /\
  (nth k (gen_usl_obj t n p u beta geno false) 0 == nth k (nth s (gen_gebv_numpy t u (dosage n p geno)) []) 0)%Q.
Proof. rewrite gen_lsl_obj_model, gen_usl_obj_model, gen_gebv_numpy_model. apply pop_fixed_tight. Qed.

(** the three routes (phased object, unphased diploid object, raw array with explicit or default ploidy) agree, as generated *)
Lemma kernel_routes_agree t n p u beta geno : wf n p geno ->
  gen_usl_gmat t n p 2 u beta geno false = gen_usl_obj t n p u beta geno false /\ gen_lsl_gmat t n p 2 u beta geno false = gen_lsl_obj t n p u beta geno false /\
  gen_usl_arr t n p None u beta geno false = gen_usl_obj t n p u beta geno false /\ gen_lsl_arr t n p None u beta geno false = gen_lsl_obj t n p u beta geno false /\
  gen_usl_arr t n p (Some 2) u beta geno false = gen_usl_obj t n p u beta geno false /\ gen_lsl_arr t n p (Some 2) u beta geno false = gen_lsl_obj t n p u beta geno false.
Proof.
  intros H. rewrite gen_usl_gmat_model, gen_lsl_gmat_model, gen_usl_arr_default_model, gen_lsl_arr_default_model, gen_usl_arr_model, gen_lsl_arr_model,
    gen_usl_obj_model, gen_lsl_obj_model. destruct (usl_routes t n p u geno H) as [A B]. rewrite A, B. repeat split.
Qed.

(** * 6. meiosis: the copy loop of mat_meiosis, assembled from the generated index expressions *)
Lemma k_meiosis_xo_model r x : k_meiosis_xo r x = Qltb r x.
Proof. unfold k_meiosis_xo, Qltb, Qle_bool. now rewrite Z.ltb_antisym. Qed.
Lemma k_meiosis_toggle_model b : k_meiosis_toggle (Z.b2z b) = Z.b2z (negb b).   Proof. now destruct b. Qed.
Lemma k_meiosis_consts : k_meiosis_phase0 = Z.b2z false /\ k_meiosis_stix0 = 0 /\ (forall a b, k_meiosis_shape a b = (a, b)) /\ (forall x, k_meiosis_next_stix x = x).
Proof. repeat split. Qed.
Lemma k_meiosis_seg_model i s ph st sp : k_meiosis_seg i s ph st sp = (i, st, sp, ph, s, st, sp).   Proof. reflexivity. Qed.
Lemma k_meiosis_tail_model i s ph st : k_meiosis_tail i s ph st = (i, st, ph, s, st).               Proof. reflexivity. Qed.

Definition src_row (geno : list (list (list Z))) (ph s : Z) : list Z := row geno (Z.to_nat ph) (Z.to_nat s).
(** gamete row i, written segment by segment; [None] = a copy statement whose destination is not the segment [stix, spix) of row i *)
Fixpoint gen_seg_copy (p : nat) (geno : list (list (list Z))) (i s : Z) (xoix : list nat) (phase stix : Z) : option (list Z) :=
  match xoix with
  | [] => let '(di, dlo, sph, st, slo) := k_meiosis_tail i s phase stix in
          if (di =? i) && (dlo =? stix) then Some (slice (Z.to_nat slo) p (src_row geno sph st)) else None
  | spix :: t => let '(di, dlo, dhi, sph, st, slo, shi) := k_meiosis_seg i s phase stix (Z.of_nat spix) in
          if (di =? i) && (dlo =? stix) && (dhi =? Z.of_nat spix)
          then match gen_seg_copy p geno i s t (k_meiosis_toggle phase) (k_meiosis_next_stix (Z.of_nat spix)) with
               | Some rest => Some (slice (Z.to_nat slo) (Z.to_nat shi) (src_row geno sph st) ++ rest)
               | None => None
               end
          else None
  end.
Definition gen_gamete (geno : list (list (list Z))) (i s : nat) (rnd xoprob : list Q) : option (list Z) :=
  gen_seg_copy (length xoprob) geno (Z.of_nat i) (Z.of_nat s)
               (flatnonzero 0 (map2 k_meiosis_xo rnd xoprob)) k_meiosis_phase0 k_meiosis_stix0.

Lemma gen_seg_copy_model p geno i s : forall xoix ph stix,
  gen_seg_copy p geno (Z.of_nat i) (Z.of_nat s) xoix (Z.b2z ph) (Z.of_nat stix) = Some (seg_copy p (row geno 0 s) (row geno 1 s) xoix ph stix).
Proof.
  induction xoix as [|spix t IH]; intros ph stix; cbn [gen_seg_copy seg_copy]; rewrite ?k_meiosis_tail_model, ?k_meiosis_seg_model, !Z.eqb_refl; cbn [andb].
  - unfold src_row. rewrite !Nat2Z.id. destruct ph; reflexivity.
  - rewrite k_meiosis_toggle_model. unfold k_meiosis_next_stix. rewrite IH. unfold src_row. rewrite !Nat2Z.id. destruct ph; reflexivity.
Qed.
Lemma map2_xo_row : forall rnd xoprob, length rnd = length xoprob -> map2 k_meiosis_xo rnd xoprob = xo_row rnd xoprob.
Proof.
  induction rnd as [|r rnd IH]; intros [|x xoprob] H; cbn in *; try reflexivity; try discriminate.
  rewrite k_meiosis_xo_model, IH by lia. reflexivity.
Qed.
(** the gamete assembled from the generated expressions is the gamete of the model (per-marker reading) that the closure proof uses *)
Lemma kernel_gamete geno i s rnd xoprob : length rnd = length xoprob ->
  length (row geno 0 s) = length xoprob -> length (row geno 1 s) = length xoprob ->
  gen_gamete geno i s rnd xoprob = Some (gamete geno s rnd xoprob).
Proof.
  intros Hr H0 H1. unfold gen_gamete. rewrite map2_xo_row by assumption.
  change k_meiosis_phase0 with (Z.b2z false). change k_meiosis_stix0 with (Z.of_nat 0).
  rewrite gen_seg_copy_model. f_equal. now apply gamete_seg_eq.
Qed.
