(** C19 — the kernel expressions regenerated from the source (Gen/C19_Kernel.v) are the ones the hand model is built from.

    * pointwise links ([k_..._model]): closed by [reflexivity] wherever the generated term unfolds to the model's operation, by
      [ring]/[field] where only the order of a product or the spelling of a reciprocal differs (then the link is [==]);
    * the three distance transformations are ASSEMBLED from their generated kernels in the statement order of the source
      ([kern_body]) and proved equal to the model's [trans_body true] (entrywise [==]) for every input;
    * the pivot filter and [dominates] are re-assembled from their kernels and proved equal to the model;
    * laws about the generated definitions: the zero-range guard is exact, the generated scale is the reciprocal of the range
      and is covariant under every non-zero change of unit, the pivot bookkeeping.
    If an expression of the source changes ([numpy.isclose(maximum, 0.0)], [>=] for [>], [pt_ix += 1], swapped operands, the
    other vector) the regenerated file no longer satisfies these lemmas and this file — hence Props/C19.vo — stops compiling. *)
From Coq Require Import Lqa Lia Setoid Morphisms.
From PV Require Import Lib.Common Model.C19_Pareto Proofs.C19_Pareto Proofs.C19_Order Proofs.C19_Dist Gen.C19_Kernel.
Local Open Scope Q_scope.

(** * is_pareto_efficient *)
Lemma k_par_weight_model wt r : map2 k_par_weight r wt = wrow wt r.                       Proof. reflexivity. Qed.
Lemma k_par_better_model q p : map2 k_par_better q p = map2 (fun x y => Qlt_bool y x) q p. Proof. reflexivity. Qed.
Lemma k_par_better_gt_any q p : existsb (fun b : bool => b) (map2 k_par_better q p) = gt_any q p. Proof. reflexivity. Qed.
Lemma k_par_start_model : k_par_start = Z.of_nat 0.                                        Proof. reflexivity. Qed.
Lemma k_par_guard_model (ix n : nat) : k_par_guard (Z.of_nat ix) (Z.of_nat n) = (ix <? n)%nat.
Proof.
  unfold k_par_guard. destruct (Nat.ltb_spec ix n) as [H|H]; [apply Z.ltb_lt | apply Z.ltb_ge]; lia.
Qed.
Lemma k_par_next_model (c : nat) : k_par_next (Z.of_nat c) = Z.of_nat (c + 1).
Proof. unfold k_par_next. lia. Qed.

(** the loop of the source re-assembled from the generated kernels (same state as the model's [pareto_loop]; the pivot index
    is the integer the source computes) ... *)
Fixpoint kern_pareto_loop (fuel : nat) (st : list entry) (pt_ix : Z) : option (list entry) :=
  if k_par_guard pt_ix (Z.of_nat (length st)) then
    match fuel with
    | O => None
    | S f =>
        let ix := Z.to_nat pt_ix in
        let pv := snd (nth ix st (O, [])) in
        let mask := set_true ix (map (fun e : entry => existsb (fun b : bool => b) (map2 k_par_better (snd e) pv)) st) in
        kern_pareto_loop f (compress mask st) (k_par_next (Z.of_nat (count_true (firstn ix mask))))
    end
  else Some st.

(** ... is the model's loop *)
Lemma kern_pareto_loop_model fuel : forall st ix, kern_pareto_loop fuel st (Z.of_nat ix) = pareto_loop fuel st ix.
Proof.
  induction fuel as [|f IH]; intros st ix; cbn [kern_pareto_loop pareto_loop]; rewrite k_par_guard_model;
    destruct (ix <? length st)%nat; try reflexivity.
  rewrite Nat2Z.id, k_par_next_model. apply IH.
Qed.

Definition kern_pareto_idx (wt : list Q) (fmat : list (list Q)) : option (list nat) :=
  match kern_pareto_loop (length fmat) (init_state (map (fun r => map2 k_par_weight r wt) fmat)) k_par_start with
  | Some st => Some (map fst st)
  | None => None
  end.
Lemma kern_pareto_idx_model wt fmat : kern_pareto_idx wt fmat = pareto_idx wt fmat.
Proof. unfold kern_pareto_idx, pareto_idx. rewrite k_par_start_model, kern_pareto_loop_model. reflexivity. Qed.

(** pivot laws of the generated expressions: the strict comparison (a duplicate of the pivot does not survive it, an entry
    survives iff it is strictly larger) and the next pivot index *)
Lemma k_par_better_strict q p : k_par_better q p = true <-> p < q.
Proof. unfold k_par_better. rewrite Bool.negb_true_iff. split; intros H; [apply Qle_bool_false in H | apply Qle_bool_false]; lra. Qed.
Lemma k_par_better_irrefl q : k_par_better q q = false.
Proof. destruct (k_par_better q q) eqn:E; [apply k_par_better_strict in E; lra | reflexivity]. Qed.

(** * dominates *)
Lemma k_dom_feasible_model c1 c2 : k_dom_feasible c1 c2 = (Qle_bool c1 0 && Qle_bool c2 0)%bool.   Proof. reflexivity. Qed.
Lemma k_dom_pareto_model o1 o2 : k_dom_pareto o1 o2 = (all_le o1 o2 && any_lt o1 o2)%bool.         Proof. reflexivity. Qed.
Lemma k_dom_violation_model c1 c2 : k_dom_violation c1 c2 = Qlt_bool c1 c2.                        Proof. reflexivity. Qed.
Lemma k_dominates_model o1 c1 o2 c2 : k_dominates o1 c1 o2 c2 = dominates_m o1 c1 o2 c2.           Proof. reflexivity. Qed.

(** * the distance transformations *)
Record tkern := { t_signed : Q -> Q -> Q; t_shift : Q -> Q -> Q; t_range : Q -> Q; t_guard : Q -> bool; t_fill : Q;
                  t_recip : Q -> Q; t_zero : Q; t_scaled : Q -> Q -> Q; t_linv : Q -> Q; t_coef : Q -> Q -> Q;
                  t_proj : Q -> Q -> Q; t_resid : Q -> Q -> Q }.

Definition K_core : tkern := {| t_signed := k_core_signed; t_shift := k_core_shift; t_range := k_core_range; t_guard := k_core_guard;
  t_fill := k_core_fill; t_recip := k_core_recip; t_zero := k_core_zero; t_scaled := k_core_scaled; t_linv := k_core_linv;
  t_coef := k_core_coef; t_proj := k_core_proj; t_resid := k_core_resid |}.
Definition K_prob : tkern := {| t_signed := k_prob_signed; t_shift := k_prob_shift; t_range := k_prob_range; t_guard := k_prob_guard;
  t_fill := k_prob_fill; t_recip := k_prob_recip; t_zero := k_prob_zero; t_scaled := k_prob_scaled; t_linv := k_prob_linv;
  t_coef := k_prob_coef; t_proj := k_prob_proj; t_resid := k_prob_resid |}.
Definition K_fn : tkern := {| t_signed := k_fn_signed; t_shift := k_fn_shift; t_range := k_fn_range; t_guard := k_fn_guard;
  t_fill := k_fn_fill; t_recip := k_fn_recip; t_zero := k_fn_zero; t_scaled := k_fn_scaled; t_linv := k_fn_linv;
  t_coef := k_fn_coef; t_proj := k_fn_proj; t_resid := k_fn_resid |}.

(** what the model's body assumes of each kernel *)
Record tkern_ok (K : tkern) : Prop := {
  ok_signed : t_signed K = Qmult;            (* objective times its sign, in this order *)
  ok_shift : t_shift K = Qminus;             (* entry minus column minimum *)
  ok_range : t_range K = (fun x => x);       (* the column maximum of the shifted matrix *)
  ok_guard : t_guard K = (fun m => Qeq_bool m 0);   (* EXACT test for a zero range *)
  ok_fill : t_fill K = 1;
  ok_recip : forall m, t_recip K m == / m;
  ok_zero : t_zero K = 0;
  ok_scaled : t_scaled K = Qmult;
  ok_linv : forall x, t_linv K x == / x;
  ok_coef : forall pl linv, t_coef K pl linv == linv * pl;
  ok_proj : t_proj K = Qmult;
  ok_resid : t_resid K = Qminus }.

Lemma recip_inv m : Qdiv 1 m == / m.
Proof. unfold Qdiv. ring. Qed.

Lemma K_core_ok : tkern_ok K_core.
Proof. constructor; try reflexivity; cbn; intros; try apply recip_inv. Qed.
Lemma K_prob_ok : tkern_ok K_prob.
Proof. constructor; try reflexivity; cbn; intros; try apply recip_inv. unfold k_prob_coef. ring. Qed.
Lemma K_fn_ok : tkern_ok K_fn.
Proof. constructor; try reflexivity; cbn; intros; try apply recip_inv. unfold k_fn_coef. ring. Qed.

(** the statements   maximum = mat.max(0); mask = <guard>; maximum[mask] = <fill>; scale = 1.0 / maximum; scale[mask] = <zero>
    for one column; the float division is non-finite at 0 ([None]) *)
Definition kern_scale1 (K : tkern) (colmax : Q) : option Q :=
  let maximum := t_range K colmax in
  let mask := t_guard K maximum in
  let maximum' := if mask then t_fill K else maximum in
  if Qeq_bool maximum' 0 then None else Some (if mask then t_zero K else t_recip K maximum').

(** the whole body in the statement order of the source *)
Definition kern_point (K : tkern) (lin : list Q) (linv : Q) (p : list Q) : Q :=
  let a := t_coef K (dotQ p lin) linv in
  sumQ (map sq (map2 (t_resid K) p (map (fun l => t_proj K a l) lin))).

Definition kern_body (K : tkern) (mat : list (list Q)) (sign lin : list Q) : tres :=
  match map (fun r => map2 (t_signed K) r sign) mat with
  | [] => TRaised
  | r0 :: rest =>
      let mn := colmin r0 rest in
      match map (fun r => map2 (t_shift K) r mn) (r0 :: rest) with
      | [] => TRaised
      | s0 :: srest =>
          match sequence (map (kern_scale1 K) (colmax s0 srest)) with
          | None => TNonFinite
          | Some sc =>
              let m3 := map (fun r => map2 (t_scaled K) sc r) (s0 :: srest) in
              let LL := dotQ lin lin in
              if Qeq_bool LL 0 then TNonFinite else TFinite (map (kern_point K lin (t_linv K LL)) m3)
          end
      end
  end.

Lemma kern_scale1_model K (OK : tkern_ok K) m : orel Qeq (kern_scale1 K m) (scale_guarded1 m).
Proof.
  destruct OK as [_ _ Hr Hg Hf Hi Hz _ _ _ _ _]. rewrite scale_guarded1_some. unfold kern_scale1. rewrite Hr, Hg, Hf, Hz.
  destruct (Qeq_bool m 0) eqn:E; cbn; [reflexivity|]. rewrite E. cbn. apply Hi.
Qed.

Lemma sequence_rel (f g : Q -> option Q) : (forall m, orel Qeq (f m) (g m)) ->
  forall l, orel (Forall2 Qeq) (sequence (map f l)) (sequence (map g l)).
Proof.
  intros H l. induction l as [|x l IH]; cbn [map sequence]; [constructor|].
  specialize (H x). destruct (f x), (g x); cbn in H; try contradiction; [|exact I].
  destruct (sequence (map f l)), (sequence (map g l)); cbn in IH; try contradiction; cbn; [now constructor | exact I].
Qed.

Lemma kern_point_model K (OK : tkern_ok K) lin linv linv' p p' : linv == linv' -> Forall2 Qeq p p' ->
  kern_point K lin linv p == residual2 lin linv' p'.
Proof.
  intros El Hp. destruct OK as [_ _ _ _ _ _ _ _ _ Hc Hp' Hr]. unfold kern_point. rewrite Hp', Hr.
  rewrite <- (residual2_compat lin linv' p p' Hp). unfold residual2. apply sumQ_compat.
  apply (Forall2_map_gen Qeq Qeq); [intros x y E; unfold sq; now rewrite E|].
  apply map2_compat; [apply Qminus_compat | apply veq_refl |].
  apply (Forall2_map_gen Qeq Qeq) with (l := lin) (l' := lin); [|apply veq_refl].
  intros x y E. rewrite Hc, El, E. reflexivity.
Qed.

(** the body assembled from the generated kernels is the model's guarded body, for every matrix and every two vectors *)
Lemma kern_body_model K (OK : tkern_ok K) mat sign lin : tres_eq (kern_body K mat sign lin) (trans_body true mat sign lin).
Proof.
  pose proof OK as [Hs Hsh _ _ _ _ _ Hsc Hli _ _ _]. unfold kern_body, trans_body. rewrite Hs, Hsh, Hsc.
  destruct (map (fun r => map2 Qmult r sign) mat) as [|r0 rest]; [exact I|].
  destruct (map (fun r => map2 Qminus r (colmin r0 rest)) (r0 :: rest)) as [|s0 srest]; [exact I|].
  pose proof (sequence_rel _ _ (kern_scale1_model K OK) (colmax s0 srest)) as Hseq.
  destruct (sequence (map (kern_scale1 K) (colmax s0 srest))) as [sc|], (sequence (map scale_guarded1 (colmax s0 srest))) as [sc'|];
    cbn in Hseq; try contradiction; [|exact I].
  unfold inv_opt. destruct (Qeq_bool (dotQ lin lin) 0); [exact I|]. cbn [tres_eq].
  apply (Forall2_map_gen (Forall2 Qeq) Qeq) with (l := map (fun r => map2 Qmult sc r) (s0 :: srest))
                                                   (l' := map (fun r => map2 Qmult sc' r) (s0 :: srest)).
  - intros p p' Hp. apply (kern_point_model K OK); [apply Hli | exact Hp].
  - apply (Forall2_map_gen (Forall2 Qeq) (Forall2 Qeq)) with (l := s0 :: srest) (l' := s0 :: srest); [|apply meq_refl].
    intros r r' Hr. apply map2_compat; [apply Qmult_compat | exact Hseq | exact Hr].
Qed.

(** core/util/trans.py: the three assertions, then the body *)
Definition kern_core (mat : list (list Q)) (minmax pw : list Q) : tres :=
  if negb (forallb k_core_assert_nonneg pw) then TRaised
  else if negb (existsb k_core_assert_pos pw) then TRaised
  else if negb (k_core_assert_norm (dotQ pw pw)) then TRaised
  else kern_body K_core mat minmax pw.

Lemma kern_core_model mat minmax pw : tres_eq (kern_core mat minmax pw) (trans_core mat minmax pw).
Proof.
  unfold kern_core, trans_core.
  change (forallb k_core_assert_nonneg pw) with (forallb (Qle_bool 0) pw).
  change (existsb k_core_assert_pos pw) with (existsb (Qlt_bool 0) pw).
  change (k_core_assert_norm (dotQ pw pw)) with (Qlt_bool 0 (dotQ pw pw)).
  destruct (negb (forallb (Qle_bool 0) pw)); [exact I|]. destruct (negb (existsb (Qlt_bool 0) pw)); [exact I|].
  destruct (negb (Qlt_bool 0 (dotQ pw pw))); [exact I|]. apply kern_body_model, K_core_ok.
Qed.
Lemma kern_prob_model mat obj_wt vec_wt : tres_eq (kern_body K_prob mat obj_wt vec_wt) (trans_sel_prob mat obj_wt vec_wt).
Proof. apply kern_body_model, K_prob_ok. Qed.
Lemma kern_fn_model mat objfn_wt wt : tres_eq (kern_body K_fn mat objfn_wt wt) (trans_sel_fn mat objfn_wt wt).
Proof. apply kern_body_model, K_fn_ok. Qed.

(** * laws of the generated guard / scale expressions (all three copies) *)
Definition kern_scale (K : tkern) (m : Q) : Q :=       (* the finite value of [kern_scale1] *)
  if t_guard K (t_range K m) then t_zero K else t_recip K (t_range K m).

Lemma kern_scale1_total K (OK : tkern_ok K) m : kern_scale1 K m = Some (kern_scale K m).
Proof.
  destruct OK as [_ _ Hr Hg Hf _ _ _ _ _ _ _]. unfold kern_scale1, kern_scale. rewrite Hr, Hg, Hf.
  destruct (Qeq_bool m 0) eqn:E; cbn; [reflexivity|]. now rewrite E.
Qed.

(** the guard is the EXACT test: it fires on a zero range and on nothing else, however small the range *)
Lemma kern_guard_exact K (OK : tkern_ok K) m : t_guard K m = true <-> m == 0.
Proof. rewrite (ok_guard K OK). apply Qeq_bool_iff. Qed.

(** a constant objective is scaled to 0; a non-constant one, whatever its range, exactly onto [0,1]: the entry that attains
    the maximum becomes 1 *)
Lemma kern_scale_spec K (OK : tkern_ok K) m :
  (m == 0 -> kern_scale K m == 0) /\ (~ m == 0 -> t_scaled K (kern_scale K m) m == 1).
Proof.
  destruct OK as [_ _ Hr Hg _ Hi Hz Hs _ _ _ _]. unfold kern_scale. rewrite Hr, Hg, Hz, Hs. split; intros H.
  - apply Qeq_bool_iff in H. rewrite H. reflexivity.
  - destruct (Qeq_bool m 0) eqn:E; [apply Qeq_bool_iff in E; contradiction|]. rewrite Hi. field. exact H.
Qed.

(** change of unit: measuring an objective in another unit (every entry and hence the range times c <> 0, e.g. 2^-40)
    leaves every normalised entry unchanged *)
Lemma kern_scale_unit K (OK : tkern_ok K) c m x : ~ c == 0 ->
  t_scaled K (kern_scale K (c * m)) (c * x) == t_scaled K (kern_scale K m) x.
Proof.
  intros Hc. destruct OK as [_ _ Hr Hg _ Hi Hz Hs _ _ _ _]. unfold kern_scale. rewrite Hr, Hg, Hz, Hs.
  destruct (Qeq_bool m 0) eqn:E.
  - apply Qeq_bool_iff in E. assert (E' : Qeq_bool (c * m) 0 = true) by (apply Qeq_bool_iff; rewrite E; ring).
    rewrite E'. ring.
  - assert (Hm : ~ m == 0) by (now apply Qeq_bool_neq).
    assert (E' : Qeq_bool (c * m) 0 = false).
    { destruct (Qeq_bool (c * m) 0) eqn:F; [|reflexivity]. apply Qeq_bool_iff in F.
      destruct (Qmult_integral _ _ F); contradiction. }
    rewrite E', !Hi. field. split; assumption.
Qed.

(** the generated normalisation of one entry: (x*s - mn) * scale(range) *)
Definition kern_norm_entry (K : tkern) (x s mn range : Q) : Q :=
  t_scaled K (kern_scale K range) (t_shift K (t_signed K x s) mn).

Lemma kern_norm_entry_spec K (OK : tkern_ok K) x s mn range :
  kern_norm_entry K x s mn range == (if Qeq_bool range 0 then 0 else (x * s - mn) / range).
Proof.
  destruct OK as [Hsg Hsh Hr Hg _ Hi Hz Hs _ _ _ _]. unfold kern_norm_entry, kern_scale. rewrite Hsg, Hsh, Hr, Hg, Hz, Hs.
  destruct (Qeq_bool range 0) eqn:E; [ring|]. rewrite Hi. unfold Qdiv. ring.
Qed.

(** the three instances, as one statement each *)
Lemma kernel_guards_exact m :
  (k_core_guard m = true <-> m == 0) /\ (k_prob_guard m = true <-> m == 0) /\ (k_fn_guard m = true <-> m == 0).
Proof.
  split; [|split]; [apply (kern_guard_exact K_core K_core_ok) | apply (kern_guard_exact K_prob K_prob_ok) | apply (kern_guard_exact K_fn K_fn_ok)].
Qed.

Lemma kernel_is_model :
  (forall wt r, map2 k_par_weight r wt = wrow wt r) /\
  (forall q p, existsb (fun b : bool => b) (map2 k_par_better q p) = gt_any q p) /\
  (forall ix n : nat, k_par_guard (Z.of_nat ix) (Z.of_nat n) = (ix <? n)%nat) /\
  (forall c : nat, k_par_next (Z.of_nat c) = Z.of_nat (c + 1)) /\
  (forall wt fmat, kern_pareto_idx wt fmat = pareto_idx wt fmat) /\
  (forall o1 c1 o2 c2, k_dominates o1 c1 o2 c2 = dominates_m o1 c1 o2 c2) /\
  tkern_ok K_core /\ tkern_ok K_prob /\ tkern_ok K_fn /\
  (forall mat minmax pw, tres_eq (kern_core mat minmax pw) (trans_core mat minmax pw)) /\
  (forall mat obj_wt vec_wt, tres_eq (kern_body K_prob mat obj_wt vec_wt) (trans_sel_prob mat obj_wt vec_wt)) /\
  (forall mat objfn_wt wt, tres_eq (kern_body K_fn mat objfn_wt wt) (trans_sel_fn mat objfn_wt wt)).
Proof.
  repeat split; intros;
    first [ apply k_par_weight_model | apply k_par_better_gt_any | apply k_par_guard_model | apply k_par_next_model
          | apply kern_pareto_idx_model | apply k_dominates_model | apply K_core_ok | apply K_prob_ok | apply K_fn_ok
          | apply kern_core_model | apply kern_prob_model | apply kern_fn_model ].
Qed.

(** the selection copies assembled from their kernels are the core function assembled from its kernels (documented roles) *)
Lemma kern_sel_is_core mat sign pref : Forall (fun x => 0 <= x) pref -> Exists (fun x => 0 < x) pref ->
  tres_eq (kern_body K_prob mat sign pref) (trans_core mat sign pref) /\ tres_eq (kern_body K_fn mat sign pref) (trans_core mat sign pref).
Proof.
  intros Hn Hp. rewrite (trans_core_body mat sign pref Hn Hp). split; apply kern_body_model; [apply K_prob_ok | apply K_fn_ok].
Qed.

(** dominates, as generated: the specification and the order laws *)
Lemma kern_dominates_spec o1 c1 o2 c2 : length o1 = length o2 ->
  (c1 <= 0 -> c2 <= 0 -> (k_dominates o1 c1 o2 c2 = true <->
       Forall2 Qle o1 o2 /\ exists k, (k < length o1)%nat /\ nth k o1 0 < nth k o2 0)) /\
  (~ (c1 <= 0 /\ c2 <= 0) -> (k_dominates o1 c1 o2 c2 = true <-> c1 < c2)) /\
  (c1 <= 0 -> ~ c2 <= 0 -> k_dominates o1 c1 o2 c2 = true) /\
  (~ c1 <= 0 -> c2 <= 0 -> k_dominates o1 c1 o2 c2 = false).
Proof. rewrite k_dominates_model. apply dominates_spec_lemma. Qed.

(** the filter, as generated: sound and complete *)
Lemma kern_filter_terminates wt fmat : exists idx, kern_pareto_idx wt fmat = Some idx.
Proof. rewrite kern_pareto_idx_model. eexists. apply pareto_idx_eq. Qed.
Lemma kern_filter_sound m wt fmat idx i j : rectm m fmat -> length wt = m -> kern_pareto_idx wt fmat = Some idx ->
  In i idx -> (j < length fmat)%nat -> ~ dominatesP (nth j (weighted wt fmat) []) (nth i (weighted wt fmat) []).
Proof. rewrite kern_pareto_idx_model. apply filter_sound_rel. Qed.
Lemma kern_filter_complete m wt fmat idx i : rectm m fmat -> length wt = m -> kern_pareto_idx wt fmat = Some idx ->
  (i < length fmat)%nat -> ~ In i idx ->
  exists j, In j idx /\ j <> i /\ (Forall2 Qeq (nth i (weighted wt fmat) []) (nth j (weighted wt fmat) []) \/
                                 dominatesP (nth j (weighted wt fmat) []) (nth i (weighted wt fmat) [])).
Proof. rewrite kern_pareto_idx_model. apply filter_complete_rel. Qed.

(** a statement about all three copies of the transformation *)
Definition all_copies (P : tkern -> Prop) : Prop := P K_core /\ P K_prob /\ P K_fn.
Lemma all_copies_of (P : tkern -> Prop) : (forall K, tkern_ok K -> P K) -> all_copies P.
Proof. intros H. repeat split; apply H; [apply K_core_ok | apply K_prob_ok | apply K_fn_ok]. Qed.

Lemma kernel_scale_laws : all_copies (fun K =>
  (forall m, t_guard K m = true <-> m == 0) /\
  (forall m, kern_scale1 K m = Some (kern_scale K m)) /\
  (forall m, m == 0 -> kern_scale K m == 0) /\
  (forall m, ~ m == 0 -> t_scaled K (kern_scale K m) m == 1) /\
  (forall c m x, ~ c == 0 -> t_scaled K (kern_scale K (c * m)) (c * x) == t_scaled K (kern_scale K m) x) /\
  (forall x s mn range, kern_norm_entry K x s mn range == (if Qeq_bool range 0 then 0 else (x * s - mn) / range))).
Proof.
  apply all_copies_of. intros K OK. repeat split.
  - apply (kern_guard_exact K OK).
  - apply (kern_guard_exact K OK).
  - intros m. apply (kern_scale1_total K OK).
  - intros m. apply (kern_scale_spec K OK).
  - intros m. apply (kern_scale_spec K OK).
  - intros c m x. apply (kern_scale_unit K OK).
  - intros. apply (kern_norm_entry_spec K OK).
Qed.
