(** C02 — recombination and segregation rates of the C01 gamete under independent Bernoulli crossover indicators. *)
From Coq Require Import Lqa.
From PV Require Import Lib.Common Model.C01_Meiosis Model.C02_Dist Model.C02_Check Proofs.C02_Bern.
Local Open Scope Q_scope.

Lemma E_half_sign ps mask c : E ps (fun l => (1 + c * psign mask l) / 2) == (1 + c * pexp mask ps) / 2.
Proof.
  rewrite (E_ext ps _ (fun l => (1 # 2) * 1 + (c / 2) * psign mask l)) by (intros l; field).
  rewrite E_plus, !E_scal, E_psign. rewrite (E_const ps 1). field.
Qed.

(** probability that marker j carries copy 1 *)
Theorem one_rate ps j : (j < length ps)%nat -> Pr ps (src_at j) == (1 - prod12 (firstn (S j) ps)) / 2.
Proof.
  intros H. unfold Pr.
  rewrite (E_ext_len ps _ (fun l => (1 + (-1) * psign (mask_le j) l) / 2)).
  - rewrite E_half_sign, pexp_le. field.
  - intros l Hl. rewrite ind_sgn, sgn_src_at by lia. field.
Qed.

(** probability that markers i < j come from different copies *)
Theorem pair_rate ps i j : (i < j)%nat -> (j < length ps)%nat ->
  Pr ps (recomb i j) == (1 - prod12 (between i j ps)) / 2.
Proof.
  intros Hij H. unfold Pr.
  rewrite (E_ext_len ps _ (fun l => (1 + (-1) * psign (mask_btw i j) l) / 2)).
  - rewrite E_half_sign, pexp_btw. field.
  - intros l Hl. rewrite ind_sgn, sgn_recomb by lia. field.
Qed.

Lemma between_adjacent {A} j (l : list A) d : (S j < length l)%nat -> between j (S j) l = [nth (S j) l d].
Proof.
  unfold between. replace (S j - j)%nat with 1%nat by lia. revert l. generalize (S j) as k.
  induction k as [|k IH]; intros [|a l] H; cbn in H; try lia.
  - reflexivity.
  - cbn [skipn nth]. apply IH. lia.
Qed.

(** adjacent markers: the rate is the stored crossover probability of the interval *)
Theorem adjacent_rate ps j : (S j < length ps)%nat -> Pr ps (recomb j (S j)) == nth (S j) ps 0.
Proof.
  intros H. rewrite pair_rate by lia. rewrite (between_adjacent j ps 0 H). cbn. field.
Qed.

(** the first marker decides the starting copy *)
Theorem start_rate ps : (0 < length ps)%nat -> Pr ps (src_at 0) == nth 0 ps 0.
Proof. intros H. rewrite one_rate by lia. destruct ps as [|p ps]; [cbn in H; lia|]. cbn. field. Qed.

(** a crossover indicator has its own probability; adjacent recombination *is* the crossover indicator *)
Theorem xo_rate ps i : (i < length ps)%nat -> Pr ps (xo_at i) == nth i ps 0.
Proof.
  intros H. unfold Pr.
  rewrite (E_ext_len ps _ (fun l => (1 + (-1) * psign (mask_one i) l) / 2)).
  - rewrite E_half_sign, pexp_one by lia. field.
  - intros l Hl. rewrite ind_sgn, sgn_xo_at by lia. field.
Qed.

Lemma recomb_adjacent j : forall xo, (S j < length xo)%nat -> recomb j (S j) xo = xo_at (S j) xo.
Proof.
  unfold recomb, xo_at. induction j as [|j IH]; intros [|x xs] H; cbn in H; try lia.
  - destruct xs as [|y ys]; [cbn in H; lia|]. rewrite src_at_0, src_at_S by (cbn; lia). rewrite src_at_0. cbn. now destruct x, y.
  - rewrite !src_at_S by lia. cbn [nth]. rewrite <- IH by lia. now destruct x, (src_at j xs), (src_at (S j) xs).
Qed.

(** ** a crossover probability of one half *)
Lemma prod12_zero l k : (k < length l)%nat -> nth k l 0 == 1 # 2 -> prod12 l == 0.
Proof.
  revert k. induction l as [|p l IH]; intros k H Hk; cbn in H; [lia|]. cbn [prod12 fold_right].
  destruct k as [|k]; cbn [nth] in Hk.
  - rewrite Hk. ring.
  - fold (prod12 l). rewrite (IH k) by (lia || exact Hk). ring.
Qed.

Lemma nth_firstn_lt {A} (l : list A) d : forall n k, (k < n)%nat -> nth k (firstn n l) d = nth k l d.
Proof.
  induction l as [|a l IH]; intros n k H; [now rewrite firstn_nil|].
  destruct n as [|n]; [lia|]. destruct k as [|k]; cbn; [reflexivity|]. apply IH. lia.
Qed.
Lemma nth_skipn_add {A} (l : list A) d : forall n k, nth k (skipn n l) d = nth (n + k) l d.
Proof.
  induction l as [|a l IH]; intros n k; [rewrite skipn_nil; generalize (n + k)%nat; intros m; now destruct k, m|].
  destruct n as [|n]; [reflexivity|]. cbn. apply IH.
Qed.

Lemma nth_between {A} i j k (l : list A) d : (i < k)%nat -> (k <= j)%nat -> (j < length l)%nat ->
  nth (k - S i) (between i j l) d = nth k l d /\ (k - S i < length (between i j l))%nat.
Proof.
  intros H1 H2 H3. unfold between. split.
  - rewrite nth_firstn_lt by lia. rewrite nth_skipn_add. f_equal. lia.
  - rewrite firstn_length, skipn_length. lia.
Qed.

Lemma nth_firstn_le {A} k j (l : list A) d : (k <= j)%nat -> (j < length l)%nat ->
  nth k (firstn (S j) l) d = nth k l d /\ (k < length (firstn (S j) l))%nat.
Proof.
  intros H1 H2. split.
  - apply nth_firstn_lt. lia.
  - rewrite firstn_length. lia.
Qed.

(** SEGREGATION: once some marker k <= j has crossover probability 1/2 (the first marker of every chromosome, as assigned
    from a genetic map), each of the two parental copies is transmitted at marker j with probability 1/2 *)
Theorem segregation ps k j : (k <= j)%nat -> (j < length ps)%nat -> nth k ps 0 == 1 # 2 ->
  Pr ps (src_at j) == 1 # 2 /\ Pr ps (fun xo => negb (src_at j xo)) == 1 # 2.
Proof.
  intros H1 H2 Hk. assert (A : Pr ps (src_at j) == 1 # 2).
  { rewrite one_rate by lia. destruct (nth_firstn_le k j ps 0 H1 H2) as [Hn Hl].
    rewrite (prod12_zero _ k Hl) by (now rewrite Hn). reflexivity. }
  split; [exact A|]. assert (T := Pr_total ps (src_at j)). rewrite A in T. lra.
Qed.

(** ** joint distribution of the copies at two markers *)
Definition copy_is (j : nat) (a : bool) (xo : list bool) : bool := Bool.eqb (src_at j xo) a.

Lemma ind_eqb c a : ind (Bool.eqb c a) == (1 + sgn a * sgn c) / 2.
Proof. destruct c, a; reflexivity. Qed.

Theorem copy_rate ps j a : (j < length ps)%nat ->
  Pr ps (copy_is j a) == (1 + sgn a * prod12 (firstn (S j) ps)) / 2.
Proof.
  intros H. unfold Pr, copy_is.
  rewrite (E_ext_len ps _ (fun l => (1 + sgn a * psign (mask_le j) l) / 2)).
  - rewrite E_half_sign, pexp_le. reflexivity.
  - intros l Hl. rewrite ind_eqb, sgn_src_at by lia. reflexivity.
Qed.

Theorem joint_rate ps i j a b : (i < j)%nat -> (j < length ps)%nat ->
  Pr ps (fun xo => copy_is i a xo && copy_is j b xo)
  == (1 + sgn a * prod12 (firstn (S i) ps) + sgn b * prod12 (firstn (S j) ps)
        + sgn a * sgn b * prod12 (between i j ps)) / 4.
Proof.
  intros Hij H. unfold Pr, copy_is.
  rewrite (E_ext_len ps _ (fun l => (1 # 4) * 1 + ((sgn a / 4) * psign (mask_le i) l
             + ((sgn b / 4) * psign (mask_le j) l + (sgn a * sgn b / 4) * psign (mask_btw i j) l)))).
  - rewrite !E_plus, !E_scal, !E_psign, (E_const ps 1), !pexp_le, pexp_btw. field.
  - intros l Hl.
    assert (M : forall x y, ind (x && y) == ind x * ind y) by (intros [] []; reflexivity).
    rewrite M, !ind_eqb. rewrite <- sgn_recomb, <- !sgn_src_at by lia. unfold recomb. rewrite sgn_xorb. field.
Qed.

(** INDEPENDENT ASSORTMENT: a 1/2 entry at some k with i < k <= j (a chromosome start between the two markers, or at j)
    makes the copies at i and j independent *)
Theorem independent_assortment ps i k j a b : (i < k)%nat -> (k <= j)%nat -> (j < length ps)%nat -> nth k ps 0 == 1 # 2 ->
  Pr ps (fun xo => copy_is i a xo && copy_is j b xo) == Pr ps (copy_is i a) * Pr ps (copy_is j b)
  /\ Pr ps (copy_is j b) == 1 # 2.
Proof.
  intros H1 H2 H3 Hk.
  destruct (nth_between i j k ps 0 H1 H2 H3) as [Hn Hl].
  assert (B : prod12 (between i j ps) == 0) by (apply (prod12_zero _ (k - S i) Hl); now rewrite Hn).
  destruct (nth_firstn_le k j ps 0 H2 H3) as [Hn' Hl'].
  assert (J : prod12 (firstn (S j) ps) == 0) by (apply (prod12_zero _ k Hl'); now rewrite Hn').
  rewrite joint_rate, !copy_rate by lia. rewrite B, J. split; field.
Qed.

(** ... and with a 1/2 entry at or before i as well (both markers lie on chromosomes whose start carries 1/2), every
    combination of copies has probability 1/4 *)
Theorem independent_assortment_quarter ps k0 i k j a b :
  (k0 <= i)%nat -> (i < k)%nat -> (k <= j)%nat -> (j < length ps)%nat -> nth k0 ps 0 == 1 # 2 -> nth k ps 0 == 1 # 2 ->
  Pr ps (fun xo => copy_is i a xo && copy_is j b xo) == 1 # 4.
Proof.
  intros H0 H1 H2 H3 Hk0 Hk.
  destruct (independent_assortment ps i k j a b H1 H2 H3 Hk) as [-> ->].
  rewrite copy_rate by lia. destruct (nth_firstn_le k0 i ps 0 H0 ltac:(lia)) as [Hn Hl].
  rewrite (prod12_zero _ k0 Hl) by (now rewrite Hn). field.
Qed.

(** ** CROSSOVER INDEPENDENCE *)
Lemma Pr_shift p ps ev : (forall b l, ev (b :: l) = ev (false :: l)) -> Pr (p :: ps) ev == Pr ps (fun l => ev (false :: l)).
Proof.
  intros H. unfold Pr. cbn [E].
  rewrite (E_ext ps (fun l => ind (ev (true :: l))) (fun l => ind (ev (false :: l)))) by (intros l; now rewrite (H true)).
  ring.
Qed.

Theorem crossover_independence : forall ps i j, (i < j)%nat -> (j < length ps)%nat ->
  Pr ps (fun xo => xo_at i xo && xo_at j xo) == nth i ps 0 * nth j ps 0.
Proof.
  intros ps i. revert ps. induction i as [|i IH]; intros [|p ps] j Hij H; cbn in H; try lia.
  - destruct j as [|j]; [lia|]. unfold Pr. cbn [E]. unfold xo_at. cbn [nth andb].
    rewrite (E_ext ps (fun _ => ind false) (fun _ => 0)) by reflexivity. rewrite E_const.
    change (E ps (fun l => ind (nth j l false))) with (Pr ps (xo_at j)). rewrite xo_rate by lia. ring.
  - destruct j as [|j]; [lia|]. rewrite Pr_shift by reflexivity. unfold xo_at. cbn [nth].
    apply (IH ps j); lia.
Qed.

(** ** which row of draws decides which gamete *)
Theorem meiosis_rows_nth geno xoprob : forall sel rnd i, (i < length sel)%nat ->
  nth i (meiosis_rows geno sel rnd xoprob) [] = gamete geno (nth i sel 0%nat) (nth i rnd []) xoprob.
Proof.
  induction sel as [|s ts IH]; intros rnd i H; cbn in H; [lia|]. cbn [meiosis_rows].
  destruct i as [|i].
  - cbn [nth]. destruct rnd; reflexivity.
  - cbn [nth]. rewrite IH by lia. destruct rnd; [destruct i|]; reflexivity.
Qed.

Lemma src_rows_nth xoprob : forall n rnd i, (i < n)%nat ->
  nth i (src_rows n rnd xoprob) [] = src (xo_row (nth i rnd []) xoprob).
Proof.
  induction n as [|n IH]; intros rnd i H; [lia|]. cbn [src_rows]. destruct i as [|i].
  - destruct rnd; reflexivity.
  - cbn [nth]. rewrite IH by lia. destruct rnd; [destruct i|]; reflexivity.
Qed.

(** ** the observable: a parent whose copies differ at every marker reveals the source copy of its gamete *)
Theorem decode_pick : forall g0 g1 c, length g0 = length c -> length g1 = length c ->
  Forall2 (fun a0 a1 => a0 <> a1) g0 g1 -> decode g0 g1 (pick g0 g1 c) = Some c.
Proof.
  induction g0 as [|a0 t0 IH]; intros [|a1 t1] [|b c] H0 H1 HD; try discriminate; [reflexivity|].
  inversion HD as [|x y l l' Hne HD']; subst. cbn [pick decode].
  injection H0 as H0. injection H1 as H1. rewrite (IH t1 c H0 H1 HD').
  destruct b.
  - rewrite Z.eqb_refl. destruct (Z.eqb_spec a1 a0) as [e|_]; [now elim Hne|reflexivity].
  - destruct (Z.eqb_spec a0 a1) as [e|_]; [now elim Hne|]. now rewrite Z.eqb_refl.
Qed.

Theorem provenance_observable geno s rnd xoprob :
  length (row geno 0 s) = length xoprob -> length (row geno 1 s) = length xoprob ->
  Forall2 (fun a0 a1 => a0 <> a1) (row geno 0 s) (row geno 1 s) ->
  decode (row geno 0 s) (row geno 1 s) (gamete geno s rnd xoprob) = Some (src (xo_row rnd xoprob)).
Proof.
  intros H0 H1 HD. unfold gamete.
  assert (L : forall xp rnd' b, length (phases b (xo_row rnd' xp)) = length xp).
  { induction xp as [|q xp IH]; intros rnd' b; cbn; [reflexivity|]. now rewrite IH. }
  apply decode_pick; [| |exact HD]; unfold src; now rewrite L.
Qed.
