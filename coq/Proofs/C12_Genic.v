(** C12 — genic variance = genetic variance with linkage ignored (only the i = j terms, whose D(r = 0) is 1);
    the D tables of [mk_setup]; Haldane's map function has no interference (over R); usefulness criterion. *)
From Coq Require Import Lqa Qfield.
From PV Require Import Lib.Common Model.C12_Var Model.C12_Enum Proofs.C12_Sums Proofs.C12_Chunks Proofs.C12_Var Proofs.C12_Selfing Proofs.C12_Meiosis Proofs.C12_Exact.
Local Open Scope Q_scope.

(** * a locus with itself: r = 0, D1 = D2 = 1 for every selfing depth *)
Lemma rprob_filial_0 k : rprob_filial 0 k == 0.
Proof. unfold rprob_filial. destruct k; field. Qed.
Lemma D1_r0 k : cov_D1s 0 k == 1.
Proof. unfold cov_D1s. destruct k as [[|k]|]; rewrite ?rprob_filial_0; ring. Qed.
Lemma D2_r0 k : cov_D2s 0 k == 1.
Proof. unfold cov_D2s. destruct k as [[|k]|]; cbv zeta; rewrite ?rprob_filial_0; ring. Qed.

Ltac injz := repeat match goal with |- context [inject_Z ?z] => let v := eval vm_compute in (inject_Z z) in change (inject_Z z) with v end.

Definition allele01 (g : list Z) : Prop := forall i, nth i g 0%Z = 0%Z \/ nth i g 0%Z = 1%Z.

(** ** two-way (inbred parents: both phases equal) *)
Theorem genic_twoway u p tr gA gB : allele01 gA -> allele01 gB ->
  genic_pair u p tr (tafreq gA gA) (tafreq gB gB) ==
  sumQ (map (fun i => eff u tr gA gB i * cov_D1s 0 (Some 0%nat) * eff u tr gA gB i) (ix p)).
Proof.
  intros HA HB. unfold genic_pair, genic_freq. rewrite qsum_sumQ. apply sumQ_ext_all. intros i. cbv zeta.
  unfold tafreq, eff, gdiff. rewrite D1_r0.
  destruct (HA i) as [-> | ->], (HB i) as [-> | ->]; injz; field.
Qed.

(** ** dihybrid (heterozygous parents, phases a0/a1 and b0/b1): 1 = a1, 2 = a0, 3 = b1, 4 = b0 as in the genetic matrix *)
Theorem genic_dihybrid u p tr a0 a1 b0 b1 : allele01 a0 -> allele01 a1 -> allele01 b0 -> allele01 b1 ->
  genic_pair u p tr (tafreq a0 a1) (tafreq b0 b1) ==
  sumQ (map (fun i => (1#4) * (eff u tr a0 a1 i * eff u tr a0 a1 i + eff u tr b1 a1 i * eff u tr b1 a1 i + eff u tr b1 a0 i * eff u tr b1 a0 i
                             + eff u tr b0 a1 i * eff u tr b0 a1 i + eff u tr b0 a0 i * eff u tr b0 a0 i + eff u tr b0 b1 i * eff u tr b0 b1 i)) (ix p)).
Proof.
  intros H1 H2 H3 H4. unfold genic_pair, genic_freq. rewrite qsum_sumQ. apply sumQ_ext_all. intros i. cbv zeta.
  unfold tafreq, eff, gdiff.
  destruct (H1 i) as [-> | ->], (H2 i) as [-> | ->], (H3 i) as [-> | ->], (H4 i) as [-> | ->];
    injz; field.
Qed.

(** ** three-way (inbred parents; 1 = recurrent, 2 = female, 3 = male): the i = j terms of the three-way block with D = 1 *)
Theorem genic_threeway u p tr gR gF gM : allele01 gR -> allele01 gF -> allele01 gM ->
  genic_tri u p tr (tafreq gR gR) (tafreq gF gF) (tafreq gM gM) ==
  sumQ (map (fun i => (1#4) * (2 * (eff u tr gF gR i * eff u tr gF gR i + eff u tr gM gR i * eff u tr gM gR i)
                             + eff u tr gF gM i * eff u tr gF gM i)) (ix p)).
Proof.
  intros H1 H2 H3. unfold genic_tri, genic_freq. rewrite qsum_sumQ. apply sumQ_ext_all. intros i. cbv zeta.
  unfold tafreq, eff, gdiff.
  destruct (H1 i) as [-> | ->], (H2 i) as [-> | ->], (H3 i) as [-> | ->]; injz; field.
Qed.

(** ** four-way (inbred parents g1..g4 = female2, male2, female1, male1): the i = j terms of the four-way block with D = 1 *)
Theorem genic_fourway u p tr g1 g2 g3 g4 : allele01 g1 -> allele01 g2 -> allele01 g3 -> allele01 g4 ->
  genic_quad u p tr (tafreq g1 g1) (tafreq g2 g2) (tafreq g3 g3) (tafreq g4 g4) ==
  sumQ (map (fun i => (1#4) * (eff u tr g2 g1 i * eff u tr g2 g1 i + eff u tr g3 g1 i * eff u tr g3 g1 i + eff u tr g3 g2 i * eff u tr g3 g2 i
                             + eff u tr g4 g1 i * eff u tr g4 g1 i + eff u tr g4 g2 i * eff u tr g4 g2 i + eff u tr g4 g3 i * eff u tr g4 g3 i)) (ix p)).
Proof.
  intros H1 H2 H3 H4. unfold genic_quad, genic_freq. rewrite qsum_sumQ. apply sumQ_ext_all. intros i. cbv zeta.
  unfold tafreq, eff, gdiff.
  destruct (H1 i) as [-> | ->], (H2 i) as [-> | ->], (H3 i) as [-> | ->], (H4 i) as [-> | ->];
    injz; field.
Qed.

(** the genic value does not depend on the order of the parents that share a contribution *)
Lemma genic_freq_ext u p tr pf pg : (forall i, pf i == pg i) -> genic_freq u p tr pf == genic_freq u p tr pg.
Proof.
  intros H. unfold genic_freq. rewrite !qsum_sumQ. apply sumQ_ext_all. intros i. cbv zeta. rewrite (H i). reflexivity.
Qed.
Lemma genic_pair_sym u p tr fa fb : genic_pair u p tr fa fb == genic_pair u p tr fb fa.
Proof. unfold genic_pair. apply genic_freq_ext. intros; ring. Qed.
Lemma genic_tri_sym u p tr fr fa fb : genic_tri u p tr fr fa fb == genic_tri u p tr fr fb fa.
Proof. unfold genic_tri. apply genic_freq_ext. intros; ring. Qed.
Lemma genic_quad_sym34 u p tr f1 f2 f3 f4 : genic_quad u p tr f1 f2 f3 f4 == genic_quad u p tr f1 f2 f4 f3.
Proof. unfold genic_quad. apply genic_freq_ext. intros; ring. Qed.

(** * the tables built by [mk_setup] are the coded D1/D2 of the recombination matrix *)
Lemma lookup_tabulate p f i j : (i < p)%nat -> (j < p)%nat -> lookup (tabulate p f) i j == f i j.
Proof.
  intros Hi Hj. unfold lookup, tabulate.
  rewrite (nth_map_seq (fun i0 => map (fun j0 => Qred (f i0 j0)) (seq 0 p)) p i [] Hi).
  rewrite (nth_map_seq (fun j0 => Qred (f i j0)) p j 0 Hj). apply Qred_correct.
Qed.

Definition in_range (p : nat) (chroms : list (nat * nat)) : Prop := Forall (fun c => (snd c <= p)%nat) chroms.

Theorem mk_setup_tables p u chroms mem k R : in_range p chroms ->
  (forall i j, (i < p)%nat -> (j < p)%nat -> 0 <= lookup R i j) ->
  D_tables (mk_setup p u chroms mem (Some k) R) (lookup R) k.
Proof.
  intros Hr Hp c i j Hc Hi Hj. cbn [mk_setup s_chroms s_D1 s_D2] in *.
  unfold in_range in Hr. rewrite Forall_forall in Hr. specialize (Hr c Hc).
  unfold ixs in Hi, Hj. apply in_seq in Hi. apply in_seq in Hj.
  assert (i < p)%nat by lia. assert (j < p)%nat by lia.
  split; [now apply Hp|]. split; now rewrite lookup_tabulate.
Qed.

(** * usefulness criterion: the accepted value is  mean + i * sqrt(var) *)
Lemma sq_inj a b : 0 <= a -> 0 <= b -> a * a == b * b -> a == b.
Proof. intros Ha Hb H. nra. Qed.

Theorem uc_def si mean var x y : 0 <= si -> 0 <= x - mean -> (x - mean) * (x - mean) == si * si * var ->
  0 <= y -> y * y == var -> x == mean + si * y.
Proof.
  intros Hs Hx Hsq Hy Hyy. assert (E : x - mean == si * y).
  { apply sq_inj; [exact Hx | now apply Qmult_le_0_compat |]. rewrite Hsq, <- Hyy. ring. }
  lra.
Qed.

(** * Haldane's map function has no interference: 1 - 2 r is multiplicative over adjacent intervals *)
From Coq Require Import Reals Lra.
Local Open Scope R_scope.
Definition haldane (d : R) : R := (1 - exp (- 2 * d)) / 2.
Lemma haldane_mult a b : 1 - 2 * haldane (a + b) = (1 - 2 * haldane a) * (1 - 2 * haldane b).
Proof.
  unfold haldane. replace (- 2 * (a + b)) with (- 2 * a + - 2 * b) by ring. rewrite exp_plus. field.
Qed.
Lemma haldane_0 : haldane 0 = 0.
Proof. unfold haldane. rewrite Rmult_0_r, exp_0. field. Qed.
Fixpoint rsum (l : list R) : R := match l with [] => 0 | x :: t => x + rsum t end.
Fixpoint rprod (l : list R) : R := match l with [] => 1 | x :: t => x * rprod t end.
(** loci separated by the gaps [gaps]: the pair's Haldane fraction corresponds to the product over the gaps' fractions,
    which is exactly the form [rho]/[rpair] quantified over in the enumeration theorem *)
Theorem haldane_chain (gaps : list R) : 1 - 2 * haldane (rsum gaps) = rprod (map (fun g => 1 - 2 * haldane g) gaps).
Proof.
  induction gaps as [|g gaps IH]; cbn [rsum map rprod].
  - rewrite haldane_0. ring.
  - rewrite haldane_mult, IH. reflexivity.
Qed.
Lemma haldane_range d : 0 <= d -> 0 <= haldane d < 1 / 2.
Proof.
  intros Hd. unfold haldane. assert (0 < exp (- 2 * d)) by apply exp_pos.
  assert (exp (- 2 * d) <= 1).
  { destruct (Req_dec d 0) as [->|Hn]; [rewrite Rmult_0_r, exp_0; lra|]. left. rewrite <- exp_0. apply exp_increasing. lra. }
  lra.
Qed.
