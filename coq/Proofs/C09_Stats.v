(** C09 — lemmas about Model/C09_Stats.v (counts; the float boundary lives in Lib/FloatDivProof.v). *)
From PV Require Import Lib.Common Model.C09_Stats.
Local Open Scope Z_scope.

(** ** genotype classes cover 0..ploidy and sum to the number of taxa *)
Lemma count_if_cons {A} (f : A -> bool) x l : count_if f (x :: l) = (if f x then 1 else 0) + count_if f l.
Proof. unfold count_if; cbn [filter]. destruct (f x); cbn [length]; lia. Qed.

Lemma indicator_sum (x : Z) (k : nat) : 0 <= x <= Z.of_nat k ->
  sumZ (map (fun i => if Z.of_nat i =? x then 1 else 0) (seq 0 (S k))) = 1.
Proof.
  (* generalised over the start of the range *)
  assert (G : forall len s, Z.of_nat s <= x < Z.of_nat (s + len) ->
              sumZ (map (fun i => if Z.of_nat i =? x then 1 else 0) (seq s len)) = 1
           /\ forall s', x < Z.of_nat s' -> sumZ (map (fun i => if Z.of_nat i =? x then 1 else 0) (seq s' len)) = 0).
  { induction len as [|len IH]; intros s Hs; [lia|]. split.
    - cbn [seq map sumZ fold_right]. destruct (Z.eqb_spec (Z.of_nat s) x) as [E|NE].
      + destruct len as [|len']; [cbn; lia|].
        assert (Z0 : forall l s', x < Z.of_nat s' -> sumZ (map (fun i => if Z.of_nat i =? x then 1 else 0) (seq s' l)) = 0).
        { induction l as [|l IHl]; intros s' Hs'; [reflexivity|]. cbn [seq map sumZ fold_right].
          destruct (Z.eqb_spec (Z.of_nat s') x); [lia|]. fold (sumZ (map (fun i => if Z.of_nat i =? x then 1 else 0) (seq (S s') l))).
          rewrite IHl by lia. lia. }
        fold (sumZ (map (fun i => if Z.of_nat i =? x then 1 else 0) (seq (S s) (S len')))). rewrite Z0 by lia. lia.
      + fold (sumZ (map (fun i => if Z.of_nat i =? x then 1 else 0) (seq (S s) len))).
        destruct (IH (S s)) as [H1 _]; [lia|]. rewrite H1. lia.
    - intros s' Hs'. clear IH Hs. revert s' Hs'. induction (S len) as [|l IHl]; intros s' Hs'; [reflexivity|].
      cbn [seq map sumZ fold_right]. destruct (Z.eqb_spec (Z.of_nat s') x); [lia|].
      fold (sumZ (map (fun i => if Z.of_nat i =? x then 1 else 0) (seq (S s') l))). rewrite IHl by lia. lia. }
  intros Hx. apply (G (S k) 0%nat). lia.
Qed.

Lemma sumZ_map_add {A} (f g : A -> Z) l : sumZ (map (fun i => f i + g i) l) = sumZ (map f l) + sumZ (map g l).
Proof. induction l as [|a l IH]; cbn [map sumZ fold_right]; [reflexivity|]. fold (sumZ (map (fun i => f i + g i) l)) (sumZ (map f l)) (sumZ (map g l)). lia. Qed.

Lemma classes_cover_column (k : nat) (c : list Z) : Forall (fun x => 0 <= x <= Z.of_nat k) c ->
  sumZ (map (fun i => count_if (Z.eqb (Z.of_nat i)) c) (seq 0 (S k))) = Z.of_nat (length c).
Proof.
  induction 1 as [|x c Hx Hc IH].
  - cbn [length]. induction (seq 0 (S k)) as [|a l IHl]; [reflexivity|]. cbn [map sumZ fold_right].
    fold (sumZ (map (fun i => count_if (Z.eqb (Z.of_nat i)) []) l)). rewrite IHl. reflexivity.
  - rewrite (map_ext _ (fun i => (if Z.of_nat i =? x then 1 else 0) + count_if (Z.eqb (Z.of_nat i)) c))
      by (intro i; apply count_if_cons).
    rewrite sumZ_map_add, IH, indicator_sum by exact Hx. cbn [length]. lia.
Qed.

(** column sums of the class-count table = number of taxa, for every locus *)
Definition dosages_ok (ploidy : nat) (mat : list (list Z)) : Prop :=
  Forall (Forall (fun x => 0 <= x <= Z.of_nat ploidy)) mat.

Lemma col_Forall (P : Z -> Prop) (j : nat) (mat : list (list Z)) : P 0 -> Forall (Forall P) mat -> Forall P (col 0 j mat).
Proof.
  intros P0 H. unfold col. induction H as [|r m Hr Hm IH]; cbn [map]; constructor; [|exact IH].
  destruct (Nat.lt_ge_cases j (length r)) as [L|G]; [rewrite Forall_forall in Hr; apply Hr, nth_In, L | rewrite nth_overflow by exact G; exact P0].
Qed.

Lemma gtcount_total (ploidy p : nat) (mat : list (list Z)) (j : nat) : dosages_ok ploidy mat -> (j < p)%nat ->
  sumZ (map (fun row => nth j row 0) (gtcount ploidy p mat)) = ntaxa mat.
Proof.
  intros Hd Hj. unfold gtcount. rewrite map_map.
  rewrite (map_ext_in _ (fun i => count_if (Z.eqb (Z.of_nat i)) (col 0 j mat))).
  - rewrite classes_cover_column; [unfold ntaxa, col; now rewrite map_length|].
    apply col_Forall; [lia | exact Hd].
  - intros i _. rewrite (nth_indep _ 0 (count_if (Z.eqb (Z.of_nat i)) (col 0 0%nat mat))) by (rewrite map_length, seq_length; exact Hj).
    rewrite (map_nth (fun j0 => count_if (Z.eqb (Z.of_nat i)) (col 0 j0 mat))). now rewrite seq_nth by exact Hj.
Qed.

Lemma gtcount_classes (ploidy p : nat) mat : length (gtcount ploidy p mat) = S ploidy.
Proof. unfold gtcount. now rewrite map_length, seq_length. Qed.

(** ** allele frequency: exact at the boundary, flags complementary *)
From Coq Require Import PrimFloat.
From PV Require Import Lib.FloatK Lib.FloatDivProof.

Lemma afreq_f1_boundary (c N : Z) : 0 <= c <= N -> 0 < N <= 2^53 ->
  (PrimFloat.eqb (afreq_f1 c N) 1%float = true <-> c = N) /\
  (PrimFloat.eqb (afreq_f1 c N) 0%float = true <-> c = 0) /\
  PrimFloat.leb 0%float (afreq_f1 c N) = true /\ PrimFloat.leb (afreq_f1 c N) 1%float = true.
Proof. intros H1 H2. destruct (fdivZ_boundary c N H1 H2) as (A & B & C & D & _). unfold afreq_f1. tauto. Qed.

Lemma bool_iff_eq (a b : bool) : (a = true <-> b = true) -> a = b.
Proof. destruct a, b; intros [H1 H2]; try reflexivity; [symmetry; now apply H1 | now apply H2]. Qed.

Lemma afixed_f1_exact (c N : Z) : 0 <= c <= N -> 0 < N <= 2^53 -> afixed_f1 (afreq_f1 c N) = afixed_z c N.
Proof.
  intros H1 H2. destruct (fdivZ_boundary c N H1 H2) as (A & B & _). unfold afixed_f1, afixed_z, afreq_f1.
  apply bool_iff_eq. rewrite !orb_true_iff, A, B, !Z.eqb_eq. tauto.
Qed.

Lemma apoly_f1_exact (c N : Z) : 0 <= c <= N -> 0 < N <= 2^53 -> apoly_f1 (afreq_f1 c N) = apoly_z c N.
Proof.
  intros H1 H2. destruct (fdivZ_boundary c N H1 H2) as (_ & _ & _ & _ & E & F). unfold apoly_f1, apoly_z, afreq_f1.
  apply bool_iff_eq. rewrite !andb_true_iff, E, F, !Z.ltb_lt. tauto.
Qed.

Lemma fixed_compl_poly_z (c N : Z) : 0 <= c <= N -> afixed_z c N = negb (apoly_z c N).
Proof. intros H. unfold afixed_z, apoly_z. destruct (Z.eqb_spec c 0), (Z.eqb_spec c N), (Z.ltb_spec 0 c), (Z.ltb_spec c N); cbn; try reflexivity; lia. Qed.

Lemma afixed_compl_apoly_f1 (c N : Z) : 0 <= c <= N -> 0 < N <= 2^53 ->
  afixed_f1 (afreq_f1 c N) = negb (apoly_f1 (afreq_f1 c N)).
Proof. intros H1 H2. rewrite afixed_f1_exact, apoly_f1_exact by assumption. now apply fixed_compl_poly_z. Qed.

(** the reciprocal formula (the code before the fix) violates the boundary law: witness N = 98 *)
Lemma afreq_recip_refuted : exists c N, 0 <= c <= N /\ 0 < N <= 2^53 /\ c = N /\ PrimFloat.eqb (afreq_recip_f1 c N) 1%float = false.
Proof. exists 98, 98. split; [lia|]. split; [lia|]. split; [reflexivity|]. exact frecipZ_refuted. Qed.

(** ** column sums: shapes and bounds *)
Definition shape_ok (n p : nat) (mat : list (list Z)) : Prop := length mat = n /\ Forall (fun r => length r = p) mat.

Lemma colsumsZ_length p rows : Forall (fun r => length r = p) rows -> length (colsumsZ p rows) = p.
Proof. induction 1 as [|r rows Hr _ IH]; cbn [colsumsZ fold_right]; [apply repeat_length|]. fold (colsumsZ p rows). rewrite map2_length, Hr, IH. apply Nat.min_id. Qed.

Lemma map2_add_bounds (k : Z) : forall (r s : list Z) (b : Z), length r = length s -> Forall (fun x => 0 <= x <= k) r -> Forall (fun x => 0 <= x <= b) s ->
  Forall (fun x => 0 <= x <= k + b) (map2 Z.add r s).
Proof.
  induction r as [|x r IH]; intros [|y s] b L Hr Hs; cbn in *; try discriminate; constructor.
  - inversion Hr; inversion Hs; subst; lia.
  - inversion Hr; inversion Hs; subst. apply IH; [lia|assumption|assumption].
Qed.

(** every column sum of a well-shaped dosage matrix lies in [0, ploidy * n] *)
Lemma acount_bounds (ploidy n p : nat) (mat : list (list Z)) : shape_ok n p mat -> dosages_ok ploidy mat ->
  Forall (fun c => 0 <= c <= Z.of_nat ploidy * Z.of_nat n) (acount p mat).
Proof.
  intros [Hn Hs] Hd. subst n. unfold acount. induction mat as [|r mat IH]; cbn [colsumsZ fold_right length].
  - rewrite Forall_forall. intros x Hx. apply repeat_spec in Hx. subst. lia.
  - fold (colsumsZ p mat). inversion Hs as [|? ? Hr Hs']; inversion Hd as [|? ? Hdr Hd']; subst.
    replace (Z.of_nat ploidy * Z.of_nat (S (length mat))) with (Z.of_nat ploidy + Z.of_nat ploidy * Z.of_nat (length mat)) by lia.
    apply map2_add_bounds; [rewrite colsumsZ_length by assumption; lia | assumption | apply IH; assumption].
Qed.

(** the full statement on matrices: for every locus the float frequency is in [0,1], is 0/1 exactly when the
    count is 0/N, and afixed is the complement of apoly *)
Lemma afreq_matrix_boundary (ploidy n p : nat) (mat : list (list Z)) :
  shape_ok n p mat -> dosages_ok ploidy mat -> (0 < ploidy)%nat -> (0 < n)%nat -> Z.of_nat ploidy * Z.of_nat n <= 2^53 ->
  let N := Z.of_nat ploidy * Z.of_nat n in
  Forall (fun c => (PrimFloat.eqb (afreq_f1 c N) 1%float = true <-> c = N) /\
                   (PrimFloat.eqb (afreq_f1 c N) 0%float = true <-> c = 0) /\
                   PrimFloat.leb 0%float (afreq_f1 c N) = true /\ PrimFloat.leb (afreq_f1 c N) 1%float = true /\
                   afixed_f1 (afreq_f1 c N) = negb (apoly_f1 (afreq_f1 c N)) /\
                   afixed_f1 (afreq_f1 c N) = afixed_z c N) (acount p mat).
Proof.
  intros Hs Hd Hp Hn HN N. pose proof (acount_bounds ploidy n p mat Hs Hd) as HB. fold N in HB.
  eapply Forall_impl; [|exact HB]. intros c Hc. cbv beta in Hc. assert (HN' : 0 < N <= 2^53) by (unfold N; split; [nia|exact HN]).
  destruct (afreq_f1_boundary c N Hc HN') as (A & B & C & D). repeat split; try tauto.
  - apply afixed_compl_apoly_f1; assumption.
  - apply afixed_f1_exact; assumption.
Qed.

(** ** a phased matrix and its unphased projection have the same allele counts *)
Notation vadd := (map2 Z.add).
Lemma vadd_comm : forall a b : list Z, vadd a b = vadd b a.
Proof. induction a as [|x a IH]; intros [|y b]; cbn; try reflexivity. now rewrite IH, Z.add_comm. Qed.
Lemma vadd_assoc : forall a b c : list Z, vadd a (vadd b c) = vadd (vadd a b) c.
Proof. induction a as [|x a IH]; intros [|y b] [|z c]; cbn; try reflexivity. now rewrite IH, Z.add_assoc. Qed.
Lemma vadd_zero_r : forall (a : list Z), vadd a (repeat 0 (length a)) = a.
Proof. induction a as [|x a IH]; cbn; [reflexivity|]. now rewrite IH, Z.add_0_r. Qed.
Lemma vadd_zero_l p (a : list Z) : length a = p -> vadd (repeat 0 p) a = a.
Proof. intros <-. rewrite vadd_comm. apply vadd_zero_r. Qed.

Lemma colsumsZ_app p (a b : list (list Z)) : Forall (fun r => length r = p) a -> Forall (fun r => length r = p) b ->
  colsumsZ p (a ++ b) = vadd (colsumsZ p a) (colsumsZ p b).
Proof.
  intros Ha Hb. induction Ha as [|r a Hr Ha IH]; cbn [app colsumsZ fold_right].
  - fold (colsumsZ p b). symmetry. apply vadd_zero_l, colsumsZ_length, Hb.
  - fold (colsumsZ p (a ++ b)) (colsumsZ p a). now rewrite IH, vadd_assoc.
Qed.

Lemma colsumsZ_madd p : forall (A B : list (list Z)), length A = length B ->
  Forall (fun r => length r = p) A -> Forall (fun r => length r = p) B ->
  colsumsZ p (madd A B) = vadd (colsumsZ p A) (colsumsZ p B).
Proof.
  induction A as [|r A IH]; intros [|s B] L HA HB; cbn in L; try discriminate.
  - cbn. symmetry. rewrite vadd_zero_l by apply repeat_length. reflexivity.
  - apply Forall_cons_iff in HA as [Hr HA']. apply Forall_cons_iff in HB as [Hs HB']. unfold madd. cbn [map2 colsumsZ fold_right].
    fold (madd A B) (colsumsZ p (madd A B)) (colsumsZ p A) (colsumsZ p B). rewrite IH by (assumption || lia).
    rewrite <- !vadd_assoc. f_equal. rewrite !vadd_assoc. f_equal. apply vadd_comm.
Qed.

Definition phases_ok (n p : nat) (ph : list (list (list Z))) : Prop := Forall (shape_ok n p) ph.

Lemma zeros_shape n p : shape_ok n p (zeros n p).
Proof. split; [apply repeat_length|]. rewrite Forall_forall. intros r Hr. apply repeat_spec in Hr. subst. apply repeat_length. Qed.

Lemma madd_shape n p A B : shape_ok n p A -> shape_ok n p B -> shape_ok n p (madd A B).
Proof.
  intros [LA HA] [LB HB]. subst n. revert B LB HB. induction A as [|r A IH]; intros [|s B] LB HB; cbn in LB; try discriminate.
  - split; [reflexivity|constructor].
  - apply Forall_cons_iff in HA as [Hr HA']. apply Forall_cons_iff in HB as [Hs HB']. destruct (IH HA' B) as [L' H']; [lia|assumption|]. split.
    + unfold madd in *. cbn [map2 length]. now rewrite L'.
    + unfold madd. cbn [map2]. constructor; [rewrite map2_length; lia | exact H'].
Qed.

Lemma tacount_ph_shape n p ph : phases_ok n p ph -> shape_ok n p (tacount_ph n p ph).
Proof. induction 1 as [|P ph HP _ IH]; cbn [tacount_ph fold_right]; [apply zeros_shape | now apply madd_shape]. Qed.

Lemma colsumsZ_zeros n p : colsumsZ p (zeros n p) = repeat 0 p.
Proof. unfold zeros. induction n as [|n IH]; cbn [repeat colsumsZ fold_right]; [reflexivity|]. fold (colsumsZ p (repeat (repeat 0 p) n)). rewrite IH. apply vadd_zero_l, repeat_length. Qed.

Lemma concat_rows_ok n p ph : phases_ok n p ph -> Forall (fun r => length r = p) (concat ph).
Proof. induction 1 as [|P ph [_ HP] _ IH]; cbn [concat]; [constructor|]. apply Forall_app. now split. Qed.

Lemma acount_phased_eq_projection (n p : nat) (ph : list (list (list Z))) : phases_ok n p ph ->
  acount_ph p ph = acount p (tacount_ph n p ph).
Proof.
  unfold acount_ph, acount. induction 1 as [|P ph HP Hph IH]; cbn [concat tacount_ph fold_right].
  - now rewrite colsumsZ_zeros.
  - fold (tacount_ph n p ph). destruct HP as [LP HP]. pose proof (tacount_ph_shape n p ph Hph) as [LT HT].
    rewrite colsumsZ_app by (assumption || now apply (concat_rows_ok n)). rewrite colsumsZ_madd by (assumption || lia). now rewrite IH.
Qed.

(** ** the phased polymorphism test (on alleles) agrees with the count-based flag *)
Lemma nth_vadd j (a b : list Z) : length a = length b -> nth j (vadd a b) 0 = nth j a 0 + nth j b 0.
Proof. revert j b. induction a as [|x a IH]; intros [|j] [|y b] L; cbn in *; try discriminate; try reflexivity. apply IH. lia. Qed.

Lemma nth_colsumsZ (p j : nat) (rows : list (list Z)) : Forall (fun r => length r = p) rows ->
  nth j (colsumsZ p rows) 0 = sumZ (col 0 j rows).
Proof.
  induction 1 as [|r rows Hr Hrows IH]; cbn [colsumsZ fold_right col map sumZ].
  - destruct (Nat.lt_ge_cases j p) as [L|G]; [apply nth_repeat | rewrite nth_overflow; [reflexivity | now rewrite repeat_length]].
  - fold (colsumsZ p rows) (col 0 j rows) (sumZ (col 0 j rows)). rewrite nth_vadd by (now rewrite colsumsZ_length). now rewrite IH.
Qed.

Definition alleles01 (ph : list (list (list Z))) : Prop := Forall (Forall (Forall (fun x => x = 0 \/ x = 1))) ph.

Lemma all0_iff_sum0 (c : list Z) : Forall (fun x => x = 0 \/ x = 1) c ->
  0 <= sumZ c <= Z.of_nat (length c) /\ forallb (Z.eqb 0) c = (sumZ c =? 0) /\ forallb (Z.eqb 1) c = (sumZ c =? Z.of_nat (length c)).
Proof.
  induction 1 as [|x c Hx Hc (B & IH0 & IH1)]; cbn [forallb sumZ fold_right length]; [repeat split; lia|].
  fold (sumZ c). rewrite IH0, IH1. change (Z.of_nat (S (length c))) with (Z.of_nat (1 + length c)). rewrite Nat2Z.inj_add. change (Z.of_nat 1) with 1.
  destruct Hx as [-> | ->].
  - split; [lia|]. split.
    + change (0 =? 0) with true. cbn [andb]. now rewrite Z.add_0_l.
    + change (1 =? 0) with false. cbn [andb]. destruct (Z.eqb_spec (0 + sumZ c) (1 + Z.of_nat (length c))); [lia|reflexivity].
  - split; [lia|]. split.
    + change (0 =? 1) with false. cbn [andb]. destruct (Z.eqb_spec (1 + sumZ c) 0); [lia|reflexivity].
    + change (1 =? 1) with true. cbn [andb]. destruct (Z.eqb_spec (sumZ c) (Z.of_nat (length c))), (Z.eqb_spec (1 + sumZ c) (1 + Z.of_nat (length c))); try reflexivity; lia.
Qed.

Lemma concat_length_phases n p ph : phases_ok n p ph -> length (concat ph) = (length ph * n)%nat.
Proof. induction 1 as [|P ph [LP _] _ IH]; cbn [concat length]; [reflexivity|]. rewrite app_length, IH, LP. lia. Qed.

Lemma concat_alleles01 ph : alleles01 ph -> Forall (Forall (fun x => x = 0 \/ x = 1)) (concat ph).
Proof. induction 1 as [|P ph HP _ IH]; cbn [concat]; [constructor|]. apply Forall_app. now split. Qed.

Lemma apoly_phased_exact (n p j : nat) (ph : list (list (list Z))) : phases_ok n p ph -> alleles01 ph -> (j < p)%nat ->
  nth j (apoly_ph p ph) false = apoly_z (nth j (acount_ph p ph) 0) (nphase ph * Z.of_nat n)
  /\ 0 <= nth j (acount_ph p ph) 0 <= nphase ph * Z.of_nat n.
Proof.
  intros Hs Ha Hj. unfold apoly_ph, acount_ph.
  rewrite (nth_indep _ false ((fun j0 => let c := col 0 j0 (concat ph) in negb (forallb (Z.eqb 0) c || forallb (Z.eqb 1) c)) 0%nat))
    by (now rewrite map_length, seq_length).
  rewrite (map_nth (fun j0 => let c := col 0 j0 (concat ph) in negb (forallb (Z.eqb 0) c || forallb (Z.eqb 1) c))), seq_nth by exact Hj.
  cbn zeta. rewrite Nat.add_0_l. rewrite nth_colsumsZ by (now apply (concat_rows_ok n)).
  assert (H01 : Forall (fun x => x = 0 \/ x = 1) (col 0 j (concat ph))) by (apply col_Forall; [now left | now apply concat_alleles01]).
  destruct (all0_iff_sum0 _ H01) as (B & E0 & E1). rewrite E0, E1.
  assert (L : Z.of_nat (length (col 0 j (concat ph))) = nphase ph * Z.of_nat n).
  { unfold col, nphase. rewrite map_length, (concat_length_phases n p) by assumption. lia. }
  rewrite L in *. split; [|exact B]. unfold apoly_z.
  destruct (Z.eqb_spec (sumZ (col 0 j (concat ph))) 0), (Z.eqb_spec (sumZ (col 0 j (concat ph))) (nphase ph * Z.of_nat n)),
    (Z.ltb_spec 0 (sumZ (col 0 j (concat ph)))), (Z.ltb_spec (sumZ (col 0 j (concat ph))) (nphase ph * Z.of_nat n)); cbn; try reflexivity; lia.
Qed.
