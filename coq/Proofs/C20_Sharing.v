(** C20 — proofs, part 8: deepcopy preserves the sharing pattern inside a container: two keys hold the same leaf
    object in the copy exactly when they did in the original (the memo of copy.deepcopy). *)
From PV Require Import Lib.Common Model.C20_Loop Proofs.C20_Heap.
Local Open Scope nat_scope.
Arguments hget : simpl never.

Definition memo_inj (m : list (loc * loc)) : Prop :=
  forall a b c, memo_get a m = Some c -> memo_get b m = Some c -> a = b.
Definition memo_below (m : list (loc * loc)) (n : nat) : Prop := forall a c, memo_get a m = Some c -> c < n.

Lemma copy_kvs_memo : forall kvs h m h' kvs',
  memo_inj m -> memo_below m (length h) -> copy_kvs h m kvs = Some (h', kvs') ->
  exists m', (forall a c, memo_get a m = Some c -> memo_get a m' = Some c) /\ memo_inj m' /\
             Forall2 (fun kl kl' => memo_get (snd kl) m' = Some (snd kl')) kvs kvs'.
Proof.
  induction kvs as [|[k l] t IH]; intros h m h' kvs' Hi Hb Hc; cbn in Hc.
  - injection Hc as <- <-. exists m. repeat split; auto; try constructor.
  - destruct (memo_get l m) as [l'|] eqn:Em.
    + destruct (copy_kvs h m t) as [[h1 t1]|] eqn:Ec; [|discriminate]. injection Hc as <- <-.
      destruct (IH _ _ _ _ Hi Hb Ec) as (m' & Hext & Hinj & HF). exists m'. split; [exact Hext|]. split; [exact Hinj|].
      constructor; [cbn; now apply Hext | exact HF].
    + destruct (hget h l) as [[kk|xs]|] eqn:Eg; try discriminate.
      destruct (copy_kvs (h ++ [OLeaf xs]) ((l, length h) :: m) t) as [[h1 t1]|] eqn:Ec; [|discriminate].
      injection Hc as <- <-.
      assert (Hi1 : memo_inj ((l, length h) :: m)).
      { intros a b c. cbn. destruct (Nat.eqb_spec a l) as [->|Na]; destruct (Nat.eqb_spec b l) as [->|Nb]; auto.
        - intros [= <-] Hb'. apply Hb in Hb'. lia.
        - intros Ha' [= <-]. apply Hb in Ha'. lia.
        - apply Hi. }
      assert (Hb1 : memo_below ((l, length h) :: m) (length (h ++ [OLeaf xs]))).
      { intros a c. cbn. rewrite app_length. cbn. destruct (Nat.eqb a l); [intros [= <-]; lia | intros H; apply Hb in H; lia]. }
      destruct (IH _ _ _ _ Hi1 Hb1 Ec) as (m' & Hext & Hinj & HF). exists m'. split; [|split; [exact Hinj|]].
      * intros a c Ha. apply Hext. cbn. destruct (Nat.eqb_spec a l) as [->|Na]; [congruence | exact Ha].
      * constructor; [|exact HF]. cbn. apply Hext. cbn. now rewrite Nat.eqb_refl.
Qed.

Lemma Forall2_nth_rel {X Y} (R : X -> Y -> Prop) la lb dx dy i :
  Forall2 R la lb -> i < length la -> R (nth i la dx) (nth i lb dy).
Proof.
  intros HF. revert i. induction HF as [|x y la lb HR HF IH]; intros [|i] Hi; cbn in *; try lia; [exact HR | apply IH; lia].
Qed.

Lemma Forall2_len {X Y} (R : X -> Y -> Prop) la lb : Forall2 R la lb -> length la = length lb.
Proof. induction 1; cbn; auto. Qed.

Theorem deepcopy_sharing h d h' d' kvs kvs' :
  deepcopy h d = Some (h', d') -> hget h d = Some (ODict kvs) -> hget h' d' = Some (ODict kvs') ->
  length kvs' = length kvs /\
  forall i j dflt, i < length kvs -> j < length kvs ->
    (snd (nth i kvs' dflt) = snd (nth j kvs' dflt) <-> snd (nth i kvs dflt) = snd (nth j kvs dflt)).
Proof.
  unfold deepcopy. intros Hd Hg Hg'. rewrite Hg in Hd.
  destruct (copy_kvs h [] kvs) as [[h1 kvs1]|] eqn:Ec; [|discriminate]. injection Hd as <- <-.
  rewrite hget_app_new in Hg'. injection Hg' as <-.
  destruct (copy_kvs_memo kvs h [] h1 kvs1) as (m' & _ & Hinj & HF); auto; try (intros a b c; discriminate); try (intros a c; discriminate).
  split; [symmetry; eapply Forall2_len; eauto|].
  intros i j dflt Hi Hj.
  pose proof (Forall2_nth_rel _ _ _ dflt dflt i HF Hi) as Ri. pose proof (Forall2_nth_rel _ _ _ dflt dflt j HF Hj) as Rj.
  cbn in Ri, Rj. split.
  - intros E. rewrite E in Ri. eapply Hinj; eauto.
  - intros E. rewrite E in Ri. congruence.
Qed.
