(** C14 — lemmas about Model/C14_Herit.v: the heritability setters over the family of genomic models (additive, additive +
    dominance with the design [A | D]) and the kernel constants that say which population variance each setter reads. *)
From Coq Require Import String Lqa Lia.
From PV Require Import Lib.Common Model.C14_Pheno Proofs.C14_Pheno Model.C14_Herit Gen.C14_Kernel.
Local Open Scope Q_scope.

(** whatever the model class and whichever variance is read, the error variance written calibrates THAT variance to the target *)
Lemma set_her_calibrated (broad : bool) (t : nat) (h : h2arg) (ploidy : Z) (dos : list (list Z)) (g : gmodel) (ve : list Q) :
  set_her broad t h ploidy dos g = Some ve ->
  forall j hj vj, nth_error (h2_vec t h) j = Some hj -> nth_error (gm_var broad t ploidy dos g) j = Some vj ->
    exists e, nth_error ve j = Some e /\ 0 <= e /\ e == (1 - hj) / hj * vj /\ (0 < vj -> 0 < hj -> hj <= 1 -> heritability vj e == hj).
Proof.
  unfold set_her, gm_var. intros S j hj vj Hh Hv.
  destruct (set_h2_calibrated t h _ ve S j hj vj Hh Hv) as (e & He & H0 & Hc).
  exists e. repeat split; try assumption.
  unfold set_h2 in S. destruct (forallb _ _); [|discriminate]. inversion S; subst ve; clear S.
  rewrite (nth_error_map2 h2_err _ _ j hj vj Hh Hv) in He. inversion He. reflexivity.
Qed.

(** broad sense, additive + dominance model: set_H2 calibrates the variance of the genotypic values over the design [A | D] *)
Lemma ge_set_H2_dominance_calibrated (t : nat) (h : h2arg) (ploidy : Z) (dos : list (list Z)) (ua ud : list (list Q)) (ve : list Q) :
  ge_set_H2 t h ploidy dos (GAddDom ua ud) = Some ve ->
  forall j hj vj, nth_error (h2_vec t h) j = Some hj ->
    nth_error (var_cols t (gebv_raw t (map2 (@app Z) dos (map (map (het ploidy)) dos)) (ua ++ ud))) j = Some vj ->
    exists e, nth_error ve j = Some e /\ 0 <= e /\ e == (1 - hj) / hj * vj /\ (0 < vj -> 0 < hj -> hj <= 1 -> vj / (vj + e) == hj).
Proof. intros S j hj vj Hh Hv. exact (set_her_calibrated true t h ploidy dos (GAddDom ua ud) ve S j hj vj Hh Hv). Qed.

(** narrow sense, any model: set_h2 calibrates the variance of the breeding values A @ u_a (dominance effects play no part) *)
Lemma ge_set_h2_narrow_calibrated (t : nat) (h : h2arg) (ploidy : Z) (dos : list (list Z)) (g : gmodel) (ve : list Q) :
  ge_set_h2 t h ploidy dos g = Some ve ->
  forall j hj vj, nth_error (h2_vec t h) j = Some hj -> nth_error (var_cols t (gebv_raw t dos (gm_u_a g))) j = Some vj ->
    exists e, nth_error ve j = Some e /\ 0 <= e /\ e == (1 - hj) / hj * vj /\ (0 < vj -> 0 < hj -> hj <= 1 -> vj / (vj + e) == hj).
Proof. intros S j hj vj Hh Hv. exact (set_her_calibrated false t h ploidy dos g ve S j hj vj Hh Hv). Qed.

(** valid targets are accepted by both setters for every model class *)
Lemma set_her_accepts (broad : bool) (t : nat) (h : h2arg) (ploidy : Z) (dos : list (list Z)) (g : gmodel) :
  Forall (fun x => 0 < x /\ x <= 1) (h2_vec t h) -> exists ve, set_her broad t h ploidy dos g = Some ve.
Proof. intro H. unfold set_her. now apply set_h2_accepts. Qed.

(** for the additive class (and rrBLUPModel0) genotypic and breeding values coincide: both setters write the same variance *)
Lemma additive_broad_is_narrow (t : nat) (h : h2arg) (ploidy : Z) (dos : list (list Z)) (u : list (list Q)) :
  set_her true t h ploidy dos (GAdd u) = set_her false t h ploidy dos (GAdd u).
Proof. reflexivity. Qed.

(** the seeded defect: a set_H2 that reads var_A does NOT calibrate the genetic variance of a dominance model on a population
    with a heterozygous taxon (3 diploid taxa with dosages 1, 0, 2 at one locus, u_a = u_d = 1, target 1/2: genetic variance 8/9,
    error variance written 2/3, ratio 4/7), while set_H2 as modelled does *)
Lemma bad_set_H2_refuted :
  let dos := [[1%Z]; [0%Z]; [2%Z]] in let g := GAddDom [[1]] [[1]] in let h := HScalar (1 # 2) in
  exists ve ve' vG, bad_set_H2 1 h 2 dos g = Some [ve] /\ ge_set_H2 1 h 2 dos g = Some [ve'] /\ gm_var true 1 2 dos g = [vG] /\
    0 < vG /\ ~ heritability vG ve == 1 # 2 /\ heritability vG ve' == 1 # 2.
Proof.
  cbv zeta. eexists; eexists; eexists.
  split; [vm_compute; reflexivity|]. split; [vm_compute; reflexivity|]. split; [vm_compute; reflexivity|].
  split; [reflexivity|]. split; [intro E; vm_compute in E; discriminate E | vm_compute; reflexivity].
Qed.

(** * kernel: which variance each setter of the source reads *)
Lemma k_h2_broad_model : k_h2_broad = model_h2_broad. Proof. reflexivity. Qed.
Lemma k_H2_broad_model : k_H2_broad = model_H2_broad. Proof. reflexivity. Qed.

Lemma kernel_set_H2_dominance_calibrated (t : nat) (h : h2arg) (ploidy : Z) (dos : list (list Z)) (ua ud : list (list Q)) (ve : list Q) :
  set_her k_H2_broad t h ploidy dos (GAddDom ua ud) = Some ve ->
  forall j hj vj, nth_error (h2_vec t h) j = Some hj ->
    nth_error (var_cols t (gebv_raw t (map2 (@app Z) dos (map (map (het ploidy)) dos)) (ua ++ ud))) j = Some vj ->
    exists e, nth_error ve j = Some e /\ e == k_H2_err hj vj /\ (0 < vj -> 0 < hj -> hj <= 1 -> vj / (vj + e) == hj).
Proof.
  rewrite k_H2_broad_model. intros S j hj vj Hh Hv.
  destruct (ge_set_H2_dominance_calibrated t h ploidy dos ua ud ve S j hj vj Hh Hv) as (e & He & _ & Hf & Hc).
  exists e. repeat split; assumption.
Qed.

Lemma kernel_set_h2_narrow_calibrated (t : nat) (h : h2arg) (ploidy : Z) (dos : list (list Z)) (g : gmodel) (ve : list Q) :
  set_her k_h2_broad t h ploidy dos g = Some ve ->
  forall j hj vj, nth_error (h2_vec t h) j = Some hj -> nth_error (var_cols t (gebv_raw t dos (gm_u_a g))) j = Some vj ->
    exists e, nth_error ve j = Some e /\ e == k_h2_err hj vj /\ (0 < vj -> 0 < hj -> hj <= 1 -> vj / (vj + e) == hj).
Proof.
  rewrite k_h2_broad_model. intros S j hj vj Hh Hv.
  destruct (ge_set_h2_narrow_calibrated t h ploidy dos g ve S j hj vj Hh Hv) as (e & He & _ & Hf & Hc).
  exists e. repeat split; assumption.
Qed.
