(** C11 — crossover probabilities: vrnt_xoprob is the map function of consecutive interpolated gaps, one half at
    chromosome starts; soundness of the point check [xo_pt] used by the shards. *)
From Coq Require Import Reals Qreals Sorting.Sorted Sorting.Permutation Lia.
From PV Require Import Lib.Common Model.C11_Map Model.C11_MapFn Model.C11_Check Proofs.C11_Map Proofs.C11_MapFn.

Lemma xoprob_spec k rows variants :
  let sv := sort_pairs variants in
  let gp := interp_genpos rows sv in
  Permutation sv variants /\ Sorted pair_le sv /\
  length (xoprob k rows variants) = length variants /\
  ((0 < length variants)%nat -> nth 0 (xoprob k rows variants) XNaN = XR (1 / 2)%R) /\
  (forall j, (S j < length variants)%nat ->
     nth (S j) (xoprob k rows variants) XNaN =
     if (fst (nth j sv (0, 0)) =? fst (nth (S j) sv (0, 0)))%Z
     then mapfn_ext k (ext_sub (nth (S j) gp NaN) (nth j gp NaN))
     else XR (1 / 2)%R).
Proof.
  cbv zeta. split; [apply sort_pairs_perm|]. split; [apply sort_pairs_sorted|].
  unfold xoprob, gmat_gaps, gmat_genpos.
  set (sv := sort_pairs variants). set (gp := interp_genpos rows sv).
  assert (Ls : length sv = length variants) by apply sort_pairs_length.
  assert (L : length (map fst sv) = length gp) by (unfold gp, interp_genpos; now rewrite !map_length).
  assert (Lc : length (map fst sv) = length variants) by (now rewrite map_length).
  split; [|split].
  - rewrite map_length. unfold gdist1g. rewrite !pyslice_all, gdist1g_from_length by exact L. exact Lc.
  - intros H. change XNaN with (mapfn_ext k NaN). rewrite map_nth, gdist1g_start by (exact L || lia). reflexivity.
  - intros j Hj. change XNaN with (mapfn_ext k NaN) at 1. rewrite map_nth, gdist1g_entry by (exact L || lia).
    change 0%Z with (fst (0%Z, 0%Z)). rewrite !map_nth. cbn [fst].
    destruct (fst (nth j sv (0%Z, 0%Z)) =? fst (nth (S j) sv (0%Z, 0%Z)))%Z; reflexivity.
Qed.

(** what a [true] answer of the shard's point check means *)
Lemma xo_pt_sound k gap gapf xo : xo_pt k gap gapf xo = true ->
  match mapfn_ext k gap, xo with
  | XR v, Fin x => (Rabs (v - Q2R x) <= match gap with Fin g => Q2R (tol_near g x) | _ => 0 end)%R
  | XNaN, NaN => True
  | _, _ => False
  end.
Proof.
  unfold xo_pt. destruct gap as [g| |], gapf as [gf| |], xo as [x| |]; try discriminate; cbn [mapfn_ext].
  - intros H. apply andb_prop in H as [H _]. now apply mapfn_near_sound.
  - intros H. apply Qeq_bool_iff, Qeq_eqR in H. rewrite H. unfold half, Q2R. cbn. replace (1 / 2 - 1 * / 2)%R with 0%R by field. rewrite Rabs_R0. apply Rle_refl.
  - trivial.
Qed.
