(** C16 — several objects in one file: a write under group g leaves every path outside g untouched (frame property of
    h5py_File_write_dict / to_hdf5, for every version of the writer, every class table, every object, group name, overwrite flag
    and prior file content), and a file handed to to_hdf5 BY NAME is opened in append mode by every persistable class. *)
From Coq Require Import String Lia.
From PV Require Import Lib.Common Lib.C16_Spec Model.C16_Store Gen.C16_Fields Gen.C16_Kernel Model.C16_Multi
                       Proofs.C16_Store Proofs.C16_Nested Proofs.C16_Tables.
Local Open Scope Z_scope.

(** ** group name + ANY key (keys with '/' included) lies below the group *)
Lemma split_aux_app_gen g : forall cur k, g <> [] -> last g 0 = 47 -> split_aux cur (g ++ k) = split_aux cur g ++ split_aux [] k.
Proof.
  induction g as [|c g' IH]; intros cur k Hne Hl; [congruence|].
  destruct g' as [|c' g''].
  - cbn in Hl. subst c. cbn [app split_aux]. rewrite Z.eqb_refl. destruct cur; cbn [is_nil]; reflexivity.
  - assert (Hl' : last (c' :: g'') 0 = 47) by exact Hl.
    change ((c :: c' :: g'') ++ k) with (c :: ((c' :: g'') ++ k)). cbn [split_aux].
    destruct (c =? 47).
    + destruct (is_nil cur); rewrite IH by (try discriminate; auto); reflexivity.
    + rewrite IH by (try discriminate; auto). reflexivity.
Qed.
Lemma split_path_app gn k : gn <> [] -> last gn 0 = 47 -> split_path (gn ++ k) = split_path gn ++ split_path k.
Proof. intros. unfold split_path. apply split_aux_app_gen; assumption. Qed.

Lemma is_prefix_trans a b c : is_prefix a b = true -> is_prefix b c = true -> is_prefix a c = true.
Proof.
  intros H1 H2. apply is_prefix_app in H1 as [t ->]. apply is_prefix_app in H2 as [t' ->].
  apply is_prefix_app. exists (t ++ t'). rewrite app_assoc. reflexivity.
Qed.
Lemma is_prefix_app_l b p t : is_prefix b p = true -> is_prefix b (p ++ t) = true.
Proof. intro H. apply is_prefix_app in H as [u ->]. apply is_prefix_app. exists (u ++ t). rewrite app_assoc. reflexivity. Qed.
Lemma prefix_comparable q : forall b p, is_prefix q p = true -> is_prefix b p = true -> is_prefix q b = true \/ is_prefix b q = true.
Proof.
  induction q as [|x q IH]; intros b p Hq Hb; [left; reflexivity|].
  destruct b as [|y b]; [right; reflexivity|]. destruct p as [|z p]; [discriminate|].
  cbn in Hq, Hb. apply andb_prop in Hq as [Hx Hq]. apply andb_prop in Hb as [Hy Hb].
  apply str_eqb_eq in Hx. apply str_eqb_eq in Hy. subst x y.
  cbn. rewrite (proj2 (str_eqb_eq z z) eq_refl). cbn. eapply IH; eauto.
Qed.

(** ** the frame relation: outside [b] every path keeps its node; the only thing that may appear is an (empty) group on the way
    down to [b] — h5py creates the missing ancestors of a dataset *)
Definition frame_rel (b : path) (f f' : file) : Prop :=
  forall q, is_prefix b q = false ->
    lookup q f' = lookup q f \/ (lookup q f = None /\ lookup q f' = Some NGroup /\ is_prefix q b = true).

Lemma frame_refl b f : frame_rel b f f. Proof. intros q _. left. reflexivity. Qed.
Lemma frame_trans b f f1 f2 : frame_rel b f f1 -> frame_rel b f1 f2 -> frame_rel b f f2.
Proof.
  intros H1 H2 q Hq. destruct (H1 q Hq) as [E1|[N1 [G1 P1]]]; destruct (H2 q Hq) as [E2|[N2 [G2 P2]]].
  - left. congruence.
  - right. split; [congruence|]. split; assumption.
  - right. split; [exact N1|]. split; [congruence | exact P1].
  - congruence.
Qed.

Lemma frame_del b p f : is_prefix b p = true -> frame_rel b f (del p f).
Proof.
  intros Hp q Hq. left. apply lookup_del_other. destruct (is_prefix p q) eqn:E; [|reflexivity].
  rewrite (is_prefix_trans _ _ _ Hp E) in Hq. discriminate.
Qed.

Lemma path_eq_dec : forall a b : path, {a = b} + {a <> b}.
Proof. apply list_eq_dec. apply list_eq_dec. apply Z.eq_dec. Qed.

Lemma frame_create b p d f f2 : is_prefix b p = true -> create p d f = inl f2 -> frame_rel b f f2.
Proof.
  intros Hp Hc q Hq.
  assert (Hne : q <> p) by (intro; subst q; congruence).
  destruct (in_dec path_eq_dec q (prefixes p)) as [Hin|Hnin].
  - destruct (mem q f) eqn:Em.
    + left. eapply lookup_create_mem; eauto.
    + right. assert (Hq0 : q <> []) by (intro; subst q; discriminate).
      split; [apply mem_lookup; exact Em|]. split; [eapply lookup_create_group; eauto|].
      destruct (prefix_comparable q b p (is_prefix_of_prefixes _ _ Hin) Hp) as [H|H]; [exact H | congruence].
  - left. eapply lookup_create_other; eauto.
Qed.

(** ** h5py_File_write_dict, every version, every dictionary (nested members, None items, unstorable items, any key) *)
Lemma write_flat_frame b fx l : forall f g ow f' e,
  (forall k, is_prefix b (split_path (g ++ k)) = true) ->
  write_flat fx f g l ow = (f', e) -> frame_rel b f f'.
Proof.
  induction l as [|[k v] t IH]; intros f g ow f' e Hb Hw; cbn [write_flat] in Hw.
  - inversion Hw; subst; apply frame_refl.
  - pose proof (Hb k) as Hk. destruct v as [[d|]|].
    + assert (R1 : frame_rel b f (if mem (split_path (g ++ k)) f && ow then del (split_path (g ++ k)) f else f)).
      { destruct (mem (split_path (g ++ k)) f && ow); [apply frame_del; exact Hk | apply frame_refl]. }
      destruct (create (split_path (g ++ k)) d _) as [f2|er] eqn:Ec.
      * eapply frame_trans; [exact R1|]. eapply frame_trans; [eapply frame_create; eauto|]. eapply IH; eauto.
      * inversion Hw; subst. exact R1.
    + inversion Hw; subst; apply frame_refl.
    + eapply frame_trans; [|eapply IH; eauto].
      destruct (clears_none fx && ow && mem (split_path (g ++ k)) f); [apply frame_del; exact Hk | apply frame_refl].
Qed.

Lemma nested_below b g k kk : is_prefix b (split_path (g ++ k)) = true -> is_prefix b (split_path (((g ++ k) ++ [47]) ++ kk)) = true.
Proof.
  intro H. rewrite split_path_app.
  - apply is_prefix_app_l. unfold split_path. rewrite split_aux_trailing. exact H.
  - destruct (g ++ k); discriminate.
  - apply last_last.
Qed.

Lemma write_dict_frame_gen b fx l : forall f g ow f' e,
  (forall k, is_prefix b (split_path (g ++ k)) = true) ->
  write_dict fx f g l ow = (f', e) -> frame_rel b f f'.
Proof.
  induction l as [|[k it] t IH]; intros f g ow f' e Hb Hw; cbn [write_dict] in Hw.
  - inversion Hw; subst; apply frame_refl.
  - pose proof (Hb k) as Hk. destruct it as [|d|sub|].
    + eapply frame_trans; [|eapply IH; eauto].
      destruct (clears_none fx && ow && mem (split_path (g ++ k)) f); [apply frame_del; exact Hk | apply frame_refl].
    + assert (R1 : frame_rel b f (if mem (split_path (g ++ k)) f && ow then del (split_path (g ++ k)) f else f)).
      { destruct (mem (split_path (g ++ k)) f && ow); [apply frame_del; exact Hk | apply frame_refl]. }
      destruct (create (split_path (g ++ k)) d _) as [f2|er] eqn:Ec.
      * eapply frame_trans; [exact R1|]. eapply frame_trans; [eapply frame_create; eauto|]. eapply IH; eauto.
      * inversion Hw; subst. exact R1.
    + assert (R0 : frame_rel b f (if clears_dict fx && ow && mem (split_path (g ++ k)) f then del (split_path (g ++ k)) f else f)).
      { destruct (clears_dict fx && ow && mem (split_path (g ++ k)) f); [apply frame_del; exact Hk | apply frame_refl]. }
      destruct (write_flat fx _ ((g ++ k) ++ [47]) sub true) as [f1 [er|]] eqn:Ef.
      * inversion Hw; subst. eapply frame_trans; [exact R0|]. eapply write_flat_frame; [|exact Ef]. intro kk. apply nested_below. exact Hk.
      * eapply frame_trans; [exact R0|]. eapply frame_trans; [eapply write_flat_frame; [|exact Ef]; intro kk; apply nested_below; exact Hk|].
        eapply IH; eauto.
    + inversion Hw; subst; apply frame_refl.
Qed.

(** ** to_hdf5 *)
Definition group_path (g : option str) : path := match g with Some s => split_path s | None => [] end.

Theorem to_hdf5_frame fx s f g o ow f' e : to_hdf5 fx s f g o ow = (f', e) -> frame_rel (group_path g) f f'.
Proof.
  unfold to_hdf5. destruct g as [s0|].
  - destruct s0 as [|c s0]; cbn [norm_group].
    + intro H; inversion H; subst; apply frame_refl.
    + intro Hw. eapply write_dict_frame_gen; [|exact Hw]. intro k. cbn [group_path].
      destruct (slash_end_wf (c :: s0)) as [E|[Hne Hl]]; [discriminate | |].
      * unfold slash_end in E. destruct (last (c :: s0) 0 =? 47); [discriminate | destruct s0; discriminate].
      * rewrite split_path_app by assumption. rewrite split_slash_end. apply is_prefix_app_l. apply is_prefix_refl.
  - intros _ q Hq. discriminate.
Qed.

(** datasets outside the group are exactly the datasets that were there: none lost, none changed, none invented *)
Corollary to_hdf5_outside_data fx s f g o ow f' e : to_hdf5 fx s f g o ow = (f', e) ->
  forall q d, is_prefix (group_path g) q = false -> (lookup q f' = Some (NData d) <-> lookup q f = Some (NData d)).
Proof.
  intros Hw q d Hq. destruct (to_hdf5_frame _ _ _ _ _ _ _ _ Hw q Hq) as [E|[N [G _]]].
  - rewrite E. reflexivity.
  - rewrite N, G. split; discriminate.
Qed.
(** whatever exists outside the group keeps its node *)
Corollary to_hdf5_outside_kept fx s f g o ow f' e : to_hdf5 fx s f g o ow = (f', e) ->
  forall q, is_prefix (group_path g) q = false -> mem q f = true -> lookup q f' = lookup q f.
Proof.
  intros Hw q Hq Hm. destruct (to_hdf5_frame _ _ _ _ _ _ _ _ Hw q Hq) as [E|[N _]]; [exact E|].
  apply mem_lookup in N. congruence.
Qed.

(** a whole history of writes (any classes, any groups, any flags): a path that lies outside every group written keeps its dataset *)
Theorem write_seq_outside_data steps : forall f q d,
  Forall (fun st => is_prefix (group_path (snd (fst (fst st)))) q = false) steps ->
  (lookup q (write_seq f steps) = Some (NData d) <-> lookup q f = Some (NData d)).
Proof.
  induction steps as [|[[[s g] o] ow] t IH]; intros f q d Hall; [reflexivity|].
  inversion Hall as [|? ? Hq Ht]; subst. cbn [write_seq]. rewrite (IH _ q d Ht).
  destruct (to_hdf5 VCur s f g o ow) as [f1 e] eqn:Ew. cbn [fst]. eapply to_hdf5_outside_data; eauto.
Qed.

(** ** the file-open expression of every to_hdf5 (Gen/C16_Kernel.v, one row per class): a file given by name is opened with
    mode 'a', whatever [overwrite] is; hence handing the file over by name is handing over its content *)
Lemma open_mode_rows : map fst k_h5_open_mode = map cname persistable
  /\ forallb (fun r => String.eqb (snd r true) "a" && String.eqb (snd r false) "a") k_h5_open_mode = true.
Proof. split; vm_compute; reflexivity. Qed.

Lemma open_mode_is_append s : In s persistable -> forall ow, open_mode_of (cname s) ow = "a"%string.
Proof.
  intros Hin ow. assert (H : forallb (fun s => String.eqb (open_mode_of (cname s) true) "a" && String.eqb (open_mode_of (cname s) false) "a") persistable = true)
    by (vm_compute; reflexivity).
  rewrite forallb_forall in H. specialize (H s Hin). apply andb_prop in H as [Ht Hf].
  apply String.eqb_eq in Ht. apply String.eqb_eq in Hf. destruct ow; assumption.
Qed.

Theorem to_hdf5_named_is_append s : In s persistable ->
  forall ex f g o ow, to_hdf5_named s ex f g o ow = to_hdf5 VCur s f g o ow.
Proof.
  intros Hin ex f g o ow. unfold to_hdf5_named. rewrite (open_mode_is_append s Hin ow). cbn [open_named String.eqb Ascii.eqb Bool.eqb].
  unfold to_hdf5. destruct (norm_group g); reflexivity.
Qed.

(** hence the frame property for both ways of handing the file over *)
Theorem to_hdf5_any_frame s : In s persistable -> forall by_name ex f g o ow f' e,
  to_hdf5_any by_name s ex f g o ow = (f', e) -> frame_rel (group_path g) f f'.
Proof.
  intros Hin by_name ex f g o ow f' e. unfold to_hdf5_any. destruct by_name.
  - rewrite to_hdf5_named_is_append by exact Hin. apply to_hdf5_frame.
  - apply to_hdf5_frame.
Qed.

(** non-vacuity / witness: truncating instead ('w') loses a dataset outside the group *)
Lemma truncate_loses : exists f q d, lookup q f = Some (NData d) /\ is_prefix [[98]] q = false
  /\ open_named "w" true f = Some [] /\ lookup q [] = None.
Proof. exists [([[97]; [109]], NData (DArr TI64 [] [1])); ([[97]], NGroup)], [[97]; [109]], (DArr TI64 [] [1]). repeat split. Qed.

(** ** objects stored elsewhere read back the same.  [below b f] is the part of the file under [b]; two group paths are [apart]
    when neither is a prefix of the other ('a/b' and 'a/bc', 'x' and 'a/b/c').  A write under [b] leaves [below b'] as it is, entry
    by entry and in order, and from_hdf5 at [b'] looks at nothing else. *)
Definition below (b : path) (f : file) : file := filter (fun e => is_prefix b (fst e)) f.
Definition apart (b b' : path) : Prop := is_prefix b b' = false /\ is_prefix b' b = false.

Lemma apart_no_common b b' p : apart b b' -> is_prefix b p = true -> is_prefix b' p = false.
Proof. intros [A B] Hp. destruct (is_prefix b' p) eqn:E; [|reflexivity]. destruct (prefix_comparable b' b p E Hp); congruence. Qed.
Lemma apart_nonnil b b' : apart b b' -> b' <> [].
Proof. intros [_ B] ->. discriminate. Qed.

Lemma below_del b b' p f : apart b b' -> is_prefix b p = true -> below b' (del p f) = below b' f.
Proof.
  intros Ha Hp. unfold below, del. apply filter_filter_same. intros [q n] Hq. cbn [fst] in *.
  destruct (is_prefix p q) eqn:E; [|reflexivity]. rewrite (apart_no_common b b' q Ha (is_prefix_trans _ _ _ Hp E)) in Hq. discriminate.
Qed.
Lemma below_create b b' p d f f2 : apart b b' -> is_prefix b p = true -> create p d f = inl f2 -> below b' f2 = below b' f.
Proof.
  intros Ha Hp Hc. apply create_inl in Hc as [_ ->]. unfold below. cbn [filter fst]. rewrite (apart_no_common b b' p Ha Hp).
  rewrite filter_app. rewrite filter_none; [reflexivity|]. intros [q n] Hin. apply in_new_groups in Hin as [Hq _]. cbn [fst] in *.
  destruct (is_prefix b' q) eqn:E; [|reflexivity].
  pose proof (is_prefix_trans _ _ _ E (is_prefix_of_prefixes _ _ Hq)) as H. rewrite (apart_no_common b b' p Ha Hp) in H. discriminate.
Qed.

Lemma write_flat_below b b' fx l : apart b b' -> forall f g ow f' e,
  (forall k, is_prefix b (split_path (g ++ k)) = true) ->
  write_flat fx f g l ow = (f', e) -> below b' f' = below b' f.
Proof.
  intro Ha. induction l as [|[k v] t IH]; intros f g ow f' e Hb Hw; cbn [write_flat] in Hw.
  - inversion Hw; subst; reflexivity.
  - pose proof (Hb k) as Hk. destruct v as [[d|]|].
    + assert (R1 : below b' (if mem (split_path (g ++ k)) f && ow then del (split_path (g ++ k)) f else f) = below b' f).
      { destruct (mem (split_path (g ++ k)) f && ow); [eapply below_del; eauto | reflexivity]. }
      destruct (create (split_path (g ++ k)) d _) as [f2|er] eqn:Ec.
      * rewrite (IH _ _ _ _ _ Hb Hw). rewrite (below_create _ _ _ _ _ _ Ha Hk Ec). exact R1.
      * inversion Hw; subst. exact R1.
    + inversion Hw; subst; reflexivity.
    + rewrite (IH _ _ _ _ _ Hb Hw).
      destruct (clears_none fx && ow && mem (split_path (g ++ k)) f); [eapply below_del; eauto | reflexivity].
Qed.
Lemma write_dict_below b b' fx l : apart b b' -> forall f g ow f' e,
  (forall k, is_prefix b (split_path (g ++ k)) = true) ->
  write_dict fx f g l ow = (f', e) -> below b' f' = below b' f.
Proof.
  intro Ha. induction l as [|[k it] t IH]; intros f g ow f' e Hb Hw; cbn [write_dict] in Hw.
  - inversion Hw; subst; reflexivity.
  - pose proof (Hb k) as Hk. destruct it as [|d|sub|].
    + rewrite (IH _ _ _ _ _ Hb Hw).
      destruct (clears_none fx && ow && mem (split_path (g ++ k)) f); [eapply below_del; eauto | reflexivity].
    + assert (R1 : below b' (if mem (split_path (g ++ k)) f && ow then del (split_path (g ++ k)) f else f) = below b' f).
      { destruct (mem (split_path (g ++ k)) f && ow); [eapply below_del; eauto | reflexivity]. }
      destruct (create (split_path (g ++ k)) d _) as [f2|er] eqn:Ec.
      * rewrite (IH _ _ _ _ _ Hb Hw). rewrite (below_create _ _ _ _ _ _ Ha Hk Ec). exact R1.
      * inversion Hw; subst. exact R1.
    + assert (R0 : below b' (if clears_dict fx && ow && mem (split_path (g ++ k)) f then del (split_path (g ++ k)) f else f) = below b' f).
      { destruct (clears_dict fx && ow && mem (split_path (g ++ k)) f); [eapply below_del; eauto | reflexivity]. }
      destruct (write_flat fx _ ((g ++ k) ++ [47]) sub true) as [f1 [er|]] eqn:Ef.
      * inversion Hw; subst. rewrite (write_flat_below b b' fx sub Ha _ _ _ _ _ (fun kk => nested_below b g k kk Hk) Ef). exact R0.
      * rewrite (IH _ _ _ _ _ Hb Hw). rewrite (write_flat_below b b' fx sub Ha _ _ _ _ _ (fun kk => nested_below b g k kk Hk) Ef). exact R0.
    + inversion Hw; subst; reflexivity.
Qed.

Lemma group_keys_below s0 k : s0 <> [] -> is_prefix (split_path s0) (split_path (slash_end s0 ++ k)) = true.
Proof.
  intro Hs. destruct (slash_end_wf s0 Hs) as [E|[Hne Hl]].
  - unfold slash_end in E. destruct (last s0 0 =? 47); [congruence | destruct s0; discriminate].
  - rewrite split_path_app by assumption. rewrite split_slash_end. apply is_prefix_app_l. apply is_prefix_refl.
Qed.

Theorem to_hdf5_below fx s f g o ow f' e b' : apart (group_path g) b' -> to_hdf5 fx s f g o ow = (f', e) -> below b' f' = below b' f.
Proof.
  intros Ha. unfold to_hdf5. destruct g as [s0|].
  - destruct s0 as [|c s0]; cbn [norm_group].
    + intro H; inversion H; subst; reflexivity.
    + intro Hw. eapply write_dict_below; [exact Ha | | exact Hw]. intro k. apply group_keys_below. discriminate.
  - destruct Ha as [A _]. discriminate.
Qed.

(** from_hdf5 at a group looks only at the part of the file below that group *)
Lemma lookup_below b q f : is_prefix b q = true -> q <> [] -> lookup q (below b f) = lookup q f.
Proof.
  intros H Hq. destruct q as [|a q]; [congruence|]. unfold lookup, below. rewrite find_filter_same; [reflexivity|].
  intros [r n] E. cbn [fst] in *. apply path_eqb_eq in E. subst r. exact H.
Qed.
Lemma kids_below b p f : is_prefix b p = true -> kids p (below b f) = kids p f.
Proof.
  intro H. unfold kids, below. apply filter_filter_same. intros e He. apply andb_prop in He as [He _]. eapply is_prefix_trans; eauto.
Qed.
Lemma under_nonnil b q : b <> [] -> is_prefix b q = true -> q <> [].
Proof. intros Hb H ->. destruct b; [congruence | discriminate]. Qed.
Lemma lookup_same b f1 f2 q : b <> [] -> below b f1 = below b f2 -> is_prefix b q = true -> lookup q f1 = lookup q f2.
Proof.
  intros Hb E H. pose proof (under_nonnil _ _ Hb H) as Hq.
  rewrite <- (lookup_below b q f1), <- (lookup_below b q f2) by assumption. rewrite E. reflexivity.
Qed.
Lemma kids_same b f1 f2 p : below b f1 = below b f2 -> is_prefix b p = true -> kids p f1 = kids p f2.
Proof. intros E H. rewrite <- (kids_below b p f1), <- (kids_below b p f2) by assumption. rewrite E. reflexivity. Qed.
Lemma forallb_eq {A} (g h : A -> bool) l : (forall x, g x = h x) -> forallb g l = forallb h l.
Proof. intro H. induction l as [|x t IH]; [reflexivity|]. cbn. rewrite H, IH. reflexivity. Qed.

Lemma read_fields_same dec b gn f1 f2 : b <> [] -> below b f1 = below b f2 -> (forall k, is_prefix b (split_path (gn ++ k)) = true) ->
  forall l, read_fields dec f1 gn l = read_fields dec f2 gn l.
Proof.
  intros Hb E Hp. induction l as [|r t IH]; [reflexivity|]. cbn [read_fields]. rewrite IH.
  pose proof (lookup_same b f1 f2 _ Hb E (Hp (zs (rkey r)))) as L.
  pose proof (kids_same b f1 f2 _ E (Hp (zs (rkey r)))) as K.
  unfold mem, read, read_dict_gen. rewrite L, K. reflexivity.
Qed.

Theorem from_hdf5_same dec s nt f1 f2 s0 : split_path s0 <> [] -> below (split_path s0) f1 = below (split_path s0) f2 ->
  from_hdf5_gen dec s nt f1 (Some s0) = from_hdf5_gen dec s nt f2 (Some s0).
Proof.
  intros Hb E. unfold from_hdf5_gen. destruct s0 as [|c s0]; [reflexivity|]. cbn [norm_group].
  assert (Hp : forall k, is_prefix (split_path (c :: s0)) (split_path (slash_end (c :: s0) ++ k)) = true) by (intro k; apply group_keys_below; discriminate).
  assert (M0 : mem (split_path (c :: s0)) f1 = mem (split_path (c :: s0)) f2).
  { unfold mem. rewrite (lookup_same _ f1 f2 _ Hb E (is_prefix_refl _)). reflexivity. }
  rewrite M0.
  rewrite (forallb_eq (fun k => mem (split_path (slash_end (c :: s0) ++ zs k)) f1) (fun k => mem (split_path (slash_end (c :: s0) ++ zs k)) f2)).
  2:{ intro k. unfold mem. rewrite (lookup_same _ f1 f2 _ Hb E (Hp (zs k))). reflexivity. }
  rewrite (read_fields_same dec _ _ f1 f2 Hb E Hp). reflexivity.
Qed.

(** the object stored under another group (neither path a prefix of the other) reads back exactly as before the write, whatever
    is written, with whatever flag, by whatever class, successfully or not *)
Theorem other_objects_survive fx s f g o ow f' e : to_hdf5 fx s f g o ow = (f', e) ->
  forall s' nt s0, apart (group_path g) (split_path s0) -> from_hdf5 s' nt f' (Some s0) = from_hdf5 s' nt f (Some s0).
Proof.
  intros Hw s' nt s0 Ha. unfold from_hdf5. apply from_hdf5_same; [eapply apart_nonnil; exact Ha|].
  eapply to_hdf5_below; eauto.
Qed.

Theorem other_objects_survive_any s : In s persistable -> forall by_name ex f g o ow f' e, to_hdf5_any by_name s ex f g o ow = (f', e) ->
  forall s' nt s0, apart (group_path g) (split_path s0) -> from_hdf5 s' nt f' (Some s0) = from_hdf5 s' nt f (Some s0).
Proof.
  intros Hin by_name ex f g o ow f' e Hw. eapply other_objects_survive with (fx := VCur).
  unfold to_hdf5_any in Hw. destruct by_name; [rewrite to_hdf5_named_is_append in Hw by exact Hin|]; exact Hw.
Qed.

(** witnesses for the hypotheses *)
Lemma apart_siblings : apart (split_path (zs "a/b")) (split_path (zs "a/bc")) /\ apart (split_path (zs "x")) (split_path (zs "a/b/c")).
Proof. repeat split. Qed.
