(** C12 — the chunk iterator  zip(range(l,u,s), srange(l+s,u,s))  tiles [l,u) for every step >= 1;
    consequently every blocked accumulation is independent of the memory-chunking parameter. *)
From Coq Require Import Lqa Qfield.
From PV Require Import Lib.Common Model.C12_Var Proofs.C12_Sums.
Local Open Scope nat_scope.

Lemma chunks_aux (step : nat) (hi : nat) : 1 <= step -> forall fuel lo fuel2,
  hi - lo <= fuel -> hi - (lo + step) <= fuel2 ->
  concat (map ixs (combine (range_fuel fuel lo hi step) (range_fuel fuel2 (lo + step) hi step ++ [hi]))) = seq lo (hi - lo).
Proof.
  intros Hs. induction fuel as [|f IH]; intros lo fuel2 H1 H2.
  - cbn [range_fuel combine map concat]. replace (hi - lo) with 0 by lia. reflexivity.
  - cbn [range_fuel]. destruct (Nat.ltb_spec lo hi) as [L|G].
    + destruct (Nat.ltb_spec (lo + step) hi) as [L2|G2].
      * destruct fuel2 as [|f2]; [lia|]. cbn [range_fuel]. destruct (Nat.ltb_spec (lo + step) hi) as [_|]; [|lia].
        cbn [app combine map concat]. rewrite (IH (lo + step) f2) by lia.
        unfold ixs; cbn [fst snd]. replace (lo + step - lo) with step by lia.
        replace (hi - lo) with (step + (hi - (lo + step))) by lia. now rewrite seq_app.
      * assert (E : range_fuel fuel2 (lo + step) hi step = []).
        { destruct fuel2; cbn [range_fuel]; [reflexivity|]. destruct (Nat.ltb_spec (lo + step) hi); [lia|reflexivity]. }
        rewrite E. cbn [app combine]. assert (C : forall l : list nat, combine l (@nil nat) = []) by (intros [|? ?]; reflexivity).
        rewrite C. cbn [map concat]. unfold ixs; cbn [fst snd]. now rewrite app_nil_r.
    + cbn [combine map concat]. replace (hi - lo) with 0 by lia. reflexivity.
Qed.

(** the chunks of a linkage group [lst,lsp) cover it exactly once, in order, for every step >= 1 *)
Lemma chunks_partition (lst lsp step : nat) : 1 <= step ->
  concat (map ixs (chunks lst lsp step)) = seq lst (lsp - lst).
Proof. intros Hs. unfold chunks, srange, range. apply chunks_aux; [exact Hs| |]; lia. Qed.

(** a step of 0 only arises from mem = None on an empty linkage group: no chunk at all *)
Lemma chunks_empty (lst : nat) : chunks lst lst 0 = [].
Proof. unfold chunks, range. now rewrite Nat.sub_diag. Qed.

Local Open Scope Q_scope.

(** sum over row chunks and column chunks of a bi-additive block function = the function on the whole group *)
Lemma chunk_double_sum f (ch : list (nat * nat)) : biadd f ->
  sumQ (map (fun rc => sumQ (map (fun cc => f (ixs rc) (ixs cc)) ch)) ch) == f (concat (map ixs ch)) (concat (map ixs ch)).
Proof.
  intros B. rewrite (biadd_concat_l f B). rewrite map_map. apply sumQ_ext_all. intros rc.
  rewrite (biadd_concat_r f B). now rewrite map_map.
Qed.

Definition mem_ok (mem : option nat) : Prop := match mem with Some s => (1 <= s)%nat | None => True end.

Lemma blocked_whole chroms mem f : biadd f -> mem_ok mem ->
  blocked chroms mem f == sumQ (map (fun c => f (ixs c) (ixs c)) chroms).
Proof.
  intros B Hm. unfold blocked. rewrite qsum_sumQ. apply sumQ_ext_all. intros [lst lsp]. cbn [fst snd].
  rewrite qsum_sumQ.
  rewrite (sumQ_ext_all _ (fun rc => sumQ (map (fun cc => f (ixs rc) (ixs cc)) (chunks lst lsp (chunk_step mem lst lsp))))).
  2:{ intros rc. apply qsum_sumQ. }
  rewrite (chunk_double_sum f _ B).
  destruct (Nat.eq_dec (chunk_step mem lst lsp) 0) as [Z|NZ].
  - (* only mem = None with lsp <= lst *)
    destruct mem as [s|]; cbn [chunk_step mem_ok] in *; [lia|].
    rewrite Z. unfold chunks, range. rewrite Z. cbn [range_fuel combine map concat].
    unfold ixs; cbn [fst snd]. rewrite Z. cbn [seq]. reflexivity.
  - rewrite chunks_partition by lia. reflexivity.
Qed.

(** * chunk invariance of every blocked accumulation *)
Theorem blocked_chunk_invariant chroms mem mem' f : biadd f -> mem_ok mem -> mem_ok mem' ->
  blocked chroms mem f == blocked chroms mem' f.
Proof. intros B H1 H2. now rewrite !(blocked_whole chroms _ f B). Qed.
