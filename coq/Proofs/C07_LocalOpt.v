(** C07 — the tail shared by the individual-based selection configurations
      outcross_shuffle(out, rng); axis_shuffle(out, 0, rng)
    ends in a 2-exchange local optimum of the number of self-pairings: the outcross descent reaches one (C17), and
    shuffling every row in place does not change the score of the table nor of any of its 2-exchange neighbours. *)
From Coq Require Import Permutation Sorting.Sorted.
From PV Require Import Lib.Common Model.C17_Sampling Proofs.C17_Sampling Model.C07_Config.
Local Open Scope nat_scope.

(** * 1. the descent only looks at the permutations it consumes *)
Lemma loop_firstn pms : forall m x exch best k y n',
  outcross_loop pms m x exch best k = Some (y, n') ->
  k < n' /\ outcross_loop (firstn (n' - k) pms) m x exch best k = Some (y, n').
Proof.
  induction pms as [|pm rest IH]; intros m x exch best k y n' H; [discriminate|].
  cbn [outcross_loop] in H.
  destruct (first_improving m x best (permute (0, 0) pm exch)) as [[x' s]|] eqn:Ef.
  - destruct (IH _ _ _ _ _ _ _ H) as [Hk H']. split; [lia|].
    replace (n' - k) with (S (n' - S k)) by lia. cbn [firstn outcross_loop]. rewrite Ef. exact H'.
  - injection H as <- <-. split; [lia|]. replace (S k - k) with 1 by lia.
    cbn [firstn outcross_loop]. rewrite Ef. reflexivity.
Qed.

Lemma outcross_firstn m x pms y n : outcross m x pms = Some (y, n) -> outcross m x (firstn n pms) = Some (y, n).
Proof.
  unfold outcross. intros H. destruct (loop_firstn _ _ _ _ _ _ _ _ H) as [_ H'].
  now rewrite Nat.sub_0_r in H'.
Qed.

(** * 2. the row shuffle as a row-preserving injective position map *)
Lemma nth_map_seq {A} (f : nat -> A) n t d : t < n -> nth t (map f (seq 0 n)) d = f t.
Proof.
  intros Ht. rewrite (nth_indep _ d (f 0)) by (now rewrite map_length, seq_length).
  rewrite (map_nth f). now rewrite seq_nth.
Qed.

Lemma prodn2 nc m : prodn [nc; m] = nc * m.
Proof. cbn. lia. Qed.

Lemma slice_src_row nc m i pm t :
  Permutation pm (seq 0 m) -> t < nc * m ->
  slice_src [nc; m] [Some i; None] 1 pm t / m = t / m.
Proof.
  intros Hpm Ht.
  destruct (matches [Some i; None] (unravel [nc; m] t)) eqn:E.
  - assert (Ht' : t < prodn [nc; m]) by (rewrite prodn2; exact Ht).
    destruct (sigma_in [nc; m] [Some i; None] 1 pm eq_refl Hpm t Ht' E) as (_ & U & _).
    apply (f_equal (fun l => nth 0 l 0)) in U. cbn [unravel nth set_nth prodn fold_right] in U.
    rewrite Nat.mul_1_r in U. exact U.
  - now rewrite (sigma_out [nc; m] [Some i; None] 1 pm t E).
Qed.

Lemma axis_loop_rows nc m : forall ss pms a r,
  axis_loop [nc; m] ss pms a = inr r -> length a = nc * m ->
  Forall (fun s => exists i : nat, s = [Some i; None]) ss ->
  Forall (fun pm => Permutation pm (seq 0 m)) pms ->
  exists sigma : nat -> nat,
    (forall t, t < nc * m -> sigma t < nc * m) /\
    (forall t u, t < nc * m -> u < nc * m -> sigma t = sigma u -> t = u) /\
    (forall t, t < nc * m -> sigma t / m = t / m) /\
    r = map (fun t => nth (sigma t) a 0%Z) (seq 0 (nc * m)).
Proof.
  induction ss as [|s ss IH]; intros pms a r H La Hs Hp.
  - cbn [axis_loop] in H. destruct pms; [|discriminate]. injection H as <-.
    exists (fun t => t). repeat split; auto. rewrite <- La. symmetry. apply map_nth_seq.
  - pose proof (Forall_inv Hs) as [i Ei]. pose proof (Forall_inv_tail Hs) as Hs'. cbn beta in Ei. subst s.
    cbn [axis_loop first_free option_map] in H.
    destruct pms as [|pm pms]; [discriminate|]. cbn [nth] in H.
    destruct (Nat.eqb_spec (length pm) m) as [Lpm|]; [|discriminate].
    pose proof (Forall_inv Hp) as Hpm. cbn beta in Hpm. pose proof (Forall_inv_tail Hp) as Hp'.
    set (a' := apply_slice [nc; m] [Some i; None] 1 pm a) in *.
    assert (La' : length a' = nc * m) by (unfold a', apply_slice; now rewrite map_length, seq_length).
    destruct (IH pms a' r H La' Hs' Hp') as (sg & B & I & R & E).
    assert (SB : forall t, t < nc * m -> slice_src [nc; m] [Some i; None] 1 pm t < nc * m).
    { intros t Ht. pose proof (sigma_bound [nc; m] [Some i; None] 1 pm eq_refl Hpm t) as X.
      rewrite prodn2 in X. exact (X Ht). }
    assert (SI : forall t u, t < nc * m -> u < nc * m ->
              slice_src [nc; m] [Some i; None] 1 pm t = slice_src [nc; m] [Some i; None] 1 pm u -> t = u).
    { intros t u Ht Hu. pose proof (sigma_inj [nc; m] [Some i; None] 1 pm eq_refl Hpm t u) as X.
      rewrite prodn2 in X. exact (X Ht Hu). }
    exists (fun t => slice_src [nc; m] [Some i; None] 1 pm (sg t)).
    split; [|split; [|split]].
    + intros t Ht. apply SB, B, Ht.
    + intros t u Ht Hu Eq. apply I; [exact Ht | exact Hu |]. apply SI; [apply B, Ht | apply B, Hu | exact Eq].
    + intros t Ht. rewrite slice_src_row; [apply R, Ht | exact Hpm | apply B, Ht].
    + rewrite E. apply map_ext_in. intros t Ht. apply in_seq in Ht. unfold a'.
      apply apply_slice_nth; rewrite prodn2; [exact La | apply B; lia].
Qed.

Lemma sax_rows nc m : sax 0 [nc; m] [0%Z] = flat_map (fun i => [[Some i; None]]) (seq 0 nc).
Proof. reflexivity. Qed.

(** axis_shuffle along axis 0 of an (nc x m) table *)
Lemma axis_shuffle_rows nc m ps y r :
  axis_shuffle [nc; m] [0%Z] ps y = inr r -> length y = nc * m ->
  Forall (fun pm => Permutation pm (seq 0 m)) ps ->
  exists sigma : nat -> nat,
    (forall t, t < nc * m -> sigma t < nc * m) /\
    (forall t u, t < nc * m -> u < nc * m -> sigma t = sigma u -> t = u) /\
    (forall t, t < nc * m -> sigma t / m = t / m) /\
    r = map (fun t => nth (sigma t) y 0%Z) (seq 0 (nc * m)).
Proof.
  intros H Ly Hp. unfold axis_shuffle, sliceaxisix in H. rewrite sax_rows in H.
  apply (axis_loop_rows nc m _ ps y r H Ly); [|exact Hp].
  apply Forall_forall. intros s Hs. apply in_flat_map in Hs as (i & _ & [<-|[]]). now exists i.
Qed.

(** * 3. the rows of a full table *)
Lemma firstn_map_nth (x : list Z) : forall b, b <= length x -> firstn b x = map (fun t => nth t x 0%Z) (seq 0 b).
Proof.
  induction x as [|h tl IH]; intros b Hb.
  - cbn [length] in Hb. assert (b = 0) by lia. subst b. reflexivity.
  - destruct b as [|b]; [reflexivity|]. cbn [firstn seq map nth]. f_equal.
    rewrite <- seq_shift, map_map. cbn [nth]. apply IH. cbn [length] in Hb. lia.
Qed.

Lemma nth_skipn_add (a : nat) : forall (x : list Z) t, nth t (skipn a x) 0%Z = nth (a + t) x 0%Z.
Proof.
  induction a as [|a IH]; intros x t; [reflexivity|].
  destruct x as [|h tl]; [cbn; now destruct t|]. cbn [skipn plus nth]. apply IH.
Qed.

Lemma seq_shift_add a : forall l s, map (fun t => a + t) (seq s l) = seq (a + s) l.
Proof.
  induction l as [|l IH]; intros s; [reflexivity|]. cbn [seq map]. f_equal.
  rewrite IH. f_equal. lia.
Qed.

Lemma chunks_spec m : 0 < m -> forall nc fuel (x : list Z), length x = nc * m -> nc <= fuel ->
  chunks fuel m x = map (fun k => map (fun t => nth t x 0%Z) (seq (k * m) m)) (seq 0 nc).
Proof.
  intros Hm. induction nc as [|nc IH]; intros fuel x Lx Hfuel.
  - cbn [Nat.mul] in Lx. apply length_zero_iff_nil in Lx. rewrite Lx. now destruct fuel.
  - destruct fuel as [|fuel]; [lia|].
    destruct x as [|h tl]; [cbn [length] in Lx; lia|].
    cbn [chunks]. set (x := h :: tl) in *.
    rewrite (IH fuel (skipn m x)) by (try rewrite skipn_length; lia).
    cbn [seq map]. f_equal.
    + cbn [Nat.mul]. apply firstn_map_nth. lia.
    + rewrite <- seq_shift, map_map. apply map_ext. intros k.
      rewrite (map_ext _ _ (nth_skipn_add m x)).
      replace (S k * m) with (m + k * m) by lia. rewrite <- seq_shift_add, map_map. reflexivity.
Qed.

Lemma rows_spec nc m (x : list Z) : 0 < m -> length x = nc * m ->
  rows m x = map (fun k => map (fun t => nth t x 0%Z) (seq (k * m) m)) (seq 0 nc).
Proof.
  intros Hm Lx. unfold rows. destruct m as [|m']; [lia|]. apply chunks_spec; [lia | exact Lx | nia].
Qed.

(** * 4. the score does not see the order within a row *)
Lemma dups_Permutation a b : Permutation a b -> dups a = dups b.
Proof.
  intros H. unfold dups. rewrite (Permutation_length H). f_equal. f_equal.
  apply Permutation_length. apply NoDup_Permutation; try apply NoDup_nodup.
  intros z. rewrite !nodup_In. split; apply Permutation_in; [exact H | symmetry; exact H].
Qed.

Lemma score_row_shuffle_invariant (nc m : nat) (sigma : nat -> nat) (y : list Z) :
  length y = nc * m ->
  (forall t, t < nc * m -> sigma t < nc * m) ->
  (forall t u, t < nc * m -> u < nc * m -> sigma t = sigma u -> t = u) ->
  (forall t, t < nc * m -> sigma t / m = t / m) ->
  score m (map (fun t => nth (sigma t) y 0%Z) (seq 0 (nc * m))) = score m y.
Proof.
  intros Ly B I R. destruct (Nat.eq_dec m 0) as [E0|N0].
  - rewrite E0. reflexivity.
  - assert (Hm : 0 < m) by lia. unfold score.
    rewrite (rows_spec nc m y Hm Ly).
    rewrite (rows_spec nc m _ Hm) by (now rewrite map_length, seq_length).
    rewrite !map_map. f_equal. apply map_ext_in. intros k Hk. apply in_seq in Hk.
    apply dups_Permutation.
    assert (Hkm : k * m + m <= nc * m) by nia.
    rewrite (map_ext_in _ (fun t => nth (sigma t) y 0%Z)).
    2:{ intros t Ht. apply in_seq in Ht. apply (nth_map_seq (fun t' => nth (sigma t') y 0%Z)). lia. }
    rewrite <- (map_map sigma (fun u => nth u y 0%Z)). apply Permutation_map.
    apply NoDup_Permutation_bis.
    + apply NoDup_map_inj_in; [|apply seq_NoDup]. intros a b Ha Hb. apply in_seq in Ha, Hb. apply I; lia.
    + rewrite map_length. lia.
    + intros u Hu. apply in_map_iff in Hu as (t & Eu & Ht). apply in_seq in Ht. apply in_seq.
      assert (Ht' : t < nc * m) by lia.
      assert (Qt : t / m = k) by (symmetry; apply (Nat.div_unique t m k (t - k * m)); lia).
      pose proof (R t Ht') as Rt. rewrite Qt, Eu in Rt.
      pose proof (Nat.div_mod u m N0) as D. pose proof (Nat.mod_upper_bound u m N0) as M.
      rewrite Rt in D. lia.
Qed.

(** * 5. exchanges commute with the position map *)
Lemma swap_nth a b y u : u < length y ->
  nth u (swap a b y) 0%Z = if Nat.eqb u a then nth b y 0%Z else if Nat.eqb u b then nth a y 0%Z else nth u y 0%Z.
Proof. intros Hu. unfold swap. now rewrite nth_map_seq. Qed.

Lemma swap_comm a b y : swap a b y = swap b a y.
Proof.
  unfold swap. apply map_ext. intros t.
  destruct (Nat.eqb_spec t a) as [Ea|Na], (Nat.eqb_spec t b) as [Eb|Nb]; try reflexivity. congruence.
Qed.

Lemma swap_gather N (sigma : nat -> nat) (y : list Z) i j :
  length y = N ->
  (forall t, t < N -> sigma t < N) ->
  (forall t u, t < N -> u < N -> sigma t = sigma u -> t = u) ->
  i < N -> j < N ->
  swap i j (map (fun t => nth (sigma t) y 0%Z) (seq 0 N))
  = map (fun t => nth (sigma t) (swap (sigma i) (sigma j) y) 0%Z) (seq 0 N).
Proof.
  intros Ly B I Hi Hj. unfold swap at 1. rewrite map_length, seq_length.
  apply map_ext_in. intros t Ht. apply in_seq in Ht.
  rewrite !nth_map_seq by lia.
  rewrite swap_nth by (rewrite Ly; apply B; lia).
  assert (Ei : Nat.eqb (sigma t) (sigma i) = Nat.eqb t i).
  { destruct (Nat.eqb_spec t i) as [->|NE]; [apply Nat.eqb_refl|]. apply Nat.eqb_neq. intros E. apply NE. apply I; [lia | lia | exact E]. }
  assert (Ej : Nat.eqb (sigma t) (sigma j) = Nat.eqb t j).
  { destruct (Nat.eqb_spec t j) as [->|NE]; [apply Nat.eqb_refl|]. apply Nat.eqb_neq. intros E. apply NE. apply I; [lia | lia | exact E]. }
  rewrite Ei, Ej. reflexivity.
Qed.

(** * 6. the tail of the configurations *)
Lemma xc_tail_some_inv nc m x pms r : xc_tail nc m x pms = Some r ->
  exists y n, outcross m x pms = Some (y, n) /\ axis_shuffle [nc; m] [0%Z] (skipn n pms) y = inr r.
Proof.
  unfold xc_tail. intros H. destruct (outcross m x pms) as [[y n]|]; [|discriminate].
  destruct (axis_shuffle [nc; m] [0%Z] (skipn n pms) y) as [e|r'] eqn:Ea; [discriminate|].
  injection H as ->. now exists y, n.
Qed.

Theorem xc_tail_local_optimum : forall (ncross nparent : nat) (x : list Z) (pms : list (list nat)) (y : list Z) (n : nat) (r : list Z),
  length x = (ncross * nparent)%nat ->
  outcross nparent x pms = Some (y, n) ->
  Forall (fun pm => Permutation pm (seq 0 (length (all_pairs (length x))))) (firstn n pms) ->
  Forall (fun pm => Permutation pm (seq 0 nparent)) (skipn n pms) ->
  xc_tail ncross nparent x pms = Some r ->
  length r = length x /\ Permutation r x /\ (score nparent r <= score nparent x)%Z /\
  (score nparent r = score nparent y) /\
  (forall i j, (i < j < length r)%nat -> (score nparent r <= score nparent (swap i j r))%Z).
Proof.
  intros ncross nparent x pms y n r Lx Ho Hf Hs Ht.
  destruct (xc_tail_some_inv _ _ _ _ _ Ht) as (y' & n' & Ho' & Ea).
  rewrite Ho in Ho'. injection Ho' as <- <-.
  destruct (outcross_sound _ _ _ _ _ Ho) as (Pyx & Syx & _).
  assert (Ly : length y = ncross * nparent) by (rewrite (Permutation_length Pyx); exact Lx).
  destruct (axis_shuffle_rows _ _ _ _ _ Ea Ly Hs) as (sg & B & I & R & E).
  assert (LO : forall i j, i < j < length y -> (score nparent y <= score nparent (swap i j y))%Z).
  { apply (outcross_local_optimum nparent x (firstn n pms) y n Hf). now apply outcross_firstn. }
  assert (Sr : score nparent r = score nparent y).
  { rewrite E. now apply score_row_shuffle_invariant. }
  assert (Lr : length r = ncross * nparent) by (rewrite E; now rewrite map_length, seq_length).
  split; [lia|]. split.
  { transitivity y; [|exact Pyx]. rewrite E, <- Ly. apply reindex_Permutation; rewrite Ly; assumption. }
  split; [lia|]. split; [exact Sr|].
  intros i j Hij. rewrite Sr. rewrite Lr in Hij. rewrite E.
  rewrite (swap_gather (ncross * nparent) sg y i j Ly B I) by lia.
  rewrite (score_row_shuffle_invariant ncross nparent sg (swap (sg i) (sg j) y)); try assumption.
  2:{ now rewrite swap_length. }
  assert (Bi : sg i < length y) by (rewrite Ly; apply B; lia).
  assert (Bj : sg j < length y) by (rewrite Ly; apply B; lia).
  destruct (Nat.lt_trichotomy (sg i) (sg j)) as [L|[Eq|G]].
  - apply LO. lia.
  - exfalso. assert (i = j) by (apply I; [lia | lia | exact Eq]). lia.
  - rewrite swap_comm. apply LO. lia.
Qed.

(** the hypotheses are satisfiable: a 3 x 2 table whose three crosses all start as self-pairings; the descent makes
    three passes (two exchanges, then a pass without improvement) and the three rows are then shuffled *)
Example xc_tail_local_optimum_instance :
  let x := [1; 1; 2; 2; 3; 3]%Z in
  let pms := [seq 0 15; seq 0 15; seq 0 15; [1; 0]; [0; 1]; [1; 0]] in
  let y := [3; 1; 1; 2; 2; 3]%Z in
  let r := [1; 3; 1; 2; 3; 2]%Z in
  length x = 3 * 2 /\
  outcross 2 x pms = Some (y, 3) /\
  Forall (fun pm => Permutation pm (seq 0 (length (all_pairs (length x))))) (firstn 3 pms) /\
  Forall (fun pm => Permutation pm (seq 0 2)) (skipn 3 pms) /\
  xc_tail 3 2 x pms = Some r /\
  score 2 x = 3%Z /\ score 2 r = 0%Z /\
  (forall i j, i < j < length r -> (score 2 r <= score 2 (swap i j r))%Z).
Proof.
  intros x pms y r.
  assert (H1 : length x = 3 * 2) by reflexivity.
  assert (H2 : outcross 2 x pms = Some (y, 3)) by (vm_compute; reflexivity).
  assert (H3 : Forall (fun pm => Permutation pm (seq 0 (length (all_pairs (length x))))) (firstn 3 pms)).
  { repeat constructor; apply is_perm_sound; vm_compute; reflexivity. }
  assert (H4 : Forall (fun pm => Permutation pm (seq 0 2)) (skipn 3 pms)).
  { repeat constructor; apply is_perm_sound; vm_compute; reflexivity. }
  assert (H5 : xc_tail 3 2 x pms = Some r) by (vm_compute; reflexivity).
  repeat split; try assumption; try (vm_compute; reflexivity).
  apply (xc_tail_local_optimum 3 2 x pms y 3 r H1 H2 H3 H4 H5).
Qed.

Print Assumptions xc_tail_local_optimum.
Print Assumptions xc_tail_local_optimum_instance.
Print Assumptions score_row_shuffle_invariant.
