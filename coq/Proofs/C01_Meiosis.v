(** C01 — lemmas about Model/C01_Meiosis.v *)
From PV Require Import Lib.Common Model.C01_Meiosis.
Local Open Scope Z_scope.

Lemma mat_dh_homozygous geno sel xoprob r : nth 0 (fst (mat_dh geno sel xoprob r)) [] = nth 1 (fst (mat_dh geno sel xoprob r)) [].
Proof. unfold mat_dh. destruct (mat_meiosis geno sel xoprob r) as [g r1]. reflexivity. Qed.
