(** C01 — lemmas about Model/C01_Meiosis.v: a gamete is a left-to-right mosaic of the two parental copies whose
    source copy changes only where the crossover probability is positive; the line-by-line segment-copy loop
    computes the same gamete as the per-marker reading. *)
From PV Require Import Lib.Common Model.C01_Meiosis.
Local Open Scope Z_scope.

(** ** the specification of one meiosis product *)
(** [c] is the source copy at every marker; the copy "before marker 0" is copy 0 *)
Definition switches_ok (xoprob : list Q) (c : list bool) : Prop :=
  forall j, (j < length c)%nat -> nth j c false <> nth j (false :: c) false -> (0 < nth j xoprob 0)%Q.
Definition mosaic (xoprob : list Q) (g0 g1 gam : list Z) : Prop :=
  exists c : list bool, length c = length xoprob /\ gam = pick g0 g1 c /\ switches_ok xoprob c.

Definition nonneg_row (rnd : list Q) : Prop := Forall (fun u => (0 <= u)%Q) rnd.
Definition nonneg_mat (m : list (list Q)) : Prop := Forall nonneg_row m.
Definition nonneg_draws (d : list (list (list Q))) : Prop := Forall nonneg_mat d.

Lemma xo_row_length rnd xoprob : length (xo_row rnd xoprob) = length xoprob.
Proof. revert rnd; induction xoprob as [|p t IH]; intros rnd; cbn; [reflexivity | now rewrite IH]. Qed.

Lemma phases_length ph xo : length (phases ph xo) = length xo.
Proof. revert ph; induction xo as [|x t IH]; intros ph; cbn; [reflexivity | now rewrite IH]. Qed.

Lemma Qltb_lt a b : Qltb a b = true -> (a < b)%Q.
Proof. unfold Qltb, Qlt. intros H. now apply Z.ltb_lt in H. Qed.

Lemma nonneg_hd rnd : nonneg_row rnd -> (0 <= hd 0 rnd)%Q.
Proof. intros H. destruct rnd as [|u t]; cbn; [apply Qle_refl | now inversion H]. Qed.
Lemma nonneg_tl rnd : nonneg_row rnd -> nonneg_row (tl rnd).
Proof. intros H. destruct rnd as [|u t]; cbn; [constructor | now inversion H]. Qed.

(** the running phase changes at marker j only if a crossover fired there, and that needs xoprob_j > 0 *)
Lemma phases_switch xoprob : forall rnd ph, nonneg_row rnd ->
  let c := phases ph (xo_row rnd xoprob) in
  forall j, (j < length c)%nat -> nth j c false <> nth j (ph :: c) false -> (0 < nth j xoprob 0)%Q.
Proof.
  induction xoprob as [|p tp IH]; intros rnd ph Hn c j Hj Hd.
  - cbn in Hj. lia.
  - subst c. cbn [xo_row phases] in *. destruct j as [|j'].
    + cbn [nth] in *. destruct (Qltb (hd 0%Q rnd) p) eqn:E.
      * apply Qltb_lt in E. eapply Qle_lt_trans; [apply (nonneg_hd _ Hn) | exact E].
      * exfalso. apply Hd. destruct ph; reflexivity.
    + cbn [nth length] in *. apply (IH (tl rnd) (xorb ph (Qltb (hd 0%Q rnd) p)) (nonneg_tl _ Hn) j'); [lia | exact Hd].
Qed.

Lemma pick_length g0 g1 c : length g0 = length c -> length g1 = length c -> length (pick g0 g1 c) = length c.
Proof.
  revert g0 g1; induction c as [|b t IH]; intros [|a0 t0] [|a1 t1]; cbn; try discriminate; try reflexivity.
  intros H0 H1. f_equal. apply IH; lia.
Qed.

Lemma pick_nth c : forall g0 g1 j d, (j < length (pick g0 g1 c))%nat ->
  nth j (pick g0 g1 c) d = if nth j c false then nth j g1 d else nth j g0 d.
Proof.
  induction c as [|b t IH]; intros [|a0 t0] [|a1 t1] j d Hj; cbn in Hj; try lia.
  destruct j as [|j']; cbn [pick nth]; [destruct b; reflexivity|]. apply IH. lia.
Qed.

Lemma pick_length_le c : forall g0 g1, (length (pick g0 g1 c) <= length c)%nat.
Proof. induction c as [|b t IH]; intros [|a0 t0] [|a1 t1]; cbn; try lia. specialize (IH t0 t1). lia. Qed.

(** ** one gamete is a mosaic of the two copies of the selected individual *)
Lemma gamete_mosaic geno s rnd xoprob : nonneg_row rnd ->
  mosaic xoprob (row geno 0 s) (row geno 1 s) (gamete geno s rnd xoprob).
Proof.
  intros Hn. exists (phases false (xo_row rnd xoprob)). split; [|split].
  - now rewrite phases_length, xo_row_length.
  - reflexivity.
  - intros j Hj Hd. exact (phases_switch xoprob rnd false Hn j Hj Hd).
Qed.

(** every allele of a mosaic sits at the same marker in one of the two source copies *)
Lemma mosaic_allele xoprob g0 g1 gam j d : mosaic xoprob g0 g1 gam -> (j < length gam)%nat ->
  nth j gam d = nth j g0 d \/ nth j gam d = nth j g1 d.
Proof.
  intros (c & _ & -> & _) Hj. rewrite (pick_nth c g0 g1 j d Hj). destruct (nth j c false); [right|left]; reflexivity.
Qed.

Lemma mosaic_length xoprob g0 g1 gam : mosaic xoprob g0 g1 gam -> length g0 = length xoprob -> length g1 = length xoprob ->
  length gam = length xoprob.
Proof. intros (c & Hc & -> & _) H0 H1. rewrite pick_length; lia. Qed.

(** ** all gametes of one mat_meiosis call *)
Lemma meiosis_rows_length geno xoprob sel : forall rnd, length (meiosis_rows geno sel rnd xoprob) = length sel.
Proof. induction sel as [|s ts IH]; intros rnd; cbn; [reflexivity | now rewrite IH]. Qed.

Lemma nonneg_mat_hd m : nonneg_mat m -> nonneg_row (hd [] m).
Proof. intros H. destruct m; cbn; [constructor | now inversion H]. Qed.
Lemma nonneg_mat_tl m : nonneg_mat m -> nonneg_mat (tl m).
Proof. intros H. destruct m; cbn; [constructor | now inversion H]. Qed.
Lemma nonneg_draws_hd d : nonneg_draws d -> nonneg_mat (hd [] d).
Proof. intros H. destruct d; cbn; [constructor | now inversion H]. Qed.
Lemma nonneg_draws_tl d : nonneg_draws d -> nonneg_draws (tl d).
Proof. intros H. destruct d; cbn; [constructor | now inversion H]. Qed.

Lemma meiosis_rows_mosaic geno xoprob sel : forall rnd, nonneg_mat rnd ->
  Forall2 (fun s gam => mosaic xoprob (row geno 0 s) (row geno 1 s) gam) sel (meiosis_rows geno sel rnd xoprob).
Proof.
  induction sel as [|s ts IH]; intros rnd Hn; cbn; constructor.
  - apply gamete_mosaic, nonneg_mat_hd, Hn.
  - apply IH, nonneg_mat_tl, Hn.
Qed.

Lemma mat_dh_homozygous geno sel xoprob r :
  nth 0 (fst (mat_dh geno sel xoprob r)) [] = nth 1 (fst (mat_dh geno sel xoprob r)) [].
Proof. unfold mat_dh. destruct (mat_meiosis geno sel xoprob r) as [g r1]. reflexivity. Qed.

(** ** the loop as written (segment copies) computes the per-marker gamete *)
Lemma firstn_snoc {A} (m : list A) d : forall k, (k < length m)%nat -> firstn (S k) m = firstn k m ++ [nth k m d].
Proof.
  induction m as [|a m IH]; intros k Hk; cbn in Hk; [lia|]. destruct k as [|k']; [reflexivity|].
  cbn [firstn nth app]. f_equal. apply IH. lia.
Qed.
Lemma nth_skipn' {A} (l : list A) d : forall st i, nth i (skipn st l) d = nth (st + i) l d.
Proof.
  induction l as [|a l IH]; intros st i.
  - rewrite skipn_nil. destruct i; destruct (st + _)%nat; reflexivity.
  - destruct st as [|st']; [reflexivity|]. cbn [skipn Nat.add nth]. apply IH.
Qed.
Lemma skipn_cons_nth {A} (l : list A) d : forall i, (i < length l)%nat -> skipn i l = nth i l d :: skipn (S i) l.
Proof.
  induction l as [|a l IH]; intros i Hi; cbn in Hi; [lia|]. destruct i as [|i']; [reflexivity|].
  cbn [skipn nth]. rewrite (IH i') by lia. reflexivity.
Qed.
Lemma slice_snoc {A} (l : list A) d st i : (st <= i)%nat -> (i < length l)%nat ->
  slice st (S i) l = slice st i l ++ [nth i l d].
Proof.
  intros H1 H2. unfold slice. replace (S i - st)%nat with (S (i - st)) by lia.
  rewrite (firstn_snoc _ d) by (rewrite skipn_length; lia). rewrite nth_skipn'. now replace (st + (i - st))%nat with i by lia.
Qed.
Lemma slice_one {A} (l : list A) d i : (i < length l)%nat -> slice i (S i) l = [nth i l d].
Proof. intros H. rewrite (slice_snoc l d) by lia. unfold slice. now rewrite Nat.sub_diag. Qed.

Lemma seg_copy_pick (g0 g1 : list Z) : length g0 = length g1 ->
  forall xo i ph stix, (stix <= i)%nat -> (i + length xo = length g0)%nat ->
  seg_copy (length g0) g0 g1 (flatnonzero i xo) ph stix
  = slice stix i (if ph then g1 else g0) ++ pick (skipn i g0) (skipn i g1) (phases ph xo).
Proof.
  intros HL. induction xo as [|x t IH]; intros i ph stix Hs Hi; cbn [length] in Hi.
  - cbn [flatnonzero seg_copy phases]. replace i with (length g0) by lia.
    destruct (skipn (length g0) g0), (skipn (length g0) g1); cbn [pick]; now rewrite app_nil_r.
  - assert (Li0 : (i < length g0)%nat) by lia. assert (Li1 : (i < length g1)%nat) by lia.
    rewrite (skipn_cons_nth g0 0 i Li0), (skipn_cons_nth g1 0 i Li1).
    destruct x; cbn [flatnonzero seg_copy phases xorb pick].
    + rewrite (IH (S i) (negb ph) i) by lia.
      replace (xorb ph true) with (negb ph) by (now destruct ph).
      rewrite (slice_one _ 0) by (destruct ph; cbn; lia).
      destruct ph; reflexivity.
    + rewrite (IH (S i) ph stix) by lia.
      replace (xorb ph false) with ph by (now destruct ph).
      rewrite (slice_snoc _ 0) by (destruct ph; lia). rewrite <- app_assoc.
      destruct ph; reflexivity.
Qed.

Lemma gamete_seg_eq geno s rnd xoprob :
  length (row geno 0 s) = length xoprob -> length (row geno 1 s) = length xoprob ->
  gamete_seg geno s rnd xoprob = gamete geno s rnd xoprob.
Proof.
  intros H0 H1. unfold gamete_seg, gamete. rewrite <- H0.
  rewrite (seg_copy_pick (row geno 0 s) (row geno 1 s)) by (rewrite ?xo_row_length; lia).
  reflexivity.
Qed.

Definition rows_ok (p : nat) (geno : list (list (list Z))) : Prop :=
  Forall (fun r => length r = p) (nth 0 geno []) /\ Forall (fun r => length r = p) (nth 1 geno []) /\
  length (nth 0 geno []) = length (nth 1 geno []).

Lemma meiosis_rows_seg_eq geno xoprob sel : rows_ok (length xoprob) geno ->
  Forall (fun s => (s < length (nth 0 geno []))%nat) sel ->
  forall rnd, meiosis_rows_seg geno sel rnd xoprob = meiosis_rows geno sel rnd xoprob.
Proof.
  intros (R0 & R1 & RL) Hs. induction Hs as [|s ts Hs1 Hs2 IH]; intros rnd; cbn; [reflexivity|].
  rewrite IH. f_equal. apply gamete_seg_eq; unfold row.
  - rewrite Forall_forall in R0. apply R0, nth_In, Hs1.
  - rewrite Forall_forall in R1. apply R1, nth_In. lia.
Qed.
