(** C04 — the boolean residual check evaluated in the correspondence shards ([resid_ok] of Model/C04_GS.v) is implied by the
    bound proved for the model (Proofs/C04_GS.v): an exit of Gauss-Seidel before the iteration limit passes the check. *)
From Coq Require Import Lqa.
From PV Require Import Lib.Common Model.C04_Gmod Model.C04_GS Proofs.C04_Counts Proofs.C04_Linear Proofs.C04_Var Proofs.C04_Sums Proofs.C04_GS.
Local Open Scope Q_scope.

Lemma dotQ_ones : forall l : list Q, dotQ l (repeat 1 (length l)) == sumQ l.
Proof. induction l as [|x l IH]; [reflexivity|]. cbn [length repeat]. rewrite dotQ_cons, sumQ_cons, IH. ring. Qed.

Lemma skipn_repeat {A} (x : A) : forall k n, skipn k (repeat x n) = repeat x (n - k).
Proof. induction k as [|k IH]; intros [|n]; cbn; try reflexivity. apply IH. Qed.

Lemma skipn_map' {A B} (f : A -> B) : forall k (l : list A), skipn k (map f l) = map f (skipn k l).
Proof. induction k as [|k IH]; intros [|x l]; cbn; try reflexivity. apply IH. Qed.

Lemma sum_abs_skipn n i (r : list Q) : length r = n -> (i < n)%nat ->
  sumQ (map Qabs' (skipn (S i) r)) == bigsum n (fun j => if Nat.ltb i j then Qabs' (nth j r 0) else 0).
Proof.
  intros Lr Hi.
  pose proof (dotQ_skipn_bigsum n i (map Qabs' r) (repeat 1 n)) as SS. rewrite map_length, repeat_length in SS. specialize (SS Lr eq_refl Hi).
  rewrite skipn_map', skipn_repeat in SS.
  assert (L : length (map Qabs' (skipn (S i) r)) = (n - S i)%nat) by (now rewrite map_length, skipn_length, Lr).
  rewrite <- L in SS at 1. rewrite dotQ_ones in SS. rewrite SS. apply bigsum_ext. intros j Hj.
  destruct (Nat.ltb i j); [|reflexivity].
  rewrite (nth_map_in Qabs' 0 0) by lia. rewrite nth_repeat_in by exact Hj. ring.
Qed.

(** the bound of the theorem, row by row, makes [resid_ok] true (the float slack only helps) *)
Lemma resid_ok_of_bound n A b x atol : length A = n -> rows_len n A -> length b = n -> length x = n ->
  (forall i, (i < n)%nat ->
     Qabs' (nth i (residual A b x) 0) <= atol * bigsum n (fun j => if Nat.ltb i j then Qabs' (nth j (nth i A []) 0) else 0)) ->
  resid_ok A b x atol = true.
Proof.
  intros HA HAr Hb Lx H. unfold resid_ok. apply forallb_forall. intros [[[i r] ri] bi] Hin.
  assert (LR : length (residual A b x) = n) by (unfold residual, matvec; now rewrite map2_length, map_length, HA, Hb, Nat.min_id).
  apply In_nth with (d := (0%nat, [], 0, 0)) in Hin as (k & Hk & Ek).
  rewrite !combine_length, seq_length, HA, LR, Hb, !Nat.min_id in Hk.
  rewrite combine_nth in Ek by (now rewrite !combine_length, seq_length, HA, LR, Hb, !Nat.min_id).
  rewrite combine_nth in Ek by (now rewrite !combine_length, seq_length, HA, LR, !Nat.min_id).
  rewrite combine_nth in Ek by (now rewrite seq_length, HA).
  rewrite seq_nth in Ek by (now rewrite HA). cbn [Nat.add] in Ek. injection Ek as <- <- <- <-.
  apply Qle_bool_iff. specialize (H k Hk).
  rewrite sum_abs_skipn by (try (unfold rows_len in HAr; rewrite Forall_forall in HAr; apply HAr, nth_In; lia); exact Hk).
  pose proof (Qabs'_nonneg (nth k b 0)). unfold tol40. lra.
Qed.

(** gauss_seidel stopping before the iteration limit passes the executed check *)
Theorem exit_before_limit_passes_check n A b atol maxiter xf : length A = n -> rows_len n A -> length b = n ->
  0 < atol -> (0 < maxiter)%nat -> gauss_seidel A b atol maxiter = Some xf ->
  exists k, (1 <= k <= maxiter)%nat /\ xf = iter_sweep A b k (repeat 0 n) /\ ((k < maxiter)%nat -> resid_ok A b xf atol = true).
Proof.
  intros HA HAr Hb Hat Hmax E.
  destruct (gauss_seidel_exit_residual n A b atol maxiter xf HA HAr Hb Hat Hmax E) as (k & Hk & Ek & Ck).
  exists k. split; [exact Hk|]. split; [exact Ek|]. intros Hlt. apply (resid_ok_of_bound n); try assumption; [|exact (Ck Hlt)].
  (* length of the result *)
  unfold gauss_seidel in E. rewrite Hb in E. destruct (Qltb atol (2 * atol) && negb (Nat.eqb maxiter 0)).
  - destruct (diag_ok A) eqn:D; [|discriminate].
    assert (Hd : forall i, (i < n)%nat -> ~ nth i (nth i A []) 0 == 0) by (intros i Hi; apply diag_ok_spec; [exact D | now rewrite HA]).
    rewrite Ek. apply (iter_sweep_length n A b HA HAr Hb Hd). apply repeat_length.
  - injection E as <-. apply repeat_length.
Qed.
