(** C20 — the programme regenerated from the source (Gen/C20_Program.v: the bodies of reset / is_initialized / initialize /
    advance / evolve translated statement by statement) IS the hand model of Model/C20_Loop.v.  The structural lemmas are
    closed by [reflexivity]: a call moved, dropped or duplicated, a logbook call that receives (or no longer receives) the
    mating configuration, a result unpacked into other attributes, the time index incremented elsewhere (e.g. inside
    [if loginit]), a container reset from another start container, or a time index reset to another value changes the
    generated term and this file — hence Props/C20.vo — stops compiling. *)
From PV Require Import Lib.Common Model.C20_Loop Gen.C20_Program Proofs.C20_Loop.
Local Open Scope nat_scope.

Lemma gen_generation_is_model ops : gen_generation ops = generation ops.                         Proof. reflexivity. Qed.
Lemma gen_advance_is_model ops ngen : gen_advance ops ngen = advance ops ngen.                   Proof. reflexivity. Qed.
Lemma gen_replicate_is_model ops ngen li : gen_replicate ops ngen li = replicate ops ngen li.    Proof. reflexivity. Qed.
(** reset copies start container i into work container i, i = 0..4 in this order, and then sets the time to 0 — which is
    what [reset_slots] (positional, left to right) and [reset] (t := 0 on success) do *)
Lemma gen_reset_is_model : gen_reset_plan = map (fun i => (i, i)) (seq 0 5) /\ gen_reset_time = 0%Z.
Proof. split; reflexivity. Qed.
Lemma gen_initialize_is_model strict res : gen_initialize strict res = initialize strict res.    Proof. reflexivity. Qed.

(** is_initialized tests all five start containers *)
Lemma gen_is_initialized_is_model st : length (p_start st) = 5 -> gen_is_initialized st = is_initialized st.
Proof.
  unfold gen_is_initialized, is_initialized, gen_init_slots. intros H.
  destruct (p_start st) as [|a [|b [|c [|d [|e [|f l]]]]]]; try discriminate H. cbn. now rewrite !andb_true_r.
Qed.

Lemma gen_evolve_is_model ops strict initres nrep ngen li st : length (p_start st) = 5 ->
  gen_evolve ops strict initres nrep ngen li st = evolve ops strict initres nrep ngen li st.
Proof.
  intros H. unfold gen_evolve, evolve, andthen. rewrite (gen_is_initialized_is_model st H). reflexivity.
Qed.
