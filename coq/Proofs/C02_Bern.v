(** C02 — expectation under independent Bernoulli coordinates: linearity, extensionality on lists of the right length,
    expectation of a product of signs (the Fourier coefficients of the product measure), probability of a complete pattern. *)
From Coq Require Import Lqa.
From PV Require Import Lib.Common Model.C01_Meiosis Model.C02_Dist.
Local Open Scope Q_scope.

Lemma E_ext_len ps : forall f g, (forall l, length l = length ps -> f l == g l) -> E ps f == E ps g.
Proof.
  induction ps as [|p ps IH]; intros f g H; cbn [E].
  - apply H. reflexivity.
  - rewrite (IH (fun l => f (true :: l)) (fun l => g (true :: l))), (IH (fun l => f (false :: l)) (fun l => g (false :: l)));
      [reflexivity| |]; intros l Hl; apply H; cbn; now rewrite Hl.
Qed.

Lemma E_ext ps f g : (forall l, f l == g l) -> E ps f == E ps g.
Proof. intros H. apply E_ext_len. intros l _. apply H. Qed.

Lemma E_scal ps : forall c f, E ps (fun l => c * f l) == c * E ps f.
Proof. induction ps as [|p ps IH]; intros c f; cbn [E]; [reflexivity|]. rewrite !IH. ring. Qed.

Lemma E_const ps c : E ps (fun _ => c) == c.
Proof. induction ps as [|p ps IH]; cbn [E]; [reflexivity|]. rewrite !IH. ring. Qed.

Lemma E_plus ps : forall f g, E ps (fun l => f l + g l) == E ps f + E ps g.
Proof. induction ps as [|p ps IH]; intros f g; cbn [E]; [reflexivity|]. rewrite !IH. ring. Qed.

Lemma E_lin ps a b f g : E ps (fun l => a * f l + b * g l) == a * E ps f + b * E ps g.
Proof. rewrite E_plus, !E_scal. reflexivity. Qed.

Lemma E_nonneg ps f : Forall (fun p => 0 <= p <= 1) ps -> (forall l, 0 <= f l) -> 0 <= E ps f.
Proof.
  intros Hp. revert f. induction Hp as [|p ps [H0 H1] _ IH]; intros f Hf; cbn [E]; [apply Hf|].
  assert (A := IH (fun l => f (true :: l)) (fun l => Hf _)). assert (B := IH (fun l => f (false :: l)) (fun l => Hf _)).
  nra.
Qed.

(** total mass one *)
Lemma Pr_total ps ev : Pr ps ev + Pr ps (fun l => negb (ev l)) == 1.
Proof.
  unfold Pr. rewrite <- E_plus. rewrite (E_ext ps _ (fun _ => 1)); [apply E_const|].
  intros l. destruct (ev l); reflexivity.
Qed.

(** expectation of a product of signs: the coordinates are independent, each sign has mean 1 - 2p *)
Theorem E_psign : forall ps mask, E ps (psign mask) == pexp mask ps.
Proof.
  induction ps as [|p ps IH]; intros mask.
  - destruct mask; reflexivity.
  - destruct mask as [|m ms].
    + cbn [E psign pexp]. rewrite !E_const. ring.
    + cbn [E pexp].
      rewrite (E_ext ps (fun l => psign (m :: ms) (true :: l)) (fun l => (if m then sgn true else 1) * psign ms l)) by (intros; reflexivity).
      rewrite (E_ext ps (fun l => psign (m :: ms) (false :: l)) (fun l => (if m then sgn false else 1) * psign ms l)) by (intros; reflexivity).
      rewrite !E_scal, IH. destruct m; unfold sgn; ring.
Qed.

(** the probability of one complete crossover pattern is the product of the per-marker probabilities *)
Theorem pattern_prob : forall ps pat, length pat = length ps ->
  Pr ps (fun xo => bl_eqb xo pat) == pat_prob ps pat.
Proof.
  unfold Pr. induction ps as [|p ps IH]; intros [|b pat] H; try discriminate H; cbn [E pat_prob].
  - reflexivity.
  - injection H as H. specialize (IH pat H).
    rewrite (E_ext ps (fun l => ind (bl_eqb (true :: l) (b :: pat))) (fun l => ind (Bool.eqb true b) * ind (bl_eqb l pat)))
      by (intros l; unfold bl_eqb; cbn [list_eqb]; destruct (Bool.eqb true b), (list_eqb Bool.eqb l pat); reflexivity).
    rewrite (E_ext ps (fun l => ind (bl_eqb (false :: l) (b :: pat))) (fun l => ind (Bool.eqb false b) * ind (bl_eqb l pat)))
      by (intros l; unfold bl_eqb; cbn [list_eqb]; destruct (Bool.eqb false b), (list_eqb Bool.eqb l pat); reflexivity).
    rewrite !E_scal, IH. destruct b; cbn; ring.
Qed.

(** ** masks *)
Definition mask_le (j : nat) : list bool := repeat true (S j).
Definition mask_btw (i j : nat) : list bool := repeat false (S i) ++ repeat true (j - i).
Definition mask_one (i : nat) : list bool := repeat false i ++ [true].

Lemma pexp_nil_r mask : pexp mask [] == 1.
Proof. destruct mask; reflexivity. Qed.

Lemma pexp_false n : forall ps mask, pexp (repeat false n ++ mask) ps == pexp mask (skipn n ps).
Proof.
  induction n as [|n IH]; intros ps mask; [reflexivity|].
  destruct ps as [|p ps]; cbn [repeat app pexp skipn]; [now rewrite pexp_nil_r|]. rewrite IH. ring.
Qed.

Lemma pexp_true n : forall ps, pexp (repeat true n) ps == prod12 (firstn n ps).
Proof.
  induction n as [|n IH]; intros ps; [reflexivity|].
  destruct ps as [|p ps]; cbn [repeat pexp firstn prod12 fold_right]; [reflexivity|]. rewrite IH. reflexivity.
Qed.

Lemma pexp_le j ps : pexp (mask_le j) ps == prod12 (firstn (S j) ps).
Proof. apply pexp_true. Qed.

Lemma pexp_btw i j ps : pexp (mask_btw i j) ps == prod12 (between i j ps).
Proof. unfold mask_btw, between. rewrite pexp_false. apply pexp_true. Qed.

Lemma pexp_one i ps : (i < length ps)%nat -> pexp (mask_one i) ps == 1 - 2 * nth i ps 0.
Proof.
  unfold mask_one. rewrite pexp_false. revert ps. induction i as [|i IH]; intros [|p ps] H; cbn in H; try lia.
  - cbn. destruct ps; cbn; ring.
  - cbn [skipn nth]. apply IH. lia.
Qed.

(** ** source copy as a product of signs *)
Lemma phases_xorb ph xo : phases ph xo = map (xorb ph) (phases false xo).
Proof.
  revert ph. induction xo as [|x t IH]; intros ph; cbn [phases map]; [reflexivity|].
  rewrite (IH (xorb ph x)), (IH (xorb false x)), map_map. f_equal; [now destruct ph, x|].
  apply map_ext. intros a. now destruct ph, x, a.
Qed.

Lemma src_cons x xs : src (x :: xs) = x :: map (xorb x) (src xs).
Proof. unfold src. cbn [phases]. rewrite xorb_false_l. now rewrite (phases_xorb x xs). Qed.

Lemma src_length xo : length (src xo) = length xo.
Proof. unfold src. revert xo. generalize false. intros b xo. revert b. induction xo; intros b; cbn; [reflexivity|]. now rewrite IHxo. Qed.

Lemma src_at_0 x xs : src_at 0 (x :: xs) = x.
Proof. unfold src_at. now rewrite src_cons. Qed.

Lemma src_at_S j x xs : (j < length xs)%nat -> src_at (S j) (x :: xs) = xorb x (src_at j xs).
Proof.
  intros H. unfold src_at. rewrite src_cons. cbn [nth].
  rewrite (nth_indep _ false (xorb x false)) by (now rewrite map_length, src_length). now rewrite map_nth.
Qed.

Lemma sgn_xorb a b : sgn (xorb a b) == sgn a * sgn b.
Proof. destruct a, b; reflexivity. Qed.

Lemma ind_sgn b : ind b == (1 - sgn b) / 2.
Proof. destruct b; reflexivity. Qed.

Lemma sgn_src_at j : forall xo, (j < length xo)%nat -> sgn (src_at j xo) == psign (mask_le j) xo.
Proof.
  unfold mask_le. induction j as [|j IH]; intros [|x xs] H; cbn in H; try lia.
  - rewrite src_at_0. cbn. destruct xs; ring.
  - rewrite src_at_S by lia. rewrite sgn_xorb, IH by lia. reflexivity.
Qed.

Lemma sgn_recomb i j : forall xo, (i < j)%nat -> (j < length xo)%nat ->
  sgn (recomb i j xo) == psign (mask_btw i j) xo.
Proof.
  unfold recomb, mask_btw. revert j. induction i as [|i IH]; intros j [|x xs] Hij H; cbn in H; try lia.
  - destruct j as [|j]; [lia|]. rewrite src_at_0, src_at_S by lia.
    replace (xorb x (xorb x (src_at j xs))) with (src_at j xs) by now destruct x, (src_at j xs).
    rewrite sgn_src_at by lia. replace (S j - 0)%nat with (S j) by lia. unfold mask_le. cbn [repeat app psign]. ring.
  - destruct j as [|j]; [lia|]. rewrite !src_at_S by lia.
    replace (xorb (xorb x (src_at i xs)) (xorb x (src_at j xs))) with (xorb (src_at i xs) (src_at j xs))
      by now destruct x, (src_at i xs), (src_at j xs).
    rewrite IH by lia. replace (S j - S i)%nat with (j - i)%nat by lia. cbn [repeat app psign]. ring.
Qed.

Lemma sgn_xo_at i : forall xo, (i < length xo)%nat -> sgn (xo_at i xo) == psign (mask_one i) xo.
Proof.
  unfold xo_at, mask_one. induction i as [|i IH]; intros [|x xs] H; cbn in H; try lia.
  - cbn. destruct xs; ring.
  - cbn [nth repeat app psign]. rewrite IH by lia. ring.
Qed.
