(** C11 — further laws of the map model: interpolation after ANY selection of markers (select / remove / prune), covariance of
    the interpolation under scaling of the genetic positions and under translation of the physical positions, and slicing of
    the sequential distances of a query commutes with interpolation. *)
From Coq Require Import Lia.
From PV Require Import Lib.Common Model.C11_Map Proofs.C11_Map.
Local Open Scope Z_scope.

(** * any selection: select(indices | mask), remove(indices | slice), ExtendedGeneticMap.prune(nt, M) *)
Lemma interp_after_select : forall rows mask, distinct_pos rows -> two_markers (select_rows rows mask) ->
  let rows' := select_rows rows mask in
  wf_map rows' /\
  Forall2 ext_equiv (interp_genpos rows' (own_pairs rows')) (fin_gens rows') /\
  (forall c i x, has_chr rows' c = true ->
     let k := knots rows' c in (S i < length k)%nat -> (fst (nth i k (0%Z, 0%Q)) <= x <= fst (nth (S i) k (0%Z, 0%Q)))%Z ->
     exists g, interp_pos rows' (c, x) = Fin g /\
       (g == chord x (fst (nth i k (0%Z, 0%Q))) (snd (nth i k (0%Z, 0%Q))) (fst (nth (S i) k (0%Z, 0%Q))) (snd (nth (S i) k (0%Z, 0%Q))))%Q) /\
  (forall c x, has_chr rows' c = false -> interp_pos rows' (c, x) = NaN).
Proof.
  intros rows mask Hd H2 rows'. pose proof (select_rows_wf rows mask Hd H2) as W. fold rows' in W.
  split; [exact W|]. split; [apply interp_own_markers; exact W|]. split.
  - intros c i x Hc k Hi Hx. apply interp_linear_between; assumption.
  - intros c x Hc. apply interp_off_map; exact Hc.
Qed.

(** * scaling the genetic positions by s scales every interpolated position by s *)
Definition scale_knots (s : Q) (pts : list (Z * Q)) : list (Z * Q) := map (fun p => (fst p, s * snd p)%Q) pts.
Lemma scale_knots_fst s pts : map fst (scale_knots s pts) = map fst pts.
Proof. unfold scale_knots. rewrite map_map. reflexivity. Qed.
Lemma scale_knots_nth s pts : forall i, (i < length pts)%nat ->
  nth i (scale_knots s pts) (0%Z, 0%Q) = (fst (nth i pts (0%Z, 0%Q)), (s * snd (nth i pts (0%Z, 0%Q)))%Q).
Proof.
  induction pts as [|p t IH]; intros [|i] H; simpl in *; try lia; [reflexivity | apply IH; lia].
Qed.
Lemma clipn_lt n i : (2 <= n)%nat -> (clipn 1 (n - 1) i < n)%nat /\ (clipn 1 (n - 1) i - 1 < n)%nat.
Proof. intros H. unfold clipn. lia. Qed.
Lemma scale_knots_length s pts : length (scale_knots s pts) = length pts.
Proof. unfold scale_knots. apply map_length. Qed.
Lemma interp1_scale : forall s pts x, (2 <= length pts)%nat -> (interp1 (scale_knots s pts) x == s * interp1 pts x)%Q.
Proof.
  intros s pts x H. unfold interp1. cbv zeta. rewrite scale_knots_fst, !scale_knots_length.
  destruct (clipn_lt (length pts) (searchsorted (map fst pts) x) H) as [Hhi Hlo].
  rewrite !scale_knots_nth by assumption.
  destruct (nth (clipn 1 (length pts - 1) (searchsorted (map fst pts) x) - 1) pts (0%Z, 0%Q)) as [xl yl].
  destruct (nth (clipn 1 (length pts - 1) (searchsorted (map fst pts) x)) pts (0%Z, 0%Q)) as [xh yh].
  simpl. generalize (inject_Z (x - xl) / inject_Z (xh - xl))%Q (inject_Z (xh - x) / inject_Z (xh - xl))%Q. intros a b. ring.
Qed.

(** * translating all physical positions and the query by t does not change the interpolated position *)
Definition shift_knots (t : Z) (pts : list (Z * Q)) : list (Z * Q) := map (fun p => (fst p + t, snd p)) pts.
Lemma searchsorted_shift t xs x : searchsorted (map (fun z => z + t) xs) (x + t) = searchsorted xs x.
Proof.
  unfold searchsorted. induction xs as [|a l IH]; simpl; [reflexivity|].
  replace (a + t <? x + t) with (a <? x) by (destruct (Z.ltb_spec a x), (Z.ltb_spec (a + t) (x + t)); lia || reflexivity).
  destruct (a <? x); simpl; rewrite IH; reflexivity.
Qed.
Lemma shift_knots_nth t pts : forall i, (i < length pts)%nat ->
  nth i (shift_knots t pts) (0%Z, 0%Q) = (fst (nth i pts (0%Z, 0%Q)) + t, snd (nth i pts (0%Z, 0%Q))).
Proof.
  induction pts as [|p u IH]; intros [|i] H; simpl in *; try lia; [reflexivity | apply IH; lia].
Qed.
Lemma shift_knots_length t pts : length (shift_knots t pts) = length pts.
Proof. unfold shift_knots. apply map_length. Qed.
Lemma interp1_shift : forall t pts x, (2 <= length pts)%nat -> (interp1 (shift_knots t pts) (x + t) == interp1 pts x)%Q.
Proof.
  intros t pts x H. unfold interp1. cbv zeta.
  assert (E : map fst (shift_knots t pts) = map (fun z => z + t) (map fst pts)) by (unfold shift_knots; rewrite !map_map; reflexivity).
  rewrite E, searchsorted_shift, !shift_knots_length.
  destruct (clipn_lt (length pts) (searchsorted (map fst pts) x) H) as [Hhi Hlo].
  rewrite !shift_knots_nth by assumption.
  destruct (nth (clipn 1 (length pts - 1) (searchsorted (map fst pts) x) - 1) pts (0%Z, 0%Q)) as [xl yl].
  destruct (nth (clipn 1 (length pts - 1) (searchsorted (map fst pts) x)) pts (0%Z, 0%Q)) as [xh yh].
  simpl. replace (x + t - (xl + t)) with (x - xl) by lia. replace (xh + t - (xl + t)) with (xh - xl) by lia.
  replace (xh + t - (x + t)) with (xh - x) by lia. reflexivity.
Qed.

(** * the sequential distances of a window [ast:asp] of a query are the sequential distances of the sliced query: interpolation
      is marker-wise, so slicing commutes with it (and slicing twice is not the same thing unless the window starts at 0) *)
Lemma pyslice_map {A B} (f : A -> B) st sp (l : list A) : pyslice st sp (map f l) = map f (pyslice st sp l).
Proof. unfold pyslice. rewrite map_length, <- firstn_map, <- skipn_map. reflexivity. Qed.
Lemma gdist1p_slice_commutes : forall rows query ast asp, gdist1p rows query ast asp = gdist1p rows (pyslice ast asp query) None None.
Proof.
  intros rows query ast asp. unfold gdist1p, gdist1g, interp_genpos. rewrite !pyslice_all, !pyslice_map. reflexivity.
Qed.
