(** C16 — lemmas about Model/C16_Heap.v: copies are equal to their source; a deep copy lives entirely in freshly
    allocated cells, so no mutation through it can reach the source. *)
From Coq Require Import String Ascii.
From PV Require Import Lib.Common Lib.C16_Spec Model.C16_Store Model.C16_Heap.
Local Open Scope nat_scope.

(** ** regions of the heap *)
Definition hv_ge (n : nat) (v : hv) : Prop := match v with HRef l => n <= l | _ => True end.
Definition hv_lt (n : nat) (v : hv) : Prop := match v with HRef l => l < n | _ => True end.
Definition cell_vals (c : cell) : list hv :=
  match c with CDict d => map snd d | CObj _ fs => map snd fs | _ => [] end.
Definition cell_ge (n : nat) (c : cell) : Prop := Forall (hv_ge n) (cell_vals c).
Definition cell_lt (n : nat) (c : cell) : Prop := Forall (hv_lt n) (cell_vals c).
(** no dangling references: every cell only refers to existing cells *)
Definition closed (h : heap) : Prop := Forall (cell_lt (length h)) h.
(** the part of the heap from [n] on only refers to itself *)
Definition closed_from (n : nat) (h : heap) : Prop := forall l c, n <= l -> nth_error h l = Some c -> cell_ge n c.

Lemma nth_error_app_l {A} (h e : list A) l : l < length h -> nth_error (h ++ e) l = nth_error h l.
Proof. intro H. apply nth_error_app1; exact H. Qed.

(** ** every copier only appends to the heap *)
Definition extends (cp : heap -> hv -> option (heap * hv)) : Prop :=
  forall h v h' v', cp h v = Some (h', v') -> exists e, h' = h ++ e.

Lemma copy_kvs_extends {K} (cp : heap -> hv -> option (heap * hv)) : extends cp ->
  forall (l : list (K * hv)) h h' l', copy_kvs cp h l = Some (h', l') -> exists e, h' = h ++ e.
Proof.
  intros Hcp l. induction l as [|[k v] t IH]; intros h h' l' H; cbn in H.
  - inversion H; subst. exists []. rewrite app_nil_r. reflexivity.
  - destruct (cp h v) as [[h1 v1]|] eqn:E1; [|discriminate]. destruct (copy_kvs cp h1 t) as [[h2 t']|] eqn:E2; [|discriminate].
    inversion H; subst. destruct (Hcp _ _ _ _ E1) as [e1 ->]. destruct (IH _ _ _ E2) as [e2 ->]. exists (e1 ++ e2). rewrite app_assoc. reflexivity.
Qed.
Lemma copy_fields_extends sh dp : extends sh -> extends dp ->
  forall fields h src h' o', copy_fields sh dp h src fields = Some (h', o') -> exists e, h' = h ++ e.
Proof.
  intros Hs Hd fields. induction fields as [|c t IH]; intros h src h' o' H; cbn [copy_fields] in H.
  - inversion H; subst. exists []. rewrite app_nil_r. reflexivity.
  - destruct (String.eqb (csrc c) ""); [eapply IH; eauto|].
    destruct (match cmode c with CShallow => sh h (hattr (csrc c) src) | CDeep => dp h (hattr (csrc c) src) | CPlain => Some (h, hattr (csrc c) src) end)
      as [[h1 v1]|] eqn:E1; [|discriminate].
    destruct (copy_fields sh dp h1 src t) as [[h2 t']|] eqn:E2; [|discriminate]. inversion H; subst.
    assert (exists e1, h1 = h ++ e1) as [e1 ->].
    { destruct (cmode c); [eapply Hs; eauto | eapply Hd; eauto | inversion E1; subst; exists []; rewrite app_nil_r; reflexivity]. }
    destruct (IH _ _ _ _ E2) as [e2 ->]. exists (e1 ++ e2). rewrite app_assoc. reflexivity.
Qed.
Lemma alloc_extends h c : fst (alloc h c) = h ++ [c]. Proof. reflexivity. Qed.

Lemma copy_hv_extends specs fuel : forall deep, extends (copy_hv specs fuel deep).
Proof.
  induction fuel as [|n IH]; intros deep h v h' v' H; [discriminate|]. cbn [copy_hv] in H.
  destruct v as [|x|l]; try (inversion H; subst; exists []; rewrite app_nil_r; reflexivity).
  destruct (nth_error h l) as [[x|d|t p|cn fs]|] eqn:E; try discriminate.
  - inversion H; subst. exists [CArr x]. reflexivity.
  - destruct deep.
    + destruct (copy_kvs (copy_hv specs n true) h d) as [[h1 d']|] eqn:E1; [|discriminate]. inversion H; subst.
      destruct (copy_kvs_extends _ (IH true) _ _ _ _ E1) as [e ->]. exists (e ++ [CDict d']). rewrite app_assoc. reflexivity.
    + inversion H; subst. exists [CDict d]. reflexivity.
  - inversion H; subst. exists [COpaque t p]. reflexivity.
  - destruct (find_spec cn specs) as [s|]; [|discriminate].
    destruct (copy_fields _ _ h fs _) as [[h1 fs']|] eqn:E1; [|discriminate]. inversion H; subst.
    destruct (copy_fields_extends _ _ (IH false) (IH true) _ _ _ _ _ E1) as [e ->]. exists (e ++ [CObj cn fs']). rewrite app_assoc. reflexivity.
Qed.

(** ** a deep copy allocates everything it returns *)
(** tables of the classes that may occur nested: every attribute is deep-copied by __deepcopy__ *)
Definition strict_deep (s : cls_spec) : bool :=
  forallb (fun c => String.eqb (csrc c) "" || cpmode_eqb (cmode c) CDeep) (dp_ctor s ++ dp_post s).

Definition fresh_copier (n0 : nat) (cp : heap -> hv -> option (heap * hv)) : Prop :=
  forall h v h' v', n0 <= length h -> cp h v = Some (h', v') -> exists e, h' = h ++ e /\ Forall (cell_ge n0) e /\ hv_ge n0 v'.

Lemma copy_kvs_fresh {K} n0 (cp : heap -> hv -> option (heap * hv)) : fresh_copier n0 cp ->
  forall (l : list (K * hv)) h h' l', n0 <= length h -> copy_kvs cp h l = Some (h', l') ->
  exists e, h' = h ++ e /\ Forall (cell_ge n0) e /\ Forall (hv_ge n0) (map snd l').
Proof.
  intros Hcp l. induction l as [|[k v] t IH]; intros h h' l' Hn H; cbn in H.
  - inversion H; subst. exists []. rewrite app_nil_r. repeat split; constructor.
  - destruct (cp h v) as [[h1 v1]|] eqn:E1; [|discriminate]. destruct (copy_kvs cp h1 t) as [[h2 t']|] eqn:E2; [|discriminate].
    inversion H; subst. destruct (Hcp _ _ _ _ Hn E1) as [e1 [-> [F1 G1]]].
    assert (Hn1 : n0 <= length (h ++ e1)) by (rewrite app_length; lia).
    destruct (IH _ _ _ Hn1 E2) as [e2 [-> [F2 G2]]].
    exists (e1 ++ e2). rewrite app_assoc. split; [reflexivity|]. split; [apply Forall_app; split; assumption|]. cbn [map snd]. constructor; assumption.
Qed.

Lemma copy_fields_fresh n0 sh dp : fresh_copier n0 dp ->
  forall fields h src h' o', n0 <= length h ->
  forallb (fun c => String.eqb (csrc c) "" || cpmode_eqb (cmode c) CDeep) fields = true ->
  copy_fields sh dp h src fields = Some (h', o') ->
  exists e, h' = h ++ e /\ Forall (cell_ge n0) e /\ Forall (hv_ge n0) (map snd o').
Proof.
  intros Hd fields. induction fields as [|c t IH]; intros h src h' o' Hn Hst H; cbn [copy_fields] in H.
  - inversion H; subst. exists []. rewrite app_nil_r. repeat split; constructor.
  - cbn [forallb] in Hst. apply andb_prop in Hst as [Hc Hst].
    destruct (String.eqb (csrc c) "") eqn:Ec; [eapply IH; eauto|]. cbn [orb] in Hc. destruct (cmode c); try discriminate.
    destruct (dp h (hattr (csrc c) src)) as [[h1 v1]|] eqn:E1; [|discriminate].
    destruct (copy_fields sh dp h1 src t) as [[h2 t']|] eqn:E2; [|discriminate]. inversion H; subst.
    destruct (Hd _ _ _ _ Hn E1) as [e1 [-> [F1 G1]]].
    assert (Hn1 : n0 <= length (h ++ e1)) by (rewrite app_length; lia).
    destruct (IH _ _ _ _ Hn1 Hst E2) as [e2 [-> [F2 G2]]].
    exists (e1 ++ e2). rewrite app_assoc. split; [reflexivity|]. split; [apply Forall_app; split; assumption|]. cbn [map snd]. constructor; assumption.
Qed.

Lemma deepcopy_fresh specs : forallb strict_deep specs = true -> forall fuel n0, fresh_copier n0 (copy_hv specs fuel true).
Proof.
  intros Hst fuel. induction fuel as [|n IH]; intros n0 h v h' v' Hn H; [discriminate|]. cbn [copy_hv] in H.
  destruct v as [|x|l]; try (inversion H; subst; exists []; rewrite app_nil_r; repeat split; constructor).
  destruct (nth_error h l) as [[x|d|t p|cn fs]|] eqn:E; try discriminate.
  - inversion H; subst. exists [CArr x]. repeat split; [repeat constructor | exact Hn].
  - destruct (copy_kvs (copy_hv specs n true) h d) as [[h1 d']|] eqn:E1; [|discriminate]. inversion H; subst.
    destruct (copy_kvs_fresh n0 _ (IH n0) _ _ _ _ Hn E1) as [e [-> [F G]]].
    exists (e ++ [CDict d']). rewrite app_assoc. split; [reflexivity|]. split.
    + apply Forall_app; split; [exact F|]. constructor; [exact G | constructor].
    + cbn. rewrite app_length. lia.
  - inversion H; subst. exists [COpaque t p]. repeat split; [repeat constructor | exact Hn].
  - destruct (find_spec cn specs) as [s|] eqn:Es; [|discriminate].
    assert (Hs : strict_deep s = true).
    { unfold find_spec in Es. apply find_some in Es as [Hin _]. rewrite forallb_forall in Hst. exact (Hst _ Hin). }
    destruct (copy_fields _ _ h fs _) as [[h1 fs']|] eqn:E1; [|discriminate]. inversion H; subst.
    destruct (copy_fields_fresh n0 _ _ (IH n0) _ _ _ _ _ Hn Hs E1) as [e [-> [F G]]].
    exists (e ++ [CObj cn fs']). rewrite app_assoc. split; [reflexivity|]. split.
    + apply Forall_app; split; [exact F|]. constructor; [exact G | constructor].
    + cbn. rewrite app_length. lia.
Qed.

(** what __deepcopy__ of a top-level object returns, field by field *)
Definition field_rel (n0 : nat) (src : hobj) (c : cpfield) (kv : String.string * hv) : Prop :=
  fst kv = ctgt c /\ match cmode c with
                     | CDeep => hv_ge n0 (snd kv)                       (* freshly allocated (or an immediate / None) *)
                     | CPlain => snd kv = hattr (csrc c) src             (* passed on as is *)
                     | CShallow => True
                     end.
Lemma copy_fields_rel n0 sh dp : extends sh -> fresh_copier n0 dp ->
  forall fields h src h' o', n0 <= length h -> copy_fields sh dp h src fields = Some (h', o') ->
  Forall2 (field_rel n0 src) (filter (fun c => negb (String.eqb (csrc c) "")) fields) o'.
Proof.
  intros Hs Hd fields. induction fields as [|c t IH]; intros h src h' o' Hn H; cbn [copy_fields] in H.
  - inversion H; subst. constructor.
  - cbn [filter]. destruct (String.eqb (csrc c) "") eqn:Ec; cbn [negb]; [eapply IH; eauto|].
    unfold field_rel at 1. destruct (cmode c) eqn:Em.
    + destruct (sh h (hattr (csrc c) src)) as [[h1 v1]|] eqn:E1; [|discriminate].
      destruct (copy_fields sh dp h1 src t) as [[h2 t']|] eqn:E2; [|discriminate]. inversion H; subst.
      destruct (Hs _ _ _ _ E1) as [e ->].
      constructor; [unfold field_rel; rewrite Em; split; [reflexivity | exact I] | eapply IH; [|exact E2]; rewrite app_length; lia].
    + destruct (dp h (hattr (csrc c) src)) as [[h1 v1]|] eqn:E1; [|discriminate].
      destruct (copy_fields sh dp h1 src t) as [[h2 t']|] eqn:E2; [|discriminate]. inversion H; subst.
      destruct (Hd _ _ _ _ Hn E1) as [e [-> [_ G]]].
      constructor; [unfold field_rel; rewrite Em; split; [reflexivity | exact G] | eapply IH; [|exact E2]; rewrite app_length; lia].
    + destruct (copy_fields sh dp h src t) as [[h2 t']|] eqn:E2; [|discriminate]. inversion H; subst.
      constructor; [unfold field_rel; rewrite Em; split; reflexivity | eapply IH; [exact Hn | exact E2]].
Qed.

(** ** the fresh region is closed under reachability, whatever is done to it *)
Inductive reach (h : heap) : hv -> loc -> Prop :=
  | reach_here l : reach h (HRef l) l
  | reach_step v l c v' l' : reach h v l -> nth_error h l = Some c -> In v' (cell_vals c) -> reach h v' l' -> reach h v l'.
Lemma reach_ge n h v l : closed_from n h -> hv_ge n v -> reach h v l -> n <= l.
Proof.
  intros Hc Hv R. induction R as [l|v l c v' l' R1 IH1 Hn Hin R2 IH2]; [exact Hv|].
  apply IH2. specialize (Hc l c (IH1 Hv) Hn). unfold cell_ge in Hc. rewrite Forall_forall in Hc. exact (Hc _ Hin).
Qed.

(** a mutation: overwrite the cell at an existing location, or allocate a new one *)
Definition mut := (nat * cell)%type.
Definition apply_mut (h : heap) (m : mut) : heap := if fst m <? length h then set_nth h (fst m) (snd m) else h ++ [snd m].
Definition mut_ok (n : nat) (m : mut) : Prop := n <= fst m /\ cell_ge n (snd m).

Lemma set_nth_length {A} (l : list A) i x : length (set_nth l i x) = length l.
Proof. revert i; induction l as [|a t IH]; intros [|i]; cbn; try reflexivity. rewrite IH. reflexivity. Qed.
Lemma nth_error_set_nth_ne {A} (l : list A) i j x : i <> j -> nth_error (set_nth l i x) j = nth_error l j.
Proof. revert i j; induction l as [|a t IH]; intros [|i] [|j] H; cbn; try reflexivity; try congruence. apply IH. congruence. Qed.
Lemma nth_error_set_nth_eq {A} (l : list A) i x : i < length l -> nth_error (set_nth l i x) i = Some x.
Proof. revert i; induction l as [|a t IH]; intros [|i] H; cbn in *; try lia; [reflexivity|]. apply IH. lia. Qed.

Lemma apply_mut_below n h m : n <= length h -> n <= fst m -> forall l, l < n -> nth_error (apply_mut h m) l = nth_error h l.
Proof.
  intros Hn Hm l Hl. unfold apply_mut. destruct (fst m <? length h) eqn:E.
  - apply nth_error_set_nth_ne. lia.
  - apply Nat.ltb_ge in E. apply nth_error_app_l. lia.
Qed.
Lemma apply_mut_length h m : length h <= length (apply_mut h m).
Proof. unfold apply_mut. destruct (fst m <? length h); [rewrite set_nth_length; lia | rewrite app_length; cbn; lia]. Qed.
Lemma apply_mut_closed_from n h m : n <= length h -> mut_ok n m -> closed_from n h -> closed_from n (apply_mut h m).
Proof.
  intros Hn [Hm Hc] Hcl l c Hl E. unfold apply_mut in E. destruct (fst m <? length h) eqn:L; [apply Nat.ltb_lt in L | apply Nat.ltb_ge in L].
  - destruct (Nat.eq_dec (fst m) l) as [<-|Ne].
    + rewrite nth_error_set_nth_eq in E by exact L. inversion E; subst. exact Hc.
    + rewrite nth_error_set_nth_ne in E by exact Ne. eapply Hcl; eauto.
  - destruct (Nat.lt_ge_cases l (length h)) as [L2|L2].
    + rewrite nth_error_app_l in E by exact L2. eapply Hcl; eauto.
    + rewrite nth_error_app2 in E by exact L2. destruct (l - length h) as [|k]; cbn in E; [inversion E; subst; exact Hc | destruct k; discriminate].
Qed.

Lemma muts_below n ms : Forall (mut_ok n) ms -> forall h l, n <= length h -> l < n -> nth_error (fold_left apply_mut ms h) l = nth_error h l.
Proof.
  induction 1 as [|m ms [Hm _] _ IH]; intros h l Hn Hl; [reflexivity|]. cbn [fold_left].
  rewrite IH; [apply (apply_mut_below n); assumption | pose proof (apply_mut_length h m); lia | exact Hl].
Qed.
Lemma muts_closed_from n ms : Forall (mut_ok n) ms -> forall h, n <= length h -> closed_from n h -> closed_from n (fold_left apply_mut ms h).
Proof.
  induction 1 as [|m ms Hm _ IH]; intros h Hn Hc; [exact Hc|]. cbn [fold_left]. apply IH.
  - pose proof (apply_mut_length h m). lia.
  - apply apply_mut_closed_from; assumption.
Qed.

(** ** observations of the source only depend on the old region *)
Lemma res_simple_below n h h2 v : (forall l, l < n -> nth_error h2 l = nth_error h l) -> hv_lt n v -> res_simple h2 v = res_simple h v.
Proof. intros Hs Hv. destruct v as [|x|l]; try reflexivity. cbn. rewrite Hs by exact Hv. reflexivity. Qed.
Lemma resolve1_below n h h2 v : (forall l, l < n -> nth_error h2 l = nth_error h l) -> n = length h -> closed h -> hv_lt n v ->
  resolve1 h2 v = resolve1 h v.
Proof.
  intros Hs Hn Hc Hv. destruct v as [|x|l]; try reflexivity. cbn in *. rewrite Hs by exact Hv.
  destruct (nth_error h l) as [[x|d|t p|cn fs]|] eqn:E; try reflexivity.
  f_equal. f_equal. apply map_ext_in. intros [k w] Hin. cbn [fst snd]. f_equal. apply (res_simple_below n); [exact Hs|].
  unfold closed in Hc. rewrite Forall_forall in Hc. specialize (Hc _ (nth_error_In _ _ E)). unfold cell_lt in Hc. cbn [cell_vals] in Hc.
  rewrite Forall_forall in Hc. rewrite Hn. apply Hc. apply in_map_iff. exists (k, w). split; [reflexivity | exact Hin].
Qed.

(** ** the theorems *)
(** cells allocated by a table-driven rebuild without shallow copies only refer to the new region *)
Definition no_shallow (fields : list cpfield) : bool :=
  forallb (fun c => String.eqb (csrc c) "" || negb (cpmode_eqb (cmode c) CShallow)) fields.

Lemma copy_fields_cells specs fuel n : forallb strict_deep specs = true ->
  forall fields hh src hh' oo, n <= length hh ->
  copy_fields (copy_hv specs fuel false) (copy_hv specs fuel true) hh src fields = Some (hh', oo) -> no_shallow fields = true ->
  exists e0, hh' = hh ++ e0 /\ Forall (cell_ge n) e0.
Proof.
  intro Hstrict. induction fields as [|c t IH]; intros hh src hh' oo Hn H Hns; cbn [copy_fields] in H.
  - inversion H; subst. exists []. rewrite app_nil_r. split; [reflexivity | constructor].
  - unfold no_shallow in Hns. cbn [forallb] in Hns. apply andb_prop in Hns as [Hc Hns]. fold (no_shallow t) in Hns.
    destruct (String.eqb (csrc c) "") eqn:Ec; [eapply IH; eauto|]. cbn [orb] in Hc.
    destruct (cmode c) eqn:Em; [discriminate | |].
    + destruct (copy_hv specs fuel true hh (hattr (csrc c) src)) as [[h1 v1]|] eqn:E1; [|discriminate].
      destruct (copy_fields _ _ h1 src t) as [[h2 t']|] eqn:E2; [|discriminate]. inversion H; subst.
      destruct (deepcopy_fresh specs Hstrict fuel n _ _ _ _ Hn E1) as [e1 [-> [F1 _]]].
      assert (Hn1 : n <= length (hh ++ e1)) by (rewrite app_length; lia).
      destruct (IH _ _ _ _ Hn1 E2 Hns) as [e2 [-> F2]].
      exists (e1 ++ e2). rewrite app_assoc. split; [reflexivity | apply Forall_app; split; assumption].
    + destruct (copy_fields _ _ hh src t) as [[h2 t']|] eqn:E2; [|discriminate]. inversion H; subst. eapply IH; eauto.
Qed.

Lemma hattr_lt n (ob : hobj) a : Forall (fun kv => hv_lt n (snd kv)) ob -> hv_lt n (hattr a ob).
Proof. induction 1 as [|[k v] t Hv Ht IH]; [exact I|]. cbn [hattr]. destruct (String.eqb a k); assumption. Qed.

Section Deep.
Variables (specs : list cls_spec) (s : cls_spec) (fuel : nat) (h h' : heap) (o o' : hobj).
Hypothesis Hstrict : forallb strict_deep specs = true.                          (* nested classes deep-copy everything *)
Hypothesis Hnosh : no_shallow (dp_ctor s ++ dp_post s) = true.                  (* __deepcopy__ of the class: deepcopy or pass on *)
Hypothesis Hclosed : closed h.                                                 (* the source heap has no dangling references *)
Hypothesis Hcopy : class_copy specs fuel true s h o = Some (h', o').
Let n := length h.

(** the deep copy only appends cells; the appended region refers only to itself; every deep-copied attribute points
    into it (or is None / an immutable immediate), every attribute passed on as is is the source's value *)
Theorem deepcopy_allocates :
  exists e, h' = h ++ e /\ closed_from n h'
            /\ Forall2 (field_rel n o) (filter (fun c => negb (String.eqb (csrc c) "")) (dp_ctor s ++ dp_post s)) o'.
Proof.
  unfold class_copy in Hcopy.
  destruct (copy_fields_cells specs fuel n Hstrict _ _ _ _ _ (le_n _) Hcopy Hnosh) as [e [He Fe]].
  exists e. split; [exact He|]. split.
  - intros l c Hl E. subst h'. rewrite nth_error_app2 in E by exact Hl. apply nth_error_In in E. rewrite Forall_forall in Fe. exact (Fe _ E).
  - eapply copy_fields_rel; [apply copy_hv_extends | apply deepcopy_fresh; exact Hstrict | apply le_n | exact Hcopy].
Qed.

(** whatever is reachable from a deep-copied attribute, after any sequence of mutations confined to the new region, lies in
    the new region — so "a mutation through the copy" is a mutation of the new region *)
Theorem deepcopy_reach_fresh (ms : list mut) : Forall (mut_ok n) ms ->
  forall v l, hv_ge n v -> reach (fold_left apply_mut ms h') v l -> n <= l.
Proof.
  intros Hms v l Hv R. destruct deepcopy_allocates as [e [He [Hc _]]].
  eapply reach_ge; [|exact Hv|exact R]. apply muts_closed_from; [exact Hms | subst h'; rewrite app_length; unfold n; lia | exact Hc].
Qed.

(** no mutation of the new region is visible through the source *)
Theorem deepcopy_independent (ms : list mut) : Forall (mut_ok n) ms -> Forall (fun kv => hv_lt n (snd kv)) o ->
  forall a, resolve1 (fold_left apply_mut ms h') (hattr a o) = resolve1 h (hattr a o).
Proof.
  intros Hms Ho a. destruct deepcopy_allocates as [e [He _]].
  apply (resolve1_below n); [| reflexivity | exact Hclosed |].
  - intros l Hl. rewrite (muts_below n ms Hms); [subst h'; apply nth_error_app_l; exact Hl | subst h'; rewrite app_length; unfold n; lia | exact Hl].
  - apply hattr_lt. exact Ho.
Qed.
End Deep.

(** ** copies are equal to their source *)
Lemma res_simple_ext h e v : hv_lt (length h) v -> res_simple (h ++ e) v = res_simple h v.
Proof. intro Hv. destruct v as [|x|l]; try reflexivity. cbn in *. rewrite nth_error_app_l by exact Hv. reflexivity. Qed.

Lemma nth_error_alloc (h : heap) c : nth_error (h ++ [c]) (length h) = Some c.
Proof. rewrite nth_error_app2 by lia. rewrite Nat.sub_diag. reflexivity. Qed.

(** one value: the copy observes the same simple value, and is a valid reference of the new heap *)
Lemma copy_hv_simple specs fuel deep h v h' v' : copy_hv specs fuel deep h v = Some (h', v') ->
  res_simple h' v' = res_simple h v /\ hv_lt (length h') v' /\ hv_lt (length h) v.
Proof.
  destruct fuel as [|n]; [discriminate|]. cbn [copy_hv]. intro H.
  destruct v as [|x|l]; try (inversion H; subst; repeat split; exact I).
  destruct (nth_error h l) as [[x|d|t p|cn fs]|] eqn:E; try discriminate.
  - inversion H; subst. cbn [res_simple]. rewrite nth_error_alloc, E. repeat split; [cbn; rewrite app_length; cbn; lia | apply nth_error_Some; congruence].
  - assert (L : hv_lt (length h) (HRef l)) by (apply nth_error_Some; congruence).
    destruct deep.
    + destruct (copy_kvs _ h d) as [[h1 d']|]; [|discriminate]. inversion H; subst. cbn [res_simple]. rewrite nth_error_alloc, E.
      repeat split; [cbn; rewrite app_length; cbn; lia | exact L].
    + inversion H; subst. cbn [res_simple]. rewrite nth_error_alloc, E. repeat split; [cbn; rewrite app_length; cbn; lia | exact L].
  - inversion H; subst. cbn [res_simple]. rewrite nth_error_alloc, E. repeat split; [cbn; rewrite app_length; cbn; lia | apply nth_error_Some; congruence].
  - assert (L : hv_lt (length h) (HRef l)) by (apply nth_error_Some; congruence).
    destruct (find_spec cn specs); [|discriminate]. destruct (copy_fields _ _ h fs _) as [[h1 fs']|]; [|discriminate]. inversion H; subst.
    cbn [res_simple]. rewrite nth_error_alloc, E. repeat split; [cbn; rewrite app_length; cbn; lia | exact L].
Qed.

Lemma hv_lt_mono n m v : n <= m -> hv_lt n v -> hv_lt m v.
Proof. intros H Hv. destruct v; cbn in *; try exact I. lia. Qed.

Lemma copy_kvs_simple specs fuel : forall (d : list (str * hv)) h h' d',
  Forall (fun kv => hv_lt (length h) (snd kv)) d -> copy_kvs (copy_hv specs fuel true) h d = Some (h', d') ->
  map (fun kv => (fst kv, res_simple h' (snd kv))) d' = map (fun kv => (fst kv, res_simple h (snd kv))) d.
Proof.
  induction d as [|[k v] t IH]; intros h h' d' Hv H; cbn in H.
  - inversion H; reflexivity.
  - destruct (copy_hv specs fuel true h v) as [[h1 v1]|] eqn:E1; [|discriminate].
    destruct (copy_kvs _ h1 t) as [[h2 t']|] eqn:E2; [|discriminate]. inversion H; subst. cbn [map fst snd].
    inversion Hv as [|? ? Hv0 Hvt]; subst.
    destruct (copy_hv_simple _ _ _ _ _ _ _ E1) as [S1 [V1 _]].
    destruct (copy_hv_extends specs fuel true _ _ _ _ E1) as [e1 ->].
    destruct (copy_kvs_extends _ (copy_hv_extends specs fuel true) _ _ _ _ E2) as [e2 ->].
    f_equal.
    + f_equal. rewrite res_simple_ext by exact V1. exact S1.
    + assert (Hvt1 : Forall (fun kv => hv_lt (length (h ++ e1)) (snd kv)) t)
        by (eapply Forall_impl; [|exact Hvt]; intros kv Hk; eapply hv_lt_mono; [|exact Hk]; rewrite app_length; lia).
      rewrite (IH _ _ _ Hvt1 E2).
      apply map_ext_in. intros [k' w] Hin. cbn [fst snd]. f_equal. apply res_simple_ext.
      rewrite Forall_forall in Hvt. exact (Hvt _ Hin).
Qed.

Lemma copy_kvs_valid specs n : forall (d : list (str * hv)) h hh d' k w,
  copy_kvs (copy_hv specs n true) h d = Some (hh, d') -> In (k, w) d' -> hv_lt (length hh) w.
Proof.
  induction d as [|[k0 v0] t0 IHt]; intros h hh d' k w E1 Hin; cbn in E1.
  - inversion E1; subst. contradiction.
  - destruct (copy_hv specs n true h v0) as [[h1 v1]|] eqn:E3; [|discriminate].
    destruct (copy_kvs _ h1 t0) as [[h2 t']|] eqn:E4; [|discriminate]. inversion E1; subst.
    destruct Hin as [Hin|Hin].
    + inversion Hin; subst. destruct (copy_hv_simple _ _ _ _ _ _ _ E3) as [_ [V _]].
      destruct (copy_kvs_extends _ (copy_hv_extends specs n true) _ _ _ _ E4) as [e ->].
      eapply hv_lt_mono; [|exact V]. rewrite app_length. lia.
    + eapply IHt; eauto.
Qed.

(** copy.copy / copy.deepcopy of one attribute value observes the same value *)
Theorem copy_hv_equal specs fuel deep h v h' v' : closed h -> copy_hv specs fuel deep h v = Some (h', v') ->
  resolve1 h' v' = resolve1 h v.
Proof.
  intros Hc H. destruct fuel as [|n]; [discriminate|]. cbn [copy_hv] in H.
  destruct v as [|x|l]; try (inversion H; subst; reflexivity).
  destruct (nth_error h l) as [[x|d|t p|cn fs]|] eqn:E; try discriminate.
  - inversion H; subst. cbn [resolve1]. rewrite nth_error_alloc, E. reflexivity.
  - assert (Hd : Forall (fun kv => hv_lt (length h) (snd kv)) d).
    { unfold closed in Hc. rewrite Forall_forall in Hc. specialize (Hc _ (nth_error_In _ _ E)). unfold cell_lt in Hc. cbn [cell_vals] in Hc.
      rewrite Forall_map in Hc. exact Hc. }
    destruct deep.
    + destruct (copy_kvs _ h d) as [[h1 d']|] eqn:E1; [|discriminate]. inversion H; subst. cbn [resolve1]. rewrite nth_error_alloc, E.
      f_equal. f_equal.
      destruct (copy_kvs_extends _ (copy_hv_extends specs n true) _ _ _ _ E1) as [e1 ->].
      rewrite <- (copy_kvs_simple _ _ _ _ _ _ Hd E1). apply map_ext_in. intros [k w] Hin. cbn [fst snd]. f_equal. apply res_simple_ext.
      (* the copied values are valid references of the heap they were allocated in *)
      eapply copy_kvs_valid; eauto.
    + inversion H; subst. cbn [resolve1]. rewrite nth_error_alloc, E. f_equal. f_equal.
      apply map_ext_in. intros [k w] Hin. cbn [fst snd]. f_equal. apply res_simple_ext. rewrite Forall_forall in Hd. exact (Hd _ Hin).
  - inversion H; subst. cbn [resolve1]. rewrite nth_error_alloc, E. reflexivity.
  - destruct (find_spec cn specs); [|discriminate]. destruct (copy_fields _ _ h fs _) as [[h1 fs']|]; [|discriminate]. inversion H; subst.
    cbn [resolve1]. rewrite nth_error_alloc, E. reflexivity.
Qed.

(** ** a whole object: every attribute of the copy observes the value of its source attribute *)
Lemma cell_lt_mono n m c : n <= m -> cell_lt n c -> cell_lt m c.
Proof. intros H Hc. unfold cell_lt in *. eapply Forall_impl; [|exact Hc]. intros v Hv. eapply hv_lt_mono; eauto. Qed.
Lemma closed_snoc h c : closed h -> cell_lt (S (length h)) c -> closed (h ++ [c]).
Proof.
  intros Hc Hn. unfold closed. rewrite app_length. cbn [length]. rewrite Nat.add_1_r. apply Forall_app. split.
  - eapply Forall_impl; [|exact Hc]. intros x Hx. eapply cell_lt_mono; [|exact Hx]. lia.
  - constructor; [exact Hn | constructor].
Qed.
Lemma closed_cell h l c : closed h -> nth_error h l = Some c -> cell_lt (length h) c.
Proof. intros Hc E. unfold closed in Hc. rewrite Forall_forall in Hc. exact (Hc _ (nth_error_In _ _ E)). Qed.

Definition good_cp (cp : heap -> hv -> option (heap * hv)) : Prop :=
  forall h v h' v', closed h -> cp h v = Some (h', v') -> closed h' /\ hv_lt (length h') v'.

Lemma copy_kvs_good {K} (cp : heap -> hv -> option (heap * hv)) : good_cp cp -> extends cp ->
  forall (l : list (K * hv)) h h' l', closed h -> copy_kvs cp h l = Some (h', l') -> closed h' /\ Forall (hv_lt (length h')) (map snd l').
Proof.
  intros Hg He l. induction l as [|[k v] t IH]; intros h h' l' Hc H; cbn in H.
  - inversion H; subst. split; [exact Hc | constructor].
  - destruct (cp h v) as [[h1 v1]|] eqn:E1; [|discriminate]. destruct (copy_kvs cp h1 t) as [[h2 t']|] eqn:E2; [|discriminate].
    inversion H; subst. destruct (Hg _ _ _ _ Hc E1) as [Hc1 V1]. destruct (IH _ _ _ Hc1 E2) as [Hc2 V2].
    destruct (copy_kvs_extends _ He _ _ _ _ E2) as [e2 ->].
    split; [exact Hc2|]. cbn [map snd]. constructor; [|exact V2]. eapply hv_lt_mono; [|exact V1]. rewrite !app_length; lia.
Qed.

Lemma hattr_In_or_none k (fs : hobj) : hattr k fs = HNone \/ In (hattr k fs) (map snd fs).
Proof. induction fs as [|[k' v] t IH]; [left; reflexivity|]. cbn [hattr map snd]. destruct (String.eqb k k'); [right; left; reflexivity | destruct IH; [left; assumption | right; right; assumption]]. Qed.

Lemma copy_fields_good sh dp : good_cp sh -> good_cp dp -> extends sh -> extends dp ->
  forall fields h src h' o', closed h -> Forall (hv_lt (length h)) (map snd src) -> copy_fields sh dp h src fields = Some (h', o') ->
  closed h' /\ Forall (hv_lt (length h')) (map snd o').
Proof.
  intros Gs Gd Es Ed fields. induction fields as [|c t IH]; intros h src h' o' Hc Hsrc H; cbn [copy_fields] in H.
  - inversion H; subst. split; [exact Hc | constructor].
  - destruct (String.eqb (csrc c) ""); [eapply IH; eauto|].
    assert (Hv : hv_lt (length h) (hattr (csrc c) src)).
    { destruct (hattr_In_or_none (csrc c) src) as [->|Hin]; [exact I|]. rewrite Forall_forall in Hsrc. exact (Hsrc _ Hin). }
    assert (Step : forall h1 v1, closed h1 -> hv_lt (length h1) v1 -> (exists e, h1 = h ++ e) ->
                   match copy_fields sh dp h1 src t with
                   | Some (h2, t') => Some (h2, (ctgt c, v1) :: t')
                   | None => None end = Some (h', o') -> closed h' /\ Forall (hv_lt (length h')) (map snd o')).
    { intros h1 v1 Hc1 V1 [e ->] H1. destruct (copy_fields sh dp (h ++ e) src t) as [[h2 t']|] eqn:E2; [|discriminate]. inversion H1; subst.
      assert (Hsrc1 : Forall (hv_lt (length (h ++ e))) (map snd src)) by (eapply Forall_impl; [|exact Hsrc]; intros x Hx; eapply hv_lt_mono; [|exact Hx]; rewrite !app_length; lia).
      destruct (IH _ _ _ _ Hc1 Hsrc1 E2) as [Hc2 V2]. destruct (copy_fields_extends _ _ Es Ed _ _ _ _ _ E2) as [e2 ->].
      split; [exact Hc2|]. cbn [map snd]. constructor; [|exact V2]. eapply hv_lt_mono; [|exact V1]. rewrite !app_length; lia. }
    destruct (cmode c).
    + destruct (sh h (hattr (csrc c) src)) as [[h1 v1]|] eqn:E1; [|discriminate]. destruct (Gs _ _ _ _ Hc E1) as [Hc1 V1].
      eapply Step; eauto.
    + destruct (dp h (hattr (csrc c) src)) as [[h1 v1]|] eqn:E1; [|discriminate]. destruct (Gd _ _ _ _ Hc E1) as [Hc1 V1].
      eapply Step; eauto.
    + eapply (Step h (hattr (csrc c) src)); eauto. exists []. rewrite app_nil_r. reflexivity.
Qed.

Lemma copy_hv_good specs fuel : forall deep, good_cp (copy_hv specs fuel deep).
Proof.
  induction fuel as [|n IH]; intros deep h v h' v' Hc H; [discriminate|]. cbn [copy_hv] in H.
  destruct v as [|x|l]; try (inversion H; subst; split; [exact Hc | exact I]).
  destruct (nth_error h l) as [[x|d|t p|cn fs]|] eqn:E; try discriminate.
  - inversion H; subst. split; [apply closed_snoc; [exact Hc | constructor] | cbn; rewrite !app_length; cbn; lia].
  - pose proof (closed_cell _ _ _ Hc E) as Hd. unfold cell_lt in Hd. cbn [cell_vals] in Hd. destruct deep.
    + destruct (copy_kvs (copy_hv specs n true) h d) as [[h1 d']|] eqn:E1; [|discriminate]. inversion H; subst.
      destruct (copy_kvs_good _ (IH true) (copy_hv_extends specs n true) _ _ _ _ Hc E1) as [Hc1 V1].
      split; [|cbn; rewrite !app_length; cbn; lia]. apply closed_snoc; [exact Hc1|]. unfold cell_lt. cbn [cell_vals].
      eapply Forall_impl; [|exact V1]. intros y Hy. eapply hv_lt_mono; [|exact Hy]. lia.
    + inversion H; subst. split; [|cbn; rewrite !app_length; cbn; lia]. apply closed_snoc; [exact Hc|]. unfold cell_lt. cbn [cell_vals].
      eapply Forall_impl; [|exact Hd]. intros y Hy. eapply hv_lt_mono; [|exact Hy]. lia.
  - inversion H; subst. split; [apply closed_snoc; [exact Hc | constructor] | cbn; rewrite !app_length; cbn; lia].
  - pose proof (closed_cell _ _ _ Hc E) as Hd. unfold cell_lt in Hd. cbn [cell_vals] in Hd.
    destruct (find_spec cn specs) as [s|]; [|discriminate].
    destruct (copy_fields _ _ h fs _) as [[h1 fs']|] eqn:E1; [|discriminate]. inversion H; subst.
    destruct (copy_fields_good _ _ (IH false) (IH true) (copy_hv_extends specs n false) (copy_hv_extends specs n true) _ _ _ _ _ Hc Hd E1) as [Hc1 V1].
    split; [|cbn; rewrite !app_length; cbn; lia]. apply closed_snoc; [exact Hc1|]. unfold cell_lt. cbn [cell_vals].
    eapply Forall_impl; [|exact V1]. intros y Hy. eapply hv_lt_mono; [|exact Hy]. lia.
Qed.

Lemma resolve1_ext h e v : closed h -> hv_lt (length h) v -> resolve1 (h ++ e) v = resolve1 h v.
Proof. intros Hc Hv. apply (resolve1_below (length h)); [intros l Hl; apply nth_error_app_l; exact Hl | reflexivity | exact Hc | exact Hv]. Qed.

(** __copy__ and __deepcopy__: attribute by attribute the copy observes what the source observes *)
Theorem class_copy_equal specs fuel deep s h o h' o' :
  closed h -> Forall (hv_lt (length h)) (map snd o) -> class_copy specs fuel deep s h o = Some (h', o') ->
  Forall2 (fun c kv => fst kv = ctgt c /\ resolve1 h' (snd kv) = resolve1 h (hattr (csrc c) o))
          (filter (fun c => negb (String.eqb (csrc c) "")) (if deep then dp_ctor s ++ dp_post s else cp_ctor s ++ cp_post s)) o'.
Proof.
  unfold class_copy. generalize (if deep then dp_ctor s ++ dp_post s else cp_ctor s ++ cp_post s) as fields. clear deep s.
  intros fields Hc Ho. 
  assert (G : forall fields hh hh' oo, closed hh -> (exists e, hh = h ++ e) ->
              copy_fields (copy_hv specs fuel false) (copy_hv specs fuel true) hh o fields = Some (hh', oo) ->
              Forall2 (fun c kv => fst kv = ctgt c /\ resolve1 hh' (snd kv) = resolve1 h (hattr (csrc c) o))
                      (filter (fun c => negb (String.eqb (csrc c) "")) fields) oo).
  { clear fields. induction fields as [|c t IH]; intros hh hh' oo Hch [e0 He0] H; cbn [copy_fields] in H.
    - inversion H; subst. constructor.
    - cbn [filter]. destruct (String.eqb (csrc c) "") eqn:Ec; cbn [negb]; [eapply IH; eauto|].
      assert (Hv : hv_lt (length h) (hattr (csrc c) o)).
      { destruct (hattr_In_or_none (csrc c) o) as [->|Hin]; [exact I|]. rewrite Forall_forall in Ho. exact (Ho _ Hin). }
      assert (Esrc : resolve1 hh (hattr (csrc c) o) = resolve1 h (hattr (csrc c) o)) by (subst hh; apply resolve1_ext; assumption).
      assert (Step : forall h1 v1, closed h1 -> hv_lt (length h1) v1 -> (exists e, h1 = hh ++ e) -> resolve1 h1 v1 = resolve1 h (hattr (csrc c) o) ->
                     match copy_fields (copy_hv specs fuel false) (copy_hv specs fuel true) h1 o t with
                     | Some (h2, t') => Some (h2, (ctgt c, v1) :: t') | None => None end = Some (hh', oo) ->
                     Forall2 (fun c0 kv => fst kv = ctgt c0 /\ resolve1 hh' (snd kv) = resolve1 h (hattr (csrc c0) o))
                             (c :: filter (fun c0 => negb (String.eqb (csrc c0) "")) t) oo).
      { intros h1 v1 Hc1 V1 [e1 He1] R1 H1. destruct (copy_fields _ _ h1 o t) as [[h2 t']|] eqn:E2; [|discriminate]. inversion H1; subst h2 oo.
        constructor.
        - split; [reflexivity|]. cbn [snd].
          destruct (copy_fields_extends _ _ (copy_hv_extends specs fuel false) (copy_hv_extends specs fuel true) _ _ _ _ _ E2) as [e2 ->].
          rewrite resolve1_ext by assumption. exact R1.
        - eapply IH; [exact Hc1 | | exact E2]. exists (e0 ++ e1). subst. rewrite app_assoc. reflexivity. }
      destruct (cmode c).
      + destruct (copy_hv specs fuel false hh (hattr (csrc c) o)) as [[h1 v1]|] eqn:E1; [|discriminate].
        destruct (copy_hv_good specs fuel false _ _ _ _ Hch E1) as [Hc1 V1].
        eapply Step; eauto; [eapply copy_hv_extends; eauto | rewrite (copy_hv_equal _ _ _ _ _ _ _ Hch E1); exact Esrc].
      + destruct (copy_hv specs fuel true hh (hattr (csrc c) o)) as [[h1 v1]|] eqn:E1; [|discriminate].
        destruct (copy_hv_good specs fuel true _ _ _ _ Hch E1) as [Hc1 V1].
        eapply Step; eauto; [eapply copy_hv_extends; eauto | rewrite (copy_hv_equal _ _ _ _ _ _ _ Hch E1); exact Esrc].
      + eapply (Step hh (hattr (csrc c) o)); eauto; [subst hh; eapply hv_lt_mono; [|exact Hv]; rewrite !app_length; lia | exists []; rewrite app_nil_r; reflexivity]. }
  intro H. eapply G; [exact Hc | exists []; rewrite app_nil_r; reflexivity | exact H].
Qed.
