(** C04 — the linear part: every entry of gebv / gegv / predict is intercept + dosage x effects; equivariance under taxon
    reordering; additivity over marker partitions and over chromosome phases; the dominance design. *)
From Coq Require Import Permutation.
From PV Require Import Lib.Common Model.C04_Gmod.
Local Open Scope Q_scope.

(** ** lists *)
Lemma nth_map2 {A B C} (f : A -> B -> C) (da : A) (db : B) (dc : C) : forall (l1 : list A) (l2 : list B) (k : nat),
  (k < length l1)%nat -> (k < length l2)%nat -> nth k (map2 f l1 l2) dc = f (nth k l1 da) (nth k l2 db).
Proof.
  induction l1 as [|x l1 IH]; intros [|y l2] k H1 H2; cbn in *; try lia.
  destruct k; [reflexivity|]. apply IH; lia.
Qed.

Lemma nth_map_in {A B} (f : A -> B) (da : A) (db : B) (l : list A) (k : nat) : (k < length l)%nat -> nth k (map f l) db = f (nth k l da).
Proof. intros H. rewrite (nth_indep _ db (f da)) by (now rewrite map_length). apply map_nth. Qed.

Lemma vadd_length a b : length (vadd a b) = Nat.min (length a) (length b).
Proof. apply map2_length. Qed.
Lemma vscale_length x r : length (vscale x r) = length r.
Proof. apply map_length. Qed.

Definition rows_len {A} (t : nat) (M : list (list A)) : Prop := Forall (fun r => length r = t) M.

Lemma vecmat_length t r M : rows_len t M -> length (vecmat t r M) = t.
Proof.
  revert r. induction M as [|row M IH]; intros [|x r] HM; try apply repeat_length.
  inversion HM; subst. unfold vecmat. cbn [combine fold_right fst snd]. fold (vecmat (length row) r M).
  rewrite vadd_length, vscale_length, IH by assumption. lia.
Qed.

Lemma col_cons {A} (d : A) k (r : list A) M : col d k (r :: M) = nth k r d :: col d k M.
Proof. reflexivity. Qed.
Lemma col_app {A} (d : A) k (M N : list (list A)) : col d k (M ++ N) = col d k M ++ col d k N.
Proof. unfold col. apply map_app. Qed.
Lemma col_length {A} (d : A) k (M : list (list A)) : length (col d k M) = length M.
Proof. unfold col. apply map_length. Qed.

Lemma dotQ_cons x r y c : dotQ (x :: r) (y :: c) = x * y + dotQ r c.
Proof. reflexivity. Qed.
Lemma dotQ_nil_l c : dotQ [] c = 0. Proof. reflexivity. Qed.
Lemma dotQ_nil_r r : dotQ r [] = 0. Proof. destruct r; reflexivity. Qed.

(** entry k of r @ M is the dot product of r with column k of M *)
Lemma vecmat_nth t r M k : rows_len t M -> (k < t)%nat -> nth k (vecmat t r M) 0 == dotQ r (col 0 k M).
Proof.
  revert r. induction M as [|row M IH]; intros [|x r] HM Hk.
  - cbn. rewrite nth_repeat. reflexivity.
  - cbn. rewrite nth_repeat. reflexivity.
  - cbn. rewrite nth_repeat. reflexivity.
  - inversion HM; subst. unfold vecmat. cbn [combine fold_right fst snd]. fold (vecmat (length row) r M).
    rewrite (nth_map2 Qplus 0 0 0) by (rewrite ?vscale_length, ?vecmat_length; assumption).
    unfold vscale. rewrite (nth_map_in (Qmult x) 0 0) by assumption.
    rewrite col_cons, dotQ_cons, IH by assumption. reflexivity.
Qed.

(** ** dot products *)
Lemma dotQ_app r1 r2 c1 c2 : length r1 = length c1 -> dotQ (r1 ++ r2) (c1 ++ c2) == dotQ r1 c1 + dotQ r2 c2.
Proof.
  revert c1. induction r1 as [|x r1 IH]; intros [|y c1] L; cbn in L; try discriminate.
  - cbn [app]. rewrite dotQ_nil_l. ring.
  - cbn [app]. rewrite !dotQ_cons, IH by lia. ring.
Qed.

Lemma dotQ_add_l : forall (r s : list Z) (c : list Q), length r = length s ->
  dotQ (map inject_Z (map2 Z.add r s)) c == dotQ (map inject_Z r) c + dotQ (map inject_Z s) c.
Proof.
  induction r as [|x r IH]; intros [|y s] c L; cbn in L; try discriminate.
  - cbn [map map2]. rewrite !dotQ_nil_l. ring.
  - destruct c as [|z c]; [cbn [map map2]; rewrite !dotQ_nil_r; ring|].
    cbn [map map2]. rewrite !dotQ_cons, IH by lia. rewrite inject_Z_plus. ring.
Qed.

Lemma dotQ_zeros_l n c : dotQ (map inject_Z (repeat 0%Z n)) c == 0.
Proof.
  revert c. induction n as [|n IH]; intros c; [reflexivity|]. destruct c as [|y c]; [now rewrite dotQ_nil_r|].
  cbn [repeat map]. rewrite dotQ_cons, IH. unfold inject_Z. ring.
Qed.

(** ** entries of the raw products *)
Lemma matmul_entry t (A M : qmat) i k : rows_len t M -> (i < length A)%nat -> (k < t)%nat ->
  nth k (nth i (matmul t A M) []) 0 == dotQ (nth i A []) (col 0 k M).
Proof.
  intros HM Hi Hk. unfold matmul. rewrite (nth_map_in (fun r => vecmat t r M) [] []) by exact Hi. now apply vecmat_nth.
Qed.

Lemma qz_row (Z : zmat) i : nth i (qz Z) [] = map inject_Z (nth i Z []).
Proof. unfold qz. change (@nil Q) with (map inject_Z []). apply map_nth. Qed.
Lemma qz_length (Z : zmat) : length (qz Z) = length Z.
Proof. apply map_length. Qed.

(** gebv_numpy / gegv_numpy: entry (i,k) = sum_j Z_ij * U_jk *)
Lemma gebv_numpy_entry g Z v i k : rows_len (g_t g) (bv_effects g) -> gebv_numpy g Z = Some v ->
  (i < length Z)%nat -> (k < g_t g)%nat ->
  nth k (nth i v []) 0 == dotQ (map inject_Z (nth i Z [])) (col 0 k (bv_effects g)).
Proof.
  intros W E Hi Hk. unfold gebv_numpy in E. destruct (ncols_ok _ Z); [|discriminate]. injection E as <-.
  rewrite matmul_entry by (rewrite ?qz_length; assumption). now rewrite qz_row.
Qed.
Lemma gegv_numpy_entry g Z v i k : rows_len (g_t g) (gv_effects g) -> gegv_numpy g Z = Some v ->
  (i < length Z)%nat -> (k < g_t g)%nat ->
  nth k (nth i v []) 0 == dotQ (map inject_Z (nth i Z [])) (col 0 k (gv_effects g)).
Proof.
  intros W E Hi Hk. unfold gegv_numpy in E. destruct (ncols_ok _ Z); [|discriminate]. injection E as <-.
  rewrite matmul_entry by (rewrite ?qz_length; assumption). now rewrite qz_row.
Qed.

Lemma matmul_length t A M : length (matmul t A M) = length A.
Proof. apply map_length. Qed.
Lemma matmul_rows t A M : rows_len t M -> rows_len t (matmul t A M).
Proof. intros HM. unfold rows_len, matmul. rewrite Forall_map. rewrite Forall_forall. intros r _. now apply vecmat_length. Qed.

(** broadcasting the location: entry (i,k) of (A += v) *)
Lemma addrow_entry t (A : qmat) (v : list Q) i k : rows_len t A -> length v = t -> (i < length A)%nat -> (k < t)%nat ->
  nth k (nth i (addrow A v) []) 0 = nth k (nth i A []) 0 + nth k v 0.
Proof.
  intros HA Hv Hi Hk. unfold addrow. rewrite (nth_map_in (fun r => vadd r v) [] []) by exact Hi.
  unfold rows_len in HA. rewrite Forall_forall in HA. specialize (HA (nth i A []) (nth_In _ _ Hi)).
  unfold vadd. apply (nth_map2 Qplus 0 0 0); lia.
Qed.

(** the intercept contrast: X* @ beta = beta_0 + (1/q) * sum_{r >= 1} beta_r *)
Lemma dotQ_repeat x n c : length c = n -> dotQ (repeat x n) c == x * sumQ c.
Proof.
  revert c. induction n as [|n IH]; intros [|y c] L; cbn in L; try discriminate.
  - cbn. ring.
  - cbn [repeat]. rewrite dotQ_cons, IH by lia. cbn [sumQ fold_right]. fold (sumQ c). ring.
Qed.

Lemma location_entry g k b0 rest : g_beta g = b0 :: rest -> rows_len (g_t g) (g_beta g) -> (k < g_t g)%nat ->
  nth k (location g) 0 == nth k b0 0 + (1 / inject_Z (Z.of_nat (S (length rest)))) * sumQ (col 0 k rest).
Proof.
  intros E W Hk. unfold location, nexplan_beta. rewrite vecmat_nth by assumption. rewrite E. cbn [length xstar].
  rewrite col_cons, dotQ_cons, dotQ_repeat by (now rewrite col_length). ring.
Qed.

(** ** the values of a breeding value matrix *)
Definition shaped (g : gmodel) : Prop :=
  rows_len (g_t g) (g_beta g) /\ rows_len (g_t g) (g_umisc g) /\ rows_len (g_t g) (g_ua g) /\ rows_len (g_t g) (g_ud g).

Lemma shaped_bv g : shaped g -> rows_len (g_t g) (bv_effects g).
Proof. intros (_ & Hm & Ha & Hd). unfold bv_effects, g_u. destruct (g_cls g); try assumption. unfold rows_len in *. rewrite !Forall_app. tauto. Qed.
Lemma shaped_gv g : shaped g -> rows_len (g_t g) (gv_effects g).
Proof. intros S. pose proof (shaped_bv g S) as B. destruct S as (_ & Hm & Ha & Hd). unfold gv_effects in *. destruct (g_cls g); try assumption. unfold rows_len in *. rewrite Forall_app. tauto. Qed.
Lemma shaped_u g : shaped g -> rows_len (g_t g) (g_u g).
Proof. intros (_ & Hm & Ha & Hd). unfold g_u, rows_len in *. rewrite !Forall_app. tauto. Qed.

Lemma location_length g : shaped g -> length (location g) = g_t g.
Proof. intros (Hb & _). unfold location. now apply vecmat_length. Qed.

(** gebv: value of taxon i for trait k = intercept_k + sum_j dosage_ij * u_jk;  labels are the input's *)
Lemma gebv_entry g gt l v lab i k : shaped g -> gebv g gt l = Some (v, lab) -> (i < length (dosage gt))%nat -> (k < g_t g)%nat ->
  nth k (nth i v []) 0 == nth k (location g) 0 + dotQ (map inject_Z (nth i (dosage gt) [])) (col 0 k (bv_effects g))
  /\ lab = gt_labels gt l /\ length v = length (dosage gt).
Proof.
  intros S E Hi Hk. unfold gebv in E. destruct (gebv_numpy g (dosage gt)) as [w|] eqn:Ew; [|discriminate]. injection E as <- <-.
  pose proof (shaped_bv g S) as W.
  assert (Lw : length w = length (dosage gt)).
  { unfold gebv_numpy in Ew. destruct (ncols_ok _ _); [|discriminate]. injection Ew as <-. now rewrite matmul_length, qz_length. }
  assert (Rw : rows_len (g_t g) w).
  { unfold gebv_numpy in Ew. destruct (ncols_ok _ _); [|discriminate]. injection Ew as <-. now apply matmul_rows. }
  split; [|split; [reflexivity | unfold addrow; now rewrite map_length]].
  rewrite (addrow_entry (g_t g)); [| exact Rw | now apply location_length | now rewrite Lw | exact Hk].
  rewrite (gebv_numpy_entry g (dosage gt) w i k W Ew Hi Hk). ring.
Qed.

(** gegv: + sum_j het_ij * d_jk through the class's design *)
Lemma gegv_entry g gt arg l v lab i k : shaped g -> gegv g gt arg l = Some (v, lab) -> (i < length (design g gt arg))%nat -> (k < g_t g)%nat ->
  nth k (nth i v []) 0 == nth k (location g) 0 + dotQ (map inject_Z (nth i (design g gt arg) [])) (col 0 k (gv_effects g))
  /\ lab = gt_labels gt l /\ length v = length (design g gt arg).
Proof.
  intros S E Hi Hk. unfold gegv in E. destruct (gegv_numpy g (design g gt arg)) as [w|] eqn:Ew; [|discriminate]. injection E as <- <-.
  pose proof (shaped_gv g S) as W.
  assert (Lw : length w = length (design g gt arg)).
  { unfold gegv_numpy in Ew. destruct (ncols_ok _ _); [|discriminate]. injection Ew as <-. now rewrite matmul_length, qz_length. }
  assert (Rw : rows_len (g_t g) w).
  { unfold gegv_numpy in Ew. destruct (ncols_ok _ _); [|discriminate]. injection Ew as <-. now apply matmul_rows. }
  split; [|split; [reflexivity | unfold addrow; now rewrite map_length]].
  rewrite (addrow_entry (g_t g)); [| exact Rw | now apply location_length | now rewrite Lw | exact Hk].
  rewrite (gegv_numpy_entry g (design g gt arg) w i k W Ew Hi Hk). ring.
Qed.

(** the dominance design row: dosages followed by heterozygosity indicators, so that the genotypic value splits into
    an additive and a dominance part *)
Lemma hcat_row {A} (M N : list (list A)) i : (i < length M)%nat -> (i < length N)%nat -> nth i (hcat M N) [] = nth i M [] ++ nth i N [].
Proof. intros H1 H2. unfold hcat. now apply (nth_map2 (@app A) [] [] []). Qed.

Lemma gegv_dominance_split g gt arg i k : g_cls g = CAD -> (i < length (dosage gt))%nat ->
  length (nth i (dosage gt) []) = length (g_ua g) ->
  dotQ (map inject_Z (nth i (design g gt arg) [])) (col 0 k (gv_effects g)) ==
  dotQ (map inject_Z (nth i (dosage gt) [])) (col 0 k (g_ua g)) + dotQ (map inject_Z (nth i (het gt arg) [])) (col 0 k (g_ud g)).
Proof.
  intros C Hi L. unfold design, gv_effects. rewrite C.
  assert (Lh : length (het gt arg) = length (dosage gt)) by (unfold het; now rewrite map_length).
  rewrite hcat_row by lia. rewrite map_app, col_app. apply dotQ_app. now rewrite map_length, col_length.
Qed.

(** predict_numpy: entry = sum_r X_ir beta_rk + sum_j Z_ij u_jk *)
Lemma predict_numpy_entry g X Z v i k : shaped g -> predict_numpy g X Z = Some v -> (i < length X)%nat -> (k < g_t g)%nat ->
  nth k (nth i v []) 0 == dotQ (nth i X []) (col 0 k (g_beta g)) + dotQ (nth i Z []) (col 0 k (g_u g)).
Proof.
  intros S E Hi Hk. unfold predict_numpy in E.
  destruct (ncols_ok (nexplan_beta g) X && Nat.eqb (length Z) (length X) && ncols_ok (nexplan_u g) Z) eqn:C; [|discriminate].
  injection E as <-. apply andb_prop in C as [C _]. apply andb_prop in C as [_ C]. apply Nat.eqb_eq in C.
  pose proof S as (Hb & _). pose proof (shaped_u g S) as Hu.
  unfold madd. rewrite (nth_map2 vadd [] [] []) by (rewrite matmul_length; lia).
  unfold vadd. rewrite (nth_map2 Qplus 0 0 0).
  - rewrite !matmul_entry by (assumption || lia). reflexivity.
  - unfold matmul. rewrite (nth_map_in (fun r => vecmat (g_t g) r (g_beta g)) [] []) by exact Hi. now rewrite vecmat_length.
  - unfold matmul. rewrite (nth_map_in (fun r => vecmat (g_t g) r (g_u g)) [] []) by lia. now rewrite vecmat_length.
Qed.

(** ** equivariance under taxon reordering (any index list in range, in particular any permutation) *)
Definition in_range (n : nat) (ix : list nat) : Prop := Forall (fun i => (i < n)%nat) ix.

Lemma takes_map {A B} (f : A -> B) (da : A) (db : B) ix (l : list A) : in_range (length l) ix ->
  takes db ix (map f l) = map f (takes da ix l).
Proof.
  intros H. unfold takes. rewrite map_map. apply map_ext_in. intros i Hi.
  unfold in_range in H. rewrite Forall_forall in H. now apply nth_map_in, H.
Qed.

Lemma ncols_ok_takes {A} k ix (M : list (list A)) : in_range (length M) ix -> ncols_ok k M = true -> ncols_ok k (takes [] ix M) = true.
Proof.
  intros H C. unfold ncols_ok, takes in *. rewrite forallb_forall in *. intros r Hr. apply in_map_iff in Hr as (i & <- & Hi).
  apply C, nth_In. unfold in_range in H. rewrite Forall_forall in H. now apply H.
Qed.

Lemma gebv_numpy_takes g Z v ix : in_range (length Z) ix -> gebv_numpy g Z = Some v ->
  gebv_numpy g (takes [] ix Z) = Some (takes [] ix v).
Proof.
  intros H E. unfold gebv_numpy in *. destruct (ncols_ok _ Z) eqn:C; [|discriminate]. injection E as <-.
  rewrite (ncols_ok_takes _ _ _ H C). f_equal. unfold matmul, qz.
  rewrite <- (takes_map (map inject_Z) [] []) by exact H. rewrite <- (takes_map _ [] []) by (now rewrite map_length). reflexivity.
Qed.
Lemma gegv_numpy_takes g Z v ix : in_range (length Z) ix -> gegv_numpy g Z = Some v ->
  gegv_numpy g (takes [] ix Z) = Some (takes [] ix v).
Proof.
  intros H E. unfold gegv_numpy in *. destruct (ncols_ok _ Z) eqn:C; [|discriminate]. injection E as <-.
  rewrite (ncols_ok_takes _ _ _ H C). f_equal. unfold matmul, qz.
  rewrite <- (takes_map (map inject_Z) [] []) by exact H. rewrite <- (takes_map _ [] []) by (now rewrite map_length). reflexivity.
Qed.

(** reordering the taxa of a genotype input *)
Definition gt_take (ix : list nat) (gt : gtin) : gtin :=
  match gt with
  | GPhased n p ph => GPhased (length ix) p (map (takes [] ix) ph)
  | GUnphased k m => GUnphased k (takes [] ix m)
  | GRaw m => GRaw (takes [] ix m)
  end.
Definition lab_take (ix : list nat) (l : labels) : labels :=
  (option_map (takes String.EmptyString ix) (fst l), option_map (takes 0%Z ix) (snd l)).

Definition phases_ok (n p : nat) (ph : list zmat) : Prop := Forall (fun P => length P = n /\ rows_len p P) ph.

Lemma takes_length {A} (d : A) ix l : length (takes d ix l) = length ix.
Proof. apply map_length. Qed.

Lemma nth_repeat_in {A} (x d : A) n i : (i < n)%nat -> nth i (repeat x n) d = x.
Proof. intros H. rewrite (nth_indep _ d x) by (now rewrite repeat_length). apply nth_repeat. Qed.

Lemma takes_repeat {A} (d x : A) n ix : in_range n ix -> takes d ix (repeat x n) = repeat x (length ix).
Proof.
  intros H. unfold takes. induction H as [|i ix Hi _ IH]; [reflexivity|]. cbn [map length repeat]. rewrite IH. f_equal. now apply nth_repeat_in.
Qed.

Lemma zmadd_takes ix (A B : zmat) : length A = length B -> in_range (length A) ix ->
  takes [] ix (zmadd A B) = zmadd (takes [] ix A) (takes [] ix B).
Proof.
  intros L H. unfold takes, zmadd. induction H as [|i ix Hi _ IH]; [reflexivity|]. cbn [map map2]. rewrite IH. f_equal.
  apply (nth_map2 (map2 Z.add) [] [] []); lia.
Qed.

Lemma zmadd_length A B : length (zmadd A B) = Nat.min (length A) (length B).
Proof. apply map2_length. Qed.

Lemma ph_sum_length n p ph : phases_ok n p ph -> length (ph_sum n p ph) = n.
Proof.
  induction 1 as [|P ph [HP _] _ IH]; cbn [ph_sum fold_right]; [apply repeat_length|]. fold (ph_sum n p ph). rewrite zmadd_length, HP, IH. apply Nat.min_id.
Qed.

Lemma ph_sum_takes n p ph ix : phases_ok n p ph -> in_range n ix ->
  ph_sum (length ix) p (map (takes [] ix) ph) = takes [] ix (ph_sum n p ph).
Proof.
  intros H R. induction H as [|P ph [HP HPr] Hph IH]; cbn [ph_sum fold_right map].
  - symmetry. now apply takes_repeat.
  - fold (ph_sum n p ph). fold (ph_sum (length ix) p (map (takes [] ix) ph)). rewrite IH.
    symmetry. apply zmadd_takes; [now rewrite ph_sum_length | now rewrite HP].
Qed.

Definition gt_ok (gt : gtin) : Prop := match gt with GPhased n p ph => phases_ok n p ph | _ => True end.

Lemma dosage_take ix gt : gt_ok gt -> in_range (length (dosage gt)) ix -> dosage (gt_take ix gt) = takes [] ix (dosage gt).
Proof.
  destruct gt as [n p ph|k m|m]; cbn [gt_ok gt_take dosage]; intros H R; try reflexivity.
  apply ph_sum_takes; [exact H|]. now rewrite ph_sum_length in R.
Qed.

Lemma gt_labels_take ix gt l : gt_labels (gt_take ix gt) (lab_take ix l) = lab_take ix (gt_labels gt l).
Proof. destruct gt; reflexivity. Qed.

Lemma addrow_takes ix (A : qmat) v : in_range (length A) ix -> addrow (takes [] ix A) v = takes [] ix (addrow A v).
Proof. intros H. unfold addrow. symmetry. now apply (takes_map _ [] []). Qed.

(** gebv of the reordered input = the reordered gebv, values and labels *)
Lemma gebv_equivariant g gt l ix v lab : gt_ok gt -> in_range (length (dosage gt)) ix -> gebv g gt l = Some (v, lab) ->
  gebv g (gt_take ix gt) (lab_take ix l) = Some (takes [] ix v, lab_take ix lab).
Proof.
  intros Hok R E. unfold gebv in *. rewrite dosage_take by assumption.
  destruct (gebv_numpy g (dosage gt)) as [w|] eqn:Ew; [|discriminate]. injection E as <- <-.
  rewrite (gebv_numpy_takes g _ w ix R Ew). rewrite gt_labels_take. f_equal. f_equal.
  apply addrow_takes. unfold gebv_numpy in Ew. destruct (ncols_ok _ _); [|discriminate]. injection Ew as <-. now rewrite matmul_length, qz_length.
Qed.

Lemma gt_ploidy_take ix gt : gt_ploidy (gt_take ix gt) = gt_ploidy gt.
Proof. destruct gt; cbn; try reflexivity. now rewrite map_length. Qed.

Lemma eff_ploidy_take ix gt arg : eff_ploidy (gt_take ix gt) arg = eff_ploidy gt arg.
Proof. unfold eff_ploidy. now rewrite gt_ploidy_take. Qed.

Lemma het_take ix gt arg : gt_ok gt -> in_range (length (dosage gt)) ix -> het (gt_take ix gt) arg = takes [] ix (het gt arg).
Proof.
  intros Hok R. unfold het. rewrite eff_ploidy_take, dosage_take by assumption.
  symmetry; now apply (takes_map _ [] []).
Qed.

Lemma hcat_takes {A} ix (M N : list (list A)) : length M = length N -> in_range (length M) ix ->
  takes [] ix (hcat M N) = hcat (takes [] ix M) (takes [] ix N).
Proof.
  intros L H. unfold takes, hcat. induction H as [|i ix Hi _ IH]; [reflexivity|]. cbn [map map2]. rewrite IH. f_equal.
  apply (nth_map2 (@app A) [] [] []); lia.
Qed.

Lemma design_take g ix gt arg : gt_ok gt -> in_range (length (dosage gt)) ix -> design g (gt_take ix gt) arg = takes [] ix (design g gt arg).
Proof.
  intros Hok R. unfold design. destruct (g_cls g); try now apply dosage_take.
  rewrite dosage_take, het_take by assumption. symmetry. apply hcat_takes; [|exact R].
  unfold het. now rewrite map_length.
Qed.

Lemma design_length g gt arg : length (design g gt arg) = length (dosage gt).
Proof.
  unfold design. destruct (g_cls g); try reflexivity. unfold hcat. rewrite map2_length.
  unfold het. rewrite map_length; apply Nat.min_id.
Qed.

Lemma gegv_equivariant g gt arg l ix v lab : gt_ok gt -> in_range (length (dosage gt)) ix -> gegv g gt arg l = Some (v, lab) ->
  gegv g (gt_take ix gt) arg (lab_take ix l) = Some (takes [] ix v, lab_take ix lab).
Proof.
  intros Hok R E. unfold gegv in *. rewrite design_take by assumption.
  destruct (gegv_numpy g (design g gt arg)) as [w|] eqn:Ew; [|discriminate]. injection E as <- <-.
  assert (R' : in_range (length (design g gt arg)) ix) by (now rewrite design_length).
  rewrite (gegv_numpy_takes g _ w ix R' Ew). rewrite gt_labels_take. f_equal. f_equal.
  apply addrow_takes. unfold gegv_numpy in Ew. destruct (ncols_ok _ _); [|discriminate]. injection Ew as <-. now rewrite matmul_length, qz_length.
Qed.

Lemma madd_takes ix (A B : qmat) : length A = length B -> in_range (length A) ix ->
  takes [] ix (madd A B) = madd (takes [] ix A) (takes [] ix B).
Proof.
  intros L H. unfold takes, madd. induction H as [|i ix Hi _ IH]; [reflexivity|]. cbn [map map2]. rewrite IH. f_equal.
  apply (nth_map2 vadd [] [] []); lia.
Qed.

Lemma predict_numpy_takes g X Z v ix : in_range (length X) ix -> predict_numpy g X Z = Some v ->
  predict_numpy g (takes [] ix X) (takes [] ix Z) = Some (takes [] ix v).
Proof.
  intros H E. unfold predict_numpy in *.
  destruct (ncols_ok (nexplan_beta g) X && Nat.eqb (length Z) (length X) && ncols_ok (nexplan_u g) Z) eqn:C; [|discriminate].
  injection E as <-. apply andb_prop in C as [C C3]. apply andb_prop in C as [C1 C2]. apply Nat.eqb_eq in C2.
  assert (H' : in_range (length Z) ix) by (now rewrite C2).
  rewrite (ncols_ok_takes _ _ _ H C1), (ncols_ok_takes _ _ _ H' C3), !takes_length, Nat.eqb_refl. cbn [andb]. f_equal.
  rewrite madd_takes by (rewrite ?matmul_length; assumption || lia). unfold matmul.
  rewrite (takes_map _ [] []) by exact H. rewrite (takes_map _ [] []) by exact H'. reflexivity.
Qed.

Lemma predict_equivariant g X gt arg l ix v lab : gt_ok gt -> in_range (length (dosage gt)) ix -> length X = length (dosage gt) ->
  predict g X gt arg l = Some (v, lab) ->
  predict g (takes [] ix X) (gt_take ix gt) arg (lab_take ix l) = Some (takes [] ix v, lab_take ix lab).
Proof.
  intros Hok R LX E. unfold predict in *. rewrite design_take by assumption.
  destruct (predict_numpy g X (qz (design g gt arg))) as [w|] eqn:Ew; [|discriminate]. injection E as <- <-.
  unfold qz. rewrite <- (takes_map (map inject_Z) [] []) by (now rewrite design_length).
  fold (qz (design g gt arg)). rewrite (predict_numpy_takes g X _ w ix) by (rewrite ?LX; assumption). now rewrite gt_labels_take.
Qed.

(** ** additivity over a partition of the markers *)
Lemma firstn_skipn_dot (r : list Z) (k : nat) U1 U2 kk : length (firstn k r) = length U1 ->
  dotQ (map inject_Z r) (col 0 kk (U1 ++ U2)) ==
  dotQ (map inject_Z (firstn k r)) (col 0 kk U1) + dotQ (map inject_Z (skipn k r)) (col 0 kk U2).
Proof.
  intros L. rewrite <- (firstn_skipn k r) at 1. rewrite map_app, col_app. apply dotQ_app. now rewrite map_length, col_length.
Qed.

(** the value computed with all markers = value from the first k markers (model holding u[:k]) + value from the rest *)
Lemma marker_partition g g1 g2 Z (k : nat) v v1 v2 i kk :
  g_t g1 = g_t g -> g_t g2 = g_t g -> bv_effects g = bv_effects g1 ++ bv_effects g2 -> k = length (bv_effects g1) ->
  rows_len (g_t g) (bv_effects g) ->
  gebv_numpy g Z = Some v -> gebv_numpy g1 (map (firstn k) Z) = Some v1 -> gebv_numpy g2 (map (skipn k) Z) = Some v2 ->
  (i < length Z)%nat -> (kk < g_t g)%nat ->
  nth kk (nth i v []) 0 == nth kk (nth i v1 []) 0 + nth kk (nth i v2 []) 0.
Proof.
  intros T1 T2 EU Ek W E E1 E2 Hi Hk.
  assert (W12 : rows_len (g_t g) (bv_effects g1) /\ rows_len (g_t g) (bv_effects g2)) by (unfold rows_len in *; rewrite EU, Forall_app in W; exact W).
  destruct W12 as [W1 W2].
  rewrite (gebv_numpy_entry g Z v i kk W E Hi Hk).
  rewrite (gebv_numpy_entry g1 (map (firstn k) Z) v1 i kk) by (rewrite ?T1, ?map_length; assumption).
  rewrite (gebv_numpy_entry g2 (map (skipn k) Z) v2 i kk) by (rewrite ?T2, ?map_length; assumption).
  rewrite (nth_map_in (firstn k) [] []), (nth_map_in (skipn k) [] []) by assumption.
  rewrite EU. apply firstn_skipn_dot.
  (* the row has all the columns: from the shape check of the full product *)
  unfold gebv_numpy in E. destruct (ncols_ok _ Z) eqn:C; [|discriminate]. unfold ncols_ok in C. rewrite forallb_forall in C.
  specialize (C (nth i Z []) (nth_In _ _ Hi)). apply Nat.eqb_eq in C. rewrite EU, app_length in C.
  rewrite firstn_length. lia.
Qed.

(** ** additivity over chromosome phases: the value of the summed dosage is the sum of the per-phase (haplotype) values *)
Lemma zmadd_row A B i : (i < length A)%nat -> (i < length B)%nat -> nth i (zmadd A B) [] = map2 Z.add (nth i A []) (nth i B []).
Proof. intros H1 H2. unfold zmadd. now apply (nth_map2 (map2 Z.add) [] [] []). Qed.

Lemma ph_sum_rows n p ph : phases_ok n p ph -> rows_len p (ph_sum n p ph).
Proof.
  induction 1 as [|P ph [HP HPr] _ IH]; cbn [ph_sum fold_right].
  - unfold rows_len. rewrite Forall_forall. intros r Hr. apply repeat_spec in Hr. subst. apply repeat_length.
  - fold (ph_sum n p ph). unfold rows_len, zmadd in *. rewrite Forall_forall. intros r Hr.
    apply In_nth with (d := []) in Hr as (i & Hi & <-). rewrite map2_length in Hi.
    rewrite (nth_map2 (map2 Z.add) [] [] []) by lia. rewrite map2_length.
    rewrite Forall_forall in HPr, IH. rewrite (HPr (nth i P [])), (IH (nth i (ph_sum n p ph) [])) by (apply nth_In; lia). apply Nat.min_id.
Qed.

Lemma phase_additive n p ph (c : list Q) i : phases_ok n p ph -> (i < n)%nat ->
  dotQ (map inject_Z (nth i (ph_sum n p ph) [])) c == sumQ (map (fun P => dotQ (map inject_Z (nth i P [])) c) ph).
Proof.
  intros H Hi. induction H as [|P ph [HP HPr] Hph IH]; cbn [ph_sum fold_right map sumQ].
  - rewrite nth_repeat_in by exact Hi. apply dotQ_zeros_l.
  - fold (ph_sum n p ph). fold (sumQ (map (fun P0 => dotQ (map inject_Z (nth i P0 [])) c) ph)).
    rewrite zmadd_row by (rewrite ?ph_sum_length; assumption || lia).
    rewrite dotQ_add_l, IH; [reflexivity|].
    pose proof (ph_sum_rows n p ph Hph) as R. unfold rows_len in *. rewrite Forall_forall in HPr, R.
    rewrite (HPr (nth i P [])), (R (nth i (ph_sum n p ph) [])); [reflexivity| |]; apply nth_In; rewrite ?ph_sum_length; assumption || lia.
Qed.

(** ** the dominance design of a raw dosage array *)
(** a raw array handed over with its ploidy gets the design of the matrix object holding the same data, whatever the ploidy;
    without the keyword it is read as diploid *)
Lemma het_raw_vs_matrix (m : zmat) (k : Z) arg : het (GRaw m) (Some k) = het (GUnphased k m) arg.
Proof. reflexivity. Qed.
Lemma het_raw_default (m : zmat) arg : het (GRaw m) None = het (GUnphased 2 m) arg.
Proof. reflexivity. Qed.
Lemma het_raw_vs_phased n p ph arg : het (GRaw (dosage (GPhased n p ph))) (Some (Z.of_nat (length ph))) = het (GPhased n p ph) arg.
Proof. reflexivity. Qed.

Lemma design_raw_vs_matrix g (m : zmat) (k : Z) arg : design g (GRaw m) (Some k) = design g (GUnphased k m) arg.
Proof. unfold design. now rewrite (het_raw_vs_matrix m k arg). Qed.

(** hence every method that goes through the design returns the same values for the two kinds of input *)
Lemma raw_vs_matrix_methods g (m : zmat) (k : Z) arg l X Y :
  option_map fst (gegv g (GRaw m) (Some k) l) = option_map fst (gegv g (GUnphased k m) arg l) /\
  option_map fst (predict g X (GRaw m) (Some k) l) = option_map fst (predict g X (GUnphased k m) arg l) /\
  score g Y X (GRaw m) (Some k) = score g Y X (GUnphased k m) arg /\
  var_G g (GRaw m) (Some k) = var_G g (GUnphased k m) arg.
Proof.
  unfold gegv, predict, score, var_G. rewrite (design_raw_vs_matrix g m k arg). repeat split.
  - now destruct (gegv_numpy g (design g (GUnphased k m) arg)).
  - now destruct (predict_numpy g X (qz (design g (GUnphased k m) arg))).
Qed.

(** the indicator is 1 exactly on the dosages strictly between 0 and the ploidy *)
Lemma het1_spec ploidy a : (0 <= a <= ploidy)%Z -> (het1 ploidy a = 1%Z <-> (0 < a < ploidy)%Z) /\ (het1 ploidy a = 0%Z <-> (a = 0 \/ a = ploidy)%Z).
Proof. intros H. unfold het1. destruct (Z.eqb_spec a 0), (Z.eqb_spec a ploidy); cbn; split; split; intros; try lia; try discriminate. Qed.

(** regression witness: the FORMER raw-array coding (dosage == 1) agreed with the matrix coding exactly for diploid data (so the
    repair changes nothing there) and for no other ploidy *)
Definition old_het_raw1 (a : Z) : Z := if (a =? 1)%Z then 1%Z else 0%Z.
Lemma old_het_raw_diploid a : (0 <= a <= 2)%Z -> old_het_raw1 a = het1 2 a.
Proof. intros H. unfold old_het_raw1, het1. assert (a = 0 \/ a = 1 \/ a = 2)%Z as [->|[->| ->]] by lia; reflexivity. Qed.

Lemma old_het_raw_not_polyploid : exists ploidy a : Z, (0 <= a <= ploidy)%Z /\ old_het_raw1 a <> het1 ploidy a.
Proof. exists 4%Z, 2%Z. split; [lia|]. cbn. discriminate. Qed.

Lemma old_het_raw_not_haploid : exists a : Z, (0 <= a <= 1)%Z /\ old_het_raw1 a <> het1 1 a.
Proof. exists 1%Z. split; [lia|]. cbn. discriminate. Qed.
