(** C15 — the kernel expressions regenerated from the source (Gen/C15_Kernel.v) are the ones the hand model uses.
    Reductions, operand contributions and call tables are tied by [reflexivity] / [change]; the affine maps (whose model
    versions normalise every intermediate with [Qred]) by computation-free [ring] reasoning.  If an expression of the source
    changes ([numpy.isclose] for the exact zero test, [out += location] before [out *= scale], [mean] for [nanmean],
    [values.mat] for [values.unscale()], a [mode] keyword in one numpy.take, swapped location/scale) the regenerated
    definition no longer matches and this file — hence Props/C15.vo — stops compiling.
    The second half restates the property's laws about the generated definitions themselves. *)
From Coq Require Import Qfield Setoid Morphisms.
From Coq Require Import String.
From PV Require Import Lib.Common Model.C15_Bv Proofs.C15_Bv Gen.C15_Kernel.
Local Open Scope Q_scope.
Local Arguments Qred : simpl never.
Local Arguments Qplus : simpl never.
Local Arguments Qminus : simpl never.
Local Arguments Qmult : simpl never.
Local Arguments Qinv : simpl never.
Local Arguments Qdiv : simpl never.
Local Arguments Qopp : simpl never.
Local Arguments Qeq : simpl never.
Local Arguments Qle_bool : simpl never.
Local Arguments Qeq_bool : simpl never.
Local Arguments inject_Z : simpl never.

(** numpy broadcasts a kernel over the matrix; a missing operand (NaN) makes the result missing *)
Definition lift2 (f : Q -> Q -> Q) (a b : oq) : oq := match a, b with Some x, Some y => Some (f x y) | _, _ => None end.
Definition lift3 (f : Q -> Q -> Q -> Q) (a b c : oq) : oq :=
  match a, b, c with Some x, Some y, Some z => Some (f x y z) | _, _, _ => None end.

(** what the reductions named by the source compute in the model (a standard deviation is represented by its square) *)
Definition red_stat (r : reduction) (c : list oq) : option oq :=
  match r with
  | RMax => st_max c | RMin => st_min c | RPtp => st_range c
  | RMean => Some (np_mean c) | RVar | RStd => Some (np_var c)
  | RNanMean => Some (nanmean c) | RNanStd => Some (nanvar c)
  | RArgmax | RArgmin => None
  end.
Definition red_arg (r : reduction) (c : list oq) : option nat :=
  match r with RArgmax => st_argmax c | RArgmin => st_argmin c | _ => None end.
Definition contrib_opd (k : contrib) : operand -> list (list oq) := match k with CUnscale => opd_unscaled | CStored => opd_stored end.
Definition contrib_part (k : contrib) : part -> list (list oq) :=
  match k with CUnscale => part_unscaled | CStored => fun q => map cdat (part_cols q) end.

(** * generated = model, element by element *)
Lemma k_fn_standardize_model (x l s : oq) : oeq (omul (oinv s) (osub x l)) (lift3 k_fn_standardize x l s).
Proof.
  destruct x as [x|], l as [l|], s as [s|]; cbn; try exact I.
  rewrite !Qred_correct. unfold k_fn_standardize, Qdiv. ring.
Qed.
Lemma k_unscale_model (m s l : oq) : oeq (oadd (omul s m) l) (lift3 k_unscale m s l).
Proof. destruct m as [m|], s as [s|], l as [l|]; cbn; try exact I. rewrite !Qred_correct. unfold k_unscale. ring. Qed.
Lemma k_tmax_unscale_model (m s l : oq) : oeq (oadd (omul m s) l) (lift3 k_tmax_unscale m s l).
Proof. destruct m as [m|], s as [s|], l as [l|]; cbn; try exact I. rewrite !Qred_correct. unfold k_tmax_unscale. ring. Qed.
Lemma k_tmin_unscale_model (m s l : oq) : oeq (oadd (omul m s) l) (lift3 k_tmin_unscale m s l).
Proof. destruct m as [m|], s as [s|], l as [l|]; cbn; try exact I. rewrite !Qred_correct. unfold k_tmin_unscale. ring. Qed.
Lemma k_tmean_unscale_model (m s l : oq) : oeq (oadd (omul m s) l) (lift3 k_tmean_unscale m s l).
Proof. destruct m as [m|], s as [s|], l as [l|]; cbn; try exact I. rewrite !Qred_correct. unfold k_tmean_unscale. ring. Qed.
Lemma k_trange_unscale_model (r s : oq) : oeq (omul r s) (lift2 k_trange_unscale r s).
Proof. destruct r as [r|], s as [s|]; cbn; try exact I. rewrite !Qred_correct. unfold k_trange_unscale. ring. Qed.
Lemma k_tvar_unscale_model (v s : oq) : oeq (omul v (omul s s)) (lift2 k_tvar_unscale v s).
Proof. destruct v as [v|], s as [s|]; cbn; try exact I. rewrite !Qred_correct. unfold k_tvar_unscale. ring. Qed.
(** the model keeps the square of a standard deviation: the source's tstd rule squares to its tvar rule *)
Lemma k_tstd_unscale_model (sd s : Q) : k_tstd_unscale sd s * k_tstd_unscale sd s == k_tvar_unscale (sd * sd) s.
Proof. unfold k_tstd_unscale, k_tvar_unscale. ring. Qed.
Lemma k_sm_transform_model (x l s : oq) : oeq (omul (osub x l) (oinv s)) (lift3 k_sm_transform x l s).
Proof.
  destruct x as [x|], l as [l|], s as [s|]; cbn; try exact I.
  rewrite !Qred_correct. unfold k_sm_transform, Qdiv. ring.
Qed.
Lemma k_sm_untransform_model (x s l : oq) : oeq (oadd (omul x s) l) (lift3 k_sm_untransform x s l).
Proof. destruct x as [x|], s as [s|], l as [l|]; cbn; try exact I. rewrite !Qred_correct. unfold k_sm_untransform. ring. Qed.
Lemma k_sm_unscale_model (x s l : oq) : oeq (oadd (omul x s) l) (lift3 k_sm_unscale x s l).
Proof. destruct x as [x|], s as [s|], l as [l|]; cbn; try exact I. rewrite !Qred_correct. unfold k_sm_unscale. ring. Qed.
Lemma k_sm_rescale_up_model (x s l : oq) : oeq (oadd (omul x s) l) (lift3 k_sm_rescale_up x s l).
Proof. destruct x as [x|], s as [s|], l as [l|]; cbn; try exact I. rewrite !Qred_correct. unfold k_sm_rescale_up. ring. Qed.
Lemma k_sm_rescale_down_model (x l s : oq) : oeq (omul (osub x l) (oinv s)) (lift3 k_sm_rescale_down x l s).
Proof.
  destruct x as [x|], l as [l|], s as [s|]; cbn; try exact I.
  rewrite !Qred_correct. unfold k_sm_rescale_down, Qdiv. ring.
Qed.

(** * ... column by column *)
Lemma F2_map_pointwise {A} (f g : A -> oq) (l : list A) : (forall x, oeq (f x) (g x)) -> coleq (map f l) (map g l).
Proof. intros H. induction l; cbn; constructor; auto. Qed.

Lemma col_from_numpy_kernel (raw : list oq) (l s : oq) :
  coleq (cdat (col_from_numpy raw l s)) (map (fun x => lift3 k_fn_standardize x l s) raw)
  /\ cloc (col_from_numpy raw l s) = l /\ csc (col_from_numpy raw l s) = s.
Proof.
  split; [|split; reflexivity]. cbn [cdat col_from_numpy].
  apply F2_map_pointwise. intros x. apply k_fn_standardize_model.
Qed.
Lemma col_unscale_kernel (c : tcol) : coleq (col_unscale c) (map (fun m => lift3 k_unscale m (csc c) (cloc c)) (cdat c)).
Proof. unfold col_unscale. apply F2_map_pointwise. intros m. apply k_unscale_model. Qed.

Lemma ooeq_refl a : ooeq a a.
Proof. destruct a as [a|]; cbn; [apply oeq_refl | exact I]. Qed.

Lemma c_max_kernel (u : bool) (c : tcol) :
  ooeq (c_max u c) (omap (fun m => if u then lift3 k_tmax_unscale m (csc c) (cloc c) else m) (red_stat k_tmax_red (cdat c))).
Proof.
  unfold c_max. change (red_stat k_tmax_red (cdat c)) with (st_max (cdat c)).
  destruct (st_max (cdat c)) as [m|]; cbn [omap ooeq]; [|exact I]. destruct u; [apply k_tmax_unscale_model | apply oeq_refl].
Qed.
Lemma c_min_kernel (u : bool) (c : tcol) :
  ooeq (c_min u c) (omap (fun m => if u then lift3 k_tmin_unscale m (csc c) (cloc c) else m) (red_stat k_tmin_red (cdat c))).
Proof.
  unfold c_min. change (red_stat k_tmin_red (cdat c)) with (st_min (cdat c)).
  destruct (st_min (cdat c)) as [m|]; cbn [omap ooeq]; [|exact I]. destruct u; [apply k_tmin_unscale_model | apply oeq_refl].
Qed.
Lemma c_mean_kernel (u : bool) (c : tcol) :
  ooeq (c_mean u c) (omap (fun m => if u then lift3 k_tmean_unscale m (csc c) (cloc c) else m) (red_stat k_tmean_red (cdat c))).
Proof.
  unfold c_mean. change (red_stat k_tmean_red (cdat c)) with (Some (np_mean (cdat c))). cbv zeta. cbn [omap ooeq].
  destruct u; [apply k_tmean_unscale_model | apply oeq_refl].
Qed.
Lemma c_range_kernel (u : bool) (c : tcol) :
  ooeq (c_range u c) (omap (fun r => if u then lift2 k_trange_unscale r (csc c) else r) (red_stat k_trange_red (cdat c))).
Proof.
  unfold c_range. change (red_stat k_trange_red (cdat c)) with (st_range (cdat c)). unfold st_range.
  destruct (st_max (cdat c)) as [mx|], (st_min (cdat c)) as [mn|]; cbn [omap ooeq]; try exact I. cbv zeta.
  destruct u; [apply k_trange_unscale_model | apply oeq_refl].
Qed.
Lemma c_var_kernel (u : bool) (c : tcol) :
  ooeq (c_var u c) (omap (fun v => if u then lift2 k_tvar_unscale v (csc c) else v) (red_stat k_tvar_red (cdat c))).
Proof.
  unfold c_var. change (red_stat k_tvar_red (cdat c)) with (Some (np_var (cdat c))). cbv zeta. cbn [omap ooeq].
  destruct u; [apply k_tvar_unscale_model | apply oeq_refl].
Qed.
(** tstd: the same reduction up to the square (the model compares the square of the implementation's tstd with [c_var]) *)
Lemma c_std_kernel (c : tcol) : red_stat k_tstd_red (cdat c) = Some (np_var (cdat c)).
Proof. reflexivity. Qed.
Lemma c_argmax_kernel (c : tcol) : c_argmax c = red_arg k_targmax_red (cdat c).   Proof. reflexivity. Qed.
Lemma c_argmin_kernel (c : tcol) : c_argmin c = red_arg k_targmin_red (cdat c).   Proof. reflexivity. Qed.
(** from_numpy / rescale: location is the NaN-aware mean, scale the NaN-aware standard deviation (through its square) *)
Lemma fn_reductions_kernel (raw : list oq) :
  red_stat k_fn_location_red raw = Some (nanmean raw) /\ red_stat k_fn_scale_red raw = Some (nanvar raw)
  /\ red_stat k_sm_rescale_loc_red raw = Some (nanmean raw) /\ red_stat k_sm_rescale_scale_red raw = Some (nanvar raw).
Proof. repeat split; reflexivity. Qed.

(** the zero-scale rule of the source is the one [sc_ok] accepts: an exact test against 0, replaced by exactly 1 *)
Lemma k_fn_scale_rule_model (s : Q) :
  k_fn_scale_zero s = Qeq_bool s 0 /\ k_fn_scale_fill = 1 /\ k_sm_rescale_zero s = Qeq_bool s 0 /\ k_sm_rescale_fill = 1.
Proof. repeat split; reflexivity. Qed.

(** every taxa routine: a matrix operand / a concatenated matrix contributes its UNSCALED values *)
Definition op_contrib (o : op) : contrib :=
  match o with OInsert _ _ => k_insert_operand | OAdjoin _ => k_adjoin_operand | OAppend _ => k_append_operand
             | OIncorp _ _ => k_incorp_operand | _ => CUnscale end.
Lemma step_kernel (b : bv) (o : op) (p : list prm) :
  step b o p = match raw_step (contrib_opd (op_contrib o)) (contrib_part k_concat_part) (unscale b) o with Some r => restd r p | None => None end.
Proof. destruct o; reflexivity. Qed.
Lemma concat_placeholders_kernel : zero_one = (fun c => mkcol c (Some k_concat_loc0) (Some k_concat_sc0)).
Proof. reflexivity. Qed.
Lemma sm_unscale_reset_kernel (c : tcol) :
  cloc (col_unscale_ip c) = Some k_sm_unscale_location_reset /\ csc (col_unscale_ip c) = Some k_sm_unscale_scale_reset.
Proof. split; reflexivity. Qed.

(** the numpy calls of the copy-on-manipulation routines: values and both label arrays go through the same numpy function
    with the same index object and no further keyword; the results are handed to from_numpy under the right names *)
Local Open Scope string_scope.
Definition call_fn (c : call) : string := fst (snd c).
Definition call_args (c : call) : list string := snd (snd c).
(** index / values arguments = everything between the array and the axis keyword *)
Definition call_middle (c : call) : list string := removelast (tl (call_args c)).
Definition same_calls (fn : string) (cs : list call) : bool :=
  match cs with
  | c0 :: _ => forallb (fun c => String.eqb (call_fn c) fn && Nat.eqb (List.length (call_args c)) (List.length (call_args c0))) cs
  | [] => false end.
Lemma calls_kernel :
  k_select_calls = [("mat", ("numpy.take", ["mat"; "indices"; "axis=self.taxa_axis"]));
                    ("taxa", ("numpy.take", ["taxa"; "indices"; "axis=0"]));
                    ("taxa_grp", ("numpy.take", ["taxa_grp"; "indices"; "axis=0"]))]
  /\ k_delete_calls = [("mat", ("numpy.delete", ["mat"; "obj"; "axis=self.taxa_axis"]));
                       ("taxa", ("numpy.delete", ["taxa"; "obj"; "axis=0"]));
                       ("taxa_grp", ("numpy.delete", ["taxa_grp"; "obj"; "axis=0"]))]
  /\ k_insert_calls = [("values", ("numpy.insert", ["self.unscale()"; "obj"; "values"; "axis=self.taxa_axis"]));
                       ("taxa", ("numpy.insert", ["self._taxa"; "obj"; "taxa"; "axis=0"]));
                       ("taxa_grp", ("numpy.insert", ["self._taxa_grp"; "obj"; "taxa_grp"; "axis=0"]))]
  /\ k_adjoin_calls = [("values", ("numpy.append", ["self.unscale()"; "values"; "axis=self.taxa_axis"]));
                       ("taxa", ("numpy.append", ["self.taxa"; "taxa"; "axis=0"]));
                       ("taxa_grp", ("numpy.append", ["self.taxa_grp"; "taxa_grp"; "axis=0"]))].
Proof. repeat split; reflexivity. Qed.
Lemma builds_kernel :
  k_fn_ctor = [("mat", "mat"); ("location", "location"); ("scale", "scale"); ("taxa", "taxa"); ("taxa_grp", "taxa_grp"); ("trait", "trait"); ("**", "kwargs")]
  /\ k_select_build = [("mat", "mat"); ("taxa", "taxa"); ("taxa_grp", "taxa_grp"); ("trait", "trait"); ("**", "kwargs")]
  /\ k_delete_build = [("mat", "mat"); ("taxa", "taxa"); ("taxa_grp", "taxa_grp"); ("trait", "trait"); ("**", "kwargs")]
  /\ k_insert_build = [("mat", "values"); ("taxa", "taxa"); ("taxa_grp", "taxa_grp"); ("trait", "self.trait"); ("**", "kwargs")]
  /\ k_adjoin_build = [("mat", "values"); ("taxa", "taxa"); ("taxa_grp", "taxa_grp"); ("trait", "self.trait"); ("**", "kwargs")]
  /\ k_restd_assign = [("self._mat", "tmp._mat"); ("self._location", "tmp._location"); ("self._scale", "tmp._scale")].
Proof. repeat split; reflexivity. Qed.
Lemma inplace_kernel :
  k_manip_steps = ["mat = self._mat"; "self._mat = self.unscale()"; "try: method(**kwargs)"; "except Exception: self._mat = mat";
                   "except Exception: raise"; "self._restandardize(self._mat)"]
  /\ k_append_pass = [("method", "super(DenseBreedingValueMatrix, self).append_taxa"); ("values", "values"); ("taxa", "taxa"); ("taxa_grp", "taxa_grp"); ("**", "kwargs")]
  /\ k_remove_pass = [("method", "super(DenseBreedingValueMatrix, self).remove_taxa"); ("obj", "obj"); ("**", "kwargs")]
  /\ k_incorp_pass = [("method", "super(DenseBreedingValueMatrix, self).incorp_taxa"); ("obj", "obj"); ("values", "values"); ("taxa", "taxa"); ("taxa_grp", "taxa_grp"); ("**", "kwargs")].
Proof. repeat split; reflexivity. Qed.
(** ... in the form the history theorems need: within one routine the three calls are the same function of the same index *)
Lemma calls_uniform :
  same_calls "numpy.take" k_select_calls = true /\ map call_middle k_select_calls = [["indices"]; ["indices"]; ["indices"]]
  /\ same_calls "numpy.delete" k_delete_calls = true /\ map call_middle k_delete_calls = [["obj"]; ["obj"]; ["obj"]]
  /\ same_calls "numpy.insert" k_insert_calls = true /\ map call_middle k_insert_calls = [["obj"; "values"]; ["obj"; "taxa"]; ["obj"; "taxa_grp"]]
  /\ same_calls "numpy.append" k_adjoin_calls = true /\ map call_middle k_adjoin_calls = [["values"]; ["taxa"]; ["taxa_grp"]].
Proof. repeat split; reflexivity. Qed.
Local Close Scope string_scope.

(** * the property's laws about the generated definitions themselves *)
Definition fn_scale (sd : Q) : Q := if k_fn_scale_zero sd then k_fn_scale_fill else sd.
Definition sm_scale (sd : Q) : Q := if k_sm_rescale_zero sd then k_sm_rescale_fill else sd.

Lemma fn_scale_nz (sd : Q) : ~ fn_scale sd == 0.
Proof.
  unfold fn_scale, k_fn_scale_zero, k_fn_scale_fill. destruct (Qeq_bool sd (0 # 1)) eqn:E.
  - intros H. discriminate H.
  - intros H. apply Qeq_bool_iff in H. change (0 # 1) with 0 in E. congruence.
Qed.
Lemma sm_scale_nz (sd : Q) : ~ sm_scale sd == 0.
Proof.
  unfold sm_scale, k_sm_rescale_zero, k_sm_rescale_fill. destruct (Qeq_bool sd (0 # 1)) eqn:E.
  - intros H. discriminate H.
  - intros H. apply Qeq_bool_iff in H. change (0 # 1) with 0 in E. congruence.
Qed.

(** unscale o standardise = identity, for every location and every scale the zero-scale rule lets through *)
Lemma kernel_roundtrip (x l s : Q) : ~ s == 0 -> k_unscale (k_fn_standardize x l s) s l == x.
Proof. intros Hs. unfold k_unscale, k_fn_standardize. field. exact Hs. Qed.
Lemma kernel_roundtrip_rule (x l sd : Q) : k_unscale (k_fn_standardize x l (fn_scale sd)) (fn_scale sd) l == x.
Proof. apply kernel_roundtrip, fn_scale_nz. Qed.
Lemma kernel_roundtrip_col (raw : list oq) (l : Q) (sd : Q) :
  let s := Some (fn_scale sd) in
  coleq (map (fun m => lift3 k_unscale m s (Some l)) (map (fun x => lift3 k_fn_standardize x (Some l) s) raw)) raw.
Proof.
  cbv zeta. rewrite map_map. induction raw as [|[x|] t IH]; cbn [map]; constructor; auto.
  - cbn. apply kernel_roundtrip_rule.
  - exact I.
Qed.

Lemma Qclose_eq (x y : Q) : x == y -> Qclose x y = true.
Proof.
  intros E. unfold Qclose. apply Qle_bool_iff.
  assert (H0 : x - y == 0) by (rewrite E; ring).
  assert (Ha : Qabs' (x - y) == 0).
  { unfold Qabs'. destruct (Qle_bool 0 (x - y)); [exact H0 | rewrite H0; reflexivity]. }
  rewrite Ha.
  assert (Hb : 0 <= Qabs' y).
  { unfold Qabs'. destruct (Qle_bool 0 y) eqn:Ey.
    - now apply Qle_bool_iff.
    - apply Qopp_le_compat with (p := y) (q := 0). apply Qlt_le_weak. apply Qnot_le_lt. intros L. apply Qle_bool_iff in L. congruence. }
  apply Qmult_le_0_compat; [discriminate|].
  apply Qle_trans with (0 + 0); [apply Qle_refl|]. apply Qplus_le_compat; [discriminate | exact Hb].
Qed.

(** the scale from_numpy stores — the exact standard deviation put through the source's zero rule — is accepted by the run-time
    check [sc_ok] (hence every theorem with that hypothesis applies to it) *)
Lemma kernel_scale_rule (raw : list oq) (v sd : Q) : nanvar raw = Some v -> 0 <= sd -> sd * sd == v ->
  sc_ok raw (Some (fn_scale sd)) = true.
Proof.
  intros Hv Hsd Hsq. unfold sc_ok. rewrite Hv. unfold fn_scale, k_fn_scale_zero, k_fn_scale_fill. change (0 # 1) with 0.
  destruct (Qeq_bool v 0) eqn:E.
  - apply Qeq_bool_iff in E. rewrite E in Hsq. apply Qmult_integral in Hsq.
    assert (Hz : sd == 0) by tauto. apply Qeq_bool_iff in Hz. rewrite Hz. reflexivity.
  - destruct (Qeq_bool sd 0) eqn:E2.
    + apply Qeq_bool_iff in E2. rewrite E2 in Hsq. assert (Hv0 : v == 0) by (rewrite <- Hsq; ring).
      apply Qeq_bool_iff in Hv0. congruence.
    + apply andb_true_intro. split.
      * apply Qlt_bool_iff. apply Qle_lt_or_eq in Hsd. destruct Hsd as [H|H]; [exact H|].
        symmetry in H. apply Qeq_bool_iff in H. congruence.
      * now apply Qclose_eq.
Qed.

(** covariance of the summaries: each unscale rule of the source inverts the standardisation on its own kind of quantity, and the
    standardisation is strictly increasing for a positive scale (so extrema and arg-extrema are those of the raw column) *)
Lemma kernel_stats_commute (x y l s : Q) : 0 < s ->
  k_tmax_unscale (k_fn_standardize x l s) s l == x /\ k_tmin_unscale (k_fn_standardize x l s) s l == x
  /\ k_tmean_unscale (k_fn_standardize x l s) s l == x
  /\ k_trange_unscale (k_fn_standardize x l s - k_fn_standardize y l s) s == x - y
  /\ (forall v, k_tvar_unscale (v / (s * s)) s == v) /\ (forall d, k_tstd_unscale (d / s) s == d)
  /\ (k_fn_standardize x l s <= k_fn_standardize y l s <-> x <= y).
Proof.
  intros Hs. assert (Hn : ~ s == 0) by now apply pos_nz.
  unfold k_tmax_unscale, k_tmin_unscale, k_tmean_unscale, k_trange_unscale, k_tvar_unscale, k_tstd_unscale, k_fn_standardize.
  repeat split; intros; try (field; exact Hn).
  - assert (Hi : 0 < 1 / s) by (unfold Qdiv; rewrite Qmult_1_l; now apply Qinv_lt_0_compat).
    destruct (Qmult_le_r (x - l) (y - l) (1 / s) Hi) as [A _].
    rewrite (Qmult_comm (1 / s) (x - l)), (Qmult_comm (1 / s) (y - l)) in H.
    apply A in H. apply (Qplus_le_l _ _ (- l)). exact H.
  - assert (Hi : 0 < 1 / s) by (unfold Qdiv; rewrite Qmult_1_l; now apply Qinv_lt_0_compat).
    destruct (Qmult_le_r (x - l) (y - l) (1 / s) Hi) as [_ B].
    rewrite (Qmult_comm (1 / s) (x - l)), (Qmult_comm (1 / s) (y - l)).
    apply B. apply (Qplus_le_l _ _ (- l)) in H. exact H.
Qed.

(** DenseScaledMatrix: untransform inverts transform; unscale(inplace) with its reset and rescale with the new parameters keep
    the raw value scale * mat + location *)
Lemma kernel_scaled (x m l s l' sd : Q) : ~ s == 0 ->
  k_sm_untransform (k_sm_transform x l s) s l == x
  /\ k_sm_untransform (k_sm_unscale m s l) k_sm_unscale_scale_reset k_sm_unscale_location_reset == k_sm_untransform m s l
  /\ k_sm_untransform (k_sm_rescale_down (k_sm_rescale_up m s l) l' (sm_scale sd)) (sm_scale sd) l' == k_sm_untransform m s l.
Proof.
  intros Hs. pose proof (sm_scale_nz sd) as Hn.
  unfold k_sm_untransform, k_sm_transform, k_sm_unscale, k_sm_unscale_scale_reset, k_sm_unscale_location_reset, k_sm_rescale_down, k_sm_rescale_up.
  repeat split; try (field; assumption); try ring.
Qed.
