(** C16 — lemmas about Model/C16_Codec.v: VCF import, genetic-map and matrix data-frame codecs. *)
From Coq Require Import String PrimFloat Permutation Sorted.
From PV Require Import Lib.Common Lib.FloatK Model.C16_Store Model.C16_Codec.
Local Open Scope Z_scope.

(** ** stable insertion sort *)
Section SortFacts.
  Context {A : Type} (leb : A -> A -> bool).
  Hypothesis leb_total : forall x y, leb x y = true \/ leb y x = true.
  Hypothesis leb_trans : forall x y z, leb x y = true -> leb y z = true -> leb x z = true.

  Lemma insert_perm x l : Permutation (insert leb x l) (x :: l).
  Proof.
    induction l as [|y t IH]; cbn; [reflexivity|]. destruct (leb x y); [reflexivity|].
    rewrite IH. apply perm_swap.
  Qed.
  Lemma isort_perm l : Permutation (isort leb l) l.
  Proof. induction l as [|x t IH]; cbn; [constructor|]. fold (isort leb t). rewrite insert_perm. constructor. exact IH. Qed.

  Definition le (x y : A) : Prop := leb x y = true.
  Lemma insert_sorted x l : StronglySorted le l -> StronglySorted le (insert leb x l).
  Proof.
    induction 1 as [|y t Ht IH Hy]; cbn; [repeat constructor|].
    destruct (leb x y) eqn:E.
    - constructor; [constructor; assumption|]. constructor; [exact E|]. rewrite Forall_forall in *. intros z Hz. eapply leb_trans; [exact E | exact (Hy z Hz)].
    - constructor; [exact IH|]. assert (Hyx : le y x) by (destruct (leb_total x y); [congruence | assumption]).
      rewrite Forall_forall in *. intros z Hz. apply (Permutation_in _ (insert_perm x t)) in Hz. destruct Hz as [<-|Hz]; [exact Hyx | exact (Hy z Hz)].
  Qed.
  Lemma isort_sorted l : StronglySorted le (isort leb l).
  Proof. induction l as [|x t IH]; cbn; [constructor|]. apply insert_sorted. exact IH. Qed.
End SortFacts.

(** ** VCF import *)
Lemma vkey_total x y : vkey_leb x y = true \/ vkey_leb y x = true.
Proof.
  unfold vkey_leb. destruct (Z.ltb_spec (vchrom x) (vchrom y)); [left; reflexivity|]. destruct (Z.ltb_spec (vchrom y) (vchrom x)); [right; reflexivity|].
  assert (E : vchrom x = vchrom y) by lia. rewrite E, Z.eqb_refl. cbn. destruct (Z.leb_spec (vpos x) (vpos y)); [left; reflexivity | right; apply Z.leb_le; lia].
Qed.
Lemma vkey_trans x y z : vkey_leb x y = true -> vkey_leb y z = true -> vkey_leb x z = true.
Proof.
  unfold vkey_leb. intros H1 H2.
  apply orb_prop in H1. apply orb_prop in H2. apply orb_true_iff.
  destruct H1 as [H1|H1]; destruct H2 as [H2|H2].
  - left. apply Z.ltb_lt. apply Z.ltb_lt in H1, H2. lia.
  - apply andb_prop in H2 as [H2 _]. apply Z.eqb_eq in H2. left. apply Z.ltb_lt. apply Z.ltb_lt in H1. lia.
  - apply andb_prop in H1 as [H1 _]. apply Z.eqb_eq in H1. left. apply Z.ltb_lt. apply Z.ltb_lt in H2. lia.
  - apply andb_prop in H1 as [H1 H1']. apply andb_prop in H2 as [H2 H2']. apply Z.eqb_eq in H1, H2. apply Z.leb_le in H1', H2'.
    right. apply andb_true_intro. split; [apply Z.eqb_eq; lia | apply Z.leb_le; lia].
Qed.

(** without grouping every array is the file, position by position *)
Theorem vcf_import_exact (phased : bool) (n : nat) (recs : list vrec) :
  let o := vcf_import phased n recs false in
  vo_chr o = map vchrom recs /\ vo_pos o = map vpos recs
  /\ vo_name o = map (fun r => match vid r with Some s => s | None => none_str end) recs
  /\ vo_meta o = None
  /\ (forall i j, (i < n)%nat -> (j < length recs)%nat ->
        let g := nth i (vgt (nth j recs (mkV 0 0 None []))) (0, 0) in
        if phased then nth j (nth i (nth 0 (vo_mat o) []) []) 0 = fst g /\ nth j (nth i (nth 1 (vo_mat o) []) []) 0 = snd g
        else nth j (nth i (nth 0 (vo_mat o) []) []) 0 = fst g + snd g).
Proof.
  cbn zeta. unfold vcf_import. cbn [vo_chr vo_pos vo_name vo_meta vo_mat]. repeat split.
  intros i j Hi Hj. set (d := mkV 0 0 None []).
  assert (Hseq : forall (f : nat -> list Z), nth i (map f (seq 0 n)) [] = f i).
  { intro f. rewrite (nth_indep _ [] (f 0%nat)) by (rewrite map_length, seq_length; exact Hi). rewrite map_nth. rewrite seq_nth by exact Hi. reflexivity. }
  assert (Hrec : forall (f : vrec -> Z), nth j (map f recs) 0 = f (nth j recs d)).
  { intro f. rewrite (nth_indep _ 0 (f d)) by (rewrite map_length; exact Hj). apply map_nth. }
  destruct phased; cbn [nth].
  - rewrite !Hseq, !Hrec. split; reflexivity.
  - rewrite Hseq, Hrec. reflexivity.
Qed.

(** with grouping the result is the import of the stably sorted records: a permutation of the file's records,
    ordered by (chromosome, position) *)
Theorem vcf_import_grouped (phased : bool) (n : nat) (recs : list vrec) :
  let rs := isort vkey_leb recs in
  Permutation rs recs /\ StronglySorted (fun a b => vkey_leb a b = true) rs
  /\ vo_mat (vcf_import phased n recs true) = vo_mat (vcf_import phased n rs false)
  /\ vo_chr (vcf_import phased n recs true) = map vchrom rs /\ vo_pos (vcf_import phased n recs true) = map vpos rs
  /\ vo_name (vcf_import phased n recs true) = vo_name (vcf_import phased n rs false)
  /\ vo_meta (vcf_import phased n recs true) = Some (grp_meta (map vchrom rs)).
Proof.
  cbn zeta. split; [apply isort_perm|]. split; [apply isort_sorted; [exact vkey_total | exact vkey_trans]|].
  unfold vcf_import. cbn. repeat split.
Qed.

(** group metadata: the runs of equal chromosome numbers tile the (sorted) chromosome array *)
Lemma runs_expand l : forall i, flat_map (fun e => repeat (fst (fst e)) (Z.to_nat (snd e))) (runs l i) = l
                              /\ Forall (fun e => 0 < snd e) (runs l i).
Proof.
  induction l as [|x t IH]; intro i; [split; [reflexivity | constructor]|]. cbn [runs].
  destruct (IH (i + 1)) as [E F]. destruct (runs t (i + 1)) as [|[[y s] c] r] eqn:R.
  - cbn in E. subst t. split; [reflexivity | repeat constructor].
  - pose proof F as F0. apply Forall_cons_iff in F as [Hc Fr]. cbn [snd] in Hc. destruct (Z.eqb_spec x y) as [->|Ne].
    + split.
      * cbn [flat_map fst snd] in *. rewrite <- E. rewrite Z2Nat.inj_add by lia. rewrite Nat.add_comm. change (Z.to_nat 1) with 1%nat. cbn [Nat.add repeat app]. reflexivity.
      * constructor; [cbn; lia | exact Fr].
    + split; [cbn [flat_map fst snd]; change (Z.to_nat 1) with 1%nat; cbn [repeat app]; rewrite <- E; reflexivity | constructor; [cbn; lia | exact F0]].
Qed.
Lemma runs_starts l : forall i, match runs l i with
                                | [] => l = []
                                | e :: _ => snd (fst e) = i
                                end
                                /\ (fix chain (r : list (Z * Z * Z)) : Prop :=
                                      match r with
                                      | e1 :: ((e2 :: _) as t) => snd (fst e2) = snd (fst e1) + snd e1 /\ chain t
                                      | _ => True end) (runs l i).
Proof.
  induction l as [|x t IH]; intro i; [split; [reflexivity | exact I]|]. cbn [runs].
  destruct (IH (i + 1)) as [S C]. destruct (runs t (i + 1)) as [|[[y s] c] r] eqn:R.
  - split; [reflexivity | exact I].
  - cbn [fst snd] in S. destruct (Z.eqb_spec x y) as [->|Ne].
    + split; [reflexivity|]. destruct r as [|e2 r']; [exact I|]. destruct C as [C1 C2]. cbn [fst snd] in *. split; [lia | exact C2].
    + split; [reflexivity|]. cbn [fst snd]. split; [lia | exact C].
Qed.

(** ** genetic maps *)
Lemma opt_all_map_some {A B} (f : A -> option B) (g : B -> A) l : (forall x, f (g x) = Some x) -> opt_all (map f (map g l)) = Some l.
Proof. intro H. induction l as [|x t IH]; [reflexivity|]. cbn. rewrite H, IH. reflexivity. Qed.

Lemma col_loc_shift c t : forall i, col_loc c t (S i) = option_map S (col_loc c t i).
Proof. induction t as [|[l x] t IH]; intro i; cbn [col_loc]; [reflexivity|]. destruct (cell_eqb c l); [reflexivity | apply IH]. Qed.
Lemma col_of_cons c l x t : col_of c ((l, x) :: t) = if cell_eqb c l then Some x else col_of c t.
Proof.
  unfold col_of. cbn [col_loc]. destruct (cell_eqb c l); [reflexivity|]. rewrite col_loc_shift.
  destruct (col_loc c t 0) as [i|]; reflexivity.
Qed.

(** Morgans in, Morgans out: the table codec of a standard genetic map loses nothing *)
Theorem gmap_roundtrip_M (g : gmap) (auto_group : bool) : g_stop g = None -> g_name g = None -> g_fn g = None ->
  gmap_from_pandas false UM false false auto_group (gmap_to_pandas false UM g) = Some (gmap_construct auto_group g).
Proof.
  intros E1 E2 E3. destruct g as [c p st ge nm fn]. cbn [g_stop g_name g_fn] in E1, E2, E3. subst.
  unfold gmap_to_pandas, gmap_from_pandas. cbn [g_chr g_pos g_gen g_stop g_name g_fn app].
  rewrite !col_of_cons.
  replace (cell_eqb (CS (zs "chr")) (CS (zs "chr"))) with true by (vm_compute; reflexivity).
  replace (cell_eqb (CS (zs "pos")) (CS (zs "chr"))) with false by (vm_compute; reflexivity).
  replace (cell_eqb (CS (zs "pos")) (CS (zs "pos"))) with true by (vm_compute; reflexivity).
  replace (cell_eqb (CS (zs "cM")) (CS (zs "chr"))) with false by (vm_compute; reflexivity).
  replace (cell_eqb (CS (zs "cM")) (CS (zs "pos"))) with false by (vm_compute; reflexivity).
  replace (cell_eqb (CS (zs "cM")) (CS (zs "cM"))) with true by (vm_compute; reflexivity).
  rewrite !(opt_all_map_some as_int CI) by reflexivity. rewrite (opt_all_map_some as_float CF) by reflexivity. reflexivity.
Qed.

(** centiMorgans: 0.01 * (100 * x) is not the identity on binary64 ... *)
Lemma cM_roundtrip_fails : exists x : float, PrimFloat.eqb (PrimFloat.mul centi (PrimFloat.mul hundred x)) x = false.
Proof. exists 0x1.f1a9fbe76c8b4p-2%float. vm_compute. reflexivity. Qed.
(** ... but it is on the grid k/256, 0 <= k <= 1024 (positions up to 4 Morgans in steps of 1/256) *)
Definition grid256 (k : nat) : float := PrimFloat.div (f_of_Z (Z.of_nat k)) 256%float.
Lemma cM_roundtrip_grid : forallb (fun k => feqb (PrimFloat.mul centi (PrimFloat.mul hundred (grid256 k))) (grid256 k)) (seq 0 1025) = true.
Proof. vm_compute. reflexivity. Qed.

(** ** witnesses for the codecs that lose information *)
Definition w_bv : bvmat := mkBV [[(-1)%float]; [1%float]] [10%float] [2%float] None None (Some [[121]]).
Lemma bv_pandas_loses_location_scale :
  exists m', bv_from_pandas false false (bv_to_pandas false w_bv) = Some m'
             /\ fl_eqb (bv_loc m') (bv_loc w_bv) = false /\ fl_eqb (bv_scale m') (bv_scale w_bv) = false /\ fll_eqb (bv_mat m') (bv_mat w_bv) = true.
Proof. eexists. split; [vm_compute; reflexivity|]. repeat split; vm_compute; reflexivity. Qed.

Definition w_vm : vmat := mkVM [[[0%float]; [1%float]]; [[2%float]; [3%float]]] (Some [[98]; [97]]) None (Some [[121]]).
Lemma vm_pandas_sorts_labels :
  exists m', vm_from_pandas false (vm_to_pandas false w_vm) = Some m'
             /\ vm_taxa m' = Some [[97]; [98]] /\ vm_mat m' = [[[3%float]; [2%float]]; [[1%float]; [0%float]]].
Proof. eexists. split; [vm_compute; reflexivity|]. split; reflexivity. Qed.
Definition w_vm_sorted : vmat := mkVM [[[0%float]; [1%float]]; [[2%float]; [3%float]]] (Some [[97]; [98]]) (Some [5; 7]) (Some [[121]]).
Lemma vm_pandas_sorted_ok : opt_eqb vm_eqb (vm_from_pandas true (vm_to_pandas true w_vm_sorted)) (Some w_vm_sorted) = true.
Proof. vm_compute. reflexivity. Qed.

Definition w_cm : cmat := mkCM [[1%float]] None None.
Lemma cm_pandas_invents_taxa : exists m', cm_from_pandas false (cm_to_pandas false w_cm) = Some m' /\ cm_taxa m' = Some [[48]].
Proof. eexists. split; [vm_compute; reflexivity|]. reflexivity. Qed.
