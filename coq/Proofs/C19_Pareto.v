(** C19 — lemmas about Model/C19_Pareto.v : the pivot filter. *)
From Coq Require Import Lqa Permutation.
From PV Require Import Lib.Common Model.C19_Pareto.
Local Open Scope Q_scope.

(** * boolean comparisons on Q *)
Lemma Qlt_bool_iff x y : Qlt_bool x y = true <-> x < y.
Proof.
  unfold Qlt_bool. rewrite negb_true_iff. split.
  - intro H. apply Qnot_le_lt. intro L. apply Qle_bool_iff in L. congruence.
  - intro H. destruct (Qle_bool y x) eqn:E; [|reflexivity]. apply Qle_bool_iff in E. lra.
Qed.
Lemma Qlt_bool_false x y : Qlt_bool x y = false <-> y <= x.
Proof.
  unfold Qlt_bool. rewrite negb_false_iff. apply Qle_bool_iff.
Qed.
Lemma Qle_bool_false x y : Qle_bool x y = false <-> y < x.
Proof.
  split.
  - intro H. apply Qnot_le_lt. intro L. apply Qle_bool_iff in L. congruence.
  - intro H. destruct (Qle_bool x y) eqn:E; [|reflexivity]. apply Qle_bool_iff in E. lra.
Qed.
Lemma Qlt_bool_compat x x' y y' : x == x' -> y == y' -> Qlt_bool x y = Qlt_bool x' y'.
Proof.
  intros Hx Hy. destruct (Qlt_bool x y) eqn:A, (Qlt_bool x' y') eqn:B; try reflexivity.
  - apply Qlt_bool_iff in A. apply Qlt_bool_false in B. lra.
  - apply Qlt_bool_iff in B. apply Qlt_bool_false in A. lra.
Qed.
Lemma Qle_bool_compat x x' y y' : x == x' -> y == y' -> Qle_bool x y = Qle_bool x' y'.
Proof.
  intros Hx Hy. destruct (Qle_bool x y) eqn:A, (Qle_bool x' y') eqn:B; try reflexivity.
  - apply Qle_bool_iff in A. apply Qle_bool_false in B. lra.
  - apply Qle_bool_iff in B. apply Qle_bool_false in A. lra.
Qed.

(** * gt_any : "some coordinate of q exceeds the same coordinate of p" *)
Lemma gt_any_cons x q y p : gt_any (x :: q) (y :: p) = Qlt_bool y x || gt_any q p.
Proof. reflexivity. Qed.
Lemma gt_any_nil_l p : gt_any [] p = false.
Proof. reflexivity. Qed.
Lemma gt_any_nil_r q : gt_any q [] = false.
Proof. destruct q; reflexivity. Qed.

Lemma gt_any_refl p : gt_any p p = false.
Proof.
  induction p as [|x p IH]; [reflexivity|]. rewrite gt_any_cons, IH, orb_false_r. apply Qlt_bool_false. lra.
Qed.

(** r <= q <= p  ->  r <= p *)
Lemma wd_trans : forall r q p, length r = length q -> length q = length p ->
  gt_any r q = false -> gt_any q p = false -> gt_any r p = false.
Proof.
  induction r as [|a r IH]; intros [|b q] [|c p] L1 L2 H1 H2; cbn in L1, L2; try discriminate; [reflexivity|].
  rewrite gt_any_cons in *. apply orb_false_iff in H1 as [A1 B1]. apply orb_false_iff in H2 as [A2 B2].
  apply orb_false_iff. split.
  - apply Qlt_bool_false in A1, A2. apply Qlt_bool_false. lra.
  - apply (IH q p); congruence || lia.
Qed.

(** q_c > p_c >= v_c *)
Lemma gt_le_gt : forall q p v, length q = length p -> length p = length v ->
  gt_any q p = true -> gt_any v p = false -> gt_any q v = true.
Proof.
  induction q as [|a q IH]; intros [|b p] [|c v] L1 L2 H1 H2; cbn in L1, L2; try discriminate.
  rewrite gt_any_cons in *. apply orb_false_iff in H2 as [A2 B2]. apply orb_true_iff in H1 as [A1|B1]; apply orb_true_iff.
  - left. apply Qlt_bool_iff in A1. apply Qlt_bool_false in A2. apply Qlt_bool_iff. lra.
  - right. apply (IH p v); congruence || lia.
Qed.

(** r_c >= q_c > p_c *)
Lemma le_gt_gt : forall q p r, length q = length p -> length q = length r ->
  gt_any q p = true -> gt_any q r = false -> gt_any r p = true.
Proof.
  induction q as [|a q IH]; intros [|b p] [|c r] L1 L2 H1 H2; cbn in L1, L2; try discriminate.
  rewrite gt_any_cons in *. apply orb_false_iff in H2 as [A2 B2]. apply orb_true_iff in H1 as [A1|B1]; apply orb_true_iff.
  - left. apply Qlt_bool_iff in A1. apply Qlt_bool_false in A2. apply Qlt_bool_iff. lra.
  - right. apply (IH p r); congruence || lia.
Qed.

Lemma gt_any_compat : forall q q' p p', Forall2 Qeq q q' -> Forall2 Qeq p p' -> gt_any q p = gt_any q' p'.
Proof.
  intros q q' p p' Hq. revert p p'. induction Hq as [|x x' q q' Hx Hq IH]; intros p p' Hp.
  - now rewrite !gt_any_nil_l.
  - destruct Hp as [|y y' p p' Hy Hp]; [reflexivity|]. rewrite !gt_any_cons. f_equal; [now apply Qlt_bool_compat | now apply IH].
Qed.

(** relational reading *)
Lemma gt_any_false_iff : forall q p, length q = length p -> (gt_any q p = false <-> Forall2 Qle q p).
Proof.
  induction q as [|x q IH]; intros [|y p] L; cbn in L; try discriminate.
  - split; [constructor | reflexivity].
  - rewrite gt_any_cons, orb_false_iff, Qlt_bool_false, IH by lia. split.
    + intros [A B]. now constructor.
    + intros H. inversion H; subst. now split.
Qed.
Lemma gt_any_true_iff : forall q p, length q = length p ->
  (gt_any q p = true <-> exists k, (k < length p)%nat /\ nth k p 0 < nth k q 0).
Proof.
  induction q as [|x q IH]; intros [|y p] L; cbn in L; try discriminate.
  - split; [discriminate | intros (k & Hk & _); cbn in Hk; lia].
  - rewrite gt_any_cons, orb_true_iff, Qlt_bool_iff, IH by lia. split.
    + intros [A | (k & Hk & B)]; [exists O; cbn; split; [lia|exact A] | exists (S k); cbn; split; [lia|exact B]].
    + intros ([|k] & Hk & B); cbn in Hk, B; [left; exact B | right; exists k; split; [lia|exact B]].
Qed.

(** * array primitives *)
Lemma compress_map {A} (g : A -> bool) l : compress (map g l) l = filter g l.
Proof. induction l as [|x l IH]; cbn; [reflexivity|]. now rewrite IH. Qed.
Lemma compress_app {A} (m1 m2 : list bool) (l1 l2 : list A) : length m1 = length l1 ->
  compress (m1 ++ m2) (l1 ++ l2) = compress m1 l1 ++ compress m2 l2.
Proof.
  revert l1. induction m1 as [|b m1 IH]; intros [|x l1] L; cbn in L; try discriminate; [reflexivity|].
  cbn. rewrite IH by lia. now destruct b.
Qed.
Lemma set_true_app (m1 : list bool) b m2 k : k = length m1 -> set_true k (m1 ++ b :: m2) = m1 ++ true :: m2.
Proof. intros ->. induction m1 as [|a m1 IH]; cbn; [reflexivity|]. now rewrite IH. Qed.
Lemma firstn_length_app {A} (l1 l2 : list A) k : k = length l1 -> firstn k (l1 ++ l2) = l1.
Proof. intros ->. induction l1 as [|a l1 IH]; cbn; [now destruct l2|]. now rewrite IH. Qed.
Lemma count_true_map {A} (g : A -> bool) l : count_true (map g l) = length (filter g l).
Proof. unfold count_true. induction l as [|x l IH]; cbn; [reflexivity|]. destruct (g x); cbn; now rewrite IH. Qed.
Lemma filter_length_le {A} (g : A -> bool) l : (length (filter g l) <= length l)%nat.
Proof. induction l as [|x l IH]; cbn; [lia|]. destruct (g x); cbn; lia. Qed.

(** * the loop as a done/todo recursion: st = done ++ todo, pt_ix = length done *)
Definition kp (p e : entry) : bool := gt_any (snd e) (snd p).

Fixpoint pf (fuel : nat) (done todo : list entry) : list entry :=
  match todo with
  | [] => done
  | p :: rest =>
      match fuel with
      | O => done ++ todo
      | S f => pf f (filter (kp p) done ++ [p]) (filter (kp p) rest)
      end
  end.

Lemma loop_pf : forall fuel done todo, (length todo <= fuel)%nat ->
  pareto_loop fuel (done ++ todo) (length done) = Some (pf fuel done todo).
Proof.
  induction fuel as [|f IH]; intros done todo L.
  - destruct todo as [|p rest]; [|cbn in L; lia]. rewrite app_nil_r. cbn [pareto_loop pf]. rewrite Nat.ltb_irrefl. reflexivity.
  - destruct todo as [|p rest].
    + rewrite app_nil_r. cbn [pareto_loop pf]. rewrite Nat.ltb_irrefl. reflexivity.
    + cbn [pareto_loop pf].
      assert (LT : (length done <? length (done ++ p :: rest))%nat = true) by (apply Nat.ltb_lt; rewrite app_length; cbn; lia).
      rewrite LT. rewrite nth_middle.
      rewrite map_app. cbn [map].
      rewrite (set_true_app _ _ _ (length done)) by (symmetry; apply map_length).
      rewrite (firstn_length_app _ _ (length done)) by (symmetry; apply map_length).
      rewrite compress_app by apply map_length. cbn [compress]. rewrite !compress_map, count_true_map.
      change (fun e : entry => gt_any (snd e) (snd p)) with (kp p).
      replace (length (filter (kp p) done) + 1)%nat with (length (filter (kp p) done ++ [p])) by (rewrite app_length; reflexivity).
      replace (filter (kp p) done ++ p :: filter (kp p) rest) with ((filter (kp p) done ++ [p]) ++ filter (kp p) rest)
        by (rewrite <- app_assoc; reflexivity).
      apply IH. pose proof (filter_length_le (kp p) rest). cbn in L. lia.
Qed.

(** * sublists *)
Inductive subl {A} : list A -> list A -> Prop :=
| subl_nil : subl [] []
| subl_skip x l s : subl l s -> subl l (x :: s)
| subl_keep x l s : subl l s -> subl (x :: l) (x :: s).

Lemma subl_refl {A} (l : list A) : subl l l.
Proof. induction l; [apply subl_nil | apply subl_keep; assumption]. Qed.
Lemma subl_filter {A} (g : A -> bool) l : subl (filter g l) l.
Proof. induction l as [|x l IH]; cbn; [constructor|]. destruct (g x); [apply subl_keep | apply subl_skip]; assumption. Qed.
Lemma subl_app {A} (a b c d : list A) : subl a b -> subl c d -> subl (a ++ c) (b ++ d).
Proof. induction 1; intros H'; cbn; [assumption | apply subl_skip; auto | apply subl_keep; auto]. Qed.
Lemma subl_trans {A} (a b c : list A) : subl a b -> subl b c -> subl a c.
Proof.
  intros H1 H2. revert a H1. induction H2 as [|x l s H IH|x l s H IH]; intros a H1.
  - exact H1.
  - constructor. now apply IH.
  - inversion H1; subst; [apply subl_skip; now apply IH | apply subl_keep; now apply IH].
Qed.
Lemma subl_In {A} (a b : list A) x : subl a b -> In x a -> In x b.
Proof. induction 1; cbn; intros H'; [contradiction | right; auto | destruct H'; [left; assumption | right; auto]]. Qed.
Lemma subl_map {A B} (f : A -> B) a b : subl a b -> subl (map f a) (map f b).
Proof. induction 1; cbn; [apply subl_nil | apply subl_skip | apply subl_keep]; assumption. Qed.
Lemma subl_Forall {A} (P : A -> Prop) a b : subl a b -> Forall P b -> Forall P a.
Proof. intros S F. rewrite Forall_forall in *. intros x Hx. apply F. eapply subl_In; eauto. Qed.

Lemma step_subl (p : entry) done rest :
  subl ((filter (kp p) done ++ [p]) ++ filter (kp p) rest) (done ++ p :: rest).
Proof.
  rewrite <- app_assoc. apply subl_app; [apply subl_filter|]. cbn. apply subl_keep. apply subl_filter.
Qed.

Lemma pf_subl : forall fuel done todo, subl (pf fuel done todo) (done ++ todo).
Proof.
  induction fuel as [|f IH]; intros done [|p rest]; cbn [pf]; try (rewrite app_nil_r; apply subl_refl); try apply subl_refl.
  eapply subl_trans; [apply IH | apply step_subl].
Qed.

(** * completeness: every entry is weakly dominated by a surviving one *)
Definition rect (n : nat) (st : list entry) : Prop := Forall (fun e : entry => length (snd e) = n) st.

Lemma pf_complete (n : nat) : forall fuel done todo, (length todo <= fuel)%nat -> rect n (done ++ todo) ->
  forall e, In e (done ++ todo) -> exists e', In e' (pf fuel done todo) /\ gt_any (snd e) (snd e') = false.
Proof.
  induction fuel as [|f IH]; intros done todo L R e He.
  - destruct todo as [|p rest]; [|cbn in L; lia]. cbn. rewrite app_nil_r in He. exists e. split; [assumption | apply gt_any_refl].
  - destruct todo as [|p rest].
    + cbn. rewrite app_nil_r in He. exists e. split; [assumption | apply gt_any_refl].
    + cbn [pf].
      assert (R' : rect n ((filter (kp p) done ++ [p]) ++ filter (kp p) rest)) by (eapply subl_Forall; [apply step_subl | exact R]).
      assert (L' : (length (filter (kp p) rest) <= f)%nat) by (pose proof (filter_length_le (kp p) rest); cbn in L; lia).
      assert (Hp : In p ((filter (kp p) done ++ [p]) ++ filter (kp p) rest)) by (apply in_or_app; left; apply in_or_app; right; now left).
      (* an entry e0 of the next state with e <= e0 *)
      assert (E0 : exists e0, In e0 ((filter (kp p) done ++ [p]) ++ filter (kp p) rest) /\ gt_any (snd e) (snd e0) = false).
      { destruct (kp p e) eqn:K.
        - exists e. split; [|apply gt_any_refl].
          apply in_app_or in He as [Hd | [-> | Hr]].
          + apply in_or_app; left; apply in_or_app; left. apply filter_In. now split.
          + exact Hp.
          + apply in_or_app; right. apply filter_In. now split.
        - exists p. split; [exact Hp | exact K]. }
      destruct E0 as (e0 & He0 & W0).
      destruct (IH _ _ L' R' e0 He0) as (e' & He' & W').
      exists e'. split; [exact He'|].
      unfold rect in R, R'. rewrite Forall_forall in R, R'.
      assert (In e' ((filter (kp p) done ++ [p]) ++ filter (kp p) rest)) by (eapply subl_In; [apply pf_subl | exact He']).
      apply (wd_trans _ (snd e0)); try assumption.
      * rewrite (R e He), (R' e0 He0). reflexivity.
      * rewrite (R' e0 He0), (R' e' H). reflexivity.
Qed.

(** * soundness invariant: an entry that has been the pivot is exceeded somewhere by every other surviving entry *)
Definition Jinv (done all : list entry) : Prop :=
  forall d e, In d done -> In e all -> fst e <> fst d -> gt_any (snd e) (snd d) = true.

Lemma pf_sound : forall fuel done todo, (length todo <= fuel)%nat -> Jinv done (done ++ todo) ->
  Jinv (pf fuel done todo) (pf fuel done todo).
Proof.
  induction fuel as [|f IH]; intros done todo L J.
  - destruct todo as [|p rest]; [|cbn in L; lia]. cbn. now rewrite app_nil_r in J.
  - destruct todo as [|p rest]; [cbn; now rewrite app_nil_r in J|].
    cbn [pf]. apply IH; [pose proof (filter_length_le (kp p) rest); cbn in L; lia|].
    intros d e Hd He Hne.
    assert (He' : In e (done ++ p :: rest)) by (eapply subl_In; [apply step_subl | exact He]).
    apply in_app_or in Hd as [Hd | [<- | []]].
    + apply filter_In in Hd as [Hd _]. apply (J d e Hd He' Hne).
    + rewrite <- app_assoc in He. apply in_app_or in He as [He | [<- | He]].
      * apply filter_In in He as [_ K]. exact K.
      * congruence.
      * apply filter_In in He as [_ K]. exact K.
Qed.

(** * the public functions *)
Lemma init_state_length pts : length (init_state pts) = length pts.
Proof. unfold init_state, entry. rewrite combine_length, seq_length. apply Nat.min_id. Qed.
Lemma weighted_length wt fmat : length (weighted wt fmat) = length fmat.
Proof. apply map_length. Qed.

Definition survivors (wt : list Q) (fmat : list (list Q)) : list entry :=
  pf (length fmat) [] (init_state (weighted wt fmat)).

Lemma pareto_idx_eq wt fmat : pareto_idx wt fmat = Some (map fst (survivors wt fmat)).
Proof.
  unfold pareto_idx, survivors.
  pose proof (loop_pf (length fmat) [] (init_state (weighted wt fmat))) as H. cbn [app length] in H.
  rewrite H by (rewrite init_state_length, weighted_length; lia). reflexivity.
Qed.

Lemma In_combine_seq {A} (d : A) : forall (l : list A) (s i : nat) (r : A),
  In (i, r) (combine (seq s (length l)) l) <-> (s <= i < s + length l)%nat /\ nth (i - s) l d = r.
Proof.
  induction l as [|x l IH]; intros s i r; cbn [length seq combine In].
  - split; [contradiction | lia].
  - rewrite IH. split.
    + intros [E | (H1 & H2)].
      * inversion E; subst. rewrite Nat.sub_diag. split; [lia | reflexivity].
      * split; [lia|]. replace (i - s)%nat with (S (i - S s)) by lia. exact H2.
    + intros (H1 & H2). destruct (Nat.eq_dec i s) as [->|N].
      * left. rewrite Nat.sub_diag in H2. cbn in H2. now subst.
      * right. split; [lia|]. replace (i - s)%nat with (S (i - S s)) in H2 by lia. exact H2.
Qed.

Lemma In_init_state pts i r : In (i, r) (init_state pts) <-> (i < length pts)%nat /\ nth i pts [] = r.
Proof. unfold init_state. rewrite (In_combine_seq []). rewrite Nat.sub_0_r. split; intros [A B]; (split; [lia | exact B]). Qed.

Lemma init_state_fst pts : map fst (init_state pts) = seq 0 (length pts).
Proof.
  unfold init_state. generalize 0%nat. induction pts as [|x l IH]; intro s; cbn; [reflexivity|]. now rewrite IH.
Qed.

Definition rectm (m : nat) (fmat : list (list Q)) : Prop := Forall (fun r : list Q => length r = m) fmat.

Lemma weighted_rect m wt fmat : rectm m fmat -> length wt = m -> rectm m (weighted wt fmat).
Proof.
  intros R L. unfold rectm, weighted in *. rewrite Forall_map. eapply Forall_impl; [|exact R]. cbv beta.
  intros r Hr. unfold wrow. rewrite map2_length, Hr, L. apply Nat.min_id.
Qed.

Lemma init_state_rect m pts : rectm m pts -> rect m (init_state pts).
Proof.
  intros R. unfold rect. rewrite Forall_forall. intros [i r] H. apply In_init_state in H as [H1 H2]. cbn. subst r.
  unfold rectm in R. rewrite Forall_forall in R. apply R, nth_In, H1.
Qed.

Lemma survivors_In wt fmat i r : In (i, r) (survivors wt fmat) -> (i < length fmat)%nat /\ nth i (weighted wt fmat) [] = r.
Proof.
  intros H. unfold survivors in H. apply (subl_In _ _ _ (pf_subl _ _ _)) in H. cbn [app] in H.
  apply In_init_state in H. now rewrite weighted_length in H.
Qed.

Lemma survivors_idx wt fmat i : In i (map fst (survivors wt fmat)) <-> In (i, nth i (weighted wt fmat) []) (survivors wt fmat).
Proof.
  rewrite in_map_iff. split.
  - intros ([j r] & E & H). cbn in E. subst j. destruct (survivors_In _ _ _ _ H) as [_ <-]. exact H.
  - intros H. exists (i, nth i (weighted wt fmat) []). now split.
Qed.

(** boolean dominance on weighted rows: p at least as good everywhere, strictly better somewhere *)
Definition wdomB (p q : list Q) : bool := negb (gt_any q p).
Definition domB (p q : list Q) : bool := negb (gt_any q p) && gt_any p q.

Section Filter.
  Variables (m : nat) (wt : list Q) (fmat : list (list Q)).
  Hypothesis (HR : rectm m fmat) (HW : length wt = m).
  Let W := weighted wt fmat.
  Let n := length fmat.

  Lemma W_len i : (i < n)%nat -> length (nth i W []) = m.
  Proof.
    intros H. pose proof (weighted_rect m wt fmat HR HW) as R. unfold rectm in R. rewrite Forall_forall in R.
    apply R, nth_In. unfold W. now rewrite weighted_length.
  Qed.

  (** completeness *)
  Lemma filter_complete_idx i : (i < n)%nat ->
    exists j, In j (map fst (survivors wt fmat)) /\ gt_any (nth i W []) (nth j W []) = false.
  Proof.
    intros Hi.
    assert (Hin : In (i, nth i W []) ([] ++ init_state W)) by (cbn; apply In_init_state; split; [unfold W; now rewrite weighted_length | reflexivity]).
    destruct (pf_complete m (length fmat) [] (init_state W)) with (e := (i, nth i W [])) as ([j r] & Hj & Hw); try assumption.
    - unfold W. rewrite init_state_length, weighted_length. lia.
    - cbn. apply init_state_rect, weighted_rect; assumption.
    - fold (survivors wt fmat) in Hj. exists j. destruct (survivors_In _ _ _ _ Hj) as [_ E]. fold W in E. subst r. split.
      + apply survivors_idx. exact Hj.
      + exact Hw.
  Qed.

  (** no survivor is weakly dominated by another survivor *)
  Lemma survivors_antichain i j : In i (map fst (survivors wt fmat)) -> In j (map fst (survivors wt fmat)) -> i <> j ->
    gt_any (nth i W []) (nth j W []) = true.
  Proof.
    intros Hi Hj Hne. apply survivors_idx in Hi, Hj.
    assert (J : Jinv (survivors wt fmat) (survivors wt fmat)).
    { unfold survivors. apply pf_sound; [rewrite init_state_length, weighted_length; lia|]. intros d e []. }
    apply (J _ _ Hj Hi). exact Hne.
  Qed.

  (** soundness *)
  Lemma filter_sound_idx i j : In i (map fst (survivors wt fmat)) -> (j < n)%nat -> domB (nth j W []) (nth i W []) = false.
  Proof.
    intros Hi Hj. unfold domB. destruct (gt_any (nth i W []) (nth j W [])) eqn:A; [reflexivity|]. cbn [negb andb].
    destruct (gt_any (nth j W []) (nth i W [])) eqn:B; [exfalso|reflexivity].
    assert (Hi' : (i < n)%nat) by (apply survivors_idx in Hi; now apply survivors_In in Hi).
    destruct (filter_complete_idx j Hj) as (k & Hk & Wk).
    assert (Hk' : (k < n)%nat) by (apply survivors_idx in Hk; now apply survivors_In in Hk).
    (* i <= j <= k *)
    assert (Wik : gt_any (nth i W []) (nth k W []) = false).
    { apply (wd_trans _ (nth j W [])); try assumption; rewrite !W_len; auto. }
    destruct (Nat.eq_dec i k) as [->|Nik].
    - (* j <= k = i and j exceeds i somewhere *) congruence.
    - rewrite (survivors_antichain i k Hi Hk Nik) in Wik. discriminate.
  Qed.

  (** a non-dominated point has its vector among the survivors *)
  Lemma nondominated_survives k : (k < n)%nat -> (forall j, (j < n)%nat -> domB (nth j W []) (nth k W []) = false) ->
    exists i, In i (map fst (survivors wt fmat)) /\ gt_any (nth i W []) (nth k W []) = false /\ gt_any (nth k W []) (nth i W []) = false.
  Proof.
    intros Hk ND. destruct (filter_complete_idx k Hk) as (i & Hi & Wi). exists i. split; [exact Hi|]. split; [|exact Wi].
    assert (Hi' : (i < n)%nat) by (apply survivors_idx in Hi; now apply survivors_In in Hi).
    specialize (ND i Hi'). unfold domB in ND. rewrite Wi in ND. cbn in ND. exact ND.
  Qed.
End Filter.

(** mutual weak dominance of equal-length vectors is coordinatewise equality *)
Lemma mutual_wd_eq : forall p q, length p = length q -> gt_any p q = false -> gt_any q p = false -> Forall2 Qeq p q.
Proof.
  induction p as [|x p IH]; intros [|y q] L H1 H2; cbn in L; try discriminate; [constructor|].
  rewrite gt_any_cons in *. apply orb_false_iff in H1 as [A1 B1]. apply orb_false_iff in H2 as [A2 B2].
  apply Qlt_bool_false in A1, A2. constructor; [lra | apply IH; [lia | assumption | assumption]].
Qed.
Lemma eq_mutual_wd : forall p q, Forall2 Qeq p q -> gt_any p q = false /\ gt_any q p = false.
Proof.
  induction 1 as [|x y p q Hx Hp [IH1 IH2]]; [split; reflexivity|]. rewrite !gt_any_cons, IH1, IH2, !orb_false_r.
  split; apply Qlt_bool_false; lra.
Qed.

(** * mask and index forms *)
Lemma existsb_eqb_In i l : existsb (Nat.eqb i) l = true <-> In i l.
Proof.
  rewrite existsb_exists. split; [intros (x & H & E); apply Nat.eqb_eq in E; now subst | intros H; exists i; split; [exact H | apply Nat.eqb_refl]].
Qed.

Lemma filter_mem_subl : forall (l s : list nat), subl l s -> NoDup s -> filter (fun i => existsb (Nat.eqb i) l) s = l.
Proof.
  induction 1 as [|x l s H IH|x l s H IH]; intros ND; [reflexivity| |]; inversion ND as [|? ? Hx ND']; subst; cbn [filter].
  - destruct (existsb (Nat.eqb x) l) eqn:E.
    + apply existsb_eqb_In in E. exfalso. apply Hx. eapply subl_In; eauto.
    + now apply IH.
  - cbn [existsb]. rewrite Nat.eqb_refl. cbn [orb]. f_equal.
    transitivity (filter (fun i => existsb (Nat.eqb i) l) s); [|now apply IH]. apply filter_ext_in. intros i Hi. cbn [existsb].
    destruct (Nat.eqb_spec i x) as [->|N]; [contradiction | reflexivity].
Qed.

Lemma nth_mask_of npt idx i : (i < npt)%nat -> nth i (mask_of npt idx) false = existsb (Nat.eqb i) idx.
Proof.
  intros H. unfold mask_of.
  rewrite (nth_indep _ false ((fun i0 => existsb (Nat.eqb i0) idx) O)) by (now rewrite map_length, seq_length).
  rewrite (map_nth (fun i0 => existsb (Nat.eqb i0) idx)), seq_nth by exact H. reflexivity.
Qed.

Lemma idx_subl wt fmat : subl (map fst (survivors wt fmat)) (seq 0 (length fmat)).
Proof.
  unfold survivors. rewrite <- (weighted_length wt fmat) at 2. rewrite <- init_state_fst. apply subl_map.
  apply (pf_subl (length fmat) [] (init_state (weighted wt fmat))).
Qed.

Lemma mask_index_agree_lemma wt fmat : exists idx mask,
  pareto_idx wt fmat = Some idx /\ pareto_mask wt fmat = Some mask /\ length mask = length fmat /\
  idx = filter (fun i => nth i mask false) (seq 0 (length fmat)) /\
  (forall i, (i < length fmat)%nat -> (nth i mask false = true <-> In i idx)) /\
  (forall i, In i idx -> (i < length fmat)%nat) /\ NoDup idx.
Proof.
  exists (map fst (survivors wt fmat)), (mask_of (length fmat) (map fst (survivors wt fmat))).
  pose proof (idx_subl wt fmat) as S.
  split; [apply pareto_idx_eq|]. split; [unfold pareto_mask; now rewrite pareto_idx_eq|].
  split; [unfold mask_of; now rewrite map_length, seq_length|]. split; [|split; [|split]].
  - rewrite (filter_ext_in _ (fun i => existsb (Nat.eqb i) (map fst (survivors wt fmat)))).
    + symmetry. apply filter_mem_subl; [exact S | apply seq_NoDup].
    + intros i Hi. apply in_seq in Hi. apply nth_mask_of. lia.
  - intros i Hi. rewrite nth_mask_of by exact Hi. apply existsb_eqb_In.
  - intros i Hi. apply (subl_In _ _ _ S) in Hi. apply in_seq in Hi. lia.
  - clear -S. pose proof (seq_NoDup (length fmat) 0) as ND. revert ND. induction S; intros ND; [constructor| |]; inversion ND; subst; auto.
    constructor; auto. intro Hin. eapply subl_In in Hin; eauto.
Qed.
