(** C06 — lemmas about Model/C06_Opt.v *)
From Coq Require Import Permutation Sorted Qround.
From PV Require Import Lib.Common Model.C06_Opt.
Local Open Scope Z_scope.

(** ** the specification-level predicates and their boolean reflections *)
Definition feasible (cand : list Z) (k : nat) (x : list Z) : Prop :=
  NoDup x /\ incl x cand /\ length x = k.

Lemma memZ_In x l : memZ x l = true <-> In x l.
Proof.
  unfold memZ. rewrite existsb_exists. split.
  - intros (y & Hy & E). apply Z.eqb_eq in E. now subst.
  - intros H. exists x. split; [exact H | apply Z.eqb_refl].
Qed.
Lemma memZ_false x l : memZ x l = false <-> ~ In x l.
Proof. rewrite <- memZ_In. destruct (memZ x l); split; congruence. Qed.

Lemma nodupb_NoDup l : nodupb l = true <-> NoDup l.
Proof.
  induction l as [|x t IH]; cbn [nodupb].
  - split; [constructor | reflexivity].
  - rewrite andb_true_iff, negb_true_iff, memZ_false, IH. split.
    + intros [A B]. now constructor.
    + intros H. inversion H. now split.
Qed.
Lemma inclb_incl a b : inclb a b = true <-> incl a b.
Proof.
  unfold inclb. rewrite forallb_forall. unfold incl. split; intros H x Hx; [apply memZ_In | apply memZ_In]; auto.
Qed.
Lemma feasible_b_spec cand k x : feasible_b cand k x = true <-> feasible cand k x.
Proof.
  unfold feasible_b, feasible. rewrite !andb_true_iff, nodupb_NoDup, inclb_incl, Nat.eqb_eq. tauto.
Qed.

(** ** set_nth *)
Lemma set_nth_length {A} i (l : list A) v : length (set_nth i l v) = length l.
Proof. revert i; induction l as [|h t IH]; intros [|i]; cbn; auto. Qed.
Lemma set_nth_app {A} (l1 : list A) a l2 v : set_nth (length l1) (l1 ++ a :: l2) v = l1 ++ v :: l2.
Proof. induction l1 as [|h t IH]; cbn; [reflexivity | now rewrite IH]. Qed.
Lemma nth_app_mid {A} (l1 : list A) a l2 d : nth (length l1) (l1 ++ a :: l2) d = a.
Proof. rewrite app_nth2 by lia. now rewrite Nat.sub_diag. Qed.

(** exchanging s[i] and w[j] permutes the concatenation *)
Lemma swap_perm_aux (s1 s2 w1 w2 : list Z) a b :
  Permutation ((s1 ++ b :: s2) ++ (w1 ++ a :: w2)) ((s1 ++ a :: s2) ++ (w1 ++ b :: w2)).
Proof.
  rewrite <- !app_assoc. cbn [app]. apply Permutation_app_head.
  transitivity (b :: a :: s2 ++ w1 ++ w2).
  - constructor. apply Permutation_sym. rewrite (app_assoc s2 w1 (a :: w2)), (app_assoc s2 w1 w2).
    apply Permutation_middle.
  - transitivity (a :: b :: s2 ++ w1 ++ w2); [constructor|]. constructor.
    rewrite (app_assoc s2 w1 (b :: w2)), (app_assoc s2 w1 w2). apply Permutation_middle.
Qed.
Lemma swap_perm (s w : list Z) i j : (i < length s)%nat -> (j < length w)%nat ->
  Permutation (set_nth i s (nth j w 0) ++ set_nth j w (nth i s 0)) (s ++ w).
Proof.
  intros Hi Hj.
  destruct (nth_split s 0 Hi) as (s1 & s2 & Es & Ls).
  destruct (nth_split w 0 Hj) as (w1 & w2 & Ew & Lw).
  remember (nth i s 0) as a eqn:Ea. remember (nth j w 0) as b eqn:Eb.
  rewrite Es, Ew. rewrite <- Ls, <- Lw, !set_nth_app. apply swap_perm_aux.
Qed.
