(** C06 — lemmas about Model/C06_Opt.v *)
From Coq Require Import Permutation Sorted Qround.
From PV Require Import Lib.Common Model.C06_Opt.
Local Open Scope Z_scope.

(** ** the specification-level predicates and their boolean reflections *)
Definition feasible (cand : list Z) (k : nat) (x : list Z) : Prop :=
  NoDup x /\ incl x cand /\ length x = k.

Lemma memZ_In x l : memZ x l = true <-> In x l.
Proof.
  unfold memZ. rewrite existsb_exists. split.
  - intros (y & Hy & E). apply Z.eqb_eq in E. now subst.
  - intros H. exists x. split; [exact H | apply Z.eqb_refl].
Qed.
Lemma memZ_false x l : memZ x l = false <-> ~ In x l.
Proof. rewrite <- memZ_In. destruct (memZ x l); split; congruence. Qed.

Lemma nodupb_NoDup l : nodupb l = true <-> NoDup l.
Proof.
  induction l as [|x t IH]; cbn [nodupb].
  - split; [constructor | reflexivity].
  - rewrite andb_true_iff, negb_true_iff, memZ_false, IH. split.
    + intros [A B]. now constructor.
    + intros H. inversion H. now split.
Qed.
Lemma inclb_incl a b : inclb a b = true <-> incl a b.
Proof.
  unfold inclb. rewrite forallb_forall. unfold incl. split; intros H x Hx; [apply memZ_In | apply memZ_In]; auto.
Qed.
Lemma feasible_b_spec cand k x : feasible_b cand k x = true <-> feasible cand k x.
Proof.
  unfold feasible_b, feasible. rewrite !andb_true_iff, nodupb_NoDup, inclb_incl, Nat.eqb_eq. tauto.
Qed.

(** ** set_nth *)
Lemma set_nth_length {A} i (l : list A) v : length (set_nth i l v) = length l.
Proof. revert i; induction l as [|h t IH]; intros [|i]; cbn; auto. Qed.
Lemma set_nth_app {A} (l1 : list A) a l2 v : set_nth (length l1) (l1 ++ a :: l2) v = l1 ++ v :: l2.
Proof. induction l1 as [|h t IH]; cbn; [reflexivity | now rewrite IH]. Qed.
Lemma nth_app_mid {A} (l1 : list A) a l2 d : nth (length l1) (l1 ++ a :: l2) d = a.
Proof. rewrite app_nth2 by lia. now rewrite Nat.sub_diag. Qed.

(** exchanging s[i] and w[j] permutes the concatenation *)
Lemma swap_perm_aux (s1 s2 w1 w2 : list Z) a b :
  Permutation ((s1 ++ b :: s2) ++ (w1 ++ a :: w2)) ((s1 ++ a :: s2) ++ (w1 ++ b :: w2)).
Proof.
  rewrite <- !app_assoc. cbn [app]. apply Permutation_app_head.
  transitivity (b :: a :: s2 ++ w1 ++ w2).
  - constructor. apply Permutation_sym. rewrite (app_assoc s2 w1 (a :: w2)), (app_assoc s2 w1 w2).
    apply Permutation_middle.
  - transitivity (a :: b :: s2 ++ w1 ++ w2); [constructor|]. constructor.
    rewrite (app_assoc s2 w1 (b :: w2)), (app_assoc s2 w1 w2). apply Permutation_middle.
Qed.
Lemma swap_perm (s w : list Z) i j : (i < length s)%nat -> (j < length w)%nat ->
  Permutation (set_nth i s (nth j w 0) ++ set_nth j w (nth i s 0)) (s ++ w).
Proof.
  intros Hi Hj.
  destruct (nth_split s 0 Hi) as (s1 & s2 & Es & Ls).
  destruct (nth_split w 0 Hj) as (w1 & w2 & Ew & Lw).
  remember (nth i s 0) as a eqn:Ea. remember (nth j w 0) as b eqn:Eb.
  rewrite Es, Ew. rewrite <- Ls, <- Lw, !set_nth_app. apply swap_perm_aux.
Qed.

Lemma NoDup_app_l {A} (a b : list A) : NoDup (a ++ b) -> NoDup a.
Proof.
  induction a as [|x t IH]; cbn [app]; intros H; [constructor|].
  inversion H as [|? ? Hx Ht]; subst. constructor; [|now apply IH].
  intros Hin. apply Hx, in_or_app. now left.
Qed.
Lemma NoDup_app_r {A} (a b : list A) : NoDup (a ++ b) -> NoDup b.
Proof. induction a as [|x t IH]; cbn [app]; intros H; [exact H|]. inversion H; subst. now apply IH. Qed.
Lemma NoDup_app_disj {A} (a b : list A) x : NoDup (a ++ b) -> In x a -> ~ In x b.
Proof.
  induction a as [|y t IH]; cbn [app]; intros H Hx Hb; [contradiction|].
  inversion H as [|? ? Hy Ht]; subst. destruct Hx as [->|Hx]; [apply Hy, in_or_app; now right | now apply (IH Ht Hx)].
Qed.

(** ** insertion sort: permutation, sortedness *)
Definition key_le (a b : Z * Z) : Prop := fst a <= fst b.
Lemma insert_by_perm kx l : Permutation (insert_by kx l) (kx :: l).
Proof.
  induction l as [|ky t IH]; cbn [insert_by]; [reflexivity|].
  destruct (fst kx <=? fst ky); [reflexivity|].
  transitivity (ky :: kx :: t); [now constructor | constructor].
Qed.
Lemma isort_perm l : Permutation (isort l) l.
Proof.
  induction l as [|x t IH]; cbn [isort fold_right]; [constructor|].
  fold (isort t). rewrite insert_by_perm. now constructor.
Qed.
Lemma insert_by_sorted kx l : StronglySorted key_le l -> StronglySorted key_le (insert_by kx l).
Proof.
  induction 1 as [|ky t Hs IH Hf]; cbn [insert_by]; [repeat constructor|].
  destruct (Z.leb_spec (fst kx) (fst ky)) as [L|G].
  - constructor; [now constructor|]. constructor; [exact L|].
    rewrite Forall_forall in *. intros z Hz. unfold key_le in *. specialize (Hf z Hz). lia.
  - constructor; [exact IH|].
    rewrite Forall_forall in *. intros z Hz.
    apply (Permutation_in _ (insert_by_perm kx t)) in Hz. destruct Hz as [<-|Hz]; [unfold key_le; lia | now apply Hf].
Qed.
Lemma isort_sorted l : StronglySorted key_le (isort l).
Proof.
  induction l as [|x t IH]; cbn [isort fold_right]; [constructor|]. now apply insert_by_sorted.
Qed.

Lemma sumZ_app a b : sumZ (a ++ b) = sumZ a + sumZ b.
Proof. induction a as [|x t IH]; cbn [app sumZ fold_right]; [reflexivity|]. fold (sumZ (t ++ b)) (sumZ t). lia. Qed.
Lemma sumZ_cons x t : sumZ (x :: t) = x + sumZ t.
Proof. reflexivity. Qed.

(** the first k elements of a list sorted by w have the smallest w-sum among all duplicate-free
    k-element selections from the list *)
Lemma firstn_min_sum (w : Z -> Z) (L : list Z) : StronglySorted (fun a b => w a <= w b) L ->
  forall k y, NoDup y -> incl y L -> length y = k -> sumZ (map w (firstn k L)) <= sumZ (map w y).
Proof.
  induction 1 as [|a L' Hs IH Hf]; intros k y Hn Hi Hl.
  - destruct y as [|b y]; [subst k; cbn; lia | exfalso; apply (Hi b); now left].
  - destruct k as [|k']; [destruct y; [cbn; lia | discriminate]|].
    cbn [firstn map]. rewrite sumZ_cons.
    destruct (in_dec Z.eq_dec a y) as [Hin|Hnin].
    + destruct (in_split _ _ Hin) as (y1 & y2 & ->).
      apply NoDup_remove in Hn as [Hn' Hna].
      rewrite map_app. cbn [map]. rewrite sumZ_app, sumZ_cons.
      assert (IHy : sumZ (map w (firstn k' L')) <= sumZ (map w (y1 ++ y2))).
      { apply IH; [exact Hn' | | rewrite app_length in *; cbn [length] in Hl; lia].
        intros z Hz. assert (Hz' : In z (y1 ++ a :: y2)) by (apply in_app_or in Hz; apply in_or_app; cbn; tauto).
        destruct (Hi z Hz') as [<-|H]; [contradiction | exact H]. }
      rewrite map_app, sumZ_app in IHy. lia.
    + destruct y as [|b y']; [discriminate|].
      inversion Hn as [|? ? Hb Hn']; subst.
      cbn [map]. rewrite sumZ_cons.
      assert (Hbl : In b L').
      { destruct (Hi b (or_introl eq_refl)) as [<-|H]; [exfalso; apply Hnin; now left | exact H]. }
      assert (IHy : sumZ (map w (firstn k' L')) <= sumZ (map w y')).
      { apply IH; [exact Hn' | | cbn [length] in Hl; lia].
        intros z Hz. destruct (Hi z (or_intror Hz)) as [<-|H]; [exfalso; apply Hnin; now right | exact H]. }
      rewrite Forall_forall in Hf. specialize (Hf b Hbl). cbn beta in Hf. lia.
Qed.

Section SortProofs.
  Variable ev : list Z -> evalT.

  Lemma map_snd_keyed cand : map snd (keyed ev cand) = cand.
  Proof. unfold keyed. rewrite map_map. cbn. apply map_id. Qed.

  Lemma sorted_elems_perm cand : Permutation (map snd (isort (keyed ev cand))) cand.
  Proof. rewrite <- (map_snd_keyed cand) at 2. apply Permutation_map, isort_perm. Qed.

  Lemma sorted_elems_sorted cand :
    StronglySorted (fun a b => single_key ev a <= single_key ev b) (map snd (isort (keyed ev cand))).
  Proof.
    assert (Hk : Forall (fun p => fst p = single_key ev (snd p)) (isort (keyed ev cand))).
    { rewrite Forall_forall. intros p Hp. apply (Permutation_in _ (isort_perm _)) in Hp.
      unfold keyed in Hp. apply in_map_iff in Hp as (e & <- & _). reflexivity. }
    pose proof (isort_sorted (keyed ev cand)) as Hs.
    induction Hs as [|p t Hs IH Hf]; cbn [map]; [constructor|].
    inversion Hk as [|? ? Hp Hk']; subst. constructor; [now apply IH|].
    rewrite Forall_forall in *. intros z Hz. apply in_map_iff in Hz as (q & <- & Hq).
    specialize (Hf q Hq). unfold key_le in Hf. rewrite <- Hp, <- (Hk' q Hq). exact Hf.
  Qed.

  (** the sorting optimiser returns k distinct members of the candidate set *)
  Lemma sort_select_feasible cand k : NoDup cand -> (k <= length cand)%nat -> feasible cand k (sort_select ev cand k).
  Proof.
    intros Hn Hk. unfold sort_select. set (L := map snd (isort (keyed ev cand))).
    pose proof (sorted_elems_perm cand) as HP. fold L in HP.
    assert (HnL : NoDup L) by (apply (Permutation_NoDup (Permutation_sym HP)), Hn).
    repeat split.
    - rewrite <- (firstn_skipn k L) in HnL. now apply NoDup_app_l in HnL.
    - intros z Hz. apply (Permutation_in _ HP). rewrite <- (firstn_skipn k L). apply in_or_app. now left.
    - rewrite firstn_length, (Permutation_length HP). lia.
  Qed.

  (** ... reports the evaluation of exactly that decision *)
  Lemma sort_minimize_truthful cand k : snd (sort_minimize ev cand k) = ev (fst (sort_minimize ev cand k)).
  Proof. reflexivity. Qed.

  (** ... and, when the objective is a sum of per-member terms, no k-subset has a smaller objective *)
  Lemma sorting_optimal (w : Z -> Z) cand k :
    (forall x, e_obj (ev x) = [sumZ (map w x)]) ->
    forall y, feasible cand k y -> score (snd (sort_minimize ev cand k)) <= score (ev y).
  Proof.
    intros Hsep y (Hn & Hi & Hl). unfold sort_minimize, score. cbn [snd]. rewrite !Hsep. cbn [sumZ fold_right].
    assert (Hkey : forall e, single_key ev e = w e).
    { intros e. unfold single_key. rewrite Hsep. cbn. lia. }
    unfold sort_select.
    pose proof (sorted_elems_sorted cand) as Hs.
    assert (Hs' : StronglySorted (fun a b => w a <= w b) (map snd (isort (keyed ev cand)))).
    { clear -Hs Hkey. induction Hs as [|a t Hs IH Hf]; constructor; [exact IH|].
      rewrite Forall_forall in *. intros z Hz. rewrite <- !Hkey. now apply Hf. }
    pose proof (firstn_min_sum w _ Hs' k y Hn) as H.
    assert (Hi' : incl y (map snd (isort (keyed ev cand)))).
    { intros z Hz. apply (Permutation_in _ (Permutation_sym (sorted_elems_perm cand))). now apply Hi. }
    specialize (H Hi' Hl). lia.
  Qed.
End SortProofs.

(** ** the steepest-descent loop *)
Definition keyT (r : evalT) : Z * Z := (cv r, score r).
(** lexicographic order on (constraint violation, score) *)
Definition lexlt (a b : Z * Z) : Prop := fst a < fst b \/ (fst a = fst b /\ snd a < snd b).
Definition lexle (a b : Z * Z) : Prop := fst a < fst b \/ (fst a = fst b /\ snd a <= snd b).
Lemma lexle_not_lexlt a b : lexle a b <-> ~ lexlt b a.
Proof. unfold lexle, lexlt. lia. Qed.

Lemma NoDup_app_intro {A} (a b : list A) : NoDup a -> NoDup b -> (forall x, In x a -> ~ In x b) -> NoDup (a ++ b).
Proof.
  induction 1 as [|x t Hx Ht IH]; cbn [app]; intros Hb Hd; [exact Hb|].
  constructor.
  - intros Hin. apply in_app_or in Hin as [H|H]; [contradiction | apply (Hd x); [now left | exact H]].
  - apply IH; [exact Hb|]. intros y Hy. apply Hd. now right.
Qed.

(** *** from a feasible start *)
Lemma complement_In cand s x : In x (complement cand s) <-> In x cand /\ ~ In x s.
Proof. unfold complement. rewrite filter_In, negb_true_iff, memZ_false. tauto. Qed.

Lemma start_state cand k s : NoDup cand -> feasible cand k s ->
  NoDup (s ++ complement cand s) /\ forall x, In x (s ++ complement cand s) <-> In x cand.
Proof.
  intros Hc (Hn & Hi & _). split.
  - apply NoDup_app_intro; [exact Hn | apply NoDup_filter, Hc |]. intros x Hx Hx'. apply complement_In in Hx'. tauto.
  - intros x. rewrite in_app_iff, complement_In. split; [intros [H|[H _]]; auto|].
    intros H. destruct (in_dec Z.eq_dec x s); tauto.
Qed.


Section ClimbProofs.
  Variable ev : list Z -> evalT.

  Lemma pairs_In s w i j : In (i, j) (pairs s w) <-> (i < length s)%nat /\ (j < length w)%nat.
  Proof. unfold pairs. rewrite in_prod_iff, !in_seq. lia. Qed.

  (** invariant of the proposal scan: the running best is a lexicographic minimum of the start value and
      all proposals seen; it either is the start state or a strictly better proposal that was seen *)
  Lemma scan_fold s w l : forall b0,
    let b := fold_left (step ev s w) l b0 in
    lexle (keyT (snd b)) (keyT (snd b0)) /\
    (forall ij, In ij l -> lexle (keyT (snd b)) (keyT (ev (prop s w ij)))) /\
    (b = b0 \/ exists ij, In ij l /\ b = (Some ij, ev (prop s w ij)) /\ lexlt (keyT (snd b)) (keyT (snd b0))).
  Proof.
    induction l as [|ij l IH]; intros b0; cbn [fold_left].
    - cbn zeta. split; [unfold lexle; lia|]. split; [intros ? []|]. now left.
    - specialize (IH (step ev s w b0 ij)). cbn zeta in *.
      set (b1 := step ev s w b0 ij) in *. set (b := fold_left (step ev s w) l b1) in *.
      destruct IH as (I1 & I2 & I3).
      assert (S1 : (b1 = b0 /\ lexle (keyT (snd b0)) (keyT (ev (prop s w ij)))) \/
                   (b1 = (Some ij, ev (prop s w ij)) /\ lexlt (keyT (ev (prop s w ij))) (keyT (snd b0)))).
      { unfold b1, step. cbn zeta.
        destruct (Z.ltb_spec (cv (ev (prop s w ij))) (cv (snd b0))) as [L|G].
        - right. split; [reflexivity|]. unfold lexlt, keyT; cbn [fst snd]. lia.
        - destruct (Z.eqb_spec (cv (ev (prop s w ij))) (cv (snd b0))) as [E|NE]; cbn [andb].
          + destruct (Z.ltb_spec (score (ev (prop s w ij))) (score (snd b0))) as [L2|G2].
            * right. split; [reflexivity|]. unfold lexlt, keyT; cbn [fst snd]. lia.
            * left. split; [reflexivity|]. unfold lexle, keyT; cbn [fst snd]. lia.
          + left. split; [reflexivity|]. unfold lexle, keyT; cbn [fst snd]. lia. }
      unfold lexle, lexlt, keyT in *; cbn [fst snd] in *.
      destruct S1 as [[E1 L1]|[E1 L1]].
      + rewrite E1 in *. split; [lia|]. split.
        * intros ij' [<-|H]; [lia | now apply I2].
        * destruct I3 as [I3|(ij' & Hin & Eb & Lb)]; [now left|]. right. exists ij'. split; [now right|]. split; [exact Eb | lia].
      + rewrite E1 in I1, I3. cbn [snd] in I1, I3. split; [lia|]. split.
        * intros ij' [<-|H]; [lia | now apply I2].
        * right. destruct I3 as [I3|(ij' & Hin & Eb & Lb)].
          -- exists ij. split; [now left|]. rewrite I3. cbn [snd]. split; [reflexivity | lia].
          -- exists ij'. split; [now right|]. split; [exact Eb | lia].
  Qed.

  Lemma scan_none s w g r : scan ev s w g = (None, r) ->
    r = g /\ forall ij, In ij (pairs s w) -> lexle (keyT g) (keyT (ev (prop s w ij))).
  Proof.
    unfold scan. intros E. destruct (scan_fold s w (pairs s w) (None, g)) as (_ & I2 & I3). cbn zeta in *.
    rewrite E in *. cbn [snd] in *. destruct I3 as [I3|(ij & _ & Eb & _)]; [|discriminate].
    inversion I3; subst. split; [reflexivity | exact I2].
  Qed.

  Lemma scan_some s w g ij r : scan ev s w g = (Some ij, r) ->
    In ij (pairs s w) /\ r = ev (prop s w ij) /\ lexlt (keyT r) (keyT g) /\
    forall ij', In ij' (pairs s w) -> lexle (keyT r) (keyT (ev (prop s w ij'))).
  Proof.
    unfold scan. intros E. destruct (scan_fold s w (pairs s w) (None, g)) as (_ & I2 & I3). cbn zeta in *.
    rewrite E in *. cbn [snd] in *. destruct I3 as [I3|(ij' & Hin & Eb & Lb)]; [discriminate|].
    inversion Eb; subst. repeat split; assumption.
  Qed.

  (** everything the loop guarantees about its result *)
  Lemma climb_spec fuel : forall s w g s' w' g', climb ev fuel s w g = Some (s', w', g') -> g = ev s ->
    g' = ev s' /\ Permutation (s' ++ w') (s ++ w) /\ length s' = length s /\ length w' = length w /\
    lexle (keyT g') (keyT g) /\
    forall i j, (i < length s')%nat -> (j < length w')%nat ->
      lexle (keyT (ev s')) (keyT (ev (set_nth i s' (nth j w' 0)))).
  Proof.
    induction fuel as [|f IH]; intros s w g s' w' g' E Hg; cbn [climb] in E; [discriminate|].
    destruct (scan ev s w g) as [[ij|] r] eqn:Es.
    - destruct (scan_some _ _ _ _ _ Es) as (Hin & Er & Hlt & _).
      destruct ij as [i j]. apply pairs_In in Hin as [Hi Hj]. cbn [fst snd] in E.
      specialize (IH _ _ _ _ _ _ E Er). destruct IH as (A & B & C & D & L & F).
      unfold prop in B, C. cbn [fst snd] in B, C. rewrite set_nth_length in C, D.
      repeat split; try assumption.
      + rewrite B. now apply swap_perm.
      + unfold lexle, lexlt in *. lia.
    - inversion E; subst. destruct (scan_none _ _ _ _ Es) as (-> & Hmin).
      repeat split; try reflexivity; [unfold lexle; lia|].
      intros i j Hi Hj. apply (Hmin (i, j)). now apply pairs_In.
  Qed.

  (** more fuel never changes a result *)
  Lemma climb_mono fuel : forall s w g res, climb ev fuel s w g = Some res -> forall fuel', (fuel <= fuel')%nat -> climb ev fuel' s w g = Some res.
  Proof.
    induction fuel as [|f IH]; intros s w g res E fuel' Hle; cbn [climb] in E; [discriminate|].
    destruct fuel' as [|f']; [lia|]. cbn [climb].
    destruct (scan ev s w g) as [[ij|] r]; [|exact E]. apply (IH _ _ _ _ E). lia.
  Qed.

  (** all length-k lists over a universe *)
  Fixpoint lists_of (k : nat) (u : list Z) : list (list Z) :=
    match k with
    | O => [[]]
    | S k' => flat_map (fun x => map (cons x) (lists_of k' u)) u
    end.
  Lemma lists_of_complete u : forall k l, length l = k -> incl l u -> In l (lists_of k u).
  Proof.
    induction k as [|k IH]; intros l Hl Hi.
    - destruct l; [now left | discriminate].
    - destruct l as [|x t]; [discriminate|]. cbn [lists_of]. apply in_flat_map. exists x. split; [apply Hi; now left|].
      apply in_map, IH; [cbn in Hl; lia | intros z Hz; apply Hi; now right].
  Qed.
  Lemma lists_of_length u : forall k, length (lists_of k u) = (length u ^ k)%nat.
  Proof.
    induction k as [|k IH]; [reflexivity|]. cbn [lists_of Nat.pow].
    assert (G : forall v, length (flat_map (fun x => map (cons x) (lists_of k u)) v) = (length v * length (lists_of k u))%nat).
    { induction v as [|x v IHv]; [reflexivity|]. cbn [flat_map length]. rewrite app_length, map_length, IHv. lia. }
    rewrite G, IH. reflexivity.
  Qed.

  (** termination: the key strictly decreases, so no decision vector is visited twice; all visited vectors
      are length-k lists over the members of s ++ w *)
  Lemma climb_terminates_aux (u : list Z) (k : nat) fuel : forall seen s w g,
    g = ev s -> length s = k -> incl s u -> incl w u ->
    NoDup seen -> incl seen (lists_of k u) ->
    (forall t, In t seen -> lexlt (keyT (ev s)) (keyT (ev t))) ->
    (length (lists_of k u) <= fuel + length seen)%nat ->
    climb ev fuel s w g <> None.
  Proof.
    induction fuel as [|f IH]; intros seen s w g Hg Hl Hs Hw Hn Hseen Hbetter Hfuel.
    - exfalso.
      assert (Hs_in : In s (lists_of k u)) by (apply lists_of_complete; assumption).
      assert (Hs_new : ~ In s seen). { intros H. specialize (Hbetter s H). unfold lexlt in Hbetter. lia. }
      assert (Hle : (length (s :: seen) <= length (lists_of k u))%nat).
      { apply NoDup_incl_length; [now constructor|]. intros z [<-|Hz]; [exact Hs_in | now apply Hseen]. }
      cbn [length] in Hle. lia.
    - cbn [climb]. destruct (scan ev s w g) as [[ij|] r] eqn:Es; [|discriminate].
      destruct (scan_some _ _ _ _ _ Es) as (Hin & Er & Hlt & _). destruct ij as [i j].
      apply pairs_In in Hin as [Hi Hj]. cbn [fst snd].
      assert (Hs_in : In s (lists_of k u)) by (apply lists_of_complete; assumption).
      assert (Hs_new : ~ In s seen). { intros H. specialize (Hbetter s H). unfold lexlt in Hbetter. lia. }
      assert (Hperm := swap_perm s w i j Hi Hj).
      apply (IH (s :: seen)).
      + exact Er.
      + unfold prop. cbn [fst snd]. now rewrite set_nth_length.
      + intros z Hz. unfold prop in Hz. cbn [fst snd] in Hz.
        assert (Hz' : In z (s ++ w)) by (apply (Permutation_in _ Hperm), in_or_app; now left).
        apply in_app_or in Hz' as [H|H]; [now apply Hs | now apply Hw].
      + intros z Hz.
        assert (Hz' : In z (s ++ w)) by (apply (Permutation_in _ Hperm), in_or_app; now right).
        apply in_app_or in Hz' as [H|H]; [now apply Hs | now apply Hw].
      + now constructor.
      + intros z [<-|Hz]; [exact Hs_in | now apply Hseen].
      + rewrite <- Er. subst g. intros t [<-|Ht]; [exact Hlt|]. specialize (Hbetter t Ht). unfold lexlt in *. lia.
      + cbn [length]. lia.
  Qed.

  Lemma climb_terminates s w : forall fuel, (length (s ++ w) ^ length s <= fuel)%nat -> climb ev fuel s w (ev s) <> None.
  Proof.
    intros fuel Hf. apply (climb_terminates_aux (s ++ w) (length s) fuel []); try reflexivity.
    - intros z Hz. apply in_or_app. now left.
    - intros z Hz. apply in_or_app. now right.
    - constructor.
    - intros z [].
    - intros t [].
    - rewrite lists_of_length. cbn [length]. lia.
  Qed.

  (** both hill climbers: feasible, truthful, locally optimal result; the exchange partner set stays the
      exact complement of the solution *)
  Lemma climb_from_spec fuel cand k start s' w' g' : NoDup cand -> feasible cand k start ->
    climb_from ev fuel cand start = Some (s', w', g') ->
    feasible cand k s' /\ g' = ev s' /\ Permutation (s' ++ w') cand /\
    lexle (keyT (ev s')) (keyT (ev start)) /\
    forall i e, (i < k)%nat -> In e cand -> ~ In e s' -> ~ lexlt (keyT (ev (set_nth i s' e))) (keyT (ev s')).
  Proof.
    intros Hc Hf E. unfold climb_from in E.
    destruct (climb_spec _ _ _ _ _ _ _ E eq_refl) as (A & B & C & D & L & F).
    destruct (start_state cand k start Hc Hf) as (Hn0 & Hmem).
    assert (Hn' : NoDup (s' ++ w')) by (apply (Permutation_NoDup (Permutation_sym B)), Hn0).
    assert (Hmem' : forall x, In x (s' ++ w') <-> In x cand).
    { intros x. rewrite <- Hmem. split; apply Permutation_in; [exact B | now apply Permutation_sym]. }
    destruct Hf as (_ & _ & Hlen).
    assert (Hfe : feasible cand k s').
    { repeat split; [now apply NoDup_app_l in Hn' | | lia]. intros x Hx. apply Hmem', in_or_app. now left. }
    split; [exact Hfe|]. split; [exact A|]. split.
    - apply NoDup_Permutation; [exact Hn' | exact Hc | exact Hmem'].
    - split; [subst g'; exact L|].
      intros i e Hi He Hne. apply lexle_not_lexlt.
      assert (Hew : In e w'). { apply Hmem' in He. apply in_app_or in He as [H|H]; [contradiction | exact H]. }
      destruct (In_nth _ _ 0 Hew) as (j & Hj & <-). apply F; lia.
  Qed.
End ClimbProofs.

(** ** pymoo_addon operators *)
Lemma NoDup_map_inj_on {A B} (f : A -> B) (l : list A) :
  NoDup l -> (forall x y, In x l -> In y l -> f x = f y -> x = y) -> NoDup (map f l).
Proof.
  induction 1 as [|x t Hx Ht IH]; intros Hinj; cbn [map]; constructor.
  - intros Hin. apply in_map_iff in Hin as (y & Ey & Hy). apply Hx.
    rewrite (Hinj x y); [exact Hy | now left | now right | now symmetry].
  - apply IH. intros a b Ha Hb. apply Hinj; now right.
Qed.

(** SubsetRandomSampling / the climber's start: distinct in-range positions give a feasible subset *)
Lemma sample_feasible cand ix k : NoDup cand -> NoDup ix -> (forall i, In i ix -> (i < length cand)%nat) -> length ix = k ->
  feasible cand k (sample cand ix).
Proof.
  intros Hc Hn Hr Hl. unfold sample. repeat split.
  - apply NoDup_map_inj_on; [exact Hn|]. intros i j Hi Hj E.
    apply (proj1 (NoDup_nth cand 0) Hc); auto.
  - intros z Hz. apply in_map_iff in Hz as (i & <- & Hi). apply nth_In. auto.
  - now rewrite map_length.
Qed.
Lemma subset_sampling_feasible cand ixs k : NoDup cand ->
  Forall (fun ix => NoDup ix /\ (forall i, In i ix -> (i < length cand)%nat) /\ length ix = k) ixs ->
  Forall (feasible cand k) (subset_sampling cand ixs).
Proof.
  intros Hc H. unfold subset_sampling. rewrite Forall_map. eapply Forall_impl; [|exact H].
  intros ix (A & B & C). now apply sample_feasible.
Qed.

(** boolean-mask indexing and masked assignment *)
Lemma compress_map_filter {A} (f : A -> bool) l : compress (map f l) l = filter f l.
Proof. induction l as [|x t IH]; cbn; [reflexivity|]. destruct (f x); now rewrite IH. Qed.
Lemma scatter_length {A} (mask : list bool) : forall (l vals : list A), length (scatter mask l vals) = length l.
Proof.
  induction mask as [|m mt IH]; intros [|x t] vals; cbn; try reflexivity.
  destruct m; [destruct vals|]; cbn; now rewrite IH.
Qed.
Lemma scatter_perm {A} (f : A -> bool) : forall (l vals : list A), length vals = length (filter f l) ->
  Permutation (scatter (map f l) l vals) (filter (fun x => negb (f x)) l ++ vals).
Proof.
  induction l as [|x t IH]; intros vals Hl; cbn [map scatter filter].
  - cbn in Hl. destruct vals; [constructor | discriminate].
  - cbn [filter] in Hl. destruct (f x) eqn:Ef; cbn [negb].
    + cbn [length] in Hl. destruct vals as [|v vs]; [discriminate|].
      rewrite (IH vs) by (cbn [length] in Hl; lia). apply Permutation_middle.
    + cbn [app]. constructor. now apply IH.
Qed.
Lemma scatter_all_false {A} (f : A -> bool) : forall (l vals : list A), (forall x, In x l -> f x = false) ->
  scatter (map f l) l vals = l.
Proof.
  induction l as [|x t IH]; intros vals H; cbn [map scatter]; [reflexivity|].
  rewrite (H x (or_introl eq_refl)). f_equal. apply IH. intros y Hy. apply H. now right.
Qed.
Lemma filter_none {A} (f : A -> bool) (l : list A) : (forall x, In x l -> f x = false) -> filter f l = [].
Proof.
  induction l as [|x t IH]; intros H; cbn [filter]; [reflexivity|].
  rewrite (H x (or_introl eq_refl)). apply IH. intros y Hy. apply H. now right.
Qed.

(** position-wise mixture of two lists: the structurally recursive form of  dst[mex] = src[mex] *)
Fixpoint mix (sel : nat -> bool) (dst src : list Z) : list Z :=
  match dst with
  | [] => []
  | x :: t => (if sel O then match src with y :: _ => y | [] => x end else x) :: mix (fun r => sel (S r)) t (tl src)
  end.
Lemma mix_ext_early sel sel' : (forall r, sel r = sel' r) -> forall dst src, mix sel dst src = mix sel' dst src.
Proof.
  intros H dst. revert sel sel' H. induction dst as [|x t IH]; intros sel sel' H src; cbn [mix]; [reflexivity|].
  rewrite H. f_equal. apply IH. intros r. apply H.
Qed.
Lemma nth_skipn_hd (s : nat) : forall (src : list Z) x, nth s src x = match skipn s src with y :: _ => y | [] => x end.
Proof. induction s as [|s IH]; intros [|y u] x; cbn; try reflexivity. apply IH. Qed.
Lemma tl_skipn (s : nat) : forall (src : list Z), tl (skipn s src) = skipn (S s) src.
Proof.
  induction s as [|s IH]; intros src.
  - destruct src; reflexivity.
  - destruct src as [|y u]; [reflexivity|]. change (skipn (S s) (y :: u)) with (skipn s u).
    change (skipn (S (S s)) (y :: u)) with (skipn (S s) u). apply IH.
Qed.
Lemma assign_at_mix_gen (sel : nat -> bool) src : forall dst s,
  map (fun rx : nat * Z => if sel (fst rx) then nth (fst rx) src (snd rx) else snd rx) (combine (seq s (length dst)) dst)
  = mix (fun r => sel (s + r)%nat) dst (skipn s src).
Proof.
  induction dst as [|x t IH]; intros s; cbn [length seq combine map mix]; [reflexivity|].
  cbn [fst snd]. rewrite Nat.add_0_r, <- nth_skipn_hd. f_equal.
  rewrite IH, tl_skipn. apply mix_ext_early. intros r. f_equal. lia.
Qed.
Lemma assign_at_mix mex dst src : assign_at mex dst src = mix (fun r => existsb (Nat.eqb r) mex) dst src.
Proof.
  unfold assign_at. rewrite (assign_at_mix_gen (fun r => existsb (Nat.eqb r) mex) src dst 0). reflexivity.
Qed.
Lemma mix_length : forall dst sel src, length (mix sel dst src) = length dst.
Proof. induction dst as [|x t IH]; intros; cbn [mix length]; [reflexivity | now rewrite IH]. Qed.
Lemma mix_In : forall dst sel src z, In z (mix sel dst src) -> In z dst \/ In z src.
Proof.
  induction dst as [|x t IH]; intros sel src z H; cbn [mix] in H; [contradiction|].
  destruct H as [H|H].
  - destruct (sel 0%nat); [destruct src as [|y u]|]; subst; cbn; auto.
  - apply IH in H as [H|H]; [left; now right|]. right. destruct src; [contradiction | now right].
Qed.
Lemma mix_NoDup : forall dst sel src, NoDup dst -> NoDup src -> (forall x, In x dst -> ~ In x src) -> NoDup (mix sel dst src).
Proof.
  induction dst as [|x t IH]; intros sel src Hd Hs Hdisj; cbn [mix]; [constructor|].
  inversion Hd as [|? ? Hx Ht]; subst.
  assert (Hs' : NoDup (tl src)) by (destruct src; [constructor | now inversion Hs]).
  assert (Hsub : forall z, In z (tl src) -> In z src) by (intros z Hz; destruct src; [contradiction | now right]).
  constructor.
  - intros Hin. apply mix_In in Hin.
    destruct (sel 0%nat); [destruct src as [|y u]|].
    + destruct Hin as [H|H]; [contradiction | exact H].
    + cbn [tl] in *. inversion Hs as [|? ? Hy Hu]; subst. destruct Hin as [H|H]; [|contradiction].
      apply (Hdisj y); [now right | now left].
    + destruct Hin as [H|H]; [contradiction|]. apply (Hdisj x); [now left | now apply Hsub].
  - apply IH; [exact Ht | exact Hs'|]. intros z Hz Hz'. apply (Hdisj z); [now right | now apply Hsub].
Qed.

(** ReducedExchangeCrossover: children of two feasible parents are feasible, for every exchange draw *)
Lemma rex_cross_fst_feasible cand k a b mex : feasible cand k a -> feasible cand k b -> feasible cand k (fst (rex_cross a b mex)).
Proof.
  intros (Hna & Hia & Hla) (Hnb & Hib & Hlb). unfold rex_cross, rex_mab. cbn [fst].
  rewrite !compress_map_filter, assign_at_mix.
  set (fa := fun x => negb (memZ x b)). set (fb := fun x => negb (memZ x a)).
  set (ap := filter fa a). set (bp := filter fb b).
  set (ap' := mix (fun r => existsb (Nat.eqb r) mex) ap bp).
  assert (Hap : forall x, In x ap <-> In x a /\ ~ In x b) by (intros x; unfold ap, fa; rewrite filter_In, negb_true_iff, memZ_false; tauto).
  assert (Hbp : forall x, In x bp <-> In x b /\ ~ In x a) by (intros x; unfold bp, fb; rewrite filter_In, negb_true_iff, memZ_false; tauto).
  assert (Hperm : Permutation (scatter (map fa a) a ap') (filter (fun x => negb (fa x)) a ++ ap')).
  { apply scatter_perm. unfold ap'. now rewrite mix_length. }
  assert (Hap'in : forall z, In z ap' -> (In z a /\ ~ In z b) \/ (In z b /\ ~ In z a)).
  { intros z Hz. apply mix_In in Hz as [H|H]; [left; now apply Hap | right; now apply Hbp]. }
  assert (Hcom : forall z, In z (filter (fun x => negb (fa x)) a) <-> In z a /\ In z b).
  { intros z. unfold fa. rewrite filter_In, negb_involutive, memZ_In. tauto. }
  repeat split.
  - apply (Permutation_NoDup (Permutation_sym Hperm)). apply NoDup_app_intro.
    + now apply NoDup_filter.
    + apply mix_NoDup; [now apply NoDup_filter | now apply NoDup_filter|]. intros x Hx Hx'. apply Hap in Hx. apply Hbp in Hx'. tauto.
    + intros z Hz Hz'. apply Hcom in Hz. apply Hap'in in Hz'. tauto.
  - intros z Hz. apply (Permutation_in _ Hperm) in Hz. apply in_app_or in Hz as [H|H].
    + apply Hcom in H. now apply Hia.
    + apply Hap'in in H as [[H _]|[H _]]; [now apply Hia | now apply Hib].
  - now rewrite scatter_length.
Qed.
Lemma rex_cross_sym a b mex : snd (rex_cross a b mex) = fst (rex_cross b a mex).
Proof. reflexivity. Qed.
Lemma rex_cross_feasible cand k a b mex : feasible cand k a -> feasible cand k b ->
  feasible cand k (fst (rex_cross a b mex)) /\ feasible cand k (snd (rex_cross a b mex)).
Proof. intros Ha Hb. split; [now apply rex_cross_fst_feasible | rewrite rex_cross_sym; now apply rex_cross_fst_feasible]. Qed.

(** ReducedExchangeMutation as coded: an individual drawn from the set space is returned unchanged
    (its first mask selects the members NOT in the set space), hence stays feasible *)
Lemma rex_mut_identity setspace x u p chosen : incl x setspace -> rex_mut setspace x u p chosen = x.
Proof.
  intros Hi. unfold rex_mut.
  apply scatter_all_false. intros e He. apply negb_false_iff, memZ_In, Hi, He.
Qed.
Lemma rex_mut_feasible setspace k x u p chosen : feasible setspace k x -> feasible setspace k (rex_mut setspace x u p chosen).
Proof. intros H. rewrite rex_mut_identity; [exact H | apply H]. Qed.
Lemma rex_mut_length setspace x u p chosen : length (rex_mut setspace x u p chosen) = length x.
Proof. unfold rex_mut. apply scatter_length. Qed.

(** integer rounding keeps a value inside integer bounds *)
Lemma rhe_bounds (lo hi : Z) (q : Q) : (inject_Z lo <= q)%Q -> (q <= inject_Z hi)%Q -> lo <= rhe q <= hi.
Proof.
  intros Hlo Hhi. unfold rhe.
  pose proof (Qfloor_le q) as Hf. pose proof (Qlt_floor q) as Hf'.
  assert (L : lo <= Qfloor q). { rewrite <- (Qfloor_Z lo). now apply Qfloor_resp_le. }
  assert (U : Qfloor q <= hi). { rewrite <- (Qfloor_Z hi). now apply Qfloor_resp_le. }
  assert (Up : (0 < q - inject_Z (Qfloor q))%Q -> Qfloor q + 1 <= hi).
  { intros Hd. assert (Hlt : (inject_Z (Qfloor q) < inject_Z hi)%Q).
    { eapply Qlt_le_trans; [|exact Hhi]. apply (Qplus_lt_l _ _ (- inject_Z (Qfloor q))). ring_simplify.
      setoid_replace (-1 * inject_Z (Qfloor q) + q)%Q with (q - inject_Z (Qfloor q))%Q by ring. exact Hd. }
    rewrite <- Zlt_Qlt in Hlt. lia. }
  destruct (Qcompare_spec (q - inject_Z (Qfloor q)) (1 # 2)) as [E|Lt|Gt].
  - destruct (Z.even (Qfloor q)); [lia|]. split; [lia|]. apply Up. rewrite E. reflexivity.
  - lia.
  - split; [lia|]. apply Up. eapply Qlt_trans; [|exact Gt]. reflexivity.
Qed.
Lemma int_round_bounds (lo hi : Z) (qs : list Q) :
  Forall (fun q => (inject_Z lo <= q)%Q /\ (q <= inject_Z hi)%Q) qs -> Forall (fun z => lo <= z <= hi) (int_round qs).
Proof. intros H. unfold int_round. rewrite Forall_map. eapply Forall_impl; [|exact H]. intros q [A B]. now apply rhe_bounds. Qed.

(** ** corollaries for the three exact optimisers *)
Section Corollaries.
  Variable ev : list Z -> evalT.

  Lemma climb_from_terminates cand k start fuel : NoDup cand -> feasible cand k start ->
    (length cand ^ k <= fuel)%nat -> climb_from ev fuel cand start <> None.
  Proof.
    intros Hc Hf Hfuel. unfold climb_from. apply climb_terminates.
    destruct (start_state cand k start Hc Hf) as (Hn & Hmem).
    rewrite (Permutation_length (NoDup_Permutation Hn Hc Hmem)). destruct Hf as (_ & _ & ->). exact Hfuel.
  Qed.

  Definition climber_result cand k start (res : list Z * list Z * evalT) : Prop :=
    let '(s', w', g') := res in
    feasible cand k s' /\ g' = ev s' /\ Permutation (s' ++ w') cand /\
    lexle (keyT (ev s')) (keyT (ev start)) /\
    forall i e, (i < k)%nat -> In e cand -> ~ In e s' -> ~ lexlt (keyT (ev (set_nth i s' e))) (keyT (ev s')).

  Lemma sd_minimize_spec fuel cand ix k res : NoDup cand -> NoDup ix -> (forall i, In i ix -> (i < length cand)%nat) ->
    length ix = k -> sd_minimize ev fuel cand ix = Some res -> climber_result cand k (sample cand ix) res.
  Proof.
    intros Hc Hn Hr Hl E. destruct res as [[s' w'] g']. unfold sd_minimize in E.
    apply (climb_from_spec ev fuel cand k _ s' w' g' Hc); [now apply sample_feasible | exact E].
  Qed.
  Lemma ssd_minimize_spec fuel cand k res : NoDup cand -> (k <= length cand)%nat ->
    ssd_minimize ev fuel cand k = Some res -> climber_result cand k (sort_select ev cand k) res.
  Proof.
    intros Hc Hk E. destruct res as [[s' w'] g']. unfold ssd_minimize in E.
    apply (climb_from_spec ev fuel cand k _ s' w' g' Hc); [now apply sort_select_feasible | exact E].
  Qed.
  Lemma sd_minimize_total fuel cand ix k : NoDup cand -> NoDup ix -> (forall i, In i ix -> (i < length cand)%nat) ->
    length ix = k -> (length cand ^ k <= fuel)%nat -> sd_minimize ev fuel cand ix <> None.
  Proof. intros Hc Hn Hr Hl Hf. apply (climb_from_terminates cand k); [exact Hc | now apply sample_feasible | exact Hf]. Qed.
  Lemma ssd_minimize_total fuel cand k : NoDup cand -> (k <= length cand)%nat ->
    (length cand ^ k <= fuel)%nat -> ssd_minimize ev fuel cand k <> None.
  Proof. intros Hc Hk Hf. apply (climb_from_terminates cand k); [exact Hc | now apply sort_select_feasible | exact Hf]. Qed.
End Corollaries.

(** ** result monitor: a [true] of the boolean monitor means the propositions *)
Lemma nondominated_b_sound F : nondominated_b F = true ->
  forall f1 f2, In f1 F -> In f2 F -> pareto_dom f2 f1 = false.
Proof.
  unfold nondominated_b. rewrite forallb_forall. intros H f1 f2 H1 H2.
  specialize (H f1 H1). rewrite forallb_forall in H. specialize (H f2 H2). now apply negb_true_iff in H.
Qed.
Lemma pareto_dom_spec f1 f2 : pareto_dom f1 f2 = true ->
  length f1 = length f2 /\ (forall i, (i < length f1)%nat -> (nth i f1 0 <= nth i f2 0)%Q) /\
  exists i, (i < length f1)%nat /\ (nth i f1 0 < nth i f2 0)%Q.
Proof.
  unfold pareto_dom. rewrite andb_true_iff. revert f2. induction f1 as [|x s IH]; intros [|y t]; cbn [all2 any2]; intros [A B]; try discriminate.
  apply andb_true_iff in A as [A1 A2]. apply Qle_bool_iff in A1.
  apply orb_true_iff in B as [B|B].
  - assert (G : length s = length t /\ forall i, (i < length s)%nat -> (nth i s 0 <= nth i t 0)%Q).
    { clear -A2. revert t A2. induction s as [|a s IHs]; intros [|b t] H; cbn [all2] in H; try discriminate.
      - split; [reflexivity | intros i Hi; cbn in Hi; lia].
      - apply andb_true_iff in H as [H1 H2]. apply Qle_bool_iff in H1. destruct (IHs t H2) as [L N].
        split; [cbn; lia|]. intros [|i] Hi; cbn [nth]; [exact H1 | apply N; cbn in Hi; lia]. }
    destruct G as [L N]. split; [cbn; lia|]. split.
    + intros [|i] Hi; cbn [nth]; [exact A1 | apply N; cbn in Hi; lia].
    + exists 0%nat. split; [cbn; lia|]. cbn [nth]. unfold qlt_bool in B. apply negb_true_iff in B.
      apply Qnot_le_lt. intros C. apply Qle_bool_iff in C. congruence.
  - destruct (IH t (conj A2 B)) as (L & N & (i & Hi & Hlt)). split; [cbn; lia|]. split.
    + intros [|j] Hj; cbn [nth]; [exact A1 | apply N; cbn in Hj; lia].
    + exists (S i). split; [cbn; lia | exact Hlt].
Qed.

(** ** MutatorA / MutatorB hill-climb step (NSGA2MutatorA/BSubsetGeneticAlgorithm) *)
Lemma set_nth_In {A} (i : nat) : forall (l : list A) v z, In z (set_nth i l v) -> z = v \/ In z l.
Proof.
  induction i as [|i IH]; intros [|h t] v z H; cbn [set_nth] in H; try contradiction.
  - destruct H as [H|H]; [now left | right; now right].
  - destruct H as [H|H]; [right; now left|]. apply IH in H as [H|H]; [now left | right; now right].
Qed.
Lemma set_nth_NoDup {A} (i : nat) : forall (l : list A) v, NoDup l -> ~ In v l -> NoDup (set_nth i l v).
Proof.
  induction i as [|i IH]; intros [|h t] v Hn Hv; cbn [set_nth]; try constructor.
  - intros H. apply Hv. now right.
  - now inversion Hn.
  - intros H. apply set_nth_In in H as [->|H]; [apply Hv; now left | now inversion Hn].
  - apply IH; [now inversion Hn | intros H; apply Hv; now right].
Qed.

(** every trial row of the repaired step is the input with ONE position exchanged for a candidate outside it,
    hence feasible — for all loci draws (in range or not) and all allele draws in range, repeated or not *)
Lemma mutAB_trial_feasible (setspace : list Z) (k : nat) (x : list Z) (l a : nat) :
  feasible setspace k x -> (a < length (complement setspace x))%nat ->
  feasible setspace k (set_nth l x (nth a (complement setspace x) 0)).
Proof.
  intros (F1 & F2 & F3) Ha.
  assert (Hc : In (nth a (complement setspace x) 0) (complement setspace x)) by (apply nth_In, Ha).
  apply complement_In in Hc as [Hc1 Hc2].
  repeat split.
  - apply set_nth_NoDup; assumption.
  - intros z Hz. apply set_nth_In in Hz as [->|Hz]; [exact Hc1 | now apply F2].
  - now rewrite set_nth_length.
Qed.
Lemma mutAB_trials_feasible (setspace : list Z) (k : nat) (x : list Z) (lociix alleleix : list nat) :
  feasible setspace k x -> (forall j, In j alleleix -> (j < length (complement setspace x))%nat) ->
  Forall (feasible setspace k) (mutAB_trials x (complement setspace x) lociix alleleix).
Proof.
  intros Hf Hr. unfold mutAB_trials. apply Forall_forall. intros t Ht.
  apply in_map_iff in Ht as ([l a] & <- & Hin). cbn [fst snd].
  apply mutAB_trial_feasible; [exact Hf | apply Hr; eapply in_combine_r; exact Hin].
Qed.
(** the step returns a feasible subset whichever row the selection rule [sel] picks (MutatorA, MutatorB) *)
Lemma mutAB_hillclimb_feasible sel (ev : list Z -> evalT) (setspace : list Z) (k : nat) (x : list Z)
    (lociix alleleix : list nat) (draw : nat) :
  feasible setspace k x -> (forall j, In j alleleix -> (j < length (complement setspace x))%nat) ->
  feasible setspace k (mutAB_hillclimb sel ev setspace x lociix alleleix draw).
Proof.
  intros Hf Hr. unfold mutAB_hillclimb.
  pose proof (mutAB_trials_feasible setspace k x lociix alleleix Hf Hr) as HT.
  destruct (complement setspace x) as [|a0 al]; [exact Hf|].
  match goal with |- feasible _ _ (nth ?n ?T x) => destruct (nth_in_or_default n T x) as [Hin | ->] end.
  - rewrite Forall_forall in HT. apply HT, Hin.
  - exact Hf.
Qed.
(** when the subset is the whole candidate set there is nothing to exchange: the individual is returned *)
Lemma mutAB_hillclimb_full sel (ev : list Z -> evalT) (setspace x : list Z) (lociix alleleix : list nat) (draw : nat) :
  incl setspace x -> mutAB_hillclimb sel ev setspace x lociix alleleix draw = x.
Proof.
  intros Hi. unfold mutAB_hillclimb.
  assert (E : complement setspace x = []).
  { unfold complement. apply filter_none. intros e He. apply negb_false_iff, memZ_In, Hi, He. }
  now rewrite E.
Qed.

(** the selection rules pick a position of the non-dominated front (MutatorB: the former code indexed the
    front with positions of the unfiltered population) *)
Lemma argmin_from_lt : forall (l : list Z) (best i : nat) (bv : Z), (best < i)%nat ->
  (argmin_from best bv i l < i + length l)%nat.
Proof.
  induction l as [|v t IH]; intros best i bv H; cbn [argmin_from length]; [lia|].
  destruct (v <? bv).
  - specialize (IH i (S i) v). lia.
  - specialize (IH best (S i) bv). lia.
Qed.
Lemma argminZ_lt (l : list Z) : l <> [] -> (argminZ l < length l)%nat.
Proof.
  destruct l as [|v t]; [congruence|]. intros _. unfold argminZ. cbn [length].
  pose proof (argmin_from_lt t 0%nat 1%nat v). lia.
Qed.
Lemma mutB_sel_in_front (F : list (list Z)) (draw : nat) : front_ix F <> [] -> In (mutB_sel F draw) (front_ix F).
Proof.
  intros H. unfold mutB_sel. apply nth_In.
  rewrite <- (map_length (fun i => nth draw (nth i F []) 0) (front_ix F)).
  apply argminZ_lt. destruct (front_ix F); [congruence | discriminate].
Qed.
Lemma mutA_sel_in_front (F : list (list Z)) (draw : nat) : (draw < length (front_ix F))%nat -> In (mutA_sel F draw) (front_ix F).
Proof. intros H. unfold mutA_sel. now apply nth_In. Qed.
Lemma front_ix_lt (F : list (list Z)) (i : nat) : In i (front_ix F) -> (i < length F)%nat.
Proof. unfold front_ix. intros H. apply filter_In in H as [H _]. apply in_seq in H. lia. Qed.
(** a dominating row has a strictly smaller component sum, so a row of least sum is never dominated: the front
    of a non-empty population is non-empty and the selection is always defined *)
Lemma zdom_sum : forall f g, zdom f g = true -> sumZ f < sumZ g.
Proof.
  unfold zdom. intros f g H. apply andb_true_iff in H as [A B]. revert g A B.
  assert (LE : forall p q, all2z Z.leb p q = true -> sumZ p <= sumZ q).
  { induction p as [|a s IH]; intros [|b t] A; cbn [all2z] in A; try discriminate A; [apply Z.le_refl|].
    apply andb_true_iff in A as [A1 A2]. apply Z.leb_le in A1. specialize (IH t A2). rewrite !sumZ_cons. lia. }
  induction f as [|a s IH]; intros [|b t] A B; cbn [all2z any2z] in *; try discriminate A; try discriminate B.
  apply andb_true_iff in A as [A1 A2]. apply Z.leb_le in A1. rewrite !sumZ_cons.
  apply orb_true_iff in B as [B|B].
  - apply Z.ltb_lt in B. specialize (LE s t A2). lia.
  - specialize (IH t A2 B). lia.
Qed.
Lemma min_sum_row : forall (F : list (list Z)), F <> [] ->
  exists i, (i < length F)%nat /\ forall g, In g F -> sumZ (nth i F []) <= sumZ g.
Proof.
  induction F as [|f t IH]; [congruence|]. intros _.
  destruct t as [|f' t'].
  - exists 0%nat. split; [cbn; lia|]. intros g [<-|[]]. cbn [nth]. apply Z.le_refl.
  - destruct IH as (i & Hi & Hm); [discriminate|].
    destruct (Z_le_gt_dec (sumZ f) (sumZ (nth i (f' :: t') []))) as [L|G].
    + exists 0%nat. split; [cbn; lia|]. intros g [<-|Hg]; cbn [nth]; [apply Z.le_refl|]. specialize (Hm g Hg). lia.
    + exists (S i). split; [cbn in *; lia|]. intros g Hg; change (nth (S i) (f :: f' :: t') []) with (nth i (f' :: t') []); destruct Hg as [<-|Hg]; [lia | now apply Hm].
Qed.
Lemma front_ix_nonempty (F : list (list Z)) : F <> [] -> front_ix F <> [].
Proof.
  intros HF. destruct (min_sum_row F HF) as (i & Hi & Hm).
  assert (Hin : In i (front_ix F)).
  { unfold front_ix. apply filter_In. split; [apply in_seq; lia|].
    apply negb_true_iff. destruct (existsb _ F) eqn:E; [|reflexivity].
    apply existsb_exists in E as (g & Hg & D). apply zdom_sum in D. specialize (Hm g Hg). lia. }
  intros E. now rewrite E in Hin.
Qed.

(** the FORMER code (whole-column assignment) did NOT preserve feasibility: with 2 of 3 candidates selected the
    single remaining allele was written to both loci — regression witness about [old_mutAB_hillclimb] *)
Lemma old_mutAB_refuted_witness :
  feasible [0; 1; 2] 2 [0; 1] /\ NoDup [0; 1; 2] /\
  tiled_ok (length [0; 1]%Z) (length [0; 1]%Z) [0%nat; 1%nat] = true /\
  tiled_ok (length (complement [0; 1; 2] [0; 1])) (length [0; 1]%Z) [0%nat; 0%nat] = true /\
  ~ NoDup (old_mutAB_hillclimb [0; 1; 2] [0; 1] [0%nat; 1%nat] [0%nat; 0%nat]).
Proof.
  split; [apply feasible_b_spec; reflexivity|]. split; [apply nodupb_NoDup; reflexivity|].
  split; [reflexivity|]. split; [reflexivity|].
  intros H. apply nodupb_NoDup in H. vm_compute in H. discriminate.
Qed.
(** ... while the repaired step is feasible on the very same input and draws, whichever row is selected *)
Lemma new_mutAB_on_old_witness : forall sel ev draw,
  feasible [0; 1; 2] 2 (mutAB_hillclimb sel ev [0; 1; 2] [0; 1] [0%nat; 1%nat] [0%nat; 0%nat] draw).
Proof.
  intros. apply mutAB_hillclimb_feasible; [apply feasible_b_spec; reflexivity|].
  intros j Hj. cbn in *. intuition lia.
Qed.
