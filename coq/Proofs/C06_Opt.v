(** C06 — lemmas about Model/C06_Opt.v *)
From Coq Require Import Permutation Sorted Qround.
From PV Require Import Lib.Common Model.C06_Opt.
Local Open Scope Z_scope.

(** ** the specification-level predicates and their boolean reflections *)
Definition feasible (cand : list Z) (k : nat) (x : list Z) : Prop :=
  NoDup x /\ incl x cand /\ length x = k.

Lemma memZ_In x l : memZ x l = true <-> In x l.
Proof.
  unfold memZ. rewrite existsb_exists. split.
  - intros (y & Hy & E). apply Z.eqb_eq in E. now subst.
  - intros H. exists x. split; [exact H | apply Z.eqb_refl].
Qed.
Lemma memZ_false x l : memZ x l = false <-> ~ In x l.
Proof. rewrite <- memZ_In. destruct (memZ x l); split; congruence. Qed.

Lemma nodupb_NoDup l : nodupb l = true <-> NoDup l.
Proof.
  induction l as [|x t IH]; cbn [nodupb].
  - split; [constructor | reflexivity].
  - rewrite andb_true_iff, negb_true_iff, memZ_false, IH. split.
    + intros [A B]. now constructor.
    + intros H. inversion H. now split.
Qed.
Lemma inclb_incl a b : inclb a b = true <-> incl a b.
Proof.
  unfold inclb. rewrite forallb_forall. unfold incl. split; intros H x Hx; [apply memZ_In | apply memZ_In]; auto.
Qed.
Lemma feasible_b_spec cand k x : feasible_b cand k x = true <-> feasible cand k x.
Proof.
  unfold feasible_b, feasible. rewrite !andb_true_iff, nodupb_NoDup, inclb_incl, Nat.eqb_eq. tauto.
Qed.

(** ** set_nth *)
Lemma set_nth_length {A} i (l : list A) v : length (set_nth i l v) = length l.
Proof. revert i; induction l as [|h t IH]; intros [|i]; cbn; auto. Qed.
Lemma set_nth_app {A} (l1 : list A) a l2 v : set_nth (length l1) (l1 ++ a :: l2) v = l1 ++ v :: l2.
Proof. induction l1 as [|h t IH]; cbn; [reflexivity | now rewrite IH]. Qed.
Lemma nth_app_mid {A} (l1 : list A) a l2 d : nth (length l1) (l1 ++ a :: l2) d = a.
Proof. rewrite app_nth2 by lia. now rewrite Nat.sub_diag. Qed.

(** exchanging s[i] and w[j] permutes the concatenation *)
Lemma swap_perm_aux (s1 s2 w1 w2 : list Z) a b :
  Permutation ((s1 ++ b :: s2) ++ (w1 ++ a :: w2)) ((s1 ++ a :: s2) ++ (w1 ++ b :: w2)).
Proof.
  rewrite <- !app_assoc. cbn [app]. apply Permutation_app_head.
  transitivity (b :: a :: s2 ++ w1 ++ w2).
  - constructor. apply Permutation_sym. rewrite (app_assoc s2 w1 (a :: w2)), (app_assoc s2 w1 w2).
    apply Permutation_middle.
  - transitivity (a :: b :: s2 ++ w1 ++ w2); [constructor|]. constructor.
    rewrite (app_assoc s2 w1 (b :: w2)), (app_assoc s2 w1 w2). apply Permutation_middle.
Qed.
Lemma swap_perm (s w : list Z) i j : (i < length s)%nat -> (j < length w)%nat ->
  Permutation (set_nth i s (nth j w 0) ++ set_nth j w (nth i s 0)) (s ++ w).
Proof.
  intros Hi Hj.
  destruct (nth_split s 0 Hi) as (s1 & s2 & Es & Ls).
  destruct (nth_split w 0 Hj) as (w1 & w2 & Ew & Lw).
  remember (nth i s 0) as a eqn:Ea. remember (nth j w 0) as b eqn:Eb.
  rewrite Es, Ew. rewrite <- Ls, <- Lw, !set_nth_app. apply swap_perm_aux.
Qed.

Lemma NoDup_app_l {A} (a b : list A) : NoDup (a ++ b) -> NoDup a.
Proof.
  induction a as [|x t IH]; cbn [app]; intros H; [constructor|].
  inversion H as [|? ? Hx Ht]; subst. constructor; [|now apply IH].
  intros Hin. apply Hx, in_or_app. now left.
Qed.
Lemma NoDup_app_r {A} (a b : list A) : NoDup (a ++ b) -> NoDup b.
Proof. induction a as [|x t IH]; cbn [app]; intros H; [exact H|]. inversion H; subst. now apply IH. Qed.
Lemma NoDup_app_disj {A} (a b : list A) x : NoDup (a ++ b) -> In x a -> ~ In x b.
Proof.
  induction a as [|y t IH]; cbn [app]; intros H Hx Hb; [contradiction|].
  inversion H as [|? ? Hy Ht]; subst. destruct Hx as [->|Hx]; [apply Hy, in_or_app; now right | now apply (IH Ht Hx)].
Qed.

(** ** insertion sort: permutation, sortedness *)
Definition key_le (a b : Z * Z) : Prop := fst a <= fst b.
Lemma insert_by_perm kx l : Permutation (insert_by kx l) (kx :: l).
Proof.
  induction l as [|ky t IH]; cbn [insert_by]; [reflexivity|].
  destruct (fst kx <=? fst ky); [reflexivity|].
  transitivity (ky :: kx :: t); [now constructor | constructor].
Qed.
Lemma isort_perm l : Permutation (isort l) l.
Proof.
  induction l as [|x t IH]; cbn [isort fold_right]; [constructor|].
  fold (isort t). rewrite insert_by_perm. now constructor.
Qed.
Lemma insert_by_sorted kx l : StronglySorted key_le l -> StronglySorted key_le (insert_by kx l).
Proof.
  induction 1 as [|ky t Hs IH Hf]; cbn [insert_by]; [repeat constructor|].
  destruct (Z.leb_spec (fst kx) (fst ky)) as [L|G].
  - constructor; [now constructor|]. constructor; [exact L|].
    rewrite Forall_forall in *. intros z Hz. unfold key_le in *. specialize (Hf z Hz). lia.
  - constructor; [exact IH|].
    rewrite Forall_forall in *. intros z Hz.
    apply (Permutation_in _ (insert_by_perm kx t)) in Hz. destruct Hz as [<-|Hz]; [unfold key_le; lia | now apply Hf].
Qed.
Lemma isort_sorted l : StronglySorted key_le (isort l).
Proof.
  induction l as [|x t IH]; cbn [isort fold_right]; [constructor|]. now apply insert_by_sorted.
Qed.

Lemma sumZ_app a b : sumZ (a ++ b) = sumZ a + sumZ b.
Proof. induction a as [|x t IH]; cbn [app sumZ fold_right]; [reflexivity|]. fold (sumZ (t ++ b)) (sumZ t). lia. Qed.
Lemma sumZ_cons x t : sumZ (x :: t) = x + sumZ t.
Proof. reflexivity. Qed.

(** the first k elements of a list sorted by w have the smallest w-sum among all duplicate-free
    k-element selections from the list *)
Lemma firstn_min_sum (w : Z -> Z) (L : list Z) : StronglySorted (fun a b => w a <= w b) L ->
  forall k y, NoDup y -> incl y L -> length y = k -> sumZ (map w (firstn k L)) <= sumZ (map w y).
Proof.
  induction 1 as [|a L' Hs IH Hf]; intros k y Hn Hi Hl.
  - destruct y as [|b y]; [subst k; cbn; lia | exfalso; apply (Hi b); now left].
  - destruct k as [|k']; [destruct y; [cbn; lia | discriminate]|].
    cbn [firstn map]. rewrite sumZ_cons.
    destruct (in_dec Z.eq_dec a y) as [Hin|Hnin].
    + destruct (in_split _ _ Hin) as (y1 & y2 & ->).
      apply NoDup_remove in Hn as [Hn' Hna].
      rewrite map_app. cbn [map]. rewrite sumZ_app, sumZ_cons.
      assert (IHy : sumZ (map w (firstn k' L')) <= sumZ (map w (y1 ++ y2))).
      { apply IH; [exact Hn' | | rewrite app_length in *; cbn [length] in Hl; lia].
        intros z Hz. assert (Hz' : In z (y1 ++ a :: y2)) by (apply in_app_or in Hz; apply in_or_app; cbn; tauto).
        destruct (Hi z Hz') as [<-|H]; [contradiction | exact H]. }
      rewrite map_app, sumZ_app in IHy. lia.
    + destruct y as [|b y']; [discriminate|].
      inversion Hn as [|? ? Hb Hn']; subst.
      cbn [map]. rewrite sumZ_cons.
      assert (Hbl : In b L').
      { destruct (Hi b (or_introl eq_refl)) as [<-|H]; [exfalso; apply Hnin; now left | exact H]. }
      assert (IHy : sumZ (map w (firstn k' L')) <= sumZ (map w y')).
      { apply IH; [exact Hn' | | cbn [length] in Hl; lia].
        intros z Hz. destruct (Hi z (or_intror Hz)) as [<-|H]; [exfalso; apply Hnin; now right | exact H]. }
      rewrite Forall_forall in Hf. specialize (Hf b Hbl). cbn beta in Hf. lia.
Qed.

Section SortProofs.
  Variable ev : list Z -> evalT.

  Lemma map_snd_keyed cand : map snd (keyed ev cand) = cand.
  Proof. unfold keyed. rewrite map_map. cbn. apply map_id. Qed.

  Lemma sorted_elems_perm cand : Permutation (map snd (isort (keyed ev cand))) cand.
  Proof. rewrite <- (map_snd_keyed cand) at 2. apply Permutation_map, isort_perm. Qed.

  Lemma sorted_elems_sorted cand :
    StronglySorted (fun a b => single_key ev a <= single_key ev b) (map snd (isort (keyed ev cand))).
  Proof.
    assert (Hk : Forall (fun p => fst p = single_key ev (snd p)) (isort (keyed ev cand))).
    { rewrite Forall_forall. intros p Hp. apply (Permutation_in _ (isort_perm _)) in Hp.
      unfold keyed in Hp. apply in_map_iff in Hp as (e & <- & _). reflexivity. }
    pose proof (isort_sorted (keyed ev cand)) as Hs.
    induction Hs as [|p t Hs IH Hf]; cbn [map]; [constructor|].
    inversion Hk as [|? ? Hp Hk']; subst. constructor; [now apply IH|].
    rewrite Forall_forall in *. intros z Hz. apply in_map_iff in Hz as (q & <- & Hq).
    specialize (Hf q Hq). unfold key_le in Hf. rewrite <- Hp, <- (Hk' q Hq). exact Hf.
  Qed.

  (** the sorting optimiser returns k distinct members of the candidate set *)
  Lemma sort_select_feasible cand k : NoDup cand -> (k <= length cand)%nat -> feasible cand k (sort_select ev cand k).
  Proof.
    intros Hn Hk. unfold sort_select. set (L := map snd (isort (keyed ev cand))).
    pose proof (sorted_elems_perm cand) as HP. fold L in HP.
    assert (HnL : NoDup L) by (apply (Permutation_NoDup (Permutation_sym HP)), Hn).
    repeat split.
    - rewrite <- (firstn_skipn k L) in HnL. now apply NoDup_app_l in HnL.
    - intros z Hz. apply (Permutation_in _ HP). rewrite <- (firstn_skipn k L). apply in_or_app. now left.
    - rewrite firstn_length, (Permutation_length HP). lia.
  Qed.

  (** ... reports the evaluation of exactly that decision *)
  Lemma sort_minimize_truthful cand k : snd (sort_minimize ev cand k) = ev (fst (sort_minimize ev cand k)).
  Proof. reflexivity. Qed.

  (** ... and, when the objective is a sum of per-member terms, no k-subset has a smaller objective *)
  Lemma sorting_optimal (w : Z -> Z) cand k :
    (forall x, e_obj (ev x) = [sumZ (map w x)]) ->
    forall y, feasible cand k y -> score (snd (sort_minimize ev cand k)) <= score (ev y).
  Proof.
    intros Hsep y (Hn & Hi & Hl). unfold sort_minimize, score. cbn [snd]. rewrite !Hsep. cbn [sumZ fold_right].
    assert (Hkey : forall e, single_key ev e = w e).
    { intros e. unfold single_key. rewrite Hsep. cbn. lia. }
    unfold sort_select.
    pose proof (sorted_elems_sorted cand) as Hs.
    assert (Hs' : StronglySorted (fun a b => w a <= w b) (map snd (isort (keyed ev cand)))).
    { clear -Hs Hkey. induction Hs as [|a t Hs IH Hf]; constructor; [exact IH|].
      rewrite Forall_forall in *. intros z Hz. rewrite <- !Hkey. now apply Hf. }
    pose proof (firstn_min_sum w _ Hs' k y Hn) as H.
    assert (Hi' : incl y (map snd (isort (keyed ev cand)))).
    { intros z Hz. apply (Permutation_in _ (Permutation_sym (sorted_elems_perm cand))). now apply Hi. }
    specialize (H Hi' Hl). lia.
  Qed.
End SortProofs.
