(** C01 — lemmas about Model/C01_Mating.v: the pedigree specification, the invariant "population k realises
    pedigree list ts" through mat_mate / mat_dh / the selfing loop, the seven protocols, counts, labels, names,
    counters, doubled-haploid homozygosity, group_taxa. *)
From Coq Require Import Permutation.
From PV Require Import Lib.Common Model.C01_Meiosis Model.C01_Mating Proofs.C01_Meiosis.
Local Open Scope Z_scope.

(** * specification side (written independently of the protocol code) *)
(** who a progeny is: a founder (row index into pgmat), the offspring of a female and a male individual, the selfed
    offspring of one individual (both gametes from the *same* individual), the doubled haploid of an individual *)
Inductive ped := Founder (i : nat) | Cross (f m : ped) | Self (x : ped) | DH (x : ped).

Definition indiv (geno : list (list (list Z))) (s : nat) : list Z * list Z := (row geno 0 s, row geno 1 s).
Definition selfs (k : nat) (t : ped) : ped := Nat.iter k Self t.

(** the individual the cross configuration row designates, per protocol (docstrings of the seven classes) *)
Definition designated (p : protocol) (r : list nat) (nself : nat) : ped :=
  let F k := Founder (nth k r 0%nat) in
  match p with
  | PSelf => selfs nself (Self (F 0%nat))
  | P2 => selfs nself (Cross (F 0%nat) (F 1%nat))
  | P2DH => DH (selfs nself (Cross (F 0%nat) (F 1%nat)))
  | P3 => selfs nself (Cross (F 0%nat) (Cross (F 1%nat) (F 2%nat)))
  | P3DH => DH (selfs nself (Cross (F 0%nat) (Cross (F 1%nat) (F 2%nat))))
  | P4 => selfs nself (Cross (Cross (F 2%nat) (F 3%nat)) (Cross (F 0%nat) (F 1%nat)))
  | P4DH => DH (selfs nself (Cross (Cross (F 2%nat) (F 3%nat)) (Cross (F 0%nat) (F 1%nat))))
  end.
(** the cross (row of xconfig) progeny k belongs to: cross i contributes nmating_i * nprogeny_i consecutive progeny *)
Definition who (xc : list (list nat)) (nm np : list nat) : list nat :=
  repeat_by (seq 0 (length xc)) (map2 Nat.mul nm np).
Definition sumn (l : list nat) : nat := fold_right Nat.add 0%nat l.
(** founders named in a pedigree *)
Fixpoint founders (t : ped) : list nat :=
  match t with Founder i => [i] | Cross f m => founders f ++ founders m | Self x => founders x | DH x => founders x end.

Inductive Forall3 {A B C} (R : A -> B -> C -> Prop) : list A -> list B -> list C -> Prop :=
| F3_nil : Forall3 R [] [] []
| F3_cons a b c la lb lc : R a b c -> Forall3 R la lb lc -> Forall3 R (a :: la) (b :: lb) (c :: lc).

Lemma iter_succ_r {A} (f : A -> A) n x : Nat.iter (S n) f x = Nat.iter n f (f x).
Proof. induction n as [|n IH]; [reflexivity|]. change (f (Nat.iter (S n) f x) = f (Nat.iter n f (f x))). now rewrite IH. Qed.

Section Real.
Variable geno0 : list (list (list Z)).
Variable xoprob : list Q.

(** [realises t (c0, c1)]: the individual with chromosome copies c0, c1 has pedigree t: every copy is a mosaic of the two
    copies of the designated parent, which in turn realises its own pedigree *)
Fixpoint realises (t : ped) (ind : list Z * list Z) : Prop :=
  match t with
  | Founder i => ind = indiv geno0 i
  | Cross f m => exists fi mi, realises f fi /\ realises m mi /\
                   mosaic xoprob (fst fi) (snd fi) (fst ind) /\ mosaic xoprob (fst mi) (snd mi) (snd ind)
  | Self x => exists xi, realises x xi /\
                   mosaic xoprob (fst xi) (snd xi) (fst ind) /\ mosaic xoprob (fst xi) (snd xi) (snd ind)
  | DH x => exists xi, realises x xi /\ mosaic xoprob (fst xi) (snd xi) (fst ind) /\ snd ind = fst ind
  end.

Definition pop_real (ts : list ped) (c0 c1 : list (list Z)) : Prop := Forall3 (fun t a b => realises t (a, b)) ts c0 c1.
Definition src_pop (g : list (list (list Z))) (ts : list ped) (sel : list nat) : Prop :=
  Forall2 (fun t s => realises t (indiv g s)) ts sel.
Definition mos (g : list (list (list Z))) (s : nat) (gam : list Z) : Prop := mosaic xoprob (row g 0 s) (row g 1 s) gam.

Lemma F3_length {A B C} (R : A -> B -> C -> Prop) la lb lc : Forall3 R la lb lc -> length lb = length la /\ length lc = length la.
Proof. induction 1; cbn; [split; reflexivity | lia]. Qed.

Lemma src_founders sel : src_pop geno0 (map Founder sel) sel.
Proof. induction sel; cbn; constructor; [reflexivity | assumption]. Qed.

Lemma src_repeat_by g ts sel : src_pop g ts sel -> forall cs, src_pop g (repeat_by ts cs) (repeat_by sel cs).
Proof.
  induction 1 as [|t s ts sel H1 H2 IH]; intros cs; [destruct cs; constructor|].
  destruct cs as [|c cs]; [constructor|]. cbn [repeat_by]. apply Forall2_app; [|apply IH].
  induction c; cbn; constructor; assumption.
Qed.

Lemma pop_src_gen ts c0 c1 : pop_real ts c0 c1 -> forall p0 p1, length p0 = length p1 ->
  src_pop [p0 ++ c0; p1 ++ c1] ts (seq (length p0) (length c0)).
Proof.
  induction 1 as [|t a b ts la lb H1 H2 IH]; intros p0 p1 HL; cbn [length seq]; constructor.
  - unfold indiv, row. cbn [nth]. rewrite app_nth2 by lia. rewrite Nat.sub_diag. cbn [nth].
    rewrite HL at 1. rewrite app_nth2 by lia. rewrite Nat.sub_diag. exact H1.
  - specialize (IH (p0 ++ [a]) (p1 ++ [b])). rewrite <- !app_assoc in IH. cbn [app] in IH.
    rewrite app_length in IH. cbn [length] in IH. replace (length p0 + 1)%nat with (S (length p0)) in IH by lia.
    apply IH. rewrite !app_length. cbn. lia.
Qed.
Lemma pop_src ts c0 c1 : pop_real ts c0 c1 -> src_pop [c0; c1] ts (seq 0 (length c0)).
Proof. intros H. exact (pop_src_gen ts c0 c1 H [] [] eq_refl). Qed.

Lemma cross_F3 fgeno mgeno tf fsel : src_pop fgeno tf fsel -> forall tm msel fg mg, src_pop mgeno tm msel ->
  Forall2 (mos fgeno) fsel fg -> Forall2 (mos mgeno) msel mg -> length tf = length tm ->
  pop_real (map2 Cross tf tm) fg mg.
Proof.
  induction 1 as [|t s tf fsel H1 H2 IH]; intros tm msel fg mg Hm Hf Hg HL.
  - destruct tm; [|discriminate]. inversion Hm; subst. inversion Hf; subst. inversion Hg; subst. constructor.
  - destruct tm as [|t' tm]; [discriminate|]. inversion Hm as [|? s' ? msel' M1 M2]; subst.
    inversion Hf as [|? a ? fg' A1 A2]; subst. inversion Hg as [|? b ? mg' B1 B2]; subst.
    cbn [map2]. constructor.
    + cbn [realises]. exists (indiv fgeno s), (indiv mgeno s'). cbn [fst snd]. repeat split; assumption.
    + eapply IH; eauto.
Qed.

Lemma self_F3 g ts sel : src_pop g ts sel -> forall fg mg, Forall2 (mos g) sel fg -> Forall2 (mos g) sel mg ->
  pop_real (map Self ts) fg mg.
Proof.
  induction 1 as [|t s ts sel H1 H2 IH]; intros fg mg Hf Hg.
  - inversion Hf; subst. inversion Hg; subst. constructor.
  - inversion Hf as [|? a ? fg' A1 A2]; subst. inversion Hg as [|? b ? mg' B1 B2]; subst. cbn [map]. constructor.
    + cbn [realises]. exists (indiv g s). cbn [fst snd]. repeat split; assumption.
    + apply IH; assumption.
Qed.

Lemma dh_F3 g ts sel : src_pop g ts sel -> forall gm, Forall2 (mos g) sel gm -> pop_real (map DH ts) gm gm.
Proof.
  induction 1 as [|t s ts sel H1 H2 IH]; intros gm Hg.
  - inversion Hg; subst. constructor.
  - inversion Hg as [|? a ? gm' A1 A2]; subst. cbn [map]. constructor.
    + cbn [realises]. exists (indiv g s). cbn [fst snd]. repeat split; assumption.
    + apply IH; assumption.
Qed.

(** ** one call of mat_mate / mat_dh *)
Lemma mat_mate_real fgeno mgeno tf tm fsel msel r :
  src_pop fgeno tf fsel -> src_pop mgeno tm msel -> length tf = length tm -> nonneg_draws (pending r) ->
  exists c0 c1 r', mat_mate fgeno mgeno fsel msel xoprob r = ([c0; c1], r') /\
                   pop_real (map2 Cross tf tm) c0 c1 /\ nonneg_draws (pending r').
Proof.
  intros Hf Hm HL Hn. unfold mat_mate, mat_meiosis. cbn [pending reqs]. eexists _, _, _. split; [reflexivity|]. split.
  - eapply cross_F3; eauto; apply meiosis_rows_mosaic.
    + apply nonneg_draws_hd, Hn.
    + apply nonneg_draws_hd, nonneg_draws_tl, Hn.
  - cbn [pending]. apply nonneg_draws_tl, nonneg_draws_tl, Hn.
Qed.

Lemma mat_self_real g ts sel r : src_pop g ts sel -> nonneg_draws (pending r) ->
  exists c0 c1 r', mat_mate g g sel sel xoprob r = ([c0; c1], r') /\
                   pop_real (map Self ts) c0 c1 /\ nonneg_draws (pending r').
Proof.
  intros Hs Hn. unfold mat_mate, mat_meiosis. cbn [pending reqs]. eexists _, _, _. split; [reflexivity|]. split.
  - eapply self_F3; eauto; apply meiosis_rows_mosaic.
    + apply nonneg_draws_hd, Hn.
    + apply nonneg_draws_hd, nonneg_draws_tl, Hn.
  - cbn [pending]. apply nonneg_draws_tl, nonneg_draws_tl, Hn.
Qed.

Lemma mat_dh_real g ts sel r : src_pop g ts sel -> nonneg_draws (pending r) ->
  exists c r', mat_dh g sel xoprob r = ([c; c], r') /\ pop_real (map DH ts) c c /\ nonneg_draws (pending r').
Proof.
  intros Hs Hn. unfold mat_dh, mat_meiosis. cbn [pending reqs]. eexists _, _. split; [reflexivity|]. split.
  - eapply dh_F3; eauto. apply meiosis_rows_mosaic, nonneg_draws_hd, Hn.
  - cbn [pending]. apply nonneg_draws_tl, Hn.
Qed.

(** ** the selfing loop *)
Lemma selfn_real k : forall ts c0 c1 r, pop_real ts c0 c1 -> nonneg_draws (pending r) ->
  exists c0' c1' r', selfn k (seq 0 (length c0)) [c0; c1] xoprob r = ([c0'; c1'], r') /\
                     pop_real (map (selfs k) ts) c0' c1' /\ nonneg_draws (pending r').
Proof.
  induction k as [|k IH]; intros ts c0 c1 r Hp Hn.
  - exists c0, c1, r. cbn [selfn]. split; [reflexivity|]. split; [|exact Hn].
    unfold selfs. cbn [Nat.iter]. now rewrite map_id.
  - cbn [selfn]. destruct (mat_self_real [c0; c1] ts (seq 0 (length c0)) r (pop_src _ _ _ Hp) Hn) as (d0 & d1 & r1 & E & Hp1 & Hn1).
    rewrite E. assert (L : length d0 = length c0).
    { destruct (F3_length _ _ _ _ Hp1) as [A _]. destruct (F3_length _ _ _ _ Hp) as [B _]. rewrite map_length in A. lia. }
    rewrite <- L. destruct (IH _ _ _ _ Hp1 Hn1) as (e0 & e1 & r2 & E2 & Hp2 & Hn2).
    exists e0, e1, r2. split; [exact E2|]. split; [|exact Hn2].
    rewrite map_map in Hp2. erewrite map_ext; [exact Hp2|]. intros t. unfold selfs. now rewrite iter_succ_r.
Qed.

End Real.

(** * list algebra of the numpy.repeat patterns *)
Lemma repeat_by_map {A B} (f : A -> B) xs : forall cs, repeat_by (map f xs) cs = map f (repeat_by xs cs).
Proof.
  induction xs as [|x xs IH]; intros [|c cs]; cbn; try reflexivity.
  rewrite map_app, IH. f_equal. induction c; cbn; [reflexivity | now f_equal].
Qed.

Lemma repeat_by_app {A} (a b : list A) ca cb : length a = length ca ->
  repeat_by (a ++ b) (ca ++ cb) = repeat_by a ca ++ repeat_by b cb.
Proof.
  revert ca; induction a as [|x a IH]; intros [|c ca] H; cbn in *; try discriminate; [reflexivity|].
  rewrite IH by lia. now rewrite app_assoc.
Qed.

Lemma repeat_by_repeat {A} (x : A) (b : nat) a : repeat_by (repeat x a) (repeat b a) = repeat x (a * b).
Proof. induction a as [|a IH]; cbn; [reflexivity|]. now rewrite IH, repeat_app. Qed.

Lemma repeat_by_length {A} (xs : list A) : forall cs, length xs = length cs -> length (repeat_by xs cs) = sumn cs.
Proof.
  induction xs as [|x xs IH]; intros [|c cs] H; cbn in *; try discriminate; [reflexivity|].
  rewrite app_length, repeat_length, IH by lia. reflexivity.
Qed.

(** numpy.repeat(numpy.repeat(xs, nmating), numpy.repeat(nprogeny, nmating)) = numpy.repeat(xs, nmating * nprogeny) *)
Lemma repeat_by_nested {A} (xs : list A) : forall nm np, length nm = length xs -> length np = length xs ->
  repeat_by (repeat_by xs nm) (repeat_by np nm) = repeat_by xs (map2 Nat.mul nm np).
Proof.
  induction xs as [|x xs IH]; intros [|a nm] [|b np] H1 H2; cbn in *; try discriminate; try reflexivity.
  rewrite repeat_by_app by now rewrite !repeat_length. rewrite repeat_by_repeat, IH by lia. reflexivity.
Qed.

Lemma map2_map_same {A B C D} (f : B -> C -> D) (g : A -> B) (h : A -> C) l :
  map2 f (map g l) (map h l) = map (fun x => f (g x) (h x)) l.
Proof. induction l; cbn; [reflexivity | now f_equal]. Qed.

Lemma list_map_seq {A} (d : A) (l : list A) : l = map (fun i => nth i l d) (seq 0 (length l)).
Proof.
  induction l as [|a l IH]; [reflexivity|]. cbn [length seq map nth]. f_equal.
  rewrite <- seq_shift, map_map. exact IH.
Qed.

Lemma colx_seq k xc : colx k xc = map (fun i => nth k (nth i xc []) 0%nat) (seq 0 (length xc)).
Proof. unfold colx. rewrite (list_map_seq [] xc) at 1. now rewrite map_map. Qed.

Lemma arangeZ_seq fc n : arangeZ fc n = map (fun i => fc + Z.of_nat i) (seq 0 n).
Proof. reflexivity. Qed.

Lemma sumn_repeat b a : sumn (repeat b a) = (a * b)%nat.
Proof. induction a as [|a IH]; [reflexivity|]. change (sumn (repeat b (S a))) with (b + sumn (repeat b a))%nat. now rewrite IH. Qed.

(** selection arrays of the first generation, as functions of the cross index *)
Lemma sel_tot k xc nm np : repeat_by (colx k xc) (map2 Nat.mul nm np) = map (fun i => nth k (nth i xc []) 0%nat) (who xc nm np).
Proof. unfold who. now rewrite colx_seq, repeat_by_map. Qed.

Lemma who_nested xc nm np : length nm = length xc -> length np = length xc ->
  repeat_by (repeat_by (seq 0 (length xc)) nm) (repeat_by np nm) = who xc nm np.
Proof. intros H1 H2. unfold who. apply repeat_by_nested; now rewrite seq_length. Qed.

Lemma who_length xc nm np : length nm = length xc -> length np = length xc -> length (who xc nm np) = sumn (map2 Nat.mul nm np).
Proof. intros H1 H2. unfold who. apply repeat_by_length. rewrite seq_length, map2_length. lia. Qed.

(** * the seven protocols realise the designated pedigrees *)

Definition xcol (xc : list (list nat)) (k i : nat) : nat := nth k (nth i xc []) 0%nat.
Definition who1 (xc : list (list nat)) (nm : list nat) : list nat := repeat_by (seq 0 (length xc)) nm.

Lemma sel_tot' k xc nm np : repeat_by (colx k xc) (map2 Nat.mul nm np) = map (xcol xc k) (who xc nm np).
Proof. apply sel_tot. Qed.
Lemma sel_nm k xc nm : repeat_by (colx k xc) nm = map (xcol xc k) (who1 xc nm).
Proof. unfold who1. now rewrite colx_seq, repeat_by_map. Qed.
Lemma who1_nested xc nm np : length nm = length xc -> length np = length xc ->
  repeat_by (who1 xc nm) (repeat_by np nm) = who xc nm np.
Proof. apply who_nested. Qed.

Ltac norm := repeat (rewrite map_map || rewrite map2_map_same || rewrite repeat_by_map || rewrite who1_nested by assumption).
Ltac norm_in H := repeat (rewrite map_map in H || rewrite map2_map_same in H || rewrite repeat_by_map in H || rewrite who1_nested in H by assumption).

Lemma core_real p geno0 xoprob xc nm np nself r : length nm = length xc -> length np = length xc -> nonneg_draws (pending r) ->
  exists c0 c1 r', core p geno0 xoprob xc nm np nself r = ([c0; c1], r') /\
    pop_real geno0 xoprob (map (fun i => designated p (nth i xc []) nself) (who xc nm np)) c0 c1 /\
    (is_dh p = true -> c0 = c1).
Proof.
  intros H1 H2 Hn. destruct p; unfold core; rewrite ?sel_tot', ?sel_nm.
  - (* SelfCross *)
    destruct (mat_self_real geno0 xoprob geno0 _ _ r (src_founders geno0 xoprob (map (xcol xc 0) (who xc nm np))) Hn) as (h0 & h1 & r1 & E & Hp & Hn1).
    rewrite E. change (ntaxa_of [h0; h1]) with (length h0).
    destruct (selfn_real geno0 xoprob nself _ _ _ r1 Hp Hn1) as (c0 & c1 & r2 & E2 & Hp2 & Hn2).
    exists c0, c1, r2. split; [exact E2|]. split; [|discriminate]. norm_in Hp2. exact Hp2.
  - (* TwoWayCross *)
    destruct (mat_mate_real geno0 xoprob geno0 geno0 _ _ _ _ r (src_founders geno0 xoprob (map (xcol xc 0) (who xc nm np)))
                (src_founders geno0 xoprob (map (xcol xc 1) (who xc nm np)))) as (h0 & h1 & r1 & E & Hp & Hn1);
      [now rewrite !map_length | exact Hn |].
    rewrite E. change (ntaxa_of [h0; h1]) with (length h0).
    destruct (selfn_real geno0 xoprob nself _ _ _ r1 Hp Hn1) as (c0 & c1 & r2 & E2 & Hp2 & Hn2).
    exists c0, c1, r2. split; [exact E2|]. split; [|discriminate]. norm_in Hp2. exact Hp2.
  - (* TwoWayDHCross *)
    destruct (mat_mate_real geno0 xoprob geno0 geno0 _ _ _ _ r (src_founders geno0 xoprob (map (xcol xc 0) (who1 xc nm)))
                (src_founders geno0 xoprob (map (xcol xc 1) (who1 xc nm)))) as (h0 & h1 & r1 & E & Hp & Hn1);
      [now rewrite !map_length | exact Hn |].
    rewrite E. change (ntaxa_of [h0; h1]) with (length h0).
    destruct (selfn_real geno0 xoprob nself _ _ _ r1 Hp Hn1) as (c0 & c1 & r2 & E2 & Hp2 & Hn2).
    rewrite E2. change (ntaxa_of [c0; c1]) with (length c0).
    destruct (mat_dh_real geno0 xoprob [c0; c1] _ _ r2 (src_repeat_by geno0 xoprob _ _ _ (pop_src geno0 xoprob _ _ _ Hp2) (repeat_by np nm)) Hn2)
      as (c & r3 & E3 & Hp3 & Hn3).
    exists c, c, r3. split; [exact E3|]. split; [|reflexivity]. norm_in Hp3. exact Hp3.
  - (* ThreeWayCross *)
    destruct (mat_mate_real geno0 xoprob geno0 geno0 _ _ _ _ r (src_founders geno0 xoprob (map (xcol xc 1) (who1 xc nm)))
                (src_founders geno0 xoprob (map (xcol xc 2) (who1 xc nm)))) as (f0 & f1 & r1 & E & Hp & Hn1);
      [now rewrite !map_length | exact Hn |].
    rewrite E. change (ntaxa_of [f0; f1]) with (length f0).
    pose proof (src_repeat_by geno0 xoprob _ _ _ (pop_src geno0 xoprob _ _ _ Hp) (repeat_by np nm)) as Hs. norm_in Hs.
    destruct (mat_mate_real geno0 xoprob geno0 [f0; f1] _ _ _ _ r1 (src_founders geno0 xoprob (map (xcol xc 0) (who xc nm np))) Hs)
      as (h0 & h1 & r2 & E2 & Hp2 & Hn2); [now rewrite !map_length | exact Hn1 |].
    rewrite E2. change (ntaxa_of [h0; h1]) with (length h0).
    destruct (selfn_real geno0 xoprob nself _ _ _ r2 Hp2 Hn2) as (c0 & c1 & r3 & E3 & Hp3 & Hn3).
    exists c0, c1, r3. split; [exact E3|]. split; [|discriminate]. norm_in Hp3. exact Hp3.
  - (* ThreeWayDHCross *)
    destruct (mat_mate_real geno0 xoprob geno0 geno0 _ _ _ _ r (src_founders geno0 xoprob (map (xcol xc 1) (who1 xc nm)))
                (src_founders geno0 xoprob (map (xcol xc 2) (who1 xc nm)))) as (f0 & f1 & r1 & E & Hp & Hn1);
      [now rewrite !map_length | exact Hn |].
    rewrite E. change (ntaxa_of [f0; f1]) with (length f0).
    pose proof (pop_src geno0 xoprob _ _ _ Hp) as Hs. norm_in Hs.
    destruct (mat_mate_real geno0 xoprob geno0 [f0; f1] _ _ _ _ r1 (src_founders geno0 xoprob (map (xcol xc 0) (who1 xc nm))) Hs)
      as (b0 & b1 & r2 & E2 & Hp2 & Hn2); [now rewrite !map_length | exact Hn1 |].
    rewrite E2. change (ntaxa_of [b0; b1]) with (length b0).
    destruct (selfn_real geno0 xoprob nself _ _ _ r2 Hp2 Hn2) as (c0 & c1 & r3 & E3 & Hp3 & Hn3).
    rewrite E3. change (ntaxa_of [c0; c1]) with (length c0).
    destruct (mat_dh_real geno0 xoprob [c0; c1] _ _ r3 (src_repeat_by geno0 xoprob _ _ _ (pop_src geno0 xoprob _ _ _ Hp3) (repeat_by np nm)) Hn3)
      as (c & r4 & E4 & Hp4 & Hn4).
    exists c, c, r4. split; [exact E4|]. split; [|reflexivity]. norm_in Hp4. exact Hp4.
  - (* FourWayCross *)
    destruct (mat_mate_real geno0 xoprob geno0 geno0 _ _ _ _ r (src_founders geno0 xoprob (map (xcol xc 2) (who1 xc nm)))
                (src_founders geno0 xoprob (map (xcol xc 3) (who1 xc nm)))) as (a0 & a1 & r1 & E & Hpa & Hn1);
      [now rewrite !map_length | exact Hn |].
    rewrite E.
    destruct (mat_mate_real geno0 xoprob geno0 geno0 _ _ _ _ r1 (src_founders geno0 xoprob (map (xcol xc 0) (who1 xc nm)))
                (src_founders geno0 xoprob (map (xcol xc 1) (who1 xc nm)))) as (d0 & d1 & r2 & E2 & Hpd & Hn2);
      [now rewrite !map_length | exact Hn1 |].
    rewrite E2. change (ntaxa_of [a0; a1]) with (length a0). change (ntaxa_of [d0; d1]) with (length d0).
    pose proof (src_repeat_by geno0 xoprob _ _ _ (pop_src geno0 xoprob _ _ _ Hpa) (repeat_by np nm)) as Hsa. norm_in Hsa.
    pose proof (src_repeat_by geno0 xoprob _ _ _ (pop_src geno0 xoprob _ _ _ Hpd) (repeat_by np nm)) as Hsd. norm_in Hsd.
    destruct (mat_mate_real geno0 xoprob [a0; a1] [d0; d1] _ _ _ _ r2 Hsa Hsd) as (h0 & h1 & r3 & E3 & Hp3 & Hn3);
      [now rewrite !map_length | exact Hn2 |].
    rewrite E3. change (ntaxa_of [h0; h1]) with (length h0).
    destruct (selfn_real geno0 xoprob nself _ _ _ r3 Hp3 Hn3) as (c0 & c1 & r4 & E4 & Hp4 & Hn4).
    exists c0, c1, r4. split; [exact E4|]. split; [|discriminate]. norm_in Hp4. exact Hp4.
  - (* FourWayDHCross *)
    destruct (mat_mate_real geno0 xoprob geno0 geno0 _ _ _ _ r (src_founders geno0 xoprob (map (xcol xc 2) (who1 xc nm)))
                (src_founders geno0 xoprob (map (xcol xc 3) (who1 xc nm)))) as (a0 & a1 & r1 & E & Hpa & Hn1);
      [now rewrite !map_length | exact Hn |].
    rewrite E.
    destruct (mat_mate_real geno0 xoprob geno0 geno0 _ _ _ _ r1 (src_founders geno0 xoprob (map (xcol xc 0) (who1 xc nm)))
                (src_founders geno0 xoprob (map (xcol xc 1) (who1 xc nm)))) as (d0 & d1 & r2 & E2 & Hpd & Hn2);
      [now rewrite !map_length | exact Hn1 |].
    rewrite E2. change (ntaxa_of [a0; a1]) with (length a0). change (ntaxa_of [d0; d1]) with (length d0).
    pose proof (pop_src geno0 xoprob _ _ _ Hpa) as Hsa. norm_in Hsa.
    pose proof (pop_src geno0 xoprob _ _ _ Hpd) as Hsd. norm_in Hsd.
    destruct (mat_mate_real geno0 xoprob [a0; a1] [d0; d1] _ _ _ _ r2 Hsa Hsd) as (h0 & h1 & r3 & E3 & Hp3 & Hn3);
      [now rewrite !map_length | exact Hn2 |].
    rewrite E3. change (ntaxa_of [h0; h1]) with (length h0).
    destruct (selfn_real geno0 xoprob nself _ _ _ r3 Hp3 Hn3) as (c0 & c1 & r4 & E4 & Hp4 & Hn4).
    rewrite E4. change (ntaxa_of [c0; c1]) with (length c0).
    destruct (mat_dh_real geno0 xoprob [c0; c1] _ _ r4 (src_repeat_by geno0 xoprob _ _ _ (pop_src geno0 xoprob _ _ _ Hp4) (repeat_by np nm)) Hn4)
      as (c & r5 & E5 & Hp5 & Hn5).
    exists c, c, r5. split; [exact E5|]. split; [|reflexivity]. norm_in Hp5. exact Hp5.
Qed.


(** * shapes (independent of the draws) *)
Lemma mat_mate_shape fg mg fs ms xo r : exists c0 c1 r', mat_mate fg mg fs ms xo r = ([c0; c1], r') /\ length c0 = length fs /\ length c1 = length ms.
Proof. unfold mat_mate, mat_meiosis. eexists _, _, _. split; [reflexivity|]. now rewrite !meiosis_rows_length. Qed.
Lemma mat_dh_shape g s xo r : exists c r', mat_dh g s xo r = ([c; c], r') /\ length c = length s.
Proof. unfold mat_dh, mat_meiosis. eexists _, _. split; [reflexivity|]. now rewrite meiosis_rows_length. Qed.
Lemma selfn_shape xo k : forall c0 c1 r, length c1 = length c0 ->
  exists c0' c1' r', selfn k (seq 0 (length c0)) [c0; c1] xo r = ([c0'; c1'], r') /\ length c0' = length c0 /\ length c1' = length c0.
Proof.
  induction k as [|k IH]; intros c0 c1 r HL; [exists c0, c1, r; cbn; auto|]. cbn [selfn].
  destruct (mat_mate_shape [c0; c1] [c0; c1] (seq 0 (length c0)) (seq 0 (length c0)) xo r) as (d0 & d1 & r1 & E & L0 & L1).
  rewrite E. rewrite seq_length in L0, L1. rewrite <- L0. destruct (IH d0 d1 r1 ltac:(lia)) as (e0 & e1 & r2 & E2 & M0 & M1).
  exists e0, e1, r2. split; [exact E2 | lia].
Qed.

Lemma len_rb_seq {A} (L : list A) cs : length (repeat_by (seq 0 (length L)) cs) = length (repeat_by L cs).
Proof.
  destruct L as [|d L']; [reflexivity|]. set (L := d :: L'). rewrite (list_map_seq d L) at 2. now rewrite repeat_by_map, map_length.
Qed.

Lemma core_shape p geno xoprob xc nm np nself r : length nm = length xc -> length np = length xc ->
  exists c0 c1 r', core p geno xoprob xc nm np nself r = ([c0; c1], r') /\
    length c0 = length (who xc nm np) /\ length c1 = length (who xc nm np) /\ (is_dh p = true -> c0 = c1).
Proof.
  intros H1 H2.
  assert (W : forall n, n = length (who1 xc nm) -> length (repeat_by (seq 0 n) (repeat_by np nm)) = length (who xc nm np)).
  { intros n ->. rewrite len_rb_seq. now rewrite who1_nested. }
  destruct p; unfold core; rewrite ?sel_tot', ?sel_nm.
  - destruct (mat_mate_shape geno geno (map (xcol xc 0) (who xc nm np)) (map (xcol xc 0) (who xc nm np)) xoprob r) as (h0 & h1 & r1 & E & L0 & L1).
    rewrite E. change (ntaxa_of [h0; h1]) with (length h0). rewrite map_length in L0, L1.
    destruct (selfn_shape xoprob nself h0 h1 r1 ltac:(lia)) as (c0 & c1 & r2 & E2 & M0 & M1).
    exists c0, c1, r2. split; [exact E2|]. repeat split; try lia. discriminate.
  - destruct (mat_mate_shape geno geno (map (xcol xc 0) (who xc nm np)) (map (xcol xc 1) (who xc nm np)) xoprob r) as (h0 & h1 & r1 & E & L0 & L1).
    rewrite E. change (ntaxa_of [h0; h1]) with (length h0). rewrite map_length in L0, L1.
    destruct (selfn_shape xoprob nself h0 h1 r1 ltac:(lia)) as (c0 & c1 & r2 & E2 & M0 & M1).
    exists c0, c1, r2. split; [exact E2|]. repeat split; try lia. discriminate.
  - destruct (mat_mate_shape geno geno (map (xcol xc 0) (who1 xc nm)) (map (xcol xc 1) (who1 xc nm)) xoprob r) as (h0 & h1 & r1 & E & L0 & L1).
    rewrite E. change (ntaxa_of [h0; h1]) with (length h0). rewrite map_length in L0, L1.
    destruct (selfn_shape xoprob nself h0 h1 r1 ltac:(lia)) as (c0 & c1 & r2 & E2 & M0 & M1).
    rewrite E2. change (ntaxa_of [c0; c1]) with (length c0).
    destruct (mat_dh_shape [c0; c1] (repeat_by (seq 0 (length c0)) (repeat_by np nm)) xoprob r2) as (c & r3 & E3 & L3).
    exists c, c, r3. split; [exact E3|]. rewrite W in L3 by lia. auto.
  - destruct (mat_mate_shape geno geno (map (xcol xc 1) (who1 xc nm)) (map (xcol xc 2) (who1 xc nm)) xoprob r) as (f0 & f1 & r1 & E & L0 & L1).
    rewrite E. change (ntaxa_of [f0; f1]) with (length f0). rewrite map_length in L0, L1.
    destruct (mat_mate_shape geno [f0; f1] (map (xcol xc 0) (who xc nm np)) (repeat_by (seq 0 (length f0)) (repeat_by np nm)) xoprob r1) as (h0 & h1 & r2 & E2 & K0 & K1).
    rewrite E2. change (ntaxa_of [h0; h1]) with (length h0). rewrite map_length in K0. rewrite W in K1 by lia.
    destruct (selfn_shape xoprob nself h0 h1 r2 ltac:(lia)) as (c0 & c1 & r3 & E3 & M0 & M1).
    exists c0, c1, r3. split; [exact E3|]. repeat split; try lia. discriminate.
  - destruct (mat_mate_shape geno geno (map (xcol xc 1) (who1 xc nm)) (map (xcol xc 2) (who1 xc nm)) xoprob r) as (f0 & f1 & r1 & E & L0 & L1).
    rewrite E. change (ntaxa_of [f0; f1]) with (length f0). rewrite map_length in L0, L1.
    destruct (mat_mate_shape geno [f0; f1] (map (xcol xc 0) (who1 xc nm)) (seq 0 (length f0)) xoprob r1) as (b0 & b1 & r2 & E2 & K0 & K1).
    rewrite E2. change (ntaxa_of [b0; b1]) with (length b0). rewrite map_length in K0. rewrite seq_length in K1.
    destruct (selfn_shape xoprob nself b0 b1 r2 ltac:(lia)) as (c0 & c1 & r3 & E3 & M0 & M1).
    rewrite E3. change (ntaxa_of [c0; c1]) with (length c0).
    destruct (mat_dh_shape [c0; c1] (repeat_by (seq 0 (length c0)) (repeat_by np nm)) xoprob r3) as (c & r4 & E4 & L4).
    exists c, c, r4. split; [exact E4|]. rewrite W in L4 by lia. auto.
  - destruct (mat_mate_shape geno geno (map (xcol xc 2) (who1 xc nm)) (map (xcol xc 3) (who1 xc nm)) xoprob r) as (a0 & a1 & r1 & E & L0 & L1).
    rewrite E.
    destruct (mat_mate_shape geno geno (map (xcol xc 0) (who1 xc nm)) (map (xcol xc 1) (who1 xc nm)) xoprob r1) as (d0 & d1 & r2 & E2 & K0 & K1).
    rewrite E2. change (ntaxa_of [a0; a1]) with (length a0). change (ntaxa_of [d0; d1]) with (length d0). rewrite map_length in L0, L1, K0, K1.
    destruct (mat_mate_shape [a0; a1] [d0; d1] (repeat_by (seq 0 (length a0)) (repeat_by np nm)) (repeat_by (seq 0 (length d0)) (repeat_by np nm)) xoprob r2)
      as (h0 & h1 & r3 & E3 & J0 & J1).
    rewrite E3. change (ntaxa_of [h0; h1]) with (length h0). rewrite W in J0, J1 by lia.
    destruct (selfn_shape xoprob nself h0 h1 r3 ltac:(lia)) as (c0 & c1 & r4 & E4 & M0 & M1).
    exists c0, c1, r4. split; [exact E4|]. repeat split; try lia. discriminate.
  - destruct (mat_mate_shape geno geno (map (xcol xc 2) (who1 xc nm)) (map (xcol xc 3) (who1 xc nm)) xoprob r) as (a0 & a1 & r1 & E & L0 & L1).
    rewrite E.
    destruct (mat_mate_shape geno geno (map (xcol xc 0) (who1 xc nm)) (map (xcol xc 1) (who1 xc nm)) xoprob r1) as (d0 & d1 & r2 & E2 & K0 & K1).
    rewrite E2. change (ntaxa_of [a0; a1]) with (length a0). change (ntaxa_of [d0; d1]) with (length d0). rewrite map_length in L0, L1, K0, K1.
    destruct (mat_mate_shape [a0; a1] [d0; d1] (seq 0 (length a0)) (seq 0 (length d0)) xoprob r2) as (h0 & h1 & r3 & E3 & J0 & J1).
    rewrite E3. change (ntaxa_of [h0; h1]) with (length h0). rewrite seq_length in J0, J1.
    destruct (selfn_shape xoprob nself h0 h1 r3 ltac:(lia)) as (c0 & c1 & r4 & E4 & M0 & M1).
    rewrite E4. change (ntaxa_of [c0; c1]) with (length c0).
    destruct (mat_dh_shape [c0; c1] (repeat_by (seq 0 (length c0)) (repeat_by np nm)) xoprob r4) as (c & r5 & E5 & L5).
    exists c, c, r5. split; [exact E5|]. rewrite W in L5 by lia. auto.
Qed.

(** * family labels *)
Lemma family_labels_spec p fc xc nm np : length nm = length xc -> length np = length xc ->
  family_labels p fc (length xc) nm np = map (fun i => fc + Z.of_nat i) (who xc nm np).
Proof.
  intros H1 H2. unfold who.
  assert (A : repeat_by (arangeZ fc (length xc)) (map2 Nat.mul nm np) = map (fun i => fc + Z.of_nat i) (repeat_by (seq 0 (length xc)) (map2 Nat.mul nm np)))
    by (now rewrite arangeZ_seq, repeat_by_map).
  assert (B : repeat_by (repeat_by (arangeZ fc (length xc)) nm) (repeat_by np nm) = map (fun i => fc + Z.of_nat i) (repeat_by (seq 0 (length xc)) (map2 Nat.mul nm np))).
  { rewrite arangeZ_seq, !repeat_by_map. f_equal. apply repeat_by_nested; now rewrite seq_length. }
  destruct p; unfold family_labels; assumption.
Qed.


(** * group_taxa: a stable insertion sort — a permutation of the entries, the identity on a sorted input *)
Lemma insert_perm x l : Permutation (insert_st x l) (x :: l).
Proof.
  induction l as [|y t IH]; cbn [insert_st]; [reflexivity|]. destruct (key_leb x y); [reflexivity|].
  rewrite IH. apply perm_swap.
Qed.
Lemma sort_perm l : Permutation (sort_st l) l.
Proof.
  induction l as [|x t IH]; [constructor|]. change (sort_st (x :: t)) with (insert_st x (sort_st t)).
  rewrite insert_perm. now constructor.
Qed.
Fixpoint is_sorted (l : list entry) : bool :=
  match l with
  | x :: t => match t with y :: _ => key_leb x y && is_sorted t | [] => true end
  | [] => true
  end.
Lemma sort_id l : is_sorted l = true -> sort_st l = l.
Proof.
  induction l as [|x t IH]; [reflexivity|]. intros H. change (sort_st (x :: t)) with (insert_st x (sort_st t)).
  destruct t as [|y t']; [reflexivity|]. cbn [is_sorted] in H. apply andb_prop in H as [H1 H2].
  rewrite (IH H2). cbn [insert_st]. now rewrite H1.
Qed.
Lemma sort_Forall (P : entry -> Prop) l : Forall P l -> Forall P (sort_st l).
Proof. intros H. eapply Permutation_Forall; [apply Permutation_sym, sort_perm | exact H]. Qed.
Lemma sort_length l : length (sort_st l) = length l.
Proof. apply Permutation_length, sort_perm. Qed.

Lemma zip4_length g : forall t c0 c1, length t = length g -> length c0 = length g -> length c1 = length g ->
  length (zip4 g t c0 c1) = length g.
Proof. induction g as [|a g IH]; intros [|b t] [|x c0] [|y c1]; cbn; intros; try discriminate; try reflexivity. f_equal. apply IH; lia. Qed.
Lemma zip4_unzip g : forall t c0 c1, length t = length g -> length c0 = length g -> length c1 = length g ->
  map (fun e : entry => fst (fst e)) (zip4 g t c0 c1) = g /\ map (fun e : entry => snd (fst e)) (zip4 g t c0 c1) = t /\
  map (fun e : entry => fst (snd e)) (zip4 g t c0 c1) = c0 /\ map (fun e : entry => snd (snd e)) (zip4 g t c0 c1) = c1.
Proof.
  induction g as [|a g IH]; intros [|b t] [|x c0] [|y c1]; cbn; intros; try discriminate; auto.
  destruct (IH t c0 c1) as (A & B & C & D); try lia. cbn. rewrite A, B, C, D. auto.
Qed.

(** numpy.unique on the sorted labels: the (name, length) table decodes back to the label vector *)
Lemma rle_decode l : concat (map (fun gc : Z * nat => repeat (fst gc) (snd gc)) (rle l)) = l.
Proof.
  induction l as [|x t IH]; [reflexivity|]. cbn [rle]. destruct (rle t) as [|[y c] r] eqn:E.
  - cbn in IH. subst t. reflexivity.
  - cbn [map concat fst snd] in IH. destruct (Z.eqb_spec x y) as [->|NE]; cbn [map concat fst snd repeat app]; now rewrite IH.
Qed.

(** * the whole call *)
Lemma expand_count_length c n l : expand_count c n = Some l -> length l = n.
Proof.
  destruct c as [k|l']; cbn; [intros [= <-]; apply repeat_length|]. destruct (Nat.eqb_spec (length l') n); [intros [= <-]; assumption | discriminate].
Qed.

Lemma mate_Some p geno xoprob meta xc nmating nprogeny nself pc fc draws x :
  mate p geno xoprob meta xc nmating nprogeny nself pc fc draws = Some x ->
  exists nm np, expand_count nmating (length xc) = Some nm /\ expand_count nprogeny (length xc) = Some np /\
    length nm = length xc /\ length np = length xc /\
    Forall (fun r => length r = nparent p) xc /\
    Forall (fun s => (s < ntaxa_of geno)%nat) (founder_sels p xc nm np) /\
    let raw := mate_raw p geno xoprob xc nm np nself pc fc (rng0 draws) in
    let g := group_taxa raw in
    p_mat x = p_mat g /\ p_taxa x = p_taxa g /\ p_grp x = p_grp g /\ p_gname x = p_gname g /\ p_gstix x = p_gstix g /\
    p_gspix x = p_gspix g /\ p_glen x = p_glen g /\ p_meta x = progeny_meta meta /\ p_pc x = p_pc raw /\ p_fc x = p_fc raw.
Proof.
  unfold mate. destruct (forallb (fun r => Nat.eqb (length r) (nparent p)) xc) eqn:W; cbn [negb]; [|discriminate].
  destruct (expand_count nmating (length xc)) as [nm|] eqn:E1; [|discriminate].
  destruct (expand_count nprogeny (length xc)) as [np|] eqn:E2; [|discriminate].
  destruct (forallb (fun s => Nat.ltb s (ntaxa_of geno)) (founder_sels p xc nm np)) eqn:V; cbn [negb]; [|discriminate].
  intros [= <-]. exists nm, np. repeat split; auto.
  - eapply expand_count_length; eauto.
  - eapply expand_count_length; eauto.
  - rewrite forallb_forall in W. apply Forall_forall. intros r Hr. now apply Nat.eqb_eq, W.
  - rewrite forallb_forall in V. apply Forall_forall. intros s Hs. now apply Nat.ltb_lt, V.
Qed.

Lemma mate_defined p geno xoprob meta xc nmating nprogeny nself pc fc draws nm np :
  Forall (fun r => length r = nparent p) xc -> expand_count nmating (length xc) = Some nm -> expand_count nprogeny (length xc) = Some np ->
  Forall (fun s => (s < ntaxa_of geno)%nat) (founder_sels p xc nm np) ->
  exists x, mate p geno xoprob meta xc nmating nprogeny nself pc fc draws = Some x.
Proof.
  intros W E1 E2 V. unfold mate.
  assert (W' : forallb (fun r => Nat.eqb (length r) (nparent p)) xc = true).
  { apply forallb_forall. intros r Hr. rewrite Forall_forall in W. now apply Nat.eqb_eq, W. }
  assert (V' : forallb (fun s => Nat.ltb s (ntaxa_of geno)) (founder_sels p xc nm np) = true).
  { apply forallb_forall. intros s Hs. rewrite Forall_forall in V. now apply Nat.ltb_lt, V. }
  rewrite W', E1, E2, V'. cbn [negb]. eexists. reflexivity.
Qed.

(** raw state: matrix, names, labels, counters *)
Lemma mate_raw_spec p geno xoprob xc nm np nself pc fc r : length nm = length xc -> length np = length xc ->
  let x := mate_raw p geno xoprob xc nm np nself pc fc r in
  let N := length (who xc nm np) in
  exists c0 c1, p_mat x = [c0; c1] /\ length c0 = N /\ length c1 = N /\ (is_dh p = true -> c0 = c1) /\
    p_taxa x = taxa_names (prefix p) pc N /\ p_grp x = map (fun i => fc + Z.of_nat i) (who xc nm np) /\
    p_pc x = pc + Z.of_nat N /\ p_fc x = fc + Z.of_nat (length xc) /\
    (nonneg_draws (pending r) -> pop_real geno xoprob (map (fun i => designated p (nth i xc []) nself) (who xc nm np)) c0 c1).
Proof.
  intros H1 H2 x N. subst x. unfold mate_raw.
  destruct (core_shape p geno xoprob xc nm np nself r H1 H2) as (c0 & c1 & r' & E & L0 & L1 & D).
  rewrite E. change (ntaxa_of [c0; c1]) with (length c0). cbn [p_mat p_taxa p_grp p_pc p_fc].
  exists c0, c1. rewrite L0, family_labels_spec by assumption. repeat split; auto.
  intros Hn. destruct (core_real p geno xoprob xc nm np nself r H1 H2 Hn) as (d0 & d1 & r2 & E' & Hp & _).
  rewrite E in E'. injection E' as <- <- <-. exact Hp.
Qed.
