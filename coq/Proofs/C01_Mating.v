(** C01 — lemmas about Model/C01_Mating.v: the pedigree specification, the invariant "population k realises
    pedigree list ts" through mat_mate / mat_dh / the selfing loop, the seven protocols, counts, labels, names,
    counters, doubled-haploid homozygosity, group_taxa. *)
From Coq Require Import Permutation.
From PV Require Import Lib.Common Model.C01_Meiosis Model.C01_Mating Proofs.C01_Meiosis.
Local Open Scope Z_scope.

(** * specification side (written independently of the protocol code) *)
(** who a progeny is: a founder (row index into pgmat), the offspring of a female and a male individual, the selfed
    offspring of one individual (both gametes from the *same* individual), the doubled haploid of an individual *)
Inductive ped := Founder (i : nat) | Cross (f m : ped) | Self (x : ped) | DH (x : ped).

Definition indiv (geno : list (list (list Z))) (s : nat) : list Z * list Z := (row geno 0 s, row geno 1 s).
Definition selfs (k : nat) (t : ped) : ped := Nat.iter k Self t.

(** the individual the cross configuration row designates, per protocol (docstrings of the seven classes) *)
Definition designated (p : protocol) (r : list nat) (nself : nat) : ped :=
  let F k := Founder (nth k r 0%nat) in
  match p with
  | PSelf => selfs nself (Self (F 0%nat))
  | P2 => selfs nself (Cross (F 0%nat) (F 1%nat))
  | P2DH => DH (selfs nself (Cross (F 0%nat) (F 1%nat)))
  | P3 => selfs nself (Cross (F 0%nat) (Cross (F 1%nat) (F 2%nat)))
  | P3DH => DH (selfs nself (Cross (F 0%nat) (Cross (F 1%nat) (F 2%nat))))
  | P4 => selfs nself (Cross (Cross (F 2%nat) (F 3%nat)) (Cross (F 0%nat) (F 1%nat)))
  | P4DH => DH (selfs nself (Cross (Cross (F 2%nat) (F 3%nat)) (Cross (F 0%nat) (F 1%nat))))
  end.
(** the cross (row of xconfig) progeny k belongs to: cross i contributes nmating_i * nprogeny_i consecutive progeny *)
Definition who (xc : list (list nat)) (nm np : list nat) : list nat :=
  repeat_by (seq 0 (length xc)) (map2 Nat.mul nm np).
Definition sumn (l : list nat) : nat := fold_right Nat.add 0%nat l.
(** founders named in a pedigree *)
Fixpoint founders (t : ped) : list nat :=
  match t with Founder i => [i] | Cross f m => founders f ++ founders m | Self x => founders x | DH x => founders x end.

Inductive Forall3 {A B C} (R : A -> B -> C -> Prop) : list A -> list B -> list C -> Prop :=
| F3_nil : Forall3 R [] [] []
| F3_cons a b c la lb lc : R a b c -> Forall3 R la lb lc -> Forall3 R (a :: la) (b :: lb) (c :: lc).

Lemma iter_succ_r {A} (f : A -> A) n x : Nat.iter (S n) f x = Nat.iter n f (f x).
Proof. induction n as [|n IH]; [reflexivity|]. change (f (Nat.iter (S n) f x) = f (Nat.iter n f (f x))). now rewrite IH. Qed.

Section Real.
Variable geno0 : list (list (list Z)).
Variable xoprob : list Q.

(** [realises t (c0, c1)]: the individual with chromosome copies c0, c1 has pedigree t: every copy is a mosaic of the two
    copies of the designated parent, which in turn realises its own pedigree *)
Fixpoint realises (t : ped) (ind : list Z * list Z) : Prop :=
  match t with
  | Founder i => ind = indiv geno0 i
  | Cross f m => exists fi mi, realises f fi /\ realises m mi /\
                   mosaic xoprob (fst fi) (snd fi) (fst ind) /\ mosaic xoprob (fst mi) (snd mi) (snd ind)
  | Self x => exists xi, realises x xi /\
                   mosaic xoprob (fst xi) (snd xi) (fst ind) /\ mosaic xoprob (fst xi) (snd xi) (snd ind)
  | DH x => exists xi, realises x xi /\ mosaic xoprob (fst xi) (snd xi) (fst ind) /\ snd ind = fst ind
  end.

Definition pop_real (ts : list ped) (c0 c1 : list (list Z)) : Prop := Forall3 (fun t a b => realises t (a, b)) ts c0 c1.
Definition src_pop (g : list (list (list Z))) (ts : list ped) (sel : list nat) : Prop :=
  Forall2 (fun t s => realises t (indiv g s)) ts sel.
Definition mos (g : list (list (list Z))) (s : nat) (gam : list Z) : Prop := mosaic xoprob (row g 0 s) (row g 1 s) gam.

Lemma F3_length {A B C} (R : A -> B -> C -> Prop) la lb lc : Forall3 R la lb lc -> length lb = length la /\ length lc = length la.
Proof. induction 1; cbn; [split; reflexivity | lia]. Qed.

Lemma src_founders sel : src_pop geno0 (map Founder sel) sel.
Proof. induction sel; cbn; constructor; [reflexivity | assumption]. Qed.

Lemma src_repeat_by g ts sel : src_pop g ts sel -> forall cs, src_pop g (repeat_by ts cs) (repeat_by sel cs).
Proof.
  induction 1 as [|t s ts sel H1 H2 IH]; intros cs; [destruct cs; constructor|].
  destruct cs as [|c cs]; [constructor|]. cbn [repeat_by]. apply Forall2_app; [|apply IH].
  induction c; cbn; constructor; assumption.
Qed.

Lemma pop_src_gen ts c0 c1 : pop_real ts c0 c1 -> forall p0 p1, length p0 = length p1 ->
  src_pop [p0 ++ c0; p1 ++ c1] ts (seq (length p0) (length c0)).
Proof.
  induction 1 as [|t a b ts la lb H1 H2 IH]; intros p0 p1 HL; cbn [length seq]; constructor.
  - unfold indiv, row. cbn [nth]. rewrite app_nth2 by lia. rewrite Nat.sub_diag. cbn [nth].
    rewrite HL at 1. rewrite app_nth2 by lia. rewrite Nat.sub_diag. exact H1.
  - specialize (IH (p0 ++ [a]) (p1 ++ [b])). rewrite <- !app_assoc in IH. cbn [app] in IH.
    rewrite app_length in IH. cbn [length] in IH. replace (length p0 + 1)%nat with (S (length p0)) in IH by lia.
    apply IH. rewrite !app_length. cbn. lia.
Qed.
Lemma pop_src ts c0 c1 : pop_real ts c0 c1 -> src_pop [c0; c1] ts (seq 0 (length c0)).
Proof. intros H. exact (pop_src_gen ts c0 c1 H [] [] eq_refl). Qed.

Lemma cross_F3 fgeno mgeno tf fsel : src_pop fgeno tf fsel -> forall tm msel fg mg, src_pop mgeno tm msel ->
  Forall2 (mos fgeno) fsel fg -> Forall2 (mos mgeno) msel mg -> length tf = length tm ->
  pop_real (map2 Cross tf tm) fg mg.
Proof.
  induction 1 as [|t s tf fsel H1 H2 IH]; intros tm msel fg mg Hm Hf Hg HL.
  - destruct tm; [|discriminate]. inversion Hm; subst. inversion Hf; subst. inversion Hg; subst. constructor.
  - destruct tm as [|t' tm]; [discriminate|]. inversion Hm as [|? s' ? msel' M1 M2]; subst.
    inversion Hf as [|? a ? fg' A1 A2]; subst. inversion Hg as [|? b ? mg' B1 B2]; subst.
    cbn [map2]. constructor.
    + cbn [realises]. exists (indiv fgeno s), (indiv mgeno s'). cbn [fst snd]. repeat split; assumption.
    + eapply IH; eauto.
Qed.

Lemma self_F3 g ts sel : src_pop g ts sel -> forall fg mg, Forall2 (mos g) sel fg -> Forall2 (mos g) sel mg ->
  pop_real (map Self ts) fg mg.
Proof.
  induction 1 as [|t s ts sel H1 H2 IH]; intros fg mg Hf Hg.
  - inversion Hf; subst. inversion Hg; subst. constructor.
  - inversion Hf as [|? a ? fg' A1 A2]; subst. inversion Hg as [|? b ? mg' B1 B2]; subst. cbn [map]. constructor.
    + cbn [realises]. exists (indiv g s). cbn [fst snd]. repeat split; assumption.
    + apply IH; assumption.
Qed.

Lemma dh_F3 g ts sel : src_pop g ts sel -> forall gm, Forall2 (mos g) sel gm -> pop_real (map DH ts) gm gm.
Proof.
  induction 1 as [|t s ts sel H1 H2 IH]; intros gm Hg.
  - inversion Hg; subst. constructor.
  - inversion Hg as [|? a ? gm' A1 A2]; subst. cbn [map]. constructor.
    + cbn [realises]. exists (indiv g s). cbn [fst snd]. repeat split; assumption.
    + apply IH; assumption.
Qed.

(** ** one call of mat_mate / mat_dh *)
Lemma mat_mate_real fgeno mgeno tf tm fsel msel r :
  src_pop fgeno tf fsel -> src_pop mgeno tm msel -> length tf = length tm -> nonneg_draws (pending r) ->
  exists c0 c1 r', mat_mate fgeno mgeno fsel msel xoprob r = ([c0; c1], r') /\
                   pop_real (map2 Cross tf tm) c0 c1 /\ nonneg_draws (pending r').
Proof.
  intros Hf Hm HL Hn. unfold mat_mate, mat_meiosis. cbn [pending reqs]. eexists _, _, _. split; [reflexivity|]. split.
  - eapply cross_F3; eauto; apply meiosis_rows_mosaic.
    + apply nonneg_draws_hd, Hn.
    + apply nonneg_draws_hd, nonneg_draws_tl, Hn.
  - cbn [pending]. apply nonneg_draws_tl, nonneg_draws_tl, Hn.
Qed.

Lemma mat_self_real g ts sel r : src_pop g ts sel -> nonneg_draws (pending r) ->
  exists c0 c1 r', mat_mate g g sel sel xoprob r = ([c0; c1], r') /\
                   pop_real (map Self ts) c0 c1 /\ nonneg_draws (pending r').
Proof.
  intros Hs Hn. unfold mat_mate, mat_meiosis. cbn [pending reqs]. eexists _, _, _. split; [reflexivity|]. split.
  - eapply self_F3; eauto; apply meiosis_rows_mosaic.
    + apply nonneg_draws_hd, Hn.
    + apply nonneg_draws_hd, nonneg_draws_tl, Hn.
  - cbn [pending]. apply nonneg_draws_tl, nonneg_draws_tl, Hn.
Qed.

Lemma mat_dh_real g ts sel r : src_pop g ts sel -> nonneg_draws (pending r) ->
  exists c r', mat_dh g sel xoprob r = ([c; c], r') /\ pop_real (map DH ts) c c /\ nonneg_draws (pending r').
Proof.
  intros Hs Hn. unfold mat_dh, mat_meiosis. cbn [pending reqs]. eexists _, _. split; [reflexivity|]. split.
  - eapply dh_F3; eauto. apply meiosis_rows_mosaic, nonneg_draws_hd, Hn.
  - cbn [pending]. apply nonneg_draws_tl, Hn.
Qed.

(** ** the selfing loop *)
Lemma selfn_real k : forall ts c0 c1 r, pop_real ts c0 c1 -> nonneg_draws (pending r) ->
  exists c0' c1' r', selfn k (seq 0 (length c0)) [c0; c1] xoprob r = ([c0'; c1'], r') /\
                     pop_real (map (selfs k) ts) c0' c1' /\ nonneg_draws (pending r').
Proof.
  induction k as [|k IH]; intros ts c0 c1 r Hp Hn.
  - exists c0, c1, r. cbn [selfn]. split; [reflexivity|]. split; [|exact Hn].
    unfold selfs. cbn [Nat.iter]. now rewrite map_id.
  - cbn [selfn]. destruct (mat_self_real [c0; c1] ts (seq 0 (length c0)) r (pop_src _ _ _ Hp) Hn) as (d0 & d1 & r1 & E & Hp1 & Hn1).
    rewrite E. assert (L : length d0 = length c0).
    { destruct (F3_length _ _ _ _ Hp1) as [A _]. destruct (F3_length _ _ _ _ Hp) as [B _]. rewrite map_length in A. lia. }
    rewrite <- L. destruct (IH _ _ _ _ Hp1 Hn1) as (e0 & e1 & r2 & E2 & Hp2 & Hn2).
    exists e0, e1, r2. split; [exact E2|]. split; [|exact Hn2].
    rewrite map_map in Hp2. erewrite map_ext; [exact Hp2|]. intros t. unfold selfs. now rewrite iter_succ_r.
Qed.

End Real.

(** * list algebra of the numpy.repeat patterns *)
Lemma repeat_by_map {A B} (f : A -> B) xs : forall cs, repeat_by (map f xs) cs = map f (repeat_by xs cs).
Proof.
  induction xs as [|x xs IH]; intros [|c cs]; cbn; try reflexivity.
  rewrite map_app, IH. f_equal. induction c; cbn; [reflexivity | now f_equal].
Qed.

Lemma repeat_by_app {A} (a b : list A) ca cb : length a = length ca ->
  repeat_by (a ++ b) (ca ++ cb) = repeat_by a ca ++ repeat_by b cb.
Proof.
  revert ca; induction a as [|x a IH]; intros [|c ca] H; cbn in *; try discriminate; [reflexivity|].
  rewrite IH by lia. now rewrite app_assoc.
Qed.

Lemma repeat_by_repeat {A} (x : A) (b : nat) a : repeat_by (repeat x a) (repeat b a) = repeat x (a * b).
Proof. induction a as [|a IH]; cbn; [reflexivity|]. now rewrite IH, repeat_app. Qed.

Lemma repeat_by_length {A} (xs : list A) : forall cs, length xs = length cs -> length (repeat_by xs cs) = sumn cs.
Proof.
  induction xs as [|x xs IH]; intros [|c cs] H; cbn in *; try discriminate; [reflexivity|].
  rewrite app_length, repeat_length, IH by lia. reflexivity.
Qed.

(** numpy.repeat(numpy.repeat(xs, nmating), numpy.repeat(nprogeny, nmating)) = numpy.repeat(xs, nmating * nprogeny) *)
Lemma repeat_by_nested {A} (xs : list A) : forall nm np, length nm = length xs -> length np = length xs ->
  repeat_by (repeat_by xs nm) (repeat_by np nm) = repeat_by xs (map2 Nat.mul nm np).
Proof.
  induction xs as [|x xs IH]; intros [|a nm] [|b np] H1 H2; cbn in *; try discriminate; try reflexivity.
  rewrite repeat_by_app by now rewrite !repeat_length. rewrite repeat_by_repeat, IH by lia. reflexivity.
Qed.

Lemma map2_map_same {A B C D} (f : B -> C -> D) (g : A -> B) (h : A -> C) l :
  map2 f (map g l) (map h l) = map (fun x => f (g x) (h x)) l.
Proof. induction l; cbn; [reflexivity | now f_equal]. Qed.

Lemma list_map_seq {A} (d : A) (l : list A) : l = map (fun i => nth i l d) (seq 0 (length l)).
Proof.
  induction l as [|a l IH]; [reflexivity|]. cbn [length seq map nth]. f_equal.
  rewrite <- seq_shift, map_map. exact IH.
Qed.

Lemma colx_seq k xc : colx k xc = map (fun i => nth k (nth i xc []) 0%nat) (seq 0 (length xc)).
Proof. unfold colx. rewrite (list_map_seq [] xc) at 1. now rewrite map_map. Qed.

Lemma arangeZ_seq fc n : arangeZ fc n = map (fun i => fc + Z.of_nat i) (seq 0 n).
Proof. reflexivity. Qed.

Lemma sumn_repeat b a : sumn (repeat b a) = (a * b)%nat.
Proof. induction a as [|a IH]; [reflexivity|]. change (sumn (repeat b (S a))) with (b + sumn (repeat b a))%nat. now rewrite IH. Qed.

(** selection arrays of the first generation, as functions of the cross index *)
Lemma sel_tot k xc nm np : repeat_by (colx k xc) (map2 Nat.mul nm np) = map (fun i => nth k (nth i xc []) 0%nat) (who xc nm np).
Proof. unfold who. now rewrite colx_seq, repeat_by_map. Qed.

Lemma who_nested xc nm np : length nm = length xc -> length np = length xc ->
  repeat_by (repeat_by (seq 0 (length xc)) nm) (repeat_by np nm) = who xc nm np.
Proof. intros H1 H2. unfold who. apply repeat_by_nested; now rewrite seq_length. Qed.

Lemma who_length xc nm np : length nm = length xc -> length np = length xc -> length (who xc nm np) = sumn (map2 Nat.mul nm np).
Proof. intros H1 H2. unfold who. apply repeat_by_length. rewrite seq_length, map2_length. lia. Qed.

(** * the seven protocols realise the designated pedigrees *)

Definition xcol (xc : list (list nat)) (k i : nat) : nat := nth k (nth i xc []) 0%nat.
Definition who1 (xc : list (list nat)) (nm : list nat) : list nat := repeat_by (seq 0 (length xc)) nm.

Lemma sel_tot' k xc nm np : repeat_by (colx k xc) (map2 Nat.mul nm np) = map (xcol xc k) (who xc nm np).
Proof. apply sel_tot. Qed.
Lemma sel_nm k xc nm : repeat_by (colx k xc) nm = map (xcol xc k) (who1 xc nm).
Proof. unfold who1. now rewrite colx_seq, repeat_by_map. Qed.
Lemma who1_nested xc nm np : length nm = length xc -> length np = length xc ->
  repeat_by (who1 xc nm) (repeat_by np nm) = who xc nm np.
Proof. apply who_nested. Qed.

Ltac norm := repeat (rewrite map_map || rewrite map2_map_same || rewrite repeat_by_map || rewrite who1_nested by assumption).
Ltac norm_in H := repeat (rewrite map_map in H || rewrite map2_map_same in H || rewrite repeat_by_map in H || rewrite who1_nested in H by assumption).

Lemma core_real p geno0 xoprob xc nm np nself r : length nm = length xc -> length np = length xc -> nonneg_draws (pending r) ->
  exists c0 c1 r', core p geno0 xoprob xc nm np nself r = ([c0; c1], r') /\
    pop_real geno0 xoprob (map (fun i => designated p (nth i xc []) nself) (who xc nm np)) c0 c1 /\
    (is_dh p = true -> c0 = c1).
Proof.
  intros H1 H2 Hn. destruct p; unfold core; rewrite ?sel_tot', ?sel_nm.
  - (* SelfCross *)
    destruct (mat_self_real geno0 xoprob geno0 _ _ r (src_founders geno0 xoprob (map (xcol xc 0) (who xc nm np))) Hn) as (h0 & h1 & r1 & E & Hp & Hn1).
    rewrite E. change (ntaxa_of [h0; h1]) with (length h0).
    destruct (selfn_real geno0 xoprob nself _ _ _ r1 Hp Hn1) as (c0 & c1 & r2 & E2 & Hp2 & Hn2).
    exists c0, c1, r2. split; [exact E2|]. split; [|discriminate]. norm_in Hp2. exact Hp2.
  - (* TwoWayCross *)
    destruct (mat_mate_real geno0 xoprob geno0 geno0 _ _ _ _ r (src_founders geno0 xoprob (map (xcol xc 0) (who xc nm np)))
                (src_founders geno0 xoprob (map (xcol xc 1) (who xc nm np)))) as (h0 & h1 & r1 & E & Hp & Hn1);
      [now rewrite !map_length | exact Hn |].
    rewrite E. change (ntaxa_of [h0; h1]) with (length h0).
    destruct (selfn_real geno0 xoprob nself _ _ _ r1 Hp Hn1) as (c0 & c1 & r2 & E2 & Hp2 & Hn2).
    exists c0, c1, r2. split; [exact E2|]. split; [|discriminate]. norm_in Hp2. exact Hp2.
  - (* TwoWayDHCross *)
    destruct (mat_mate_real geno0 xoprob geno0 geno0 _ _ _ _ r (src_founders geno0 xoprob (map (xcol xc 0) (who1 xc nm)))
                (src_founders geno0 xoprob (map (xcol xc 1) (who1 xc nm)))) as (h0 & h1 & r1 & E & Hp & Hn1);
      [now rewrite !map_length | exact Hn |].
    rewrite E. change (ntaxa_of [h0; h1]) with (length h0).
    destruct (selfn_real geno0 xoprob nself _ _ _ r1 Hp Hn1) as (c0 & c1 & r2 & E2 & Hp2 & Hn2).
    rewrite E2. change (ntaxa_of [c0; c1]) with (length c0).
    destruct (mat_dh_real geno0 xoprob [c0; c1] _ _ r2 (src_repeat_by geno0 xoprob _ _ _ (pop_src geno0 xoprob _ _ _ Hp2) (repeat_by np nm)) Hn2)
      as (c & r3 & E3 & Hp3 & Hn3).
    exists c, c, r3. split; [exact E3|]. split; [|reflexivity]. norm_in Hp3. exact Hp3.
  - (* ThreeWayCross *)
    destruct (mat_mate_real geno0 xoprob geno0 geno0 _ _ _ _ r (src_founders geno0 xoprob (map (xcol xc 1) (who1 xc nm)))
                (src_founders geno0 xoprob (map (xcol xc 2) (who1 xc nm)))) as (f0 & f1 & r1 & E & Hp & Hn1);
      [now rewrite !map_length | exact Hn |].
    rewrite E. change (ntaxa_of [f0; f1]) with (length f0).
    pose proof (src_repeat_by geno0 xoprob _ _ _ (pop_src geno0 xoprob _ _ _ Hp) (repeat_by np nm)) as Hs. norm_in Hs.
    destruct (mat_mate_real geno0 xoprob geno0 [f0; f1] _ _ _ _ r1 (src_founders geno0 xoprob (map (xcol xc 0) (who xc nm np))) Hs)
      as (h0 & h1 & r2 & E2 & Hp2 & Hn2); [now rewrite !map_length | exact Hn1 |].
    rewrite E2. change (ntaxa_of [h0; h1]) with (length h0).
    destruct (selfn_real geno0 xoprob nself _ _ _ r2 Hp2 Hn2) as (c0 & c1 & r3 & E3 & Hp3 & Hn3).
    exists c0, c1, r3. split; [exact E3|]. split; [|discriminate]. norm_in Hp3. exact Hp3.
  - (* ThreeWayDHCross *)
    destruct (mat_mate_real geno0 xoprob geno0 geno0 _ _ _ _ r (src_founders geno0 xoprob (map (xcol xc 1) (who1 xc nm)))
                (src_founders geno0 xoprob (map (xcol xc 2) (who1 xc nm)))) as (f0 & f1 & r1 & E & Hp & Hn1);
      [now rewrite !map_length | exact Hn |].
    rewrite E. change (ntaxa_of [f0; f1]) with (length f0).
    pose proof (pop_src geno0 xoprob _ _ _ Hp) as Hs. norm_in Hs.
    destruct (mat_mate_real geno0 xoprob geno0 [f0; f1] _ _ _ _ r1 (src_founders geno0 xoprob (map (xcol xc 0) (who1 xc nm))) Hs)
      as (b0 & b1 & r2 & E2 & Hp2 & Hn2); [now rewrite !map_length | exact Hn1 |].
    rewrite E2. change (ntaxa_of [b0; b1]) with (length b0).
    destruct (selfn_real geno0 xoprob nself _ _ _ r2 Hp2 Hn2) as (c0 & c1 & r3 & E3 & Hp3 & Hn3).
    rewrite E3. change (ntaxa_of [c0; c1]) with (length c0).
    destruct (mat_dh_real geno0 xoprob [c0; c1] _ _ r3 (src_repeat_by geno0 xoprob _ _ _ (pop_src geno0 xoprob _ _ _ Hp3) (repeat_by np nm)) Hn3)
      as (c & r4 & E4 & Hp4 & Hn4).
    exists c, c, r4. split; [exact E4|]. split; [|reflexivity]. norm_in Hp4. exact Hp4.
  - (* FourWayCross *)
    destruct (mat_mate_real geno0 xoprob geno0 geno0 _ _ _ _ r (src_founders geno0 xoprob (map (xcol xc 2) (who1 xc nm)))
                (src_founders geno0 xoprob (map (xcol xc 3) (who1 xc nm)))) as (a0 & a1 & r1 & E & Hpa & Hn1);
      [now rewrite !map_length | exact Hn |].
    rewrite E.
    destruct (mat_mate_real geno0 xoprob geno0 geno0 _ _ _ _ r1 (src_founders geno0 xoprob (map (xcol xc 0) (who1 xc nm)))
                (src_founders geno0 xoprob (map (xcol xc 1) (who1 xc nm)))) as (d0 & d1 & r2 & E2 & Hpd & Hn2);
      [now rewrite !map_length | exact Hn1 |].
    rewrite E2. change (ntaxa_of [a0; a1]) with (length a0). change (ntaxa_of [d0; d1]) with (length d0).
    pose proof (src_repeat_by geno0 xoprob _ _ _ (pop_src geno0 xoprob _ _ _ Hpa) (repeat_by np nm)) as Hsa. norm_in Hsa.
    pose proof (src_repeat_by geno0 xoprob _ _ _ (pop_src geno0 xoprob _ _ _ Hpd) (repeat_by np nm)) as Hsd. norm_in Hsd.
    destruct (mat_mate_real geno0 xoprob [a0; a1] [d0; d1] _ _ _ _ r2 Hsa Hsd) as (h0 & h1 & r3 & E3 & Hp3 & Hn3);
      [now rewrite !map_length | exact Hn2 |].
    rewrite E3. change (ntaxa_of [h0; h1]) with (length h0).
    destruct (selfn_real geno0 xoprob nself _ _ _ r3 Hp3 Hn3) as (c0 & c1 & r4 & E4 & Hp4 & Hn4).
    exists c0, c1, r4. split; [exact E4|]. split; [|discriminate]. norm_in Hp4. exact Hp4.
  - (* FourWayDHCross *)
    destruct (mat_mate_real geno0 xoprob geno0 geno0 _ _ _ _ r (src_founders geno0 xoprob (map (xcol xc 2) (who1 xc nm)))
                (src_founders geno0 xoprob (map (xcol xc 3) (who1 xc nm)))) as (a0 & a1 & r1 & E & Hpa & Hn1);
      [now rewrite !map_length | exact Hn |].
    rewrite E.
    destruct (mat_mate_real geno0 xoprob geno0 geno0 _ _ _ _ r1 (src_founders geno0 xoprob (map (xcol xc 0) (who1 xc nm)))
                (src_founders geno0 xoprob (map (xcol xc 1) (who1 xc nm)))) as (d0 & d1 & r2 & E2 & Hpd & Hn2);
      [now rewrite !map_length | exact Hn1 |].
    rewrite E2. change (ntaxa_of [a0; a1]) with (length a0). change (ntaxa_of [d0; d1]) with (length d0).
    pose proof (pop_src geno0 xoprob _ _ _ Hpa) as Hsa. norm_in Hsa.
    pose proof (pop_src geno0 xoprob _ _ _ Hpd) as Hsd. norm_in Hsd.
    destruct (mat_mate_real geno0 xoprob [a0; a1] [d0; d1] _ _ _ _ r2 Hsa Hsd) as (h0 & h1 & r3 & E3 & Hp3 & Hn3);
      [now rewrite !map_length | exact Hn2 |].
    rewrite E3. change (ntaxa_of [h0; h1]) with (length h0).
    destruct (selfn_real geno0 xoprob nself _ _ _ r3 Hp3 Hn3) as (c0 & c1 & r4 & E4 & Hp4 & Hn4).
    rewrite E4. change (ntaxa_of [c0; c1]) with (length c0).
    destruct (mat_dh_real geno0 xoprob [c0; c1] _ _ r4 (src_repeat_by geno0 xoprob _ _ _ (pop_src geno0 xoprob _ _ _ Hp4) (repeat_by np nm)) Hn4)
      as (c & r5 & E5 & Hp5 & Hn5).
    exists c, c, r5. split; [exact E5|]. split; [|reflexivity]. norm_in Hp5. exact Hp5.
Qed.


(** * shapes (independent of the draws) *)
Lemma mat_mate_shape fg mg fs ms xo r : exists c0 c1 r', mat_mate fg mg fs ms xo r = ([c0; c1], r') /\ length c0 = length fs /\ length c1 = length ms.
Proof. unfold mat_mate, mat_meiosis. eexists _, _, _. split; [reflexivity|]. now rewrite !meiosis_rows_length. Qed.
Lemma mat_dh_shape g s xo r : exists c r', mat_dh g s xo r = ([c; c], r') /\ length c = length s.
Proof. unfold mat_dh, mat_meiosis. eexists _, _. split; [reflexivity|]. now rewrite meiosis_rows_length. Qed.
Lemma selfn_shape xo k : forall c0 c1 r, length c1 = length c0 ->
  exists c0' c1' r', selfn k (seq 0 (length c0)) [c0; c1] xo r = ([c0'; c1'], r') /\ length c0' = length c0 /\ length c1' = length c0.
Proof.
  induction k as [|k IH]; intros c0 c1 r HL; [exists c0, c1, r; cbn; auto|]. cbn [selfn].
  destruct (mat_mate_shape [c0; c1] [c0; c1] (seq 0 (length c0)) (seq 0 (length c0)) xo r) as (d0 & d1 & r1 & E & L0 & L1).
  rewrite E. rewrite seq_length in L0, L1. rewrite <- L0. destruct (IH d0 d1 r1 ltac:(lia)) as (e0 & e1 & r2 & E2 & M0 & M1).
  exists e0, e1, r2. split; [exact E2 | lia].
Qed.

Lemma len_rb_seq {A} (L : list A) cs : length (repeat_by (seq 0 (length L)) cs) = length (repeat_by L cs).
Proof.
  destruct L as [|d L']; [reflexivity|]. set (L := d :: L'). rewrite (list_map_seq d L) at 2. now rewrite repeat_by_map, map_length.
Qed.

Lemma core_shape p geno xoprob xc nm np nself r : length nm = length xc -> length np = length xc ->
  exists c0 c1 r', core p geno xoprob xc nm np nself r = ([c0; c1], r') /\
    length c0 = length (who xc nm np) /\ length c1 = length (who xc nm np) /\ (is_dh p = true -> c0 = c1).
Proof.
  intros H1 H2.
  assert (W : forall n, n = length (who1 xc nm) -> length (repeat_by (seq 0 n) (repeat_by np nm)) = length (who xc nm np)).
  { intros n ->. rewrite len_rb_seq. now rewrite who1_nested. }
  destruct p; unfold core; rewrite ?sel_tot', ?sel_nm.
  - destruct (mat_mate_shape geno geno (map (xcol xc 0) (who xc nm np)) (map (xcol xc 0) (who xc nm np)) xoprob r) as (h0 & h1 & r1 & E & L0 & L1).
    rewrite E. change (ntaxa_of [h0; h1]) with (length h0). rewrite map_length in L0, L1.
    destruct (selfn_shape xoprob nself h0 h1 r1 ltac:(lia)) as (c0 & c1 & r2 & E2 & M0 & M1).
    exists c0, c1, r2. split; [exact E2|]. repeat split; try lia. discriminate.
  - destruct (mat_mate_shape geno geno (map (xcol xc 0) (who xc nm np)) (map (xcol xc 1) (who xc nm np)) xoprob r) as (h0 & h1 & r1 & E & L0 & L1).
    rewrite E. change (ntaxa_of [h0; h1]) with (length h0). rewrite map_length in L0, L1.
    destruct (selfn_shape xoprob nself h0 h1 r1 ltac:(lia)) as (c0 & c1 & r2 & E2 & M0 & M1).
    exists c0, c1, r2. split; [exact E2|]. repeat split; try lia. discriminate.
  - destruct (mat_mate_shape geno geno (map (xcol xc 0) (who1 xc nm)) (map (xcol xc 1) (who1 xc nm)) xoprob r) as (h0 & h1 & r1 & E & L0 & L1).
    rewrite E. change (ntaxa_of [h0; h1]) with (length h0). rewrite map_length in L0, L1.
    destruct (selfn_shape xoprob nself h0 h1 r1 ltac:(lia)) as (c0 & c1 & r2 & E2 & M0 & M1).
    rewrite E2. change (ntaxa_of [c0; c1]) with (length c0).
    destruct (mat_dh_shape [c0; c1] (repeat_by (seq 0 (length c0)) (repeat_by np nm)) xoprob r2) as (c & r3 & E3 & L3).
    exists c, c, r3. split; [exact E3|]. rewrite W in L3 by lia. auto.
  - destruct (mat_mate_shape geno geno (map (xcol xc 1) (who1 xc nm)) (map (xcol xc 2) (who1 xc nm)) xoprob r) as (f0 & f1 & r1 & E & L0 & L1).
    rewrite E. change (ntaxa_of [f0; f1]) with (length f0). rewrite map_length in L0, L1.
    destruct (mat_mate_shape geno [f0; f1] (map (xcol xc 0) (who xc nm np)) (repeat_by (seq 0 (length f0)) (repeat_by np nm)) xoprob r1) as (h0 & h1 & r2 & E2 & K0 & K1).
    rewrite E2. change (ntaxa_of [h0; h1]) with (length h0). rewrite map_length in K0. rewrite W in K1 by lia.
    destruct (selfn_shape xoprob nself h0 h1 r2 ltac:(lia)) as (c0 & c1 & r3 & E3 & M0 & M1).
    exists c0, c1, r3. split; [exact E3|]. repeat split; try lia. discriminate.
  - destruct (mat_mate_shape geno geno (map (xcol xc 1) (who1 xc nm)) (map (xcol xc 2) (who1 xc nm)) xoprob r) as (f0 & f1 & r1 & E & L0 & L1).
    rewrite E. change (ntaxa_of [f0; f1]) with (length f0). rewrite map_length in L0, L1.
    destruct (mat_mate_shape geno [f0; f1] (map (xcol xc 0) (who1 xc nm)) (seq 0 (length f0)) xoprob r1) as (b0 & b1 & r2 & E2 & K0 & K1).
    rewrite E2. change (ntaxa_of [b0; b1]) with (length b0). rewrite map_length in K0. rewrite seq_length in K1.
    destruct (selfn_shape xoprob nself b0 b1 r2 ltac:(lia)) as (c0 & c1 & r3 & E3 & M0 & M1).
    rewrite E3. change (ntaxa_of [c0; c1]) with (length c0).
    destruct (mat_dh_shape [c0; c1] (repeat_by (seq 0 (length c0)) (repeat_by np nm)) xoprob r3) as (c & r4 & E4 & L4).
    exists c, c, r4. split; [exact E4|]. rewrite W in L4 by lia. auto.
  - destruct (mat_mate_shape geno geno (map (xcol xc 2) (who1 xc nm)) (map (xcol xc 3) (who1 xc nm)) xoprob r) as (a0 & a1 & r1 & E & L0 & L1).
    rewrite E.
    destruct (mat_mate_shape geno geno (map (xcol xc 0) (who1 xc nm)) (map (xcol xc 1) (who1 xc nm)) xoprob r1) as (d0 & d1 & r2 & E2 & K0 & K1).
    rewrite E2. change (ntaxa_of [a0; a1]) with (length a0). change (ntaxa_of [d0; d1]) with (length d0). rewrite map_length in L0, L1, K0, K1.
    destruct (mat_mate_shape [a0; a1] [d0; d1] (repeat_by (seq 0 (length a0)) (repeat_by np nm)) (repeat_by (seq 0 (length d0)) (repeat_by np nm)) xoprob r2)
      as (h0 & h1 & r3 & E3 & J0 & J1).
    rewrite E3. change (ntaxa_of [h0; h1]) with (length h0). rewrite W in J0, J1 by lia.
    destruct (selfn_shape xoprob nself h0 h1 r3 ltac:(lia)) as (c0 & c1 & r4 & E4 & M0 & M1).
    exists c0, c1, r4. split; [exact E4|]. repeat split; try lia. discriminate.
  - destruct (mat_mate_shape geno geno (map (xcol xc 2) (who1 xc nm)) (map (xcol xc 3) (who1 xc nm)) xoprob r) as (a0 & a1 & r1 & E & L0 & L1).
    rewrite E.
    destruct (mat_mate_shape geno geno (map (xcol xc 0) (who1 xc nm)) (map (xcol xc 1) (who1 xc nm)) xoprob r1) as (d0 & d1 & r2 & E2 & K0 & K1).
    rewrite E2. change (ntaxa_of [a0; a1]) with (length a0). change (ntaxa_of [d0; d1]) with (length d0). rewrite map_length in L0, L1, K0, K1.
    destruct (mat_mate_shape [a0; a1] [d0; d1] (seq 0 (length a0)) (seq 0 (length d0)) xoprob r2) as (h0 & h1 & r3 & E3 & J0 & J1).
    rewrite E3. change (ntaxa_of [h0; h1]) with (length h0). rewrite seq_length in J0, J1.
    destruct (selfn_shape xoprob nself h0 h1 r3 ltac:(lia)) as (c0 & c1 & r4 & E4 & M0 & M1).
    rewrite E4. change (ntaxa_of [c0; c1]) with (length c0).
    destruct (mat_dh_shape [c0; c1] (repeat_by (seq 0 (length c0)) (repeat_by np nm)) xoprob r4) as (c & r5 & E5 & L5).
    exists c, c, r5. split; [exact E5|]. rewrite W in L5 by lia. auto.
Qed.

(** * family labels *)
Lemma family_labels_spec p fc xc nm np : length nm = length xc -> length np = length xc ->
  family_labels p fc (length xc) nm np = map (fun i => fc + Z.of_nat i) (who xc nm np).
Proof.
  intros H1 H2. unfold who.
  assert (A : repeat_by (arangeZ fc (length xc)) (map2 Nat.mul nm np) = map (fun i => fc + Z.of_nat i) (repeat_by (seq 0 (length xc)) (map2 Nat.mul nm np)))
    by (now rewrite arangeZ_seq, repeat_by_map).
  assert (B : repeat_by (repeat_by (arangeZ fc (length xc)) nm) (repeat_by np nm) = map (fun i => fc + Z.of_nat i) (repeat_by (seq 0 (length xc)) (map2 Nat.mul nm np))).
  { rewrite arangeZ_seq, !repeat_by_map. f_equal. apply repeat_by_nested; now rewrite seq_length. }
  destruct p; unfold family_labels; assumption.
Qed.


(** * group_taxa: a stable insertion sort — a permutation of the entries, the identity on a sorted input *)
Lemma insert_perm x l : Permutation (insert_st x l) (x :: l).
Proof.
  induction l as [|y t IH]; cbn [insert_st]; [reflexivity|]. destruct (key_leb x y); [reflexivity|].
  rewrite IH. apply perm_swap.
Qed.
Lemma sort_perm l : Permutation (sort_st l) l.
Proof.
  induction l as [|x t IH]; [constructor|]. change (sort_st (x :: t)) with (insert_st x (sort_st t)).
  rewrite insert_perm. now constructor.
Qed.
Fixpoint is_sorted (l : list entry) : bool :=
  match l with
  | x :: t => match t with y :: _ => key_leb x y && is_sorted t | [] => true end
  | [] => true
  end.
Lemma sort_id l : is_sorted l = true -> sort_st l = l.
Proof.
  induction l as [|x t IH]; [reflexivity|]. intros H. change (sort_st (x :: t)) with (insert_st x (sort_st t)).
  destruct t as [|y t']; [reflexivity|]. cbn [is_sorted] in H. apply andb_prop in H as [H1 H2].
  rewrite (IH H2). cbn [insert_st]. now rewrite H1.
Qed.
Lemma sort_Forall (P : entry -> Prop) l : Forall P l -> Forall P (sort_st l).
Proof. intros H. eapply Permutation_Forall; [apply Permutation_sym, sort_perm | exact H]. Qed.
Lemma sort_length l : length (sort_st l) = length l.
Proof. apply Permutation_length, sort_perm. Qed.

Lemma zip4_length g : forall t c0 c1, length t = length g -> length c0 = length g -> length c1 = length g ->
  length (zip4 g t c0 c1) = length g.
Proof. induction g as [|a g IH]; intros [|b t] [|x c0] [|y c1]; cbn; intros; try discriminate; try reflexivity. f_equal. apply IH; lia. Qed.
Lemma zip4_unzip g : forall t c0 c1, length t = length g -> length c0 = length g -> length c1 = length g ->
  map (fun e : entry => fst (fst e)) (zip4 g t c0 c1) = g /\ map (fun e : entry => snd (fst e)) (zip4 g t c0 c1) = t /\
  map (fun e : entry => fst (snd e)) (zip4 g t c0 c1) = c0 /\ map (fun e : entry => snd (snd e)) (zip4 g t c0 c1) = c1.
Proof.
  induction g as [|a g IH]; intros [|b t] [|x c0] [|y c1]; cbn; intros; try discriminate; auto.
  destruct (IH t c0 c1) as (A & B & C & D); try lia. cbn. rewrite A, B, C, D. auto.
Qed.

(** numpy.unique on the sorted labels: the (name, length) table decodes back to the label vector *)
Lemma rle_decode l : concat (map (fun gc : Z * nat => repeat (fst gc) (snd gc)) (rle l)) = l.
Proof.
  induction l as [|x t IH]; [reflexivity|]. cbn [rle]. destruct (rle t) as [|[y c] r] eqn:E.
  - cbn in IH. subst t. reflexivity.
  - cbn [map concat fst snd] in IH. destruct (Z.eqb_spec x y) as [->|NE]; cbn [map concat fst snd repeat app]; now rewrite IH.
Qed.

(** * the whole call *)
Lemma expand_count_length c n l : expand_count c n = Some l -> length l = n.
Proof.
  destruct c as [k|l']; cbn; [intros [= <-]; apply repeat_length|]. destruct (Nat.eqb_spec (length l') n); [intros [= <-]; assumption | discriminate].
Qed.

Lemma mate_Some p geno xoprob meta xc nmating nprogeny nself pc fc draws x :
  mate p geno xoprob meta xc nmating nprogeny nself pc fc draws = Some x ->
  exists nm np, expand_count nmating (length xc) = Some nm /\ expand_count nprogeny (length xc) = Some np /\
    length nm = length xc /\ length np = length xc /\
    Forall (fun r => length r = nparent p) xc /\
    Forall (fun s => (s < ntaxa_of geno)%nat) (founder_sels p xc nm np) /\
    let raw := mate_raw p geno xoprob xc nm np nself pc fc (rng0 draws) in
    let g := group_taxa raw in
    p_mat x = p_mat g /\ p_taxa x = p_taxa g /\ p_grp x = p_grp g /\ p_gname x = p_gname g /\ p_gstix x = p_gstix g /\
    p_gspix x = p_gspix g /\ p_glen x = p_glen g /\ p_meta x = progeny_meta meta /\ p_pc x = p_pc raw /\ p_fc x = p_fc raw.
Proof.
  unfold mate. destruct (forallb (fun r => Nat.eqb (length r) (nparent p)) xc) eqn:W; cbn [negb]; [|discriminate].
  destruct (expand_count nmating (length xc)) as [nm|] eqn:E1; [|discriminate].
  destruct (expand_count nprogeny (length xc)) as [np|] eqn:E2; [|discriminate].
  destruct (forallb (fun s => Nat.ltb s (ntaxa_of geno)) (founder_sels p xc nm np)) eqn:V; cbn [negb]; [|discriminate].
  intros [= <-]. exists nm, np. repeat split; auto.
  - eapply expand_count_length; eauto.
  - eapply expand_count_length; eauto.
  - rewrite forallb_forall in W. apply Forall_forall. intros r Hr. now apply Nat.eqb_eq, W.
  - rewrite forallb_forall in V. apply Forall_forall. intros s Hs. now apply Nat.ltb_lt, V.
Qed.

Lemma mate_defined p geno xoprob meta xc nmating nprogeny nself pc fc draws nm np :
  Forall (fun r => length r = nparent p) xc -> expand_count nmating (length xc) = Some nm -> expand_count nprogeny (length xc) = Some np ->
  Forall (fun s => (s < ntaxa_of geno)%nat) (founder_sels p xc nm np) ->
  exists x, mate p geno xoprob meta xc nmating nprogeny nself pc fc draws = Some x.
Proof.
  intros W E1 E2 V. unfold mate.
  assert (W' : forallb (fun r => Nat.eqb (length r) (nparent p)) xc = true).
  { apply forallb_forall. intros r Hr. rewrite Forall_forall in W. now apply Nat.eqb_eq, W. }
  assert (V' : forallb (fun s => Nat.ltb s (ntaxa_of geno)) (founder_sels p xc nm np) = true).
  { apply forallb_forall. intros s Hs. rewrite Forall_forall in V. now apply Nat.ltb_lt, V. }
  rewrite W', E1, E2, V'. cbn [negb]. eexists. reflexivity.
Qed.

(** raw state: matrix, names, labels, counters *)
Lemma mate_raw_spec p geno xoprob xc nm np nself pc fc r : length nm = length xc -> length np = length xc ->
  let x := mate_raw p geno xoprob xc nm np nself pc fc r in
  let N := length (who xc nm np) in
  exists c0 c1, p_mat x = [c0; c1] /\ length c0 = N /\ length c1 = N /\ (is_dh p = true -> c0 = c1) /\
    p_taxa x = taxa_names (prefix p) pc N /\ p_grp x = map (fun i => fc + Z.of_nat i) (who xc nm np) /\
    p_pc x = pc + Z.of_nat N /\ p_fc x = fc + Z.of_nat (length xc) /\
    (nonneg_draws (pending r) -> pop_real geno xoprob (map (fun i => designated p (nth i xc []) nself) (who xc nm np)) c0 c1).
Proof.
  intros H1 H2 x N. subst x. unfold mate_raw.
  destruct (core_shape p geno xoprob xc nm np nself r H1 H2) as (c0 & c1 & r' & E & L0 & L1 & D).
  rewrite E. change (ntaxa_of [c0; c1]) with (length c0). cbn [p_mat p_taxa p_grp p_pc p_fc].
  exists c0, c1. rewrite L0, family_labels_spec by assumption. repeat split; auto.
  intros Hn. destruct (core_real p geno xoprob xc nm np nself r H1 H2 Hn) as (d0 & d1 & r2 & E' & Hp & _).
  rewrite E in E'. injection E' as <- <- <-. exact Hp.
Qed.


Lemma In_repeat_by {A} (x : A) xs : forall cs, In x (repeat_by xs cs) -> In x xs.
Proof.
  induction xs as [|y xs IH]; intros [|c cs] H; cbn in H; try contradiction.
  apply in_app_or in H as [H|H]; [left; now apply repeat_spec in H | right; eapply IH; eauto].
Qed.
Lemma who_bound xc nm np : Forall (fun i => (i < length xc)%nat) (who xc nm np).
Proof. apply Forall_forall. intros i Hi. apply In_repeat_by in Hi. apply in_seq in Hi. lia. Qed.

(** an output entry is fine when its family label names a cross row i and the genotype realises the pedigree designated by row i *)
Definition entry_ok geno xoprob p (xc : list (list nat)) nself fc (e : entry) : Prop :=
  exists i, (i < length xc)%nat /\ fst (fst e) = fc + Z.of_nat i /\
            realises geno xoprob (designated p (nth i xc []) nself) (snd e).

Lemma raw_entries_ok geno xoprob p xc nself fc w : Forall (fun i => (i < length xc)%nat) w ->
  forall names c0 c1, length names = length w ->
  pop_real geno xoprob (map (fun i => designated p (nth i xc []) nself) w) c0 c1 ->
  Forall (entry_ok geno xoprob p xc nself fc) (zip4 (map (fun i => fc + Z.of_nat i) w) names c0 c1).
Proof.
  induction 1 as [|i w Hi Hw IH]; intros names c0 c1 HL Hp; cbn [map] in *.
  - inversion Hp; subst. destruct names; constructor.
  - inversion Hp as [|t a b ts la lb R1 R2]; subst. destruct names as [|nm names]; [discriminate|]. cbn [zip4]. constructor.
    + exists i. cbn [fst snd]. auto.
    + apply IH; [cbn in HL; lia | exact R2].
Qed.

Definition e0 : entry := ((0, []), ([], [])).
Lemma nth_map_d {A B} (f : A -> B) l d j db : f d = db -> nth j (map f l) db = f (nth j l d).
Proof. intros <-. apply map_nth. Qed.

Lemma group_taxa_fields x : let s := sort_st (zip4 (p_grp x) (p_taxa x) (nth 0 (p_mat x) []) (nth 1 (p_mat x) [])) in
  p_mat (group_taxa x) = [map (fun e : entry => fst (snd e)) s; map (fun e : entry => snd (snd e)) s] /\
  p_taxa (group_taxa x) = map (fun e : entry => snd (fst e)) s /\ p_grp (group_taxa x) = map (fun e : entry => fst (fst e)) s.
Proof. cbn. auto. Qed.

(** ** Mendelian fidelity of the whole call *)
Lemma mate_mosaic p geno xoprob meta xc nmating nprogeny nself pc fc draws x :
  mate p geno xoprob meta xc nmating nprogeny nself pc fc draws = Some x -> nonneg_draws draws ->
  forall j, (j < length (p_taxa x))%nat ->
  exists i, (i < length xc)%nat /\ nth j (p_grp x) 0 = fc + Z.of_nat i /\
            realises geno xoprob (designated p (nth i xc []) nself) (indiv (p_mat x) j).
Proof.
  intros Hm Hn j Hj. destruct (mate_Some _ _ _ _ _ _ _ _ _ _ _ _ Hm) as (nm & np & _ & _ & L1 & L2 & _ & _ & Hx).
  cbn zeta in Hx. destruct Hx as (Xm & Xt & Xg & _).
  destruct (mate_raw_spec p geno xoprob xc nm np nself pc fc (rng0 draws) L1 L2) as (c0 & c1 & Rm & K0 & K1 & _ & Rt & Rg & _ & _ & Rp).
  cbn zeta in *. specialize (Rp Hn).
  set (raw := mate_raw p geno xoprob xc nm np nself pc fc (rng0 draws)) in *.
  destruct (group_taxa_fields raw) as (Gm & Gt & Gg). cbn zeta in Gm, Gt, Gg.
  rewrite Rm in Gm, Gt, Gg. cbn [nth] in Gm, Gt, Gg. rewrite Rt, Rg in Gm, Gt, Gg.
  set (s := sort_st _) in *.
  assert (Hs : Forall (entry_ok geno xoprob p xc nself fc) s).
  { apply sort_Forall, raw_entries_ok; [apply who_bound | unfold taxa_names; now rewrite map_length, seq_length | exact Rp]. }
  rewrite Xt, Gt, map_length in Hj. rewrite Xm, Xg, Gm, Gg.
  rewrite Forall_forall in Hs. specialize (Hs (nth j s e0) (nth_In _ _ Hj)). destruct Hs as (i & Hi & Hl & Hr).
  exists i. split; [exact Hi|]. split.
  - now rewrite (nth_map_d _ s e0) by reflexivity.
  - unfold indiv, row. cbn [nth]. rewrite !(nth_map_d _ s e0) by reflexivity. now destruct (nth j s e0) as [[? ?] [? ?]].
Qed.

(** ** numbers, names, labels, counters *)
Lemma mate_counts p geno xoprob meta xc nmating nprogeny nself pc fc draws x :
  mate p geno xoprob meta xc nmating nprogeny nself pc fc draws = Some x ->
  exists nm np, expand_count nmating (length xc) = Some nm /\ expand_count nprogeny (length xc) = Some np /\
    let N := sumn (map2 Nat.mul nm np) in
    ntaxa_of (p_mat x) = N /\ length (nth 1 (p_mat x) []) = N /\ length (p_taxa x) = N /\ length (p_grp x) = N /\
    p_pc x = pc + Z.of_nat N /\ p_fc x = fc + Z.of_nat (length xc) /\
    Permutation (combine (p_grp x) (p_taxa x))
                (combine (map (fun i => fc + Z.of_nat i) (who xc nm np)) (taxa_names (prefix p) pc N)) /\
    concat (map2 (fun g n => repeat g (Z.to_nat n)) (p_gname x) (p_glen x)) = p_grp x.
Proof.
  intros Hm. destruct (mate_Some _ _ _ _ _ _ _ _ _ _ _ _ Hm) as (nm & np & E1 & E2 & L1 & L2 & _ & _ & Hx).
  exists nm, np. split; [exact E1|]. split; [exact E2|]. cbn zeta in Hx.
  destruct Hx as (Xm & Xt & Xg & Xn & _ & _ & Xl & _ & Xpc & Xfc).
  destruct (mate_raw_spec p geno xoprob xc nm np nself pc fc (rng0 draws) L1 L2) as (c0 & c1 & Rm & K0 & K1 & _ & Rt & Rg & Rpc & Rfc & _).
  cbn zeta in *. rewrite (who_length xc nm np L1 L2) in *.
  set (N := sumn (map2 Nat.mul nm np)) in *.
  set (raw := mate_raw p geno xoprob xc nm np nself pc fc (rng0 draws)) in *.
  destruct (group_taxa_fields raw) as (Gm & Gt & Gg). cbn zeta in Gm, Gt, Gg.
  rewrite Rm in Gm, Gt, Gg. cbn [nth] in Gm, Gt, Gg. rewrite Rt, Rg in Gm, Gt, Gg.
  assert (LT : length (taxa_names (prefix p) pc N) = N) by (unfold taxa_names; now rewrite map_length, seq_length).
  assert (LG : length (map (fun i => fc + Z.of_nat i) (who xc nm np)) = N) by (rewrite map_length; now apply who_length).
  set (z := zip4 _ _ _ _) in *.
  assert (LZ : length z = N) by (subst z; rewrite zip4_length; lia).
  destruct (zip4_unzip (map (fun i => fc + Z.of_nat i) (who xc nm np)) (taxa_names (prefix p) pc N) c0 c1) as (U1 & U2 & U3 & U4); try lia.
  fold z in U1, U2, U3, U4.
  rewrite Xm, Xt, Xg, Xpc, Xfc, Gm, Gt, Gg. unfold ntaxa_of. cbn [nth]. rewrite !map_length, sort_length, LZ.
  repeat split; auto.
  - (* permutation of (label, name) pairs *)
    rewrite <- U1, <- U2.
    assert (C : forall l : list entry, combine (map (fun e : entry => fst (fst e)) l) (map (fun e : entry => snd (fst e)) l) = map fst l).
    { induction l as [|[[a b] c] l IH]; cbn; [reflexivity | now rewrite IH]. }
    rewrite !C. apply Permutation_map, sort_perm.
  - (* group table decodes to the labels *)
    rewrite Xn, Xl. unfold group_taxa. cbn [p_gname p_glen p_grp].
    rewrite Rm. cbn [nth]. rewrite Rt, Rg. fold z.
    set (u := rle _).
    assert (D : forall v : list (Z * nat), map2 (fun g n => repeat g (Z.to_nat n)) (map fst v) (map (fun n => Z.of_nat n) (map snd v))
                                           = map (fun gc : Z * nat => repeat (fst gc) (snd gc)) v).
    { induction v as [|[g c] v IH]; cbn; [reflexivity|]. now rewrite Nat2Z.id, IH. }
    rewrite D. subst u. apply rle_decode.
Qed.

(** ** doubled haploids are homozygous at every locus *)
Lemma zip4_same c : forall g t, Forall (fun e : entry => fst (snd e) = snd (snd e)) (zip4 g t c c).
Proof. induction c as [|a c IH]; intros [|g gs] [|t ts]; cbn [zip4]; try constructor; [reflexivity | apply IH]. Qed.
Lemma mate_dh p geno xoprob meta xc nmating nprogeny nself pc fc draws x :
  mate p geno xoprob meta xc nmating nprogeny nself pc fc draws = Some x -> is_dh p = true ->
  nth 0 (p_mat x) [] = nth 1 (p_mat x) [].
Proof.
  intros Hm Hd. destruct (mate_Some _ _ _ _ _ _ _ _ _ _ _ _ Hm) as (nm & np & _ & _ & L1 & L2 & _ & _ & Hx).
  cbn zeta in Hx. destruct Hx as (Xm & _).
  destruct (mate_raw_spec p geno xoprob xc nm np nself pc fc (rng0 draws) L1 L2) as (c0 & c1 & Rm & K0 & K1 & D & Rt & Rg & _).
  cbn zeta in *. specialize (D Hd). subst c1.
  set (raw := mate_raw p geno xoprob xc nm np nself pc fc (rng0 draws)) in *.
  destruct (group_taxa_fields raw) as (Gm & _). cbn zeta in Gm. rewrite Rm in Gm. cbn [nth] in Gm.
  rewrite Xm, Gm. cbn [nth]. apply map_ext_in. intros e He.
  set (z := zip4 _ _ _ _) in *.
  assert (F : Forall (fun e : entry => fst (snd e) = snd (snd e)) z).
  { subst z. apply zip4_same. }
  apply sort_Forall in F. rewrite Forall_forall in F. now apply F.
Qed.

(** ** closure: every progeny allele sits at the same marker in a founder named in the progeny's cross row *)
Lemma pick_len_le01 c : forall g0 g1, (length (pick g0 g1 c) <= length g0)%nat /\ (length (pick g0 g1 c) <= length g1)%nat.
Proof. induction c as [|b t IH]; intros [|a0 t0] [|a1 t1]; cbn; try lia. specialize (IH t0 t1). lia. Qed.

Lemma mosaic_src xoprob g0 g1 gam m : mosaic xoprob g0 g1 gam -> (m < length gam)%nat ->
  (nth m gam 0 = nth m g0 0 /\ (m < length g0)%nat) \/ (nth m gam 0 = nth m g1 0 /\ (m < length g1)%nat).
Proof.
  intros Hm Hl. destruct (mosaic_allele xoprob g0 g1 gam m 0 Hm Hl) as [E|E]; destruct Hm as (c & _ & -> & _);
    destruct (pick_len_le01 c g0 g1); [left | right]; split; auto; lia.
Qed.

Lemma founders_selfs k t : founders (selfs k t) = founders t.
Proof. induction k as [|k IH]; [reflexivity|]. exact IH. Qed.

Definition from_founder geno (fs : list nat) (h : list Z) : Prop :=
  forall m, (m < length h)%nat -> exists f c, In f fs /\ (c < 2)%nat /\ nth m h 0 = nth m (row geno c f) 0.

Lemma from_founder_mosaic geno xoprob fs g0 g1 gam : mosaic xoprob g0 g1 gam -> from_founder geno fs g0 -> from_founder geno fs g1 ->
  from_founder geno fs gam.
Proof.
  intros Hm H0 H1 m Hl. destruct (mosaic_src _ _ _ _ m Hm Hl) as [[E L]|[E L]]; rewrite E; [apply H0 | apply H1]; exact L.
Qed.
Lemma from_founder_incl geno fs fs' h : incl fs fs' -> from_founder geno fs h -> from_founder geno fs' h.
Proof. intros I H m Hl. destruct (H m Hl) as (f & c & A & B & C). exists f, c. auto. Qed.

Lemma realises_closure geno xoprob t : forall ind, realises geno xoprob t ind ->
  from_founder geno (founders t) (fst ind) /\ from_founder geno (founders t) (snd ind).
Proof.
  induction t as [i | f IHf m IHm | x IHx | x IHx]; intros ind H; cbn [realises founders] in *.
  - subst ind. unfold indiv. cbn [fst snd]. split; intros m Hl; exists i; [exists 0%nat | exists 1%nat]; cbn; auto.
  - destruct H as (fi & mi & Rf & Rm & M0 & M1). destruct (IHf _ Rf) as [F0 F1]. destruct (IHm _ Rm) as [G0 G1]. split.
    + eapply from_founder_incl; [apply incl_appl, incl_refl|]. eapply from_founder_mosaic; eauto.
    + eapply from_founder_incl; [apply incl_appr, incl_refl|]. eapply from_founder_mosaic; eauto.
  - destruct H as (xi & Rx & M0 & M1). destruct (IHx _ Rx) as [F0 F1]. split; eapply from_founder_mosaic; eauto.
  - destruct H as (xi & Rx & M0 & E). destruct (IHx _ Rx) as [F0 F1]. rewrite E. split; eapply from_founder_mosaic; eauto.
Qed.

Lemma founders_designated p r nself : length r = nparent p -> incl (founders (designated p r nself)) r.
Proof.
  intros HL f Hf. assert (N : forall k, (k < nparent p)%nat -> In (nth k r 0%nat) r) by (intros k Hk; apply nth_In; lia).
  destruct p; cbn [designated founders nparent] in *; rewrite ?founders_selfs in Hf; cbn [founders app] in Hf;
    repeat (destruct Hf as [<-|Hf]; [apply N; lia|]); contradiction.
Qed.

Lemma mate_closure p geno xoprob meta xc nmating nprogeny nself pc fc draws x :
  mate p geno xoprob meta xc nmating nprogeny nself pc fc draws = Some x -> nonneg_draws draws ->
  forall j, (j < length (p_taxa x))%nat ->
  exists i, (i < length xc)%nat /\ nth j (p_grp x) 0 = fc + Z.of_nat i /\
            from_founder geno (nth i xc []) (row (p_mat x) 0 j) /\ from_founder geno (nth i xc []) (row (p_mat x) 1 j).
Proof.
  intros Hm Hn j Hj. destruct (mate_mosaic _ _ _ _ _ _ _ _ _ _ _ _ Hm Hn j Hj) as (i & Hi & Hl & Hr).
  destruct (mate_Some _ _ _ _ _ _ _ _ _ _ _ _ Hm) as (_ & _ & _ & _ & _ & _ & W & _).
  exists i. split; [exact Hi|]. split; [exact Hl|].
  destruct (realises_closure _ _ _ _ Hr) as [C0 C1]. unfold indiv in C0, C1. cbn [fst snd] in C0, C1.
  rewrite Forall_forall in W. assert (WL : length (nth i xc []) = nparent p) by (apply W, nth_In, Hi).
  split; eapply from_founder_incl; try (apply founders_designated; exact WL); eassumption.
Qed.


(** * names: zero-filled decimal strings compare like the numbers as long as they fit the 7 digits *)
Fixpoint pow10 (k : nat) : Z := match k with O => 1 | S k' => 10 * pow10 k' end.
Fixpoint fixd (w : nat) (n : Z) : list Z := match w with O => [] | S w' => fixd w' (n / 10) ++ [48 + n mod 10] end.

Lemma pow10_pos k : 0 < pow10 k.
Proof. induction k; cbn [pow10]; lia. Qed.
Lemma pow10_mono a b : (a <= b)%nat -> pow10 a <= pow10 b.
Proof. induction 1; [lia|]. cbn [pow10]. pose proof (pow10_pos m). lia. Qed.

Lemma repeat_snoc {A} (a : A) n : repeat a n ++ [a] = a :: repeat a n.
Proof. induction n; cbn; [reflexivity | now rewrite IHn]. Qed.
Lemma fixd_zero w : fixd w 0 = repeat 48 w.
Proof. induction w as [|w IH]; [reflexivity|]. cbn [fixd]. rewrite Z.div_0_l, Z.mod_0_l, IH by lia. cbn. apply repeat_snoc. Qed.

Lemma digits_fuel_fixd f : forall n k w, 0 <= n < pow10 k -> (1 <= k <= w)%nat -> (k <= f)%nat ->
  repeat 48 (w - length (digits_fuel f n)) ++ digits_fuel f n = fixd w n.
Proof.
  induction f as [|f IH]; intros n k w Hn Hk Hf; [lia|]. cbn [digits_fuel].
  destruct w as [|w]; [lia|]. cbn [fixd]. destruct (Z.ltb_spec n 10) as [L|G].
  - cbn [length]. rewrite Z.div_small, Z.mod_small, fixd_zero by lia. now replace (S w - 1)%nat with w by lia.
  - destruct k as [|[|k]]; [lia | cbn in Hn; lia |]. cbn [pow10] in Hn.
    assert (Hq : 0 <= n / 10 < pow10 (S k)).
    { split; [apply Z.div_pos; lia | apply Z.div_lt_upper_bound; cbn [pow10]; lia]. }
    specialize (IH (n / 10) (S k) w Hq ltac:(lia) ltac:(lia)).
    rewrite app_length. cbn [length]. replace (S w - (length (digits_fuel f (n / 10)) + 1))%nat with (w - length (digits_fuel f (n / 10)))%nat by lia.
    now rewrite app_assoc, IH.
Qed.

Lemma digits_fuel_range f : forall n, 0 <= n -> Forall (fun c => 48 <= c <= 57) (digits_fuel f n).
Proof.
  induction f as [|f IH]; intros n Hn; cbn [digits_fuel]; [constructor|]. destruct (Z.ltb_spec n 10).
  - constructor; [lia | constructor].
  - apply Forall_app. split; [apply IH, Z.div_pos; lia|]. constructor; [|constructor]. pose proof (Z.mod_pos_bound n 10). lia.
Qed.

Lemma two_le_pow10 m : 2 ^ Z.of_nat m <= pow10 m.
Proof.
  induction m as [|m IH]; [cbn; lia|]. rewrite Nat2Z.inj_succ, Z.pow_succ_r by lia. cbn [pow10]. pose proof (pow10_pos m). lia.
Qed.

Lemma zfill7_fixd n : 0 <= n < pow10 7 -> zfill 7 (str_Z n) = fixd 7 n.
Proof.
  intros Hn. unfold str_Z. destruct (Z.ltb_spec n 0); [lia|]. unfold digits.
  set (f := S (Z.to_nat (Z.log2 n))).
  assert (Hf : n < pow10 f).
  { destruct (Z.eq_dec n 0) as [->|NZ]; [cbn; lia|]. eapply Z.lt_le_trans; [|apply two_le_pow10].
    subst f. rewrite Nat2Z.inj_succ, Z2Nat.id by apply Z.log2_nonneg. apply Z.log2_spec. lia. }
  assert (K : exists k, 0 <= n < pow10 k /\ (1 <= k <= 7)%nat /\ (k <= f)%nat).
  { destruct (Nat.le_ge_cases f 7); [exists f | exists 7%nat]; subst f; repeat split; try lia. }
  destruct K as (k & K1 & K2 & K3). pose proof (digits_fuel_fixd f n k 7 K1 K2 K3) as E.
  pose proof (digits_fuel_range f n ltac:(lia)) as R. unfold zfill.
  destruct (digits_fuel f n) as [|c t] eqn:D; [rewrite app_nil_r in E; exact E|].
  inversion R as [|? ? Rc _]; subst. destruct (Z.eqb_spec c 45); [lia|]. destruct (Z.eqb_spec c 43); [lia|]. exact E.
Qed.

Definition lex_lt (x y : list Z) : Prop := exists p a b tx ty, x = p ++ a :: tx /\ y = p ++ b :: ty /\ a < b.
Lemma lex_lt_leb x y : lex_lt x y -> lex_leb x y = true.
Proof.
  intros (p & a & b & tx & ty & -> & -> & H). induction p as [|c p IH]; cbn [app lex_leb].
  - destruct (Z.ltb_spec a b); [reflexivity | lia].
  - rewrite Z.ltb_irrefl. exact IH.
Qed.
Lemma lex_lt_app x y u v : lex_lt x y -> lex_lt (x ++ u) (y ++ v).
Proof. intros (p & a & b & tx & ty & -> & -> & H). exists p, a, b, (tx ++ u), (ty ++ v). now rewrite <- !app_assoc. Qed.
Lemma lex_lt_prefix q x y : lex_lt x y -> lex_lt (q ++ x) (q ++ y).
Proof. intros (p & a & b & tx & ty & -> & -> & H). exists (q ++ p), a, b, tx, ty. now rewrite <- !app_assoc. Qed.

Lemma fixd_lt w : forall a b, 0 <= a < b -> b < pow10 w -> lex_lt (fixd w a) (fixd w b).
Proof.
  induction w as [|w IH]; intros a b Hab Hb; [cbn in Hb; lia|]. cbn [fixd pow10] in *.
  assert (Hd : a / 10 <= b / 10) by (apply Z.div_le_mono; lia).
  destruct (Z.eq_dec (a / 10) (b / 10)) as [E|NE].
  - rewrite E. exists (fixd w (b / 10)), (48 + a mod 10), (48 + b mod 10), [], []. repeat split.
    pose proof (Z.div_mod a 10 ltac:(lia)). pose proof (Z.div_mod b 10 ltac:(lia)). lia.
  - apply lex_lt_app, IH; [split; [apply Z.div_pos; lia | lia] | apply Z.div_lt_upper_bound; lia].
Qed.

Lemma name_lt pfx a b : 0 <= a < b -> b < pow10 7 -> lex_leb (taxon_name pfx a) (taxon_name pfx b) = true.
Proof.
  intros Hab Hb. unfold taxon_name. rewrite !zfill7_fixd by lia. apply lex_lt_leb, lex_lt_prefix, fixd_lt; assumption.
Qed.

(** * the raw progeny list is already sorted by (family label, name) when the names fit 7 digits *)
Fixpoint ndec (l : list nat) : Prop :=
  match l with x :: t => match t with y :: _ => (x <= y)%nat /\ ndec t | [] => True end | [] => True end.
Lemma ndec_repeat_app s c rest : Forall (fun x => (s <= x)%nat) rest -> ndec rest -> ndec (repeat s c ++ rest).
Proof.
  intros F N. induction c as [|c IH]; [exact N|]. cbn [repeat app]. cbn [ndec].
  destruct (repeat s c ++ rest) as [|y t] eqn:E; [exact I|]. split; [|exact IH].
  destruct c; cbn in E; [subst rest; now inversion F | injection E as <- _; lia].
Qed.
Lemma repeat_by_seq_sorted n : forall s cs, ndec (repeat_by (seq s n) cs) /\ Forall (fun x => (s <= x)%nat) (repeat_by (seq s n) cs).
Proof.
  induction n as [|n IH]; intros s [|c cs]; cbn [seq repeat_by]; try (split; [exact I | constructor]).
  destruct (IH (S s) cs) as [N F]. assert (F' : Forall (fun x => (s <= x)%nat) (repeat_by (seq (S s) n) cs)).
  { eapply Forall_impl; [|exact F]. cbn. intros; lia. }
  split; [now apply ndec_repeat_app|]. apply Forall_app. split; [|exact F'].
  apply Forall_forall. intros x Hx. apply repeat_spec in Hx. lia.
Qed.
Lemma who_ndec xc nm np : ndec (who xc nm np).
Proof. apply repeat_by_seq_sorted. Qed.

Lemma taxa_names_S pfx pc n : taxa_names pfx pc (S n) = taxon_name pfx pc :: taxa_names pfx (pc + 1) n.
Proof.
  unfold taxa_names. cbn [seq map]. rewrite Z.add_0_r. f_equal. rewrite <- seq_shift, map_map.
  apply map_ext. intros i. f_equal. lia.
Qed.

Lemma raw_sorted pfx fc w : ndec w -> forall pc c0 c1, 0 <= pc -> pc + Z.of_nat (length w) <= pow10 7 ->
  is_sorted (zip4 (map (fun i => fc + Z.of_nat i) w) (taxa_names pfx pc (length w)) c0 c1) = true.
Proof.
  induction w as [|i w IH]; intros N pc c0 c1 H0 H1; [reflexivity|].
  cbn [length] in *. rewrite taxa_names_S. cbn [map]. destruct c0 as [|a c0]; [reflexivity|]. destruct c1 as [|b c1]; [reflexivity|].
  cbn [zip4]. destruct w as [|i' w']; [reflexivity|]. cbn [ndec] in N. destruct N as [Le N'].
  specialize (IH N' (pc + 1) c0 c1 ltac:(lia) ltac:(cbn [length] in *; lia)).
  cbn [length] in *. rewrite taxa_names_S in *. cbn [map] in *. destruct c0 as [|a' c0]; [reflexivity|]. destruct c1 as [|b' c1]; [reflexivity|].
  cbn [zip4] in *. cbn [is_sorted]. cbn [is_sorted] in IH. rewrite IH, andb_true_r. cbn [key_leb].
  destruct (Z.ltb_spec (fc + Z.of_nat i) (fc + Z.of_nat i')); [reflexivity|]. cbn [orb].
  destruct (Z.eqb_spec (fc + Z.of_nat i) (fc + Z.of_nat i')); [|lia]. cbn [andb]. apply name_lt; lia.
Qed.

(** ** order: inside the 7-digit range group_taxa leaves the progeny in cross-configuration order *)
Lemma mate_order p geno xoprob meta xc nmating nprogeny nself pc fc draws x :
  mate p geno xoprob meta xc nmating nprogeny nself pc fc draws = Some x ->
  exists nm np, expand_count nmating (length xc) = Some nm /\ expand_count nprogeny (length xc) = Some np /\
    let N := sumn (map2 Nat.mul nm np) in
    (0 <= pc -> pc + Z.of_nat N <= 10000000 ->
     p_grp x = map (fun i => fc + Z.of_nat i) (who xc nm np) /\ p_taxa x = taxa_names (prefix p) pc N /\
     p_mat x = fst (core p geno xoprob xc nm np nself (rng0 draws))).
Proof.
  intros Hm. destruct (mate_Some _ _ _ _ _ _ _ _ _ _ _ _ Hm) as (nm & np & E1 & E2 & L1 & L2 & _ & _ & Hx).
  exists nm, np. split; [exact E1|]. split; [exact E2|]. cbn zeta in Hx. intros N H0 HN.
  destruct Hx as (Xm & Xt & Xg & _).
  destruct (mate_raw_spec p geno xoprob xc nm np nself pc fc (rng0 draws) L1 L2) as (c0 & c1 & Rm & K0 & K1 & _ & Rt & Rg & _).
  cbn zeta in *. rewrite (who_length xc nm np L1 L2) in *. fold N in K0, K1, Rt.
  set (raw := mate_raw p geno xoprob xc nm np nself pc fc (rng0 draws)) in *.
  destruct (group_taxa_fields raw) as (Gm & Gt & Gg). cbn zeta in Gm, Gt, Gg.
  rewrite Rm in Gm, Gt, Gg. cbn [nth] in Gm, Gt, Gg. rewrite Rt, Rg in Gm, Gt, Gg.
  assert (LW : length (who xc nm np) = N) by now apply who_length.
  assert (S : is_sorted (zip4 (map (fun i => fc + Z.of_nat i) (who xc nm np)) (taxa_names (prefix p) pc N) c0 c1) = true).
  { rewrite <- LW. apply raw_sorted; [apply who_ndec | exact H0 | rewrite LW; cbn; lia]. }
  rewrite (sort_id _ S) in Gm, Gt, Gg.
  destruct (zip4_unzip (map (fun i => fc + Z.of_nat i) (who xc nm np)) (taxa_names (prefix p) pc N) c0 c1) as (U1 & U2 & U3 & U4);
    try (rewrite map_length; lia); try (unfold taxa_names; rewrite !map_length, seq_length; lia).
  rewrite Xm, Xt, Xg, Gm, Gt, Gg, U1, U2, U3, U4. repeat split.
  unfold raw, mate_raw in Rm. destruct (core p geno xoprob xc nm np nself (rng0 draws)) as [g r']. cbn [p_mat] in Rm. cbn [fst]. now rewrite Rm.
Qed.


(** * sides of one mating: phase 0 is a gamete of the female selection, phase 1 of the male selection *)
Lemma mat_mate_sides fgeno mgeno fsel msel xoprob r : nonneg_draws (pending r) ->
  exists c0 c1, fst (mat_mate fgeno mgeno fsel msel xoprob r) = [c0; c1] /\
    Forall2 (fun s gam => mosaic xoprob (row fgeno 0 s) (row fgeno 1 s) gam) fsel c0 /\
    Forall2 (fun s gam => mosaic xoprob (row mgeno 0 s) (row mgeno 1 s) gam) msel c1.
Proof.
  intros Hn. unfold mat_mate, mat_meiosis. cbn [pending fst]. eexists _, _. split; [reflexivity|]. split; apply meiosis_rows_mosaic.
  - apply nonneg_draws_hd, Hn.
  - apply nonneg_draws_hd, nonneg_draws_tl, Hn.
Qed.

(** * marker metadata *)
Lemma progeny_meta_id m : progeny_meta m = m.
Proof. now destruct m. Qed.
Lemma mate_meta p geno xoprob meta xc nmating nprogeny nself pc fc draws x :
  mate p geno xoprob meta xc nmating nprogeny nself pc fc draws = Some x -> p_meta x = meta.
Proof.
  intros Hm. destruct (mate_Some _ _ _ _ _ _ _ _ _ _ _ _ Hm) as (nm & np & _ & _ & _ & _ & _ & _ & Hx).
  cbn zeta in Hx. destruct Hx as (_ & _ & _ & _ & _ & _ & _ & Xmeta & _). rewrite Xmeta. apply progeny_meta_id.
Qed.

Definition wit_geno : list (list (list Z)) := [[[0; 0]; [1; 1]]; [[0; 0]; [1; 1]]].
Definition wit_xoprob : list Q := [1 # 2; 1 # 4].
Definition wit_draws : list (list (list Q)) := [[[3 # 4; 3 # 4]; [3 # 4; 3 # 4]]; [[3 # 4; 3 # 4]; [3 # 4; 3 # 4]]].
Definition meta_none : vmeta := mkMeta None None None None None None None None None None None None None.
Definition wit_meta : vmeta := mkMeta None None None None None None (Some [65; 67]) (Some [71; 84]) None None None None None.

(** the hand-over used before the repair loses the hap-allele arrays of the parents *)
Lemma meta_dropped_refuted : exists meta l, vm_hapalt meta = Some l /\ vm_hapalt (progeny_meta_dropped meta) = None /\
  progeny_meta_dropped meta <> meta.
Proof. exists wit_meta, [65; 67]. repeat split. discriminate. Qed.

(** names crossing the 7-digit width inside a family are put out of cross-configuration order by group_taxa *)
Lemma order_refuted : exists p geno xoprob meta xc nm np nself pc fc draws x,
  mate p geno xoprob meta xc nm np nself pc fc draws = Some x /\ 0 <= pc /\
  p_taxa x = [taxon_name (prefix p) (pc + 1); taxon_name (prefix p) pc].
Proof.
  exists P2, wit_geno, wit_xoprob, meta_none, [[0; 1]%nat], (inl 1%nat), (inl 2%nat), 0%nat, 9999999, 0, wit_draws.
  eexists. split; [vm_compute; reflexivity|]. split; [lia|]. vm_compute. reflexivity.
Qed.

(** non-vacuity: a 3-taxa, 5-marker population, a three-way DH cross with one selfing generation; the hypotheses of the
    theorems hold, progeny are produced and a scripted crossover fires *)
Definition ex_geno : list (list (list Z)) :=
  [[[0; 1; 0; 1; 1]; [1; 1; 0; 0; 1]; [-1; 0; 1; 127; 0]]; [[1; 1; 1; 0; 0]; [0; 0; 0; 0; 1]; [1; -128; 0; 1; 1]]].
Definition ex_xoprob : list Q := [1 # 2; 1 # 10; 0 # 1; 1 # 2; 1 # 4].
Definition ex_row (k : Z) : list Q := [k # 8; 1 # 16; 0 # 1; 7 # 8; 1 # 8].
Definition ex_draws : list (list (list Q)) :=
  [[ex_row 1; ex_row 5]; [ex_row 7; ex_row 2]; [ex_row 3; ex_row 3]; [ex_row 6; ex_row 1]; [ex_row 2; ex_row 2]; [ex_row 5; ex_row 0];
   [ex_row 1; ex_row 7; ex_row 4; ex_row 0]].
Lemma ex_nonneg : nonneg_draws ex_draws.
Proof. repeat constructor; discriminate. Qed.
Lemma ex_runs : exists x, mate P3DH ex_geno ex_xoprob meta_none [[2; 0; 1]%nat] (inl 2%nat) (inl 2%nat) 1%nat 5 3 ex_draws = Some x /\
  length (p_taxa x) = 4%nat /\ p_reqs x = [(2, 5); (2, 5); (2, 5); (2, 5); (2, 5); (2, 5); (4, 5)]%nat /\
  nth 0 (p_mat x) [] <> nth 0 ex_geno [].
Proof. eexists. split; [vm_compute; reflexivity|]. split; [reflexivity|]. split; [reflexivity|]. vm_compute. discriminate. Qed.
