(** C10 — lemmas about Model/C10_Limits.v: the limits and the breeding values are sums over loci of per-locus terms;
    per-locus envelope, tightness and monotonicity; the same on populations and on abstract closed histories
    (histories in which the allele set of every locus only shrinks). *)
From Coq Require Import PrimFloat Lqa.
From PV Require Import Lib.Common Lib.FloatK.
From PV Require Import Model.C01_Meiosis Model.C01_Mating Model.C09_Stats Model.C10_Limits.
From PV Require Import Proofs.C09_Stats Proofs.C10_Float.
Local Open Scope Z_scope.

(** * 1. list plumbing *)
Lemma nth_map2 {A B C} (f : A -> B -> C) da db dc : forall l1 l2 k, (k < length l1)%nat -> (k < length l2)%nat ->
  nth k (map2 f l1 l2) dc = f (nth k l1 da) (nth k l2 db).
Proof. induction l1 as [|x l1 IH]; intros [|y l2] [|k] H1 H2; cbn in *; try lia; [reflexivity | apply IH; lia]. Qed.

Lemma map2_seq {A B C} (f : A -> B -> C) da db : forall l1 l2 n, length l1 = n -> length l2 = n ->
  map2 f l1 l2 = map (fun j => f (nth j l1 da) (nth j l2 db)) (seq 0 n).
Proof.
  induction l1 as [|x l1 IH]; intros [|y l2] [|n] H1 H2; cbn in *; try discriminate; [reflexivity|].
  f_equal. rewrite <- seq_shift, map_map. apply IH; lia.
Qed.

Lemma nth_map' {A B} (f : A -> B) da db l k : (k < length l)%nat -> nth k (map f l) db = f (nth k l da).
Proof. intros H. rewrite (nth_indep _ db (f da)) by (now rewrite map_length). apply map_nth. Qed.

Lemma colsumsQ_length t rows : Forall (fun r => length r = t) rows -> length (colsumsQ t rows) = t.
Proof. induction 1 as [|r rows Hr _ IH]; cbn [colsumsQ fold_right]; [apply repeat_length|]. fold (colsumsQ t rows). rewrite map2_length, Hr, IH. apply Nat.min_id. Qed.

Lemma nth_colsumsQ t k rows : (k < t)%nat -> Forall (fun r => length r = t) rows ->
  nth k (colsumsQ t rows) 0%Q = sumQ (map (fun r => nth k r 0%Q) rows).
Proof.
  intros Hk. induction 1 as [|r rows Hr Hrows IH]; cbn [colsumsQ fold_right map sumQ].
  - apply nth_repeat.
  - fold (colsumsQ t rows) (sumQ (map (fun r => nth k r 0%Q) rows)).
    rewrite (nth_map2 Qplus 0%Q 0%Q) by (rewrite ?colsumsQ_length by assumption; lia). now rewrite IH.
Qed.

Lemma sumQ_map_le {A} (f g : A -> Q) l : (forall x, In x l -> (f x <= g x)%Q) -> (sumQ (map f l) <= sumQ (map g l))%Q.
Proof.
  induction l as [|a l IH]; intros H; cbn [map sumQ fold_right]; [apply Qle_refl|].
  fold (sumQ (map f l)) (sumQ (map g l)). apply Qplus_le_compat; [apply H; now left | apply IH; intros x Hx; apply H; now right].
Qed.
Lemma sumQ_map_eq {A} (f g : A -> Q) l : (forall x, In x l -> (f x == g x)%Q) -> (sumQ (map f l) == sumQ (map g l))%Q.
Proof.
  induction l as [|a l IH]; intros H; cbn [map sumQ fold_right]; [reflexivity|].
  fold (sumQ (map f l)) (sumQ (map g l)). rewrite (H a) by now left. rewrite IH; [reflexivity|]. intros x Hx; apply H; now right.
Qed.

(** * 2. limits and breeding values as sums over loci *)
Definition ujk (u : list (list Q)) (j k : nat) : Q := nth k (nth j u []) 0%Q.
Definition model_ok (p t : nat) (u : list (list Q)) : Prop := length u = p /\ Forall (fun r => length r = t) u.

Lemma limit_numpy_nth ind t ploidy u freq p k : model_ok p t u -> length freq = p -> (k < t)%nat ->
  nth k (limit_numpy ind t ploidy u freq) 0%Q =
  sumQ (map (fun j => (inject_Z ploidy * ujk u j k * b2q (ind (ujk u j k) (nth j freq 0%float)))%Q) (seq 0 p)).
Proof.
  intros [Lu Hu] Lf Hk. unfold limit_numpy, limit_rows. rewrite (map2_seq _ [] 0%float u freq p Lu Lf).
  rewrite nth_colsumsQ; [|exact Hk|].
  - rewrite map_map. apply f_equal. apply map_ext_in. intros j Hj. apply in_seq in Hj.
    assert (Lr : length (nth j u []) = t) by (rewrite Forall_forall in Hu; apply Hu, nth_In; lia).
    rewrite (nth_map' _ 0%Q) by lia. reflexivity.
  - apply Forall_forall. intros r Hr. apply in_map_iff in Hr as (j & <- & Hj). apply in_seq in Hj. rewrite map_length.
    rewrite Forall_forall in Hu. apply Hu, nth_In. lia.
Qed.

Lemma gebv_row_nth t u z p k : model_ok p t u -> length z = p -> (k < t)%nat ->
  nth k (gebv_row t u z) 0%Q = sumQ (map (fun j => (inject_Z (nth j z 0%Z) * ujk u j k)%Q) (seq 0 p)).
Proof.
  intros [Lu Hu] Lz Hk. unfold gebv_row. rewrite (map2_seq _ 0 [] z u p Lz Lu).
  rewrite nth_colsumsQ; [|exact Hk|].
  - rewrite map_map. apply f_equal. apply map_ext_in. intros j Hj. apply in_seq in Hj.
    assert (Lr : length (nth j u []) = t) by (rewrite Forall_forall in Hu; apply Hu, nth_In; lia).
    rewrite (nth_map' _ 0%Q) by lia. reflexivity.
  - apply Forall_forall. intros r Hr. apply in_map_iff in Hr as (j & <- & Hj). apply in_seq in Hj. rewrite map_length.
    rewrite Forall_forall in Hu. apply Hu, nth_In. lia.
Qed.

(** * 3. per-locus facts (exact rationals) *)
Lemma Qpos_true u : Qpos u = true -> (0 < u)%Q.
Proof. unfold Qpos. intros H. apply negb_true_iff in H. apply Qnot_le_lt. intro L. apply Qle_bool_iff in L. congruence. Qed.
Lemma Qpos_false u : Qpos u = false -> (u <= 0)%Q.
Proof. unfold Qpos. intros H. apply negb_false_iff in H. now apply Qle_bool_iff. Qed.

(** envelope: an individual's contribution d*u (d = its dosage in 0..2) lies between the per-locus limit terms *)
Lemma term_bracket (u : Q) (c N d : Z) : 0 < N -> 0 <= c <= N -> 0 <= d <= 2 -> (c = 0 -> d = 0) -> (c = N -> d = 2) ->
  (2 * u * b2q (lsl_cnt u c N) <= inject_Z d * u)%Q /\ (inject_Z d * u <= 2 * u * b2q (usl_cnt u c N))%Q.
Proof.
  intros HN Hc Hd H0 H2. unfold lsl_cnt, usl_cnt.
  assert (D : d = 0 \/ d = 1 \/ d = 2) by lia.
  destruct (Z.eqb_spec c N) as [E|E].
  - rewrite (H2 E). destruct (Z.ltb_spec 0 c) as [L|L]; [|lia].
    destruct (Qpos u) eqn:P; [apply Qpos_true in P | apply Qpos_false in P]; cbn [b2q]; unfold inject_Z; split; lra.
  - destruct (Z.ltb_spec 0 c) as [L|L].
    + destruct (Qpos u) eqn:P; [apply Qpos_true in P | apply Qpos_false in P]; cbn [b2q];
        destruct D as [-> | [-> | ->]]; unfold inject_Z; split; lra.
    + assert (Hz : c = 0) by lia. rewrite (H0 Hz).
      destruct (Qpos u) eqn:P; [apply Qpos_true in P | apply Qpos_false in P]; cbn [b2q]; unfold inject_Z; split; lra.
Qed.

(** tightness: at a fixed locus the two limit terms coincide with the contribution of every individual *)
Lemma term_fixed (u : Q) (c N d : Z) : 0 < N -> (c = 0 \/ c = N) -> (c = 0 -> d = 0) -> (c = N -> d = 2) ->
  (2 * u * b2q (lsl_cnt u c N) == inject_Z d * u)%Q /\ (2 * u * b2q (usl_cnt u c N) == inject_Z d * u)%Q.
Proof.
  intros HN Hc H0 H2. unfold lsl_cnt, usl_cnt. destruct Hc as [E|E].
  - rewrite (H0 E). subst c. destruct (Z.eqb_spec 0 N); [lia|]. change (0 <? 0) with false. destruct (Qpos u); cbn [b2q]; unfold inject_Z; split; lra.
  - rewrite (H2 E). subst c. rewrite Z.eqb_refl. destruct (Z.ltb_spec 0 N); [|lia]. destruct (Qpos u); cbn [b2q]; unfold inject_Z; split; lra.
Qed.

(** monotonicity: if no allele reappears (present later -> present before; fixed before -> fixed later) the upper term
    does not increase and the lower term does not decrease; the sizes N, N' of the two generations are unrelated *)
Lemma term_mono (u : Q) (c N c' N' : Z) : (0 < c' -> 0 < c) -> (c = N -> c' = N') ->
  (2 * u * b2q (usl_cnt u c' N') <= 2 * u * b2q (usl_cnt u c N))%Q /\ (2 * u * b2q (lsl_cnt u c N) <= 2 * u * b2q (lsl_cnt u c' N'))%Q.
Proof.
  intros H1 H2. unfold lsl_cnt, usl_cnt.
  destruct (Qpos u) eqn:P; [apply Qpos_true in P | apply Qpos_false in P];
    destruct (Z.eqb_spec c N) as [E|E]; destruct (Z.eqb_spec c' N') as [E'|E']; destruct (Z.ltb_spec 0 c) as [L|L]; destruct (Z.ltb_spec 0 c') as [L'|L'];
    cbn [b2q]; try (exfalso; lia); try (exfalso; apply E'; apply H2; exact E); split; lra.
Qed.

(** * 4. populations: alleles present at a locus, counts, dosages *)
Definition alleles (j : nat) (geno : list (list (list Z))) : list Z := col 0 j (concat geno).
Definition cnt (j : nat) (geno : list (list (list Z))) : Z := sumZ (alleles j geno).
Definition dos (geno : list (list (list Z))) (s j : nat) : Z := nth j (row geno 0 s) 0 + nth j (row geno 1 s) 0.
(** a diploid phased population of n >= 1 individuals and p loci with alleles in {0,1}; 2n copies fit the exact-integer range of binary64 *)
Definition wf (n p : nat) (geno : list (list (list Z))) : Prop :=
  length geno = 2%nat /\ phases_ok n p geno /\ alleles01 geno /\ (0 < n)%nat /\ 2 * Z.of_nat n <= 2^53.
Notation b01 := (fun x : Z => x = 0 \/ x = 1).

Lemma wf_ntaxa n p geno : wf n p geno -> ntaxa_of geno = n.
Proof.
  intros (L & Hp & _). destruct geno as [|c0 [|c1 [|]]]; try discriminate. unfold ntaxa_of. cbn [nth].
  apply Forall_inv in Hp. now destruct Hp.
Qed.
Lemma alleles_01 n p geno j : wf n p geno -> Forall b01 (alleles j geno).
Proof. intros (_ & _ & Ha & _). apply col_Forall; [now left | now apply concat_alleles01]. Qed.
Lemma alleles_len n p geno j : wf n p geno -> Z.of_nat (length (alleles j geno)) = 2 * Z.of_nat n.
Proof. intros (L & Hp & _). unfold alleles, col. rewrite map_length, (concat_length_phases n p) by assumption. rewrite L. lia. Qed.

Lemma sum01_bounds l : Forall b01 l -> 0 <= sumZ l <= Z.of_nat (length l).
Proof. intros H. now destruct (all0_iff_sum0 l H). Qed.
Lemma sum01_pos l : Forall b01 l -> (0 < sumZ l <-> In 1 l).
Proof.
  induction 1 as [|x l Hx Hl IH]; cbn [sumZ fold_right In]; [split; [lia|tauto]|]. fold (sumZ l).
  pose proof (sum01_bounds l Hl). destruct Hx as [-> | ->]; split; intros; try lia.
  - right. apply IH. lia.
  - destruct H0 as [?|?]; [lia|]. apply IH in H0. lia.
Qed.
Lemma sum01_full l : Forall b01 l -> (sumZ l = Z.of_nat (length l) <-> ~ In 0 l).
Proof.
  induction 1 as [|x l Hx Hl IH]; cbn [sumZ fold_right In length]; [split; [tauto|reflexivity]|]. fold (sumZ l).
  pose proof (sum01_bounds l Hl). rewrite Nat2Z.inj_succ. destruct Hx as [-> | ->]; split; intros.
  - lia.
  - exfalso. apply H0. now left.
  - intros [?|?]; [lia|]. apply IH in H1; [exact H1|lia].
  - assert (sumZ l = Z.of_nat (length l)) by (apply IH; tauto). lia.
Qed.

Lemma cnt_bounds n p geno j : wf n p geno -> 0 <= cnt j geno <= 2 * Z.of_nat n.
Proof. intros H. unfold cnt. rewrite <- (alleles_len n p geno j H). apply sum01_bounds. eapply alleles_01; eauto. Qed.

Lemma row_in_concat n p geno ph s : wf n p geno -> (ph < 2)%nat -> (s < n)%nat -> In (row geno ph s) (concat geno).
Proof.
  intros (L & Hp & _) Hph Hs. destruct geno as [|c0 [|c1 [|]]]; try discriminate.
  inversion Hp as [|? ? [L0 _] Hp']; subst. inversion Hp' as [|? ? [L1 _] _]; subst.
  unfold row. cbn [concat]. rewrite app_nil_r. apply in_or_app.
  destruct ph as [|[|]]; [left|right|lia]; cbn [nth]; apply nth_In; lia.
Qed.
Lemma allele_in n p geno ph s j : wf n p geno -> (ph < 2)%nat -> (s < n)%nat -> In (nth j (row geno ph s) 0) (alleles j geno).
Proof. intros. unfold alleles, col. apply (in_map (fun r => nth j r 0)). eapply row_in_concat; eauto. Qed.
Lemma allele_src n p geno j a : wf n p geno -> In a (alleles j geno) -> exists ph s, (ph < 2)%nat /\ (s < n)%nat /\ a = nth j (row geno ph s) 0.
Proof.
  intros (L & Hp & _) Ha. destruct geno as [|c0 [|c1 [|]]]; try discriminate.
  inversion Hp as [|? ? [L0 _] Hp']; subst. inversion Hp' as [|? ? [L1 _] _]; subst.
  unfold alleles, col in Ha. apply in_map_iff in Ha as (r & <- & Hr). cbn [concat] in Hr. rewrite app_nil_r in Hr.
  apply in_app_or in Hr as [Hr|Hr]; apply (In_nth _ _ []) in Hr as (s & Hs & <-); [exists 0%nat | exists 1%nat]; exists s; unfold row; cbn [nth]; repeat split; lia.
Qed.

Lemma dos_facts n p geno s j : wf n p geno -> (s < n)%nat ->
  0 <= dos geno s j <= 2 /\ (cnt j geno = 0 -> dos geno s j = 0) /\ (cnt j geno = 2 * Z.of_nat n -> dos geno s j = 2).
Proof.
  intros H Hs. pose proof (alleles_01 n p geno j H) as H01. rewrite Forall_forall in H01.
  pose proof (allele_in n p geno 0 s j H ltac:(lia) Hs) as I0. pose proof (allele_in n p geno 1 s j H ltac:(lia) Hs) as I1.
  pose proof (H01 _ I0) as A0. pose proof (H01 _ I1) as A1. unfold dos. split; [lia|]. split; intros Hc.
  - assert (N1 : ~ In 1 (alleles j geno)).
    { intro I. apply sum01_pos in I; [|now apply Forall_forall]. unfold cnt in Hc. lia. }
    destruct A0 as [E0|E0], A1 as [E1|E1]; rewrite ?E0, ?E1 in *; try lia; exfalso; apply N1; assumption.
  - assert (N0 : ~ In 0 (alleles j geno)).
    { apply sum01_full; [now apply Forall_forall|]. unfold cnt in Hc. rewrite Hc. symmetry. eapply alleles_len; eauto. }
    destruct A0 as [E0|E0], A1 as [E1|E1]; rewrite ?E0, ?E1 in *; try lia; exfalso; apply N0; assumption.
Qed.

Lemma dosage_shape n p geno : wf n p geno -> shape_ok n p (dosage n p geno).
Proof. intros (_ & Hp & _). now apply tacount_ph_shape. Qed.

Lemma dosage_nth n p geno s j : wf n p geno -> (s < n)%nat -> (j < p)%nat -> nth j (nth s (dosage n p geno) []) 0 = dos geno s j.
Proof.
  intros (L & Hp & _) Hs Hj. destruct geno as [|c0 [|c1 [|]]]; try discriminate.
  inversion Hp as [|? ? S0 Hp']; subst. inversion Hp' as [|? ? S1 _]; subst.
  unfold dosage, tacount_ph, dos, row. cbn [fold_right nth].
  pose proof (zeros_shape n p) as SZ. pose proof (madd_shape n p _ _ S1 SZ) as S1Z.
  destruct S0 as [L0 R0], S1 as [L1 R1], SZ as [LZ RZ], S1Z as [L1Z R1Z]. rewrite Forall_forall in R0, R1, RZ, R1Z.
  unfold madd at 1. rewrite (nth_map2 _ [] [] []) by lia.
  rewrite (nth_map2 _ 0 0 0); [| rewrite R0 by (apply nth_In; lia); lia | rewrite R1Z by (apply nth_In; lia); lia].
  unfold madd. rewrite (nth_map2 _ [] [] []) by lia.
  rewrite (nth_map2 _ 0 0 0); [| rewrite R1 by (apply nth_In; lia); lia | rewrite RZ by (apply nth_In; lia); lia].
  unfold zeros. rewrite (nth_indep (repeat (repeat 0 p) n) [] (repeat 0 p)) by (rewrite repeat_length; lia). rewrite nth_repeat, nth_repeat. lia.
Qed.

Lemma acount_nth n p geno j : wf n p geno -> (j < p)%nat -> nth j (acount_ph p geno) 0 = cnt j geno.
Proof. intros (_ & Hp & _) Hj. unfold acount_ph, cnt, alleles. apply nth_colsumsZ. now apply (concat_rows_ok n). Qed.
Lemma freq_len n p geno : wf n p geno -> length (freq_phased n p geno) = p.
Proof. intros (_ & Hp & _). unfold freq_phased, afreq_ph_f, acount_ph. rewrite map_length. apply colsumsZ_length. now apply (concat_rows_ok n). Qed.
Lemma freq_nth n p geno j : wf n p geno -> (j < p)%nat ->
  nth j (freq_phased n p geno) 0%float = afreq_f1 (cnt j geno) (2 * Z.of_nat n).
Proof.
  intros H Hj. pose proof (freq_len n p geno H) as Lf. unfold freq_phased, afreq_ph_f in *. rewrite map_length in Lf.
  rewrite (nth_map' _ 0) by lia. rewrite (acount_nth n p) by assumption. destruct H as (L & _). unfold nphase. now rewrite L.
Qed.

(** * 5. the limits of a population in terms of counts *)
Definition usl_spec (n p : nat) (u : list (list Q)) geno (k : nat) : Q :=
  sumQ (map (fun j => (2 * ujk u j k * b2q (usl_cnt (ujk u j k) (cnt j geno) (2 * Z.of_nat n)))%Q) (seq 0 p)).
Definition lsl_spec (n p : nat) (u : list (list Q)) geno (k : nat) : Q :=
  sumQ (map (fun j => (2 * ujk u j k * b2q (lsl_cnt (ujk u j k) (cnt j geno) (2 * Z.of_nat n)))%Q) (seq 0 p)).
Definition gebv_spec (p : nat) (u : list (list Q)) geno (s k : nat) : Q :=
  sumQ (map (fun j => (inject_Z (dos geno s j) * ujk u j k)%Q) (seq 0 p)).

Lemma usl_is_spec t n p u geno k : wf n p geno -> model_ok p t u -> (k < t)%nat -> nth k (usl t n p u geno) 0%Q = usl_spec n p u geno k.
Proof.
  intros H Hu Hk. unfold usl, usl_numpy, usl_spec. rewrite (limit_numpy_nth _ t _ u _ p k Hu (freq_len n p geno H) Hk).
  apply f_equal. apply map_ext_in. intros j Hj. apply in_seq in Hj. rewrite (freq_nth n p) by (assumption || lia).
  pose proof (cnt_bounds n p geno j H). destruct H as (L & _ & _ & Hn & Hb).
  rewrite usl_ind_cnt by lia. unfold nphase. rewrite L. reflexivity.
Qed.
Lemma lsl_is_spec t n p u geno k : wf n p geno -> model_ok p t u -> (k < t)%nat -> nth k (lsl t n p u geno) 0%Q = lsl_spec n p u geno k.
Proof.
  intros H Hu Hk. unfold lsl, lsl_numpy, lsl_spec. rewrite (limit_numpy_nth _ t _ u _ p k Hu (freq_len n p geno H) Hk).
  apply f_equal. apply map_ext_in. intros j Hj. apply in_seq in Hj. rewrite (freq_nth n p) by (assumption || lia).
  pose proof (cnt_bounds n p geno j H). destruct H as (L & _ & _ & Hn & Hb).
  rewrite lsl_ind_cnt by lia. unfold nphase. rewrite L. reflexivity.
Qed.
Lemma gebv_is_spec t n p u geno s k : wf n p geno -> model_ok p t u -> (s < n)%nat -> (k < t)%nat ->
  nth k (nth s (gebv_numpy t u (dosage n p geno)) []) 0%Q = gebv_spec p u geno s k.
Proof.
  intros H Hu Hs Hk. destruct (dosage_shape n p geno H) as [Ld Rd]. rewrite Forall_forall in Rd.
  unfold gebv_numpy, gebv_spec. rewrite (nth_map' _ []) by lia.
  rewrite (gebv_row_nth t u _ p k Hu) by (try apply Rd, nth_In; lia).
  apply f_equal. apply map_ext_in. intros j Hj. apply in_seq in Hj. now rewrite (dosage_nth n p) by (assumption || lia).
Qed.

(** * 6. envelope, tightness, monotonicity, lost-stays-lost on populations *)
Lemma pop_brackets t n p u geno s k : wf n p geno -> model_ok p t u -> (s < n)%nat -> (k < t)%nat ->
  (nth k (lsl t n p u geno) 0 <= nth k (nth s (gebv_numpy t u (dosage n p geno)) []) 0)%Q /\
  (nth k (nth s (gebv_numpy t u (dosage n p geno)) []) 0 <= nth k (usl t n p u geno) 0)%Q.
Proof.
  intros H Hu Hs Hk. rewrite (usl_is_spec t n p), (lsl_is_spec t n p), (gebv_is_spec t n p) by assumption.
  unfold usl_spec, lsl_spec, gebv_spec. pose proof H as (_ & _ & _ & Hn & _).
  split; apply sumQ_map_le; intros j _; destruct (dos_facts n p geno s j H Hs) as (D1 & D2 & D3); pose proof (cnt_bounds n p geno j H) as B;
    destruct (term_bracket (ujk u j k) (cnt j geno) (2 * Z.of_nat n) (dos geno s j) ltac:(lia) B D1 D2 D3) as [T1 T2]; assumption.
Qed.

(** every locus is monomorphic: all chromosome copies carry the same allele *)
Definition fixed_all (p : nat) (geno : list (list (list Z))) : Prop :=
  forall j, (j < p)%nat -> forall a b, In a (alleles j geno) -> In b (alleles j geno) -> a = b.
Lemma fixed_cnt n p geno j : wf n p geno -> (forall a b, In a (alleles j geno) -> In b (alleles j geno) -> a = b) ->
  cnt j geno = 0 \/ cnt j geno = 2 * Z.of_nat n.
Proof.
  intros H Hm. pose proof (alleles_01 n p geno j H) as H01. pose proof (cnt_bounds n p geno j H) as B. unfold cnt in *.
  destruct (Z.eq_dec (sumZ (alleles j geno)) 0) as [E|E]; [now left|right].
  assert (I1 : In 1 (alleles j geno)) by (apply sum01_pos; [assumption|lia]).
  rewrite <- (alleles_len n p geno j H). apply sum01_full; [assumption|]. intro I0. specialize (Hm _ _ I0 I1). lia.
Qed.

Lemma pop_fixed_tight t n p u geno s k : wf n p geno -> model_ok p t u -> fixed_all p geno -> (s < n)%nat -> (k < t)%nat ->
  (nth k (lsl t n p u geno) 0 == nth k (nth s (gebv_numpy t u (dosage n p geno)) []) 0)%Q /\
  (nth k (usl t n p u geno) 0 == nth k (nth s (gebv_numpy t u (dosage n p geno)) []) 0)%Q.
Proof.
  intros H Hu Hf Hs Hk. rewrite (usl_is_spec t n p), (lsl_is_spec t n p), (gebv_is_spec t n p) by assumption.
  unfold usl_spec, lsl_spec, gebv_spec. pose proof H as (_ & _ & _ & Hn & _).
  split; apply sumQ_map_eq; intros j Hj; apply in_seq in Hj; destruct (dos_facts n p geno s j H Hs) as (D1 & D2 & D3);
    pose proof (fixed_cnt n p geno j H (Hf j ltac:(lia))) as F;
    destruct (term_fixed (ujk u j k) (cnt j geno) (2 * Z.of_nat n) (dos geno s j) ltac:(lia) F D2 D3) as [T1 T2]; assumption.
Qed.

(** the allele set of every locus only shrinks from [prev] to [next] *)
Definition shrinks (p : nat) (prev next : list (list (list Z))) : Prop :=
  forall j a, (j < p)%nat -> In a (alleles j next) -> In a (alleles j prev).
Lemma shrinks_refl p g : shrinks p g g.
Proof. intros j a _ H. exact H. Qed.
Lemma shrinks_trans p a b c : shrinks p a b -> shrinks p b c -> shrinks p a c.
Proof. intros H1 H2 j x Hj Hx. apply H1, H2; assumption. Qed.

Lemma shrinks_cnt n n' p prev next j : wf n p prev -> wf n' p next -> shrinks p prev next -> (j < p)%nat ->
  (0 < cnt j next -> 0 < cnt j prev) /\ (cnt j prev = 2 * Z.of_nat n -> cnt j next = 2 * Z.of_nat n') /\ (cnt j prev = 0 -> cnt j next = 0).
Proof.
  intros H H' Hs Hj. pose proof (alleles_01 n p prev j H) as A. pose proof (alleles_01 n' p next j H') as A'.
  pose proof (cnt_bounds n' p next j H') as B'. unfold cnt in *.
  assert (P1 : 0 < sumZ (alleles j next) -> 0 < sumZ (alleles j prev)).
  { intros L. apply sum01_pos; [assumption|]. apply Hs; [assumption|]. now apply sum01_pos. }
  split; [exact P1|]. split.
  - intros E. rewrite <- (alleles_len n' p next j H'). apply sum01_full; [assumption|]. intro I0. apply Hs in I0; [|assumption].
    revert I0. apply sum01_full; [assumption|]. rewrite E. symmetry. eapply alleles_len; eauto.
  - intros E. destruct (Z.eq_dec (sumZ (alleles j next)) 0) as [Z0|Z0]; [exact Z0|]. assert (0 < sumZ (alleles j next)) by lia. apply P1 in H0. lia.
Qed.

Lemma pop_monotone t n n' p u prev next k : wf n p prev -> wf n' p next -> model_ok p t u -> shrinks p prev next -> (k < t)%nat ->
  (nth k (usl t n' p u next) 0 <= nth k (usl t n p u prev) 0)%Q /\ (nth k (lsl t n p u prev) 0 <= nth k (lsl t n' p u next) 0)%Q.
Proof.
  intros H H' Hu Hs Hk. rewrite !(usl_is_spec t _ p), !(lsl_is_spec t _ p) by assumption. unfold usl_spec, lsl_spec.
  split; apply sumQ_map_le; intros j Hj; apply in_seq in Hj; destruct (shrinks_cnt n n' p prev next j H H' Hs ltac:(lia)) as (C1 & C2 & _);
    destruct (term_mono (ujk u j k) (cnt j prev) (2 * Z.of_nat n) (cnt j next) (2 * Z.of_nat n') C1 C2) as [T1 T2]; assumption.
Qed.

Lemma pop_lost n n' p prev next j : wf n p prev -> wf n' p next -> shrinks p prev next -> (j < p)%nat ->
  (PrimFloat.eqb (nth j (freq_phased n p prev) 0%float) 0%float = true -> PrimFloat.eqb (nth j (freq_phased n' p next) 0%float) 0%float = true) /\
  (PrimFloat.eqb (nth j (freq_phased n p prev) 0%float) 1%float = true -> PrimFloat.eqb (nth j (freq_phased n' p next) 0%float) 1%float = true).
Proof.
  intros H H' Hs Hj. rewrite (freq_nth n p), (freq_nth n' p) by assumption.
  pose proof (cnt_bounds n p prev j H) as B. pose proof (cnt_bounds n' p next j H') as B'.
  destruct (shrinks_cnt n n' p prev next j H H' Hs Hj) as (_ & C2 & C3).
  destruct H as (_ & _ & _ & Hn & Hb). destruct H' as (_ & _ & _ & Hn' & Hb').
  destruct (afreq_f1_boundary (cnt j prev) (2 * Z.of_nat n) B ltac:(lia)) as (E1 & E0 & _).
  destruct (afreq_f1_boundary (cnt j next) (2 * Z.of_nat n') B' ltac:(lia)) as (E1' & E0' & _).
  split; intros E; [apply E0', C3, E0, E | apply E1', C2, E1, E].
Qed.

(** * 7. the three routes to the limits agree (phased object, unphased object / raw dosage array with ploidy 2) *)
Lemma freq_routes n p geno : wf n p geno -> freq_dosage 2 n p geno = freq_phased n p geno.
Proof.
  intros H. pose proof (dosage_shape n p geno H) as [Ld _]. destruct H as (L & Hp & _).
  unfold freq_dosage, freq_phased, afreq_f, afreq_ph_f, dosage in *. rewrite <- (acount_phased_eq_projection n p geno Hp).
  unfold ntaxa, nphase. now rewrite Ld, L.
Qed.
Lemma usl_routes t n p u geno : wf n p geno -> usl_dosage t n p 2 u geno = usl t n p u geno /\ lsl_dosage t n p 2 u geno = lsl t n p u geno.
Proof.
  intros H. unfold usl_dosage, lsl_dosage, usl, lsl. rewrite (freq_routes n p geno H). destruct H as (L & _). unfold nphase. rewrite L. split; reflexivity.
Qed.

(** * 8. unscale = True: the same intercept is added to the limits and to the breeding values *)
Lemma limit_rows_ok ind ploidy t p u freq : model_ok p t u -> length freq = p -> Forall (fun r => length r = t) (limit_rows ind ploidy u freq).
Proof.
  intros [Lu Hu] Lf. unfold limit_rows. rewrite (map2_seq _ [] 0%float u freq p Lu Lf).
  apply Forall_forall. intros r Hr. apply in_map_iff in Hr as (j & <- & Hj). apply in_seq in Hj. rewrite map_length.
  rewrite Forall_forall in Hu. apply Hu, nth_In. lia.
Qed.
Lemma usl_length t n p u geno : wf n p geno -> model_ok p t u -> length (usl t n p u geno) = t /\ length (lsl t n p u geno) = t.
Proof.
  intros H Hu. unfold usl, lsl, usl_numpy, lsl_numpy, limit_numpy. split; apply colsumsQ_length; apply (limit_rows_ok _ _ t p); auto using freq_len.
Qed.
Lemma gebv_row_length t p u z : model_ok p t u -> length z = p -> length (gebv_row t u z) = t.
Proof.
  intros [Lu Hu] Lz. unfold gebv_row. apply colsumsQ_length. rewrite (map2_seq _ 0 [] z u p Lz Lu).
  apply Forall_forall. intros r Hr. apply in_map_iff in Hr as (j & <- & Hj). apply in_seq in Hj. rewrite map_length.
  rewrite Forall_forall in Hu. apply Hu, nth_In. lia.
Qed.
Lemma location_length t beta : Forall (fun r => length r = t) beta -> length (location t beta) = t.
Proof.
  intros Hb. unfold location. apply colsumsQ_length. remember (xstar (length beta)) as w. clear Heqw. revert w.
  induction Hb as [|r beta Hr _ IH]; intros [|x w]; cbn [map2]; constructor; [now rewrite map_length | apply IH].
Qed.
Lemma qadd_nth a b k : (k < length a)%nat -> (k < length b)%nat -> nth k (qadd_l a b) 0%Q = (nth k a 0 + nth k b 0)%Q.
Proof. intros. unfold qadd_l. now apply nth_map2. Qed.

Lemma pop_brackets_unscaled t n p u beta geno s k : wf n p geno -> model_ok p t u -> Forall (fun r => length r = t) beta ->
  (s < n)%nat -> (k < t)%nat ->
  (nth k (lsl_unscaled t n p u beta geno) 0 <= nth k (nth s (gebv_unscaled t u beta (dosage n p geno)) []) 0)%Q /\
  (nth k (nth s (gebv_unscaled t u beta (dosage n p geno)) []) 0 <= nth k (usl_unscaled t n p u beta geno) 0)%Q.
Proof.
  intros H Hu Hb Hs Hk. destruct (pop_brackets t n p u geno s k H Hu Hs Hk) as [B1 B2].
  destruct (usl_length t n p u geno H Hu) as [LU LL]. pose proof (location_length t beta Hb) as Lloc.
  destruct (dosage_shape n p geno H) as [Ld Rd]. rewrite Forall_forall in Rd.
  unfold lsl_unscaled, usl_unscaled, gebv_unscaled. rewrite !qadd_nth by lia.
  unfold gebv_numpy in *. rewrite map_map. rewrite (nth_map' _ []) by lia. rewrite (nth_map' _ []) in B1, B2 by lia.
  rewrite qadd_nth; [| rewrite (gebv_row_length t p) by (auto; apply Rd, nth_In; lia); lia | lia].
  split; apply Qplus_le_compat; try assumption; apply Qle_refl.
Qed.

(** * 9. the frequency formula used before the fix breaks tightness: 49 diploids fixed for an unfavourable allele *)
Lemma reciprocal_refuted :
  let f := afreq_recip_f1 98 98 in
  usl_numpy 1 2 [[(-1)%Q]] [f] = [0%Q] /\ lsl_numpy 1 2 [[1%Q]] [f] = [0%Q] /\
  usl_numpy 1 2 [[(-1)%Q]] [afreq_f1 98 98] = [(2 * -1 * 1 + 0)%Q].
Proof. vm_compute. repeat split. Qed.
